/-
  C14 — one well-formed reply per request; no input crashes the server.

  "For any request a client can send - any command name, any number of arguments, any bytes in them,
  alone, pipelined or inside a transaction block - the server sends back exactly one complete,
  well-formed reply, keeps the connection in step for the requests that follow, and keeps running
  and serving all other clients. No input crashes the process, hangs a connection or leaves a reply
  half-written."

  The statements are about the Lean model of the handler chain (`Model/Wire/Server.lean`:
  `parse → multi → handle → handleMulti / handleSingle`) and of every command's `Run`
  (`Cmd/Run.lean`), for EVERY connection state, EVERY table state, EVERY clock value and EVERY
  request. Replies are token lists (one token per `redis.Writer` call); `wellFormedOne` says a token
  list is exactly one complete RESP value, and `wellFormedOne_on_the_wire` ties that to bytes through
  the encoder/decoder of C17.

  "No input crashes the process" now HOLDS in the model: `no_request_crashes` (D11, a negative
  `numkeys` panicking inside `command.Parse`, has been repaired; witness `negative_numkeys_is_refused`:
  the request gets exactly one error reply).
  "Exactly one complete, well-formed reply", alone or inside a transaction block, HOLDS as well:
  `one_reply` — for every connection state (idle or queuing, any queue), every table state and every request
  inside the model's domain. D12 (`EXEC` announced `*n` and stopped writing at the first queued command that
  failed) has been repaired: every queued command runs and writes its reply, the first error rolls the block
  back (`exec_one_reply`; former witness `exec_reply_short`, now `exec_reply_complete`).
  Inside MULTI: `in_multi_one_reply` (everything but EXEC) and `exec_one_reply`.
  `InModel` excludes only what the model makes no claim about: requests outside its numeric domain
  (`ood`, e.g. float formatting beyond 15 digits, LRANGE bounds near 2^63) and — vacuous for the
  generated tables — constructs the extractor did not recognise. `Covered` is every command: all 97
  `Cmd` constructors are handled by `every_command_writes_one_value`.
  Only property theorems and non-vacuity examples live here; the lemmas are in
  `RedkaModel/Proofs/WireReply.lean` and `WirePanic.lean`.
-/
import RedkaModel.Proofs.WireReply
import RedkaModel.Proofs.WirePanic
import RedkaModel.Model.Wire.Witness

namespace Redka.Props.C14

open Redka Redka.Wire Redka.WireProofs

/-! ### one complete value per `Run` -/

/-- **Every command object** — all constructors of `Cmd`, through a `*redka.DB` or inside a
transaction, whatever the repository call returns — writes exactly one complete RESP value
(unless the request is outside the model's numeric domain, where nothing is claimed). -/
theorem every_command_writes_one_value :
    ∀ (c : ParsedCmd) (r : Runner) (now : Int) (db : DB) (oracle : Option Bytes),
      (run c r now db oracle).ood = false → wellFormedOne (run c r now db oracle).toks :=
  run_ok

/-! ### one reply per request, outside MULTI -/

/-- **One reply per request.** Outside a transaction block, for every request inside the model's
domain (`InModel`: numeric domain, known constructs — nothing about panics has to be assumed), the
handler chain writes exactly one complete value. -/
theorem one_reply_partial :
    ∀ (st : ConnState) (db : DB) (now : Int) (req : List Bytes), st.inMulti = false →
      InModel (handleX st db now req []) → wellFormedOne (handle st db now req).2.2 :=
  handle_one_reply

/-- The handler chain itself never panics; only `command.Parse` could … -/
theorem crash_only_in_parser :
    ∀ (st : ConnState) (db : DB) (now : Int) (req : List Bytes),
      (handleX st db now req []).panic = true → parse req = .panic :=
  handleX_panic

/-- … and it never does: **no input crashes the process.** Every connection state (inside or
outside MULTI, any queue), every table state, every request. The one panic path the model has in
the chain itself (`handleSingle` on an empty queue: method call on a nil command) is unreachable
from `handleX`, which pushes the parsed command first. -/
theorem no_request_crashes :
    ∀ (st : ConnState) (db : DB) (now : Int) (req : List Bytes),
      (handleX st db now req []).panic = false :=
  handleX_noPanic

/-- Malformed invocations: one error token, nothing else changes (also inside MULTI). -/
theorem parse_error_one_reply :
    ∀ (st : ConnState) (db : DB) (now : Int) (req : List Bytes) (e : RErr), parse req = .error e →
      (handle st db now req).1 = st ∧ (handle st db now req).2.1 = db ∧
        wellFormedOne (handle st db now req).2.2 := by
  intro st db now req e h
  rw [handle_parse_error st db now req e h]
  exact ⟨rfl, rfl, wf_scalar _ rfl⟩

/-! ### inside a transaction block, other than EXEC -/

/-- Inside MULTI every request that parses and is not `EXEC` gets exactly one token — `QUEUED`
(the command joins the queue), the nested-MULTI error, or `OK` for `DISCARD` — and the tables are
not touched. -/
theorem in_multi_one_reply :
    ∀ (st : ConnState) (db : DB) (now : Int) (req : List Bytes) (pc : ParsedCmd),
      st.inMulti = true → parse req = .ok pc → isName pc.name "exec" = false →
      handle st db now req =
        if isName pc.name "multi" then (st, db, [plainErr .nestedMulti])
        else if isName pc.name "discard" then ({ inMulti := false, cmds := [] }, db, [okTok])
        else ({ st with cmds := st.cmds ++ [pc] }, db, [.str (asciiBytes "QUEUED")]) :=
  handleX_in_multi

theorem in_multi_well_formed :
    ∀ (st : ConnState) (db : DB) (now : Int) (req : List Bytes) (pc : ParsedCmd),
      st.inMulti = true → parse req = .ok pc → isName pc.name "exec" = false →
      wellFormedOne (handle st db now req).2.2 ∧ (handle st db now req).2.1 = db :=
  handle_in_multi_one_reply

/-! ### EXEC -/

/-- **EXEC.** Inside MULTI, `EXEC` writes `*n` for the `n` queued commands and then one complete value per
queued command — all `n` of them, whether or not one fails (D12, repaired): its reply is exactly one complete
RESP value. -/
theorem exec_one_reply :
    ∀ (st : ConnState) (db : DB) (now : Int) (req : List Bytes) (pc : ParsedCmd),
      st.inMulti = true → parse req = .ok pc → pc.name = asciiBytes "exec" →
      (handleX st db now req []).ood = false →
      owed (handle st db now req).2.2 1 = some 0 ∧
      (runQueue st.cmds now db [] 1).segs.length = st.cmds.length ∧
      wellFormedOne (handle st db now req).2.2 :=
  exec_owed

/-- the loop of `handleMulti` on its own: one complete value per queued command, failing ones included -/
theorem exec_queue_values :
    ∀ (cmds : List ParsedCmd) (now : Int) (db : DB) (obs : List Token) (pos : Nat),
      (runQueue cmds now db obs pos).ood = false →
      WellFormed cmds.length ((runQueue cmds now db obs pos).segs.flatMap (·.toks)) := by
  intro cmds now db obs pos ho
  have h := runQueue_owed cmds now db obs pos 0 ho
  unfold WellFormed
  simpa using h.2

/-- **One reply per request — alone or inside a transaction block.** For every connection state (idle or
queuing, whatever is queued), every table state, every clock value and every request inside the model's
domain, the handler chain writes exactly one complete value. -/
theorem one_reply :
    ∀ (st : ConnState) (db : DB) (now : Int) (req : List Bytes),
      InModel (handleX st db now req []) → wellFormedOne (handle st db now req).2.2 := by
  intro st db now req hin
  cases hm : st.inMulti with
  | false => exact handle_one_reply st db now req hm hin
  | true =>
    cases hp : parse req with
    | error e => exact (parse_error_one_reply st db now req e hp).2.2
    | panic => exact absurd hp (parse_ne_panic req)
    | outOfDomain => simp [InModel, handleX, hp] at hin
    | unsupported t => simp [InModel, handleX, hp] at hin
    | ok pc =>
      cases hn : isName pc.name "exec" with
      | false => exact (handle_in_multi_one_reply st db now req pc hm hp hn).1
      | true =>
        have hname : pc.name = asciiBytes "exec" := by
          simpa [isName] using hn
        exact (exec_owed st db now req pc hm hp hname hin.1).2.2

/-! ### from tokens to bytes (C17) -/

/-- **Well-formed on the wire.** A token list that is exactly one complete value is, byte for byte,
the redcon encoding of one reply tree; the strict RESP decoder reads it back as that one reply and
leaves whatever follows untouched — the connection stays in step. -/
theorem wellFormedOne_on_the_wire :
    ∀ ts : List Token, wellFormedOne ts →
      ∃ r : Resp.Reply, Resp.Clean r ∧ encodeTokens ts = Resp.encode r ∧
        ∀ rest : Bytes, Resp.decode (encodeTokens ts ++ rest) = some (r, rest) :=
  wellFormedOne_decodes

/-- pipelined: `k` complete values are read as exactly `k` replies, to the last byte -/
theorem pipelined_replies_on_the_wire :
    ∀ (ts : List Token) (k : Nat), WellFormed k ts →
      ∃ rs : List Resp.Reply, rs.length = k ∧ Resp.decodeAll (encodeTokens ts) = some rs :=
  wellFormed_stream

/-- pipelined requests: if each reply is one complete value, the concatenation is as many complete
values, and is read back as exactly that many replies -/
theorem pipeline_replies :
    ∀ l : List (List Token), (∀ ts ∈ l, wellFormedOne ts) →
      ∃ rs : List Resp.Reply, rs.length = l.length ∧ Resp.decodeAll (encodeTokens l.flatten) = some rs :=
  fun l h => wellFormed_stream _ _ (wellFormed_flatten l h)

/-- one request, end to end: bytes of exactly one reply -/
theorem one_reply_bytes :
    ∀ (st : ConnState) (db : DB) (now : Int) (req : List Bytes), st.inMulti = false →
      InModel (handleX st db now req []) →
      ∃ r : Resp.Reply, ∀ rest : Bytes,
        Resp.decode (encodeTokens (handle st db now req).2.2 ++ rest) = some (r, rest) := by
  intro st db now req hm hin
  obtain ⟨r, _, _, h⟩ := wellFormedOne_decodes _ (handle_one_reply st db now req hm hin)
  exact ⟨r, h⟩

/-! ### non-vacuity and witnesses -/

section Examples

open Redka.Wire.Witness

/-- D11 repaired: `ZINTER -1 k1` gets exactly one reply, the wrong-number-of-arguments error; the
process, the connection state and the tables are untouched -/
theorem negative_numkeys_is_refused :
    handle {} db0 2000 [b "ZINTER", b "-1", b "k1"]
      = ({}, db0, [.err (b "ERR wrong number of arguments ()")]) ∧
    wellFormedOne (handle {} db0 2000 [b "ZINTER", b "-1", b "k1"]).2.2 := by decide +kernel

/-- … also inside MULTI: nothing is queued -/
example : handle { inMulti := true } db0 2000 [b "ZUNIONSTORE", b "d", b "-1", b "k1"]
    = ({ inMulti := true }, db0, [.err (b "ERR wrong number of arguments ()")]) := by decide +kernel

/-- D12 repaired: `MULTI; INCR k2 (a list); INCR k1; EXEC` announces two values and writes two — the error of
the first command and the reply of the second (whose effect is rolled back with the block) -/
theorem exec_reply_complete :
    (handle { inMulti := true, cmds := queued [[b "INCR", b "k2"], [b "INCR", b "k1"]] } db0 2000 [b "EXEC"])
      = ({}, db0, [.arrayHdr 2, .err (b "key type mismatch (incr)"), .int 8]) ∧
    wellFormedOne [.arrayHdr 2, .err (b "key type mismatch (incr)"), .int 8] ∧
    -- what the reply used to be: one value short
    ¬ wellFormedOne [.arrayHdr 2, .err (b "key type mismatch (incr)")] ∧
    owed [.arrayHdr 2, .err (b "key type mismatch (incr)")] 1 = some 1 := by
  decide +kernel

/-- `one_reply` instantiated inside a block with a failing command -/
example :
    wellFormedOne (handle { inMulti := true, cmds := queued [[b "INCR", b "k2"], [b "INCR", b "k1"]] } db0 2000
      [b "EXEC"]).2.2 := one_reply _ _ _ _ (by unfold InModel; decide +kernel)

/-- a block without failure -/
example :
    (handle { inMulti := true, cmds := queued [[b "INCR", b "k1"], [b "LLEN", b "k2"]] } db0 2000 [b "EXEC"]).2.2
      = [.arrayHdr 2, .int 8, .int 1] ∧ wellFormedOne [.arrayHdr 2, .int 8, .int 1] := by decide +kernel

/-- `InModel` holds for ordinary requests (the hypotheses of `one_reply_partial` are satisfiable) -/
example : InModel (handleX {} db0 2000 [b "LRANGE", b "k2", b "0", b "-1"] []) := by
  unfold InModel; decide +kernel
example : (handle {} db0 2000 [b "LRANGE", b "k2", b "0", b "-1"]).2.2 = [.arrayHdr 1, .bulk (b "a")] := by
  decide +kernel
example : wellFormedOne (handle {} db0 2000 [b "LRANGE", b "k2", b "0", b "-1"]).2.2 :=
  one_reply_partial _ _ _ _ rfl (by unfold InModel; decide +kernel)
/-- an unknown command, an arity error and a type error are each one error reply -/
example : (handle {} db0 2000 [b "FOO", b "x"]).2.2 = [.err (b "ERR unknown command (foo)")] := by decide +kernel
example : (handle {} db0 2000 [b "INCR", b "k2"]).2.2 = [.err (b "key type mismatch (incr)")] := by decide +kernel

/-- inside MULTI: queuing, nesting, discarding -/
example : handle { inMulti := true } db0 2000 [b "INCR", b "k1"]
    = ({ inMulti := true, cmds := queued [[b "INCR", b "k1"]] }, db0, [.str (b "QUEUED")]) := by decide +kernel
example : (handle { inMulti := true } db0 2000 [b "MULTI"]).2.2 = [.err (b "ERR MULTI calls can not be nested")] := by
  decide +kernel
example : handle { inMulti := true, cmds := queued [[b "INCR", b "k1"]] } db0 2000 [b "DISCARD"]
    = ({}, db0, [.str (b "OK")]) := by decide +kernel

/-- the counter rejects a half-written array, a token after the value, and an empty reply -/
example : ¬ wellFormedOne [.arrayHdr 2, .int 1] := by decide
example : ¬ wellFormedOne [.int 1, .int 2] := by decide
example : ¬ wellFormedOne [] := by decide
example : wellFormedOne [.arrayHdr 2, .int 0, .arrayHdr 2, .bulk [1], .bulk [2]] := by decide

/-- tokens to bytes: `*1\r\n$1\r\na\r\n` -/
example : encodeTokens [.arrayHdr 1, .bulk (b "a")] = [42, 49, 13, 10, 36, 49, 13, 10, 97, 13, 10] := by
  decide +kernel
example : Resp.decode [42, 49, 13, 10, 36, 49, 13, 10, 97, 13, 10] = some (.array [.bulk [97]], []) := rfl

end Examples

end Redka.Props.C14
