/-
  C02 — the index rule of the property, clause by clause, for `Range` and `Trim`:

    "negative indexes count from the tail"      range_negative_start, range_negative_stop
    "out-of-range bounds are clamped"           range_clamps_start, range_clamps_stop, range_past_end_empty
    "inverted or empty ranges select nothing"   range_inverted_empty
    in-range bounds select positions a … b      range_in_range
    a range is a contiguous piece of the list   range_infix
    `Trim` leaves what `Range` returned         trim_keeps_range
    sorted-set ranks (C05)                      rank_negative_empty, rank_inverted_empty, rank_in_range, rank_stop_clamped

  Each holds for every list and all integers, with no side condition: they are corollaries of
  `range_refines` / `trim_refines` (full strength since the repair of D01/D02 — before it every one of them
  was false of the code somewhere in the region of `raw_slice_exact_region`). `listRange_refines` /
  `listTrim_refines` (`Proofs/ListRef`) carry them to the tables: the model's `listRange` returns `Spec.lrange` of the
  stored elements.
-/
import RedkaModel.Props.C02idx

namespace Redka.Props.C02
open Redka Redka.Model Redka.Proofs.Index

/-- the Redis window as one `take` of one `drop`, on the raw arguments -/
theorem lrange_take_drop {α} (l : List α) (a b : Int) :
    Spec.lrange l a b =
      (l.drop (max (Spec.normIdx l.length a) 0).toNat).take
        (if max (Spec.normIdx l.length a) 0 > min (Spec.normIdx l.length b) ((l.length : Int) - 1) then 0
         else (min (Spec.normIdx l.length b) ((l.length : Int) - 1) - max (Spec.normIdx l.length a) 0 + 1).toNat) := by
  rw [lrange_eq_clampSlice, clampSlice_eq_take]

/-- "negative indexes count from the tail": a negative start within the list is the same as its
distance from the head -/
theorem range_negative_start {α} (l : List α) (a b : Int) (ha : a < 0) (ha' : -(l.length : Int) ≤ a) :
    modelRange l a b = modelRange l ((l.length : Int) + a) b := by
  rw [range_refines, range_refines, lrange_take_drop, lrange_take_drop]
  have h : Spec.normIdx l.length ((l.length : Int) + a) = Spec.normIdx l.length a := by
    unfold Spec.normIdx; rw [if_pos ha]; split <;> omega
  rw [h]

theorem range_negative_stop {α} (l : List α) (a b : Int) (hb : b < 0) (hb' : -(l.length : Int) ≤ b) :
    modelRange l a b = modelRange l a ((l.length : Int) + b) := by
  rw [range_refines, range_refines, lrange_take_drop, lrange_take_drop]
  have h : Spec.normIdx l.length ((l.length : Int) + b) = Spec.normIdx l.length b := by
    unfold Spec.normIdx; rw [if_pos hb]; split <;> omega
  rw [h]

/-- "out-of-range bounds are clamped": a start before the head is the head -/
theorem range_clamps_start {α} (l : List α) (a b : Int) (ha : a ≤ -(l.length : Int)) :
    modelRange l a b = modelRange l 0 b := by
  rw [range_refines, range_refines, lrange_take_drop, lrange_take_drop]
  have h1 : max (Spec.normIdx l.length a) 0 = 0 := by unfold Spec.normIdx; split <;> omega
  have h2 : max (Spec.normIdx l.length 0) 0 = 0 := by unfold Spec.normIdx; simp
  rw [h1, h2]

/-- … and a stop past the tail is the tail (`-1`) -/
theorem range_clamps_stop {α} (l : List α) (a b : Int) (hb : (l.length : Int) ≤ b) :
    modelRange l a b = modelRange l a (-1) := by
  rw [range_refines, range_refines, lrange_take_drop, lrange_take_drop]
  have h1 : min (Spec.normIdx l.length b) ((l.length : Int) - 1) = (l.length : Int) - 1 := by
    unfold Spec.normIdx; split <;> omega
  have h2 : min (Spec.normIdx l.length (-1)) ((l.length : Int) - 1) = (l.length : Int) - 1 := by
    unfold Spec.normIdx; simp; omega
  rw [h1, h2]

/-- "inverted or empty ranges select nothing" -/
theorem range_inverted_empty {α} (l : List α) (a b : Int)
    (h : Spec.normIdx l.length b < Spec.normIdx l.length a) : modelRange l a b = [] := by
  rw [range_refines, lrange_take_drop]
  have : max (Spec.normIdx l.length a) 0 > min (Spec.normIdx l.length b) ((l.length : Int) - 1) := by omega
  rw [if_pos this, List.take_zero]

theorem range_past_end_empty {α} (l : List α) (a b : Int) (h : (l.length : Int) ≤ a) :
    modelRange l a b = [] := by
  rw [range_refines, lrange_take_drop]
  have hs : Spec.normIdx l.length a = a := by unfold Spec.normIdx; split <;> omega
  rw [hs, List.drop_eq_nil_of_le (by omega), List.take_nil]

/-- in-range, ordered, non-negative bounds select exactly the elements at positions `a … b` -/
theorem range_in_range {α} (l : List α) (a b : Nat) (hab : a ≤ b) (hb : b < l.length) :
    modelRange l a b = (l.drop a).take (b - a + 1) ∧ (modelRange l (a : Int) (b : Int)).length = b - a + 1 := by
  have h : modelRange l a b = (l.drop a).take (b - a + 1) := by
    rw [range_refines, lrange_take_drop]
    have h1 : Spec.normIdx l.length (a : Int) = a := by unfold Spec.normIdx; split <;> omega
    have h2 : Spec.normIdx l.length (b : Int) = b := by unfold Spec.normIdx; split <;> omega
    rw [h1, h2]
    have h4 : min (b : Int) ((l.length : Int) - 1) = b := by omega
    have h5 : max (a : Int) 0 = a := by omega
    rw [h4, h5]
    have h3 : ¬ ((a : Int) > (b : Int)) := by omega
    rw [if_neg h3]
    congr 1
    · omega
  refine ⟨h, ?_⟩
  rw [h, List.length_take, List.length_drop]; omega

/-- a range is always a contiguous piece of the list -/
theorem range_infix {α} (l : List α) (a b : Int) : modelRange l a b <:+: l := by
  rw [range_refines, lrange_take_drop]
  exact (List.take_prefix _ _).isInfix.trans (List.drop_suffix _ _).isInfix

/-- after `Trim(a, b)` the list is exactly what `Range(a, b)` returned before -/
theorem trim_keeps_range {α} (l : List α) (a b : Int) :
    modelRange (modelTrimKeep l a b) 0 (-1) = Spec.lrange l a b := by
  rw [full_range_is_list, trim_refines]; rfl

example : modelRange ['a', 'b', 'c', 'd'] (-3) 2 = modelRange ['a', 'b', 'c', 'd'] 1 2 :=
  range_negative_start _ _ _ (by decide) (by decide)
example : modelRange ['a', 'b', 'c'] (-7) 1 = ['a', 'b'] := by decide
example : modelRange ['a', 'b', 'c'] 1 99 = modelRange ['a', 'b', 'c'] 1 (-1) := range_clamps_stop _ _ _ (by decide)
example : modelRange ['a', 'b', 'c'] (-1) (-2) = [] := range_inverted_empty _ _ _ (by decide)
example : (modelRange ['a', 'b', 'c', 'd'] (1 : Nat) (2 : Nat)).length = 2 := (range_in_range _ 1 2 (by decide) (by decide)).2

/-! ### sorted-set ranks (C05): the same rule, without negative indexes -/

/-- sorted-set ranks are never negative: a negative bound selects nothing (range and remove alike) -/
theorem rank_negative_empty {α} (l : List α) (a b : Int) (h : a < 0 ∨ b < 0) :
    modelRankRange l a b = [] ∧ modelRankDelete l a b = [] := by
  rw [rank_delete_refines, rank_range_refines]
  unfold Spec.rankSlice
  have : a < 0 ∨ b < 0 ∨ a > b := by omega
  simp [this]

/-- an inverted rank interval selects nothing -/
theorem rank_inverted_empty {α} (l : List α) (a b : Int) (h : b < a) :
    modelRankRange l a b = [] ∧ modelRankDelete l a b = [] := by
  rw [rank_delete_refines, rank_range_refines]
  unfold Spec.rankSlice
  have : a < 0 ∨ b < 0 ∨ a > b := by omega
  simp [this]

/-- in-range ranks select exactly the positions `a … b`; a stop past the end is clamped -/
theorem rank_in_range {α} (l : List α) (a b : Nat) (hab : a ≤ b) :
    modelRankRange l a b = (l.drop a).take (b - a + 1) := by
  rw [rank_range_refines]
  unfold Spec.rankSlice
  have : ¬ ((a : Int) < 0 ∨ (b : Int) < 0 ∨ (a : Int) > b) := by omega
  rw [if_neg this]
  congr 1
  omega

theorem rank_stop_clamped {α} (l : List α) (a b : Nat) (hab : a ≤ b) (hb : l.length ≤ b + 1) :
    modelRankRange l a b = l.drop a := by
  rw [rank_in_range l a b hab, List.take_of_length_le]
  rw [List.length_drop]; omega

example : modelRankRange [0, 1, 2, 3, 4] (2 : Nat) (100 : Nat) = [2, 3, 4] := rank_stop_clamped _ 2 100 (by decide) (by decide)
example : modelRankDelete [0, 1, 2, 3, 4] (-1) 3 = [] := (rank_negative_empty _ _ _ (Or.inl (by decide))).2

end Redka.Props.C02
