/-
  C04 — hashes behave like a map from key to a field-to-value map (refinement proof).

  "For every sequence of hash operations each key holds exactly the field-to-value map an
  in-memory map would hold: set, multi-set and set-if-absent report truthfully which fields were
  created rather than overwritten, get, multi-get, exists, fields, values, items and length agree
  with one another, delete reports exactly the number of fields removed, and integer and float
  increments behave as on strings (missing field counts as zero, non-numeric fields fail without
  effect)."

  What is proved here. `Model.dbRun` is the statement-level model of the `DB`-level methods of
  `internal/rhash` over the six tables; `Spec.step` is the in-memory map; `Spec.abs now db` is the
  keyspace a table state stands for at clock value `now` (only unexpired keys). The theorem
  `hash_refines_partial` says that one call of any hash operation whose specification decides it
  (`Covered`: all twelve of `Delete, Exists, Fields, Get, GetMany, Incr, Items, Len, Set, SetMany,
  SetNotExists, Values`), on any table state satisfying the structural invariant C11 (`DB.Inv`),
  with any arguments and any clock value, returns what the map returns and leaves tables that stand
  for the map's new state — outside two narrow, decidable classes of inputs on which the real code
  (and therefore the model) is known to deviate:

    * `Stale` (known finding D05): the operation writes to a name whose stored key row has expired
      but has not been cleaned up yet;
    * `Overflow` (known finding D17): an integer increment whose exact sum does not fit in int64.

  Both are shown to be real by concrete witnesses (`stale_set_deviates`, `stale_incr_deviates`,
  `stale_othertype_deviates`, `overflow_deviates`), so the full-strength statement is false
  (`full_strength_is_false`).

  Argument hypotheses (about the *encoding* of the arguments, not about the code):
    * `ArgsInRange`: `Op.hashIncr` carries an unbounded `Int` where Go has an `int`
      (`incr_arg_out_of_range` shows the statement is false without it);
    * `DistinctFields`: `Op.hashSetMany` carries a list where Go has a `map[string]any`, whose
      fields are distinct by construction (`repeated_field_deviates` shows the statement is false
      for a list with a repeated field). The model applies the items in list order; Go iterates
      the map in an unspecified order: `setmany_order_irrelevant` shows that the order does not
      matter, neither for the result nor for the keyspace the tables stand for afterwards.

  Float increment is covered on the numeric domain of `valueFloat` / `formatFloatDec` (plain decimal
  texts denoting dyadic rationals, sums with at most 15 significant digits); outside it model and
  specification both answer "not decided" and change nothing, so the theorem holds there trivially.
  Out of scope (`Covered op = false`, `uncovered_are_skip`): `Scan`, for which `Spec.step` answers
  `skip` (scans are C16's business).

  `hash_seq_refines` lifts the single step to any sequence of covered hash operations at
  non-decreasing clock values. It rests on `hash_preserves_hwf` (the operations keep `HWF`, the
  consequence of the invariant the proofs use) and on `Spec.abs_mono`.

  Results are compared with `=` on `Out` (`Spec.outEq` is built from `partial def`s and is opaque
  to the kernel); hash results never contain key rows, so `=` is the stronger statement.

  Lemmas live in `RedkaModel/Proofs/HashRows.lean` (the `rhash` table as a list of rows),
  `HashRef.lean` (tables against the abstraction) and `HashOps.lean` (one lemma per operation).
-/
import RedkaModel.Proofs.HashOps
import RedkaModel.Props.C17

namespace Redka.Props.C04

open Redka Redka.Model Redka.Spec Redka.HashRef

/-! ### the family, its covered part, the classifiers and the argument hypotheses -/

/-- the operations of `DB.Hash()` -/
def isHashOp : Op → Bool
  | .hashDelete .. | .hashExists .. | .hashFields _ | .hashGet .. | .hashGetMany .. | .hashIncr ..
  | .hashIncrFloat .. | .hashItems _ | .hashLen _ | .hashScan .. | .hashSet .. | .hashSetMany ..
  | .hashSetNotExists .. | .hashValues _ => true
  | _ => false

/-- the hash operations the theorem speaks about: all but `Scan` -/
def Covered : Op → Bool
  | .hashDelete .. | .hashExists .. | .hashFields _ | .hashGet .. | .hashGetMany .. | .hashIncr ..
  | .hashIncrFloat .. | .hashItems _ | .hashLen _ | .hashSet .. | .hashSetMany .. | .hashSetNotExists ..
  | .hashValues _ => true
  | _ => false

def IsFamOp (op : Op) : Prop := Covered op = true

instance (op : Op) : Decidable (IsFamOp op) := inferInstanceAs (Decidable (_ = true))

/-- what `Covered` leaves out of the family is exactly what the specification does not decide -/
theorem uncovered_are_skip : ∀ (op : Op) (now : Int) (s : State), isHashOp op = true →
    Covered op = false → (Spec.step op now s).out = .error .outOfDomain := by
  intro op now s h1 h2
  cases op <;> first | rfl | (cases h1; done) | (cases h2; done)

/-- …and every covered operation is decided -/
theorem covered_is_hash : ∀ op, Covered op = true → isHashOp op = true := by
  intro op h
  cases op <;> first | rfl | (cases h; done)

/-- D05, exactly as in `Spec.known`: the name the operation writes to is held by a stored row
whose expiry has passed -/
def Stale (op : Op) (now : Int) (db : DB) : Bool :=
  (Spec.writeKeys op).any (Spec.staleKey db now)

/-- D17, exactly as in `Spec.known`: the stored field is an integer and the exact sum does not fit
in int64 -/
def Overflow (op : Op) (now : Int) (db : DB) : Bool :=
  match op with
  | .hashIncr k f d =>
    (match Model.hashGetRaw db k f now with
     | some v => (match valueInt v with
       | some n => !inInt64 (n + d)
       | none => false)
     | none => false)
  | _ => false

/-- the increment argument is a Go `int` -/
def ArgsInRange : Op → Bool
  | .hashIncr _ _ d => inInt64 d
  | _ => true

/-- the items of a multi-set come from a Go map: their fields are pairwise different -/
def DistinctFields : Op → Bool
  | .hashSetMany _ items => nodupB (items.map (·.1))
  | _ => true

/-- The two classifiers are the entries D05 and D17 of the catalogue of known findings that the
driver consults (`Spec.known`), for every hash operation (covered or not). -/
theorem classifiers_are_the_catalogue : ∀ (inTx : Bool) (op : Op) (now : Int) (db : DB),
    isHashOp op = true →
    Spec.known inTx op now db
      = (if Stale op now db then ["D05"] else []) ++ (if Overflow op now db then ["D17"] else []) := by
  intro inTx op now db hop
  cases op <;> first | rfl | (cases hop; done) | skip
  case hashIncr k f d =>
    simp only [Spec.known, Stale, Overflow]
    congr 1
    split
    · rename_i v h1
      split
      · rename_i n h2; simp [h1, h2]
      · rename_i h2; simp [h1, h2]
    · rename_i h1; simp [h1]

/-! ### the refinement theorem -/

/-- The theorem under `HWF`, the consequence of the invariant that the proof uses (`DB.WF`, the
unique index on `(kid, field)`, the cached length of hash keys, no orphan rows) and that every
hash operation preserves (`hash_preserves_hwf`). -/
theorem hash_refines_hwf : ∀ (op : Op) (now : Int) (db : DB),
    IsFamOp op → HWF db → ArgsInRange op = true → DistinctFields op = true →
    Stale op now db = false → Overflow op now db = false →
    let r := Model.dbRun op now db
    r.out = (Spec.step op now (Spec.abs now db)).out ∧
      Spec.abs now r.db = Spec.purge now (Spec.step op now (Spec.abs now db)).st := by
  intro op now db hop hw harg hdist hst hov
  cases op <;> first | (cases hop; done) | skip
  case hashDelete k fs => exact hashDelete_refines hw now k fs
  case hashExists k f => exact hashExists_refines hw now k f
  case hashFields k => exact hashFields_refines hw.wf now k
  case hashGet k f => exact hashGet_refines hw now k f
  case hashGetMany k fs => exact hashGetMany_refines hw.wf now k fs
  case hashIncr k f d =>
    have hns : staleKey db now k = false := by simpa [Stale, writeKeys] using hst
    refine hashIncr_refines hw hns f d harg ?_
    intro b n hb hn
    simpa [Overflow, hb, hn] using hov
  case hashIncrFloat k f d =>
    have hns : staleKey db now k = false := by simpa [Stale, writeKeys] using hst
    exact hashIncrFloat_refines hw hns f d
  case hashItems k => exact hashItems_refines hw.wf now k
  case hashLen k => exact hashLen_refines hw now k
  case hashSet k f v =>
    have hns : staleKey db now k = false := by simpa [Stale, writeKeys] using hst
    exact hashSet_refines hw hns f v
  case hashSetMany k items =>
    have hns : staleKey db now k = false := by simpa [Stale, writeKeys] using hst
    exact hashSetMany_refines hw hns ((nodupB_iff _).1 hdist)
  case hashSetNotExists k f v =>
    have hns : staleKey db now k = false := by simpa [Stale, writeKeys] using hst
    exact hashSetNX_refines hw hns f v
  case hashValues k => exact hashValues_refines hw.wf now k

/-- **C04, partial refinement.** One call of any covered hash operation, on any table state
satisfying the structural invariant, for any arguments (increment a Go `int`, multi-set items with
distinct fields) and any clock value, outside the classes `Stale` (D05) and `Overflow` (D17): the
model returns exactly what the in-memory map returns, and the tables afterwards stand for exactly
the map's new state.

The full-strength statement (without `Stale`, `Overflow`) is FALSE of the code: see
`stale_set_deviates`, `stale_incr_deviates`, `stale_othertype_deviates`, `overflow_deviates`. -/
theorem hash_refines_partial : ∀ (op : Op) (now : Int) (db : DB),
    IsFamOp op → db.Inv → ArgsInRange op = true → DistinctFields op = true →
    Stale op now db = false → Overflow op now db = false →
    let r := Model.dbRun op now db
    r.out = (Spec.step op now (Spec.abs now db)).out ∧
      Spec.abs now r.db = Spec.purge now (Spec.step op now (Spec.abs now db)).st :=
  fun op now db hop hinv => hash_refines_hwf op now db hop (DB.Inv.hwf hinv)

/-! ### sequences of operations -/

/-- Every covered hash operation keeps `HWF` (for every state and argument, deviation classes
included). -/
theorem hash_preserves_hwf : ∀ (op : Op) (now : Int) (db : DB), IsFamOp op → HWF db →
    HWF (Model.dbRun op now db).db := by
  intro op now db hop hw
  cases op <;> first | (cases hop; done) | skip
  case hashDelete k fs => exact update_hwf hw (hashDelete_hwf hw k fs now)
  case hashExists k f => exact hw
  case hashFields k => exact hw
  case hashGet k f =>
    show HWF (Model.hashGet db k f now).db
    unfold Model.hashGet; split <;> exact hw
  case hashGetMany k fs => exact hw
  case hashIncr k f d => exact update_hwf hw (hashIncr_hwf hw k f d now)
  case hashIncrFloat k f d => exact update_hwf hw (hashIncrFloat_hwf hw k f d now)
  case hashItems k => exact hw
  case hashLen k =>
    show HWF (Model.hashLen db k now).db
    unfold Model.hashLen
    split
    · exact hw
    · split <;> exact hw
  case hashSet k f v => exact update_hwf hw (hashSet_hwf hw k f v now)
  case hashSetMany k items => exact update_hwf hw (hashSetMany_hwf hw k items now)
  case hashSetNotExists k f v => exact update_hwf hw (hashSetNX_hwf hw k f v now)
  case hashValues k => exact hw

/-- in particular the part `DB.WF` shared with the other families -/
theorem hash_preserves_wf : ∀ (op : Op) (now : Int) (db : DB), IsFamOp op → HWF db →
    (Model.dbRun op now db).db.WF :=
  fun op now db hop hw => (hash_preserves_hwf op now db hop hw).wf

/-- a run of timed calls on the tables: the results, and the tables at the end -/
def runModel : List (Op × Int) → DB → List Out × DB
  | [], db => ([], db)
  | (op, now) :: rest, db =>
    let r := Model.dbRun op now db
    let t := runModel rest r.db
    (r.out :: t.1, t.2)

/-- the same run on the in-memory map; a key disappears when the clock reaches its expiry -/
def runSpec : List (Op × Int) → State → List Out × State
  | [], s => ([], s)
  | (op, now) :: rest, s =>
    let r := Spec.step op now (Spec.purge now s)
    let t := runSpec rest (Spec.purge now r.st)
    (r.out :: t.1, t.2)

/-- no call of the run falls into a known deviation class, judged on the tables it meets -/
def CleanRun : List (Op × Int) → DB → Prop
  | [], _ => True
  | (op, now) :: rest, db =>
    IsFamOp op ∧ ArgsInRange op = true ∧ DistinctFields op = true ∧ Stale op now db = false ∧
      Overflow op now db = false ∧ CleanRun rest (Model.dbRun op now db).db

/-- the clock does not run backwards -/
def ClockOk : Int → List (Op × Int) → Prop
  | _, [] => True
  | t, (_, now) :: rest => t ≤ now ∧ ClockOk now rest

def lastClock : Int → List (Op × Int) → Int
  | t, [] => t
  | _, (_, now) :: rest => lastClock now rest

/-- **C04 for sequences.** Any sequence of covered hash operations at non-decreasing clock values,
started on tables satisfying the invariant part and never meeting a known deviation class: every
call returns what the in-memory map returns, and at the end the tables stand for exactly the
map. -/
theorem hash_seq_refines : ∀ (tr : List (Op × Int)) (t : Int) (db : DB), HWF db → ClockOk t tr →
    CleanRun tr db →
    (runModel tr db).1 = (runSpec tr (Spec.abs t db)).1 ∧
      Spec.abs (lastClock t tr) (runModel tr db).2 = (runSpec tr (Spec.abs t db)).2
  | [], _, _, _, _, _ => ⟨rfl, rfl⟩
  | (op, now) :: rest, t, db, hw, hc, hcl => by
    obtain ⟨hop, harg, hdist, hst, hov, hrest⟩ := hcl
    obtain ⟨href1, href2⟩ := hash_refines_hwf op now db hop hw harg hdist hst hov
    have ih := hash_seq_refines rest now (Model.dbRun op now db).db
      (hash_preserves_hwf op now db hop hw) hc.2 hrest
    simp only [runModel, runSpec, lastClock]
    rw [← abs_mono hw.wf.names hc.1, ← href1, ← href2]
    exact ⟨by rw [ih.1], ih.2⟩

/-- … in particular from any state satisfying the C11 invariant. -/
theorem hash_seq_refines_inv : ∀ (tr : List (Op × Int)) (t : Int) (db : DB), db.Inv → ClockOk t tr →
    CleanRun tr db →
    (runModel tr db).1 = (runSpec tr (Spec.abs t db)).1 ∧
      Spec.abs (lastClock t tr) (runModel tr db).2 = (runSpec tr (Spec.abs t db)).2 :=
  fun tr t db hinv => hash_seq_refines tr t db (DB.Inv.hwf hinv)

/-! ### the order of multi-set items is irrelevant -/

/-- `SetMany` takes a Go map, which is iterated in an unspecified order; the model applies a list
in order. For items with distinct fields every order gives the same result and tables that stand
for the same keyspace (they may differ in rowids, which nothing but `Scan` observes). -/
theorem setmany_order_irrelevant : ∀ (k : Bytes) (items items' : List (Bytes × Bytes)) (now : Int)
    (db : DB), db.Inv → items.Perm items' → (items.map (·.1)).Nodup →
    Spec.staleKey db now k = false →
    (Model.dbRun (.hashSetMany k items) now db).out = (Model.dbRun (.hashSetMany k items') now db).out ∧
    Spec.abs now (Model.dbRun (.hashSetMany k items) now db).db
      = Spec.abs now (Model.dbRun (.hashSetMany k items') now db).db := by
  intro k items items' now db hinv hp hnd hns
  have hw := DB.Inv.hwf hinv
  have hnd' : (items'.map (·.1)).Nodup := (hp.map _).nodup_iff.1 hnd
  have h1 := hashSetMany_refines hw hns hnd
  have h2 := hashSetMany_refines hw hns hnd'
  have hsp := specSetMany_perm (s := Spec.abs now db) (k := k) hp hnd
    (fun h et hg => hash_entry_sorted hw hg)
  unfold Refines at h1 h2
  rw [hsp] at h1
  exact ⟨h1.1.trans h2.1.symm, h1.2.trans h2.2.symm⟩

/-! ### the property, clause by clause -/

/-- the field-to-value map the key `k` holds at `now`, in field order; empty for a key that does
not exist (or holds another type) -/
def fieldMap (now : Int) (db : DB) (k : Bytes) : List (Bytes × Bytes) := hashAt (Spec.abs now db) k

/-- it is a map: fields strictly increasing, so no field occurs twice -/
theorem fieldMap_sorted : ∀ (now : Int) (db : DB) (k : Bytes), db.Inv → Sorted (fieldMap now db k) :=
  fun now _ k hinv => hashAt_sorted (DB.Inv.hwf hinv) now k

/-- "get, multi-get, exists, fields, values, items and length agree with one another": on any
state satisfying the invariant, whatever sits at the name, all seven reads are functions of one
and the same field map. -/
theorem reads_agree : ∀ (k : Bytes) (now : Int) (db : DB), db.Inv →
    let m := fieldMap now db k
    (Model.dbRun (.hashItems k) now db).out
        = .ok (.list (m.map (fun p => .list [.bytes p.1, .bytes p.2]))) ∧
    (Model.dbRun (.hashFields k) now db).out = .ok (.list (m.map (fun p => .bytes p.1))) ∧
    (Model.dbRun (.hashValues k) now db).out
        = .ok (.list ((sortBy bytesLt (m.map (·.2))).map .bytes)) ∧
    (Model.dbRun (.hashLen k) now db).out = .ok (.int m.length) ∧
    (∀ f, (Model.dbRun (.hashGet k f) now db).out
        = match aget m f with
          | some v => .ok (.bytes v)
          | none => .error .notFound) ∧
    (∀ f, (Model.dbRun (.hashExists k f) now db).out = .ok (.bool (aget m f).isSome)) ∧
    (∀ fs, (Model.dbRun (.hashGetMany k fs) now db).out
        = .ok (.list ((m.filter (fun p => fs.contains p.1)).map
            (fun p => .list [.bytes p.1, .bytes p.2])))) := by
  intro k now db hinv
  have hw := DB.Inv.hwf hinv
  refine ⟨(hashItems_refines hw.wf now k).1, ?_, ?_, (hashLen_refines hw now k).1, ?_,
    fun f => (hashExists_refines hw now k f).1, fun fs => (hashGetMany_refines hw.wf now k fs).1⟩
  · refine Eq.trans (hashFields_refines hw.wf now k).1 ?_
    simp [Spec.ok, Spec.bytesList, List.map_map, fieldMap, Function.comp_def]
  · exact (hashValues_refines hw.wf now k).1
  · intro f
    refine Eq.trans (hashGet_refines hw now k f).1 ?_
    unfold Spec.hashGet fieldMap
    cases aget (hashAt (Spec.abs now db) k) f <;> rfl

/-- the length is the number of fields (and of items) enumerated -/
theorem len_counts_fields : ∀ (k : Bytes) (now : Int) (db : DB), db.Inv →
    ∃ fields items : List Val,
      (Model.dbRun (.hashFields k) now db).out = .ok (.list fields) ∧
      (Model.dbRun (.hashItems k) now db).out = .ok (.list items) ∧
      (Model.dbRun (.hashLen k) now db).out = .ok (.int fields.length) ∧
      items.length = fields.length := by
  intro k now db hinv
  obtain ⟨h1, h2, _, h4, _⟩ := reads_agree k now db hinv
  exact ⟨_, _, h2, h1, by rw [h4, List.length_map], by rw [List.length_map, List.length_map]⟩

/-- "missing key reads as empty" -/
theorem missing_key_reads_empty : ∀ (k : Bytes) (now : Int) (db : DB), db.Inv →
    Spec.get (Spec.abs now db) k = none →
    (Model.dbRun (.hashItems k) now db).out = .ok (.list []) ∧
    (Model.dbRun (.hashFields k) now db).out = .ok (.list []) ∧
    (Model.dbRun (.hashValues k) now db).out = .ok (.list []) ∧
    (Model.dbRun (.hashLen k) now db).out = .ok (.int 0) ∧
    (∀ f, (Model.dbRun (.hashGet k f) now db).out = .error .notFound) ∧
    (∀ f, (Model.dbRun (.hashExists k f) now db).out = .ok (.bool false)) ∧
    (∀ fs, (Model.dbRun (.hashGetMany k fs) now db).out = .ok (.list [])) ∧
    (∀ fs, (Model.dbRun (.hashDelete k fs) now db).out = .ok (.int 0)) := by
  intro k now db hinv hg
  have hm : fieldMap now db k = [] := by simp [fieldMap, hashAt, hg]
  obtain ⟨h1, h2, h3, h4, h5, h6, h7⟩ := reads_agree k now db hinv
  rw [hm] at h1 h2 h3 h4 h5 h6 h7
  refine ⟨h1, h2, h3, h4, h5, h6, h7, ?_⟩
  intro fs
  refine Eq.trans (hashDelete_refines (DB.Inv.hwf hinv) now k fs).1 ?_
  simp [Spec.hashDelete, hg, Spec.ok]

/-- the name holds a hash or nothing (visibly): no key of another type is in the way -/
def NotOtherType (now : Int) (db : DB) (k : Bytes) : Prop :=
  ∀ e, Spec.get (Spec.abs now db) k = some e → ∃ h, e.val = .hash h

theorem fieldMap_cases {now : Int} {db : DB} {k : Bytes} (hw : db.WF) (hno : NotOtherType now db k) :
    (Spec.get (Spec.abs now db) k = none ∧ fieldMap now db k = []) ∨
    (∃ et, Spec.get (Spec.abs now db) k = some ⟨.hash (fieldMap now db k), et⟩ ∧
      liveAt now et = true) := by
  cases hg : Spec.get (Spec.abs now db) k with
  | none => exact Or.inl ⟨rfl, by simp [fieldMap, hashAt, hg]⟩
  | some e =>
    obtain ⟨h, hv⟩ := hno e hg
    obtain ⟨val, et⟩ := e
    simp only at hv
    subst hv
    have hm : fieldMap now db k = h := by simp [fieldMap, hashAt, hg]
    exact Or.inr ⟨et, by rw [hm], (get_abs_live hw hg).1⟩

/-- "set … report[s] truthfully which fields were created rather than overwritten": `Set` answers
`true` exactly when the field did not exist, and afterwards the key holds the old map with
`f ↦ v` (all other fields untouched). -/
theorem set_on_fieldmap : ∀ (k f v : Bytes) (now : Int) (db : DB), db.Inv →
    Spec.staleKey db now k = false → NotOtherType now db k →
    let m := fieldMap now db k
    let r := Model.dbRun (.hashSet k f v) now db
    r.out = .ok (.bool (aget m f).isNone) ∧ fieldMap now r.db k = aput m f v := by
  intro k f v now db hinv hns hno
  have hw := DB.Inv.hwf hinv
  have href : Refines now (Model.dbRun (.hashSet k f v) now db) (Spec.hashSet (Spec.abs now db) k f v) :=
    hashSet_refines hw hns f v
  unfold Refines at href
  rcases fieldMap_cases hw.wf hno with ⟨hg, hm⟩ | ⟨et, hg, hlive⟩
  · simp only [Spec.hashSet, hg, Spec.ok] at href
    simp only [hm]
    exact ⟨href.1, hashAt_after hw.wf (et := none) rfl href.2⟩
  · simp only [Spec.hashSet, hg, Spec.ok] at href
    exact ⟨href.1, hashAt_after hw.wf hlive href.2⟩

/-- a value that was set is the value read -/
theorem get_after_set : ∀ (k f v : Bytes) (now : Int) (db : DB), db.Inv →
    Spec.staleKey db now k = false → NotOtherType now db k →
    (Model.dbRun (.hashGet k f) now (Model.dbRun (.hashSet k f v) now db).db).out = .ok (.bytes v) := by
  intro k f v now db hinv hns hno
  have hw := DB.Inv.hwf hinv
  have hw' := hash_preserves_hwf (.hashSet k f v) now db rfl hw
  have hm := (set_on_fieldmap k f v now db hinv hns hno).2
  refine Eq.trans (hashGet_refines hw' now k f).1 ?_
  unfold Spec.hashGet
  unfold fieldMap at hm
  rw [hm, aget_aput]
  simp [Spec.ok]

/-- "set-if-absent": when the field exists nothing happens and the answer is `false`; otherwise it
is created and the answer is `true`. -/
theorem setnx_on_fieldmap : ∀ (k f v : Bytes) (now : Int) (db : DB), db.Inv →
    Spec.staleKey db now k = false → NotOtherType now db k →
    let m := fieldMap now db k
    let r := Model.dbRun (.hashSetNotExists k f v) now db
    ((aget m f).isSome = true → r.out = .ok (.bool false) ∧ fieldMap now r.db k = m) ∧
    (aget m f = none → r.out = .ok (.bool true) ∧ fieldMap now r.db k = aput m f v) := by
  intro k f v now db hinv hns hno
  have hw := DB.Inv.hwf hinv
  have href : Refines now (Model.dbRun (.hashSetNotExists k f v) now db)
      (Spec.hashSetNX (Spec.abs now db) k f v) := hashSetNX_refines hw hns f v
  unfold Refines at href
  rcases fieldMap_cases hw.wf hno with ⟨hg, hm⟩ | ⟨et, hg, hlive⟩
  · simp only [Spec.hashSetNX, hg, Spec.ok] at href
    refine ⟨fun hs => ?_, fun _ => ?_⟩
    · rw [hm] at hs; cases hs
    · rw [hm]
      exact ⟨href.1, hashAt_after hw.wf (et := none) rfl href.2⟩
  · simp only [Spec.hashSetNX, hg] at href
    refine ⟨fun hs => ?_, fun hf => ?_⟩
    · simp only [hs, if_true, Spec.ok] at href
      refine ⟨href.1, ?_⟩
      show hashAt (Spec.abs now _) k = _
      rw [href.2, purge_abs hw.wf.names]; rfl
    · simp only [hf, Option.isSome_none, Bool.false_eq_true, if_false, Spec.ok] at href
      exact ⟨href.1, hashAt_after hw.wf hlive href.2⟩

/-- "multi-set": the answer is the number of items whose field did not exist, and afterwards the
key holds the old map with every item put in. -/
theorem setmany_on_fieldmap : ∀ (k : Bytes) (items : List (Bytes × Bytes)) (now : Int) (db : DB),
    db.Inv → (items.map (·.1)).Nodup → items ≠ [] →
    Spec.staleKey db now k = false → NotOtherType now db k →
    let m := fieldMap now db k
    let r := Model.dbRun (.hashSetMany k items) now db
    r.out = .ok (.int (items.filter (fun p => (aget m p.1).isNone)).length) ∧
    fieldMap now r.db k = items.foldl (fun acc p => aput acc p.1 p.2) m := by
  intro k items now db hinv hnd hne hns hno
  have hw := DB.Inv.hwf hinv
  have href : Refines now (Model.dbRun (.hashSetMany k items) now db)
      (Spec.hashSetMany (Spec.abs now db) k items) := hashSetMany_refines hw hns hnd
  unfold Refines at href
  have hemp : items.isEmpty = false := by cases items <;> simp_all
  rcases fieldMap_cases hw.wf hno with ⟨hg, hm⟩ | ⟨et, hg, hlive⟩
  · simp only [Spec.hashSetMany, hemp, hg, Spec.ok, Bool.false_eq_true, if_false] at href
    have hall : items.filter (fun p => (aget ([] : List (Bytes × Bytes)) p.1).isNone) = items :=
      List.filter_eq_self.2 (fun _ _ => rfl)
    dsimp only
    rw [hm, hall]
    exact ⟨href.1, hashAt_after hw.wf (et := none) rfl href.2⟩
  · simp only [Spec.hashSetMany, hemp, hg, Spec.ok, Bool.false_eq_true, if_false] at href
    exact ⟨href.1, hashAt_after hw.wf hlive href.2⟩

/-- "delete reports exactly the number of fields removed": afterwards the key holds the old map
without the listed fields, and the answer is the difference of the two sizes — which is what
`Len` reports before and after. -/
theorem delete_on_fieldmap : ∀ (k : Bytes) (fs : List Bytes) (now : Int) (db : DB), db.Inv →
    let m := fieldMap now db k
    let r := Model.dbRun (.hashDelete k fs) now db
    fieldMap now r.db k = m.filter (fun p => !fs.contains p.1) ∧
    r.out = .ok (.int ((m.length : Int) - (fieldMap now r.db k).length)) ∧
    (Model.dbRun (.hashLen k) now db).out = .ok (.int m.length) ∧
    (Model.dbRun (.hashLen k) now r.db).out = .ok (.int (fieldMap now r.db k).length) := by
  intro k fs now db hinv
  have hw := DB.Inv.hwf hinv
  have hw' := hash_preserves_hwf (.hashDelete k fs) now db rfl hw
  have href : Refines now (Model.dbRun (.hashDelete k fs) now db)
      (Spec.hashDelete (Spec.abs now db) k fs) := hashDelete_refines hw now k fs
  unfold Refines at href
  have hst : fieldMap now (Model.dbRun (.hashDelete k fs) now db).db k
      = (fieldMap now db k).filter (fun p => !fs.contains p.1) := by
    show hashAt (Spec.abs now (Model.dbRun (.hashDelete k fs) now db).db) k = _
    cases hg : Spec.get (Spec.abs now db) k with
    | none =>
      simp only [Spec.hashDelete, hg, Spec.ok] at href
      rw [href.2, purge_abs hw.wf.names]
      simp [fieldMap, hashAt, hg]
    | some e =>
      obtain ⟨val, et⟩ := e
      have hlive := (get_abs_live hw.wf hg).1
      cases val with
      | hash h =>
        have hm : fieldMap now db k = h := by simp [fieldMap, hashAt, hg]
        simp only [Spec.hashDelete, hg, Spec.ok] at href
        rw [hm]
        by_cases hl : (h.filter (fun p => !fs.contains p.1)).length = h.length
        · have heq : h.filter (fun p => !fs.contains p.1) = h := by
            exact List.filter_eq_self.2 (fun a ha => by
              have := List.length_filter_eq_length_iff.1 hl
              exact this a ha)
          simp only [hl, beq_self_eq_true, if_true] at href
          rw [href.2, purge_abs hw.wf.names, heq]
          simp [hashAt, hg]
        · have : ((h.filter (fun p => !fs.contains p.1)).length == h.length) = false := by
            simpa using hl
          simp only [this, Bool.false_eq_true, if_false] at href
          exact hashAt_after hw.wf hlive href.2
      | _ =>
        simp only [Spec.hashDelete, hg, Spec.ok] at href
        rw [href.2, purge_abs hw.wf.names]
        simp [fieldMap, hashAt, hg]
  refine ⟨hst, ?_, (hashLen_refines hw now k).1, (hashLen_refines hw' now k).1⟩
  rw [hst, href.1]
  unfold Spec.hashDelete fieldMap hashAt
  cases hg : Spec.get (Spec.abs now db) k with
  | none => simp [Spec.ok]
  | some e =>
    obtain ⟨val, et⟩ := e
    cases val <;> simp [Spec.ok]

/-- "integer … increments behave as on strings (missing field counts as zero …)": the increment
reads the field as a number (`0` when the field or the key is missing), answers the sum, and
afterwards the field holds the canonical decimal text of the sum, which reads back as the sum. -/
theorem incr_on_fieldmap : ∀ (k f : Bytes) (d n : Int) (now : Int) (db : DB), db.Inv →
    Spec.staleKey db now k = false → NotOtherType now db k →
    let m := fieldMap now db k
    valueInt ((aget m f).getD []) = some n → inInt64 d = true → inInt64 (n + d) = true →
    let r := Model.dbRun (.hashIncr k f d) now db
    r.out = .ok (.int (n + d)) ∧ fieldMap now r.db k = aput m f (itoa (n + d)) ∧
    valueInt (itoa (n + d)) = some (n + d) := by
  intro k f d n now db hinv hns hno m hn hd hnd
  have hw := DB.Inv.hwf hinv
  have hrt : valueInt (itoa (n + d)) = some (n + d) := by
    simp only [inInt64, Bool.and_eq_true] at hnd
    exact Redka.Props.C17.valueInt_itoa (n + d) (of_decide_eq_true hnd.1) (of_decide_eq_true hnd.2)
  have hov : Overflow (.hashIncr k f d) now db = false := by
    rcases hholder hw.wf now k with ⟨_, hg, hk⟩ | ⟨_, _, _, hg, hk⟩ | ⟨r, _, _, _, hg, hk⟩ |
      ⟨r, w, _, _, _, hg, hv, hk⟩
    · simp [Overflow, hashGetRaw_none hk]
    · simp [Overflow, hashGetRaw_none hk]
    · have hm : m = hview db.hashes r.id := by simp [m, fieldMap, hashAt, hg]
      simp only [Overflow, hashGetRaw_some hk, ← aget_hview hw.pairs, ← hm]
      cases hf : aget m f with
      | none => rfl
      | some b =>
        rw [hf] at hn
        simp only [Option.getD_some] at hn
        simp [hn, hnd]
    · simp [Overflow, hashGetRaw_none hk]
  have href := hash_refines_partial (.hashIncr k f d) now db rfl hinv hd rfl
    (by simpa [Stale, writeKeys] using hns) hov
  simp only [Spec.step] at href
  rcases fieldMap_cases hw.wf hno with ⟨hg, hm⟩ | ⟨et, hg, hlive⟩
  · have hn0 : n = 0 := by
      have : valueInt ((aget (fieldMap now db k) f).getD []) = some n := hn
      rw [hm] at this
      simpa [aget_nil, valueInt] using this.symm
    subst hn0
    simp only [Spec.hashIncr, hg, Spec.ok] at href
    simp only [Int.zero_add] at hrt ⊢
    refine ⟨href.1, ?_, hrt⟩
    show fieldMap now _ k = aput (fieldMap now db k) f (itoa d)
    rw [hm]
    exact hashAt_after hw.wf (et := none) rfl href.2
  · have hn' : valueInt ((aget (fieldMap now db k) f).getD []) = some n := hn
    simp only [Spec.hashIncr, hg, hn', Spec.ok] at href
    exact ⟨href.1, hashAt_after hw.wf hlive href.2, hrt⟩

/-- "…non-numeric fields fail without effect": on a visible hash whose field is not the text of
an integer the increment reports a value-type error and the tables are untouched. -/
theorem incr_nonnumeric_fails : ∀ (k f b : Bytes) (d : Int) (now : Int) (db : DB), db.Inv →
    aget (fieldMap now db k) f = some b → valueInt b = none →
    (Model.dbRun (.hashIncr k f d) now db).out = .error .valueType ∧
    (Model.dbRun (.hashIncr k f d) now db).db = db := by
  intro k f b d now db hinv hf hn
  have hw := DB.Inv.hwf hinv
  have hraw : Model.hashGetRaw db k f now = some b := by
    rcases hholder hw.wf now k with ⟨_, hg, hk⟩ | ⟨_, _, _, hg, hk⟩ | ⟨r, _, _, _, hg, hk⟩ |
      ⟨r, w, _, _, _, hg, hv, hk⟩
    · simp [fieldMap, hashAt, hg, aget_nil] at hf
    · simp [fieldMap, hashAt, hg, aget_nil] at hf
    · rw [hashGetRaw_some hk, ← aget_hview hw.pairs]
      simpa [fieldMap, hashAt, hg] using hf
    · cases w <;> first | exact absurd rfl (hv _) | simp [fieldMap, hashAt, hg, aget_nil] at hf
  have hout : (Model.dbRun (.hashIncr k f d) now db).out = .error .valueType := by
    show (update (fun x => Model.hashIncr x k f d now) db).out = _
    simp [update, Model.hashIncr, hraw, hn, Res.err]
  exact ⟨hout, update_error_db hout⟩

/-! ### the deviations are real -/

def bK : Bytes := [107]          -- "k"
def bA : Bytes := [97]           -- "a"
def bB : Bytes := [98]           -- "b"
def bV : Bytes := [118]          -- "v"

/-- one hash key "k" = {a: "5"} whose expiry (5) has passed at `now = 10`, not yet cleaned up -/
def dbStaleHash : DB :=
  { keys := [{ id := 1, key := bK, ty := 4, version := 1, etime := some 5, mtime := 0, len := some 1 }],
    hashes := [{ rowid := 1, kid := 1, field := bA, value := [53] }] }

/-- one list key "k" = ["a"] whose expiry has passed, not yet cleaned up -/
def dbStaleList : DB :=
  { keys := [{ id := 1, key := bK, ty := 2, version := 1, etime := some 5, mtime := 0, len := some 1 }],
    lists := [{ kid := 1, pos := 0, elem := [97] }] }

/-- one hash key "k" = {a: "9223372036854775807"} -/
def dbMaxInt : DB :=
  { keys := [{ id := 1, key := bK, ty := 4, version := 1, etime := none, mtime := 0, len := some 1 }],
    hashes := [{ rowid := 1, kid := 1, field := bA,
                 value := [57,50,50,51,51,55,50,48,51,54,56,53,52,55,55,53,56,48,55] }] }

/-- one hash key "k" = {a: "1"} -/
def dbOne : DB :=
  { keys := [{ id := 1, key := bK, ty := 4, version := 1, etime := none, mtime := 0, len := some 1 }],
    hashes := [{ rowid := 1, kid := 1, field := bA, value := [49] }] }

def outInt : Out → Option Int
  | .ok (.int m) => some m
  | _ => none

theorem out_of_outInt {o : Out} {m : Int} (h : outInt o = some m) : o = .ok (.int m) := by
  cases o with
  | error e => simp [outInt] at h
  | ok v => cases v <;> simp_all [outInt]

/-- D05 is real (set). The hash "k" expired at 5; at 10 it does not exist, so setting field "b"
must create "k" = {b: "v"} without expiry. The model (like the code) answers `true` but reuses the
expired row — old field, old expiry and all: the key still does not exist afterwards. -/
theorem stale_set_deviates :
    dbStaleHash.Inv ∧ Stale (.hashSet bK bB bV) 10 dbStaleHash = true ∧
    Overflow (.hashSet bK bB bV) 10 dbStaleHash = false ∧
    (Model.dbRun (.hashSet bK bB bV) 10 dbStaleHash).out = .ok (.bool true) ∧
    Spec.get (Spec.abs 10 (Model.dbRun (.hashSet bK bB bV) 10 dbStaleHash).db) bK = none ∧
    Spec.get (Spec.purge 10 (Spec.step (.hashSet bK bB bV) 10 (Spec.abs 10 dbStaleHash)).st) bK
      = some ⟨.hash [(bB, bV)], none⟩ := by
  refine ⟨by unfold DB.Inv; decide, by decide, by decide, by rfl, by decide, by decide +kernel⟩

/-- D05 is real (increment): same state, increment of the leftover field "a" = "5" by 1. The map
answers 1 (the key does not exist); the model answers 1 as well (its read is guarded) but writes
into the expired row, and the key still does not exist afterwards. -/
theorem stale_incr_deviates :
    Stale (.hashIncr bK bA 1) 10 dbStaleHash = true ∧
    Overflow (.hashIncr bK bA 1) 10 dbStaleHash = false ∧
    (Model.dbRun (.hashIncr bK bA 1) 10 dbStaleHash).out = .ok (.int 1) ∧
    Spec.get (Spec.abs 10 (Model.dbRun (.hashIncr bK bA 1) 10 dbStaleHash).db) bK = none ∧
    Spec.get (Spec.purge 10 (Spec.step (.hashIncr bK bA 1) 10 (Spec.abs 10 dbStaleHash)).st) bK
      = some ⟨.hash [(bA, [49])], none⟩ := by
  refine ⟨by decide, by decide, out_of_outInt (by decide +kernel), by decide +kernel,
    by decide +kernel⟩

/-- D05 is real (other type). The list "k" expired at 5; at 10 the name is free, so a hash set
must succeed. The model (like the code) runs into the expired list row and answers `ErrKeyType`. -/
theorem stale_othertype_deviates :
    dbStaleList.Inv ∧ Stale (.hashSet bK bA bV) 10 dbStaleList = true ∧
    (Model.dbRun (.hashSet bK bA bV) 10 dbStaleList).out = .error .keyType ∧
    (Spec.step (.hashSet bK bA bV) 10 (Spec.abs 10 dbStaleList)).out = .ok (.bool true) := by
  refine ⟨by unfold DB.Inv; decide, by decide, by rfl, by rfl⟩

/-- D17 is real. 9223372036854775807 + 1: the map answers 9223372036854775808, the model (like
Go's `int` addition) wraps around to -9223372036854775808. -/
theorem overflow_deviates :
    dbMaxInt.Inv ∧ Stale (.hashIncr bK bA 1) 10 dbMaxInt = false ∧
    Overflow (.hashIncr bK bA 1) 10 dbMaxInt = true ∧
    (Model.dbRun (.hashIncr bK bA 1) 10 dbMaxInt).out = .ok (.int (-9223372036854775808)) ∧
    (Spec.step (.hashIncr bK bA 1) 10 (Spec.abs 10 dbMaxInt)).out = .ok (.int 9223372036854775808) := by
  refine ⟨by unfold DB.Inv; decide, by decide, by decide +kernel,
    out_of_outInt (by decide +kernel), out_of_outInt (by decide +kernel)⟩

/-- Hence the refinement statement without the two classifiers is false. -/
theorem full_strength_is_false :
    ¬ (∀ (op : Op) (now : Int) (db : DB), IsFamOp op → db.Inv → ArgsInRange op = true →
        DistinctFields op = true →
        (Model.dbRun op now db).out = (Spec.step op now (Spec.abs now db)).out ∧
        Spec.abs now (Model.dbRun op now db).db
          = Spec.purge now (Spec.step op now (Spec.abs now db)).st) := by
  intro h
  have h1 := (h (.hashSet bK bA bV) 10 dbStaleList rfl stale_othertype_deviates.1 rfl rfl).1
  rw [stale_othertype_deviates.2.2.1, stale_othertype_deviates.2.2.2] at h1
  cases h1

/-- …and it is false for `Stale` alone (without dropping `Overflow`) and for `Overflow` alone. -/
theorem each_classifier_is_needed :
    (∃ op now db, IsFamOp op ∧ db.Inv ∧ ArgsInRange op = true ∧ DistinctFields op = true ∧
      Overflow op now db = false ∧
      (Model.dbRun op now db).out ≠ (Spec.step op now (Spec.abs now db)).out) ∧
    (∃ op now db, IsFamOp op ∧ db.Inv ∧ ArgsInRange op = true ∧ DistinctFields op = true ∧
      Stale op now db = false ∧
      (Model.dbRun op now db).out ≠ (Spec.step op now (Spec.abs now db)).out) := by
  refine ⟨⟨.hashSet bK bA bV, 10, dbStaleList, rfl, stale_othertype_deviates.1, rfl, rfl, rfl, ?_⟩,
    ⟨.hashIncr bK bA 1, 10, dbMaxInt, rfl, overflow_deviates.1, rfl, rfl, overflow_deviates.2.1, ?_⟩⟩
  · rw [stale_othertype_deviates.2.2.1, stale_othertype_deviates.2.2.2]
    intro h; cases h
  · rw [overflow_deviates.2.2.2.1, overflow_deviates.2.2.2.2]
    intro h
    have := congrArg outInt h
    simp [outInt] at this

/-- `ArgsInRange` is needed only because `Op.hashIncr` carries an unbounded integer where Go has
an `int`: an "increment by 2^63" of a missing field wraps in the model. -/
theorem incr_arg_out_of_range :
    ArgsInRange (.hashIncr bK bA 9223372036854775808) = false ∧
    (Model.dbRun (.hashIncr bK bA 9223372036854775808) 10 {}).out
      = .ok (.int (-9223372036854775808)) ∧
    (Spec.step (.hashIncr bK bA 9223372036854775808) 10 (Spec.abs 10 {})).out
      = .ok (.int 9223372036854775808) := by
  refine ⟨by decide, out_of_outInt (by decide +kernel), out_of_outInt (by decide +kernel)⟩

/-- `DistinctFields` is needed only because `Op.hashSetMany` carries a list where Go has a map: for
the "map" {a: "v", a: "b"} on "k" = {a: "1"} the model's single `count(field)` statement finds one
existing row among two items and answers 1 created, the item-by-item specification answers 0. -/
theorem repeated_field_deviates :
    dbOne.Inv ∧ DistinctFields (.hashSetMany bK [(bA, bV), (bA, bB)]) = false ∧
    Stale (.hashSetMany bK [(bA, bV), (bA, bB)]) 10 dbOne = false ∧
    (Model.dbRun (.hashSetMany bK [(bA, bV), (bA, bB)]) 10 dbOne).out = .ok (.int 1) ∧
    (Spec.step (.hashSetMany bK [(bA, bV), (bA, bB)]) 10 (Spec.abs 10 dbOne)).out = .ok (.int 0) := by
  refine ⟨by unfold DB.Inv; decide, by decide, by decide,
    out_of_outInt (by decide +kernel), out_of_outInt (by decide +kernel)⟩

/-! ### non-vacuity: the hypotheses are satisfiable for every kind of operation -/

def bH : Bytes := [104]          -- "h"
def bG : Bytes := [103]          -- "g"
def bS : Bytes := [115]          -- "s"
def bN : Bytes := [110]          -- "n", not stored

/-- a hash "h" = {a: "41", b: "x"}, a hash "g" = {a: "7"} that expires at 100, a string "s" -/
def demo : DB :=
  { keys := [
      { id := 1, key := bH, ty := 4, version := 1, etime := none, mtime := 0, len := some 2 },
      { id := 2, key := bG, ty := 4, version := 3, etime := some 100, mtime := 0, len := some 1 },
      { id := 3, key := bS, ty := 1, version := 1, etime := none, mtime := 0, len := none }],
    strs := [{ kid := 3, value := [120] }],
    hashes := [{ rowid := 1, kid := 1, field := bB, value := [120] },
               { rowid := 2, kid := 1, field := bA, value := [52, 49] },
               { rowid := 3, kid := 2, field := bA, value := [55] }] }

example : demo.Inv := by unfold DB.Inv; decide

/-- every hypothesis of `hash_refines_partial` holds for an operation of each kind on `demo` -/
example : ∀ op ∈ [Op.hashGet bH bA, .hashGet bS bA, .hashGet bN bA, .hashExists bH bB,
      .hashFields bH, .hashValues bH, .hashItems bG, .hashLen bH, .hashGetMany bH [bA, bV],
      .hashSet bH bA bV, .hashSet bN bA bV, .hashSet bS bA bV, .hashSetNotExists bH bA bV,
      .hashSetNotExists bG bB bV, .hashSetMany bH [(bA, bV), (bV, bV)], .hashSetMany bN [(bA, bV)],
      .hashSetMany bS [], .hashIncr bH bA 1, .hashIncr bH bB 1, .hashIncr bG bV (-7),
      .hashIncr bN bA 5, .hashDelete bH [bA, bV], .hashDelete bS [bA], .hashDelete bN []],
    IsFamOp op ∧ ArgsInRange op = true ∧ DistinctFields op = true ∧ Stale op 10 demo = false ∧
      Overflow op 10 demo = false := by
  decide +kernel

/-- the theorem instantiated: the increment of "h".a = "41" on `demo` -/
example :
    (Model.dbRun (.hashIncr bH bA 1) 10 demo).out = .ok (.int 42) ∧
    fieldMap 10 (Model.dbRun (.hashIncr bH bA 1) 10 demo).db bH = [(bA, [52, 50]), (bB, [120])] := by
  have h := incr_on_fieldmap bH bA 1 41 10 demo (by unfold DB.Inv; decide) (by decide)
    (by intro e he; have : e = ⟨.hash [(bA, [52, 49]), (bB, [120])], none⟩ := by
          have h2 : Spec.get (Spec.abs 10 demo) bH = some ⟨.hash [(bA, [52, 49]), (bB, [120])], none⟩ := by
            decide +kernel
          rw [h2] at he; cases he; rfl
        exact ⟨_, by rw [this]⟩)
    (by decide +kernel) (by decide) (by decide)
  exact ⟨h.1, by rw [h.2.1]; decide +kernel⟩

/-- a run on `demo` that satisfies the hypotheses of `hash_seq_refines`: create a hash, add to it,
increment with the clock advancing, delete, and read after "g" has expired -/
def demoRun : List (Op × Int) :=
  [(.hashSet bN bA [55], 10), (.hashSetMany bN [(bB, bV), (bA, [56])], 11), (.hashIncr bN bA 1, 11),
   (.hashSetNotExists bG bA bV, 12), (.hashDelete bH [bB], 12), (.hashItems bG, 200),
   (.hashLen bN, 200)]

instance decCleanRun : ∀ tr db, Decidable (CleanRun tr db)
  | [], _ => isTrue trivial
  | (op, now) :: rest, db =>
    have := decCleanRun rest (Model.dbRun op now db).db
    inferInstanceAs (Decidable (_ ∧ _ ∧ _ ∧ _ ∧ _ ∧ _))

instance decClockOk : ∀ t tr, Decidable (ClockOk t tr)
  | _, [] => isTrue trivial
  | t, (_, now) :: rest =>
    have := decClockOk now rest
    inferInstanceAs (Decidable (t ≤ now ∧ ClockOk now rest))

example : ClockOk 10 demoRun ∧ CleanRun demoRun demo := by decide +kernel

/-- at 200 the key "g" (expiry 100) is gone; "n" was created as {a: "7"}, then {a: "8", b: "v"},
then a ↦ "9"; "h" lost its field b -/
example : (runSpec demoRun (Spec.abs 10 demo)).2
    = [(bH, ⟨.hash [(bA, [52, 49])], none⟩), (bN, ⟨.hash [(bA, [57]), (bB, bV)], none⟩),
       (bS, ⟨.str [120], none⟩)] := by
  decide +kernel

end Redka.Props.C04
