/-
  C10, cleaner clause —
  "…the cleaner removes exactly the expired keys together with all their elements and nothing else."

  The cleaner is `Model.keyDeleteExpired db n now` (`internal/rkey/tx.go: deleteExpired`):
  `n > 0` → `delete from rkey where rowid in (select rowid from rkey where etime <= ? limit ?)`,
  otherwise `delete from rkey where etime <= ?`; children go by `ON DELETE CASCADE` when the
  executing connection has `foreign_keys = 1` (`DB.fk`).

  The model selects the rows to delete BY ID (`ids.contains r.id`), as the SQL does by rowid.  The
  type `DB` does not force ids to be unique, so the statements that say "only expired rows go" carry
  the hypothesis `KeyIdsUnique db` (`id integer primary key`; it is one conjunct of `DB.Inv`, see
  `keyIdsUnique_of_inv`).  Without it they are FALSE in the model — `exactly_expired_needs_unique_ids`
  is the witness — so the hypothesis is not a silent weakening.

  Only property theorems and witnesses here; lemmas are in `Proofs/Clean.lean`.
-/
import RedkaModel.Proofs.Clean
import RedkaModel.Model.Run

namespace Redka.Props.C10

open Redka Redka.Model Redka.Clean

/-! ### the bridge between the read guard and the cleaner's `where` -/

/-- `etime is null or etime > now` (every read) is the exact complement of `etime <= now`
(the cleaner) -/
theorem live_iff_not_expired : ∀ (now : Int) (r : KeyRow),
    r.live now = true ↔ ¬ ∃ e, r.etime = some e ∧ e ≤ now :=
  live_iff

/-- number of stored rows with `etime <= now` -/
def expiredCount (db : DB) (now : Int) : Int :=
  ((db.keys.filter (fun r => match r.etime with
    | none => false
    | some t => decide (t ≤ now))).length : Int)

/-- `KeyIdsUnique` is the first conjunct of the uniqueness audit of `DB.Inv` -/
theorem unique_ids_of_inv : ∀ db : DB, db.Inv → KeyIdsUnique db := fun _ => keyIdsUnique_of_inv

theorem unique_ids_iff : ∀ db : DB, KeyIdsUnique db ↔ nodupB (db.keys.map (·.id)) = true :=
  keyIdsUnique_iff

/-! ### all expired keys go (`n ≤ 0`, the background manager's `nKeys = 0`) -/

/-- The unlimited cleaner leaves exactly the live rows, in their order, and reports the number of
rows with `etime <= now`. -/
theorem cleaner_removes_exactly_expired : ∀ (db : DB) (now : Int), KeyIdsUnique db →
    let r := keyDeleteExpired db 0 now
    r.db.keys = db.keys.filter (·.live now) ∧ r.out = .ok (.int (expiredCount db now)) := by
  intro db now hu
  refine ⟨?_, ?_⟩
  · rw [keyDeleteExpired_keys]
    apply List.filter_congr
    intro x hx
    rw [sel_eq_expired hu (Int.le_refl 0) hx, live_eq_not_expired]
  · rw [keyDeleteExpired_out, deleteKeysWhere_snd]
    have : db.keys.filter (sel db 0 now) = db.keys.filter (expired now) :=
      List.filter_congr (fun x hx => sel_eq_expired hu (Int.le_refl 0) hx)
    rw [this]; rfl

/-- the same for every non-positive limit (a negative `n` also takes the unlimited statement) -/
theorem cleaner_removes_exactly_expired_nonpos : ∀ (db : DB) (n now : Int), n ≤ 0 → KeyIdsUnique db →
    let r := keyDeleteExpired db n now
    r.db.keys = db.keys.filter (·.live now) ∧ r.out = .ok (.int (expiredCount db now)) := by
  intro db n now hn hu
  refine ⟨?_, ?_⟩
  · rw [keyDeleteExpired_keys]
    apply List.filter_congr
    intro x hx
    rw [sel_eq_expired hu hn hx, live_eq_not_expired]
  · rw [keyDeleteExpired_out, deleteKeysWhere_snd]
    have : db.keys.filter (sel db n now) = db.keys.filter (expired now) :=
      List.filter_congr (fun x hx => sel_eq_expired hu hn hx)
    rw [this]; rfl

/-- two rows with the same id, one live and one expired (impossible in SQLite, possible in `DB`) -/
def cleanerDupIdDB : DB :=
  { keys := [ { id := 1, key := [97], ty := 1, version := 1, etime := none, mtime := 0, len := none },
              { id := 1, key := [98], ty := 1, version := 1, etime := some 5, mtime := 0, len := none } ] }

/-- The statement as first written (`∀ db now` with no hypothesis) is false in the model: deletion
is by id, so a live row that shares its id with an expired row goes too. -/
theorem exactly_expired_needs_unique_ids :
    ¬ ∀ (db : DB) (now : Int),
        (keyDeleteExpired db 0 now).db.keys = db.keys.filter (·.live now) := by
  intro h
  exact absurd (h cleanerDupIdDB 10) (by decide)

/-- After the unlimited cleaner no stored row is expired — needs no hypothesis at all. -/
theorem cleaner_leaves_no_expired : ∀ (db : DB) (now : Int),
    ∀ r ∈ (keyDeleteExpired db 0 now).db.keys, r.live now = true := by
  intro db now r hr
  rw [keyDeleteExpired_keys, List.mem_filter] at hr
  cases hl : r.live now with
  | true => rfl
  | false =>
    have := sel_of_expired (Int.le_refl 0) hr.1 ((not_live_iff_expired now r).1 hl)
    rw [this] at hr; exact absurd hr.2 (by decide)

theorem cleaner_leaves_no_expired_nonpos : ∀ (db : DB) (n now : Int), n ≤ 0 →
    ∀ r ∈ (keyDeleteExpired db n now).db.keys, r.live now = true := by
  intro db n now hn r hr
  rw [keyDeleteExpired_keys, List.mem_filter] at hr
  cases hl : r.live now with
  | true => rfl
  | false =>
    have := sel_of_expired hn hr.1 ((not_live_iff_expired now r).1 hl)
    rw [this] at hr; exact absurd hr.2 (by decide)

/-! ### every limit: live rows stay -/

/-- For every `n` (positive, zero, negative): a live stored row is still stored afterwards. -/
theorem cleaner_touches_only_expired : ∀ (n : Int) (db : DB) (now : Int) (r : KeyRow), KeyIdsUnique db →
    r ∈ db.keys → r.live now = true → r ∈ (keyDeleteExpired db n now).db.keys := by
  intro n db now r hu hr hl
  rw [keyDeleteExpired_keys, List.mem_filter]
  exact ⟨hr, by rw [sel_live_false hu (Int.le_refl now) hr hl]; rfl⟩

/-- nothing is added or reordered: the stored rows afterwards are a sublist of those before -/
theorem cleaner_keys_sublist : ∀ (n : Int) (db : DB) (now : Int),
    (keyDeleteExpired db n now).db.keys.Sublist db.keys := by
  intro n db now
  rw [keyDeleteExpired_keys]; exact List.filter_sublist

/-- without unique ids a live row can go (same witness) -/
theorem touches_only_expired_needs_unique_ids :
    ¬ ∀ (n : Int) (db : DB) (now : Int) (r : KeyRow),
        r ∈ db.keys → r.live now = true → r ∈ (keyDeleteExpired db n now).db.keys := by
  intro h
  exact absurd (h 0 cleanerDupIdDB 10
    { id := 1, key := [97], ty := 1, version := 1, etime := none, mtime := 0, len := none }
    (by decide) (by decide)) (by decide)

/-! ### a positive limit -/

/-- With `n > 0` the cleaner removes exactly `min n (#expired)` rows — the first `n` of the expired
rows in `rkey_etime_idx` order —, reports that number, every removed row is expired, and (previous
theorem) every live row stays. -/
theorem cleaner_limited : ∀ (n : Int) (db : DB) (now : Int), 0 < n → KeyIdsUnique db →
    let r := keyDeleteExpired db n now
    r.out = .ok (.int (min n (expiredCount db now))) ∧
    (r.db.keys.length : Int) = (db.keys.length : Int) - min n (expiredCount db now) ∧
    (∀ x ∈ db.keys, x ∉ r.db.keys → x.live now = false) ∧
    (∀ x ∈ db.keys, x.live now = true → x ∈ r.db.keys) ∧
    (∀ x ∈ db.keys, x ∉ r.db.keys ↔ x ∈ (expiredRows db now).take n.toNat) := by
  intro n db now hn hu
  have hlen : ((db.keys.filter (sel db n now)).length : Int) = min n (expiredCount db now) := by
    rw [length_filter_sel hu, length_victims_pos hn]; rfl
  refine ⟨?_, ?_, ?_, ?_, ?_⟩
  · rw [keyDeleteExpired_out, deleteKeysWhere_snd, hlen]
  · rw [keyDeleteExpired_keys, length_filter_not, hlen]
  · intro x hx hnot
    rw [keyDeleteExpired_db, removed_iff db _ hx] at hnot
    rw [live_eq_not_expired, sel_expired hu hx hnot]; rfl
  · intro x hx hl
    rw [keyDeleteExpired_keys, List.mem_filter]
    exact ⟨hx, by rw [sel_live_false hu (Int.le_refl now) hx hl]; rfl⟩
  · intro x hx
    rw [keyDeleteExpired_db, removed_iff db _ hx, ← victims_of_pos hn]
    exact id_mem_victims_iff hu hx

/-! ### children -/

/-- With `foreign_keys = 1`: after the cleaner (any `n`) no row of any of the five child tables
refers to a removed key. -/
theorem cleaner_removes_children : ∀ (db : DB) (n now : Int), db.fk = true →
    let post := (keyDeleteExpired db n now).db
    ∀ k ∈ db.keys, k ∉ post.keys →
      (∀ c ∈ post.strs, c.kid ≠ k.id) ∧ (∀ c ∈ post.lists, c.kid ≠ k.id) ∧
      (∀ c ∈ post.sets, c.kid ≠ k.id) ∧ (∀ c ∈ post.hashes, c.kid ≠ k.id) ∧
      (∀ c ∈ post.zsets, c.kid ≠ k.id) := by
  intro db n now hfk post k hk hnot
  have hsel : sel db n now k = true := (removed_iff db _ hk).1 hnot
  have hg := removed_id_gone (sel db n now) hk hsel
  have key : ∀ kid : Int, (goneIds db (sel db n now)).contains kid = false → kid ≠ k.id := by
    intro kid h heq; rw [heq, hg] at h; cases h
  show (∀ c ∈ (keyDeleteExpired db n now).db.strs, c.kid ≠ k.id) ∧
    (∀ c ∈ (keyDeleteExpired db n now).db.lists, c.kid ≠ k.id) ∧
    (∀ c ∈ (keyDeleteExpired db n now).db.sets, c.kid ≠ k.id) ∧
    (∀ c ∈ (keyDeleteExpired db n now).db.hashes, c.kid ≠ k.id) ∧
    (∀ c ∈ (keyDeleteExpired db n now).db.zsets, c.kid ≠ k.id)
  rw [keyDeleteExpired_db, dkw_strs_on db _ hfk, dkw_lists_on db _ hfk, dkw_sets_on db _ hfk,
    dkw_hashes_on db _ hfk, dkw_zsets_on db _ hfk]
  simp only [List.mem_filter, Bool.not_eq_true']
  exact ⟨fun c hc => key _ hc.2, fun c hc => key _ hc.2, fun c hc => key _ hc.2,
    fun c hc => key _ hc.2, fun c hc => key _ hc.2⟩

/-- …and nothing else goes: with `foreign_keys = 1` a child row is stored afterwards iff it was
stored before and its owner id is not the id of a removed key (all five tables; order kept, the
tables afterwards are filters of the tables before). -/
theorem cleaner_children_exact : ∀ (db : DB) (n now : Int), db.fk = true →
    let post := (keyDeleteExpired db n now).db
    let kept : Int → Prop := fun kid => ∀ k ∈ db.keys, k ∉ post.keys → k.id ≠ kid
    (∀ c, c ∈ post.strs ↔ c ∈ db.strs ∧ kept c.kid) ∧
    (∀ c, c ∈ post.lists ↔ c ∈ db.lists ∧ kept c.kid) ∧
    (∀ c, c ∈ post.sets ↔ c ∈ db.sets ∧ kept c.kid) ∧
    (∀ c, c ∈ post.hashes ↔ c ∈ db.hashes ∧ kept c.kid) ∧
    (∀ c, c ∈ post.zsets ↔ c ∈ db.zsets ∧ kept c.kid) := by
  intro db n now hfk post kept
  have hk : ∀ kid, (goneIds db (sel db n now)).contains kid = false ↔ kept kid := by
    intro kid
    rw [gone_not_contains_iff]
    constructor
    · intro h k hk hnot; exact h k hk ((removed_iff db _ hk).1 hnot)
    · intro h k hk hs; exact h k hk ((removed_iff db _ hk).2 hs)
  show (∀ c, c ∈ (keyDeleteExpired db n now).db.strs ↔ _) ∧
    (∀ c, c ∈ (keyDeleteExpired db n now).db.lists ↔ _) ∧
    (∀ c, c ∈ (keyDeleteExpired db n now).db.sets ↔ _) ∧
    (∀ c, c ∈ (keyDeleteExpired db n now).db.hashes ↔ _) ∧
    (∀ c, c ∈ (keyDeleteExpired db n now).db.zsets ↔ _)
  rw [keyDeleteExpired_db, dkw_strs_on db _ hfk, dkw_lists_on db _ hfk, dkw_sets_on db _ hfk,
    dkw_hashes_on db _ hfk, dkw_zsets_on db _ hfk]
  refine ⟨?_, ?_, ?_, ?_, ?_⟩ <;> intro c <;> simp only [List.mem_filter, Bool.not_eq_true', hk]

/-- The child rows of every key that is still stored afterwards are untouched, in all five tables,
whatever `foreign_keys` is and whether or not ids are unique. -/
theorem cleaner_keeps_live_children : ∀ (db : DB) (n now : Int),
    let post := (keyDeleteExpired db n now).db
    ∀ k ∈ post.keys,
      post.strs.filter (fun c => c.kid == k.id) = db.strs.filter (fun c => c.kid == k.id) ∧
      post.lists.filter (fun c => c.kid == k.id) = db.lists.filter (fun c => c.kid == k.id) ∧
      post.sets.filter (fun c => c.kid == k.id) = db.sets.filter (fun c => c.kid == k.id) ∧
      post.hashes.filter (fun c => c.kid == k.id) = db.hashes.filter (fun c => c.kid == k.id) ∧
      post.zsets.filter (fun c => c.kid == k.id) = db.zsets.filter (fun c => c.kid == k.id) := by
  intro db n now post k hk
  have hk' : k ∈ (keyDeleteExpired db n now).db.keys := hk
  rw [keyDeleteExpired_keys, List.mem_filter] at hk'
  have hs : sel db n now k = false := by cases h : sel db n now k <;> simp_all
  have hg : (goneIds db (sel db n now)).contains k.id = false :=
    survivor_id_not_gone_of_idpred db
      (fun i => ((victims db n now).map (fun r : KeyRow => r.id)).contains i) (r := k) hs
  exact ⟨dkw_strs_of hg, dkw_lists_of hg, dkw_sets_of hg, dkw_hashes_of hg, dkw_zsets_of hg⟩

/-- in particular the children of every LIVE key (unique ids) -/
theorem cleaner_keeps_children_of_live : ∀ (db : DB) (n now : Int), KeyIdsUnique db →
    let post := (keyDeleteExpired db n now).db
    ∀ k ∈ db.keys, k.live now = true →
      post.strs.filter (fun c => c.kid == k.id) = db.strs.filter (fun c => c.kid == k.id) ∧
      post.lists.filter (fun c => c.kid == k.id) = db.lists.filter (fun c => c.kid == k.id) ∧
      post.sets.filter (fun c => c.kid == k.id) = db.sets.filter (fun c => c.kid == k.id) ∧
      post.hashes.filter (fun c => c.kid == k.id) = db.hashes.filter (fun c => c.kid == k.id) ∧
      post.zsets.filter (fun c => c.kid == k.id) = db.zsets.filter (fun c => c.kid == k.id) := by
  intro db n now hu post k hk hl
  exact cleaner_keeps_live_children db n now k (cleaner_touches_only_expired n db now k hu hk hl)

/-- With `foreign_keys = 0` (the state D14 puts the read-write connection in) only `rkey` changes:
all child rows stay, those of the removed keys as orphans. -/
theorem cleaner_fk_off_keeps_all_children : ∀ (db : DB) (n now : Int), db.fk = false →
    let post := (keyDeleteExpired db n now).db
    post.strs = db.strs ∧ post.lists = db.lists ∧ post.sets = db.sets ∧
    post.hashes = db.hashes ∧ post.zsets = db.zsets := by
  intro db n now hfk
  show (keyDeleteExpired db n now).db.strs = _ ∧ (keyDeleteExpired db n now).db.lists = _ ∧
    (keyDeleteExpired db n now).db.sets = _ ∧ (keyDeleteExpired db n now).db.hashes = _ ∧
    (keyDeleteExpired db n now).db.zsets = _
  rw [keyDeleteExpired_db, dkw_off db _ hfk]
  exact ⟨rfl, rfl, rfl, rfl, rfl⟩

/-! ### the keyspace every read sees -/

/-- Reclamation is invisible: the abstract keyspace (live keys with their values and expiry — what
every API read is specified against) at `now`, and at every later time, is the same before and
after the cleaner ran at `now`; for every limit `n` and either `foreign_keys` setting.
Uses only the uniqueness of key ids. -/
theorem cleaner_abs_unchanged_from : ∀ (db : DB) (n now now' : Int), KeyIdsUnique db → now ≤ now' →
    Spec.abs now' (keyDeleteExpired db n now).db = Spec.abs now' db :=
  fun _ n _ _ hu hle => abs_keyDeleteExpired hu n hle

theorem cleaner_abs_unchanged : ∀ (db : DB) (now : Int), db.Inv → ∀ n : Int,
    Spec.abs now (keyDeleteExpired db n now).db = Spec.abs now db :=
  fun _ now hinv n => abs_keyDeleteExpired (keyIdsUnique_of_inv hinv) n (Int.le_refl now)

/-- without unique ids the keyspace can change (the live row of `cleanerDupIdDB` disappears) -/
theorem abs_unchanged_needs_unique_ids :
    ¬ ∀ (db : DB) (n now : Int),
        ((keyDeleteExpired db n now).db.keys.filter (·.live now)) = db.keys.filter (·.live now) := by
  intro h
  exact absurd (h cleanerDupIdDB 0 10) (by decide)

/-! ### the structural invariant -/

/-- The cleaner on a connection with `foreign_keys = 1` preserves the C11 audit (cached lengths,
owners, uniqueness), for every limit. -/
theorem cleaner_preserves_inv : ∀ (db : DB) (n now : Int), db.Inv → db.fk = true →
    (keyDeleteExpired db n now).db.Inv := by
  intro db n now hinv hfk
  rw [keyDeleteExpired_db]; exact inv_dkw hinv hfk _

theorem cleaner_preserves_unique_ids : ∀ (db : DB) (n now : Int), KeyIdsUnique db →
    KeyIdsUnique (keyDeleteExpired db n now).db := by
  intro db n now hu
  rw [keyDeleteExpired_db]; exact keyIdsUnique_dkw hu _

/-! ### non-vacuity and the D14 mechanism -/

/-- one expired string `a` (id 1) with its value, one expired set `s` (id 2) with two members, one
live list `l` (id 3, expires at 100) with one element, one persistent hash `h` (id 4) -/
def cleanerSample (fk : Bool) : DB :=
  { keys := [ { id := 1, key := [97], ty := 1, version := 1, etime := some 5, mtime := 0, len := none },
              { id := 2, key := [115], ty := 3, version := 2, etime := some 7, mtime := 0, len := some 2 },
              { id := 3, key := [108], ty := 2, version := 1, etime := some 100, mtime := 0, len := some 1 },
              { id := 4, key := [104], ty := 4, version := 1, etime := none, mtime := 0, len := some 1 } ],
    strs := [ { kid := 1, value := [120] } ],
    sets := [ { rowid := 1, kid := 2, elem := [49] }, { rowid := 2, kid := 2, elem := [50] } ],
    lists := [ { kid := 3, pos := 0, elem := [121] } ],
    hashes := [ { rowid := 1, kid := 4, field := [102], value := [118] } ],
    fk := fk }

example : (cleanerSample true).Inv := by show _ = true; decide

/-- `foreign_keys = 1`: the two expired keys go with their three child rows, the rest is untouched -/
example : (keyDeleteExpired (cleanerSample true) 0 10).db =
    { cleanerSample true with
      keys := [ { id := 3, key := [108], ty := 2, version := 1, etime := some 100, mtime := 0, len := some 1 },
                { id := 4, key := [104], ty := 4, version := 1, etime := none, mtime := 0, len := some 1 } ],
      strs := [], sets := [] } := by decide

example : expiredCount (cleanerSample true) 10 = 2 := by decide

/-- a limit of 1 takes the row that expired first -/
example : ((keyDeleteExpired (cleanerSample true) 1 10).db.keys.map (·.id)) = [2, 3, 4] := by decide

example : (keyDeleteExpired (cleanerSample true) 0 10).db.Inv := by show _ = true; decide

/-- `foreign_keys = 0`: the key rows go, the three child rows stay as orphans and the audit fails -/
theorem cleaner_fk_off_leaves_orphans :
    (keyDeleteExpired (cleanerSample false) 0 10).db.keys.map (·.id) = [3, 4] ∧
    (keyDeleteExpired (cleanerSample false) 0 10).db.strs = (cleanerSample false).strs ∧
    (keyDeleteExpired (cleanerSample false) 0 10).db.sets = (cleanerSample false).sets ∧
    ¬ (keyDeleteExpired (cleanerSample false) 0 10).db.Inv := by
  show _ ∧ _ ∧ _ ∧ ¬ (_ = true); decide

/-- one expired set `s` (id 1) with two members -/
def cleanerOneSet (fk : Bool) : DB :=
  { keys := [ { id := 1, key := [115], ty := 3, version := 2, etime := some 7, mtime := 0, len := some 2 } ],
    sets := [ { rowid := 1, kid := 1, elem := [49] }, { rowid := 2, kid := 1, elem := [50] } ],
    fk := fk }

/-- The D14 mechanism end to end: with `foreign_keys = 0` the cleaner leaves the members of the
expired set behind; ids are `max + 1`, so the next key created (`SADD t z`) gets id 1 and INHERITS
them — `t` reads as `{1, 2, z}`.  With `foreign_keys = 1` it is `{z}`. -/
theorem fk_off_orphans_are_inherited :
    Spec.abs 10 (dbRun (.setAdd [116] [[122]]) 10 (keyDeleteExpired (cleanerOneSet false) 0 10).db).db
      = [([116], ⟨.set [[49], [50], [122]], none⟩)] ∧
    Spec.abs 10 (dbRun (.setAdd [116] [[122]]) 10 (keyDeleteExpired (cleanerOneSet true) 0 10).db).db
      = [([116], ⟨.set [[122]], none⟩)] := by decide

/-- so `cleaner_preserves_inv` needs `fk = true` -/
theorem preserves_inv_needs_fk :
    ¬ ∀ (db : DB) (n now : Int), db.Inv → (keyDeleteExpired db n now).db.Inv := by
  intro h
  exact absurd (h (cleanerSample false) 0 10 (by show _ = true; decide)) cleaner_fk_off_leaves_orphans.2.2.2

end Redka.Props.C10
