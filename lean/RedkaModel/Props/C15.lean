/-
  Property C15: MULTI / EXEC / DISCARD.

  "On each connection independently, MULTI starts queuing, queued commands are acknowledged but have
  no effect until EXEC, EXEC runs them in order as one atomic, isolated unit and replies with their
  individual replies in order, and DISCARD drops them; EXEC or DISCARD without MULTI and nested
  MULTI are refused without disturbing the connection. If any queued command fails while executing,
  none of the block's effects is kept, and other connections never observe a partially executed
  block nor have their own commands pulled into it."

  What is proved, and about what:

  * The object is `Wire.handle : ConnState → DB → now → request → ConnState × DB × tokens`, the
    model of the handler chain `parse → multi → handle → handleMulti / handleSingle` of
    internal/server (it agrees with the real chain on every MULTI/EXEC/DISCARD sequence of length
    ≤ 5 over 7 request kinds and on the random wire corpus; that agreement is tested, not proved).
  * The reference is `Spec.Multi.refStep`, a two-phase machine (`idle` / `queuing q`) over protocol
    requests (`Spec.Multi.Req`, obtained from the raw request by `Spec.Multi.classify`). What ONE
    command replies and does is taken from the command layer (`Wire.run`) on both sides: the
    theorems are about the transaction protocol, not about the 98 commands.
  * `multi_step_refines` / `multi_refines`: on every request, and by induction on every request
    SEQUENCE, the model does exactly what the reference does — new phase, new tables, tokens —
    unless the step is classified:
      - `BlockFails` is NOT an exception any more (defect D12, repaired: `handleMulti` runs every queued command,
        remembers the first error and returns it at the end): an EXEC whose block has a failing command is
        exactly the reference's — idle, tables rolled back, `*|q|` and ALL |q| replies
        (`multi_step_refines_failing`, `failing_block_reply_complete`; closed witness `exec_failing_block_agrees`).
      - `OutOfDomain`: the request is outside the parser model (`out_of_scope_iff`: non-ASCII name,
        number outside the numeric model, empty request; never a panic) or the block meets a
        command outside the command model's numeric domain (`RunRes.ood`): NO CLAIM by the wire
        model; `ood_block_no_claim` shows that the restriction is needed, `out_of_scope_inert` and
        `phase_is_own_history` what still holds.
    `multi_refines_indomain` is the same equality over sequences WITH failing blocks (only out-of-domain blocks excluded).
  * "On each connection independently … nor have their own commands pulled into it": the
    connection state is a value per connection; `connections_independent`,
    `phase_is_own_history` (the phase — the queue included — of a connection after ANY interleaving
    with another connection is a fold over ITS OWN requests), `exec_runs_own_queue`.
  * "isolated … other connections never observe a partially executed block": inside this model a
    request is one step, so nothing can interleave with a block. That the block is ONE
    `db.Update` is `exec_is_update`; that an `Update` block is isolated from the statements of
    concurrent callers is property C08 (`Props.C08.source_linearizable`, with a MULTI block being
    the job `Sched.Job.block` by `Props.C08.transaction_block_is_execTx`); `multi_block_is_sched_block`
    connects the two for queues whose commands are single repository operations.

  NOT proved here: that the `*redka.Tx` handed to the queued commands is isolated at the SQLite
  level (C08's contract model), and what happens when `Update` itself fails at BEGIN/COMMIT (C07:
  `usertx_atomic`; the reply would again be short).
-/
import RedkaModel.Proofs.Multi
import RedkaModel.Proofs.WirePanic

namespace Redka.Props.C15

open Redka Redka.Wire Redka.Spec.Multi Redka.MultiProofs

/-! ### 1. the invariant -/

/-- Between two requests the command slice of a connection is empty unless it is in MULTI; every
request — in scope or not — keeps it so. (`WFConn st := st.inMulti = false → st.cmds = []`) -/
theorem handle_preserves_wfconn : ∀ (st : ConnState) (db : DB) (now : Int) (req : List Bytes),
    WFConn st → WFConn (handle st db now req).1 :=
  MultiProofs.handle_preserves_wfconn

/-- the fresh connection (`new(connState)`) is well-formed and idle -/
theorem fresh_conn : WFConn {} ∧ phaseOf {} = .idle := by decide

/-- on well-formed states the abstraction loses nothing -/
theorem phaseOf_injective : ∀ st, WFConn st → ofPhase (phaseOf st) = st :=
  fun _ h => ofPhase_phaseOf h

/-! ### 2. one request -/

/-- REFINEMENT, one step: inside the model's domain the model and the reference agree on the new
phase, the new tables and every token — also when the request is an EXEC whose block has a failing command
(D12 repaired: no `¬ BlockFails` hypothesis). -/
theorem multi_step_refines : ∀ (st : ConnState) (db : DB) (now : Int) (req : List Bytes) (r : Req),
    WFConn st → classify req = some r → ¬ OutOfDomain st db now req →
    (phaseOf (handle st db now req).1, (handle st db now req).2.1, (handle st db now req).2.2)
      = refStep (phaseOf st) db now r := by
  intro st db now req r hw hc ho
  have h := step_refines st db now req r hw hc
  unfold Refines at h
  cases hcl : stepClass (phaseOf st) db now r with
  | clean => simpa [hcl, implStep] using h
  | fails => simpa [hcl, implStep] using h
  | ood => exact absurd ((stepClass_ood_iff st db now req r hc).mp hcl) ho

/-- The former D12 class, exactly. An EXEC whose block has a failing command: the connection is idle again
with an empty slice, the tables are EXACTLY what they were, and the tokens are `*|q|` followed by ALL |q|
replies — those before the failing command, its own error, and those of the commands after it (which ran
on tables that are then rolled back). This is the reference's step. -/
theorem multi_step_refines_failing : ∀ (st : ConnState) (db : DB) (now : Int) (req : List Bytes),
    WFConn st → BlockFails st db now req →
    handle st db now req =
      ({}, db, .arrayHdr st.cmds.length :: (runBlock now st.cmds db).replies.flatten) ∧
    (phaseOf (handle st db now req).1, (handle st db now req).2.1, (handle st db now req).2.2)
      = refStep (phaseOf st) db now .exec ∧
    (runBlock now st.cmds db).ok = false ∧
    (runBlock now st.cmds db).replies.length = st.cmds.length := by
  intro st db now req hw hf
  have hc := hf.2.1
  have h := (step_spec st db now req .exec hw hc).2
  unfold StepSpec at h
  rw [(stepClass_fails_iff st db now req .exec hc).mpr hf] at h
  obtain ⟨href, q, hq, _, hh, hok⟩ := h
  have hq' : q = st.cmds := by
    have := hf.1
    simp [phaseOf, this] at hq
    exact hq.symm
  subst hq'
  exact ⟨hh, href, hok, runBlock_length _ _ _⟩

/-- the same as an instance of the refinement relation `Spec.Multi.Refines`, for every class -/
theorem multi_step_refines_rel : ∀ (st : ConnState) (db : DB) (now : Int) (req : List Bytes) (r : Req),
    WFConn st → classify req = some r →
    Refines (stepClass (phaseOf st) db now r)
      (phaseOf (handle st db now req).1, (handle st db now req).2.1, (handle st db now req).2.2)
      (refStep (phaseOf st) db now r) :=
  step_refines

/-- the classes of the reference side are the classifiers of the implementation side -/
theorem classes_are_classifiers : ∀ (st : ConnState) (db : DB) (now : Int) (req : List Bytes) (r : Req),
    classify req = some r →
    (stepClass (phaseOf st) db now r = .fails ↔ BlockFails st db now req) ∧
    (stepClass (phaseOf st) db now r = .ood ↔ OutOfDomain st db now req) :=
  fun st db now req r hc => ⟨stepClass_fails_iff st db now req r hc, stepClass_ood_iff st db now req r hc⟩

/-- the reply of a failing block is complete: `*|q|` and exactly |q| replies, the reference's tokens -/
theorem failing_block_reply_complete : ∀ (st : ConnState) (db : DB) (now : Int) (req : List Bytes),
    WFConn st → BlockFails st db now req →
    (handle st db now req).2.2 = (refStep (phaseOf st) db now .exec).2.2 ∧
    (handle st db now req).2.2 = .arrayHdr st.cmds.length :: (runBlock now st.cmds db).replies.flatten ∧
    (runBlock now st.cmds db).replies.length = st.cmds.length := by
  intro st db now req hw hf
  have h := multi_step_refines_failing st db now req hw hf
  refine ⟨?_, by rw [h.1], h.2.2.2⟩
  have := h.2.1
  rw [Prod.ext_iff, Prod.ext_iff] at this
  exact this.2.2

/-- every command inside the command model's domain writes at least one token (all 98 `Run`
methods, both runners) -/
theorem command_replies_nonempty : ∀ (c : ParsedCmd) (r : Runner) (now : Int) (db : DB) (o : Option Bytes),
    (run c r now db o).ood = false → (run c r now db o).toks ≠ [] :=
  run_toks_ne_nil

/-- a request outside the parser model's domain leaves the connection and the tables alone and
writes nothing -/
theorem out_of_scope_inert : ∀ (st : ConnState) (db : DB) (now : Int) (req : List Bytes),
    classify req = none → handle st db now req = (st, db, []) :=
  fun st db now _ h => handle_out_of_scope h st db now

/-- what "outside the parser model's domain" is, exactly: the model cannot decide the request
(non-ASCII command name, a number outside the numeric model) or does not know a construct (the empty
request, an unrecognised grammar). A parser panic (the former D11) is not among the cases: there is
none (`WireProofs.parse_ne_panic`). -/
theorem out_of_scope_iff : ∀ req : List Bytes,
    classify req = none ↔ parse req = .outOfDomain ∨ ∃ t, parse req = .unsupported t := by
  intro req
  unfold classify
  cases hp : parse req with
  | panic => exact absurd hp (WireProofs.parse_ne_panic req)
  | ok pc => simp
  | error e => simp
  | outOfDomain => simp
  | unsupported t => simp

/-! ### 3. request sequences -/

/-- REFINEMENT, every request sequence (induction on the list): with no failing and no
out-of-domain block anywhere in the run, the final phase, the final tables and the tokens of every
single request are those of the reference run. -/
theorem multi_refines : ∀ (reqs : List (Int × List Bytes)) (as : List (Int × Req)) (st : ConnState) (db : DB),
    WFConn st → classifyAll reqs = some as → CleanRun (phaseOf st) db as →
    (phaseOf (implRun st db reqs).1, (implRun st db reqs).2.1, (implRun st db reqs).2.2)
      = refRun (phaseOf st) db as :=
  run_refines_clean

/-- … and with failing blocks ALLOWED (only out-of-domain blocks excluded) the same equality holds: the final
phase, the final tables and the tokens of every single request are those of the reference run. -/
theorem multi_refines_indomain : ∀ (reqs : List (Int × List Bytes)) (as : List (Int × Req)) (st : ConnState) (db : DB),
    WFConn st → classifyAll reqs = some as → InDomainRun (phaseOf st) db as →
    (phaseOf (implRun st db reqs).1, (implRun st db reqs).2.1, (implRun st db reqs).2.2)
      = refRun (phaseOf st) db as :=
  run_refines_indomain

/-- the same, clause by clause, with the well-formedness of the final connection state -/
theorem multi_refines_state : ∀ (reqs : List (Int × List Bytes)) (as : List (Int × Req)) (st : ConnState) (db : DB),
    WFConn st → classifyAll reqs = some as → InDomainRun (phaseOf st) db as →
    WFConn (implRun st db reqs).1 ∧
    phaseOf (implRun st db reqs).1 = (refRun (phaseOf st) db as).1 ∧
    (implRun st db reqs).2.1 = (refRun (phaseOf st) db as).2.1 ∧
    RepliesRefine (runClasses (phaseOf st) db as) (implRun st db reqs).2.2 (refRun (phaseOf st) db as).2.2 :=
  run_refines

/-! ### 4. the clauses of the property, on `handle` directly -/

/-- "MULTI starts queuing": `+OK`, in MULTI with an EMPTY queue, tables untouched -/
theorem multi_starts_queuing : ∀ (st : ConnState) (db : DB) (now : Int) (req : List Bytes),
    WFConn st → st.inMulti = false → classify req = some .multi →
    handle st db now req = ({ inMulti := true, cmds := [] }, db, [okTok]) := by
  intro st db now req hw hs hc
  obtain ⟨pc, hp, h1⟩ := classify_multi hc
  rw [handle_ok hp, stage_idle_multi st db now pc hs h1]
  have := hw hs
  cases st; simp_all

/-- "queued commands are acknowledged but have no effect until EXEC": `+QUEUED`, the command is
appended to the queue, the tables are exactly what they were -/
theorem queued_no_effect : ∀ (st : ConnState) (db : DB) (now : Int) (req : List Bytes) (c : ParsedCmd),
    st.inMulti = true → classify req = some (.cmd c) →
    handle st db now req = ({ st with cmds := st.cmds ++ [c] }, db, [queuedTok]) := by
  intro st db now req c hs hc
  obtain ⟨hp, h1, h2, h3⟩ := classify_cmd hc
  rw [handle_ok hp, stage_multi_cmd st db now c hs h1 h2 h3]
  rfl

/-- "DISCARD drops them": `+OK`, idle, empty slice, tables untouched — whatever was queued -/
theorem discard_drops : ∀ (st : ConnState) (db : DB) (now : Int) (req : List Bytes),
    st.inMulti = true → classify req = some .discard →
    handle st db now req = ({}, db, [okTok]) := by
  intro st db now req hs hc
  obtain ⟨pc, hp, h1, h2, h3⟩ := classify_discard hc
  rw [handle_ok hp, stage_multi_discard st db now pc hs h1 h2 h3]

/-- "EXEC … without MULTI [is] refused without disturbing the connection": exactly one error
token, connection state and tables unchanged -/
theorem exec_without_multi_refused : ∀ (st : ConnState) (db : DB) (now : Int) (req : List Bytes),
    st.inMulti = false → classify req = some .exec →
    handle st db now req = (st, db, [errTok .notInMulti]) := by
  intro st db now req hs hc
  obtain ⟨pc, hp, h1, h2⟩ := classify_exec hc
  rw [handle_ok hp, stage_idle_exec st db now pc hs h1 h2]

/-- the same for DISCARD (the text is the one of EXEC: "ERR EXEC without MULTI") -/
theorem discard_without_multi_refused : ∀ (st : ConnState) (db : DB) (now : Int) (req : List Bytes),
    st.inMulti = false → classify req = some .discard →
    handle st db now req = (st, db, [errTok .notInMulti]) := by
  intro st db now req hs hc
  obtain ⟨pc, hp, h1, h2, h3⟩ := classify_discard hc
  rw [handle_ok hp, stage_idle_discard st db now pc hs h1 h2 h3]

/-- "nested MULTI [is] refused without disturbing the connection": one error token, still in
MULTI with the SAME queue, tables unchanged -/
theorem nested_multi_refused : ∀ (st : ConnState) (db : DB) (now : Int) (req : List Bytes),
    st.inMulti = true → classify req = some .multi →
    handle st db now req = (st, db, [errTok .nestedMulti]) := by
  intro st db now req hs hc
  obtain ⟨pc, hp, h1⟩ := classify_multi hc
  rw [handle_ok hp, stage_multi_multi st db now pc hs h1]

/-- a request that does not parse is answered with one error and is NOT queued: the connection
state — in MULTI or not — and the tables are unchanged -/
theorem unparsable_not_queued : ∀ (st : ConnState) (db : DB) (now : Int) (req : List Bytes) (e : RErr),
    classify req = some (.unparsable e) →
    handle st db now req = (st, db, [.err (errorText (asciiBytes e.text) [])]) :=
  fun st db now _ _ hc => handle_error (classify_unparsable hc) st db now

/-- a command outside MULTI is run alone, against the `*redka.DB` -/
theorem single_command : ∀ (st : ConnState) (db : DB) (now : Int) (req : List Bytes) (c : ParsedCmd),
    WFConn st → st.inMulti = false → classify req = some (.cmd c) →
    handle st db now req = ({}, (run c Model.dbRun now db none).db, (run c Model.dbRun now db none).toks) := by
  intro st db now req c hw hs hc
  obtain ⟨hp, h1, h2, h3⟩ := classify_cmd hc
  rw [handle_ok hp, stage_idle_cmd st db now c hs h1 h2 h3]
  have := hw hs
  cases st; simp_all [ConnState.clear]

/-- "If any queued command fails while executing, none of the block's effects is kept": the
tables after the EXEC are the tables before it, and the connection is idle with an empty slice. -/
theorem exec_atomic : ∀ (st : ConnState) (db : DB) (now : Int) (req : List Bytes),
    WFConn st → BlockFails st db now req →
    (handle st db now req).2.1 = db ∧ (handle st db now req).1 = {} := by
  intro st db now req hw hf
  rw [(multi_step_refines_failing st db now req hw hf).1]
  exact ⟨rfl, rfl⟩

/-- … and on the model's own terms, without the reference: whenever the loop of `handleMulti` sees
a `Run` return an error, EXEC leaves the tables as they were -/
theorem exec_atomic_model : ∀ (st : ConnState) (db : DB) (now : Int) (req : List Bytes),
    st.inMulti = true → classify req = some .exec → (runQueue st.cmds now db [] 1).failed = true →
    (handle st db now req).2.1 = db := by
  intro st db now req hs hc hf
  obtain ⟨pc, hp, h1, h2⟩ := classify_exec hc
  rw [handle_ok hp, stage_multi_exec st db now pc hs h1 h2]
  simp [hf]

/-- `handleMulti` is ONE `db.Update` around the loop over the queue (`Redka.update`, the
all-or-nothing wrapper of the repository model: C07 `usertx_atomic`): some callback `body` that
returns an error exactly when a queued command's `Run` does, with `update body` giving EXEC's tables. -/
theorem exec_is_update : ∀ (st : ConnState) (db : DB) (now : Int),
    ∃ body : DB → Res,
      (∀ d, (body d).db = (runQueue st.cmds now d [] 1).db ∧
        ((∃ e, (body d).out = .error e) ↔ (runQueue st.cmds now d [] 1).failed = true)) ∧
      (handleMulti st db now [] 1).db = (update body db).db := by
  intro st db now
  refine ⟨execBody st.cmds now, fun d => ⟨rfl, ?_⟩, handleMulti_is_update st db now⟩
  simp only [execBody]
  cases (runQueue st.cmds now d [] 1).failed <;> simp

/-- "EXEC runs them in order as one … unit and replies with their individual replies in order":
for a block without failure the tokens are `*|q|` followed by the |q| individual replies; the
i-th reply is what the i-th queued command writes when run as a method of the transaction
(`Model.tx true`) on the tables left by the commands before it; the new tables are those left by
the last command; the connection is idle with an empty slice. -/
theorem exec_replies_in_order : ∀ (st : ConnState) (db : DB) (now : Int) (req : List Bytes),
    WFConn st → st.inMulti = true → classify req = some .exec → blockClass now st.cmds db = .clean →
    handle st db now req =
      ({}, blockDb now st.cmds db, .arrayHdr st.cmds.length :: (runBlock now st.cmds db).replies.flatten) ∧
    (runBlock now st.cmds db).replies.length = st.cmds.length ∧
    ∀ i, (runBlock now st.cmds db).replies[i]? =
      st.cmds[i]?.map (fun c => (run c (Model.tx true) now (blockDb now (st.cmds.take i) db) none).toks) := by
  intro st db now req hw hs hc hcl
  obtain ⟨pc, hp, h1, h2⟩ := classify_exec hc
  have hq := runQueue_clean now st.cmds db 1 hcl
  refine ⟨?_, runBlock_length _ _ _, runBlock_reply _ _ _⟩
  rw [handle_ok hp, stage_multi_exec st db now pc hs h1 h2, hq.1, hq.2.2.1, hq.2.2.2.1, runBlock_db]
  simp

/-! ### 5. connections -/

/-- "On each connection independently": in a process serving two connections a request on one of
them is handled as if the other did not exist, and leaves the other's state untouched. -/
theorem connections_independent : ∀ (a b : ConnState) (db : DB) (now : Int) (req : List Bytes),
    handle2 (a, b) db now false req
      = (((handle a db now req).1, b), (handle a db now req).2.1, (handle a db now req).2.2) ∧
    handle2 (a, b) db now true req
      = ((a, (handle b db now req).1), (handle b db now req).2.1, (handle b db now req).2.2) := by
  intro a b db now req
  exact ⟨rfl, rfl⟩

/-- The phase of a connection — idle, or queuing WITH ITS QUEUE — after any interleaving of the
two connections' requests is the fold of the phase transition over ITS OWN requests: it depends
neither on the other connection's requests nor on the tables nor on the clock. Unconditional
(failing and out-of-domain blocks included). -/
theorem phase_is_own_history : ∀ (l : List (Bool × Int × List Bytes)) (a b : ConnState) (db : DB),
    WFConn a → WFConn b →
    phaseOf (run2 (a, b) db l).1.1 = (ownReqs false l).foldl phaseStepRaw (phaseOf a) ∧
    phaseOf (run2 (a, b) db l).1.2 = (ownReqs true l).foldl phaseStepRaw (phaseOf b) :=
  fun l a b db ha hb => (run2_phases l a b db ha hb).2.2

/-- the phase transition is the reference's -/
theorem phaseStep_is_refStep : ∀ (ph : Phase) (db : DB) (now : Int) (r : Req),
    (refStep ph db now r).1 = phaseStep ph r :=
  refStep_phase

/-- after MULTI and then the commands `cs`, the queue is `cs` -/
theorem queue_is_own_commands : ∀ (m : List Bytes) (rs : List (List Bytes)) (cs : List ParsedCmd),
    classify m = some .multi → rs.map classify = cs.map (fun c => some (.cmd c)) →
    (m :: rs).foldl phaseStepRaw .idle = .queuing cs := by
  intro m rs cs hm hrs
  have h : ∀ (q : List ParsedCmd) (rs : List (List Bytes)) (cs : List ParsedCmd),
      rs.map classify = cs.map (fun c => some (.cmd c)) →
      rs.foldl phaseStepRaw (.queuing q) = .queuing (q ++ cs) := by
    intro q rs
    induction rs generalizing q with
    | nil => intro cs h; cases cs <;> simp_all
    | cons r rs ih =>
      intro cs h
      cases cs with
      | nil => simp at h
      | cons c cs =>
        simp only [List.map_cons, List.cons.injEq] at h
        simp [phaseStepRaw, h.1, phaseStep, ih (q ++ [c]) cs h.2]
  simp [phaseStepRaw, hm, phaseStep, h [] rs cs hrs]

/-- "nor have their own commands pulled into it": when connection A sends EXEC after any
interleaving with connection B, the block that runs is the queue determined by A's own requests
(`phase_is_own_history`), on the tables as they are at that moment; B's state is untouched. -/
theorem exec_runs_own_queue : ∀ (l : List (Bool × Int × List Bytes)) (db : DB) (now : Int) (req : List Bytes)
    (q : List ParsedCmd),
    (ownReqs false l).foldl phaseStepRaw .idle = .queuing q → classify req = some .exec →
    blockClass now q (run2 ({}, {}) db l).2.1 = .clean →
    handle2 (run2 ({}, {}) db l).1 (run2 ({}, {}) db l).2.1 now false req =
      (({}, (run2 ({}, {}) db l).1.2), blockDb now q (run2 ({}, {}) db l).2.1,
        .arrayHdr q.length :: (runBlock now q (run2 ({}, {}) db l).2.1).replies.flatten) := by
  intro l db now req q hq hc hcl
  have hp := run2_phases l {} {} db (by decide) (by decide)
  have hph : phaseOf (run2 ({}, {}) db l).1.1 = .queuing q := by
    rw [hp.2.2.1]; exact hq
  have hs : (run2 ({}, {}) db l).1.1.inMulti = true := by
    cases h : (run2 ({}, {}) db l).1.1.inMulti
    · simp [phaseOf, h] at hph
    · rfl
  have hcm : (run2 ({}, {}) db l).1.1.cmds = q := by
    simp [phaseOf, hs] at hph; exact hph
  have := (exec_replies_in_order (run2 ({}, {}) db l).1.1 (run2 ({}, {}) db l).2.1 now req hp.1 hs hc
    (hcm ▸ hcl)).1
  simp only [handle2, this, hcm]
  rfl

/-- Isolation from concurrent callers is C08's (`Props.C08.source_linearizable`: every admitted
schedule is equivalent to the jobs executed one at a time, a transaction block being ONE job,
`Props.C08.transaction_block_is_execTx`). The link: for a queue whose commands each do what one
repository operation does (`OpLikeAlong`), the effect of `handleMulti` on the tables is that of the
job `Sched.Job.block true ops` executed alone, and EXEC fails exactly when that job does. -/
theorem multi_block_is_sched_block : ∀ (st : ConnState) (ops : List Op) (db : DB) (now : Int),
    OpLikeAlong now st.cmds ops db →
    (handleMulti st db now [] 1).db = (Sched.Job.seq (.block true ops) now db).db ∧
    ((runQueue st.cmds now db [] 1).failed = false ↔
      ∃ v, (Sched.Job.seq (.block true ops) now db).out = .ok v) :=
  handleMulti_is_block


/-! ### 6. closed witnesses and non-vacuity (kernel evaluation only) -/

def b (s : String) : Bytes := asciiBytes s

/-- a string `k1 = "7"` and a one-element list `k2 = [a]` -/
def db0 : DB :=
  { keys := [ { id := 1, key := b "k1", ty := TString, version := 1, etime := none, mtime := 1000, len := none },
              { id := 2, key := b "k2", ty := TList, version := 1, etime := none, mtime := 1000, len := some 1 } ]
    strs := [ { kid := 1, value := b "7" } ]
    lists := [ { kid := 2, pos := 0, elem := b "a" } ] }

def pc (r : List Bytes) : ParsedCmd := match parse r with | .ok c => c | _ => ⟨[], [], .unknown⟩

/-- `MULTI; INCR k2 (a list: fails); SET k1 v; EXEC` -/
def seqShort : List (Int × List Bytes) :=
  [(2000, [b "MULTI"]), (2000, [b "INCR", b "k2"]), (2001, [b "SET", b "k1", b "v"]), (2002, [b "EXEC"])]

/-- `MULTI; SET k1 v; INCR k2 (fails); EXEC`: the failing command is the last one -/
def seqLast : List (Int × List Bytes) :=
  [(2000, [b "MULTI"]), (2000, [b "SET", b "k1", b "v"]), (2001, [b "INCR", b "k2"]), (2002, [b "EXEC"])]

/-- `MULTI; INCR k1; LLEN k2; EXEC; GET k1`: a block without failure -/
def seqGood : List (Int × List Bytes) :=
  [(2000, [b "MULTI"]), (2000, [b "INCR", b "k1"]), (2001, [b "LLEN", b "k2"]), (2002, [b "EXEC"]),
   (2003, [b "GET", b "k1"])]

/-- refusals and DISCARD: `EXEC; DISCARD; MULTI; MULTI; GET; SET k1 v; DISCARD; GET k1` -/
def seqRefuse : List (Int × List Bytes) :=
  [(2000, [b "EXEC"]), (2000, [b "discard"]), (2000, [b "MULTI"]), (2000, [b "Multi"]), (2000, [b "GET"]),
   (2000, [b "SET", b "k1", b "v"]), (2000, [b "DISCARD"]), (2000, [b "GET", b "k1"])]

/-- the state before the EXEC of `seqShort` -/
def stShort : ConnState := { inMulti := true, cmds := [pc [b "INCR", b "k2"], pc [b "SET", b "k1", b "v"]] }

/-- D12 repaired: the EXEC announces two replies and delivers two — the error and the `+OK` of the SET, whose
effect is then dropped with the rest of the block — exactly as the reference; phase and tables agree. The step
is still in the class `BlockFails`; `multi_step_refines` needs no hypothesis about it any more. -/
theorem exec_failing_block_agrees :
    WFConn stShort ∧ classify [b "EXEC"] = some .exec ∧ BlockFails stShort db0 2002 [b "EXEC"] ∧
    handle stShort db0 2002 [b "EXEC"]
      = ({}, db0, [.arrayHdr 2, .err (b "key type mismatch (incr)"), .str (b "OK")]) ∧
    refStep (phaseOf stShort) db0 2002 .exec
      = (.idle, db0, [.arrayHdr 2, .err (b "key type mismatch (incr)"), .str (b "OK")]) ∧
    (phaseOf (handle stShort db0 2002 [b "EXEC"]).1, (handle stShort db0 2002 [b "EXEC"]).2.1,
        (handle stShort db0 2002 [b "EXEC"]).2.2) = refStep (phaseOf stShort) db0 2002 .exec := by
  decide +kernel

/-- the whole sequence: it reaches `stShort`, the last reply is the complete one, the tables are
untouched, the run is NOT clean but in the domain -/
example : implRun {} db0 seqShort
      = ({}, db0, [[.str (b "OK")], [.str (b "QUEUED")], [.str (b "QUEUED")],
                   [.arrayHdr 2, .err (b "key type mismatch (incr)"), .str (b "OK")]]) ∧
    implRun {} db0 (seqShort.take 3) = (stShort, db0, [[.str (b "OK")], [.str (b "QUEUED")], [.str (b "QUEUED")]]) ∧
    (∃ as, classifyAll seqShort = some as ∧ ¬ CleanRun .idle db0 as ∧ InDomainRun .idle db0 as ∧
      runClasses .idle db0 as = [.clean, .clean, .clean, .fails]) := by
  refine ⟨by decide +kernel, by decide +kernel, _, rfl, ?_⟩
  decide +kernel

/-- `multi_refines_state` / `multi_refines_indomain` instantiated on it: phase, tables and tokens as the reference -/
example : ∃ as, classifyAll seqShort = some as ∧
    phaseOf (implRun {} db0 seqShort).1 = (refRun .idle db0 as).1 ∧
    (implRun {} db0 seqShort).2.1 = (refRun .idle db0 as).2.1 ∧
    RepliesRefine (runClasses .idle db0 as) (implRun {} db0 seqShort).2.2 (refRun .idle db0 as).2.2 := by
  refine ⟨_, rfl, ?_⟩
  have h := multi_refines_state seqShort _ {} db0 (by decide) rfl (by decide +kernel)
  exact ⟨h.2.1, h.2.2.1, h.2.2.2⟩

/-- the failing command LAST: classified, rolled back, and the reply is
complete — equal to the reference's -/
example : (∃ as, classifyAll seqLast = some as ∧ runClasses .idle db0 as = [.clean, .clean, .clean, .fails] ∧
      (phaseOf (implRun {} db0 seqLast).1, (implRun {} db0 seqLast).2.1, (implRun {} db0 seqLast).2.2)
        = refRun .idle db0 as) ∧
    implRun {} db0 seqLast
      = ({}, db0, [[.str (b "OK")], [.str (b "QUEUED")], [.str (b "QUEUED")],
                   [.arrayHdr 2, .str (b "OK"), .err (b "key type mismatch (incr)")]]) := by
  refine ⟨⟨_, rfl, ?_⟩, by decide +kernel⟩
  decide +kernel

/-- a clean run: the hypotheses of `multi_refines` hold, and its conclusion is about these replies -/
example : ∃ as, classifyAll seqGood = some as ∧ CleanRun .idle db0 as ∧
    (phaseOf (implRun {} db0 seqGood).1, (implRun {} db0 seqGood).2.1, (implRun {} db0 seqGood).2.2)
      = refRun .idle db0 as ∧
    (implRun {} db0 seqGood).2.2 = [[.str (b "OK")], [.str (b "QUEUED")], [.str (b "QUEUED")],
        [.arrayHdr 2, .int 8, .int 1], [.bulk (b "8")]] := by
  refine ⟨_, rfl, by decide +kernel, ?_, by decide +kernel⟩
  exact multi_refines seqGood _ {} db0 (by decide) rfl (by decide +kernel)

/-- refusals, an unparsable request inside MULTI, DISCARD: clean, hence as the reference; the
connection ends idle, `k1` still holds 7 -/
example : ∃ as, classifyAll seqRefuse = some as ∧ CleanRun .idle db0 as ∧
    implRun {} db0 seqRefuse = ({}, db0,
      [[.err (b "ERR EXEC without MULTI")], [.err (b "ERR EXEC without MULTI")], [.str (b "OK")],
       [.err (b "ERR MULTI calls can not be nested")], [.err (b "ERR wrong number of arguments ()")],
       [.str (b "QUEUED")], [.str (b "OK")], [.bulk (b "7")]]) := by
  refine ⟨_, rfl, by decide +kernel, by decide +kernel⟩

/-- the single-step theorems have satisfiable hypotheses -/
example : classify [b "MULTI"] = some .multi ∧ classify [b "exec"] = some .exec ∧
    classify [b "Discard", b "x"] = some .discard ∧ classify [b "GET"] = some (.unparsable .invalidArgNum) ∧
    classify [b "SET", b "k1", b "v"] = some (.cmd (pc [b "SET", b "k1", b "v"])) ∧
    classify [b "ZINTER", b "-1", b "k1"] = some (.unparsable .invalidArgNum) ∧     -- D11 repaired
    classify [[0xC3, 0xA9], b "k1"] = none ∧ classify [] = none := by
  decide +kernel

example : handle { inMulti := true, cmds := [pc [b "INCR", b "k1"]] } db0 2000 [b "MULTI"]
    = ({ inMulti := true, cmds := [pc [b "INCR", b "k1"]] }, db0, [errTok .nestedMulti]) :=
  nested_multi_refused _ db0 2000 _ rfl (by decide +kernel)

example : handle {} db0 2000 [b "EXEC"] = ({}, db0, [errTok .notInMulti]) :=
  exec_without_multi_refused _ db0 2000 _ rfl (by decide +kernel)

example : handle { inMulti := true, cmds := [pc [b "INCR", b "k1"]] } db0 2000 [b "DISCARD"] = ({}, db0, [okTok]) :=
  discard_drops _ db0 2000 _ rfl (by decide +kernel)

example : handle { inMulti := true, cmds := [pc [b "INCR", b "k1"]] } db0 2000 [b "GET"]
    = ({ inMulti := true, cmds := [pc [b "INCR", b "k1"]] }, db0, [.err (b "ERR wrong number of arguments ()")]) :=
  unparsable_not_queued _ db0 2000 _ .invalidArgNum (by decide +kernel)

/-- an OUT-OF-DOMAIN block (`LRANGE k2 0 9223372036854775807`: SQLite's 64-bit `stop - start + 1` overflows, outside the arithmetic domain of the model): the wire model stops at
it without a claim (here: tables unchanged, only the header), the reference goes on and keeps the
SET. So (phase, tables) equality over sequences needs `InDomainRun`; the phase alone does not
(`phase_is_own_history`). This is a limit of the MODEL, not an observation about the server. -/
theorem ood_block_no_claim :
    let st : ConnState := { inMulti := true, cmds := [pc [b "LRANGE", b "k2", b "0", b "9223372036854775807"], pc [b "SET", b "k1", b "v"]] }
    OutOfDomain st db0 2000 [b "EXEC"] ∧ ¬ BlockFails st db0 2000 [b "EXEC"] ∧
    handle st db0 2000 [b "EXEC"] = ({}, db0, [.arrayHdr 2]) ∧
    (refStep (phaseOf st) db0 2000 .exec).2.1 ≠ db0 := by
  decide +kernel

/-- two connections: B's MULTI/SET/EXEC interleaved with A's MULTI/INCR/…/EXEC; each block holds
its own commands only, B's state is untouched by A's EXEC -/
def inter : List (Bool × Int × List Bytes) :=
  [(false, 2000, [b "MULTI"]), (true, 2000, [b "MULTI"]), (false, 2001, [b "INCR", b "k1"]),
   (true, 2001, [b "SET", b "k1", b "v"]), (false, 2002, [b "LLEN", b "k2"])]

example : (run2 ({}, {}) db0 inter).1
      = ({ inMulti := true, cmds := [pc [b "INCR", b "k1"], pc [b "LLEN", b "k2"]] },
         { inMulti := true, cmds := [pc [b "SET", b "k1", b "v"]] }) ∧
    (ownReqs false inter).foldl phaseStepRaw .idle = .queuing [pc [b "INCR", b "k1"], pc [b "LLEN", b "k2"]] ∧
    handle2 (run2 ({}, {}) db0 inter).1 (run2 ({}, {}) db0 inter).2.1 2003 false [b "EXEC"]
      = (({}, { inMulti := true, cmds := [pc [b "SET", b "k1", b "v"]] }),
          blockDb 2003 [pc [b "INCR", b "k1"], pc [b "LLEN", b "k2"]] db0, [.arrayHdr 2, .int 8, .int 1]) := by
  decide +kernel

/-- `multi_block_is_sched_block` is not vacuous: `SET k1 v; INCR k2` is the block job
`[strSetExpires k1 v 0, strIncr k2 1]`, which fails and is rolled back -/
example : OpLikeAlong 2000 [pc [b "SET", b "k1", b "v"], pc [b "INCR", b "k2"]]
      [.strSetExpires (b "k1") (b "v") 0, .strIncr (b "k2") 1] db0 ∧
    (Sched.Job.seq (.block true [.strSetExpires (b "k1") (b "v") 0, .strIncr (b "k2") 1]) 2000 db0).db = db0 := by
  decide +kernel

end Redka.Props.C15
