/-
  C17 — binary safety.

  "Any byte string - empty, containing NUL, CR/LF, invalid UTF-8, pattern metacharacters, digits
  only, or megabytes long - used as a key name, hash field, list element, set or sorted-set member
  or value is stored and returned byte-for-byte with its exact length, addresses the same object on
  every later call, and is distinct from every other byte string, both through the Go API (given as
  string or byte slice) and over the wire. Values given as integers, floats or booleans are stored
  as their canonical text and equal that text when given as a string."

  This file covers the two layers that sit between a caller and the repositories:
    * the wire: redcon's RESP writer (`Redka.Resp.encode`) against a strict reader
      (`Redka.Resp.decode`), for every reply shape and every payload;
    * the Go API: `core.ToBytes` (`Redka.Conv.toBytes`) and Go's `strconv.Itoa` / `strconv.Atoi`
      (`Redka.itoa`, `Redka.atoi`).
  Floats are outside the model. Only property theorems and non-vacuity examples live here; the
  lemmas are in `RedkaModel/Proofs/Num.lean` and `RedkaModel/Proofs/Resp.lean`.
-/
import RedkaModel.Model.Wire.Resp
import RedkaModel.Model.Conv
import RedkaModel.Proofs.Num
import RedkaModel.Proofs.Resp
import RedkaModel.Proofs.Float

namespace Redka.Props.C17

open Redka Redka.Resp Redka.Conv

/-! ### integers and their canonical text -/

/-- What `strconv.Itoa` prints, `strconv.Atoi` reads back, for every Go `int`. -/
theorem atoi_itoa : ∀ n : Int, minInt64 ≤ n → n ≤ maxInt64 → atoi (itoa n) = some n :=
  Redka.atoi_itoa

/-- Different integers print differently (no range restriction). -/
theorem itoa_injective : ∀ a b : Int, itoa a = itoa b → a = b :=
  Redka.itoa_injective

/-- `core.Value.Int` on the stored text of an integer gives the integer back. -/
theorem valueInt_itoa : ∀ n : Int, minInt64 ≤ n → n ≤ maxInt64 → valueInt (itoa n) = some n := by
  intro n hlo hhi
  have hne : (itoa n).isEmpty = false := by
    unfold itoa
    split
    · rfl
    · cases h : natDigits n.natAbs with
      | nil => exact absurd h (natDigits_ne_nil _)
      | cons _ _ => rfl
  simp [valueInt, hne, Redka.atoi_itoa n hlo hhi]

/-! ### the wire -/

/-- Every reply whose simple strings and errors are free of CR and LF — with bulk strings and
integers unrestricted — is read back exactly, and nothing of what follows it is consumed. -/
theorem resp_roundtrip_append :
    ∀ (r : Reply) (rest : Bytes), Clean r → decode (encode r ++ rest) = some (r, rest) :=
  fun r rest hc => decode_encode_append r hc rest

theorem resp_roundtrip : ∀ r : Reply, Clean r → decode (encode r) = some (r, []) := by
  intro r hc
  have := decode_encode_append r hc []
  rwa [List.append_nil] at this

/-- A pipeline of replies is read back reply by reply, to the last byte. -/
theorem resp_stream :
    ∀ rs : List Reply, (∀ r ∈ rs, Clean r) → decodeAll (rs.flatMap encode) = some rs :=
  decodeAll_flatMap

/-- Two clean replies with the same bytes on the wire are the same reply. -/
theorem resp_injective : ∀ a b : Reply, Clean a → Clean b → encode a = encode b → a = b := by
  intro a b ha hb h
  have h1 := resp_roundtrip a ha
  rw [h, resp_roundtrip b hb] at h1
  exact ((Prod.mk.inj (Option.some.inj h1)).1).symm

/-- Any byte string at all, sent as a bulk string, arrives byte for byte with its exact length. -/
theorem bulk_length_exact : ∀ b : Bytes, decode (encode (.bulk b)) = some (.bulk b, []) :=
  fun b => resp_roundtrip (.bulk b) rfl

theorem bulk_roundtrip_append :
    ∀ b rest : Bytes, decode (encode (.bulk b) ++ rest) = some (.bulk b, rest) :=
  fun b rest => resp_roundtrip_append (.bulk b) rest rfl

/-- Different byte strings are different on the wire. -/
theorem bulk_injective : ∀ a b : Bytes, encode (.bulk a) = encode (.bulk b) → a = b := by
  intro a b h
  exact Reply.bulk.inj (resp_injective (.bulk a) (.bulk b) rfl rfl h)

/-- An array of bulk strings (the shape of `HKEYS`, `LRANGE`, `SMEMBERS`, `KEYS`, …) keeps every
element and their order, whatever the bytes. -/
theorem bulk_array_roundtrip :
    ∀ bs : List Bytes, decode (encode (.array (bs.map .bulk))) = some (.array (bs.map .bulk), []) := by
  intro bs
  apply resp_roundtrip
  show isClean (.array (bs.map .bulk)) = true
  rw [isClean, isCleanList_iff]
  intro r hr
  obtain ⟨b, _, rfl⟩ := List.mem_map.mp hr
  rfl

/-- A bulk string is never confused with the null reply, not even the empty one. -/
theorem bulk_ne_null : ∀ b : Bytes, encode (.bulk b) ≠ encode .null := by
  intro b h
  exact Reply.noConfusion (resp_injective (.bulk b) .null rfl rfl h)

/-- Integer replies carry any integer exactly. -/
theorem int_roundtrip : ∀ i : Int, decode (encode (.int i)) = some (.int i, []) :=
  fun i => resp_roundtrip (.int i) rfl

/-! ### the Go API: `core.ToBytes` -/

/-- An integer value is stored as its canonical text and equals that text given as a string. -/
theorem tobytes_canonical_int : ∀ n : Int, toBytes (.int n) = toBytes (.str (itoa n)) :=
  fun _ => rfl

/-- … and given as a byte slice. -/
theorem tobytes_canonical_int_bytes : ∀ n : Int, toBytes (.int n) = toBytes (.bytes (itoa n)) :=
  fun _ => rfl

/-- Booleans are stored as "1" and "0". -/
theorem tobytes_bool :
    toBytes (.bool true) = toBytes (.str [49]) ∧ toBytes (.bool false) = toBytes (.str [48]) ∧
    toBytes (.bool true) = toBytes (.int 1) ∧ toBytes (.bool false) = toBytes (.int 0) := by
  refine ⟨rfl, rfl, ?_, ?_⟩ <;> simp [toBytes, itoa, natDigits_of_lt, digitChar]

/-- A string and a byte slice with the same bytes are the same value, and it is those bytes. -/
theorem tobytes_str_bytes_same :
    ∀ b : Bytes, toBytes (.str b) = toBytes (.bytes b) ∧ toBytes (.bytes b) = b :=
  fun _ => ⟨rfl, rfl⟩

/-- Different byte strings stay different through the API. -/
theorem tobytes_bytes_injective :
    ∀ a b : Bytes, toBytes (.bytes a) = toBytes (.bytes b) → a = b :=
  fun _ _ h => h

theorem tobytes_int_distinct : ∀ a b : Int, a ≠ b → toBytes (.int a) ≠ toBytes (.int b) :=
  fun a b hne h => hne (Redka.itoa_injective a b h)

/-- The stored text of a Go `int` reads back as that integer (`INCR` after `SET k 42`). -/
theorem tobytes_int_reads_back :
    ∀ n : Int, minInt64 ≤ n → n ≤ maxInt64 → valueInt (toBytes (.int n)) = some n :=
  valueInt_itoa

/-- A `float64` value is stored as its canonical text — the shortest decimal that reads back as the same
number (`strconv.FormatFloat(v, 'f', -1, 64)`) — and equals that text given as a string or a byte slice;
read back as a number (`core.Value.Float`) it is exactly the float that was given. -/
theorem tobytes_float_canonical : ∀ (d : Dyadic) (t : Bytes), argBytes (.float d) = some t →
    argBytes (.val (.str t)) = some t ∧ argBytes (.val (.bytes t)) = some t ∧ parseFloatDec t = .val d :=
  fun d t h => ⟨rfl, rfl, Redka.Float.parse_format d t h⟩

/-- Different floats are stored as different texts. -/
theorem tobytes_float_distinct : ∀ (a b : Dyadic) (t : Bytes),
    argBytes (.float a) = some t → argBytes (.float b) = some t → a = b := by
  intro a b t ha hb
  have h1 := Redka.Float.parse_format a t ha
  have h2 := Redka.Float.parse_format b t hb
  rw [h1] at h2
  injection h2

/-- Every value of the four non-float types is accepted (the model never refuses one). -/
theorem tobytes_total : ∀ v : GoVal, ∃ t, argBytes (.val v) = some t := fun v => ⟨_, rfl⟩

/-! ### non-vacuity -/

/-- 2^60 (a whole float above 2^53) is stored with its 16 shortest digits and zero padding, 0.1 as "0.1" -/
example : argBytes (.float (Dyadic.ofIntWithPrec 1 (-60))) = some [49, 49, 53, 50, 57, 50, 49, 53, 48, 52, 54, 48, 54, 56, 52, 55, 48, 48, 48] := by
  decide +kernel
example : argBytes (.float (Dyadic.ofIntWithPrec 3602879701896397 55)) = some [48, 46, 49] := by decide +kernel


/-- CR, LF, NUL and an invalid-UTF-8 byte in a bulk string: the exact wire bytes … -/
example : encode (.bulk [13, 10, 0, 255]) = [36, 52, 13, 10, 13, 10, 0, 255, 13, 10] := by
  simp [encode, appendPrefix, crlf, itoa, natDigits_of_lt, digitChar]

/-- … which the decoder reads by length, not by delimiter (checked by evaluation, not by the theorem) -/
example : decode [36, 52, 13, 10, 13, 10, 0, 255, 13, 10] = some (.bulk [13, 10, 0, 255], []) := rfl

example : decode (encode (.bulk [13, 10, 0, 255])) = some (.bulk [13, 10, 0, 255], []) :=
  bulk_length_exact _

/-- the empty string is `$0\r\n\r\n`, distinct from null `$-1\r\n` -/
example : encode (.bulk []) = [36, 48, 13, 10, 13, 10] := by
  simp [encode, appendPrefix, crlf, itoa, natDigits_of_lt, digitChar]

example : decode [36, 48, 13, 10, 13, 10] = some (.bulk [], []) := rfl
example : decode [36, 45, 49, 13, 10] = some (.null, []) := rfl

/-- a payload that itself looks like a reply does not split the stream -/
example : decodeAll (encode (.bulk [36, 45, 49, 13, 10]) ++ encode (.bulk [])) =
    some [.bulk [36, 45, 49, 13, 10], .bulk []] := by
  have := resp_stream [.bulk [36, 45, 49, 13, 10], .bulk []] (by decide)
  simpa using this

/-- a nested array with hostile members is clean, so the round trip applies to it -/
example : Clean (.array [.bulk [13, 10, 0, 255], .bulk [], .array [.int (-12), .null, .array []],
    .simple [79, 75], .err [69, 82, 82]]) := by decide

example :
    encode (.array [.bulk [], .array [.int 12, .null], .simple [79, 75]]) =
      [42, 51, 13, 10, 36, 48, 13, 10, 13, 10, 42, 50, 13, 10, 58, 49, 50, 13, 10,
       36, 45, 49, 13, 10, 43, 79, 75, 13, 10] := by
  simp [encode, encodeList, appendPrefix, crlf, itoa, stripNewlines, natDigits_of_lt,
    natDigits_of_ge, digitChar]

example :
    decode [42, 51, 13, 10, 36, 48, 13, 10, 13, 10, 42, 50, 13, 10, 58, 49, 50, 13, 10,
       36, 45, 49, 13, 10, 43, 79, 75, 13, 10] =
      some (.array [.bulk [], .array [.int 12, .null], .simple [79, 75]], []) := rfl

/-- `Clean` is needed: a CR inside a simple string is rewritten by the writer. Redka never sends
client data as a simple string; stored bytes always travel as bulk strings. -/
example : encode (.simple [13]) = encode (.simple [32]) := by
  simp [encode, stripNewlines]

example : ¬ Clean (.simple [65, 13, 10]) := by decide

/-- the decoder is strict: `$+1`, a short payload, `$-2`, an empty number, `:+1`, a bare LF,
a payload not followed by CRLF, and an array with a missing element are all rejected -/
example : decode [36, 43, 49, 13, 10, 65, 13, 10] = none := by decide
example : decode [36, 50, 13, 10, 65, 13, 10] = none := by decide
example : decode [36, 45, 50, 13, 10] = none := by decide
example : decode [58, 13, 10] = none := by decide
example : decode [58, 43, 49, 13, 10] = none := by decide
example : decode [43, 79, 75, 10] = none := by decide
example : decode [36, 49, 13, 10, 65, 66, 13, 10] = none := by decide
example : decode [42, 50, 13, 10, 58, 49, 13, 10] = none := by decide

/-- the extreme Go ints -/
example : itoa minInt64 = [45, 57, 50, 50, 51, 51, 55, 50, 48, 51, 54, 56, 53, 52, 55, 55, 53, 56, 48, 56] := by
  simp [minInt64, itoa, natDigits_of_lt, natDigits_of_ge, digitChar]

example : atoi (itoa minInt64) = some minInt64 := atoi_itoa _ (by decide) (by decide)
example : atoi (itoa maxInt64) = some maxInt64 := atoi_itoa _ (by decide) (by decide)

/-- the range hypothesis of `atoi_itoa` is needed: one past the top does not parse -/
example : atoi [57, 50, 50, 51, 51, 55, 50, 48, 51, 54, 56, 53, 52, 55, 55, 53, 56, 48, 56] = none := by
  decide

example : toBytes (.int (-7)) = [45, 55] := by
  simp [toBytes, itoa, natDigits_of_lt, digitChar]

/-- digits-only strings are values like any other: "007" is not the integer 7 -/
example : toBytes (.str [48, 48, 55]) ≠ toBytes (.int 7) := by
  simp [toBytes, itoa, natDigits_of_lt, digitChar]

end Redka.Props.C17
