/-
  Property C18: one glob semantics for every place that takes a pattern.

  Every pattern-taking operation of the model hands the pattern to `Redka.Glob.sqliteGlob`, the
  model of SQLite's `GLOB`. The theorems below relate that function to the reference matcher
  `Redka.Spec.globSpec`, which implements the rules the property spells out.

  Known deviation D16: SQLite negates a bracket class with `^` only. The documented form `[!a-c]`
  is, for SQLite, the class of `!`, `a`, `b`, `c`. So the agreement is stated for patterns without
  a class that starts with `!` (`glob_agree_partial`), next to witnesses that the deviation is real
  (`bang_negation_deviates`, `documented_bang_example_fails`).

  Scope of the agreement: pattern and name are 7-bit text without NUL (`Ascii`), and the pattern
  is `WellFormed` (every class is closed, no range is reversed); the property fixes no meaning
  for the patterns that `WellFormed` excludes.
-/
import RedkaModel.Proofs.Glob

namespace Redka.Props.C18
open Redka.Spec

/-- On 7-bit text, the model of SQLite's GLOB selects exactly the names the reference matcher
selects, for every well-formed pattern in which no class starts with `!`.

The full-strength statement (without `NoBangClass`) is FALSE of the code: see
`bang_negation_deviates`. -/
theorem glob_agree_partial : ∀ p s : Bytes, Ascii p → Ascii s → WellFormed p → NoBangClass p →
    Glob.sqliteGlob p s = Spec.globSpec p s :=
  fun _ _ hp hs hw hb => Glob.sqliteGlob_eq_globSpec hp hs hw hb

/-- D16 is real: the pattern `k[!a-c]` is well formed, and on the name `kd` the model of SQLite
(no match: `d` is not one of `!abc`) and the reference matcher (match: `d` is outside `a-c`)
disagree. -/
theorem bang_negation_deviates :
    ∃ p s, Ascii p ∧ Ascii s ∧ WellFormed p ∧ Glob.sqliteGlob p s ≠ Spec.globSpec p s := by
  refine ⟨str "k[!a-c]", str "kd", by decide +kernel, by decide +kernel, by decide +kernel, ?_⟩
  have hm : Glob.sqliteGlob (str "k[!a-c]") (str "kd") = false := by
    show Glob.sqliteGlob [107, 91, 33, 97, 45, 99, 93] [107, 100] = false
    glob_unfold
  have hs : Spec.globSpec (str "k[!a-c]") (str "kd") = true := by decide +kernel
  rw [hm, hs]; decide

/-- The documented example `k[!a-c][y-z]` does not select `kdy`, which the documentation (and
the reference matcher) say it selects. -/
theorem documented_bang_example_fails :
    Glob.sqliteGlob (str "k[!a-c][y-z]") (str "kdy") = false ∧
    Spec.globSpec (str "k[!a-c][y-z]") (str "kdy") = true := by
  refine ⟨?_, by decide +kernel⟩
  show Glob.sqliteGlob [107, 91, 33, 97, 45, 99, 93, 91, 121, 45, 122, 93] [107, 100, 121] = false
  glob_unfold

/-- A name without metacharacters, used as a pattern, selects exactly that name. -/
theorem literal_selects_itself : ∀ s, Ascii s → NoMeta s → ∀ t, Ascii t →
    (Glob.sqliteGlob s t = true ↔ t = s) := by
  intro s hs hn t ht
  rw [glob_agree_partial s t hs ht (Glob.wellFormed_noMeta s hn) (Glob.noBangClass_noMeta s hn)]
  exact Glob.globSpec_noMeta s t hn

/-- `*` selects everything (any byte string, 7-bit or not). -/
theorem star_selects_all : ∀ s, Glob.sqliteGlob [42] s = true :=
  Glob.sqliteGlob_star

/-! ### the documented example patterns: `key*`, `k?y`, `k[bce]y`, and `k[^a-c][y-z]` -/

example : Glob.sqliteGlob (str "key*") (str "key") = true := by glob_eval
example : Glob.sqliteGlob (str "key*") (str "key1") = true := by glob_eval
example : Glob.sqliteGlob (str "key*") (str "ke") = false := by glob_eval
example : Glob.sqliteGlob (str "k?y") (str "key") = true := by glob_eval
example : Glob.sqliteGlob (str "k?y") (str "ky") = false := by glob_eval
example : Glob.sqliteGlob (str "k[bce]y") (str "key") = true := by glob_eval
example : Glob.sqliteGlob (str "k[bce]y") (str "kay") = false := by glob_eval
example : Glob.sqliteGlob (str "k[^a-c][y-z]") (str "kdy") = true := by glob_eval
example : Glob.sqliteGlob (str "k[^a-c][y-z]") (str "kay") = false := by glob_eval
example : Glob.sqliteGlob (str "k[^a-c][y-z]") (str "kdx") = false := by glob_eval
/-- case-sensitive -/
example : Glob.sqliteGlob (str "key*") (str "Key") = false := by glob_eval

/-! ### non-vacuity: the hypotheses of the theorems hold of non-trivial patterns and names -/

example : Ascii (str "k[^a-c][y-z]*?") ∧ Ascii (str "kdz-anything") ∧
    WellFormed (str "k[^a-c][y-z]*?") ∧ NoBangClass (str "k[^a-c][y-z]*?") := by decide +kernel

example : Ascii (str "[]a-c-]x[^]!]") ∧ WellFormed (str "[]a-c-]x[^]!]") ∧
    NoBangClass (str "[]a-c-]x[^]!]") := by decide +kernel

/-- the classifier does exclude the documented `!` form, and only that -/
example : ¬ NoBangClass (str "k[!a-c][y-z]") ∧ NoBangClass (str "k!a[^!a-c]") := by decide +kernel

/-- an unclosed class and a reversed range are not well formed -/
example : ¬ WellFormed (str "k[abc") ∧ ¬ WellFormed (str "k[z-a]") := by decide +kernel

/-- why `WellFormed` excludes reversed ranges: SQLite counts the lower end of `[z-a]` as a
listed byte, the reference matcher takes the range to be empty; the property says neither -/
example : Glob.sqliteGlob (str "[z-a]") (str "z") = true ∧
    Spec.globSpec (str "[z-a]") (str "z") = false := by
  refine ⟨?_, by decide +kernel⟩
  show Glob.sqliteGlob [91, 122, 45, 97, 93] [122] = true
  glob_unfold

example : Ascii (str "user:1001:name") ∧ NoMeta (str "user:1001:name") := by decide +kernel

end Redka.Props.C18
