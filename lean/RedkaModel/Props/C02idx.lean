/-
  C02 (lists) / C05 (sorted sets) — index rules.

  "Indexes are 0-based, negative indexes count from the tail, out-of-range bounds are clamped, an
  inverted range selects nothing."

  The repositories compute ranges with SQLite's `LIMIT offset, count`, which does not clamp: a
  negative offset is 0 and a negative count is "no limit". So the full-strength statements are
  false of the list code (D01). What is proved here, for every list and every pair of integers:

    * `Range`, `Trim`: model = Redis rule exactly when a decidable classifier is off
      (`*_refines_partial` one way, `*_classifier_exact` the other way), with concrete witnesses
      that every classified deviation is real;
    * `Get`/`Set` index, `RangeWith.ByRank`, `DeleteWith.ByRank`, `ByScore` offset/count, `Len`:
      model = Redis rule at full strength. (`DeleteWith.ByRank` was D09: it lacked the
      `start > stop` guard and reached SQLite as `limit a, <negative>`. The guard is now there,
      `rank_delete_refines` has no hypotheses; what the raw statement does without the guard is
      kept as `raw_rank_limit_exact` / `raw_rank_limit_deviates`.)

  Two region claims that were expected to hold are FALSE and are refuted below
  (`range_ordinary_region_claim_false`, `range_nonneg_region_claim_false`): `Range(2, 0)` on
  `[a,b,c]` has in-range non-negative bounds, escapes the Go shortcut (it needs both bounds
  strictly of one sign), reaches SQLite as `LIMIT 2, -1` and returns `[c]` where Redis returns `[]`.
  The corrected, exact regions follow them.

  Only property theorems and non-vacuity examples live here; definitions and lemmas are in
  `RedkaModel/Proofs/Index.lean`.
-/
import RedkaModel.Proofs.Index

namespace Redka.Props.C02

open Redka Redka.Model Redka.Proofs.Index

/-! ### LRANGE -/

/-- with a cached length the `bounds` CTE never produces `LIMIT NULL` -/
theorem range_window_defined {α} (n a b : Int) (l : List α) :
    Model.rangeWindow (some n) a b l ≠ none :=
  rangeWindow_some_ne_none n a b l

/-- D02: on a missing key (`len` NULL) the statement fails exactly when a bound is negative -/
theorem range_window_missing_key {α} (a b : Int) (l : List α) :
    Model.rangeWindow none a b l = none ↔ a < 0 ∨ b < 0 :=
  rangeWindow_none_iff a b l

theorem range_refines_partial {α} (l : List α) (a b : Int)
    (h : rangeDeviates l.length a b = false) : modelRange l a b = Spec.lrange l a b :=
  (range_eq_iff l a b).2 h

/-- the classifier is exact: whenever it fires, the answer is wrong, for every list -/
theorem range_classifier_exact {α} (l : List α) (a b : Int)
    (h : rangeDeviates l.length a b = true) : modelRange l a b ≠ Spec.lrange l a b := by
  intro he
  have := (range_eq_iff l a b).1 he
  rw [h] at this
  exact Bool.noConfusion this

theorem range_deviates_1 :
    modelRange ['a', 'b', 'c'] (-5) 0 ≠ Spec.lrange ['a', 'b', 'c'] (-5) 0 := by decide
theorem range_deviates_2 :
    modelRange ['a', 'b', 'c'] 0 (-5) ≠ Spec.lrange ['a', 'b', 'c'] 0 (-5) := by decide
theorem range_deviates_3 :
    modelRange ['a', 'b', 'c'] 1 (-5) ≠ Spec.lrange ['a', 'b', 'c'] 1 (-5) := by decide
/-- in-range, non-negative bounds: `LIMIT 2, -1` -/
theorem range_deviates_4 :
    modelRange ['a', 'b', 'c'] 2 0 ≠ Spec.lrange ['a', 'b', 'c'] 2 0 := by decide
/-- what the code answers there -/
theorem range_deviates_4_value :
    modelRange ['a', 'b', 'c'] 2 0 = ['c'] ∧ Spec.lrange ['a', 'b', 'c'] 2 0 = [] := by decide

/-- CLAIM REFUTED: "no deviation when both indexes are in range (either sign)". -/
theorem range_ordinary_region_claim_false :
    ¬ ∀ (n : Nat) (a b : Int), -(n : Int) ≤ a → a < n → -(n : Int) ≤ b → b < n →
        rangeDeviates n a b = false := by
  intro h
  exact absurd (h 3 2 0 (by decide) (by decide) (by decide) (by decide)) (by decide)

/-- CLAIM REFUTED: "no deviation when both bounds are non-negative". -/
theorem range_nonneg_region_claim_false :
    ¬ ∀ (n : Nat) (a b : Int), 0 ≤ a → 0 ≤ b → rangeDeviates n a b = false := by
  intro h
  exact absurd (h 3 2 0 (by decide) (by decide)) (by decide)

/-- corrected: with the start index in range (the stop may be anything) the only deviation is an
inversion by more than one position that the Go shortcut does not catch (bounds not strictly of
one sign) -/
theorem range_ordinary_region (n : Nat) (a b : Int) (ha : -(n : Int) ≤ a) (ha' : a < n) :
    rangeDeviates n a b = true ↔
      Model.rangePrecheck a b = false ∧ Spec.normIdx n b + 1 < Spec.normIdx n a := by
  unfold rangeDeviates trimDeviates sliceDeviates Spec.normIdx
  cases hp : Model.rangePrecheck a b
  · simp only [Bool.not_false, Bool.true_and, true_and]
    split <;> split <;> split <;> simp only [decide_eq_true_eq] <;> omega
  · simp

/-- in particular: in-range indexes that are not inverted by more than one never deviate -/
theorem range_ordinary_region_ordered (n : Nat) (a b : Int)
    (ha : -(n : Int) ≤ a) (ha' : a < n) (_ : -(n : Int) ≤ b) (_ : b < n)
    (hab : Spec.normIdx n a ≤ Spec.normIdx n b + 1) : rangeDeviates n a b = false := by
  cases h : rangeDeviates n a b
  · rfl
  · have := ((range_ordinary_region n a b ha ha').1 h).2
    omega

/-- corrected: with non-negative bounds, however large, the only deviation is `Range(a, 0)` with
`2 ≤ a < n` -/
theorem range_nonneg_region (n : Nat) (a b : Int) (ha : 0 ≤ a) (hb : 0 ≤ b) :
    rangeDeviates n a b = true ↔ b = 0 ∧ 2 ≤ a ∧ a < n := by
  have ha' : ¬ a < 0 := by omega
  have hb' : ¬ b < 0 := by omega
  unfold rangeDeviates trimDeviates sliceDeviates Spec.normIdx Model.rangePrecheck
  simp only [ha', hb', if_false, ha, if_true, decide_false, Bool.and_false, Bool.or_false,
    Bool.and_eq_true, Bool.not_eq_true', decide_eq_true_eq, decide_eq_false_iff_not,
    Bool.and_eq_false_iff]
  omega

theorem range_pos_stop_region (n : Nat) (a b : Int) (ha : 0 ≤ a) (hb : 0 < b) :
    rangeDeviates n a b = false := by
  cases h : rangeDeviates n a b
  · rfl
  · have := (range_nonneg_region n a b ha (by omega)).1 h
    omega

/-- the exact non-deviating region, on the normalised bounds `s`, `e` -/
theorem range_exact_region (n : Nat) (a b : Int) :
    rangeDeviates n a b = false ↔
      Model.rangePrecheck a b = true ∨
      (0 ≤ Spec.normIdx n a ∧
        ((n : Int) ≤ Spec.normIdx n a ∨ Spec.normIdx n a ≤ Spec.normIdx n b + 1)) ∨
      (Spec.normIdx n a < 0 ∧
        (n = 0 ∨ Spec.normIdx n b + 1 = Spec.normIdx n a ∨ (n : Int) ≤ Spec.normIdx n b + 1)) := by
  unfold rangeDeviates trimDeviates sliceDeviates
  generalize Spec.normIdx n a = s
  generalize Spec.normIdx n b = e
  cases hp : Model.rangePrecheck a b
  · simp only [Bool.not_false, Bool.true_and, Bool.false_eq_true, false_or]
    split <;> simp only [decide_eq_false_iff_not] <;> omega
  · simp

/-! ### LTRIM -/

theorem trim_refines_partial {α} (l : List α) (a b : Int)
    (h : trimDeviates l.length a b = false) : modelTrimKeep l a b = Spec.ltrim l a b :=
  (trim_eq_iff l a b).2 h

theorem trim_classifier_exact {α} (l : List α) (a b : Int)
    (h : trimDeviates l.length a b = true) : modelTrimKeep l a b ≠ Spec.ltrim l a b := by
  intro he
  have := (trim_eq_iff l a b).1 he
  rw [h] at this
  exact Bool.noConfusion this

/-- `Trim(-5, 0)` keeps everything -/
theorem trim_deviates_1 :
    modelTrimKeep ['a', 'b', 'c'] (-5) 0 = ['a', 'b', 'c'] ∧
      Spec.ltrim ['a', 'b', 'c'] (-5) 0 = ['a'] := by decide
/-- `Trim(5, 1)` on five elements: nothing to keep, but `Trim(3, 1)` keeps the tail -/
theorem trim_deviates_2 :
    modelTrimKeep [0, 1, 2, 3, 4] 3 1 = [3, 4] ∧ Spec.ltrim [0, 1, 2, 3, 4] 3 1 = [] := by decide
theorem trim_deviates_3 :
    modelTrimKeep ['a', 'b', 'c'] 0 (-5) ≠ Spec.ltrim ['a', 'b', 'c'] 0 (-5) := by decide
/-- start past the end is harmless even with a negative count -/
theorem trim_past_end : modelTrimKeep ['a', 'b', 'c'] 5 1 = Spec.ltrim ['a', 'b', 'c'] 5 1 := by
  decide

/-- `Range` deviates exactly where `Trim` does, minus the Go shortcut -/
theorem range_deviates_iff_trim (n : Nat) (a b : Int) :
    rangeDeviates n a b = true ↔ Model.rangePrecheck a b = false ∧ trimDeviates n a b = true := by
  unfold rangeDeviates
  cases Model.rangePrecheck a b <;> simp

/-- the exact non-deviating region for `Trim` -/
theorem trim_exact_region (n : Nat) (a b : Int) :
    trimDeviates n a b = false ↔
      (0 ≤ Spec.normIdx n a ∧
        ((n : Int) ≤ Spec.normIdx n a ∨ Spec.normIdx n a ≤ Spec.normIdx n b + 1)) ∨
      (Spec.normIdx n a < 0 ∧
        (n = 0 ∨ Spec.normIdx n b + 1 = Spec.normIdx n a ∨ (n : Int) ≤ Spec.normIdx n b + 1)) := by
  unfold trimDeviates sliceDeviates
  generalize Spec.normIdx n a = s
  generalize Spec.normIdx n b = e
  split <;> simp only [decide_eq_false_iff_not] <;> omega

/-- in-range, ordered (or inverted by one) indexes never deviate -/
theorem trim_ordinary_region_ordered (n : Nat) (a b : Int)
    (ha : -(n : Int) ≤ a) (_ : a < n) (_ : -(n : Int) ≤ b) (_ : b < n)
    (hab : Spec.normIdx n a ≤ Spec.normIdx n b + 1) : trimDeviates n a b = false := by
  rw [trim_exact_region]
  left
  refine ⟨?_, Or.inr hab⟩
  unfold Spec.normIdx
  split <;> omega

/-! ### LINDEX / LSET -/

theorem index_refines {α} (l : List α) (i : Int) : modelIndex l i = Spec.lindex l i := by
  rw [modelIndex_eq_pos, lindex_eq_bind, modelIndexPos_eq]

theorem index_pos_refines (n : Nat) (i : Int) : modelIndexPos n i = Spec.lindexPos n i :=
  modelIndexPos_eq n i

theorem set_refines {α} (l : List α) (i : Int) (x : α) : modelSet l i x = Spec.lset l i x := by
  unfold modelSet
  rw [lset_eq_map, modelIndexPos_eq]

/-- `modelIndex` is literally `listRowAt` on the ordered rows -/
theorem index_is_listRowAt (db : DB) (kid i : Int) :
    Model.listRowAt db kid i = modelIndex (Model.listRows db kid) i :=
  listRowAt_eq db kid i

/-! ### sorted-set ranks -/

theorem rank_slice_refines_partial {α} (l : List α) (a b : Int) (ha : 0 ≤ a) (hb : 0 ≤ b) :
    (if a > b then [] else sqlLimit a (b - a + 1) l) = Spec.rankSlice l a b := by
  by_cases hab : a > b
  · have : a < 0 ∨ b < 0 ∨ a > b := Or.inr (Or.inr hab)
    rw [if_pos hab]
    unfold Spec.rankSlice
    rw [if_pos this]
  · simp only [hab, if_false]
    apply (sqlLimit_eq_rankSlice_iff l a b ha hb).2
    unfold rawRankLimitDeviates
    simp only [decide_eq_false_iff_not]
    omega

/-- `zRangeRank` including its early return: full strength, no hypotheses -/
theorem rank_range_refines {α} (l : List α) (a b : Int) :
    modelRankRange l a b = Spec.rankSlice l a b := by
  unfold modelRankRange
  by_cases h : a < 0 ∨ b < 0
  · have h1 : (decide (a < 0) || decide (b < 0)) = true := by simpa using h
    have h2 : a < 0 ∨ b < 0 ∨ a > b := by omega
    simp only [h1, if_true, Spec.rankSlice, h2]
  · have h1 : (decide (a < 0) || decide (b < 0)) = false := by
      simp only [Bool.or_eq_false_iff, decide_eq_false_iff_not]; omega
    simp only [h1, Bool.false_eq_true, if_false]
    exact rank_slice_refines_partial l a b (by omega) (by omega)

/-- `zDeleteRank` including both early returns: full strength, no hypotheses (D09 is repaired: the
victims of `DeleteWith.ByRank(a, b)` are exactly the Redis rank slice, for every list and every
pair of integers) -/
theorem rank_delete_refines {α} (l : List α) (a b : Int) :
    modelRankDelete l a b = Spec.rankSlice l a b :=
  rank_range_refines l a b

/-- remove-by-rank and range-by-rank select the same elements -/
theorem rank_delete_eq_rank_range {α} (l : List α) (a b : Int) :
    modelRankDelete l a b = modelRankRange l a b := rfl

/-- the RAW statement `limit a, b - a + 1`, which no caller reaches with `a > b` any more: it is
the Redis rank slice exactly when `rawRankLimitDeviates` is off, i.e. unless `b + 1 < a < n` -/
theorem raw_rank_limit_exact {α} (l : List α) (a b : Int) (ha : 0 ≤ a) (hb : 0 ≤ b) :
    sqlLimit a (b - a + 1) l = Spec.rankSlice l a b ↔ rawRankLimitDeviates l.length a b = false :=
  sqlLimit_eq_rankSlice_iff l a b ha hb

/-- what D09 was: the raw `limit 3, -1` is "no limit". The guard `start > stop` is therefore
needed, in `zDeleteRank` as in `zRangeRank`. -/
theorem raw_rank_limit_deviates :
    sqlLimit 3 (1 - 3 + 1) [0, 1, 2, 3, 4] = [3, 4] ∧ Spec.rankSlice [0, 1, 2, 3, 4] 3 1 = [] := by
  decide

/-- the former D09 witness: the inverted range now selects nothing -/
theorem rank_delete_now_agrees :
    modelRankDelete [0, 1, 2, 3, 4] 3 1 = [] ∧ Spec.rankSlice [0, 1, 2, 3, 4] 3 1 = [] := by
  decide

/-! ### LIMIT offset / count of ZRANGEBYSCORE -/

theorem offset_count_refines {α} (l : List α) (off cnt : Int) :
    (if off > 0 && cnt > 0 then sqlLimit off cnt l
     else if cnt > 0 then sqlLimit 0 cnt l
     else if off > 0 then sqlLimit off (-1) l
     else l) = Spec.offsetCount l off cnt := by
  unfold Spec.offsetCount sqlLimit
  by_cases ho : off > 0 <;> by_cases hc : cnt > 0
  · have : ¬ cnt < 0 := by omega
    simp [ho, hc, this]
  · simp [ho, hc]
  · have : ¬ cnt < 0 := by omega
    simp [ho, hc, this]
  · simp [ho, hc]

theorem offset_count_refines' {α} (l : List α) (off cnt : Int) :
    modelOffsetCount l off cnt = Spec.offsetCount l off cnt :=
  offset_count_refines l off cnt

/-! ### LLEN against the full range -/

theorem len_eq_full_range {α} (l : List α) : (Spec.lrange l 0 (-1)).length = l.length := by
  have h : Spec.lrange l 0 (-1) = l := by
    rw [← range_refines_partial l 0 (-1)]
    · rw [modelRange_eq, modelTrimKeep_eq]
      have hp : Model.rangePrecheck 0 (-1) = false := by decide
      have h0 : Spec.normIdx l.length 0 = 0 := by unfold Spec.normIdx; simp
      have h1 : Spec.normIdx l.length (-1) = (l.length : Int) - 1 := by
        unfold Spec.normIdx; simp; omega
      rw [hp, h0, h1, sqlLimit_eq_take]
      have : ¬ ((l.length : Int) - 1 - 0 + 1 < 0) := by omega
      simp only [Bool.false_eq_true, if_false, this]
      rw [List.take_of_length_le] <;> simp
    · unfold rangeDeviates trimDeviates sliceDeviates Spec.normIdx
      simp
      omega
  rw [h]

theorem full_range_is_list {α} (l : List α) : modelRange l 0 (-1) = l := by
  have hd : rangeDeviates l.length 0 (-1) = false := by
    unfold rangeDeviates trimDeviates sliceDeviates Spec.normIdx
    simp
    omega
  have hl : (Spec.lrange l 0 (-1)).length = l.length := len_eq_full_range l
  rw [range_refines_partial l 0 (-1) hd]
  unfold Spec.lrange at hl ⊢
  simp only [] at hl ⊢
  split
  · rename_i h
    rw [if_pos h] at hl
    exact (List.eq_nil_of_length_eq_zero hl.symm).symm
  · rename_i h
    rw [if_neg h] at hl
    have h0 : (max (Spec.normIdx (↑l.length) 0) 0).toNat = 0 := by
      have : Spec.normIdx (↑l.length) 0 = 0 := by unfold Spec.normIdx; simp
      rw [this]; rfl
    rw [h0, List.drop_zero] at hl ⊢
    rw [List.length_take] at hl
    exact List.take_of_length_le (by omega)

/-! ### non-vacuity -/

section NonVacuity

example : modelRange ['a', 'b', 'c', 'd'] 1 (-2) = Spec.lrange ['a', 'b', 'c', 'd'] 1 (-2) :=
  range_refines_partial _ 1 (-2) (by decide)
example : modelRange ['a', 'b', 'c', 'd'] 1 (-2) = ['b', 'c'] := by decide
example : modelRange ['a', 'b', 'c'] 1 100 = Spec.lrange ['a', 'b', 'c'] 1 100 :=
  range_refines_partial _ 1 100 (by decide)
example : modelRange ['a', 'b', 'c'] (-5) 0 ≠ Spec.lrange ['a', 'b', 'c'] (-5) 0 :=
  range_classifier_exact _ (-5) 0 (by decide)
example : rangeDeviates 3 2 0 = true ↔
    Model.rangePrecheck 2 0 = false ∧ Spec.normIdx (3 : Nat) 0 + 1 < Spec.normIdx (3 : Nat) 2 :=
  range_ordinary_region 3 2 0 (by decide) (by decide)
example : rangeDeviates 4 (-3) 2 = false :=
  range_ordinary_region_ordered 4 (-3) 2 (by decide) (by decide) (by decide) (by decide) (by decide)
example : rangeDeviates 3 2 0 = true := (range_nonneg_region 3 2 0 (by decide) (by decide)).2 (by decide)
example : rangeDeviates 3 7 1000 = false := range_pos_stop_region 3 7 1000 (by decide) (by decide)
example : rangeDeviates 3 (-5) 7 = false := (range_exact_region 3 (-5) 7).2 (by decide)
example : (Model.rangeWindow (some 3) (-5) 0 ['a', 'b', 'c']) ≠ none := range_window_defined _ _ _ _
example : Model.rangeWindow none (-1) 0 ['a'] = none := (range_window_missing_key _ _ _).2 (by decide)

example : modelTrimKeep ['a', 'b', 'c', 'd'] (-3) 2 = Spec.ltrim ['a', 'b', 'c', 'd'] (-3) 2 :=
  trim_refines_partial _ (-3) 2 (by decide)
example : modelTrimKeep ['a', 'b', 'c', 'd'] (-3) 2 = ['b', 'c'] := by decide
example : modelTrimKeep ['a', 'b', 'c'] 2 1 = Spec.ltrim ['a', 'b', 'c'] 2 1 :=
  trim_refines_partial _ 2 1 (by decide)
example : modelTrimKeep [0, 1, 2, 3, 4] 3 1 ≠ Spec.ltrim [0, 1, 2, 3, 4] 3 1 :=
  trim_classifier_exact _ 3 1 (by decide)
example : trimDeviates 5 3 1 = true ∧ rangeDeviates 5 3 1 = false := by decide
example : trimDeviates 4 (-3) 2 = false :=
  trim_ordinary_region_ordered 4 (-3) 2 (by decide) (by decide) (by decide) (by decide) (by decide)
example : trimDeviates 3 5 1 = false := (trim_exact_region 3 5 1).2 (by decide)
example : rangeDeviates 3 0 (-5) = true := (range_deviates_iff_trim 3 0 (-5)).2 (by decide)

example : modelIndex ['a', 'b', 'c'] (-1) = some 'c' := by decide
example : modelIndex ['a', 'b', 'c'] (-1) = Spec.lindex ['a', 'b', 'c'] (-1) := index_refines _ _
example : modelIndex ['a', 'b', 'c'] (-4) = none ∧ modelIndex ['a', 'b', 'c'] 3 = none := by decide
example : modelIndexPos 3 (-2) = some 1 := by decide
example : modelIndexPos 3 (-2) = Spec.lindexPos 3 (-2) := index_pos_refines _ _
example : modelSet ['a', 'b', 'c'] (-2) 'x' = some ['a', 'x', 'c'] := by decide
example : modelSet ['a', 'b', 'c'] (-2) 'x' = Spec.lset ['a', 'b', 'c'] (-2) 'x' := set_refines _ _ _

example : (if (1 : Int) > 3 then [] else sqlLimit 1 (3 - 1 + 1) [0, 1, 2, 3, 4]) =
    Spec.rankSlice [0, 1, 2, 3, 4] 1 3 := rank_slice_refines_partial _ 1 3 (by decide) (by decide)
example : Spec.rankSlice [0, 1, 2, 3, 4] 1 3 = [1, 2, 3] := by decide
example : modelRankRange [0, 1, 2, 3, 4] 3 100 = [3, 4] := by decide
example : modelRankRange [0, 1, 2, 3, 4] 3 1 = Spec.rankSlice [0, 1, 2, 3, 4] 3 1 :=
  rank_range_refines _ _ _
example : sqlLimit 2 (1 - 2 + 1) [0, 1, 2, 3, 4] = Spec.rankSlice [0, 1, 2, 3, 4] 2 1 :=
  (raw_rank_limit_exact _ 2 1 (by decide) (by decide)).2 (by decide)
example : modelRankDelete [0, 1, 2, 3, 4] 1 3 = [1, 2, 3] := by decide
example : modelRankDelete [0, 1, 2, 3, 4] 3 1 = Spec.rankSlice [0, 1, 2, 3, 4] 3 1 :=
  rank_delete_refines _ _ _
example : rawRankLimitDeviates 5 3 1 = true := by decide

example : modelOffsetCount [0, 1, 2, 3, 4] 1 2 = [1, 2] := by decide
example : modelOffsetCount [0, 1, 2, 3, 4] 1 2 = Spec.offsetCount [0, 1, 2, 3, 4] 1 2 :=
  offset_count_refines' _ _ _
example : modelOffsetCount [0, 1, 2, 3, 4] 3 0 = [3, 4] ∧
    modelOffsetCount [0, 1, 2, 3, 4] (-1) 2 = [0, 1] := by decide

example : (Spec.lrange ['a', 'b', 'c'] 0 (-1)).length = 3 := len_eq_full_range _
example : modelRange ['a', 'b', 'c'] 0 (-1) = ['a', 'b', 'c'] := full_range_is_list _

end NonVacuity

end Redka.Props.C02
