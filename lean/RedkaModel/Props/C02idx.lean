/-
  C02 (lists) / C05 (sorted sets) — index rules.

  "Indexes are 0-based, negative indexes count from the tail, out-of-range bounds are clamped, an
  inverted range selects nothing."

  The repositories compute ranges with SQLite's `LIMIT offset, count`, which does not clamp: a
  negative offset is 0 and a negative count is "no limit". The list statements used to pass the
  normalised bounds straight through (D01) and failed with `LIMIT NULL` on a missing key with a
  negative bound (D02); both are repaired in the Go tree (the `bounds` CTE clamps the start to 0, the
  count to ≥ 0 and takes a missing length as 0). What is proved here, for every list and every pair of
  integers, at full strength and with no hypotheses:

    * `Range`, `Trim`: model = Redis rule (`range_refines`, `trim_refines`); the window is always
      defined (`range_window_defined`, also on a missing key);
    * `Get`/`Set` index, `RangeWith.ByRank`, `DeleteWith.ByRank`, `ByScore` offset/count, `Len`:
      model = Redis rule. (`DeleteWith.ByRank` was D09: it lacked the `start > stop` guard and
      reached SQLite as `limit a, <negative>`. The guard is now there.)

  What the RAW statements do without the clamps/guards is kept, with exact classifiers and witnesses:
  `raw_range_limit_exact` / `raw_range_limit_deviates*` (D01) and `raw_rank_limit_exact` /
  `raw_rank_limit_deviates` (D09) — a change that removes a clamp or a guard falls back into exactly
  these regions.

  Only property theorems and non-vacuity examples live here; definitions and lemmas are in
  `RedkaModel/Proofs/Index.lean`.
-/
import RedkaModel.Proofs.Index

namespace Redka.Props.C02

open Redka Redka.Model Redka.Proofs.Index

/-! ### LRANGE -/

/-- the `bounds` CTE never produces `LIMIT NULL`, with a cached length or (D02, repaired) without one -/
theorem range_window_defined {α} (len : Option Int) (a b : Int) (l : List α) :
    Model.rangeWindow len a b l ≠ none :=
  rangeWindow_ne_none len a b l

/-- a missing key has no rows: the window is empty whatever the bounds -/
theorem range_window_missing_key {α} (a b : Int) :
    Model.rangeWindow none a b ([] : List α) = some [] :=
  rangeWindow_nil none a b

/-- `Range` is the Redis rule, for every list and every pair of integers (D01 repaired) -/
theorem range_refines {α} (l : List α) (a b : Int) : modelRange l a b = Spec.lrange l a b :=
  range_eq l a b

/-- the RAW window `limit s, e - s + 1` on the normalised bounds (what the statement did before the
clamps): the Redis slice exactly when `rawSliceDeviates` is off -/
theorem raw_range_limit_exact {α} (l : List α) (a b : Int) :
    sqlLimit (Spec.normIdx l.length a) (Spec.normIdx l.length b - Spec.normIdx l.length a + 1) l =
      Spec.lrange l a b ↔
    rawSliceDeviates l.length (Spec.normIdx l.length a) (Spec.normIdx l.length b) = false := by
  rw [lrange_eq_clampSlice]
  exact raw_sqlLimit_eq_clampSlice_iff l _ _

/-- what D01 was: in-range, non-negative bounds `Range(2, 0)` reached SQLite as `LIMIT 2, -1` -/
theorem raw_range_limit_deviates :
    sqlLimit 2 (0 - 2 + 1) ['a', 'b', 'c'] = ['c'] ∧ Spec.lrange ['a', 'b', 'c'] 2 0 = [] := by decide
/-- … and `Range(-5, 0)` on three elements as `LIMIT -2, 3` -/
theorem raw_range_limit_deviates_neg :
    sqlLimit (-2) (0 - (-2) + 1) ['a', 'b', 'c'] = ['a', 'b', 'c'] ∧
      Spec.lrange ['a', 'b', 'c'] (-5) 0 = ['a'] := by decide
/-- the former witnesses now agree -/
theorem range_now_agrees :
    modelRange ['a', 'b', 'c'] 2 0 = [] ∧ modelRange ['a', 'b', 'c'] (-5) 0 = ['a'] ∧
      modelRange ['a', 'b', 'c'] 0 (-5) = [] ∧ modelRange ['a', 'b', 'c'] 1 (-5) = [] := by decide

/-- the exact region where the raw form is right, on the normalised bounds -/
theorem raw_slice_exact_region (n : Nat) (s e : Int) :
    rawSliceDeviates n s e = false ↔
      (0 ≤ s ∧ ((n : Int) ≤ s ∨ s ≤ e + 1)) ∨
      (s < 0 ∧ (n = 0 ∨ e + 1 = s ∨ (n : Int) ≤ e + 1)) := by
  unfold rawSliceDeviates
  split <;> simp only [decide_eq_false_iff_not] <;> omega

/-! ### LTRIM -/

/-- `Trim` keeps the Redis window, for every list and every pair of integers (D01 repaired) -/
theorem trim_refines {α} (l : List α) (a b : Int) : modelTrimKeep l a b = Spec.ltrim l a b :=
  trim_eq l a b

/-- the former witnesses now agree: `Trim(-5, 0)` keeps the head, `Trim(3, 1)` nothing -/
theorem trim_now_agrees :
    modelTrimKeep ['a', 'b', 'c'] (-5) 0 = ['a'] ∧ modelTrimKeep [0, 1, 2, 3, 4] 3 1 = [] ∧
      modelTrimKeep ['a', 'b', 'c'] 0 (-5) = [] ∧ modelTrimKeep ['a', 'b', 'c'] 5 1 = [] := by decide

/-- `Range` is `Trim`'s window behind the Go shortcut, and the shortcut only fires where the window is
empty anyway -/
theorem range_eq_trim_window {α} (l : List α) (a b : Int) : modelRange l a b = modelTrimKeep l a b := by
  rw [range_refines, trim_refines]; rfl

/-! ### LINDEX / LSET -/

theorem index_refines {α} (l : List α) (i : Int) : modelIndex l i = Spec.lindex l i := by
  rw [modelIndex_eq_pos, lindex_eq_bind, modelIndexPos_eq]

theorem index_pos_refines (n : Nat) (i : Int) : modelIndexPos n i = Spec.lindexPos n i :=
  modelIndexPos_eq n i

theorem set_refines {α} (l : List α) (i : Int) (x : α) : modelSet l i x = Spec.lset l i x := by
  unfold modelSet
  rw [lset_eq_map, modelIndexPos_eq]

/-- `modelIndex` is literally `listRowAt` on the ordered rows -/
theorem index_is_listRowAt (db : DB) (kid i : Int) :
    Model.listRowAt db kid i = modelIndex (Model.listRows db kid) i :=
  listRowAt_eq db kid i

/-! ### sorted-set ranks -/

theorem rank_slice_refines_partial {α} (l : List α) (a b : Int) (ha : 0 ≤ a) (hb : 0 ≤ b) :
    (if a > b then [] else sqlLimit a (b - a + 1) l) = Spec.rankSlice l a b := by
  by_cases hab : a > b
  · have : a < 0 ∨ b < 0 ∨ a > b := Or.inr (Or.inr hab)
    rw [if_pos hab]
    unfold Spec.rankSlice
    rw [if_pos this]
  · simp only [hab, if_false]
    apply (sqlLimit_eq_rankSlice_iff l a b ha hb).2
    unfold rawRankLimitDeviates
    simp only [decide_eq_false_iff_not]
    omega

/-- `zRangeRank` including its early return: full strength, no hypotheses -/
theorem rank_range_refines {α} (l : List α) (a b : Int) :
    modelRankRange l a b = Spec.rankSlice l a b := by
  unfold modelRankRange
  by_cases h : a < 0 ∨ b < 0
  · have h1 : (decide (a < 0) || decide (b < 0)) = true := by simpa using h
    have h2 : a < 0 ∨ b < 0 ∨ a > b := by omega
    simp only [h1, if_true, Spec.rankSlice, h2]
  · have h1 : (decide (a < 0) || decide (b < 0)) = false := by
      simp only [Bool.or_eq_false_iff, decide_eq_false_iff_not]; omega
    simp only [h1, Bool.false_eq_true, if_false]
    exact rank_slice_refines_partial l a b (by omega) (by omega)

/-- `zDeleteRank` including both early returns: full strength, no hypotheses (D09 is repaired: the
victims of `DeleteWith.ByRank(a, b)` are exactly the Redis rank slice, for every list and every
pair of integers) -/
theorem rank_delete_refines {α} (l : List α) (a b : Int) :
    modelRankDelete l a b = Spec.rankSlice l a b :=
  rank_range_refines l a b

/-- remove-by-rank and range-by-rank select the same elements -/
theorem rank_delete_eq_rank_range {α} (l : List α) (a b : Int) :
    modelRankDelete l a b = modelRankRange l a b := rfl

/-- the RAW statement `limit a, b - a + 1`, which no caller reaches with `a > b` any more: it is
the Redis rank slice exactly when `rawRankLimitDeviates` is off, i.e. unless `b + 1 < a < n` -/
theorem raw_rank_limit_exact {α} (l : List α) (a b : Int) (ha : 0 ≤ a) (hb : 0 ≤ b) :
    sqlLimit a (b - a + 1) l = Spec.rankSlice l a b ↔ rawRankLimitDeviates l.length a b = false :=
  sqlLimit_eq_rankSlice_iff l a b ha hb

/-- what D09 was: the raw `limit 3, -1` is "no limit". The guard `start > stop` is therefore
needed, in `zDeleteRank` as in `zRangeRank`. -/
theorem raw_rank_limit_deviates :
    sqlLimit 3 (1 - 3 + 1) [0, 1, 2, 3, 4] = [3, 4] ∧ Spec.rankSlice [0, 1, 2, 3, 4] 3 1 = [] := by
  decide

/-- the former D09 witness: the inverted range now selects nothing -/
theorem rank_delete_now_agrees :
    modelRankDelete [0, 1, 2, 3, 4] 3 1 = [] ∧ Spec.rankSlice [0, 1, 2, 3, 4] 3 1 = [] := by
  decide

/-! ### LIMIT offset / count of ZRANGEBYSCORE -/

theorem offset_count_refines {α} (l : List α) (off cnt : Int) :
    (if off > 0 && cnt > 0 then sqlLimit off cnt l
     else if cnt > 0 then sqlLimit 0 cnt l
     else if off > 0 then sqlLimit off (-1) l
     else l) = Spec.offsetCount l off cnt := by
  unfold Spec.offsetCount sqlLimit
  by_cases ho : off > 0 <;> by_cases hc : cnt > 0
  · have : ¬ cnt < 0 := by omega
    simp [ho, hc, this]
  · simp [ho, hc]
  · have : ¬ cnt < 0 := by omega
    simp [ho, hc, this]
  · simp [ho, hc]

theorem offset_count_refines' {α} (l : List α) (off cnt : Int) :
    modelOffsetCount l off cnt = Spec.offsetCount l off cnt :=
  offset_count_refines l off cnt

/-! ### LLEN against the full range -/

theorem full_range_is_list {α} (l : List α) : modelRange l 0 (-1) = l := by
  rw [modelRange_eq, modelTrimKeep_eq]
  have hp : Model.rangePrecheck 0 (-1) = false := by decide
  have h0 : Spec.normIdx l.length 0 = 0 := by unfold Spec.normIdx; simp
  have h1 : Spec.normIdx l.length (-1) = (l.length : Int) - 1 := by
    unfold Spec.normIdx; simp; omega
  rw [hp, h0, h1, sqlLimit_eq_take]
  have h2 : max 0 ((l.length : Int) - 1 - max 0 0 + 1) = l.length := by omega
  have : ¬ ((l.length : Int) < 0) := by omega
  simp only [Bool.false_eq_true, if_false, h2, this]
  rw [List.take_of_length_le] <;> simp

theorem len_eq_full_range {α} (l : List α) : (Spec.lrange l 0 (-1)).length = l.length := by
  rw [← range_refines l 0 (-1), full_range_is_list]

/-! ### non-vacuity -/

section NonVacuity

example : modelRange ['a', 'b', 'c', 'd'] 1 (-2) = Spec.lrange ['a', 'b', 'c', 'd'] 1 (-2) :=
  range_refines _ 1 (-2)
example : modelRange ['a', 'b', 'c', 'd'] 1 (-2) = ['b', 'c'] := by decide
example : modelRange ['a', 'b', 'c'] 1 100 = ['b', 'c'] := by decide
example : modelRange ['a', 'b', 'c'] (-100) 100 = ['a', 'b', 'c'] := by decide
example : rawSliceDeviates 3 2 0 = true ∧ rawSliceDeviates 3 (-2) 0 = true ∧
    rawSliceDeviates 3 1 2 = false := by decide
example : rawSliceDeviates 3 (-5) 7 = false := (raw_slice_exact_region 3 (-5) 7).2 (by decide)
example : (Model.rangeWindow (some 3) (-5) 0 ['a', 'b', 'c']) ≠ none := range_window_defined _ _ _ _
example : Model.rangeWindow none (-1) 0 ([] : List Char) = some [] := range_window_missing_key _ _
example : Model.rangeWindow none (-1) (-3) ['a'] ≠ none := range_window_defined _ _ _ _

example : modelTrimKeep ['a', 'b', 'c', 'd'] (-3) 2 = Spec.ltrim ['a', 'b', 'c', 'd'] (-3) 2 :=
  trim_refines _ (-3) 2
example : modelTrimKeep ['a', 'b', 'c', 'd'] (-3) 2 = ['b', 'c'] := by decide
example : modelTrimKeep ['a', 'b', 'c'] 2 1 = [] := by decide

example : modelIndex ['a', 'b', 'c'] (-1) = some 'c' := by decide
example : modelIndex ['a', 'b', 'c'] (-1) = Spec.lindex ['a', 'b', 'c'] (-1) := index_refines _ _
example : modelIndex ['a', 'b', 'c'] (-4) = none ∧ modelIndex ['a', 'b', 'c'] 3 = none := by decide
example : modelIndexPos 3 (-2) = some 1 := by decide
example : modelIndexPos 3 (-2) = Spec.lindexPos 3 (-2) := index_pos_refines _ _
example : modelSet ['a', 'b', 'c'] (-2) 'x' = some ['a', 'x', 'c'] := by decide
example : modelSet ['a', 'b', 'c'] (-2) 'x' = Spec.lset ['a', 'b', 'c'] (-2) 'x' := set_refines _ _ _

example : (if (1 : Int) > 3 then [] else sqlLimit 1 (3 - 1 + 1) [0, 1, 2, 3, 4]) =
    Spec.rankSlice [0, 1, 2, 3, 4] 1 3 := rank_slice_refines_partial _ 1 3 (by decide) (by decide)
example : Spec.rankSlice [0, 1, 2, 3, 4] 1 3 = [1, 2, 3] := by decide
example : modelRankRange [0, 1, 2, 3, 4] 3 100 = [3, 4] := by decide
example : modelRankRange [0, 1, 2, 3, 4] 3 1 = Spec.rankSlice [0, 1, 2, 3, 4] 3 1 :=
  rank_range_refines _ _ _
example : sqlLimit 2 (1 - 2 + 1) [0, 1, 2, 3, 4] = Spec.rankSlice [0, 1, 2, 3, 4] 2 1 :=
  (raw_rank_limit_exact _ 2 1 (by decide) (by decide)).2 (by decide)
example : modelRankDelete [0, 1, 2, 3, 4] 1 3 = [1, 2, 3] := by decide
example : modelRankDelete [0, 1, 2, 3, 4] 3 1 = Spec.rankSlice [0, 1, 2, 3, 4] 3 1 :=
  rank_delete_refines _ _ _
example : rawRankLimitDeviates 5 3 1 = true := by decide

example : modelOffsetCount [0, 1, 2, 3, 4] 1 2 = [1, 2] := by decide
example : modelOffsetCount [0, 1, 2, 3, 4] 1 2 = Spec.offsetCount [0, 1, 2, 3, 4] 1 2 :=
  offset_count_refines' _ _ _
example : modelOffsetCount [0, 1, 2, 3, 4] 3 0 = [3, 4] ∧
    modelOffsetCount [0, 1, 2, 3, 4] (-1) 2 = [0, 1] := by decide

example : (Spec.lrange ['a', 'b', 'c'] 0 (-1)).length = 3 := len_eq_full_range _
example : modelRange ['a', 'b', 'c'] 0 (-1) = ['a', 'b', 'c'] := full_range_is_list _

end NonVacuity

end Redka.Props.C02
