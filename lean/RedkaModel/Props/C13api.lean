/-
  C13 — "For every supported command … the server's reply is the Redis-typed encoding of what the
  DOCUMENTED Go API call for that command returns on the same data …"

  Which API call a command makes is a fact of the source. `tools/extract_wire` regenerates, on
  every run, for every command object of `internal/command/*`: the repository methods its `Run`
  calls (`Generated.runCalls`, `Generated.cmdSrcs`), and the rows of the `Command / Go API` tables
  of `docs/commands/*.md` (`Generated.docs`). Three statements connect the documentation, the
  source and the wire model:

  * `wire_model_consults_only_the_source_calls` — for EVERY parsed command, EVERY pair of
    repositories, clock, tables and oracle: the wire model's `run` depends on the repository only
    through the methods that the source of that command's `Run` calls. So the reply and the tables
    the model predicts for a request are a function of exactly those API calls on the same data —
    the model is "the typed encoding of the API call" and cannot consult anything else.
  * `documented_api_is_called_partial` — every documented row outside `docErrata` names a method
    that the command's `Run` does call (decided over the regenerated tables by the kernel);
    `doc_errata_deviate` shows each erratum is real (five wrong method names in the docs, and
    `SET`, documented as `Str().Set`, which calls the equivalent `SetExpires` / `SetWith`).
  * `every_dispatched_name_is_documented_partial` — every dispatched name has a documented row,
    except `COMMAND`, `CONFIG`, `INFO` (client-compatibility stubs).

  The printed source of every `ParseXxx` and `Run` is tied to the snapshot the model was
  transcribed from in `Tie/Cmds.lean` (one `rfl` per command).
-/
import RedkaModel.Proofs.WireApi

namespace Redka.Props.C13api

open Redka Redka.Wire

/-- **The wire model is a function of the API calls its Go counterpart makes.** -/
theorem wire_model_consults_only_the_source_calls (c : ParsedCmd) (r r' : Runner) (now : Int)
    (db : DB) (o : Option Bytes)
    (h : ∀ op, opApi op ∈ callsOfTy c.cmd.goType → r op = r' op) :
    run c r now db o = run c r' now db o :=
  run_calls_only_source_api c r r' now db o h

/-- a command whose `Run` calls no repository method does not depend on the repository at all -/
theorem no_calls_no_dependency (c : ParsedCmd) (r r' : Runner) (now : Int) (db : DB)
    (o : Option Bytes) (h : callsOfTy c.cmd.goType = []) :
    run c r now db o = run c r' now db o :=
  run_calls_only_source_api c r r' now db o (fun op hm => by rw [h] at hm; cases hm)

/-- **Each wire command is exactly its documented API call**: `apiCallOf` is the table "parsed command ↦
the ONE repository call it makes, with its arguments" (`LREM k -2 e ↦ List.DeleteBack(k, e, 2)`,
`SET k v NX PX 5 ↦ Str.SetWith(k, v).IfNotExists().TTL(5ms)`, `TTL k ↦ Key.Get(k)`, …); the reply and
the resulting tables of the wire model are a function of what that call returns on the same data at the
same instant — for every command, argument vector, repository, clock value and table state. -/
theorem wire_command_is_its_api_call (c : ParsedCmd) (r r' : Runner) (now : Int) (db : DB)
    (o : Option Bytes) (h : ∀ op, apiCallOf c.cmd o = some op → r op now db = r' op now db) :
    run c r now db o = run c r' now db o :=
  run_is_the_api_call c r r' now db o h

/-- the call named by `apiCallOf` is one of the methods the SOURCE of the command's `Run` calls -/
theorem api_call_is_a_source_call : ∀ (cmd : Cmd) (o : Option Bytes) (op : Op),
    apiCallOf cmd o = some op → opApi op ∈ callsOfTy cmd.goType := by
  intro cmd o op h
  cases cmd <;> simp only [apiCallOf] at h <;>
    first
    | (cases h; done)
    | (injection h with h; subst h; dsimp only [Cmd.goType, opApi]; decide)
    | (split at h <;> first
        | (cases h; done)
        | (injection h with h; subst h; dsimp only [Cmd.goType, opApi]; decide)
        | (split at h <;> first
            | (cases h; done)
            | (injection h with h; subst h; dsimp only [Cmd.goType, opApi]; decide)))

/-- documentation rows that name another method than the one called -/
def docErrata : List String := ["HKEYS", "HSCAN", "HVALS", "SCAN", "SSCAN", "SET"]

/-- rows of docs/commands/transactions.md: handled by the server's handler chain, not dispatched -/
def txnNames : List String := ["DISCARD", "EXEC", "MULTI"]

/-- **Every documented command calls its documented API method** (outside the errata). -/
theorem documented_api_is_called_partial :
    ∀ row ∈ Generated.docs, row.1 ∉ docErrata → row.1 ∉ txnNames → docRowOK row = true := by
  decide +kernel

/-- each erratum is real: the row exists and the documented method is not called -/
theorem doc_errata_deviate :
    ∀ n ∈ docErrata, ∃ row ∈ Generated.docs, row.1 = n ∧ docRowOK row = false := by
  decide +kernel

/-- the transaction commands are not in the dispatch table -/
theorem txn_names_not_dispatched : ∀ n ∈ txnNames, srcOfName n = none := by decide +kernel

/-- undocumented dispatched names -/
def undocumented : List String := ["command", "config", "info"]

/-- **Every dispatched command is documented** (outside three compatibility stubs). -/
theorem every_dispatched_name_is_documented_partial :
    ∀ d ∈ Generated.dispatch, d.1 ∉ undocumented →
      Generated.docs.any (fun r => String.ofList (r.1.toList.map Char.toLower) == d.1) = true := by
  decide +kernel

/-- every dispatch row leads to a command object with extracted source -/
theorem every_dispatch_row_has_source :
    ∀ d ∈ Generated.dispatch, (Generated.cmdSrcs.find? (fun s => s.fn == d.2.1)).isSome = true := by
  decide +kernel

/-- every struct type the model names exists in the source -/
theorem every_command_type_has_a_run :
    ∀ s ∈ Generated.cmdSrcs, (Generated.runCalls.find? (fun p => p.1 == s.ty)).isSome = true := by
  decide +kernel

/-! ### non-vacuity -/

example : apiCallOf (.lrem [107] (-2) [101]) none = some (.listDeleteBack [107] [101] 2) := by
  simp [apiCallOf, wrap64, minInt64]
example : apiCallOf (.set [107] [118] true false false 5 none false) none
    = some (.strSetWith [107] [118] { ifNotExists := true, ttl := 5 }) := by simp [apiCallOf]
example : apiCallOf (.ttl [107]) none = some (.keyGet [107]) ∧ apiCallOf (.ping []) none = none := ⟨rfl, rfl⟩

example : callsOfTy (Cmd.goType (.getSet [1] [2])) = ["Str.SetWith"] := by decide +kernel
example : callsOfTy (Cmd.goType (.set [1] [2] false false false 0 none false)) = ["Str.SetExpires", "Str.SetWith"] := by
  decide +kernel
example : callsOfTy (Cmd.goType (.ping [])) = [] := by decide +kernel
example : docRowOK ("LINSERT", "List.Insert*") = true := by decide +kernel
example : docRowOK ("HKEYS", "Hash.Keys") = false ∧ docRowOK ("HKEYS", "Hash.Fields") = true := by
  decide +kernel
/-- the hypothesis of the main theorem is not satisfiable by accident: two repositories that differ
on the one method GETSET calls give different replies -/
example :
    let c : ParsedCmd := { name := asciiBytes "getset", args := [[1], [2]], cmd := .getSet [1] [2] }
    let r : Runner := fun _ _ db => { out := .ok (.list [.nil, .bool true, .bool false]), db := db }
    let r' : Runner := fun _ _ db => { out := .ok (.list [.bytes [9], .bool false, .bool true]), db := db }
    (run c r 0 {} none).toks ≠ (run c r' 0 {} none).toks := by decide +kernel

end Redka.Props.C13api
