/-
  C01 — strings behave like a map from key to bytes.

  "For every sequence of string operations (set with any mix of conditional, expiry and
  keep-expiry options, get, multi-get, multi-set, integer and float increment) each call returns
  what a plain in-memory map from key to byte string would return, and afterwards every key holds
  exactly the bytes that map holds. An unconditional set replaces the value and clears the expiry
  unless asked to keep it; a conditional set acts only when its condition holds and reports
  created/updated/previous value truthfully; an increment reads the stored text as a number, fails
  without effect when it is not one, and stores the canonical text of the sum, which a following
  get returns."

  What is proved here. `Model.dbRun` is the statement-level model of the `DB`-level methods of
  `internal/rstring` over the six tables; `Spec.step` is the in-memory map; `Spec.abs now db` is
  the map a table state stands for at clock value `now` (only unexpired keys). `str_refines_partial`
  says that one call of any string operation on any table state satisfying the structural
  invariant C11 (`DB.Inv`), with any arguments and any clock value, returns what the map returns
  and leaves tables that stand for the map's new state — outside two narrow, decidable classes of
  inputs on which the real code (and therefore the model) is known to deviate:

    * `Stale` (known finding D05): the operation writes to a name whose stored key row has expired
      but has not been cleaned up yet;
    * `Overflow` (known finding D17): an integer increment whose exact sum does not fit in int64.

  Both deviations are shown to be real by concrete witnesses (`stale_incr_deviates`,
  `stale_othertype_deviates`, `overflow_deviates`), so the full-strength statement is false
  (`full_strength_is_false`).

  `str_seq_refines` lifts the single step to any sequence of string operations at non-decreasing
  clock values: every call of the sequence returns what the map returns and the final tables stand
  for the final map. It rests on `str_preserves_wf` (the string operations keep `DB.WF`, the
  consequence of the invariant that the proofs use) and on `Spec.abs_mono` (a later clock value
  only removes the keys that expired meanwhile). The remaining clauses of the property are stated
  one by one (`get_after_set`, `plain_set_clears_ttl`, `keepttl_preserves`, `incr_preserves_ttl`,
  `incr_roundtrip`, `incr_nonnumeric_fails`), and the conditional set as an explicit decision table
  on the model (`setcmd_matrix`).

  Scope notes.
    * Float increment is outside the numeric domain of both model and specification
      (`Model.tx` and `Spec.step` answer `outOfDomain`); it is excluded by `IsStrOp`.
    * The increment argument is a Go `int`. `Op.strIncr` carries an unbounded `Int`, so the
      theorem asks for `ArgsInRange`; without it the statement is false for a reason that has
      nothing to do with the code (`incr_arg_out_of_range`).
    * Results are compared with `=`. `Spec.outEq` cannot be used in a theorem: it is built from
      `partial def`s (`projVal`, `Val.beq`), which are opaque to the kernel. String results never
      contain key rows, on which alone `projVal` differs from the identity, so `=` is the stronger
      statement.

  Only property theorems and non-vacuity examples live here; the lemmas are in
  `RedkaModel/Proofs/Abs.lean` (tables against the abstraction, shared by all families) and
  `RedkaModel/Proofs/Str.lean`.
-/
import RedkaModel.Proofs.Float
import RedkaModel.Proofs.Round
import RedkaModel.Proofs.Str
import RedkaModel.Props.C17

namespace Redka.Props.C01

open Redka Redka.Model Redka.Spec

/-! ### the family and the classifiers of known deviations -/

/-- the operations of `DB.Str()`: all eight, float increment included (decided on the numeric
domain of `valueFloat` / `formatFloatDec`; outside it model and specification both say "not
decided" and change nothing) -/
def isStrOp : Op → Bool
  | .strGet _ | .strGetMany _ | .strSet .. | .strSetExpires .. | .strIncr .. | .strIncrFloat ..
  | .strSetMany _ | .strSetWith .. => true
  | _ => false

def IsStrOp (op : Op) : Prop := isStrOp op = true

instance (op : Op) : Decidable (IsStrOp op) := inferInstanceAs (Decidable (_ = true))

/-- D05, exactly as in `Spec.known`: some name the operation writes to is held by a stored row
whose expiry has passed -/
def Stale (op : Op) (now : Int) (db : DB) : Bool :=
  (Spec.writeKeys op).any (Spec.staleKey db now)

/-- D17, exactly as in `Spec.known`: the stored text is an integer and the exact sum does not fit
in int64 -/
def Overflow (op : Op) (now : Int) (db : DB) : Bool :=
  match op with
  | .strIncr k d =>
    (match Model.strGetRaw db k now with
     | some v => (match valueInt v with
       | some n => !inInt64 (n + d)
       | none => false)
     | none => false)
  | _ => false

/-- the increment argument is a Go `int` -/
def ArgsInRange : Op → Bool
  | .strIncr _ d => inInt64 d
  | _ => true

/-- The two classifiers are the entries D05 and D17 of the catalogue of known findings that the
driver consults (`Spec.known`), for every string operation. -/
theorem classifiers_are_the_catalogue : ∀ (inTx : Bool) (op : Op) (now : Int) (db : DB), IsStrOp op →
    Spec.known inTx op now db
      = (if Stale op now db then ["D05"] else []) ++ (if Overflow op now db then ["D17"] else []) := by
  intro inTx op now db hop
  cases op <;> first | rfl | (cases hop; done) | skip
  case strIncr k d =>
    simp only [Spec.known, Stale, Overflow]
    congr 1
    split
    · rename_i v h1
      split
      · rename_i n h2; simp [h1, h2]
      · rename_i h2; simp [h1, h2]
    · rename_i h1; simp [h1]

/-! ### the refinement theorem -/

/-- The same under `DB.WF`, the consequence of the invariant that the proof uses (unique names and
ids, type tags in range, a value row for every string key) and that every string operation
preserves (`str_preserves_wf`). -/
theorem str_refines_wf : ∀ (op : Op) (now : Int) (db : DB),
    IsStrOp op → db.WF → ArgsInRange op = true → Stale op now db = false →
    Overflow op now db = false →
    let r := Model.dbRun op now db
    r.out = (Spec.step op now (Spec.abs now db)).out ∧
      Spec.abs now r.db = Spec.purge now (Spec.step op now (Spec.abs now db)).st := by
  intro op now db hop hw harg hst hov
  cases op <;> first | (cases hop; done) | skip
  case strGet k => exact strGet_refines hw now k
  case strGetMany ks => exact strGetMany_refines hw now ks
  case strSet k v =>
    have hns : staleKey db now k = false := by simpa [Stale, writeKeys] using hst
    exact strSet_refines hw hns v none
  case strSetExpires k v ttl =>
    have hns : staleKey db now k = false := by simpa [Stale, writeKeys] using hst
    exact strSet_refines hw hns v _
  case strIncr k d =>
    have hns : staleKey db now k = false := by simpa [Stale, writeKeys] using hst
    refine strIncr_refines hw hns d harg ?_
    intro b n hb hn
    simpa [Overflow, hb, hn] using hov
  case strIncrFloat k d =>
    have hns : staleKey db now k = false := by simpa [Stale, writeKeys] using hst
    exact strIncrFloat_refines hw hns d
  case strSetMany items =>
    have hns : ∀ p ∈ items, staleKey db now p.1 = false := by
      intro p hp
      simp only [Stale, writeKeys, List.any_map, List.any_eq_false] at hst
      simpa using hst p hp
    exact strSetMany_refines hw hns
  case strSetWith k v o =>
    have hns : staleKey db now k = false := by simpa [Stale, writeKeys] using hst
    exact strSetWith_refines hw hns v o

/-- **C01, partial refinement.** One call of any string operation, on any table state satisfying
the structural invariant, for any arguments and any clock value, outside the classes `Stale`
(D05) and `Overflow` (D17): the model returns exactly what the in-memory map returns, and the
tables afterwards stand for exactly the map's new state (minus the keys whose newly assigned
expiry is already in the past).

All seven operations are covered, multi-set for any number of items in the given order (Go
iterates its map argument in an unspecified order; the driver tries every order) and multi-get
for any list of names.

The full-strength statement (without `Stale`, `Overflow`) is FALSE of the code: see
`stale_incr_deviates`, `stale_othertype_deviates`, `overflow_deviates`. -/
theorem str_refines_partial : ∀ (op : Op) (now : Int) (db : DB),
    IsStrOp op → db.Inv → ArgsInRange op = true → Stale op now db = false →
    Overflow op now db = false →
    let r := Model.dbRun op now db
    r.out = (Spec.step op now (Spec.abs now db)).out ∧
      Spec.abs now r.db = Spec.purge now (Spec.step op now (Spec.abs now db)).st :=
  fun op now db hop hinv => str_refines_wf op now db hop (DB.Inv.wf hinv)

/-! ### sequences of operations -/

/-- Every string operation keeps `DB.WF` (for every state and argument, deviation classes
included). -/
theorem str_preserves_wf : ∀ (op : Op) (now : Int) (db : DB), IsStrOp op → db.WF →
    (Model.dbRun op now db).db.WF := by
  intro op now db hop hw
  cases op <;> first | (cases hop; done) | skip
  case strGet k =>
    show (Model.strGet db k now).db.WF
    unfold Model.strGet; split <;> exact hw
  case strGetMany ks => exact hw
  case strSet k v => exact update_wf hw (strSet_wf hw k v none now)
  case strSetExpires k v ttl => exact update_wf hw (strSet_wf hw k v _ now)
  case strIncr k d => exact update_wf hw (strIncr_wf hw k d now)
  case strIncrFloat k d => exact update_wf hw (strIncrFloat_wf hw k d now)
  case strSetMany items => exact update_wf hw (strSetMany_wf now items db hw)
  case strSetWith k v o => exact update_wf hw (strSetWith_wf hw k v o now)

/-- a run of timed calls on the tables: the results, and the tables at the end -/
def runModel : List (Op × Int) → DB → List Out × DB
  | [], db => ([], db)
  | (op, now) :: rest, db =>
    let r := Model.dbRun op now db
    let t := runModel rest r.db
    (r.out :: t.1, t.2)

/-- the same run on the in-memory map; a key disappears when the clock reaches its expiry -/
def runSpec : List (Op × Int) → State → List Out × State
  | [], s => ([], s)
  | (op, now) :: rest, s =>
    let r := Spec.step op now (Spec.purge now s)
    let t := runSpec rest (Spec.purge now r.st)
    (r.out :: t.1, t.2)

/-- no call of the run falls into a known deviation class, judged on the tables it meets -/
def CleanRun : List (Op × Int) → DB → Prop
  | [], _ => True
  | (op, now) :: rest, db =>
    IsStrOp op ∧ ArgsInRange op = true ∧ Stale op now db = false ∧ Overflow op now db = false ∧
      CleanRun rest (Model.dbRun op now db).db

/-- the clock does not run backwards -/
def ClockOk : Int → List (Op × Int) → Prop
  | _, [] => True
  | t, (_, now) :: rest => t ≤ now ∧ ClockOk now rest

def lastClock : Int → List (Op × Int) → Int
  | t, [] => t
  | _, (_, now) :: rest => lastClock now rest

/-- **C01 for sequences.** Any sequence of string operations at non-decreasing clock values,
started on tables satisfying the invariant and never meeting a known deviation class: every call
returns what the in-memory map returns, and at the end the tables stand for exactly the map. -/
theorem str_seq_refines : ∀ (tr : List (Op × Int)) (t : Int) (db : DB), db.WF → ClockOk t tr →
    CleanRun tr db →
    (runModel tr db).1 = (runSpec tr (Spec.abs t db)).1 ∧
      Spec.abs (lastClock t tr) (runModel tr db).2 = (runSpec tr (Spec.abs t db)).2
  | [], _, _, _, _, _ => ⟨rfl, rfl⟩
  | (op, now) :: rest, t, db, hw, hc, hcl => by
    obtain ⟨hop, harg, hst, hov, hrest⟩ := hcl
    obtain ⟨href1, href2⟩ := str_refines_wf op now db hop hw harg hst hov
    have ih := str_seq_refines rest now (Model.dbRun op now db).db
      (str_preserves_wf op now db hop hw) hc.2 hrest
    simp only [runModel, runSpec, lastClock]
    rw [← abs_mono hw.names hc.1, ← href1, ← href2]
    exact ⟨by rw [ih.1], ih.2⟩

/-- … in particular from any state satisfying the C11 invariant. -/
theorem str_seq_refines_inv : ∀ (tr : List (Op × Int)) (t : Int) (db : DB), db.Inv → ClockOk t tr →
    CleanRun tr db →
    (runModel tr db).1 = (runSpec tr (Spec.abs t db)).1 ∧
      Spec.abs (lastClock t tr) (runModel tr db).2 = (runSpec tr (Spec.abs t db)).2 :=
  fun tr t db hinv => str_seq_refines tr t db (DB.Inv.wf hinv)

/-! ### the property, clause by clause -/

/-- the name is not held — visibly or as an expired leftover — by a key of another type -/
def NoOtherType (db : DB) (k : Bytes) : Prop := ∀ r, db.findKey k = some r → r.ty = TString

/-- "…which a following get returns": a value that was set is the value read, byte for byte.
(No staleness condition: a plain set revives an expired string row correctly.) -/
theorem get_after_set : ∀ (k v : Bytes) (now : Int) (db : DB), db.Inv → NoOtherType db k →
    (Model.dbRun (.strGet k) now (Model.dbRun (.strSet k v) now db).db).out = .ok (.bytes v) := by
  intro k v now db hinv hno
  obtain ⟨db2, hu, hw2, ha⟩ := set_result (DB.Inv.wf hinv) hno v none now
  have hg : Spec.get (Spec.abs now db2) k = some ⟨.str v, none⟩ := by
    rw [ha, get_purge ((sorted_abs (DB.Inv.wf hinv).names now).put k _), get_put]
    simp [liveAt]
  show (Model.strGet (update (fun d => Model.strSet d k v none now) db).db k now).out = _
  rw [hu]
  simp [Model.strGet, strGetRaw_of_get hw2 hg, Res.ok]

/-- "An unconditional set replaces the value and clears the expiry": whatever was stored under
the name, with or without a time to live, afterwards the key holds `v` and never expires. -/
theorem plain_set_clears_ttl : ∀ (k v : Bytes) (now : Int) (db : DB), db.Inv → NoOtherType db k →
    Spec.get (Spec.abs now (Model.dbRun (.strSet k v) now db).db) k = some ⟨.str v, none⟩ := by
  intro k v now db hinv hno
  obtain ⟨db2, hu, _, ha⟩ := set_result (DB.Inv.wf hinv) hno v none now
  show Spec.get (Spec.abs now (update (fun d => Model.strSet d k v none now) db).db) k = _
  rw [hu, ha, get_purge ((sorted_abs (DB.Inv.wf hinv).names now).put k _), get_put]
  simp [liveAt]

/-- "…unless asked to keep it": a set with `KeepTTL()` (and no `IfNotExists()`) on a visible
string replaces the bytes and leaves the expiry as it was. -/
theorem keepttl_preserves : ∀ (k v b : Bytes) (et : Option Int) (o : SetOpts) (now : Int) (db : DB),
    db.Inv → o.keepTTL = true → o.ifNotExists = false →
    Spec.get (Spec.abs now db) k = some ⟨.str b, et⟩ →
    Spec.get (Spec.abs now (Model.dbRun (.strSetWith k v o) now db).db) k = some ⟨.str v, et⟩ := by
  intro k v b et o now db hinv hk hnx hg
  have hw := DB.Inv.wf hinv
  obtain ⟨hlive, hns⟩ := get_abs_live hw hg
  have hlive : liveAt now et = true := hlive
  have ht := strSetWith_table hw hns v o
  simp only [hg, hnx, hk, Bool.false_eq_true, if_false, if_true] at ht
  show Spec.get (Spec.abs now (update (fun x => Model.strSetWith x k v o now) db).db) k = _
  rw [ht.2, get_purge ((sorted_abs hw.names now).put k _), get_put]
  simp [hlive]

/-- An increment of a visible numeric string, within range, returns the sum, stores its canonical
text and leaves the expiry as it was. -/
theorem incr_preserves_ttl : ∀ (k b : Bytes) (et : Option Int) (n d : Int) (now : Int) (db : DB),
    db.Inv → Spec.get (Spec.abs now db) k = some ⟨.str b, et⟩ → valueInt b = some n →
    inInt64 d = true → inInt64 (n + d) = true →
    (Model.dbRun (.strIncr k d) now db).out = .ok (.int (n + d)) ∧
    Spec.get (Spec.abs now (Model.dbRun (.strIncr k d) now db).db) k
      = some ⟨.str (itoa (n + d)), et⟩ := by
  intro k b et n d now db hinv hg hn hd hnd
  have hw := DB.Inv.wf hinv
  obtain ⟨hlive, hns⟩ := get_abs_live hw hg
  have hlive : liveAt now et = true := hlive
  have hraw := strGetRaw_of_get hw hg
  have href := str_refines_partial (.strIncr k d) now db rfl hinv hd
    (by simpa [Stale, writeKeys] using hns) (by simp [Overflow, hraw, hn, hnd])
  simp only [Spec.step, Spec.strIncr, hg, hn, Spec.ok] at href
  refine ⟨href.1, ?_⟩
  rw [href.2, get_purge ((sorted_abs hw.names now).put k _), get_put]
  simp [hlive]

/-- "…stores the canonical text of the sum, which a following get returns": whenever an increment
succeeds with result `m`, a following get returns the decimal text of `m`, and that text reads
back as `m`. (Holds with and without overflow; not for a stale name, see `stale_incr_deviates`.) -/
theorem incr_roundtrip : ∀ (k : Bytes) (d m : Int) (now : Int) (db : DB), db.Inv →
    Spec.staleKey db now k = false →
    (Model.dbRun (.strIncr k d) now db).out = .ok (.int m) →
    (Model.dbRun (.strGet k) now (Model.dbRun (.strIncr k d) now db).db).out = .ok (.bytes (itoa m)) ∧
    valueInt (itoa m) = some m := by
  intro k d m now db hinv hns hout
  obtain ⟨hraw, hrange⟩ := strIncr_ok (DB.Inv.wf hinv) hns hout
  refine ⟨?_, ?_⟩
  · show (Model.strGet (update (fun x => Model.strIncr x k d now) db).db k now).out = _
    simp [Model.strGet, hraw, Res.ok]
  · simp only [inInt64, Bool.and_eq_true] at hrange
    exact Redka.Props.C17.valueInt_itoa m (of_decide_eq_true hrange.1) (of_decide_eq_true hrange.2)

/-- "…fails without effect when it is not one": on a visible string that is not the text of an
integer the increment reports a value-type error and the tables are untouched. -/
theorem incr_nonnumeric_fails : ∀ (k b : Bytes) (et : Option Int) (d : Int) (now : Int) (db : DB),
    db.Inv → Spec.get (Spec.abs now db) k = some ⟨.str b, et⟩ → valueInt b = none →
    (Model.dbRun (.strIncr k d) now db).out = .error .valueType ∧
    (Model.dbRun (.strIncr k d) now db).db = db := by
  intro k b et d now db hinv hg hn
  have hraw := strGetRaw_of_get (DB.Inv.wf hinv) hg
  have hout : (Model.dbRun (.strIncr k d) now db).out = .error .valueType := by
    show (update (fun x => Model.strIncr x k d now) db).out = _
    simp [update, Model.strIncr, hraw, hn, Res.err]
  exact ⟨hout, update_error_db hout⟩

/-- A value-type error leaves no trace in the tables, whatever the state. -/
theorem incr_nonnumeric_notrace : ∀ (k : Bytes) (d : Int) (now : Int) (db : DB),
    (Model.dbRun (.strIncr k d) now db).out = .error .valueType →
    (Model.dbRun (.strIncr k d) now db).db = db :=
  fun _ _ _ _ h => update_error_db h

/-! ### float increment -/

/-- "an increment reads the stored text as a number": the number `parseFloatDec` reads from a
decimal text is the float64 NEAREST to the rational the text denotes, ties to even — what
`strconv.ParseFloat` documents. (`parseFloatDec` hands the rational `n · 10^e' ` to `ratRound53` as
`p / q`; `numAt p t / denAt q t` is `p · 2^t / q`.) For every positive rational. -/
theorem float_parse_correctly_rounded : ∀ (p q : Nat), 0 < p → 0 < q → ∀ x : Dyadic,
    ratRound53 p q = some x →
    ∃ (m : Nat) (t : Int), x = Dyadic.ofIntWithPrec (m : Int) t ∧ 2 ^ 52 ≤ m ∧ m ≤ 2 ^ 53 ∧
      2 * ((Round.numAt p t : Int) - (m : Int) * Round.denAt q t).natAbs ≤ Round.denAt q t ∧
      (2 * ((Round.numAt p t : Int) - (m : Int) * Round.denAt q t).natAbs = Round.denAt q t → m % 2 = 0) :=
  fun p q hp hq x h => Round.ratRound53_nearest p q hp hq x h

/-- "…and stores the canonical text of the sum": the float64 sum `f64add x d = round53 (x + d)` is the
exact sum rounded to the nearest float64, ties to even (IEEE 754 addition), for every dyadic sum. -/
theorem float_sum_correctly_rounded : ∀ (n k : Int) (hn : n % 2 = 1),
    (natBits n.natAbs ≤ 53 → round53 (.ofOdd n k hn) = .ofOdd n k hn) ∧
    (53 < natBits n.natAbs →
      ∃ (m sh : Nat), sh = natBits n.natAbs - 53 ∧
        round53 (.ofOdd n k hn) = Dyadic.ofIntWithPrec (if n < 0 then -(m : Int) else (m : Int)) (k - sh) ∧
        2 ^ 52 ≤ m ∧ m ≤ 2 ^ 53 ∧
        2 * ((n.natAbs : Int) - (m : Int) * (2 ^ sh : Nat)).natAbs ≤ 2 ^ sh ∧
        (2 * ((n.natAbs : Int) - (m : Int) * (2 ^ sh : Nat)).natAbs = 2 ^ sh → m % 2 = 0)) :=
  Round.round53_nearest

/-- non-vacuity: 1/10 rounds to 3602879701896397 / 2^55 (the double written 0.1), 1/3 to an odd multiple -/
example : ratRound53 1 10 = some (Dyadic.ofIntWithPrec 3602879701896397 55) := by decide +kernel
example : (ratRound53 1 3).isSome = true ∧ ratRound53 1 (10 ^ 400) = none := by decide +kernel

/-- the text `formatFloatDec` prints is never empty and reads back (through `core.Value.Float`) as
the number printed -/
theorem valueFloat_format {v : Dyadic} {txt : Bytes} (h : formatFloatDec v = some txt) :
    valueFloat txt = .val v := by
  have hp := Redka.Float.parse_format v txt h
  unfold valueFloat
  cases txt with
  | nil =>
    have h0 : parseFloatDec [] = .invalid := by decide
    rw [h0] at hp; cases hp
  | cons c t => simpa using hp

/-- "…stores the canonical text of the sum, which a following get returns", for the float
increment: whenever `IncrFloat` succeeds with result `v` (on a name that is not stale), the key
then holds the decimal text of `v`, that text reads back as exactly `v` (so the next float
increment starts from the sum), and the expiry is what it was. -/
theorem incrfloat_roundtrip : ∀ (k : Bytes) (d v : Dyadic) (now : Int) (db : DB), db.Inv →
    Spec.staleKey db now k = false →
    (Model.dbRun (.strIncrFloat k d) now db).out = .ok (.score (.fin v)) →
    ∃ txt, formatFloatDec v = some txt ∧ valueFloat txt = .val v ∧
      (Spec.get (Spec.abs now (Model.dbRun (.strIncrFloat k d) now db).db) k).map (·.val) = some (.str txt) ∧
      (Spec.get (Spec.abs now (Model.dbRun (.strIncrFloat k d) now db).db) k).map (·.etime)
        = some ((Spec.get (Spec.abs now db) k).bind (·.etime)) := by
  intro k d v now db hinv hns hout
  have hw := DB.Inv.wf hinv
  have href := str_refines_partial (.strIncrFloat k d) now db rfl hinv rfl
    (by simpa [Stale, writeKeys] using hns) rfl
  simp only [Spec.step] at href
  rw [hout] at href
  obtain ⟨ho, hst⟩ := href
  have hs := sorted_abs hw.names now
  cases hg : Spec.get (Spec.abs now db) k with
  | none =>
    simp only [Spec.strIncrFloat, hg] at ho hst
    cases hf : formatFloatDec (f64add .zero d) with
    | none => simp only [hf, Spec.skip] at ho; cases ho
    | some txt =>
      simp only [hf, Spec.ok] at ho hst
      have hv : v = f64add .zero d := by
        have := ho
        simp only [Except.ok.injEq, Val.score.injEq, Score.fin.injEq] at this
        exact this
      subst hv
      refine ⟨txt, hf, valueFloat_format hf, ?_, ?_⟩
      · rw [hst, get_purge (hs.put k _), get_put]; simp [liveAt]
      · rw [hst, get_purge (hs.put k _), get_put]; simp [liveAt]
  | some e =>
    obtain ⟨val, et⟩ := e
    obtain ⟨hlive, _⟩ := get_abs_live hw hg
    have hlive : liveAt now et = true := hlive
    cases val with
    | str b =>
      simp only [Spec.strIncrFloat, hg] at ho hst
      cases hvf : valueFloat b with
      | invalid => simp [hvf, Spec.er] at ho
      | unknown => simp [hvf, Spec.skip] at ho
      | val x =>
        simp only [hvf] at ho hst
        cases hf : formatFloatDec (f64add x d) with
        | none => simp [hf, Spec.skip] at ho
        | some txt =>
          simp only [hf, Spec.ok] at ho hst
          have hv : v = f64add x d := by
            have := ho
            simp only [Except.ok.injEq, Val.score.injEq, Score.fin.injEq] at this
            exact this
          subst hv
          refine ⟨txt, hf, valueFloat_format hf, ?_, ?_⟩
          · rw [hst, get_purge (hs.put k _), get_put]; simp [hlive]
          · rw [hst, get_purge (hs.put k _), get_put]; simp [hlive]
    | list _ => simp [Spec.strIncrFloat, hg, Spec.er] at ho
    | set _ => simp [Spec.strIncrFloat, hg, Spec.er] at ho
    | hash _ => simp [Spec.strIncrFloat, hg, Spec.er] at ho
    | zset _ => simp [Spec.strIncrFloat, hg, Spec.er] at ho

/-- "…fails without effect when it is not one", for the float increment: a value-type error
leaves no trace in the tables, whatever the state. -/
theorem incrfloat_nonnumeric_notrace : ∀ (k : Bytes) (d : Dyadic) (now : Int) (db : DB),
    (Model.dbRun (.strIncrFloat k d) now db).out = .error .valueType →
    (Model.dbRun (.strIncrFloat k d) now db).db = db :=
  fun _ _ _ _ h => update_error_db h

def outScore : Out → Option Score
  | .ok (.score s) => some s
  | _ => none

/-- non-vacuity: "1.5" + 0.25 on a live key stores "1.75" and returns 1.75 -/
example :
    let db : DB := { keys := [⟨1, [107], 1, 1, none, 5, none⟩], strs := [⟨1, [49, 46, 53]⟩] }
    outScore (Model.dbRun (.strIncrFloat [107] (Dyadic.ofIntWithPrec 1 2)) 10 db).out
        = some (.fin (Dyadic.ofIntWithPrec 7 2)) ∧
      Model.strGetRaw (Model.dbRun (.strIncrFloat [107] (Dyadic.ofIntWithPrec 1 2)) 10 db).db [107] 10
        = some [49, 46, 55, 53] := by
  decide +kernel

/-! ### the decision table of the conditional set -/

/-- **The decision logic of `SetCmd.run` (`internal/rstring/set.go`), stated outright on the
model**, for every option record (`IfExists`, `IfNotExists`, `TTL`, `At`, `KeepTTL` in any
combination, also the ones the builder methods cannot produce), every key, value, clock value and
table state satisfying the invariant, the name not being a stale leftover (D05).

Read `r.out = .ok (.list [prev, created, updated])` as `SetOut{Prev, Created, Updated}`;
`r.db = db` says that no table row changed; the last line of a branch gives the keyspace the
tables stand for afterwards: the old one with `k ↦ (v, expiry)`, the key being gone at once when
that expiry is not in the future (`purge`).

  * the key does not exist: `IfExists` → nothing happens, `(nil, false, false)`; otherwise it is
    created, `(nil, true, false)`, expiring at `now + ttl` if `ttl > 0`, else at `At` if given,
    else never — and never with `KeepTTL` (there is no expiry to keep);
  * the key is a string `prev`: `IfNotExists` → nothing happens, `(prev, false, false)`; otherwise
    it is overwritten, `(prev, false, true)`, with the new expiry as above, or its old expiry
    with `KeepTTL`;
  * the key is of another type: `IfExists` → nothing happens, `(nil, false, false)` (for the
    command "the key exists" means "a string exists"); otherwise `ErrKeyType`, nothing happens. -/
theorem setcmd_matrix : ∀ (o : SetOpts) (k v : Bytes) (now : Int) (db : DB), db.Inv →
    Spec.staleKey db now k = false →
    let r := Model.dbRun (.strSetWith k v o) now db
    let newExpiry : Option Int := if o.ttl > 0 then some (now + o.ttl) else o.atMs
    let s := Spec.abs now db
    match Spec.get s k with
    | none =>
      if o.ifExists then r.out = .ok (.list [.nil, .bool false, .bool false]) ∧ r.db = db
      else r.out = .ok (.list [.nil, .bool true, .bool false]) ∧
        Spec.abs now r.db
          = Spec.purge now (Spec.put s k ⟨.str v, if o.keepTTL then none else newExpiry⟩)
    | some ⟨.str prev, oldExpiry⟩ =>
      if o.ifNotExists then r.out = .ok (.list [.bytes prev, .bool false, .bool false]) ∧ r.db = db
      else r.out = .ok (.list [.bytes prev, .bool false, .bool true]) ∧
        Spec.abs now r.db
          = Spec.purge now (Spec.put s k ⟨.str v, if o.keepTTL then oldExpiry else newExpiry⟩)
    | some _ =>
      if o.ifExists then r.out = .ok (.list [.nil, .bool false, .bool false]) ∧ r.db = db
      else r.out = .error .keyType ∧ r.db = db :=
  fun o _ v _ _ hinv hns => strSetWith_table (DB.Inv.wf hinv) hns v o

/-! ### the deviations are real -/

def bK : Bytes := [107]          -- "k"
def bV : Bytes := [118]          -- "v"

/-- one string key "k" = "5" whose expiry (5) has passed at `now = 10`, not yet cleaned up -/
def dbStaleStr : DB :=
  { keys := [{ id := 1, key := bK, ty := 1, version := 1, etime := some 5, mtime := 0, len := none }],
    strs := [{ kid := 1, value := [53] }] }

/-- one list key "k" = ["a"] whose expiry has passed, not yet cleaned up -/
def dbStaleList : DB :=
  { keys := [{ id := 1, key := bK, ty := 2, version := 1, etime := some 5, mtime := 0, len := some 1 }],
    lists := [{ kid := 1, pos := 0, elem := [97] }] }

/-- one string key "k" = "9223372036854775807" -/
def dbMaxInt : DB :=
  { keys := [{ id := 1, key := bK, ty := 1, version := 1, etime := none, mtime := 0, len := none }],
    strs := [{ kid := 1, value := [57,50,50,51,51,55,50,48,51,54,56,53,52,55,55,53,56,48,55] }] }

def outInt : Out → Option Int
  | .ok (.int m) => some m
  | _ => none

theorem out_of_outInt {o : Out} {m : Int} (h : outInt o = some m) : o = .ok (.int m) := by
  cases o with
  | error e => simp [outInt] at h
  | ok v => cases v <;> simp_all [outInt]

/-- D05 is real (increment). The key "k" expired at 5; at 10 it does not exist, so an increment
by 1 must create "k" = "1" without expiry. The model (like the code) answers 1 but reuses the
expired row and keeps its old expiry: the key still does not exist afterwards. -/
theorem stale_incr_deviates :
    dbStaleStr.Inv ∧ Stale (.strIncr bK 1) 10 dbStaleStr = true ∧
    Overflow (.strIncr bK 1) 10 dbStaleStr = false ∧
    (Model.dbRun (.strIncr bK 1) 10 dbStaleStr).out = .ok (.int 1) ∧
    Spec.get (Spec.abs 10 (Model.dbRun (.strIncr bK 1) 10 dbStaleStr).db) bK = none ∧
    Spec.get (Spec.purge 10 (Spec.step (.strIncr bK 1) 10 (Spec.abs 10 dbStaleStr)).st) bK
      = some ⟨.str [49], none⟩ := by
  refine ⟨by unfold DB.Inv; decide, by decide, by decide, by rfl, by decide, by decide +kernel⟩

/-- D05 is real (other type). The list "k" expired at 5; at 10 the name is free, so a set must
succeed. The model (like the code) runs into the expired list row and answers `ErrKeyType`. -/
theorem stale_othertype_deviates :
    dbStaleList.Inv ∧ Stale (.strSet bK bV) 10 dbStaleList = true ∧
    (Model.dbRun (.strSet bK bV) 10 dbStaleList).out = .error .keyType ∧
    (Spec.step (.strSet bK bV) 10 (Spec.abs 10 dbStaleList)).out = .ok .nil := by
  refine ⟨by unfold DB.Inv; decide, by decide, by rfl, by rfl⟩

/-- D17 is real. 9223372036854775807 + 1: the map answers 9223372036854775808, the model (like
Go's `int` addition) wraps around to -9223372036854775808. -/
theorem overflow_deviates :
    dbMaxInt.Inv ∧ Stale (.strIncr bK 1) 10 dbMaxInt = false ∧
    Overflow (.strIncr bK 1) 10 dbMaxInt = true ∧
    (Model.dbRun (.strIncr bK 1) 10 dbMaxInt).out = .ok (.int (-9223372036854775808)) ∧
    (Spec.step (.strIncr bK 1) 10 (Spec.abs 10 dbMaxInt)).out = .ok (.int 9223372036854775808) := by
  refine ⟨by unfold DB.Inv; decide, by decide, by decide +kernel,
    out_of_outInt (by decide +kernel), out_of_outInt (by decide +kernel)⟩

/-- Hence the refinement statement without the two classifiers is false. -/
theorem full_strength_is_false :
    ¬ (∀ (op : Op) (now : Int) (db : DB), IsStrOp op → db.Inv → ArgsInRange op = true →
        (Model.dbRun op now db).out = (Spec.step op now (Spec.abs now db)).out ∧
        Spec.abs now (Model.dbRun op now db).db
          = Spec.purge now (Spec.step op now (Spec.abs now db)).st) := by
  intro h
  have h1 := (h (.strSet bK bV) 10 dbStaleList rfl stale_othertype_deviates.1 rfl).1
  rw [stale_othertype_deviates.2.2.1, stale_othertype_deviates.2.2.2] at h1
  cases h1

/-- `ArgsInRange` is needed only because `Op.strIncr` carries an unbounded integer where Go has
an `int`: an "increment by 2^63" of a missing key wraps in the model. -/
theorem incr_arg_out_of_range :
    ArgsInRange (.strIncr bK 9223372036854775808) = false ∧
    (Model.dbRun (.strIncr bK 9223372036854775808) 10 {}).out = .ok (.int (-9223372036854775808)) ∧
    (Spec.step (.strIncr bK 9223372036854775808) 10 (Spec.abs 10 {})).out
      = .ok (.int 9223372036854775808) := by
  refine ⟨by decide, out_of_outInt (by decide +kernel), out_of_outInt (by decide +kernel)⟩

/-! ### non-vacuity: the hypotheses are satisfiable for every kind of operation -/

def bA : Bytes := [97]           -- "a"
def bB : Bytes := [98]           -- "b"
def bL : Bytes := [108]          -- "l"
def bN : Bytes := [110]          -- "n", not stored

/-- a live string "a" = "41", a live string "b" = "x" that expires at 100, a list "l" = ["e"] -/
def demo : DB :=
  { keys := [
      { id := 1, key := bA, ty := 1, version := 1, etime := none, mtime := 0, len := none },
      { id := 2, key := bB, ty := 1, version := 3, etime := some 100, mtime := 0, len := none },
      { id := 3, key := bL, ty := 2, version := 1, etime := none, mtime := 0, len := some 1 }],
    strs := [{ kid := 1, value := [52, 49] }, { kid := 2, value := [120] }],
    lists := [{ kid := 3, pos := 0, elem := [101] }] }

example : demo.Inv := by unfold DB.Inv; decide

/-- every hypothesis of `str_refines_partial` holds for an operation of each kind on `demo` -/
example : ∀ op ∈ [Op.strGet bA, .strGet bL, .strGetMany [bA, bB, bL, bN], .strSet bA bV,
      .strSet bL bV, .strSetExpires bN bV 50, .strIncr bA 1, .strIncr bB 1, .strIncr bN (-7),
      .strSetMany [(bA, bV), (bN, bV), (bA, bB)], .strSetMany [(bN, bV), (bL, bV)],
      .strSetWith bB bV { keepTTL := true }, .strSetWith bN bV { ifExists := true },
      .strSetWith bA bV { ifNotExists := true, ttl := 5 }, .strSetWith bL bV { atMs := some 3 }],
    IsStrOp op ∧ ArgsInRange op = true ∧ Stale op 10 demo = false ∧ Overflow op 10 demo = false := by
  decide +kernel

/-- the theorem instantiated: the increment of "a" = "41" on `demo` -/
example :
    (Model.dbRun (.strIncr bA 1) 10 demo).out = .ok (.int 42) ∧
    Spec.get (Spec.abs 10 (Model.dbRun (.strIncr bA 1) 10 demo).db) bA = some ⟨.str [52, 50], none⟩ :=
  incr_preserves_ttl bA [52, 49] none 41 1 10 demo (by unfold DB.Inv; decide) (by decide) (by decide)
    (by decide) (by decide) |> fun h => ⟨h.1, by rw [h.2]; decide +kernel⟩

/-- the table instantiated: `Set("b", "v").KeepTTL()` keeps the expiry 100 of "b" -/
example :
    Spec.get (Spec.abs 10 (Model.dbRun (.strSetWith bB bV { keepTTL := true }) 10 demo).db) bB
      = some ⟨.str bV, some 100⟩ :=
  keepttl_preserves bB bV [120] (some 100) { keepTTL := true } 10 demo (by unfold DB.Inv; decide)
    rfl rfl (by decide)

/-- a run on `demo` that satisfies the hypotheses of `str_seq_refines`: set, increment twice with
the clock advancing, conditional set, multi-get -/
def demoRun : List (Op × Int) :=
  [(.strSet bN [55], 10), (.strIncr bN 1, 11), (.strIncr bA (-1), 11),
   (.strSetWith bB bV { keepTTL := true }, 12), (.strGetMany [bA, bB, bN], 200)]

instance decCleanRun : ∀ tr db, Decidable (CleanRun tr db)
  | [], _ => isTrue trivial
  | (op, now) :: rest, db =>
    have := decCleanRun rest (Model.dbRun op now db).db
    inferInstanceAs (Decidable (_ ∧ _ ∧ _ ∧ _ ∧ _))

instance decClockOk : ∀ t tr, Decidable (ClockOk t tr)
  | _, [] => isTrue trivial
  | t, (_, now) :: rest =>
    have := decClockOk now rest
    inferInstanceAs (Decidable (t ≤ now ∧ ClockOk now rest))

example : ClockOk 10 demoRun ∧ CleanRun demoRun demo := by decide +kernel

/-- at 200 the key "b" (expiry 100) is gone; "n" went 7 → 8, "a" 41 → 40 -/
example : (runSpec demoRun (Spec.abs 10 demo)).2
    = [(bA, ⟨.str [52, 48], none⟩), (bL, ⟨.list [[101]], none⟩), (bN, ⟨.str [56], none⟩)] := by
  decide +kernel

end Redka.Props.C01
