/-
  C11, last clause: "the documented SQL views show exactly the live keys and elements that the API
  shows, in the same order".

  `Model.View.*` are the six views as functions of the six tables (Model/Views.lean, tied to the
  view definitions of schema.sql through `Tie.Schema` and validated against `select * from v…` on
  the real database, verdict `W`); `Spec.v…Rows` is what the API shows, computed from the abstract
  keyspace only. Each theorem: for every database satisfying the C11 audit and every clock value,
  the view (kid and mtime columns dropped) and the API enumeration are the same bag of rows —
  in particular a key whose expiry has been reached contributes no row to any view, whether or not
  the cleaner has removed it. Order: a view has no `order by`; the order the schema documents is
  the `idx` column of `vlist`, and `vlist_idx_is_the_api_index` says it is the API's index + 1.
-/
import RedkaModel.Proofs.Views

namespace Redka.Props.C11views

open Redka Redka.Spec Redka.DB Redka.Model Redka.Model.View

/-- **vkey**: one row per key that exists, with the type, element count and expiry the API reports. -/
theorem vkey_shows_exactly_the_live_keys (now : Int) (db : DB) (hi : db.Inv) :
    ((vkey now db).map (fun v => (v.key, v.ty, v.len, v.etime))).Perm (vkeyRows (abs now db)) := by
  have hw := Inv.wf hi
  unfold vkey vkeyRows
  rw [List.map_map]
  refine List.Perm.trans ?_ ((abs_perm hw now).map _).symm
  rw [List.map_map]
  apply List.Perm.of_eq
  apply List.map_congr_left
  intro r hr
  have hr' : r ∈ db.keys := (List.mem_filter.1 hr).1
  have h1 := entryOf_ty hw hr'
  have h2 := size_eq_len hi hr'
  simp only [Function.comp]
  rw [h1, h2]
  rfl

/-- with one value row per key id, the rows of a key id are that one row -/
theorem unique_str_row : ∀ (l : List StrRow), (l.map (·.kid)).Nodup → ∀ {s : StrRow} {id : Int},
    s ∈ l → s.kid = id →
    l.filter (fun x => x.kid == id) = [s] ∧ l.find? (fun x => x.kid == id) = some s
  | [], _, _, _, hs, _ => by cases hs
  | x :: xs, hnd, s, id, hs, hk => by
    rw [List.map_cons, List.nodup_cons] at hnd
    rw [List.filter_cons, List.find?_cons]
    rcases List.mem_cons.1 hs with rfl | hs'
    · have : xs.filter (fun y => y.kid == id) = [] := by
        rw [List.filter_eq_nil_iff]
        intro y hy hyk
        have : y.kid = s.kid := by rw [hk]; simpa using hyk
        exact hnd.1 (this ▸ List.mem_map_of_mem hy)
      simp [hk, this]
    · have hx : (x.kid == id) = false := by
        cases hxe : x.kid == id with
        | false => rfl
        | true =>
          have : x.kid = s.kid := by rw [hk]; simpa using hxe
          exact absurd (this ▸ List.mem_map_of_mem hs') hnd.1
      simp only [hx, Bool.false_eq_true, if_false]
      exact unique_str_row xs hnd.2 hs' hk

/-- **vstring**: exactly the live strings with their values. -/
theorem vstring_shows_exactly_the_live_strings (now : Int) (db : DB) (hi : db.Inv) :
    ((vstring now db).map (fun v => (v.key, v.value, v.etime))).Perm (vstringRows (abs now db)) := by
  have hw := Inv.wf hi
  unfold vstring vstringRows
  rw [List.map_flatMap]
  apply child_view_perm hw now TString
  · intro r hr hne
    have ht := entryOf_ty hw hr
    cases hv : (entryOf db r).2.val <;> simp_all [SVal.ty, TString]
  · intro r hr hty
    obtain ⟨s, hs, hk⟩ := hw.strRow r hr hty
    obtain ⟨hf, hfind⟩ := unique_str_row db.strs hw.strKids hs hk
    have hav : absVal db r = some (.str s.value) := by
      rw [absVal_str hty, hfind]; rfl
    rw [entryOf_eq hav, hf]
    rfl

/-- **vlist**: exactly the elements of the live lists, numbered from 1 in the API's order. -/
theorem vlist_shows_exactly_the_live_lists (now : Int) (db : DB) (hi : db.Inv) :
    ((vlist now db).map (fun v => (v.key, v.idx, v.elem, v.etime))).Perm (vlistRows (abs now db)) := by
  have hw := Inv.wf hi
  unfold vlist vlistRows
  rw [List.map_flatMap]
  apply child_view_perm hw now TList
  · intro r hr hne
    have ht := entryOf_ty hw hr
    cases hv : (entryOf db r).2.val <;> simp_all [SVal.ty, TList]
  · intro r _ hty
    rw [entryOf_list hty]
    simp only [numbered_map, List.map_map]
    rfl

/-- **vset**: exactly the members of the live sets. -/
theorem vset_shows_exactly_the_live_sets (now : Int) (db : DB) (hi : db.Inv) :
    ((vset now db).map (fun v => (v.key, v.elem, v.etime))).Perm (vsetRows (abs now db)) := by
  have hw := Inv.wf hi
  unfold vset vsetRows
  rw [List.map_flatMap]
  apply child_view_perm hw now TSet
  · intro r hr hne
    have ht := entryOf_ty hw hr
    cases hv : (entryOf db r).2.val <;> simp_all [SVal.ty, TSet]
  · intro r _ hty
    rw [entryOf_set hty]
    simp only [List.map_map]
    rfl

/-- **vhash**: exactly the field/value pairs of the live hashes. -/
theorem vhash_shows_exactly_the_live_hashes (now : Int) (db : DB) (hi : db.Inv) :
    ((vhash now db).map (fun v => (v.key, v.field, v.value, v.etime))).Perm (vhashRows (abs now db)) := by
  have hw := Inv.wf hi
  unfold vhash vhashRows
  rw [List.map_flatMap]
  apply child_view_perm hw now THash
  · intro r hr hne
    have ht := entryOf_ty hw hr
    cases hv : (entryOf db r).2.val <;> simp_all [SVal.ty, THash]
  · intro r _ hty
    rw [entryOf_hash hty]
    simp only [List.map_map]
    rfl

/-- **vzset**: exactly the member/score pairs of the live sorted sets. -/
theorem vzset_shows_exactly_the_live_zsets (now : Int) (db : DB) (hi : db.Inv) :
    ((vzset now db).map (fun v => (v.key, v.elem, v.score, v.etime))).Perm (vzsetRows (abs now db)) := by
  have hw := Inv.wf hi
  refine List.Perm.trans ?_
    (child_view_perm hw now TZSet
      (fun p => match p.2.val with
        | .zset m => m.map (fun x => (p.1, x.1, x.2, p.2.etime))
        | _ => [])
      (fun r => ((sortBy (fun (a b : ZRow) => bytesLt a.elem b.elem)
        (db.zsets.filter (fun z => z.kid == r.id))).map (fun x => (r.key, x.elem, x.score, r.etime)))) ?_ ?_)
  · unfold vzset
    rw [List.map_flatMap]
    -- per key the view walks the rows in table order, the API in member order: same bag
    generalize liveOfType now db TZSet = ks
    induction ks with
    | nil => exact List.Perm.refl _
    | cons r ks ih =>
      rw [List.flatMap_cons, List.flatMap_cons]
      refine List.Perm.append ?_ ih
      rw [List.map_map]
      exact ((Clean.perm_sortBy _ _).map _).symm
  · intro r hr hne
    have ht := entryOf_ty hw hr
    cases hv : (entryOf db r).2.val <;> simp_all [SVal.ty, TZSet]
  · intro r _ hty
    rw [entryOf_zset hty]
    simp only [List.map_map]
    rfl

/-! ### consequences -/

/-- a key whose expiry has been reached has no row in `vkey`, cleaned or not (C10 through the views) -/
theorem expired_key_not_in_vkey (now : Int) (db : DB) (r : KeyRow) (_hr : r ∈ db.keys)
    (hx : r.live now = false) (hn : (db.keys.map (·.key)).Nodup) :
    ∀ v ∈ vkey now db, v.key ≠ r.key := by
  intro v hv he
  unfold vkey at hv
  obtain ⟨r', hr', rfl⟩ := List.mem_map.1 hv
  obtain ⟨hm, hl⟩ := List.mem_filter.1 hr'
  have : r' = r := key_inj hn hm _hr he
  subst this
  rw [hx] at hl
  cases hl

/-- every row of `vkey` is a key the API sees, and the other way round -/
theorem vkey_names_are_the_keyspace (now : Int) (db : DB) (hi : db.Inv) (k : Bytes) :
    (∃ v ∈ vkey now db, v.key = k) ↔ (Spec.get (abs now db) k).isSome = true := by
  have hp := vkey_shows_exactly_the_live_keys now db hi
  have hs := sorted_abs (Inv.wf hi).names now
  constructor
  · rintro ⟨v, hv, rfl⟩
    have : (v.key, v.ty, v.len, v.etime) ∈ vkeyRows (abs now db) :=
      hp.mem_iff.1 (List.mem_map_of_mem (f := fun v : VKey => (v.key, v.ty, v.len, v.etime)) hv)
    obtain ⟨p, hpm, hpe⟩ := List.mem_map.1 this
    have hk : p.1 = v.key := by simpa using congrArg (·.1) hpe
    have : Spec.get (abs now db) p.1 = some p.2 := by
      unfold Spec.get
      exact (aget_eq_some_iff hs.nodup_keys p.1 p.2).2 hpm
    rw [← hk, this]; rfl
  · intro h
    cases hg : Spec.get (abs now db) k with
    | none => rw [hg] at h; cases h
    | some e =>
      have hm : (k, e) ∈ abs now db := (aget_eq_some_iff hs.nodup_keys k e).1 hg
      have : (k, e.val.ty, e.val.size, e.etime) ∈ vkeyRows (abs now db) :=
        List.mem_map.2 ⟨(k, e), hm, rfl⟩
      obtain ⟨v, hv, hve⟩ := List.mem_map.1 (hp.mem_iff.2 this)
      exact ⟨v, hv, by simpa using congrArg (·.1) hve⟩

/-- the rows of `numbered l` are exactly the (index + 1, element) pairs of `l` -/
theorem mem_numbered {α : Type} (l : List α) (i : Nat) (x : α) :
    (i, x) ∈ numbered l ↔ 1 ≤ i ∧ l[i - 1]? = some x := by
  unfold numbered
  constructor
  · intro h
    obtain ⟨n, hn⟩ := List.getElem_of_mem h
    obtain ⟨hlt, he⟩ := hn
    simp only [List.getElem_zip, List.getElem_map, List.getElem_range, Prod.mk.injEq] at he
    obtain ⟨rfl, rfl⟩ := he
    simp only [List.length_zip, List.length_map, List.length_range, Nat.min_self] at hlt
    refine ⟨by omega, ?_⟩
    simp [hlt]
  · rintro ⟨h1, h2⟩
    obtain ⟨hlt, he⟩ := List.getElem?_eq_some_iff.1 h2
    apply List.mem_iff_getElem.2
    refine ⟨i - 1, by simp; omega, ?_⟩
    simp only [List.getElem_zip, List.getElem_map, List.getElem_range, Prod.mk.injEq]
    exact ⟨by omega, he⟩

/-- **order**: the `idx` column of `vlist` is the API's (0-based) index plus one: the row
`(key, idx, elem)` is in the view iff the key is a live list whose element at index `idx - 1` is
`elem`. -/
theorem vlist_idx_is_the_api_index (now : Int) (db : DB) (hi : db.Inv) (v : VList) (hv : v ∈ vlist now db) :
    1 ≤ v.idx ∧ (listAt (abs now db) v.key)[v.idx - 1]? = some v.elem := by
  have hp := vlist_shows_exactly_the_live_lists now db hi
  have hs := sorted_abs (Inv.wf hi).names now
  have : (v.key, v.idx, v.elem, v.etime) ∈ vlistRows (abs now db) :=
    hp.mem_iff.1 (List.mem_map_of_mem (f := fun v : VList => (v.key, v.idx, v.elem, v.etime)) hv)
  unfold vlistRows at this
  obtain ⟨p, hpm, hpr⟩ := List.mem_flatMap.1 this
  have hg : Spec.get (abs now db) p.1 = some p.2 := by
    unfold Spec.get
    exact (aget_eq_some_iff hs.nodup_keys p.1 p.2).2 hpm
  cases hval : p.2.val with
  | list l =>
    rw [hval] at hpr
    obtain ⟨q, hq, hqe⟩ := List.mem_map.1 hpr
    simp only [Prod.mk.injEq] at hqe
    obtain ⟨hk, hi', he, _⟩ := hqe
    have hq' : (q.1, q.2) ∈ numbered l := hq
    rw [mem_numbered] at hq'
    have hla : listAt (abs now db) v.key = l := by
      unfold listAt
      rw [← hk, hg]
      cases hp2 : p.2 with
      | mk val et => rw [hp2] at hval; simp only at hval; rw [hval]
    rw [hla, ← hi', ← he]
    exact hq'
  | str _ => rw [hval] at hpr; cases hpr
  | set _ => rw [hval] at hpr; cases hpr
  | hash _ => rw [hval] at hpr; cases hpr
  | zset _ => rw [hval] at hpr; cases hpr

/-! ### non-vacuity: a database with a live string, a live list, an expired list and a live
sorted set; the expired list is in the tables and in no view -/

def exDb : DB :=
  { keys := [⟨1, [97], 1, 1, none, 5, none⟩, ⟨2, [98], 2, 3, some 1000, 5, some 2⟩,
             ⟨3, [99], 2, 2, some 10, 5, some 1⟩, ⟨4, [100], 5, 2, none, 5, some 2⟩]
    strs := [⟨1, [120]⟩]
    lists := [⟨2, Dyadic.ofIntWithPrec 1 0, [121]⟩, ⟨2, Dyadic.ofIntWithPrec (-1) 0, [122]⟩,
              ⟨3, Dyadic.ofIntWithPrec 0 0, [123]⟩]
    zsets := [⟨1, 4, [110], .fin (Dyadic.ofIntWithPrec 2 0)⟩, ⟨2, 4, [109], .fin (Dyadic.ofIntWithPrec 1 0)⟩] }

example : exDb.Inv := by unfold DB.Inv; decide +kernel
example : (vlist 100 exDb).map (fun v => (v.key, v.idx, v.elem)) = [([98], 1, [122]), ([98], 2, [121])] := by
  decide +kernel
example : (vkey 100 exDb).map (·.key) = [[97], [98], [100]] := by decide +kernel
/-- had the view compared the expiry (ms) with a clock in seconds — the defect repaired by a9b746c —
the expired list would be shown -/
example : (vkey (100 / 1000) exDb).map (·.key) = [[97], [98], [99], [100]] := by decide +kernel

/-! ### the rendered time columns: `datetime(ms / 1000, 'unixepoch')`

`Model.View.sqliteDatetime` is the model (civil-from-days on the proleptic Gregorian calendar); the
judge compares every (raw milliseconds, rendered text) pair the views show with it. Closed facts,
checked by kernel evaluation — leap day, non-leap century, both ends of SQLite's range, truncation
toward zero below the epoch, NULL outside the range. (A round-trip theorem for all days is not
proved.) -/
theorem datetime_landmarks :
    sqliteDatetime 0 = some "1970-01-01 00:00:00" ∧
    sqliteDatetime 951782400000 = some "2000-02-29 00:00:00" ∧
    sqliteDatetime 4107542400000 = some "2100-03-01 00:00:00" ∧
    sqliteDatetime 253402300799999 = some "9999-12-31 23:59:59" ∧
    sqliteDatetime (-62167219200000) = some "0000-01-01 00:00:00" ∧
    sqliteDatetime (-1) = some "1970-01-01 00:00:00" ∧
    sqliteDatetime (-1000) = some "1969-12-31 23:59:59" ∧
    sqliteDatetime 253402300800000 = none := by decide +kernel

end Redka.Props.C11views
