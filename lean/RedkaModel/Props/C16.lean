/-
  C16 — cursor iteration.

  "Iterating any collection or the keyspace with a cursor - by repeated scan calls feeding back the
  returned cursor until it yields nothing, or with the iterator object - returns every element that
  matches the pattern (and type filter) and is present for the whole iteration exactly once, for
  every page size, every insertion and deletion history that produced the collection, and every
  pattern; a finished iteration is signalled unambiguously."

  `Model/Scan.lean` is the abstract iteration: candidate rows IN THE ORDER THE SQL STATEMENT
  PRODUCES THEM, one call = `page`, the scanner = `iterate`, two cursor rules (`last`: rkey,
  `max`: rset / rhash / rzset).  `Model/Scanner.lean` is scanner.go run over the Model's
  `keyScan` / `setScan` / `hashScan` / `zScan`.

  What is proved:
    * keys (`order by id`, the cursor column): complete, for every page size (including 0 = default
      and negative = unlimited), every pattern and type filter, every table with distinct positive
      ids — `keyscanner_complete`;
    * sets / hashes / sorted sets (no `order by`: rows come in member-byte order — for sorted
      sets in (score, member) order unless the pattern has a literal prefix —, cursor = max
      rowid): complete
      IF AND ONLY IF the matching rows come in increasing rowid order
      (`scan_complete_iff_no_inversion`); ascending insertion gives that (`scan_monotone_complete`,
      `setscanner_monotone_complete`), descending insertion does not (`scan_skips_deviates`,
      `setscanner_skips_deviates`, `zscanner_skips_deviates`,
      `zscanner_prefix_skips_deviates` — known finding D10);
    * for every row order and both rules: the iteration terminates with an empty page, cursor 0
      comes only with an empty page, nothing is returned that does not match
      (`scan_always_finishes`, `scan_cursor_zero_iff_empty`, `scan_sound`), and the max rule never
      returns a row twice (`scan_max_at_most_once`).
  Only property theorems and non-vacuity examples live here; lemmas are in `Proofs/Scan.lean` and
  `Proofs/ScanInst.lean`.
-/
import RedkaModel.Proofs.Scan
import RedkaModel.Proofs.ScanInst

namespace Redka.Props.C16

open Redka Redka.Model Redka.Scan

variable {α : Type}

/-! ### completeness when the statement produces the rows in cursor-column order -/

/-- The concatenation of all pages is exactly the matching rows, each once, in order — for both
cursor rules, every positive page size, every predicate. -/
theorem scan_complete_sorted :
    ∀ (rule : CursorRule) (rows : List (Row α)) (p : α → Bool) (count : Nat), 0 < count →
      SortedById rows →
      (iterate rule rows p (some count)).map (·.id) = (rows.filter (fun r => p r.val)).map (·.id) := by
  intro rule rows p count hc hs
  rw [iterate_sorted rule rows p (by intro h; cases h; omega) hs]

theorem scan_complete_sorted_val :
    ∀ (rule : CursorRule) (rows : List (Row α)) (p : α → Bool) (count : Nat), 0 < count →
      SortedById rows →
      (iterate rule rows p (some count)).map (·.val)
        = (rows.filter (fun r => p r.val)).map (·.val) := by
  intro rule rows p count hc hs
  rw [iterate_sorted rule rows p (by intro h; cases h; omega) hs]

/-- The same with the rows themselves, and with "no limit" (a negative Go `count`) included. -/
theorem scan_complete_sorted_rows :
    ∀ (rule : CursorRule) (rows : List (Row α)) (p : α → Bool) (count : Option Nat),
      count ≠ some 0 → SortedById rows →
      iterate rule rows p count = rows.filter (fun r => p r.val) :=
  fun rule rows p _ hc hs => iterate_sorted rule rows p hc hs

theorem scan_complete_sorted_is_complete :
    ∀ (rule : CursorRule) (rows : List (Row α)) (p : α → Bool) (count : Option Nat),
      count ≠ some 0 → SortedById rows → Complete rule rows p count := by
  intro rule rows p count hc hs
  unfold Complete
  rw [iterate_sorted rule rows p hc hs]

/-! ### the end-of-iteration signal -/

/-- One call returns nothing iff nothing beyond the cursor matches — in any row order. -/
theorem scan_terminates_signal :
    ∀ (rows : List (Row α)) (p : α → Bool) (c : Int) (count : Nat), 0 < count →
      (page rows p c (some count) = [] ↔ ∀ r ∈ rows, r.id > c → p r.val = false) :=
  fun rows p c _ hc => page_eq_nil_iff rows p c (by intro h; cases h; omega)

theorem scan_terminates_signal_unlimited :
    ∀ (rows : List (Row α)) (p : α → Bool) (c : Int),
      (page rows p c none = [] ↔ ∀ r ∈ rows, r.id > c → p r.val = false) :=
  fun rows p c => page_eq_nil_iff rows p c (by intro h; cases h)

/-- The scanner always reaches an empty page within `rows.length + 1` calls, and every page
before it is non-empty — any row order, either rule, any page size. -/
theorem scan_always_finishes :
    ∀ (rule : CursorRule) (rows : List (Row α)) (p : α → Bool) (count : Option Nat),
      (pages rule rows p count).getLast? = some [] ∧
      (∀ pg ∈ (pages rule rows p count).dropLast, pg ≠ []) ∧
      (pages rule rows p count).flatten = iterate rule rows p count :=
  fun rule rows p count =>
    ⟨pagesFrom_getLast rule rows p count _ 0 (length_filter_sel_le rows p 0),
     pagesFrom_dropLast_ne_nil rule rows p count _ 0,
     flatten_pagesFrom rule rows p count _ 0⟩

/-- More calls than `rows.length + 1` never change what the scanner hands out. -/
theorem scan_fuel_irrelevant :
    ∀ (rule : CursorRule) (rows : List (Row α)) (p : α → Bool) (count : Option Nat) (extra : Nat),
      iterateFrom rule rows p count (rows.length + 1 + extra) 0 = iterate rule rows p count :=
  fun rule rows p count _ =>
    (iterate_eq_of_fuel rule rows p count _
      (Nat.lt_of_lt_of_le (length_filter_sel_le rows p 0) (Nat.le_add_right _ _))).symm

/-- The cursor `0` (which would restart the iteration) is returned only with an empty page. -/
theorem scan_cursor_zero_iff_empty :
    ∀ (rule : CursorRule) (rows : List (Row α)) (p : α → Bool) (c : Int) (count : Option Nat),
      (∀ r ∈ rows, 0 < r.id) →
      (rule.next (page rows p c count) = 0 ↔ page rows p c count = []) :=
  fun rule _ _ _ _ hpos => next_eq_zero_iff rule (fun a ha => hpos a (mem_page ha).1)

/-! ### what holds in every row order -/

/-- Everything the scanner hands out is a row of the table that matches. -/
theorem scan_sound :
    ∀ (rule : CursorRule) (rows : List (Row α)) (p : α → Bool) (count : Option Nat),
      ∀ r ∈ iterate rule rows p count, r ∈ rows ∧ 0 < r.id ∧ p r.val = true :=
  fun rule rows p count r hr => mem_iterateFrom rule rows p count _ 0 r hr

/-- With the max-rowid rule no row is handed out twice. -/
theorem scan_max_at_most_once :
    ∀ (rows : List (Row α)) (p : α → Bool) (count : Option Nat), (rows.map (·.id)).Nodup →
      ((iterate .max rows p count).map (·.id)).Nodup :=
  fun rows p count hnd => iterateFrom_max_nodup rows p count hnd _ 0

/-! ### the Model's scan functions are instances -/

/-- `Model.keyScan` is `page` over `db.keys` sorted by id, with the expiry guard, the glob and the
type filter as predicate, and the last-row cursor rule. -/
theorem keyscan_is_sorted_instance :
    ∀ (db : DB) (cursor : Int) (pat : Bytes) (ty count now : Int),
      keyScan db cursor pat ty count now =
        .ok (.list [.int (nextCursorLast (page (keyRows db) (keyPred pat ty now) cursor (goCount count))),
                    .list ((page (keyRows db) (keyPred pat ty now) cursor (goCount count)).map
                      (fun r => keyVal r.val))]) db :=
  keyScan_eq_page

/-- `order by id` on a key table with distinct positive ids is `SortedById`. -/
theorem keyrows_sorted :
    ∀ db : DB, (db.keys.map (·.id)).Nodup → (∀ r ∈ db.keys, 0 < r.id) → SortedById (keyRows db) :=
  keyRows_sorted

/-- `Model.setScan` is `page` over the set's rows sorted by ELEM, with the max-rowid rule. -/
theorem setscan_is_elem_ordered_instance :
    ∀ (db : DB) (k : Bytes) (cursor : Int) (pat : Bytes) (count now : Int),
      setScan db k cursor pat count now =
        match db.liveKeyT k TSet now with
        | none => .ok (.list [.int 0, .list []]) db
        | some r =>
          .ok (.list [.int (nextCursorMax (page (setRowsOf db r.id)
                        (fun x => Glob.sqliteGlob pat x.elem) cursor (goCount count))),
                      .list ((page (setRowsOf db r.id)
                        (fun x => Glob.sqliteGlob pat x.elem) cursor (goCount count)).map
                        (fun x => .bytes x.val.elem))]) db :=
  setScan_eq_page

/-- `Model.hashScan`: rows sorted by FIELD, max-rowid rule. -/
theorem hashscan_is_field_ordered_instance :
    ∀ (db : DB) (k : Bytes) (cursor : Int) (pat : Bytes) (count now : Int),
      hashScan db k cursor pat count now =
        match db.liveKeyT k THash now with
        | none => .ok (.list [.int 0, .list []]) db
        | some r =>
          .ok (.list [.int (nextCursorMax (page (hashRowsOf db r.id)
                        (fun x => Glob.sqliteGlob pat x.field) cursor (goCount count))),
                      .list ((page (hashRowsOf db r.id)
                        (fun x => Glob.sqliteGlob pat x.field) cursor (goCount count)).map
                        (fun x => pairVal (x.val.field, x.val.value)))]) db :=
  hashScan_eq_page

/-- `Model.zScan`: the row order depends on the PATTERN (`Model.zScanByElem`): with a usable
literal prefix SQLite's GLOB optimisation walks `rzset_pk_idx` — rows by ELEM (`b = true`) —,
otherwise the covering index `rzset_score_idx` — rows by (SCORE, ELEM) (`b = false`); max-rowid
rule in both cases.  A pattern whose literal prefix looks numeric is outside the model. -/
theorem zscan_is_pattern_ordered_instance :
    ∀ (db : DB) (k : Bytes) (cursor : Int) (pat : Bytes) (count now : Int),
      zScan db k cursor pat count now =
        match zScanByElem pat with
        | none => .err .outOfDomain db
        | some b =>
          match db.liveKeyT k TZSet now with
          | none => .ok (.list [.int 0, .list []]) db
          | some r =>
            .ok (.list [.int (nextCursorMax (page (zRowsOfBy b db r.id)
                          (fun x => Glob.sqliteGlob pat x.elem) cursor (goCount count))),
                        .list ((page (zRowsOfBy b db r.id)
                          (fun x => Glob.sqliteGlob pat x.elem) cursor (goCount count)).map
                          (fun x => zItem x.val))]) db :=
  zScan_eq_page

/-- The iterator objects are the abstract iteration (Go page size 0 = 10, negative = unlimited). -/
theorem scanners_are_instances :
    ∀ (db : DB) (k pat : Bytes) (ty pageSize now : Int),
      keyScanner db pat ty pageSize now
        = (iterate .last (keyRows db) (keyPred pat ty now) (goCount pageSize)).map
            (fun r => keyVal r.val) ∧
      setScanner db k pat pageSize now =
        (match db.liveKeyT k TSet now with
         | none => []
         | some r => (iterate .max (setRowsOf db r.id) (fun x => Glob.sqliteGlob pat x.elem)
             (goCount pageSize)).map (fun x => .bytes x.val.elem)) ∧
      hashScanner db k pat pageSize now =
        (match db.liveKeyT k THash now with
         | none => []
         | some r => (iterate .max (hashRowsOf db r.id) (fun x => Glob.sqliteGlob pat x.field)
             (goCount pageSize)).map (fun x => pairVal (x.val.field, x.val.value))) ∧
      zScanner db k pat pageSize now =
        (match zScanByElem pat with
         | none => []
         | some b =>
           match db.liveKeyT k TZSet now with
           | none => []
           | some r => (iterate .max (zRowsOfBy b db r.id) (fun x => Glob.sqliteGlob pat x.elem)
               (goCount pageSize)).map (fun x => zItem x.val)) :=
  fun db k pat ty pageSize now =>
    ⟨keyScanner_eq db pat ty pageSize now, setScanner_eq db k pat pageSize now,
     hashScanner_eq db k pat pageSize now, zScanner_eq db k pat pageSize now⟩

/-- KEYS: the key scanner over the Model's `keyScan` hands out exactly the live keys matching the
pattern and the type filter, each once, in id order — for EVERY Go page size (0, positive,
negative), every pattern, every type filter, every table with distinct positive ids. -/
theorem keyscanner_complete :
    ∀ (db : DB) (pat : Bytes) (ty pageSize now : Int),
      (db.keys.map (·.id)).Nodup → (∀ r ∈ db.keys, 0 < r.id) →
      keyScanner db pat ty pageSize now
        = ((sortBy (fun a b => decide (a.id < b.id)) db.keys).filter (keyPred pat ty now)).map keyVal := by
  intro db pat ty pageSize now hnd hpos
  rw [keyScanner_eq, iterate_sorted .last _ _ (goCount_ne_zero pageSize) (keyRows_sorted db hnd hpos)]
  unfold keyRows
  rw [filter_map_view KeyRow.id, List.map_map]
  rfl

/-- … and that list is a rearrangement of the matching rows of the table: nothing is lost, nothing
is doubled. -/
theorem keyscanner_complete_mem :
    ∀ (db : DB) (pat : Bytes) (ty pageSize now : Int),
      (db.keys.map (·.id)).Nodup → (∀ r ∈ db.keys, 0 < r.id) →
      ∃ l : List KeyRow, keyScanner db pat ty pageSize now = l.map keyVal ∧
        (l.map (·.id)).Nodup ∧ ∀ k, k ∈ l ↔ k ∈ db.keys ∧ keyPred pat ty now k = true := by
  intro db pat ty pageSize now hnd hpos
  refine ⟨_, keyscanner_complete db pat ty pageSize now hnd hpos, ?_, ?_⟩
  · have hs := (keyRows_sorted db hnd hpos).1
    unfold keyRows at hs
    rw [List.pairwise_map] at hs
    have hs' := hs.filter (keyPred pat ty now)
    rw [List.nodup_iff_pairwise_ne, List.pairwise_map]
    exact hs'.imp (fun h => by simp at h ⊢; omega)
  · intro k
    rw [List.mem_filter, mem_sortBy]

/-! ### collections: complete when member order and rowid order agree -/

/-- If the order in which the statement produces the rows (by member, relation `lt`) agrees with
the rowid order, the rows are id-sorted and the iteration is complete.  This is why inserting in
ascending order — what the repository's tests do — works. -/
theorem scan_monotone_complete :
    ∀ (lt : α → α → Prop) (rule : CursorRule) (rows : List (Row α)) (p : α → Bool)
      (count : Option Nat), count ≠ some 0 →
      rows.Pairwise (fun a b => lt a.val b.val) → (∀ r ∈ rows, 0 < r.id) →
      (∀ r ∈ rows, ∀ s ∈ rows, lt r.val s.val → r.id < s.id) →
      iterate rule rows p count = rows.filter (fun r => p r.val) := by
  intro lt rule rows p count hc hord hpos hmono
  apply iterate_sorted rule rows p hc
  exact ⟨hord.imp_of_mem (fun ha hb h => hmono _ ha _ hb h), hpos⟩

/-- SETS, on the Model: if within the set the byte order of the members agrees with the rowid
order, the set scanner hands out exactly the matching members, each once, for every page size. -/
theorem setscanner_monotone_complete :
    ∀ (db : DB) (k pat : Bytes) (pageSize now : Int) (r : KeyRow),
      db.liveKeyT k TSet now = some r →
      ((db.sets.filter (fun x => x.kid == r.id)).map (·.elem)).Nodup →
      (∀ x ∈ db.sets, x.kid = r.id → 0 < x.rowid) →
      (∀ x ∈ db.sets, ∀ y ∈ db.sets, x.kid = r.id → y.kid = r.id →
        bytesLt x.elem y.elem = true → x.rowid < y.rowid) →
      setScanner db k pat pageSize now
        = (((setRows db r.id).filter (fun x => Glob.sqliteGlob pat x.elem)).map (·.elem)).map .bytes := by
  intro db k pat pageSize now r hl hnd hpos hmono
  rw [setScanner_eq, hl]
  simp only []
  rw [iterate_sorted .max _ _ (goCount_ne_zero pageSize) (setRowsOf_sorted db r.id hnd hpos hmono)]
  unfold setRowsOf
  rw [filter_map_view SetRow.rowid _ (fun x => Glob.sqliteGlob pat x.elem), List.map_map, List.map_map]
  rfl

/-! ### collections: incomplete otherwise (known finding D10) -/

/-- Three members inserted in descending byte order (rowids 1, 2, 3 for c, b, a), produced in
member order, page size 1, max-rowid rule: the first page is `[a]` with cursor 3, the second page
is empty, `b` and `c` are never handed out. -/
theorem scan_skips_deviates :
    iterate .max [⟨3, "a"⟩, ⟨2, "b"⟩, ⟨1, "c"⟩] (fun _ => true) (some 1) = [⟨3, "a"⟩] ∧
    pages .max [⟨3, "a"⟩, ⟨2, "b"⟩, ⟨1, "c"⟩] (fun _ => true) (some 1) = [[⟨3, "a"⟩], []] ∧
    ¬ Complete .max [⟨3, "a"⟩, ⟨2, "b"⟩, ⟨1, "c"⟩] (fun _ : String => true) (some 1) := by
  refine ⟨by decide, by decide, ?_⟩
  intro h
  have hlen := h.length_eq
  have h1 : iterate .max [⟨3, "a"⟩, ⟨2, "b"⟩, ⟨1, "c"⟩] (fun _ : String => true) (some 1)
      = [⟨3, "a"⟩] := by decide
  rw [h1] at hlen
  simp at hlen

/-- SORTED SETS, on the Model, pattern `*` (no literal prefix: rows by (score, elem)): after
`ZADD z 3 a; ZADD z 2 b; ZADD z 1 c` (rowids 1, 2, 3; the (score, elem) order is c, b, a) draining
the sorted-set scanner with page size 1 yields `c` only, while the sorted set has three members.
The members WERE added in ascending byte order: here it is the score order that has to agree with
the rowids. -/
theorem zscanner_skips_deviates :
    zScanByElem [42] = some false ∧
    zScanner d10ZDb [122] [42] 1 0 = [.list [.bytes [99], .score (.fin 1)]] ∧
    (zRows d10ZDb 1).map (·.elem) = [[99], [98], [97]] ∧
    (zRows d10ZDb 1).map (·.rowid) = [3, 2, 1] :=
  ⟨by decide, zScanner_d10, by decide, by decide⟩

/-- SORTED SETS, pattern `m*` (literal prefix: rows by elem): after `ZADD z 1 mc; ZADD z 2 mb;
ZADD z 3 ma` — scores ascending with the rowids, so pattern `*` would be complete — draining the
scanner with page size 1 yields `ma` only. -/
theorem zscanner_prefix_skips_deviates :
    zScanByElem [109, 42] = some true ∧
    zScanner d10ZDbPrefix [122] [109, 42] 1 0 = [.list [.bytes [109, 97], .score (.fin 3)]] ∧
    (zRowsOfBy true d10ZDbPrefix 1).map (·.id) = [3, 2, 1] ∧
    (zRowsOfBy false d10ZDbPrefix 1).map (·.id) = [1, 2, 3] :=
  ⟨by decide, zScanner_d10_prefix, by decide, by decide⟩

/-- The same on the Model: after `SADD s c; SADD s b; SADD s a`, draining the set scanner with
pattern `*` and page size 1 yields `a` only, while the set has three members. -/
theorem setscanner_skips_deviates :
    setScanner d10Db [115] [42] 1 0 = [.bytes [97]] ∧
    (setRows d10Db 1).map (·.elem) = [[97], [98], [99]] :=
  ⟨setScanner_d10, by decide⟩

/-- The exact boundary, for either cursor rule and every row order with positive ids: the iteration
is complete for ALL page sizes iff the matching rows are produced in increasing id order; and page
size 1 alone already decides it. -/
theorem scan_complete_iff_no_inversion :
    ∀ (rule : CursorRule) (rows : List (Row α)) (p : α → Bool), (∀ r ∈ rows, 0 < r.id) →
      ((∀ count : Option Nat, count ≠ some 0 → Complete rule rows p count)
        ↔ (rows.filter (fun r => p r.val)).Pairwise (fun a b => a.id < b.id)) ∧
      (Complete rule rows p (some 1)
        ↔ (rows.filter (fun r => p r.val)).Pairwise (fun a b => a.id < b.id)) := by
  intro rule rows p hpos
  have hone : Complete rule rows p (some 1) →
      (rows.filter (fun r => p r.val)).Pairwise (fun a b => a.id < b.id) := by
    intro h
    have hlen := h.length_eq
    unfold iterate at hlen
    rw [← filter_sel_zero rows p hpos] at hlen ⊢
    exact iterateFrom_one_sorted_of_length rule rows p _ 0 (Int.le_refl 0) hlen
  have hall : (rows.filter (fun r => p r.val)).Pairwise (fun a b => a.id < b.id) →
      ∀ count : Option Nat, count ≠ some 0 → Complete rule rows p count := by
    intro hs count hc
    unfold Complete
    rw [iterate_sorted_matching rule rows p hc hs hpos]
  exact ⟨⟨fun h => hone (h (some 1) (by intro h; cases h)), hall⟩,
         ⟨hone, fun hs => hall hs (some 1) (by intro h; cases h)⟩⟩

/-! ### non-vacuity -/

/-- `SortedById` is satisfiable by a table with a deletion gap and a non-matching row; three page
sizes and both rules give the two matching rows. -/
example : SortedById [(⟨1, ['a']⟩ : Row (List Char)), ⟨4, ['b']⟩, ⟨5, ['a', 'b']⟩] := by
  refine ⟨by decide, ?_⟩
  intro r hr
  simp only [List.mem_cons, List.not_mem_nil, or_false] at hr
  rcases hr with rfl | rfl | rfl <;> decide

example : (iterate .last [⟨1, ['a']⟩, ⟨4, ['b']⟩, ⟨5, ['a', 'b']⟩] (fun s => s.head? == some 'a') (some 1)).map (·.id)
    = [1, 5] := by decide
example : (iterate .max [⟨1, ['a']⟩, ⟨4, ['b']⟩, ⟨5, ['a', 'b']⟩] (fun s => s.head? == some 'a') (some 2)).map (·.id)
    = [1, 5] := by decide
example : (iterate .max [⟨1, ['a']⟩, ⟨4, ['b']⟩, ⟨5, ['a', 'b']⟩] (fun s => s.head? == some 'a') none).map (·.id)
    = [1, 5] := by decide

/-- the signal: a non-empty page while something matches beyond the cursor, an empty one after -/
example : page [(⟨1, "a"⟩ : Row String), ⟨4, "b"⟩] (fun _ => true) 1 (some 3) = [⟨4, "b"⟩] := by decide
example : page [(⟨1, "a"⟩ : Row String), ⟨4, "b"⟩] (fun _ => true) 4 (some 3) = [] := by decide
example : pages .last [(⟨1, "a"⟩ : Row String), ⟨4, "b"⟩] (fun _ => true) (some 1)
    = [[⟨1, "a"⟩], [⟨4, "b"⟩], []] := by decide

/-- the Go page sizes -/
example : goCount 0 = some 10 ∧ goCount 3 = some 3 ∧ goCount (-1) = none := by decide

/-- ascending insertion (rowids follow the member order) is complete under the max rule at page
size 1, the page size that loses rows in `scan_skips_deviates` -/
example : iterate .max [⟨1, "a"⟩, ⟨2, "b"⟩, ⟨3, "c"⟩] (fun _ => true) (some 1)
    = [⟨1, "a"⟩, ⟨2, "b"⟩, ⟨3, "c"⟩] := by decide

/-- an inversion among NON-matching rows is harmless (`scan_complete_iff_no_inversion` looks at the
matching rows only) -/
example : iterate .max [⟨3, ['x']⟩, ⟨1, ['a']⟩, ⟨2, ['a', 'b']⟩] (fun s => s.head? == some 'a') (some 1)
    = [⟨1, ['a']⟩, ⟨2, ['a', 'b']⟩] := by decide

/-- the last-row rule on an unsorted order can even hand out a row twice, which the max rule never
does (`scan_max_at_most_once`) -/
example : (iterate .last [⟨2, "a"⟩, ⟨3, "b"⟩, ⟨1, "c"⟩] (fun _ => true) (some 3)).map (·.id)
    = [2, 3, 1, 2, 3] := by decide

/-- the hypotheses of `keyscanner_complete` are satisfiable -/
example : (d10Db.keys.map (·.id)).Nodup ∧ ∀ r ∈ d10Db.keys, 0 < r.id := by decide

/-- the hypotheses of `setscanner_monotone_complete` are satisfiable (`SADD s a; SADD s b; SADD s c`),
and fail on the D10 database -/
example : ascDb.liveKeyT [115] TSet 0 = some d10Key ∧
    ((ascDb.sets.filter (fun x => x.kid == d10Key.id)).map (·.elem)).Nodup ∧
    (∀ x ∈ ascDb.sets, x.kid = d10Key.id → 0 < x.rowid) ∧
    (∀ x ∈ ascDb.sets, ∀ y ∈ ascDb.sets, x.kid = d10Key.id → y.kid = d10Key.id →
      bytesLt x.elem y.elem = true → x.rowid < y.rowid) := by decide

example : ¬ (∀ x ∈ d10Db.sets, ∀ y ∈ d10Db.sets, x.kid = d10Key.id → y.kid = d10Key.id →
      bytesLt x.elem y.elem = true → x.rowid < y.rowid) := by decide

end Redka.Props.C16
