/-
  C06 — one keyspace for all types (refinement of the type-agnostic key operations).

  "All data types share one namespace in which a key has exactly one type at a time: a
  type-specific write to a key of another type is refused with a type error, a type-specific read
  of it sees nothing, and neither changes anything. Deleting a key (individually or by flushing)
  removes all of its elements so that a later key of any type, under any name, starts empty;
  renaming moves the whole value and its expiry to the new name atomically, replacing a same-type
  destination and refusing a different-type one. Existence counts, type lookup, pattern listing,
  type-filtered listing, random key and key count always agree with the set of live keys."

  What is proved here. `Model.dbRun` is the statement-level model of the `DB`-level methods of
  `internal/rkey`; `Spec.step` is the abstract keyspace; `Spec.abs now db` is the keyspace a table
  state stands for at clock value `now`. `key_refines_partial`: one call of any of the thirteen
  operations

      keyCount keyDelete keyDeleteAll keyExists keyExpire keyExpireAt keyGet keyKeys keyLen
      keyPersist keyRandom keyRename keyRenameNX

  on any table state satisfying the C11 invariant, with any arguments and any clock value, returns
  what the abstract keyspace returns and leaves tables that stand for the keyspace's new state —
  outside three narrow, decidable classes of inputs on which the real code (and so the model)
  is known to deviate:

    * `LenStale`  (D06): `Len` while some stored row has expired (it counts stored rows);
    * `EmptyName` (D18): `Rename`/`RenameNX` of a visible key whose name is the empty byte string;
    * `BangClass` (D16): `Keys` with a pattern in which a bracket class starts with `!`;

  and, for `Keys`, inside the domain in which C18 gives patterns a meaning (`Judged`: 7-bit
  well-formed pattern, 7-bit names of visible keys — exactly the guard of `Spec.check`).
  Every class has a kernel-checked witness (`len_counts_expired_deviates`,
  `empty_name_rename_deviates`, `bang_class_keys_deviates`), so the full-strength statement is
  false (`full_strength_is_false`).

  NOT needed, although the catalogue lists it for these operations: D05 (`Stale`, the destination
  name of a rename is held by an expired row that has not been cleaned up). `UPDATE OR REPLACE`
  deletes that row: `rename_onto_stale_refines` is the theorem, `rename_onto_stale_example` a
  concrete instance.

  `keyDeleteExpired` has no result in the specification (the count is a storage-level number);
  its rule is that the abstract keyspace does not change: `deleteExpired_invisible`,
  `deleteExpired_check`. `keyScan` is C16's.

  No hypothesis on `foreign_keys`: the abstraction reads child rows only through stored key
  rows, so orphaned children are invisible to it. `foreign_keys` matters for what a LATER key
  inherits (ids are `max + 1`): `delete_then_fresh_key_starts_empty` and `flush_leaves_nothing`
  need `fk = true`, and `fk_off_deleted_elements_are_inherited` shows why (D14).

  Results are compared with `=`. Where the model returns key rows (`keyGet`, `keyRandom`,
  `keyKeys`) they are first projected by `Model.projV` — `Spec.projVal` by structural recursion,
  the original being a `partial def` and opaque to the kernel — and for `keyKeys` sorted by name
  (`Spec.sortKeyVals`; the API promises no order), exactly as `Spec.check` does: `obs`.

  `keyspace_seq_refines` lifts the single step to any interleaving of key operations, cleaner runs
  and the string operations of C01 at non-decreasing clock values.

  Only property theorems, witnesses and examples here; lemmas are in `Proofs/KeyRef.lean`.
-/
import RedkaModel.Proofs.KeyRef
import RedkaModel.Proofs.KeyCross
import RedkaModel.Props.C01

namespace Redka.Props.C06

open Redka Redka.Model Redka.Spec

/-! ### the family and the classifiers of known deviations -/

/-- the operations of `DB.Key()` the refinement theorem speaks about -/
def isKeyOp : Op → Bool
  | .keyCount _ | .keyDelete _ | .keyDeleteAll | .keyExists _ | .keyExpire .. | .keyExpireAt ..
  | .keyGet _ | .keyKeys _ | .keyLen | .keyPersist _ | .keyRandom _ | .keyRename .. | .keyRenameNX .. => true
  | _ => false

def IsFamOp (op : Op) : Prop := isKeyOp op = true

instance (op : Op) : Decidable (IsFamOp op) := inferInstanceAs (Decidable (_ = true))

/-- every operation of the family is covered; of `DB.Key()` only `keyDeleteExpired` (separate
theorem, the specification gives it no result) and `keyScan` (C16) are outside the family -/
def Covered : Op → Bool := isKeyOp

theorem covered_all : ∀ op, IsFamOp op → Covered op = true := fun _ h => h

/-- D06, exactly as in `Spec.known` -/
def LenStale (op : Op) (now : Int) (db : DB) : Bool :=
  match op with
  | .keyLen => db.keys.any (fun r => !r.live now)
  | _ => false

/-- D18, exactly as in `Spec.known` -/
def EmptyName (op : Op) (now : Int) (db : DB) : Bool :=
  match op with
  | .keyRename k _ | .keyRenameNX k _ => k.isEmpty && (db.liveKey k now).isSome
  | _ => false

/-- D16, exactly as in `Spec.known` -/
def BangClass (op : Op) : Bool :=
  match op with
  | .keyKeys p => !noBangClass p
  | _ => false

/-- the domain in which `Spec.check` judges a pattern listing (C18): well-formed 7-bit pattern,
7-bit names of the visible keys -/
def Judged (op : Op) (now : Int) (db : DB) : Bool :=
  match op with
  | .keyKeys p => wellFormed p && decide (Ascii p) && (Spec.abs now db).all (fun e => decide (Ascii e.1))
  | _ => true

/-- The classifiers are the catalogue of known findings that the driver consults, for every
operation of the family. (`C01.Stale` is the catalogue's D05; the refinement theorem below does
not need it.) -/
theorem classifiers_are_the_catalogue : ∀ (inTx : Bool) (op : Op) (now : Int) (db : DB), IsFamOp op →
    Spec.known inTx op now db
      = (if C01.Stale op now db then ["D05"] else []) ++
        ((if LenStale op now db then ["D06"] else []) ++
         (if EmptyName op now db then ["D18"] else []) ++
         (if BangClass op then ["D16"] else [])) := by
  intro inTx op now db hop
  cases op <;> first | (cases hop; done) | rfl |
    simp [Spec.known, C01.Stale, LenStale, EmptyName, BangClass, Spec.writeKeys]

/-- outside `Judged` the driver's judge does not decide a pattern listing -/
theorem unjudged_is_undecided : ∀ (inTx : Bool) (op : Op) (now : Int) (pre post : DB) (res : Out),
    IsFamOp op → Judged op now pre = false → Spec.check inTx op now pre post res = none := by
  intro inTx op now pre post res hop hj
  cases op <;> first | (cases hop; done) | (cases hj; done) | skip
  case keyKeys p =>
    simp only [Judged] at hj
    unfold Spec.check
    simp [hj]

/-- How results are compared: key rows are projected onto what the keyspace tracks (name, type,
expiry), and a listing is sorted by name — as `Spec.check` does. The identity on the ten
operations whose results carry no key row. -/
def obs : Op → Out → Out
  | .keyGet _, o | .keyRandom _, o => o.map projV
  | .keyKeys _, o => o.map (fun v => sortKeyVals (projV v))
  | _, o => o

/-! ### the refinement theorem -/

/-- The same under `DB.WF`, the consequence of the invariant that the proof uses (unique names and
ids, type tags in range, a value row for every string key) and that every key operation preserves
(`key_preserves_wf`). -/
theorem key_refines_wf : ∀ (op : Op) (now : Int) (db : DB),
    IsFamOp op → db.WF → LenStale op now db = false → EmptyName op now db = false →
    BangClass op = false → Judged op now db = true →
    let r := Model.dbRun op now db
    obs op r.out = (Spec.step op now (Spec.abs now db)).out ∧
      Spec.abs now r.db = Spec.purge now (Spec.step op now (Spec.abs now db)).st := by
  intro op now db hop hw hlen hemp hbang hj
  cases op <;> first | (cases hop; done) | skip
  case keyCount ks => exact keyCount_refines hw now ks
  case keyDelete ks => exact keyDelete_refines hw now ks
  case keyDeleteAll => exact keyDeleteAll_refines db now
  case keyExists k => exact keyExists_refines hw now k
  case keyExpire k ttl => exact keyExpireAt_refines hw now k (now + ttl)
  case keyExpireAt k t => exact keyExpireAt_refines hw now k t
  case keyGet k => exact keyGet_refines hw now k
  case keyKeys p =>
    have hb : noBangClass p = true := by simpa [BangClass] using hbang
    exact keyKeys_refines hw hj hb
  case keyLen => exact keyLen_refines hw hlen
  case keyPersist k => exact keyPersist_refines hw now k
  case keyRandom o => exact keyRandom_refines hw now o
  case keyRename k nk =>
    show Refines now (update (fun d => Model.keyRename d k nk now) db) _
    rw [update_keyRename]
    exact keyRename_refines hw hemp nk
  case keyRenameNX k nk =>
    show Refines now (update (fun d => Model.keyRenameNX d k nk now) db) _
    rw [update_keyRenameNX]
    exact keyRenameNX_refines hw hemp nk

/-- **C06, partial refinement.** One call of any of the thirteen key operations, on any table
state satisfying the structural invariant, for any arguments and any clock value, outside the
classes `LenStale` (D06), `EmptyName` (D18), `BangClass` (D16) and inside the domain of patterns
(`Judged`): the model returns exactly what the abstract keyspace returns, and the tables
afterwards stand for exactly the keyspace's new state (minus the keys whose newly assigned expiry
is already in the past).

No argument-range hypothesis: the integer arguments (`ttl`, `atMs`) only enter an addition and a
comparison, which model and specification do on unbounded integers alike.

The full-strength statement is FALSE of the code: `full_strength_is_false`. -/
theorem key_refines_partial : ∀ (op : Op) (now : Int) (db : DB),
    IsFamOp op → db.Inv → LenStale op now db = false → EmptyName op now db = false →
    BangClass op = false → Judged op now db = true →
    let r := Model.dbRun op now db
    obs op r.out = (Spec.step op now (Spec.abs now db)).out ∧
      Spec.abs now r.db = Spec.purge now (Spec.step op now (Spec.abs now db)).st :=
  fun op now db hop hinv => key_refines_wf op now db hop (DB.Inv.wf hinv)

/-- On the ten operations whose results carry no key row the comparison is plain equality. -/
theorem obs_is_id : ∀ (op : Op) (o : Out),
    (match op with | .keyGet _ | .keyRandom _ | .keyKeys _ => False | _ => True) → obs op o = o := by
  intro op o h
  cases op <;> first | rfl | cases h

/-- **D05 is not a deviation of rename.** The destination name is held by a row that has expired
and has not been cleaned up (the catalogue's `Stale`): `UPDATE OR REPLACE` deletes that row,
whatever its type, and the rename refines the specification all the same. -/
theorem rename_onto_stale_refines : ∀ (k nk : Bytes) (now : Int) (db : DB), db.Inv →
    Spec.staleKey db now nk = true → EmptyName (.keyRename k nk) now db = false →
    let r := Model.dbRun (.keyRename k nk) now db
    r.out = (Spec.step (.keyRename k nk) now (Spec.abs now db)).out ∧
      Spec.abs now r.db = Spec.purge now (Spec.step (.keyRename k nk) now (Spec.abs now db)).st :=
  fun k nk now db hinv _ hemp => key_refines_partial (.keyRename k nk) now db rfl hinv rfl hemp rfl rfl

/-! ### the cleaner -/

/-- **`DeleteExpired` is invisible**: it succeeds with a count, and the abstract keyspace at the
time of the call — and at every later time — is what it was. (Unique ids suffice.) -/
theorem deleteExpired_invisible : ∀ (n now : Int) (db : DB), db.Inv →
    let r := Model.dbRun (.keyDeleteExpired n) now db
    (∃ c, r.out = .ok (.int c)) ∧ ∀ now', now ≤ now' → Spec.abs now' r.db = Spec.abs now' db := by
  intro n now db hinv
  refine ⟨⟨_, Clean.keyDeleteExpired_out db n now⟩, ?_⟩
  intro now' hle
  exact Clean.abs_keyDeleteExpired (DB.Inv.wf hinv).ids n hle

/-- … which is what the driver's judge asks of it. -/
theorem deleteExpired_check : ∀ (inTx : Bool) (n now : Int) (db : DB), db.Inv →
    let r := Model.dbRun (.keyDeleteExpired n) now db
    Spec.check inTx (.keyDeleteExpired n) now db r.db r.out = some true := by
  intro inTx n now db hinv
  obtain ⟨⟨c, hc⟩, ha⟩ := deleteExpired_invisible n now db hinv
  unfold Spec.check
  simp only [hc, ha now (Int.le_refl _), Spec.isErr, decide_true, Bool.not_false, Bool.and_self]

/-- `DeleteAll` inside a transaction (documented: "should not be run inside a database
transaction"): the rows are deleted, then `VACUUM` fails; `key_refines_partial` is about the
`DB`-level call, which runs it on the bare handle. -/
theorem deleteAll_in_tx_fails : ∀ (now : Int) (db : DB),
    (Model.tx true .keyDeleteAll now db).out = .error .sqlOther ∧
    (Model.tx false .keyDeleteAll now db).out = .ok .nil :=
  fun _ _ => ⟨rfl, rfl⟩

/-! ### sequences of operations -/

/-- all fifteen operations of `DB.Key()` -/
def isKeyFamOp : Op → Bool
  | .keyDeleteExpired _ | .keyScan .. => true
  | op => isKeyOp op

/-- Every operation of `DB.Key()` keeps `DB.WF` (for every state and argument, deviation classes
included, `foreign_keys` on or off). -/
theorem key_preserves_wf : ∀ (op : Op) (now : Int) (db : DB), isKeyFamOp op = true → db.WF →
    (Model.dbRun op now db).db.WF := by
  intro op now db hop hw
  cases op <;> first | (cases hop; done) | skip
  case keyCount ks => exact hw
  case keyDelete ks => exact dkw_wf hw _
  case keyDeleteAll => exact dkw_wf hw _
  case keyDeleteExpired n =>
    show (Model.keyDeleteExpired db n now).db.WF
    rw [Clean.keyDeleteExpired_db]; exact dkw_wf hw _
  case keyExists k => exact hw
  case keyExpire k ttl => exact keyExpireAt_wf hw k (now + ttl) now
  case keyExpireAt k t => exact keyExpireAt_wf hw k t now
  case keyGet k =>
    show (Model.keyGet db k now).db.WF
    rw [Redka.Proofs.NoTrace.keyGet_db]; exact hw
  case keyKeys p => exact hw
  case keyLen => exact hw
  case keyPersist k => exact keyPersist_wf hw k now
  case keyRandom o =>
    show (Model.keyRandom db o now).db.WF
    rw [Redka.Proofs.NoTrace.keyRandom_db]; exact hw
  case keyRename k nk => exact update_wf hw (keyRename_wf hw k nk now)
  case keyRenameNX k nk => exact update_wf hw (keyRenameNX_wf hw k nk now)
  case keyScan c p t n => exact hw

def isCleaner : Op → Bool
  | .keyDeleteExpired _ => true
  | _ => false

/-- what a run may contain: the string operations of C01, the key operations, cleaner runs -/
def isSeqOp (op : Op) : Bool := C01.isStrOp op || isKeyOp op || isCleaner op

/-- the call does not fall into a known deviation class of its family -/
def StepClean (op : Op) (now : Int) (db : DB) : Bool :=
  if C01.isStrOp op then C01.ArgsInRange op && !C01.Stale op now db && !C01.Overflow op now db
  else !LenStale op now db && !EmptyName op now db && !BangClass op && Judged op now db

/-- the model's result as compared in a run: `obs`; of a cleaner run only success -/
def viewM (op : Op) (o : Out) : Out :=
  match op with
  | .keyDeleteExpired _ => (match o with | .ok _ => .ok .nil | .error e => .error e)
  | _ => obs op o

/-- the specification gives a cleaner run no result -/
def viewS (op : Op) (o : Out) : Out :=
  match op with
  | .keyDeleteExpired _ => .ok .nil
  | _ => o

theorem seq_step : ∀ (op : Op) (now : Int) (db : DB), isSeqOp op = true → db.WF →
    StepClean op now db = true →
    viewM op (Model.dbRun op now db).out = viewS op (Spec.step op now (Spec.abs now db)).out ∧
      Spec.abs now (Model.dbRun op now db).db
        = Spec.purge now (Spec.step op now (Spec.abs now db)).st := by
  intro op now db hop hw hcl
  by_cases hs : C01.isStrOp op = true
  · simp only [StepClean, hs, if_true, Bool.and_eq_true, Bool.not_eq_true'] at hcl
    have h := C01.str_refines_wf op now db hs hw hcl.1.1 hcl.1.2 hcl.2
    have hv : viewM op = id ∧ viewS op = id := by
      cases op <;> first | (cases hs; done) | exact ⟨rfl, rfl⟩
    rw [hv.1, hv.2]; exact h
  · by_cases hk : isKeyOp op = true
    · have hs' : C01.isStrOp op = false := by simpa using hs
      simp only [StepClean, hs', Bool.false_eq_true, if_false, Bool.and_eq_true,
        Bool.not_eq_true'] at hcl
      have h := key_refines_wf op now db hk hw hcl.1.1.1 hcl.1.1.2 hcl.1.2 hcl.2
      have hv : viewM op = obs op ∧ viewS op = id := by
        cases op <;> first | (cases hk; done) | exact ⟨rfl, rfl⟩
      rw [hv.1, hv.2]; exact h
    · cases op <;> first | (cases hop; done) | (exact absurd rfl hs) | (exact absurd rfl hk) | skip
      case keyDeleteExpired n =>
        refine ⟨?_, ?_⟩
        · show viewM _ (Model.keyDeleteExpired db n now).out = _
          rw [Clean.keyDeleteExpired_out]; rfl
        · show Spec.abs now (Model.keyDeleteExpired db n now).db = Spec.purge now (Spec.abs now db)
          rw [Clean.abs_keyDeleteExpired hw.ids n (Int.le_refl _), purge_abs hw.names]

theorem seq_preserves_wf : ∀ (op : Op) (now : Int) (db : DB), isSeqOp op = true → db.WF →
    (Model.dbRun op now db).db.WF := by
  intro op now db hop hw
  by_cases hs : C01.isStrOp op = true
  · exact C01.str_preserves_wf op now db hs hw
  · apply key_preserves_wf op now db _ hw
    cases op <;> first | (cases hop; done) | (exact absurd rfl hs) | rfl

/-- a run of timed calls on the tables: the results as compared, and the tables at the end -/
def runModel : List (Op × Int) → DB → List Out × DB
  | [], db => ([], db)
  | (op, now) :: rest, db =>
    let r := Model.dbRun op now db
    let t := runModel rest r.db
    (viewM op r.out :: t.1, t.2)

/-- the same run on the abstract keyspace; a key disappears when the clock reaches its expiry -/
def runSpec : List (Op × Int) → State → List Out × State
  | [], s => ([], s)
  | (op, now) :: rest, s =>
    let r := Spec.step op now (Spec.purge now s)
    let t := runSpec rest (Spec.purge now r.st)
    (viewS op r.out :: t.1, t.2)

/-- no call of the run falls into a known deviation class, judged on the tables it meets -/
def CleanRun : List (Op × Int) → DB → Prop
  | [], _ => True
  | (op, now) :: rest, db =>
    isSeqOp op = true ∧ StepClean op now db = true ∧ CleanRun rest (Model.dbRun op now db).db

/-- **C06 for sequences.** Any interleaving of key operations, cleaner runs and string operations
at non-decreasing clock values, started on tables satisfying the invariant and never meeting a
known deviation class: every call returns what the abstract keyspace returns, and at the end the
tables stand for exactly that keyspace. -/
theorem keyspace_seq_refines : ∀ (tr : List (Op × Int)) (t : Int) (db : DB), db.WF →
    C01.ClockOk t tr → CleanRun tr db →
    (runModel tr db).1 = (runSpec tr (Spec.abs t db)).1 ∧
      Spec.abs (C01.lastClock t tr) (runModel tr db).2 = (runSpec tr (Spec.abs t db)).2
  | [], _, _, _, _, _ => ⟨rfl, rfl⟩
  | (op, now) :: rest, t, db, hw, hc, hcl => by
    obtain ⟨hop, hst, hrest⟩ := hcl
    obtain ⟨href1, href2⟩ := seq_step op now db hop hw hst
    have ih := keyspace_seq_refines rest now (Model.dbRun op now db).db
      (seq_preserves_wf op now db hop hw) hc.2 hrest
    simp only [runModel, runSpec, C01.lastClock]
    rw [← abs_mono hw.names hc.1, ← href1, ← href2]
    exact ⟨by rw [ih.1], ih.2⟩

theorem keyspace_seq_refines_inv : ∀ (tr : List (Op × Int)) (t : Int) (db : DB), db.Inv →
    C01.ClockOk t tr → CleanRun tr db →
    (runModel tr db).1 = (runSpec tr (Spec.abs t db)).1 ∧
      Spec.abs (C01.lastClock t tr) (runModel tr db).2 = (runSpec tr (Spec.abs t db)).2 :=
  fun tr t db hinv => keyspace_seq_refines tr t db (DB.Inv.wf hinv)

/-! ### the property, clause by clause -/

theorem map_eq_error {f : Val → Val} {o : Out} {e : Err} (h : o.map f = .error e) : o = .error e := by
  cases o with
  | error e' => simpa [Except.map] using h
  | ok v => simp [Except.map] at h

/-- "Existence counts … agree with the set of live keys": `Exists` says whether the name is a
visible key. -/
theorem exists_iff_visible : ∀ (k : Bytes) (now : Int) (db : DB), db.Inv →
    (Model.dbRun (.keyExists k) now db).out = .ok (.bool (Spec.get (Spec.abs now db) k).isSome) :=
  fun k now _ h => (keyExists_refines (DB.Inv.wf h) now k).1

/-- `Count` is the number of visible keys among the given names (a name given twice counts once:
it is a count of keys, not of arguments). -/
theorem count_counts_visible : ∀ (ks : List Bytes) (now : Int) (db : DB), db.Inv →
    (Model.dbRun (.keyCount ks) now db).out
      = .ok (.int ((Spec.abs now db).filter (fun p => ks.contains p.1)).length) :=
  fun ks now _ h => (keyCount_refines (DB.Inv.wf h) now ks).1

/-- "… and key count": once no expired row is stored, `Len` is the number of visible keys. -/
theorem len_counts_visible : ∀ (now : Int) (db : DB), db.Inv → LenStale .keyLen now db = false →
    (Model.dbRun .keyLen now db).out = .ok (.int (Spec.abs now db).length) :=
  fun _ _ h hl => (keyLen_refines (DB.Inv.wf h) hl).1

/-- "type lookup": `Get` on a visible key reports its name, its type and its expiry. -/
theorem type_lookup : ∀ (k : Bytes) (e : Entry) (now : Int) (db : DB), db.Inv →
    Spec.get (Spec.abs now db) k = some e →
    (Model.dbRun (.keyGet k) now db).out.map projV
      = .ok (.key { id := 0, key := k, ty := e.val.ty, version := 0, etime := e.etime, mtime := 0,
                    len := none }) := by
  intro k e now db h hg
  have := (keyGet_refines (DB.Inv.wf h) now k).1
  show Except.map projV (Model.keyGet db k now).out = _
  rw [this]; simp [Spec.keyGet, hg, Spec.ok, Spec.keyVal]

/-- … and on anything else (never stored, deleted, expired) reports `ErrNotFound`. -/
theorem type_lookup_missing : ∀ (k : Bytes) (now : Int) (db : DB), db.Inv →
    Spec.get (Spec.abs now db) k = none →
    (Model.dbRun (.keyGet k) now db).out = .error .notFound := by
  intro k now db h hg
  have := (keyGet_refines (DB.Inv.wf h) now k).1
  apply map_eq_error (f := projV)
  show Except.map projV (Model.keyGet db k now).out = _
  rw [this]; simp [Spec.keyGet, hg, Spec.er]

/-- "random key": whatever key `Random` returns is a visible key, reported with its type and
expiry. -/
theorem random_is_visible : ∀ (k : Bytes) (v : Val) (now : Int) (db : DB), db.Inv →
    (Model.dbRun (.keyRandom (some k)) now db).out = .ok v →
    ∃ e, Spec.get (Spec.abs now db) k = some e ∧ projV v = Spec.keyVal k e := by
  intro k v now db h hout
  have := (keyRandom_refines (DB.Inv.wf h) now (some k)).1
  rw [show (Model.keyRandom db (some k) now).out = .ok v from hout] at this
  cases hg : Spec.get (Spec.abs now db) k with
  | none => simp [hg, Spec.skip, Except.map] at this
  | some e =>
    refine ⟨e, rfl, ?_⟩
    simpa [hg, Spec.ok, Except.map] using this

/-- … and `Random` reports "no key" only when no key is visible (the judge of the correspondence
demands exactly this of the real code: `Spec.check` on `.keyRandom none`). -/
theorem random_notfound_only_when_empty : ∀ (o : Option Bytes) (now : Int) (db : DB), db.Inv →
    (Model.dbRun (.keyRandom o) now db).out = .error .notFound → Spec.abs now db = [] := by
  intro o now db h hout
  have hw := DB.Inv.wf h
  have hlen := length_abs hw now
  unfold liveRows at hlen
  change (Model.keyRandom db o now).out = _ at hout
  unfold Model.keyRandom at hout
  cases o with
  | none =>
    cases hl : db.keys.filter (fun r => r.live now) with
    | nil => rw [hl] at hlen; exact List.eq_nil_of_length_eq_zero (by simpa using hlen)
    | cons a t => simp [hl, Res.err] at hout
  | some k =>
    dsimp only at hout
    split at hout <;> simp [Res.err, Res.ok] at hout

/-- the judge's rule for a `Random` that reported "no key" -/
theorem random_check_rule : ∀ (inTx : Bool) (now : Int) (pre post : DB) (res : Out),
    Spec.check inTx (.keyRandom none) now pre post res
      = some (Spec.outEq res (.error .notFound) && (Spec.abs now pre).isEmpty
          && decide (Spec.abs now post = Spec.abs now pre)) := by
  intros; rfl

/-- "Deleting a key …": afterwards exactly the named keys are gone, every other key is as it
was. `foreign_keys` on or off. -/
theorem delete_removes : ∀ (ks : List Bytes) (now : Int) (db : DB), db.Inv → ∀ k,
    Spec.get (Spec.abs now (Model.dbRun (.keyDelete ks) now db).db) k
      = if ks.contains k then none else Spec.get (Spec.abs now db) k := by
  intro ks now db h k
  have hw := DB.Inv.wf h
  have h2 := (keyDelete_refines hw now ks).2
  show Spec.get (Spec.abs now (Model.keyDelete db ks now).db) k = _
  rw [h2]
  simp only [Spec.keyDelete, Spec.ok]
  rw [purge_filter (purge_abs hw.names now)]
  unfold Spec.get
  rw [aget_filter (sorted_abs hw.names now)]
  by_cases hc : k ∈ ks <;> cases aget (Spec.abs now db) k <;> simp [hc]

/-- "… removes all of its elements so that a later key of any type, under any name, starts
empty" (individual delete). With `foreign_keys` on, the tables after a delete satisfy the C11
audit again, so no child row is left without a key row, and in particular no child row carries
the id that the next key created will get. -/
theorem delete_then_fresh_key_starts_empty : ∀ (ks : List Bytes) (now : Int) (db : DB), db.Inv →
    db.fk = true →
    let db' := (Model.dbRun (.keyDelete ks) now db).db
    db'.Inv ∧
    (∀ c ∈ db'.strs, c.kid ≠ db'.nextKeyId) ∧ (∀ c ∈ db'.lists, c.kid ≠ db'.nextKeyId) ∧
    (∀ c ∈ db'.sets, c.kid ≠ db'.nextKeyId) ∧ (∀ c ∈ db'.hashes, c.kid ≠ db'.nextKeyId) ∧
    (∀ c ∈ db'.zsets, c.kid ≠ db'.nextKeyId) := by
  intro ks now db h hfk
  have hinv : (Model.dbRun (.keyDelete ks) now db).db.Inv := Clean.inv_dkw h hfk _
  exact ⟨hinv, no_children_of_next_id hinv⟩

/-- "… (or by flushing)": with `foreign_keys` on, `DeleteAll` at `DB` level leaves six empty
tables. -/
theorem flush_leaves_nothing : ∀ (now : Int) (db : DB), db.Inv → db.fk = true →
    (Model.dbRun .keyDeleteAll now db).db = { fk := true } := by
  intro now db h hfk
  have hinv : (db.deleteKeysWhere (fun _ => true)).1.Inv := Clean.inv_dkw h hfk _
  have hk : (db.deleteKeysWhere (fun _ => true)).1.keys = [] := by
    rw [Clean.deleteKeysWhere_keys]; simp
  obtain ⟨h1, h2, h3, h4, h5⟩ := empty_of_no_keys hinv hk
  have h6 : (db.deleteKeysWhere (fun _ => true)).1.fk = true := by
    rw [Clean.deleteKeysWhere_fk]; exact hfk
  show (db.deleteKeysWhere (fun _ => true)).1 = _
  cases hd : (db.deleteKeysWhere (fun _ => true)).1 with
  | mk a b c d e f g =>
    rw [hd] at hk h1 h2 h3 h4 h5 h6
    simp only at hk h1 h2 h3 h4 h5 h6
    rw [hk, h1, h2, h3, h4, h5, h6]

/-- … and whatever `foreign_keys` is, the keyspace is empty afterwards. -/
theorem flush_empties_keyspace : ∀ (now : Int) (db : DB),
    Spec.abs now (Model.dbRun .keyDeleteAll now db).db = [] :=
  fun now db => (keyDeleteAll_refines db now).2

/-- "renaming moves the whole value and its expiry to the new name atomically, replacing a
same-type destination": the entry that was visible under `k` — value and expiry — is afterwards
visible under `nk`, nothing is visible under `k`, every other key is as it was. The destination
may be free, a visible key of the same type, or an expired leftover of any type. -/
theorem rename_moves : ∀ (k nk : Bytes) (e : Entry) (now : Int) (db : DB), db.Inv →
    k ≠ [] → k ≠ nk → Spec.get (Spec.abs now db) k = some e →
    (∀ e', Spec.get (Spec.abs now db) nk = some e' → e'.val.ty = e.val.ty) →
    let r := Model.dbRun (.keyRename k nk) now db
    r.out = .ok .nil ∧
    ∀ k', Spec.get (Spec.abs now r.db) k'
      = if nk == k' then some e else if k == k' then none else Spec.get (Spec.abs now db) k' := by
  intro k nk e now db h hk hne hg hty
  have hw := DB.Inv.wf h
  have hemp : EmptyName (.keyRename k nk) now db = false := by
    cases k with
    | nil => exact absurd rfl hk
    | cons _ _ => rfl
  have href := key_refines_partial (.keyRename k nk) now db rfl h rfl hemp rfl rfl
  have hne' : (k == nk) = false := by simpa using hne
  have hstep : Spec.step (.keyRename k nk) now (Spec.abs now db)
      = Spec.ok .nil (Spec.put (Spec.del (Spec.abs now db) k) nk e) := by
    simp only [Spec.step, Spec.keyRename, hg, hne', Bool.false_eq_true, if_false]
    cases hg2 : Spec.get (Spec.abs now db) nk with
    | none => rfl
    | some e' => simp [hty e' hg2]
  rw [hstep] at href
  refine ⟨href.1, ?_⟩
  intro k'
  rw [href.2]
  simp only [Spec.ok]
  rw [purge_moved hw now k nk (get_abs_live hw hg).1, get_put_del]

/-- "… and refusing a different-type one": `ErrKeyType`, and no table row changes. -/
theorem rename_refuses_other_type : ∀ (k nk : Bytes) (e e' : Entry) (now : Int) (db : DB), db.Inv →
    k ≠ [] → k ≠ nk → Spec.get (Spec.abs now db) k = some e →
    Spec.get (Spec.abs now db) nk = some e' → e'.val.ty ≠ e.val.ty →
    let r := Model.dbRun (.keyRename k nk) now db
    r.out = .error .keyType ∧ r.db = db := by
  intro k nk e e' now db h hk hne hg hg2 hty
  have hemp : EmptyName (.keyRename k nk) now db = false := by
    cases k with
    | nil => exact absurd rfl hk
    | cons _ _ => rfl
  have href := key_refines_partial (.keyRename k nk) now db rfl h rfl hemp rfl rfl
  have hne' : (k == nk) = false := by simpa using hne
  have hout : (Model.dbRun (.keyRename k nk) now db).out = .error .keyType := by
    rw [show obs (.keyRename k nk) = id from rfl] at href
    rw [show (Model.dbRun (.keyRename k nk) now db).out = _ from href.1]
    simp [Spec.step, Spec.keyRename, hg, hg2, hne', hty, Spec.er]
  exact ⟨hout, Redka.Proofs.NoTrace.refusal_notrace_db hout⟩

/-- `RenameNX` onto a visible key of any type: `false`, and no table row changes. -/
theorem renameNX_refuses_existing : ∀ (k nk : Bytes) (e e' : Entry) (now : Int) (db : DB), db.Inv →
    k ≠ [] → Spec.get (Spec.abs now db) k = some e → Spec.get (Spec.abs now db) nk = some e' →
    let r := Model.dbRun (.keyRenameNX k nk) now db
    r.out = .ok (.bool false) ∧ r.db = db := by
  intro k nk e e' now db h hk hg hg2
  have hemp : EmptyName (.keyRenameNX k nk) now db = false := by
    cases k with
    | nil => exact absurd rfl hk
    | cons _ _ => rfl
  have href := key_refines_partial (.keyRenameNX k nk) now db rfl h rfl hemp rfl rfl
  have hout : (Model.dbRun (.keyRenameNX k nk) now db).out = .ok (.bool false) := by
    rw [show obs (.keyRenameNX k nk) = id from rfl] at href
    rw [show (Model.dbRun (.keyRenameNX k nk) now db).out = _ from href.1]
    by_cases hkk : k = nk
    · subst hkk
      simp [Spec.step, Spec.keyRenameNX, hg, Spec.ok]
    · have : (k == nk) = false := by simpa using hkk
      simp [Spec.step, Spec.keyRenameNX, hg, hg2, this, Spec.ok]
  refine ⟨hout, ?_⟩
  have hrun : Model.dbRun (.keyRenameNX k nk) now db = Model.keyRenameNX db k nk now :=
    update_keyRenameNX db k nk now
  rw [hrun] at hout ⊢
  exact Redka.Proofs.NoTrace.keyRenameNX_false hout

/-- `ExpireAt` on a visible key sets its expiry and nothing else; an instant that is not in the
future makes the key disappear at once. -/
theorem expireAt_sets_expiry : ∀ (k : Bytes) (t : Int) (e : Entry) (now : Int) (db : DB), db.Inv →
    Spec.get (Spec.abs now db) k = some e →
    let r := Model.dbRun (.keyExpireAt k t) now db
    r.out = .ok .nil ∧
    Spec.get (Spec.abs now r.db) k = if t > now then some { e with etime := some t } else none := by
  intro k t e now db h hg
  have hw := DB.Inv.wf h
  have href := keyExpireAt_refines hw now k t
  simp only [Refines, Spec.keyExpireAt, hg, Spec.ok] at href
  refine ⟨href.1, ?_⟩
  show Spec.get (Spec.abs now (Model.keyExpireAt db k t now).db) k = _
  rw [href.2, get_purge ((sorted_abs hw.names now).put k _), get_put]
  simp [liveAt]

/-- `Persist` on a visible key clears its expiry and nothing else. -/
theorem persist_clears_expiry : ∀ (k : Bytes) (e : Entry) (now : Int) (db : DB), db.Inv →
    Spec.get (Spec.abs now db) k = some e →
    let r := Model.dbRun (.keyPersist k) now db
    r.out = .ok .nil ∧ Spec.get (Spec.abs now r.db) k = some { e with etime := none } := by
  intro k e now db h hg
  have hw := DB.Inv.wf h
  have href := keyPersist_refines hw now k
  simp only [Refines, Spec.keyPersist, hg, Spec.ok] at href
  refine ⟨href.1, ?_⟩
  show Spec.get (Spec.abs now (Model.keyPersist db k now).db) k = _
  rw [href.2, get_purge ((sorted_abs hw.names now).put k _), get_put]
  simp [liveAt]

/-! ### one name, one type -/

/-- "a type-specific write to a key of another type is refused with a type error, a type-specific
read of it sees nothing, and neither changes anything" — for each of the 54 type-specific
operations that name exactly one key (`Model.singleKey`), on any tables satisfying the invariant
in which that name is visibly held by a key of another type (`Spec.crossType`):

  * no table row changes;
  * an operation that would create the key if the name were free (`Model.creates`: set, increment,
    push, add, hash set …) reports `ErrKeyType`;
  * every other operation — the reads, and the writes that only touch existing elements (pop,
    delete, trim, list set, list insert) — answers exactly what it answers on an empty database.

`Set(...).IfExists()` counts as a read here: for it "the key exists" means "a string exists"
(C01 `setcmd_matrix`). Operations naming several keys are the business of their families. -/
theorem wrong_type_refused_notrace : ∀ (op : Op) (k : Bytes) (now : Int) (db : DB), db.Inv →
    singleKey op = some k → Spec.crossType op now db = true →
    let r := Model.dbRun op now db
    r.db = db ∧ r.out = if creates op then .error .keyType else (Model.dbRun op now {}).out := by
  intro op k now db hinv hsk hc
  obtain ⟨_, t, hty⟩ := opKeys_single hsk
  obtain ⟨r, hl, hne⟩ := crossType_single hsk hty hc
  exact cross_type_single (DB.Inv.wf hinv).names hsk hty hl hne

/-- … in particular the abstract keyspace is what it was -/
theorem wrong_type_keyspace_unchanged : ∀ (op : Op) (k : Bytes) (now : Int) (db : DB), db.Inv →
    singleKey op = some k → Spec.crossType op now db = true →
    Spec.abs now (Model.dbRun op now db).db = Spec.abs now db := by
  intro op k now db hinv hsk hc
  rw [(wrong_type_refused_notrace op k now db hinv hsk hc).1]

/-! ### the deviations are real -/

def bA : Bytes := [97]           -- "a"
def bB : Bytes := [98]           -- "b"
def bL : Bytes := [108]          -- "l"
def bN : Bytes := [110]          -- "n", not stored
def bM : Bytes := [109]          -- "m", not stored

/-- the key names a listing carries, in the order given -/
def outNames : Out → Option (List Bytes)
  | .ok (.list l) => some (l.filterMap (fun v => match v with | .key r => some r.key | _ => none))
  | _ => none

/-- one string key "a" = "x" whose expiry (5) has passed at `now = 10`, not yet cleaned up -/
def dbStale : DB :=
  { keys := [{ id := 1, key := bA, ty := 1, version := 1, etime := some 5, mtime := 0, len := none }],
    strs := [{ kid := 1, value := [120] }] }

/-- D06 is real. At 10 the keyspace is empty, `Len` must answer 0; the model (like the code, which
counts the rows of `rkey` without the expiry guard) answers 1. -/
theorem len_counts_expired_deviates :
    dbStale.Inv ∧ LenStale .keyLen 10 dbStale = true ∧
    (Model.dbRun .keyLen 10 dbStale).out = .ok (.int 1) ∧
    (Spec.step .keyLen 10 (Spec.abs 10 dbStale)).out = .ok (.int 0) := by
  refine ⟨by unfold DB.Inv; decide, by decide, by rfl, C01.out_of_outInt (by decide +kernel)⟩

/-- one string key whose name is the empty byte string, value "x", no expiry -/
def dbEmptyName : DB :=
  { keys := [{ id := 1, key := [], ty := 1, version := 1, etime := none, mtime := 0, len := none }],
    strs := [{ kid := 1, value := [120] }] }

/-- D18 is real. The key "" exists (`Get`, `Exists` see it), so renaming it to "a" must succeed;
the model (like the code, whose `Key.Exists()` is `key != ""`) answers `ErrNotFound`. -/
theorem empty_name_rename_deviates :
    dbEmptyName.Inv ∧ EmptyName (.keyRename [] bA) 10 dbEmptyName = true ∧
    (Model.dbRun (.keyExists []) 10 dbEmptyName).out = .ok (.bool true) ∧
    (Model.dbRun (.keyRename [] bA) 10 dbEmptyName).out = .error .notFound ∧
    (Spec.step (.keyRename [] bA) 10 (Spec.abs 10 dbEmptyName)).out = .ok .nil ∧
    (Model.dbRun (.keyRenameNX [] bA) 10 dbEmptyName).out = .error .notFound ∧
    (Spec.step (.keyRenameNX [] bA) 10 (Spec.abs 10 dbEmptyName)).out = .ok (.bool true) := by
  refine ⟨by unfold DB.Inv; decide, by decide, by rfl, by rfl, by rfl, by rfl, by rfl⟩

/-- the pattern `k[!a-c]` -/
def pBang : Bytes := [107, 91, 33, 97, 45, 99, 93]

/-- one string key "kd" -/
def dbKd : DB :=
  { keys := [{ id := 1, key := [107, 100], ty := 1, version := 1, etime := none, mtime := 0, len := none }],
    strs := [{ kid := 1, value := [120] }] }

/-- D16 is real. `k[!a-c]` is documented to select `kd`; for SQLite's GLOB the class is `!abc`,
and the model (like the code) lists nothing. The pattern and the name are inside the judged
domain. -/
theorem bang_class_keys_deviates :
    dbKd.Inv ∧ BangClass (.keyKeys pBang) = true ∧ Judged (.keyKeys pBang) 10 dbKd = true ∧
    outNames (obs (.keyKeys pBang) (Model.dbRun (.keyKeys pBang) 10 dbKd).out) = some [] ∧
    outNames (Spec.step (.keyKeys pBang) 10 (Spec.abs 10 dbKd)).out = some [[107, 100]] := by
  have hm : Glob.sqliteGlob pBang [107, 100] = false := by
    show Glob.sqliteGlob [107, 91, 33, 97, 45, 99, 93] [107, 100] = false
    glob_unfold
  refine ⟨by unfold DB.Inv; decide, by decide +kernel, by decide +kernel, ?_, by decide +kernel⟩
  show outNames (obs (.keyKeys pBang) (Model.keyKeys dbKd pBang 10).out) = some []
  simp [Model.keyKeys, dbKd, hm, Res.ok, obs, Except.map, projV, projL, sortKeyVals, sortBy, outNames]

/-- Hence the refinement statement without the classifiers is false. -/
theorem full_strength_is_false :
    ¬ (∀ (op : Op) (now : Int) (db : DB), IsFamOp op → db.Inv → Judged op now db = true →
        obs op (Model.dbRun op now db).out = (Spec.step op now (Spec.abs now db)).out ∧
        Spec.abs now (Model.dbRun op now db).db
          = Spec.purge now (Spec.step op now (Spec.abs now db)).st) := by
  intro h
  have h1 := (h (.keyRename [] bA) 10 dbEmptyName rfl empty_name_rename_deviates.1 rfl).1
  rw [show obs (.keyRename [] bA) = id from rfl, id, empty_name_rename_deviates.2.2.2.1,
    empty_name_rename_deviates.2.2.2.2.1] at h1
  cases h1

/-- … and each classifier is needed on its own: dropping only `LenStale` is refuted by
`dbStale`, dropping only `BangClass` by `dbKd`. -/
theorem lenStale_is_needed :
    ¬ (∀ (now : Int) (db : DB), db.Inv →
        (Model.dbRun .keyLen now db).out = (Spec.step .keyLen now (Spec.abs now db)).out) := by
  intro h
  have h1 := h 10 dbStale len_counts_expired_deviates.1
  rw [len_counts_expired_deviates.2.2.1, len_counts_expired_deviates.2.2.2] at h1
  cases h1

theorem bangClass_is_needed :
    ¬ (∀ (p : Bytes) (now : Int) (db : DB), db.Inv → Judged (.keyKeys p) now db = true →
        obs (.keyKeys p) (Model.dbRun (.keyKeys p) now db).out
          = (Spec.step (.keyKeys p) now (Spec.abs now db)).out) := by
  intro h
  have h1 := congrArg outNames
    (h pBang 10 dbKd bang_class_keys_deviates.1 bang_class_keys_deviates.2.2.1)
  rw [bang_class_keys_deviates.2.2.2.1, bang_class_keys_deviates.2.2.2.2] at h1
  cases h1

/-! ### rename onto an expired leftover (the catalogue's D05 does not apply) -/

/-- a live string "a" = "x" (id 1) and a list "b" = ["e"] (id 2) whose expiry (5) has passed at
`now = 10`, not yet cleaned up -/
def dbStaleDest : DB :=
  { keys := [
      { id := 1, key := bA, ty := 1, version := 1, etime := none, mtime := 0, len := none },
      { id := 2, key := bB, ty := 2, version := 1, etime := some 5, mtime := 0, len := some 1 }],
    strs := [{ kid := 1, value := [120] }],
    lists := [{ kid := 2, pos := 0, elem := [101] }] }

/-- `Rename("a", "b")` at 10: the catalogue flags the call (D05), yet the model does what the
specification asks — the expired list row and its element are deleted, the string moves to "b",
and the tables satisfy the audit. -/
theorem rename_onto_stale_example :
    dbStaleDest.Inv ∧ C01.Stale (.keyRename bA bB) 10 dbStaleDest = true ∧
    (Model.dbRun (.keyRename bA bB) 10 dbStaleDest).db
      = { keys := [{ id := 1, key := bB, ty := 1, version := 2, etime := none, mtime := 10, len := none }],
          strs := [{ kid := 1, value := [120] }] } ∧
    Spec.abs 10 (Model.dbRun (.keyRename bA bB) 10 dbStaleDest).db = [(bB, ⟨.str [120], none⟩)] ∧
    (Spec.step (.keyRename bA bB) 10 (Spec.abs 10 dbStaleDest)).st = [(bB, ⟨.str [120], none⟩)] ∧
    (Model.dbRun (.keyRename bA bB) 10 dbStaleDest).db.Inv := by
  refine ⟨by unfold DB.Inv; decide, by decide, by decide, by decide, by decide +kernel,
    by unfold DB.Inv; decide⟩

/-! ### why "starts empty" needs `foreign_keys` (D14) -/

/-- one set "s" (id 1) with the members "1" and "2" -/
def dbOneSet (fk : Bool) : DB :=
  { keys := [{ id := 1, key := [115], ty := 3, version := 2, etime := none, mtime := 0, len := some 2 }],
    sets := [{ rowid := 1, kid := 1, elem := [49] }, { rowid := 2, kid := 1, elem := [50] }],
    fk := fk }

/-- With `foreign_keys = 0` a deleted (or flushed) key leaves its members behind; ids are
`max + 1`, so the next key created (`SADD t z`) gets id 1 and INHERITS them: `t` reads as
`{1, 2, z}`. With `foreign_keys = 1` it is `{z}`. The keyspace right after the delete is correct
in both cases (`key_refines_partial` has no `fk` hypothesis). -/
theorem fk_off_deleted_elements_are_inherited :
    (dbOneSet false).Inv ∧
    Spec.abs 10 (Model.dbRun (.keyDelete [[115]]) 10 (dbOneSet false)).db = [] ∧
    Spec.abs 10 (Model.dbRun (.setAdd [116] [[122]]) 10
        (Model.dbRun (.keyDelete [[115]]) 10 (dbOneSet false)).db).db
      = [([116], ⟨.set [[49], [50], [122]], none⟩)] ∧
    Spec.abs 10 (Model.dbRun (.setAdd [116] [[122]]) 10
        (Model.dbRun .keyDeleteAll 10 (dbOneSet false)).db).db
      = [([116], ⟨.set [[49], [50], [122]], none⟩)] ∧
    Spec.abs 10 (Model.dbRun (.setAdd [116] [[122]]) 10
        (Model.dbRun (.keyDelete [[115]]) 10 (dbOneSet true)).db).db
      = [([116], ⟨.set [[122]], none⟩)] := by
  refine ⟨by unfold DB.Inv; decide, by decide, by decide, by decide, by decide⟩

/-- so `delete_then_fresh_key_starts_empty` needs `fk = true` -/
theorem fresh_key_starts_empty_needs_fk :
    ¬ ∀ (ks : List Bytes) (now : Int) (db : DB), db.Inv →
        (Model.dbRun (.keyDelete ks) now db).db.Inv := by
  intro h
  have := h [[115]] 10 (dbOneSet false) (by unfold DB.Inv; decide)
  revert this
  unfold DB.Inv
  decide

/-! ### non-vacuity: the hypotheses are satisfiable for every kind of operation -/

/-- a live string "a" = "41", a live string "b" = "x" that expires at 100, a list "l" = ["e"] -/
def demo : DB :=
  { keys := [
      { id := 1, key := bA, ty := 1, version := 1, etime := none, mtime := 0, len := none },
      { id := 2, key := bB, ty := 1, version := 3, etime := some 100, mtime := 0, len := none },
      { id := 3, key := bL, ty := 2, version := 1, etime := none, mtime := 0, len := some 1 }],
    strs := [{ kid := 1, value := [52, 49] }, { kid := 2, value := [120] }],
    lists := [{ kid := 3, pos := 0, elem := [101] }] }

example : demo.Inv := by unfold DB.Inv; decide

/-- every hypothesis of `key_refines_partial` holds for an operation of each kind on `demo` -/
example : ∀ op ∈ [Op.keyCount [bA, bN, bL], .keyDelete [bA, bL, bN], .keyDeleteAll, .keyExists bB,
      .keyExists bN, .keyExpire bB 50, .keyExpireAt bA 5, .keyGet bL, .keyGet bN,
      .keyKeys (str "*"), .keyKeys (str "[a-b]"), .keyKeys (str "[^a]"), .keyLen, .keyPersist bB,
      .keyRandom (some bA), .keyRandom none, .keyRename bA bN, .keyRename bA bB, .keyRename bA bL,
      .keyRename bN bA, .keyRenameNX bA bN, .keyRenameNX bA bB],
    IsFamOp op ∧ LenStale op 10 demo = false ∧ EmptyName op 10 demo = false ∧
      BangClass op = false ∧ Judged op 10 demo = true := by
  decide +kernel

/-- the classifiers do fire: `Len` on a table with an expired row, a rename of the key "" -/
example : LenStale .keyLen 10 dbStale = true ∧ EmptyName (.keyRenameNX [] bA) 10 dbEmptyName = true ∧
    BangClass (.keyKeys pBang) = true ∧ Judged (.keyKeys [200]) 10 demo = false := by
  decide +kernel

/-- the theorem instantiated: `Rename("a", "b")` on `demo` replaces the string "b" (same type) and
the value "41" arrives without expiry; "a" is gone; the list "l" is untouched -/
example :
    (Model.dbRun (.keyRename bA bB) 10 demo).out = .ok .nil ∧
    Spec.abs 10 (Model.dbRun (.keyRename bA bB) 10 demo).db
      = [(bB, ⟨.str [52, 49], none⟩), (bL, ⟨.list [[101]], none⟩)] := by
  have h := key_refines_partial (.keyRename bA bB) 10 demo rfl (by unfold DB.Inv; decide) rfl rfl rfl rfl
  refine ⟨by rw [show obs (.keyRename bA bB) = id from rfl] at h; exact h.1.trans (by rfl), ?_⟩
  rw [h.2]; decide +kernel

/-- the clause instantiated: `Rename("a", "l")` is refused, the list being of another type -/
example :
    (Model.dbRun (.keyRename bA bL) 10 demo).out = .error .keyType ∧
    (Model.dbRun (.keyRename bA bL) 10 demo).db = demo :=
  rename_refuses_other_type bA bL ⟨.str [52, 49], none⟩ ⟨.list [[101]], none⟩ 10 demo
    (by unfold DB.Inv; decide) (by decide) (by decide) (by decide) (by decide) (by decide)

/-- the clause instantiated: an `ExpireAt` in the past makes the key disappear at once -/
example : Spec.get (Spec.abs 10 (Model.dbRun (.keyExpireAt bA 5) 10 demo).db) bA = none :=
  (expireAt_sets_expiry bA 5 ⟨.str [52, 49], none⟩ 10 demo (by unfold DB.Inv; decide)
    (by decide)).2.trans (by decide)

/-- every hypothesis of `wrong_type_refused_notrace` holds for operations of each type on `demo`
("a" is a string, "l" a list) -/
example : ∀ op ∈ [Op.listPushBack bA [120], .listLen bA, .listPopFront bA, .listRange bA 0 (-1),
      .setAdd bA [[120]], .setItems bL, .hashSet bL [102] [118], .hashGet bA [102], .hashLen bL,
      .zAdd bA [109] (.fin 1), .zLen bL, .zRangeRank bA 0 5 false, .strSet bL [120], .strGet bL,
      .strIncr bL 1, .strSetWith bL [120] { ifExists := true }],
    (singleKey op).isSome = true ∧ Spec.crossType op 10 demo = true := by
  decide +kernel

/-- the theorem instantiated: a push onto the string "a" is refused, its length as a list is 0 -/
example :
    (Model.dbRun (.listPushBack bA [120]) 10 demo).out = .error .keyType ∧
    (Model.dbRun (.listPushBack bA [120]) 10 demo).db = demo ∧
    (Model.dbRun (.listLen bA) 10 demo).out = .ok (.int 0) := by
  have h1 := wrong_type_refused_notrace (.listPushBack bA [120]) bA 10 demo (by unfold DB.Inv; decide)
    rfl (by decide)
  have h2 := wrong_type_refused_notrace (.listLen bA) bA 10 demo (by unfold DB.Inv; decide)
    rfl (by decide)
  exact ⟨h1.2, h1.1, h2.2⟩

/-- a run on `demo` that satisfies the hypotheses of `keyspace_seq_refines`: create "n", give it
five milliseconds to live, rename it, read it under the new name, let it expire, run the cleaner,
count and list what is left -/
def demoRun : List (Op × Int) :=
  [(.strSet bN [55], 10), (.keyExpire bN 5, 10), (.keyRename bN bM, 11), (.strGet bM, 12),
   (.keyExists bN, 12), (.keyDeleteExpired 0, 20), (.keyLen, 20), (.keyKeys (str "*"), 20),
   (.keyDelete [bA, bM], 21), (.keyCount [bA, bB, bL], 21)]

instance decCleanRun : ∀ tr db, Decidable (CleanRun tr db)
  | [], _ => isTrue trivial
  | (op, now) :: rest, db =>
    have := decCleanRun rest (Model.dbRun op now db).db
    inferInstanceAs (Decidable (_ ∧ _ ∧ _))

example : C01.ClockOk 10 demoRun ∧ CleanRun demoRun demo := by decide +kernel

/-- what the abstract keyspace answers along that run: the renamed key is read under its new
name, is gone at 20, `Len` is 3, the final count is 2 -/
example : ((runSpec demoRun (Spec.abs 10 demo)).1.filterMap (fun o => match o with
      | .ok (.int i) => some (Sum.inl i)
      | .ok (.bytes b) => some (Sum.inr b)
      | _ => none))
    = [.inr [55], .inl 3, .inl 1, .inl 2] := by
  decide +kernel

example : (runSpec demoRun (Spec.abs 10 demo)).2
    = [(bB, ⟨.str [120], some 100⟩), (bL, ⟨.list [[101]], none⟩)] := by
  decide +kernel

end Redka.Props.C06
