/-
  C02 — lists behave like in-memory slices (refinement).

  "For every sequence of list operations (push and pop at both ends, pop-and-push between lists,
  insert before/after a pivot, set by index, remove occurrences from front, back or all, trim,
  range, index, length) each key holds exactly the sequence an in-memory slice would hold and each
  call returns what the slice operation returns. Index arguments follow the Redis rules: negative
  indexes count from the tail, out-of-range bounds are clamped, inverted or empty ranges select
  nothing, and a missing key reads as an empty list and never as an error. A list keeps accepting
  inserts at any position for as long as it exists, and its reported length always equals the
  number of elements a full range returns."

  What is proved here. `Model.dbRun` is the statement-level model of the `DB`-level methods of
  `internal/rlist` over the tables `rkey` and `rlist`; `Spec.step` is the in-memory slice;
  `Spec.abs now db` is the keyspace a table state stands for at clock value `now`: a list key
  stands for the elements of its `rlist` rows in the order of their positions (`pos`, a double,
  here an exact `Dyadic`). The refinement theorem says that one call of ANY of the fifteen list
  operations on any table state satisfying the structural invariant C11 (`DB.Inv`), with any
  arguments and any clock value, returns what the slice returns and leaves tables that stand for
  the slice's new state — outside narrow, decidable classes of inputs on which the real code (and
  therefore the model) is known to deviate:

    * `Stale` (D05): the operation writes to a name whose stored key row has expired but has not
      been cleaned up yet (push, pop-and-push destination; the catalogue also lists insert, where
      it is harmless);
    * `Collides` (D03): an insert whose computed midpoint is already taken (`sqlUnique`).

  The theorem comes in three forms that differ only in how the position arithmetic of the
  statements that add a row (`max + 1`, `min - 1`, `pivot ± 1`, `(a + b) / 2`, computed in doubles;
  `round53`, `mid53` in the model) is constrained:

    1. `list_refines_partial` — under `Spacious`: the new position lies strictly on the correct
       side of its neighbours. This is exactly what the proof needs and it is decidable on the
       tables; it implies `¬ Collides` (`spacious_not_collides`).
    2. `list_refines_partial_exact` — under `Exact`: no rounding happens in the sum the statement
       computes (`exact_spacious`). True for integer positions below 2^52 and midpoints with few
       bits (`ListPos.pushRoom_of_small_ints`, `ListPos.insertRoom_of_grid`).
    3. `list_refines_partial_repr` — for tables whose positions are doubles (`Representable`, what
       the `real` column can hold; preserved by every list operation,
       `list_preserves_representable`) under `AnyCollides = false`: the model's own collision
       test. Here NO side condition on the arithmetic is left: rounding to 53 bits never crosses a
       representable number (`Proofs/ListRound.lean`), so a new position can only be misplaced by
       coinciding with a neighbour (`spacious_of_representable`). `AnyCollides` is D03 for the
       inserts; for a push it is the same `sqlUnique` failure, which the catalogue does NOT list
       (`push_collision_deviates`: `max = 2^53`, reachable only after 2^53 pushes to one end).
       `Spacious` can fail without a collision only for positions that are not doubles
       (`unrepresentable_position_deviates`), which SQLite cannot store.

  All deviations are shown to be real by concrete witnesses, so the full-strength statement is
  false (`full_strength_is_false`, `without_d03_is_false`).

  `list_seq_refines` / `list_seq_refines_repr` lift the single step to any sequence of list
  operations at non-decreasing clock values; they rest on `list_preserves_lwf` (every list
  operation keeps `DB.LWF`, for every state and argument, deviation classes included) and
  `Spec.abs_mono`.

  Scope notes.
    * `Covered` is every constructor of the family: nothing is excluded.
    * Index and count arguments are Go `int`s; `Op` carries unbounded `Int`s. The model does no
      fixed-width arithmetic on them and the theorems hold for all integers, so no `ArgsInRange`
      hypothesis is needed.
    * Results are compared with `=` (list results never contain key rows).
    * The exponent range of doubles (overflow, subnormals) is not modelled: `round53` rounds the
      significand only.

  Only property theorems and non-vacuity examples live here; the lemmas are in
  `RedkaModel/Proofs/ListOrd.lean` (orders, sorted lists, list surgery), `Proofs/ListRows.lean`
  (`rlist` against the abstraction, `DB.LWF`, `Stored`), `Proofs/ListRef.lean` (one refinement
  lemma per operation), `Proofs/ListPos.lean` (exact position arithmetic) and
  `Proofs/ListRound.lean` (rounding never crosses a double).
-/
import RedkaModel.Proofs.ListRef
import RedkaModel.Proofs.ListPos
import RedkaModel.Proofs.ListRound

namespace Redka.Props.C02

open Redka Redka.Model Redka.Spec Redka.DB Redka.Proofs.Index Redka.ListPos Redka.ListRound

/-! ### the family -/

/-- the operations of `DB.List()` -/
def isListOp : Op → Bool
  | .listDelete .. | .listDeleteBack .. | .listDeleteFront .. | .listGet .. | .listInsertAfter ..
  | .listInsertBefore .. | .listLen _ | .listPopBack _ | .listPopBackPushFront .. | .listPopFront _
  | .listPushBack .. | .listPushFront .. | .listRange .. | .listSet .. | .listTrim .. => true
  | _ => false

def IsListOp (op : Op) : Prop := isListOp op = true

instance (op : Op) : Decidable (IsListOp op) := inferInstanceAs (Decidable (_ = true))

/-- every operation of the family is covered by `list_refines_partial` -/
def Covered : Op → Bool := isListOp

/-! ### the classifiers of known deviations -/

/-- D05, exactly as in `Spec.known` -/
def Stale (op : Op) (now : Int) (db : DB) : Bool :=
  (Spec.writeKeys op).any (Spec.staleKey db now)

/-- D03, exactly as in `Spec.known`: the model's own collision test -/
def Collides (op : Op) (now : Int) (db : DB) : Bool :=
  match op with
  | .listInsertAfter .. | .listInsertBefore .. =>
    (match (Model.tx true op now db).out with
     | .error .sqlUnique => true
     | _ => false)
  | _ => false

/-- The side condition on the position arithmetic: the new row's position lies strictly on the
correct side of its neighbours (beyond the end for a push; between the pivot and its neighbour for
an insert). For pop-and-push it is judged on the tables the pop leaves (when the pop succeeds). -/
def Spacious (op : Op) (now : Int) (db : DB) : Bool :=
  match op with
  | .listPushBack k _ => pushSpacious db k false now
  | .listPushFront k _ => pushSpacious db k true now
  | .listPopBackPushFront s d =>
    (match (Model.listPop db s false now).out with
     | .ok _ => pushSpacious (Model.listPop db s false now).db d true now
     | .error _ => true)
  | .listInsertAfter k p _ =>
    (match db.liveKeyT k TList now with
     | some r => insertRoom (Model.listRows db r.id) p true
     | none => true)
  | .listInsertBefore k p _ =>
    (match db.liveKeyT k TList now with
     | some r => insertRoom (Model.listRows db r.id) p false
     | none => true)
  | _ => true

/-- The two classifiers are the entries D05, D03 of the catalogue of known findings
that the driver consults (`Spec.known`), for every list operation. -/
theorem classifiers_are_the_catalogue : ∀ (inTx : Bool) (op : Op) (now : Int) (db : DB), IsListOp op →
    Spec.known inTx op now db
      = (if Stale op now db then ["D05"] else []) ++ (if Collides op now db then ["D03"] else []) := by
  intro inTx op now db hop
  cases op <;> first | (cases hop; done) | skip
  case listRange k a b =>
    simp only [Spec.known, Stale, Collides, writeKeys, List.any_nil,
      Bool.false_eq_true, if_false, List.append_nil]
  case listTrim k a b =>
    simp only [Spec.known, Stale, Collides, writeKeys, List.any_nil,
      Bool.false_eq_true, if_false, List.append_nil]
  case listInsertAfter k p e =>
    simp only [Spec.known, Stale, Collides, Bool.false_eq_true, if_false,
      List.append_nil]
    congr 1
    split <;> simp_all
  case listInsertBefore k p e =>
    simp only [Spec.known, Stale, Collides, Bool.false_eq_true, if_false,
      List.append_nil]
    congr 1
    split <;> simp_all
  all_goals simp [Spec.known, Stale, Collides]

theorem liveListLen_eq (db : DB) (now : Int) (k : Bytes) :
    Spec.liveListLen db now k = (db.liveKeyT k TList now).map (fun r => (Model.listRows db r.id).length) :=
  rfl

/-! ### the refinement theorem -/

/-- The same under `DB.LWF`, the consequence of the invariant that the proof uses (`DB.WF`, plus:
the cached length of a list key is its number of rows, `(kid, pos)` is unique, every `rlist` row
has an owner) and that every list operation preserves (`list_preserves_lwf`). -/
theorem list_refines_lwf : ∀ (op : Op) (now : Int) (db : DB),
    IsListOp op → db.LWF → Stale op now db = false → Spacious op now db = true →
    let r := Model.dbRun op now db
    r.out = (Spec.step op now (Spec.abs now db)).out ∧
      Spec.abs now r.db = Spec.purge now (Spec.step op now (Spec.abs now db)).st := by
  intro op now db hop hw hst hsp
  cases op <;> first | (cases hop; done) | skip
  case listDelete k e => exact listDelete_refines hw now k e
  case listDeleteBack k e n => exact listDeleteN_refines hw now k e n true
  case listDeleteFront k e n => exact listDeleteN_refines hw now k e n false
  case listGet k i => exact listGet_refines hw now k i
  case listInsertAfter k p e =>
    refine listInsert_refines hw now k p e true ?_
    intro r hr
    simpa [Spacious, hr] using hsp
  case listInsertBefore k p e =>
    refine listInsert_refines hw now k p e false ?_
    intro r hr
    simpa [Spacious, hr] using hsp
  case listLen k => exact listLen_refines hw now k
  case listPopBack k => exact listPop_refines hw now k false
  case listPopBackPushFront s d =>
    have hns : staleKey db now d = false := by simpa [Stale, writeKeys] using hst
    refine listPopBackPushFront_refines hw hns ?_
    intro v hv
    simpa [Spacious, hv] using hsp
  case listPopFront k => exact listPop_refines hw now k true
  case listPushBack k e =>
    have hns : staleKey db now k = false := by simpa [Stale, writeKeys] using hst
    exact listPush_refines hw hns e false hsp
  case listPushFront k e =>
    have hns : staleKey db now k = false := by simpa [Stale, writeKeys] using hst
    exact listPush_refines hw hns e true hsp
  case listRange k a b =>
    exact listRange_refines hw now k a b
  case listSet k i e => exact listSet_refines hw now k i e
  case listTrim k a b =>
    exact listTrim_refines hw now k a b

/-- **C02, partial refinement.** One call of any list operation, on any table state satisfying the
structural invariant, for any arguments and any clock value, outside the class `Stale` (D05)
and with `Spacious` position arithmetic (which excludes `Collides`, D03; D01 and D02 are repaired: `Range`
and `Trim` refine with no side condition, `Proofs.ListRef.listRange_refines`, `listTrim_refines`): the model returns exactly what the in-memory slice returns, and the tables
afterwards stand for exactly the slice's new state.

All fifteen operations are covered (`Covered = isListOp`).

The full-strength statement (without the classifiers) is FALSE of the code: see
`insert_collision_deviates`, `stale_push_deviates`. -/
theorem list_refines_partial : ∀ (op : Op) (now : Int) (db : DB),
    IsListOp op → db.Inv → Stale op now db = false → Spacious op now db = true →
    let r := Model.dbRun op now db
    r.out = (Spec.step op now (Spec.abs now db)).out ∧
      Spec.abs now r.db = Spec.purge now (Spec.step op now (Spec.abs now db)).st :=
  fun op now db hop hinv => list_refines_lwf op now db hop (DB.Inv.lwf hinv)

theorem spec_listInsert_out_ne (s : State) (k p e : Bytes) (after : Bool) :
    (Spec.listInsert s k p e after).out ≠ .error .sqlUnique := by
  unfold Spec.listInsert
  split
  · split <;> simp [Spec.ok, Spec.er]
  · simp [Spec.er]

/-- `Spacious` excludes D03: when the new position lies strictly between its neighbours the
insert statement cannot hit the unique index. -/
theorem spacious_not_collides : ∀ (op : Op) (now : Int) (db : DB), IsListOp op → db.LWF →
    Spacious op now db = true → Collides op now db = false := by
  intro op now db hop hw hsp
  cases op <;> first | (cases hop; done) | rfl | skip
  case listInsertAfter k p e =>
    have href := (listInsert_refines hw now k p e true (by
      intro r hr; simpa [Spacious, hr] using hsp)).1
    rw [update_out] at href
    simp only [Collides, Model.tx, href]
    have hne := spec_listInsert_out_ne (abs now db) k p e true
    generalize (Spec.listInsert (abs now db) k p e true).out = o at hne
    cases o with
    | ok _ => rfl
    | error er => cases er <;> first | rfl | exact absurd rfl hne
  case listInsertBefore k p e =>
    have href := (listInsert_refines hw now k p e false (by
      intro r hr; simpa [Spacious, hr] using hsp)).1
    rw [update_out] at href
    simp only [Collides, Model.tx, href]
    have hne := spec_listInsert_out_ne (abs now db) k p e false
    generalize (Spec.listInsert (abs now db) k p e false).out = o at hne
    cases o with
    | ok _ => rfl
    | error er => cases er <;> first | rfl | exact absurd rfl hne

/-! ### `Spacious` from exact position arithmetic -/

/-- no rounding happens in the position arithmetic of the push that `sqlPush` prepares -/
def pushExactOn (db : DB) (k : Bytes) (front : Bool) (now : Int) : Bool :=
  match Model.listPushKey db k now with
  | .error _ => true
  | .ok (db1, r) => pushExact db1.lists r.id front

/-- No rounding happens in the position arithmetic of the operation: the sum `max + 1`,
`min - 1`, `pivot ± 1` or `a + b` the statement computes is a double. Holds for integer positions
below 2^52 and for midpoints with few bits (`ListPos.pushRoom_of_small_ints`,
`ListPos.insertRoom_of_grid`, `ListPos.round53_grid_add`). -/
def Exact (op : Op) (now : Int) (db : DB) : Bool :=
  match op with
  | .listPushBack k _ => pushExactOn db k false now
  | .listPushFront k _ => pushExactOn db k true now
  | .listPopBackPushFront s d =>
    (match (Model.listPop db s false now).out with
     | .ok _ => pushExactOn (Model.listPop db s false now).db d true now
     | .error _ => true)
  | .listInsertAfter k p _ =>
    (match db.liveKeyT k TList now with
     | some r => insertExact (Model.listRows db r.id) p true
     | none => true)
  | .listInsertBefore k p _ =>
    (match db.liveKeyT k TList now with
     | some r => insertExact (Model.listRows db r.id) p false
     | none => true)
  | _ => true

theorem pushSpacious_of_exact (db : DB) (k : Bytes) (front : Bool) (now : Int)
    (h : pushExactOn db k front now = true) : pushSpacious db k front now = true := by
  unfold pushExactOn at h
  unfold pushSpacious
  cases hk : Model.listPushKey db k now with
  | error e => rfl
  | ok p =>
    obtain ⟨db1, r⟩ := p
    rw [hk] at h
    exact pushRoom_of_exact _ _ _ h

/-- exact position arithmetic is `Spacious` -/
theorem exact_spacious : ∀ (op : Op) (now : Int) (db : DB), Exact op now db = true →
    Spacious op now db = true := by
  intro op now db h
  cases op <;> first | rfl | skip
  case listPushBack k e => exact pushSpacious_of_exact db k false now h
  case listPushFront k e => exact pushSpacious_of_exact db k true now h
  case listPopBackPushFront s d =>
    simp only [Exact, Spacious] at h ⊢
    cases ho : (Model.listPop db s false now).out with
    | error e => rfl
    | ok v => rw [ho] at h; exact pushSpacious_of_exact _ d true now h
  case listInsertAfter k p e =>
    simp only [Exact, Spacious] at h ⊢
    cases hk : db.liveKeyT k TList now with
    | none => rfl
    | some r => rw [hk] at h; exact insertRoom_of_exact _ _ _ h
  case listInsertBefore k p e =>
    simp only [Exact, Spacious] at h ⊢
    cases hk : db.liveKeyT k TList now with
    | none => rfl
    | some r => rw [hk] at h; exact insertRoom_of_exact _ _ _ h

/-- **C02, partial refinement, with the side condition stated on the arithmetic.** As
`list_refines_partial`, with `Spacious` replaced by `Exact`: the double-precision sum the
statement computes is exact. -/
theorem list_refines_partial_exact : ∀ (op : Op) (now : Int) (db : DB),
    IsListOp op → db.Inv → Stale op now db = false → Exact op now db = true →
    let r := Model.dbRun op now db
    r.out = (Spec.step op now (Spec.abs now db)).out ∧
      Spec.abs now r.db = Spec.purge now (Spec.step op now (Spec.abs now db)).st :=
  fun op now db hop hinv hst hex =>
    list_refines_partial op now db hop hinv hst (exact_spacious op now db hex)

/-! ### sequences of operations -/

/-- Every list operation keeps `DB.LWF` (for every state and argument, deviation classes
included). -/
theorem list_preserves_lwf : ∀ (op : Op) (now : Int) (db : DB), IsListOp op → db.LWF →
    (Model.dbRun op now db).db.LWF := by
  intro op now db hop hw
  cases op <;> first | (cases hop; done) | skip
  case listDelete k e => exact update_lwf hw (fun _ _ => listDelete_lwf hw k e now)
  case listDeleteBack k e n => exact update_lwf hw (fun _ _ => listDeleteN_lwf hw k e n true now)
  case listDeleteFront k e n => exact update_lwf hw (fun _ _ => listDeleteN_lwf hw k e n false now)
  case listGet k i =>
    show (Model.listGet db k i now).db.LWF
    unfold Model.listGet
    split
    · exact hw
    · split <;> exact hw
  case listInsertAfter k p e => exact update_lwf hw (fun _ _ => listInsert_lwf hw k p e true now)
  case listInsertBefore k p e => exact update_lwf hw (fun _ _ => listInsert_lwf hw k p e false now)
  case listLen k =>
    show (Model.listLen db k now).db.LWF
    unfold Model.listLen
    split
    · exact hw
    · split <;> exact hw
  case listPopBack k => exact update_lwf hw (fun _ _ => listPop_lwf hw k false now)
  case listPopBackPushFront s d =>
    exact update_lwf hw (fun _ hv => listPopBackPushFront_lwf hw s d now hv)
  case listPopFront k => exact update_lwf hw (fun _ _ => listPop_lwf hw k true now)
  case listPushBack k e => exact update_lwf hw (fun _ hv => listPush_lwf hw k e false now hv)
  case listPushFront k e => exact update_lwf hw (fun _ hv => listPush_lwf hw k e true now hv)
  case listRange k a b =>
    show (Model.listRange db k a b now).db.LWF
    unfold Model.listRange
    split
    · exact hw
    · simp only []
      split <;> exact hw
  case listSet k i e => exact update_lwf hw (fun _ _ => listSet_lwf hw k i e now)
  case listTrim k a b => exact update_lwf hw (fun _ _ => listTrim_lwf hw k a b now)

/-- the `DB.WF` part -/
theorem list_preserves_wf : ∀ (op : Op) (now : Int) (db : DB), IsListOp op → db.LWF →
    (Model.dbRun op now db).db.WF :=
  fun op now db hop hw => (list_preserves_lwf op now db hop hw).wf

/-- a run of timed calls on the tables: the results, and the tables at the end -/
def runModel : List (Op × Int) → DB → List Out × DB
  | [], db => ([], db)
  | (op, now) :: rest, db =>
    let r := Model.dbRun op now db
    let t := runModel rest r.db
    (r.out :: t.1, t.2)

/-- the same run on the in-memory keyspace; a key disappears when the clock reaches its expiry -/
def runSpec : List (Op × Int) → State → List Out × State
  | [], s => ([], s)
  | (op, now) :: rest, s =>
    let r := Spec.step op now (Spec.purge now s)
    let t := runSpec rest (Spec.purge now r.st)
    (r.out :: t.1, t.2)

/-- no call of the run falls into a known deviation class, judged on the tables it meets -/
def CleanRun : List (Op × Int) → DB → Prop
  | [], _ => True
  | (op, now) :: rest, db =>
    IsListOp op ∧ Stale op now db = false ∧  Spacious op now db = true ∧
      CleanRun rest (Model.dbRun op now db).db

/-- the clock does not run backwards -/
def ClockOk : Int → List (Op × Int) → Prop
  | _, [] => True
  | t, (_, now) :: rest => t ≤ now ∧ ClockOk now rest

def lastClock : Int → List (Op × Int) → Int
  | t, [] => t
  | _, (_, now) :: rest => lastClock now rest

/-- **C02 for sequences.** Any sequence of list operations at non-decreasing clock values, started
on tables satisfying the invariant and never meeting a known deviation class: every call returns
what the in-memory slices return, and at the end the tables stand for exactly those slices. -/
theorem list_seq_refines : ∀ (tr : List (Op × Int)) (t : Int) (db : DB), db.LWF → ClockOk t tr →
    CleanRun tr db →
    (runModel tr db).1 = (runSpec tr (Spec.abs t db)).1 ∧
      Spec.abs (lastClock t tr) (runModel tr db).2 = (runSpec tr (Spec.abs t db)).2
  | [], _, _, _, _, _ => ⟨rfl, rfl⟩
  | (op, now) :: rest, t, db, hw, hc, hcl => by
    obtain ⟨hop, hst, hsp, hrest⟩ := hcl
    obtain ⟨href1, href2⟩ := list_refines_lwf op now db hop hw hst hsp
    have ih := list_seq_refines rest now (Model.dbRun op now db).db
      (list_preserves_lwf op now db hop hw) hc.2 hrest
    simp only [runModel, runSpec, lastClock]
    rw [← abs_mono hw.wf.names hc.1, ← href1, ← href2]
    exact ⟨by rw [ih.1], ih.2⟩

/-- … in particular from any state satisfying the C11 invariant. -/
theorem list_seq_refines_inv : ∀ (tr : List (Op × Int)) (t : Int) (db : DB), db.Inv → ClockOk t tr →
    CleanRun tr db →
    (runModel tr db).1 = (runSpec tr (Spec.abs t db)).1 ∧
      Spec.abs (lastClock t tr) (runModel tr db).2 = (runSpec tr (Spec.abs t db)).2 :=
  fun tr t db hinv => list_seq_refines tr t db (DB.Inv.lwf hinv)

/-! ### positions that are doubles: the collision test is the exact classifier -/

/-- the model's own collision test (`sqlUnique` on `(kid, pos)`), for every operation that adds a
row: D03 for the inserts (`Collides`), and the same failure for a push, which the catalogue does
not list -/
def AnyCollides (op : Op) (now : Int) (db : DB) : Bool :=
  match (Model.tx true op now db).out with
  | .error .sqlUnique => true
  | _ => false

theorem anyCollides_insert (k p e : Bytes) (now : Int) (db : DB) :
    AnyCollides (.listInsertAfter k p e) now db = Collides (.listInsertAfter k p e) now db ∧
    AnyCollides (.listInsertBefore k p e) now db = Collides (.listInsertBefore k p e) now db :=
  ⟨rfl, rfl⟩

theorem ne_unique_of_anyCollides {op : Op} {now : Int} {db : DB} (h : AnyCollides op now db = false) :
    (Model.tx true op now db).out ≠ .error .sqlUnique := by
  intro he
  simp [AnyCollides, he] at h

theorem pushSpacious_of_repr {db : DB} {k e : Bytes} {front : Bool} {now : Int} (hr : Representable db)
    (hnc : (Model.listPush db k e front now).out ≠ .error .sqlUnique) :
    pushSpacious db k front now = true := by
  unfold pushSpacious
  cases hk : Model.listPushKey db k now with
  | error er => rfl
  | ok pr =>
    obtain ⟨db1, r⟩ := pr
    simp only []
    apply pushRoom_of_repr
    · rw [listPushKey_lists hk]; exact hr
    · cases hc : ((db1.lists.filter (fun x => x.kid == r.id)).map (·.pos)).contains
          (pushPos db1.lists r.id front) with
      | false => rfl
      | true =>
        exfalso
        apply hnc
        rw [listPush_eq, hk]
        simp only []
        rw [if_pos hc]
        rfl

theorem listPop_ok_bytes {db : DB} {k : Bytes} {front : Bool} {now : Int} {v : Val}
    (h : (Model.listPop db k front now).out = .ok v) : ∃ el, v = .bytes el := by
  unfold Model.listPop at h
  split at h
  · simp [Res.err] at h
  · simp only [] at h
    split at h
    · simp [Res.err] at h
    · simp only [Res.ok, Except.ok.injEq] at h
      exact ⟨_, h.symm⟩

/-- **On tables whose positions are doubles, `Spacious` is exactly "no collision".** Rounding to
53 bits never crosses a representable number (`ListRound.round53_ge_of_repr_le`,
`round53_le_of_repr_ge`), so a freshly computed position can only be misplaced by coinciding with
a neighbour — which the unique index detects. -/
theorem spacious_of_representable : ∀ (op : Op) (now : Int) (db : DB), IsListOp op →
    Representable db → AnyCollides op now db = false → Spacious op now db = true := by
  intro op now db hop hr hac
  have hne := ne_unique_of_anyCollides hac
  cases op <;> first | (cases hop; done) | rfl | skip
  case listPushBack k e => exact pushSpacious_of_repr (e := e) hr hne
  case listPushFront k e => exact pushSpacious_of_repr (e := e) hr hne
  case listPopBackPushFront s d =>
    simp only [Spacious]
    cases hpo : (Model.listPop db s false now).out with
    | error er => rfl
    | ok v =>
      obtain ⟨el, rfl⟩ := listPop_ok_bytes hpo
      simp only []
      apply pushSpacious_of_repr (e := el) (listPop_repr hr s false now)
      intro hpu
      apply hne
      show (Model.listPopBackPushFront db s d now).out = _
      simp [Model.listPopBackPushFront, hpo, hpu, Res.err]
  case listInsertAfter k p e =>
    simp only [Spacious]
    cases hk : db.liveKeyT k TList now with
    | none => rfl
    | some r =>
      simp only []
      apply insertRoom_of_repr
      · intro x hx; exact hr x (mem_rowsOf.1 hx).1
      · intro np hnp hmem
        apply hne
        show (Model.listInsert db k p e true now).out = _
        rw [listInsert_eq, hk]
        simp only [hnp]
        have : ((Model.listRows db r.id).map (·.pos)).contains np = true := by
          rw [List.contains_eq_mem]; exact decide_eq_true hmem
        rw [if_pos this]
        rfl
  case listInsertBefore k p e =>
    simp only [Spacious]
    cases hk : db.liveKeyT k TList now with
    | none => rfl
    | some r =>
      simp only []
      apply insertRoom_of_repr
      · intro x hx; exact hr x (mem_rowsOf.1 hx).1
      · intro np hnp hmem
        apply hne
        show (Model.listInsert db k p e false now).out = _
        rw [listInsert_eq, hk]
        simp only [hnp]
        have : ((Model.listRows db r.id).map (·.pos)).contains np = true := by
          rw [List.contains_eq_mem]; exact decide_eq_true hmem
        rw [if_pos this]
        rfl

/-- **C02, partial refinement, for tables whose positions are doubles** (everything SQLite can
store in the `real` column `rlist.pos`): outside `Stale` (D05) and `AnyCollides` (D03, and the same `sqlUnique` failure of a push) the model returns
exactly what the in-memory slice returns and the tables afterwards stand for the slice's new
state. No side condition on the arithmetic is left. -/
theorem list_refines_partial_repr : ∀ (op : Op) (now : Int) (db : DB),
    IsListOp op → db.Inv → Representable db → Stale op now db = false → AnyCollides op now db = false →
    let r := Model.dbRun op now db
    r.out = (Spec.step op now (Spec.abs now db)).out ∧
      Spec.abs now r.db = Spec.purge now (Spec.step op now (Spec.abs now db)).st :=
  fun op now db hop hinv hr hst hac =>
    list_refines_partial op now db hop hinv hst (spacious_of_representable op now db hop hr hac)

/-- every list operation leaves positions that are doubles -/
theorem list_preserves_representable : ∀ (op : Op) (now : Int) (db : DB), IsListOp op →
    Representable db → Representable (Model.dbRun op now db).db := by
  intro op now db hop hr
  cases op <;> first | (cases hop; done) | skip
  case listDelete k e => exact update_repr hr (listDelete_repr hr k e now)
  case listDeleteBack k e n => exact update_repr hr (listDeleteN_repr hr k e n true now)
  case listDeleteFront k e n => exact update_repr hr (listDeleteN_repr hr k e n false now)
  case listGet k i =>
    show Representable (Model.listGet db k i now).db
    unfold Model.listGet
    split
    · exact hr
    · split <;> exact hr
  case listInsertAfter k p e => exact update_repr hr (listInsert_repr hr k p e true now)
  case listInsertBefore k p e => exact update_repr hr (listInsert_repr hr k p e false now)
  case listLen k =>
    show Representable (Model.listLen db k now).db
    unfold Model.listLen
    split
    · exact hr
    · split <;> exact hr
  case listPopBack k => exact update_repr hr (listPop_repr hr k false now)
  case listPopBackPushFront s d => exact update_repr hr (listPopBackPushFront_repr hr s d now)
  case listPopFront k => exact update_repr hr (listPop_repr hr k true now)
  case listPushBack k e => exact update_repr hr (listPush_repr hr k e false now)
  case listPushFront k e => exact update_repr hr (listPush_repr hr k e true now)
  case listRange k a b =>
    show Representable (Model.listRange db k a b now).db
    unfold Model.listRange
    split
    · exact hr
    · simp only []
      split <;> exact hr
  case listSet k i e => exact update_repr hr (listSet_repr hr k i e now)
  case listTrim k a b => exact update_repr hr (listTrim_repr hr k a b now)

/-- no call of the run falls into a catalogued deviation class or hits the unique index -/
def CleanRunRepr : List (Op × Int) → DB → Prop
  | [], _ => True
  | (op, now) :: rest, db =>
    IsListOp op ∧ Stale op now db = false ∧  AnyCollides op now db = false ∧
      CleanRunRepr rest (Model.dbRun op now db).db

theorem cleanRun_of_repr : ∀ (tr : List (Op × Int)) (db : DB), db.LWF → Representable db →
    CleanRunRepr tr db → CleanRun tr db
  | [], _, _, _, _ => trivial
  | (op, now) :: rest, db, hw, hr, ⟨hop, hst, hac, hrest⟩ =>
    ⟨hop, hst, spacious_of_representable op now db hop hr hac,
      cleanRun_of_repr rest _ (list_preserves_lwf op now db hop hw)
        (list_preserves_representable op now db hop hr) hrest⟩

/-- **C02 for sequences, on tables whose positions are doubles.** Started on tables that satisfy
the invariant and store only doubles (e.g. the empty database), any sequence of list operations
at non-decreasing clock values that never meets D05 and never hits the unique index:
every call returns what the in-memory slices return, and at the end the tables stand for exactly
those slices. -/
theorem list_seq_refines_repr : ∀ (tr : List (Op × Int)) (t : Int) (db : DB), db.Inv →
    Representable db → ClockOk t tr → CleanRunRepr tr db →
    (runModel tr db).1 = (runSpec tr (Spec.abs t db)).1 ∧
      Spec.abs (lastClock t tr) (runModel tr db).2 = (runSpec tr (Spec.abs t db)).2 :=
  fun tr t db hinv hr hc hcl =>
    list_seq_refines tr t db (DB.Inv.lwf hinv) hc (cleanRun_of_repr tr db (DB.Inv.lwf hinv) hr hcl)

/-! ### the property, clause by clause -/

/-- the visible list at `k` -/
def HoldsList (now : Int) (db : DB) (k : Bytes) (l : List Bytes) : Prop :=
  ∃ et, Spec.get (Spec.abs now db) k = some ⟨.list l, et⟩

/-- "its reported length always equals the number of elements a full range returns": on a
visible list `Len` returns its length and `Range(0, -1)` returns all of it, in order. -/
theorem len_eq_full_range_count : ∀ (k : Bytes) (l : List Bytes) (now : Int) (db : DB), db.Inv →
    HoldsList now db k l →
    (Model.dbRun (.listLen k) now db).out = .ok (.int l.length) ∧
    (Model.dbRun (.listRange k 0 (-1)) now db).out = .ok (.list (l.map .bytes)) := by
  intro k l now db hinv ⟨et, hg⟩
  have hw := DB.Inv.lwf hinv
  refine ⟨?_, ?_⟩
  · have h := (listLen_refines hw now k).1
    show (Model.listLen db k now).out = _
    rw [h]; simp [Spec.listLen, Spec.listAt, hg, Spec.ok]
  · have hlive : ∃ r, db.liveKeyT k TList now = some r ∧ elems db r.id = l := by
      rcases lholder hw.wf now k with ⟨_, hg', _⟩ | ⟨_, _, _, hg', _⟩ | ⟨r, _, _, _, hg', hk⟩ |
        ⟨_, v, _, _, _, hg', hv, _⟩
      · rw [hg'] at hg; cases hg
      · rw [hg'] at hg; cases hg
      · rw [hg'] at hg; cases hg; exact ⟨r, hk, rfl⟩
      · rw [hg'] at hg; cases hg; exact absurd rfl (hv _)
    obtain ⟨r, hk, _⟩ := hlive
    have h := (listRange_refines hw now k 0 (-1)).1
    have hfull : Spec.lrange l 0 (-1) = l := by
      have h1 := range_refines l 0 (-1)
      rw [full_range_is_list] at h1
      exact h1.symm
    show (Model.listRange db k 0 (-1) now).out = _
    rw [h]
    simp [Spec.listRange, Spec.listAt, hg, Spec.ok, Spec.bytesList, hfull]

/-- "a missing key reads as an empty list and never as an error" — for `Len`, for `Range` with any
bounds (D02 repaired), and for the removals and `Trim` (nothing to remove). `Get`, `Set`, the pops
and the inserts report `ErrNotFound` by design. -/
theorem missing_key_reads_empty : ∀ (k : Bytes) (now : Int) (db : DB), db.Inv →
    Spec.get (Spec.abs now db) k = none →
    (Model.dbRun (.listLen k) now db).out = .ok (.int 0) ∧
    (∀ a b, (Model.dbRun (.listRange k a b) now db).out = .ok (.list [])) ∧
    (∀ e, (Model.dbRun (.listDelete k e) now db).out = .ok (.int 0)) ∧
    (∀ a b, (Model.dbRun (.listTrim k a b) now db).out = .ok (.int 0)) := by
  intro k now db hinv hg
  have hw := DB.Inv.lwf hinv
  have hk : db.liveKeyT k TList now = none := by
    rcases lholder hw.wf now k with ⟨_, _, hk⟩ | ⟨_, _, _, _, hk⟩ | ⟨r, _, _, _, hg', _⟩ |
      ⟨_, v, _, _, _, hg', _, _⟩
    · exact hk
    · exact hk
    · rw [hg'] at hg; cases hg
    · rw [hg'] at hg; cases hg
  refine ⟨?_, ?_, ?_, ?_⟩
  · have h := (listLen_refines hw now k).1
    show (Model.listLen db k now).out = _
    rw [h]; simp [Spec.listLen, Spec.listAt, hg, Spec.ok]
  · intro a b
    show (Model.listRange db k a b now).out = _
    rw [listRange_missing hk]
    rfl
  · intro e
    have h := (listDelete_refines hw now k e).1
    rw [show Model.dbRun (.listDelete k e) now db = update (fun d => Model.listDelete d k e now) db from rfl, h]
    simp [Spec.listDeleteAll, hg, Spec.ok]
  · intro a b
    show (update (fun d => Model.listTrim d k a b now) db).out = _
    rw [update_out]
    simp [Model.listTrim, hk, Res.ok]

/-- "push … each call returns what the slice operation returns": a push to the back of a visible
list (not stale by construction, position arithmetic `Spacious`) appends the element and returns
the new length; the expiry is untouched. -/
theorem push_back_appends : ∀ (k e : Bytes) (l : List Bytes) (et : Option Int) (now : Int) (db : DB),
    db.Inv → Spec.get (Spec.abs now db) k = some ⟨.list l, et⟩ →
    Spacious (.listPushBack k e) now db = true →
    (Model.dbRun (.listPushBack k e) now db).out = .ok (.int (l.length + 1)) ∧
    Spec.get (Spec.abs now (Model.dbRun (.listPushBack k e) now db).db) k
      = some ⟨.list (l ++ [e]), et⟩ := by
  intro k e l et now db hinv hg hsp
  have hw := DB.Inv.lwf hinv
  obtain ⟨hlive, hns⟩ := get_abs_live hw.wf hg
  have hlive : liveAt now et = true := hlive
  have href := list_refines_partial (.listPushBack k e) now db rfl hinv
    (by simpa [Stale, writeKeys] using hns) hsp
  simp only [Spec.step, Spec.listPush, hg, Spec.ok, Bool.false_eq_true, if_false] at href
  refine ⟨by rw [href.1]; simp, ?_⟩
  rw [href.2, get_purge ((sorted_abs hw.wf.names now).put k _), get_put]
  simp [hlive]

/-- a push to a missing key creates the list -/
theorem push_creates : ∀ (k e : Bytes) (front : Bool) (now : Int) (db : DB), db.Inv →
    db.findKey k = none →
    let op := if front then Op.listPushFront k e else Op.listPushBack k e
    (Model.dbRun op now db).out = .ok (.int 1) ∧
    Spec.get (Spec.abs now (Model.dbRun op now db).db) k = some ⟨.list [e], none⟩ := by
  intro k e front now db hinv hf
  have hw := DB.Inv.lwf hinv
  have hg : Spec.get (Spec.abs now db) k = none := by rw [get_abs hw.wf.names, hf]; rfl
  have hns : staleKey db now k = false := by simp [staleKey, hf]
  have hsp : pushSpacious db k front now = true := by
    unfold pushSpacious
    rw [listPushKey_eq, keyUpsert_new hf]
    simp only [pushRoom]
    show (List.filter (fun x => x.kid == db.nextKeyId) db.lists).all _ = true
    rw [hw.no_rows_fresh]; rfl
  have href := listPush_refines hw hns e front hsp
  unfold Refines at href
  simp only [Spec.listPush, hg, Spec.ok] at href
  cases front
  · refine ⟨href.1, ?_⟩
    show Spec.get (Spec.abs now (update (fun d => Model.listPush d k e false now) db).db) k = _
    rw [href.2, get_purge ((sorted_abs hw.wf.names now).put k _), get_put]
    simp [liveAt]
  · refine ⟨href.1, ?_⟩
    show Spec.get (Spec.abs now (update (fun d => Model.listPush d k e true now) db).db) k = _
    rw [href.2, get_purge ((sorted_abs hw.wf.names now).put k _), get_put]
    simp [liveAt]

theorem insertAt_length (p e : Bytes) (after : Bool) : ∀ (l l' : List Bytes),
    Spec.insertAt p e after l = some l' → l'.length = l.length + 1
  | [], _, h => by simp [Spec.insertAt] at h
  | y :: ys, l', h => by
    simp only [Spec.insertAt] at h
    split at h
    · cases h; cases after <;> simp
    · cases hrec : Spec.insertAt p e after ys with
      | none => simp [hrec] at h
      | some m =>
        simp only [hrec, Option.map_some, Option.some.injEq] at h
        subst h
        simp [insertAt_length p e after ys m hrec]

/-- "A list keeps accepting inserts at any position for as long as it exists": on a visible list
that contains the pivot, an insert with `Spacious` position arithmetic succeeds, returns the new
length and puts the element next to the first occurrence of the pivot. (Without `Spacious` the
sentence is FALSE of the code: D03, `insert_collision_deviates`.) -/
theorem insert_accepted : ∀ (k p e : Bytes) (after : Bool) (l l' : List Bytes) (et : Option Int)
    (now : Int) (db : DB), db.Inv →
    Spec.get (Spec.abs now db) k = some ⟨.list l, et⟩ → Spec.insertAt p e after l = some l' →
    let op := if after then Op.listInsertAfter k p e else Op.listInsertBefore k p e
    Spacious op now db = true →
    (Model.dbRun op now db).out = .ok (.int (l.length + 1)) ∧
    Spec.get (Spec.abs now (Model.dbRun op now db).db) k = some ⟨.list l', et⟩ := by
  intro k p e after l l' et now db hinv hg hins op hsp
  have hw := DB.Inv.lwf hinv
  obtain ⟨hlive, _⟩ := get_abs_live hw.wf hg
  have hlive : liveAt now et = true := hlive
  have hlen : l'.length = l.length + 1 := insertAt_length p e after l l' hins
  have hroom : ∀ r, db.liveKeyT k TList now = some r → insertRoom (listRows db r.id) p after = true := by
    intro r hr
    cases after <;> simpa [op, Spacious, hr] using hsp
  have href := listInsert_refines hw now k p e after hroom
  unfold Refines at href
  simp only [Spec.listInsert, hg, hins, Spec.ok] at href
  have hrun : Model.dbRun op now db = update (fun d => Model.listInsert d k p e after now) db := by
    cases after <;> rfl
  rw [hrun]
  refine ⟨by rw [href.1, hlen]; simp, ?_⟩
  rw [href.2, get_purge ((sorted_abs hw.wf.names now).put k _), get_put]
  simp [hlive]

/-- "pop … returns what the slice operation returns": a pop from the back of a visible non-empty
list returns its last element and leaves the rest. -/
theorem pop_back_returns_last : ∀ (k x : Bytes) (l : List Bytes) (et : Option Int) (now : Int) (db : DB),
    db.Inv → Spec.get (Spec.abs now db) k = some ⟨.list (l ++ [x]), et⟩ →
    (Model.dbRun (.listPopBack k) now db).out = .ok (.bytes x) ∧
    Spec.get (Spec.abs now (Model.dbRun (.listPopBack k) now db).db) k = some ⟨.list l, et⟩ := by
  intro k x l et now db hinv hg
  have hw := DB.Inv.lwf hinv
  obtain ⟨hlive, _⟩ := get_abs_live hw.wf hg
  have hlive : liveAt now et = true := hlive
  have href := listPop_refines hw now k false
  unfold Refines at href
  simp only [Spec.listPop, hg, Bool.false_eq_true, if_false, List.getLast?_append, List.getLast?_singleton,
    Option.some_or, List.dropLast_concat, Spec.ok] at href
  refine ⟨href.1, ?_⟩
  show Spec.get (Spec.abs now (update (fun d => Model.listPop d k false now) db).db) k = _
  rw [href.2, get_purge ((sorted_abs hw.wf.names now).put k _), get_put]
  simp [hlive]

/-- an emptied list still exists (and keeps accepting pushes): popping the only element leaves
the empty list, not a missing key -/
theorem emptied_list_exists : ∀ (k x : Bytes) (et : Option Int) (now : Int) (db : DB),
    db.Inv → Spec.get (Spec.abs now db) k = some ⟨.list [x], et⟩ →
    Spec.get (Spec.abs now (Model.dbRun (.listPopBack k) now db).db) k = some ⟨.list [], et⟩ :=
  fun k x et now db hinv hg => (pop_back_returns_last k x [] et now db hinv hg).2

/-! ### the deviations are real -/

def bK : Bytes := [107]          -- "k"
def bA : Bytes := [97]           -- "a"
def bB : Bytes := [98]           -- "b"
def bC : Bytes := [99]           -- "c"
def bX : Bytes := [120]          -- "x"
def bN : Bytes := [110]          -- "n", not stored

/-- one list "k" = ["a","b","c"] at positions 0, 1, 2 -/
def dbABC : DB :=
  { keys := [{ id := 1, key := bK, ty := 2, version := 1, etime := none, mtime := 0, len := some 3 }],
    lists := [{ kid := 1, pos := 0, elem := bA }, { kid := 1, pos := 1, elem := bB },
      { kid := 1, pos := 2, elem := bC }] }

/-- one list "k" = ["a","b"] at the adjacent doubles 2^53 and 2^53 + 2 -/
def dbTight : DB :=
  { keys := [{ id := 1, key := bK, ty := 2, version := 1, etime := none, mtime := 0, len := some 2 }],
    lists := [{ kid := 1, pos := 9007199254740992, elem := bA },
      { kid := 1, pos := 9007199254740994, elem := bB }] }

/-- one list "k" = ["a"] whose expiry (5) has passed at `now = 10`, not yet cleaned up -/
def dbStaleList : DB :=
  { keys := [{ id := 1, key := bK, ty := 2, version := 1, etime := some 5, mtime := 0, len := some 1 }],
    lists := [{ kid := 1, pos := 0, elem := bA }] }

/-- one list "k" = ["a"] at a position that is not a double: 2^60 + 1 (61 significant bits) -/
def dbWide : DB :=
  { keys := [{ id := 1, key := bK, ty := 2, version := 1, etime := none, mtime := 0, len := some 1 }],
    lists := [{ kid := 1, pos := 1152921504606846977, elem := bA }] }

def outErr : Out → Option Err
  | .error e => some e
  | _ => none

theorem out_of_outErr {o : Out} {e : Err} (h : outErr o = some e) : o = .error e := by
  cases o with
  | error e' => simp only [outErr, Option.some.injEq] at h; rw [h]
  | ok v => simp [outErr] at h

/-- D01 was real (`Range`), and is repaired. `Range("k", 2, 0)` on ["a","b","c"]: in-range, non-negative,
inverted bounds escape the Go shortcut; the statement used to reach SQLite as `LIMIT 2, -1` and return
["c"] (`Props.C02.raw_range_limit_deviates`); the clamped window is empty, as the slice's. -/
theorem range_inverted_agrees :
    dbABC.Inv ∧
    (Model.dbRun (.listRange bK 2 0) 10 dbABC).out = .ok (.list []) ∧
    (Spec.step (.listRange bK 2 0) 10 (Spec.abs 10 dbABC)).out = .ok (.list []) := by
  refine ⟨by unfold DB.Inv; decide, by rfl, by rfl⟩

/-- D01 was real (`Trim`), and is repaired. `Trim("k", -5, 0)` on ["a","b","c"] keeps ["a"]. -/
theorem trim_clamped_agrees :
    dbABC.Inv ∧
    (Model.dbRun (.listTrim bK (-5) 0) 10 dbABC).out = .ok (.int 2) ∧
    (Spec.step (.listTrim bK (-5) 0) 10 (Spec.abs 10 dbABC)).out = .ok (.int 2) ∧
    Spec.get (Spec.abs 10 (Model.dbRun (.listTrim bK (-5) 0) 10 dbABC).db) bK
      = some ⟨.list [bA], none⟩ ∧
    Spec.get (Spec.purge 10 (Spec.step (.listTrim bK (-5) 0) 10 (Spec.abs 10 dbABC)).st) bK
      = some ⟨.list [bA], none⟩ := by
  refine ⟨by unfold DB.Inv; decide, by rfl, by rfl, by decide +kernel, by decide +kernel⟩

/-- D02 was real, and is repaired. `Range("n", 0, -1)` of a missing key is the empty list ("a missing key
reads as an empty list and never as an error"); it used to fail with a datatype mismatch (`LIMIT NULL`). -/
theorem range_missing_agrees :
    dbABC.Inv ∧
    (Model.dbRun (.listRange bN 0 (-1)) 10 dbABC).out = .ok (.list []) ∧
    (Spec.step (.listRange bN 0 (-1)) 10 (Spec.abs 10 dbABC)).out = .ok (.list []) := by
  refine ⟨by unfold DB.Inv; decide, by rfl, by rfl⟩

/-- D03 is real. Between the adjacent doubles 2^53 and 2^53 + 2 the midpoint `(a + b) / 2` rounds
back to 2^53: the insert hits the unique index on `(kid, pos)`. The slice accepts the insert
("a list keeps accepting inserts at any position for as long as it exists"). -/
theorem insert_collision_deviates :
    dbTight.Inv ∧ Collides (.listInsertAfter bK bA bX) 10 dbTight = true ∧
    Spacious (.listInsertAfter bK bA bX) 10 dbTight = false ∧
    Stale (.listInsertAfter bK bA bX) 10 dbTight = false ∧
    (Model.dbRun (.listInsertAfter bK bA bX) 10 dbTight).out = .error .sqlUnique ∧
    (Spec.step (.listInsertAfter bK bA bX) 10 (Spec.abs 10 dbTight)).out = .ok (.int 3) := by
  refine ⟨by unfold DB.Inv; decide +kernel, by decide +kernel, by decide +kernel, by decide +kernel,
    out_of_outErr (by decide +kernel), by rfl⟩

/-- D05 is real. The list "k" expired at 5; at 10 it does not exist, so a push must create
"k" = ["x"] without expiry and return 1. The model (like the code) reuses the expired row: it
answers 2 and the key still does not exist afterwards. -/
theorem stale_push_deviates :
    dbStaleList.Inv ∧ Stale (.listPushBack bK bX) 10 dbStaleList = true ∧
    (Model.dbRun (.listPushBack bK bX) 10 dbStaleList).out = .ok (.int 2) ∧
    (Spec.step (.listPushBack bK bX) 10 (Spec.abs 10 dbStaleList)).out = .ok (.int 1) ∧
    Spec.get (Spec.abs 10 (Model.dbRun (.listPushBack bK bX) 10 dbStaleList).db) bK = none ∧
    Spec.get (Spec.purge 10 (Spec.step (.listPushBack bK bX) 10 (Spec.abs 10 dbStaleList)).st) bK
      = some ⟨.list [bX], none⟩ := by
  refine ⟨by unfold DB.Inv; decide, by decide, by rfl, by rfl, by decide +kernel, by decide +kernel⟩

/-- `Spacious` is needed beyond D03 only for positions that are not doubles: with the single row
at 2^60 + 1 (61 significant bits; SQLite cannot store it) `max + 1` rounds DOWN to 2^60, no
collision is detected and the pushed element lands in front. This is a statement about the
model's `Dyadic` positions, not about the code. -/
theorem unrepresentable_position_deviates :
    dbWide.Inv ∧ Spacious (.listPushBack bK bX) 10 dbWide = false ∧
    Stale (.listPushBack bK bX) 10 dbWide = false ∧
    Spec.get (Spec.abs 10 (Model.dbRun (.listPushBack bK bX) 10 dbWide).db) bK
      = some ⟨.list [bX, bA], none⟩ ∧
    Spec.get (Spec.purge 10 (Spec.step (.listPushBack bK bX) 10 (Spec.abs 10 dbWide)).st) bK
      = some ⟨.list [bA, bX], none⟩ := by
  refine ⟨by unfold DB.Inv; decide +kernel, by decide +kernel, by decide +kernel, by decide +kernel,
    by decide +kernel⟩

/-- one list "k" = ["a"] at position 2^53, a double whose successor 2^53 + 1 is not one -/
def dbEdge : DB :=
  { keys := [{ id := 1, key := bK, ty := 2, version := 1, etime := none, mtime := 0, len := some 1 }],
    lists := [{ kid := 1, pos := 9007199254740992, elem := bA }] }

instance : Decidable (Representable db) :=
  inferInstanceAs (Decidable (∀ x ∈ db.lists, repr53 x.pos = true))

/-- The same collision can hit a push: at `max = 2^53` the sum `max + 1` rounds back to `max` and
`sqlPushBack` fails on the unique index, where the slice accepts the push. All positions are
doubles and the invariant holds. This class is NOT in the catalogue (`Spec.known` reports
nothing): it needs 2^53 pushes to one end of one list and was never observed; it is excluded here
by `AnyCollides` (and by `Spacious`). -/
theorem push_collision_deviates :
    dbEdge.Inv ∧ Representable dbEdge ∧ AnyCollides (.listPushBack bK bX) 10 dbEdge = true ∧
    Spacious (.listPushBack bK bX) 10 dbEdge = false ∧
    Spec.known true (.listPushBack bK bX) 10 dbEdge = [] ∧
    (Model.dbRun (.listPushBack bK bX) 10 dbEdge).out = .error .sqlUnique ∧
    (Spec.step (.listPushBack bK bX) 10 (Spec.abs 10 dbEdge)).out = .ok (.int 2) := by
  refine ⟨by unfold DB.Inv; decide +kernel, by decide +kernel, by decide +kernel, by decide +kernel,
    by decide +kernel, out_of_outErr (by decide +kernel), by rfl⟩

/-- Hence the refinement statement without the classifiers is false. -/
theorem full_strength_is_false :
    ¬ (∀ (op : Op) (now : Int) (db : DB), IsListOp op → db.Inv →
        (Model.dbRun op now db).out = (Spec.step op now (Spec.abs now db)).out ∧
        Spec.abs now (Model.dbRun op now db).db
          = Spec.purge now (Spec.step op now (Spec.abs now db)).st) := by
  intro h
  have h1 := (h (.listPushBack bK bX) 10 dbStaleList rfl stale_push_deviates.1).1
  rw [stale_push_deviates.2.2.1, stale_push_deviates.2.2.2.1] at h1
  cases h1

/-- … and it stays false when only the catalogue's D05 is excluded: D03 is needed. -/
theorem without_d03_is_false :
    ¬ (∀ (op : Op) (now : Int) (db : DB), IsListOp op → db.Inv → Stale op now db = false →
        (Model.dbRun op now db).out = (Spec.step op now (Spec.abs now db)).out) := by
  intro h
  have h1 := h (.listInsertAfter bK bA bX) 10 dbTight rfl insert_collision_deviates.1
    insert_collision_deviates.2.2.2.1
  rw [insert_collision_deviates.2.2.2.2.1, insert_collision_deviates.2.2.2.2.2] at h1
  cases h1

/-! ### non-vacuity: the hypotheses are satisfiable for every kind of operation -/

def bL : Bytes := [108]          -- "l"
def bM : Bytes := [109]          -- "m"
def bS : Bytes := [115]          -- "s"

/-- a list "l" = ["a","b","a","c"] (positions -1, 0, 1/2, 1) that expires at 100, a list
"m" = ["x"], a string "s" -/
def demo : DB :=
  { keys := [
      { id := 1, key := bL, ty := 2, version := 4, etime := some 100, mtime := 0, len := some 4 },
      { id := 2, key := bM, ty := 2, version := 1, etime := none, mtime := 0, len := some 1 },
      { id := 3, key := bS, ty := 1, version := 1, etime := none, mtime := 0, len := none }],
    strs := [{ kid := 3, value := [118] }],
    lists := [{ kid := 1, pos := 0, elem := bB }, { kid := 1, pos := 1, elem := bC },
      { kid := 1, pos := -1, elem := bA }, { kid := 2, pos := 0, elem := bX },
      { kid := 1, pos := dyHalf 1, elem := bA }] }

example : demo.Inv := by unfold DB.Inv; decide +kernel

example : Spec.abs 10 demo
    = [(bL, ⟨.list [bA, bB, bA, bC], some 100⟩), (bM, ⟨.list [bX], none⟩), (bS, ⟨.str [118], none⟩)] := by
  decide +kernel

/-- every hypothesis of `list_refines_partial` holds for an operation of each kind on `demo` -/
example : ∀ op ∈ [Op.listDelete bL bA, .listDelete bN bA, .listDeleteBack bL bA 1,
      .listDeleteFront bL bA 5, .listDeleteFront bL bA (-1), .listGet bL (-1), .listGet bS 0,
      .listInsertAfter bL bA bX, .listInsertBefore bL bC bX, .listInsertAfter bL bN bX,
      .listInsertBefore bL bA bX, .listLen bL, .listLen bN, .listPopBack bL, .listPopFront bM,
      .listPopFront bS, .listPopBackPushFront bL bM, .listPopBackPushFront bL bL,
      .listPopBackPushFront bL bN, .listPopBackPushFront bL bS, .listPushBack bL bX,
      .listPushFront bL bX, .listPushBack bN bX, .listPushFront bS bX, .listRange bL 1 (-2),
      .listRange bL (-100) 100, .listRange bN 0 5, .listSet bL (-2) bX, .listSet bL 7 bX,
      .listTrim bL 1 2, .listTrim bL (-3) 100, .listTrim bN (-1) (-5)],
    IsListOp op ∧ Stale op 10 demo = false ∧  Collides op 10 demo = false ∧ Spacious op 10 demo = true := by
  decide +kernel

/-- the theorem instantiated: insert "x" after the first "a" of "l" -/
example :
    (Model.dbRun (.listInsertAfter bL bA bX) 10 demo).out = .ok (.int 5) ∧
    Spec.get (Spec.abs 10 (Model.dbRun (.listInsertAfter bL bA bX) 10 demo).db) bL
      = some ⟨.list [bA, bX, bB, bA, bC], some 100⟩ :=
  insert_accepted bL bA bX true [bA, bB, bA, bC] [bA, bX, bB, bA, bC] (some 100) 10 demo
    (by unfold DB.Inv; decide +kernel) (by decide +kernel) (by decide) (by decide +kernel)

/-- length and full range agree on "l" -/
example :
    (Model.dbRun (.listLen bL) 10 demo).out = .ok (.int 4) ∧
    (Model.dbRun (.listRange bL 0 (-1)) 10 demo).out
      = .ok (.list [.bytes bA, .bytes bB, .bytes bA, .bytes bC]) :=
  len_eq_full_range_count bL [bA, bB, bA, bC] 10 demo (by unfold DB.Inv; decide +kernel)
    ⟨some 100, by decide +kernel⟩

/-- a run on `demo` that satisfies the hypotheses of `list_seq_refines`: pushes at both ends,
an insert, a removal, pop-and-push between lists, a set, a trim, and reads after "l" expired -/
def demoRun : List (Op × Int) :=
  [(.listPushBack bL bX, 10), (.listPushFront bN bA, 11), (.listInsertBefore bL bC bB, 11),
   (.listDeleteBack bL bA 1, 12), (.listPopBackPushFront bL bN, 12), (.listSet bN (-1) bC, 13),
   (.listTrim bL 1 (-2), 13), (.listRange bL 0 (-1), 14), (.listLen bL, 200), (.listRange bN 0 10, 200)]

instance decCleanRun : ∀ tr db, Decidable (CleanRun tr db)
  | [], _ => isTrue trivial
  | (op, now) :: rest, db =>
    have := decCleanRun rest (Model.dbRun op now db).db
    inferInstanceAs (Decidable (_ ∧ _ ∧ _ ∧ _))

instance decClockOk : ∀ t tr, Decidable (ClockOk t tr)
  | _, [] => isTrue trivial
  | t, (_, now) :: rest =>
    have := decClockOk now rest
    inferInstanceAs (Decidable (t ≤ now ∧ ClockOk now rest))

example : ClockOk 10 demoRun ∧ CleanRun demoRun demo := by decide +kernel

/-- at 200 the key "l" (expiry 100) is gone; "n" = ["x","c"], "m" untouched -/
example : (runSpec demoRun (Spec.abs 10 demo)).2
    = [(bM, ⟨.list [bX], none⟩), (bN, ⟨.list [bX, bC], none⟩), (bS, ⟨.str [118], none⟩)] := by
  decide +kernel

instance decCleanRunRepr : ∀ tr db, Decidable (CleanRunRepr tr db)
  | [], _ => isTrue trivial
  | (op, now) :: rest, db =>
    have := decCleanRunRepr rest (Model.dbRun op now db).db
    inferInstanceAs (Decidable (_ ∧ _ ∧ _ ∧ _))

/-- `demo` stores doubles only, the run never hits the unique index (the hypotheses of
`list_seq_refines_repr`), and the tables at the end still store doubles only -/
example : Representable demo ∧ CleanRunRepr demoRun demo ∧ Representable (runModel demoRun demo).2 := by
  decide +kernel

/-- the hypotheses of `list_refines_partial_repr` for the operations that add a row -/
example : ∀ op ∈ [Op.listInsertAfter bL bA bX, .listInsertBefore bL bC bX, .listPushBack bL bX,
      .listPushFront bL bX, .listPushBack bN bX, .listPopBackPushFront bL bM],
    AnyCollides op 10 demo = false ∧ Exact op 10 demo = true := by
  decide +kernel

end Redka.Props.C02
