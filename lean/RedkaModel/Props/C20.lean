/-
  C20 — background reclamation.

  "Without any client action, every key that has expired is physically removed together with all of
  its elements within a bounded delay (documented as one minute), so that storage does not grow
  with keys that no longer exist; live keys are never touched by this reclamation, and reads and
  writes issued while it runs keep succeeding with correct results. Closing the database stops the
  reclamation cleanly."

  The manager is modelled in `Model/Sys.lean`; its period, its `nKeys` argument and its wiring
  (started iff not read-only, stopped by `Close`) are COMPUTED from the strings extracted from
  `redka.go`, so `period_is_one_minute` / `manager_wiring` are the tie to the source.

  What is proved
    * the period is 60 000 ms, the limit is 0 (= all expired keys per tick);
    * one tick: removes every expired row (`storage_bounded`), with `foreign_keys = 1` their child
      rows too and no orphan remains (`storage_bounded_children`), never a live row nor a child of
      a live row (`tick_touches_only_expired`), leaves the abstract keyspace of `now` and of every
      later instant unchanged (`tick_abs_unchanged`), preserves the C11 audit (`tick_preserves_inv`);
    * delay: in every history in which the scheduler delivers the ticks (`TicksDelivered`, an
      explicit hypothesis — the model cannot prove anything about a real `time.Ticker`), a key that
      expires at `e` (after the database was opened) is gone after a tick at some `t` with
      `e ≤ t < e + period` (`reclaimed_within_period`), concretely `< e + 60000`
      (`reclaimed_within_a_minute`); keys already expired at opening go with the first tick
      (`reclaimed_stale_at_open`);
    * invisibility: `ops_interleaved_with_ticks_partial` — for every history whose operations are
      `AbsCongruent` (their results and the abstract post-state depend only on the abstract
      pre-state; that is the refinement theorem proved elsewhere, taken as a hypothesis per
      operation), results and abstract keyspace are the same as in the history with all ticks
      removed.  UNCONDITIONALLY for histories of reads (`reads_interleaved_with_ticks`: same
      keyspace; key-repository reads return identical results), and identical result lists for
      histories of key-repository reads (`keyreads_outputs_equal`).
      The hypothesis cannot be dropped: D05 (`reclamation_visible_through_stale_write`) and D06
      (`keyLen_sees_reclamation`) are witnesses in the model.
    * `close_stops`: after `Close` ticks change nothing; a read-only database never reclaims.
-/
import RedkaModel.Proofs.Clean

namespace Redka.Props.C20

open Redka Redka.Model Redka.Sys Redka.Clean

/-! ### the tie to `redka.go` -/

/-- `const interval = 60 * time.Second`, `const nKeys = 0` -/
theorem period_is_one_minute : Sys.periodMs = 60000 ∧ Sys.nKeysVal = 0 := by decide

/-- the goroutine ranges over the ticker and calls `DeleteExpired(nKeys)`; it is started iff the
database is not read-only; `Close` stops it first -/
theorem manager_wiring :
    Sys.bgWired = true ∧ (∀ readonly : Bool, Sys.startsBg readonly = !readonly) ∧
    Sys.closeStopsBg = true := by decide

theorem start_spec : ∀ (readonly : Bool) (t0 : Int),
    Bg.start readonly t0 = { period := 60000, nKeys := 0, running := !readonly, t0 := t0 } := by
  intro ro t0
  have h1 := period_is_one_minute
  have h2 := manager_wiring.2.1 ro
  simp only [Bg.start, h1.1, h1.2, h2]

/-! ### one tick -/

/-- a tick is the cleaner with the manager's limit -/
theorem tick_is_cleaner : ∀ (bg : Bg) (now : Int) (db : DB),
    tick bg now db = (keyDeleteExpired db bg.nKeys now).db := fun _ _ _ => rfl

/-- live keys are never touched: a live row stays stored, and so do all its child rows
(every table, either `foreign_keys` setting, every limit) -/
theorem tick_touches_only_expired : ∀ (bg : Bg) (now : Int) (db : DB) (k : KeyRow), KeyIdsUnique db →
    k ∈ db.keys → k.live now = true →
    k ∈ (tick bg now db).keys ∧
    (tick bg now db).strs.filter (fun c => c.kid == k.id) = db.strs.filter (fun c => c.kid == k.id) ∧
    (tick bg now db).lists.filter (fun c => c.kid == k.id) = db.lists.filter (fun c => c.kid == k.id) ∧
    (tick bg now db).sets.filter (fun c => c.kid == k.id) = db.sets.filter (fun c => c.kid == k.id) ∧
    (tick bg now db).hashes.filter (fun c => c.kid == k.id) = db.hashes.filter (fun c => c.kid == k.id) ∧
    (tick bg now db).zsets.filter (fun c => c.kid == k.id) = db.zsets.filter (fun c => c.kid == k.id) := by
  intro bg now db k hu hk hl
  have hs : sel db bg.nKeys now k = false := sel_live_false hu (Int.le_refl now) hk hl
  have hg := survivor_id_not_gone hu (sel db bg.nKeys now) hk hs
  refine ⟨?_, dkw_strs_of hg, dkw_lists_of hg, dkw_sets_of hg, dkw_hashes_of hg, dkw_zsets_of hg⟩
  show k ∈ (keyDeleteExpired db bg.nKeys now).db.keys
  rw [keyDeleteExpired_keys, List.mem_filter]
  exact ⟨hk, by rw [hs]; rfl⟩

/-- nothing is created or reordered by a tick -/
theorem tick_keys_sublist : ∀ (bg : Bg) (now : Int) (db : DB), (tick bg now db).keys.Sublist db.keys := by
  intro bg now db
  show (keyDeleteExpired db bg.nKeys now).db.keys.Sublist db.keys
  rw [keyDeleteExpired_keys]; exact List.filter_sublist

/-- the keyspace every read is specified against — at the time of the tick and at every later
time — is the same before and after the tick -/
theorem tick_abs_unchanged : ∀ (bg : Bg) (now now' : Int) (db : DB), KeyIdsUnique db → now ≤ now' →
    Spec.abs now' (tick bg now db) = Spec.abs now' db :=
  fun bg _ _ _ hu hle => abs_keyDeleteExpired hu bg.nKeys hle

/-- storage does not keep keys that no longer exist: after a tick at `now` (unlimited cleaner, as
configured) no stored key row has `etime ≤ now` -/
theorem storage_bounded : ∀ (bg : Bg) (now : Int) (db : DB), bg.nKeys ≤ 0 →
    ∀ r ∈ (tick bg now db).keys, ∀ e, r.etime = some e → now < e := by
  intro bg now db hn r hr e he
  have hl := live_of_mem_keyDeleteExpired hn hr
  rw [live_iff] at hl
  have : ¬ e ≤ now := fun hle => hl ⟨e, he, hle⟩
  omega

/-- a tick on a `foreign_keys = 1` connection preserves the C11 audit -/
theorem tick_preserves_inv : ∀ (bg : Bg) (now : Int) (db : DB), db.Inv → db.fk = true →
    (tick bg now db).Inv := by
  intro bg now db hinv hfk
  show (keyDeleteExpired db bg.nKeys now).db.Inv
  rw [keyDeleteExpired_db]; exact inv_dkw hinv hfk _

/-- …and their elements: after a tick on a sound database with `foreign_keys = 1` every row of every
child table belongs to a stored key that is live at `now` — no element of a key that no longer
exists is kept -/
theorem storage_bounded_children : ∀ (bg : Bg) (now : Int) (db : DB), bg.nKeys ≤ 0 → db.Inv →
    db.fk = true →
    let post := tick bg now db
    (∀ c ∈ post.strs, ∃ k ∈ post.keys, k.id = c.kid ∧ k.live now = true) ∧
    (∀ c ∈ post.lists, ∃ k ∈ post.keys, k.id = c.kid ∧ k.live now = true) ∧
    (∀ c ∈ post.sets, ∃ k ∈ post.keys, k.id = c.kid ∧ k.live now = true) ∧
    (∀ c ∈ post.hashes, ∃ k ∈ post.keys, k.id = c.kid ∧ k.live now = true) ∧
    (∀ c ∈ post.zsets, ∃ k ∈ post.keys, k.id = c.kid ∧ k.live now = true) := by
  intro bg now db hn hinv hfk post
  have ho := owners_of_inv (tick_preserves_inv bg now db hinv hfk)
  have hl : ∀ k ∈ post.keys, k.live now = true := fun k hk => live_of_mem_keyDeleteExpired hn hk
  refine ⟨?_, ?_, ?_, ?_, ?_⟩
  · intro c hc; obtain ⟨k, hk, hid⟩ := ho.1 c hc; exact ⟨k, hk, hid, hl k hk⟩
  · intro c hc; obtain ⟨k, hk, hid⟩ := ho.2.1 c hc; exact ⟨k, hk, hid, hl k hk⟩
  · intro c hc; obtain ⟨k, hk, hid⟩ := ho.2.2.1 c hc; exact ⟨k, hk, hid, hl k hk⟩
  · intro c hc; obtain ⟨k, hk, hid⟩ := ho.2.2.2.1 c hc; exact ⟨k, hk, hid, hl k hk⟩
  · intro c hc; obtain ⟨k, hk, hid⟩ := ho.2.2.2.2 c hc; exact ⟨k, hk, hid, hl k hk⟩

/-! ### the delay -/

/-- the ticker fires in every window of one period: for `e` after the opening time there is a tick
instant `t` with `e ≤ t < e + period` -/
theorem tick_in_every_window : ∀ (bg : Bg), 0 < bg.period → ∀ e : Int, bg.t0 < e →
    ∃ k : Nat, 1 ≤ k ∧ e ≤ tickAt bg k ∧ tickAt bg k < e + bg.period :=
  fun bg hp _ he => exists_tick_in_window bg hp he

/-- the computable list of tick instants is the set of tick instants -/
theorem tickTimes_spec : ∀ (bg : Bg) (horizon t : Int),
    t ∈ tickTimes bg horizon ↔
      bg.running = true ∧ 0 < bg.period ∧ ∃ k : Nat, 1 ≤ k ∧ t = tickAt bg k ∧ t ≤ horizon :=
  mem_tickTimes

/-- Right after the `k`-th tick has been delivered no stored key row has `etime ≤ t0 + k·period`,
whatever the clients did before. -/
theorem after_delivered_tick : ∀ (bg : Bg) (db : DB) (evs : List Ev) (horizon : Int),
    bg.running = true → bg.nKeys ≤ 0 → TicksDelivered bg evs horizon →
    ∀ k : Nat, 1 ≤ k → tickAt bg k ≤ horizon →
    ∃ pre post : List Ev, evs = pre ++ Ev.tick (tickAt bg k) :: post ∧
      ∀ r ∈ (runEvents bg db (pre ++ [Ev.tick (tickAt bg k)])).2.keys,
        ∀ e', r.etime = some e' → tickAt bg k < e' := by
  intro bg db evs horizon hrun hn hd k hk hle
  obtain ⟨pre, post, hev, hnc⟩ := hd k hk hle
  refine ⟨pre, post, hev, ?_⟩
  rw [runEvents_append]
  have hbg : (runEvents bg db pre).1 = bg := runEvents_bg_of_no_close bg db pre hnc
  intro r hr e' he'
  have hstep : (runEvents (runEvents bg db pre).1 (runEvents bg db pre).2 [Ev.tick (tickAt bg k)]).2
      = tick bg (tickAt bg k) (runEvents bg db pre).2 := by
    show (step _ _ _).2 = _
    rw [hbg]; simp [step, hrun]
  rw [hstep] at hr
  exact storage_bounded bg _ _ hn r hr e' he'

/-- BOUNDED DELAY.  In a history in which the scheduler delivers the ticks up to `horizon`, for every
instant `e` after the opening time with `e + period ≤ horizon` there is a tick event at some `t`,
`e ≤ t < e + period`, right after which no stored key row has an expiry `≤ t` — in particular
none that expired at `e`. -/
theorem reclaimed_within_period : ∀ (bg : Bg) (db : DB) (evs : List Ev) (horizon : Int),
    bg.running = true → 0 < bg.period → bg.nKeys ≤ 0 → TicksDelivered bg evs horizon →
    ∀ e : Int, bg.t0 < e → e + bg.period ≤ horizon →
    ∃ (t : Int) (pre post : List Ev), evs = pre ++ Ev.tick t :: post ∧ e ≤ t ∧ t < e + bg.period ∧
      (∀ r ∈ (runEvents bg db (pre ++ [Ev.tick t])).2.keys, ∀ e', r.etime = some e' → t < e') ∧
      (∀ r : KeyRow, r.etime = some e → r ∉ (runEvents bg db (pre ++ [Ev.tick t])).2.keys) := by
  intro bg db evs horizon hrun hp hn hd e he hh
  obtain ⟨k, hk1, hlo, hhi⟩ := exists_tick_in_window bg hp he
  obtain ⟨pre, post, hev, hgone⟩ :=
    after_delivered_tick bg db evs horizon hrun hn hd k hk1 (by omega)
  refine ⟨tickAt bg k, pre, post, hev, hlo, hhi, hgone, ?_⟩
  intro r hre hmem
  have := hgone r hmem e hre
  omega

/-- keys that had already expired when the database was opened go with the first tick, one period
after opening -/
theorem reclaimed_stale_at_open : ∀ (bg : Bg) (db : DB) (evs : List Ev) (horizon : Int),
    bg.running = true → bg.nKeys ≤ 0 → TicksDelivered bg evs horizon → bg.t0 + bg.period ≤ horizon →
    ∃ pre post : List Ev, evs = pre ++ Ev.tick (bg.t0 + bg.period) :: post ∧
      ∀ r ∈ (runEvents bg db (pre ++ [Ev.tick (bg.t0 + bg.period)])).2.keys,
        ∀ e', r.etime = some e' → bg.t0 + bg.period < e' := by
  intro bg db evs horizon hrun hn hd hh
  have := after_delivered_tick bg db evs horizon hrun hn hd 1 (Nat.le_refl 1)
    (by rw [tickAt_one]; exact hh)
  rw [tickAt_one] at this
  exact this

/-- THE DOCUMENTED MINUTE.  For the manager `redka.go` starts on a writable database opened at
`t0`: under `TicksDelivered`, a key that expires at `e > t0` is physically gone after a tick at
some `t` with `e ≤ t < e + 60000` ms. -/
theorem reclaimed_within_a_minute : ∀ (t0 : Int) (db : DB) (evs : List Ev) (horizon : Int),
    TicksDelivered (Bg.start false t0) evs horizon →
    ∀ e : Int, t0 < e → e + 60000 ≤ horizon →
    ∃ (t : Int) (pre post : List Ev), evs = pre ++ Ev.tick t :: post ∧ e ≤ t ∧ t < e + 60000 ∧
      (∀ r ∈ (runEvents (Bg.start false t0) db (pre ++ [Ev.tick t])).2.keys,
        ∀ e', r.etime = some e' → t < e') ∧
      (∀ r : KeyRow, r.etime = some e → r ∉ (runEvents (Bg.start false t0) db (pre ++ [Ev.tick t])).2.keys) := by
  intro t0 db evs horizon hd e he hh
  have hs := start_spec false t0
  have := reclaimed_within_period (Bg.start false t0) db evs horizon
    (by rw [hs]; rfl) (by rw [hs]; exact (by decide : (0 : Int) < 60000))
    (by rw [hs]; exact (by decide : (0 : Int) ≤ 0)) hd e (by rw [hs]; exact he)
    (by rw [hs]; exact hh)
  rw [show (Bg.start false t0).period = 60000 from by rw [hs]] at this
  exact this

/-- the same from a well-formed history -/
theorem reclaimed_within_a_minute_wf : ∀ (t0 : Int) (db : DB) (evs : List Ev) (horizon : Int),
    WellFormed (Bg.start false t0) evs horizon →
    ∀ e : Int, t0 < e → e + 60000 ≤ horizon →
    ∃ (t : Int) (pre post : List Ev), evs = pre ++ Ev.tick t :: post ∧ e ≤ t ∧ t < e + 60000 ∧
      (∀ r : KeyRow, r.etime = some e → r ∉ (runEvents (Bg.start false t0) db (pre ++ [Ev.tick t])).2.keys) := by
  intro t0 db evs horizon hwf e he hh
  obtain ⟨t, pre, post, h1, h2, h3, _, h5⟩ := reclaimed_within_a_minute t0 db evs horizon hwf.delivered e he hh
  exact ⟨t, pre, post, h1, h2, h3, h5⟩

/-! ### reclamation is invisible to the clients -/

/-- THE HYPOTHESIS about one operation that gives the general theorem: on states with unique key
ids it keeps ids unique, and run at `now` on two states with the same abstract keyspace from `now`
on, it returns `obs`-indistinguishable results and states with the same abstract keyspace from
`now` on.  This is what the refinement theorem (every operation's abstract behaviour is a function
of `Spec.abs` of the pre-state) provides; `obs` is the observation the refinement is stated for
(results modulo ids/versions/mtimes, `Spec.outEq`).  It FAILS for the D05 operations, see
`reclamation_visible_through_stale_write`. -/
def AbsCongruent (obs : Op → Out → Out → Prop) (o : Op) : Prop :=
  OpCongruent KeyIdsUnique AbsEqFrom obs o

/-- For every history (times non-decreasing from `t`) whose operations are `AbsCongruent`: the
clients get `obs`-equal results, operation by operation, and from the last event on the abstract
keyspace is the same, as in the history with all ticks removed. -/
theorem ops_interleaved_with_ticks_partial : ∀ (obs : Op → Out → Out → Prop) (evs : List Ev) (t : Int)
    (bg : Bg) (db : DB), KeyIdsUnique db → TimesFrom t evs → (∀ o ∈ opsOf evs, AbsCongruent obs o) →
    Forall2 (ObsEq obs) (outputs bg db evs) (outputs bg db (dropTicks evs)) ∧
    (∀ now, lastTime t evs ≤ now →
      Spec.abs now (runEvents bg db evs).2 = Spec.abs now (runEvents bg db (dropTicks evs)).2) ∧
    (runEvents bg db evs).1 = (runEvents bg db (dropTicks evs)).1 := by
  intro obs evs t bg db hu ht hops
  have := simulate (obs := obs) absRel evs t bg db db hu hu (fun _ _ => rfl) ht hops
  exact ⟨this.1, this.2.1, this.2.2.1⟩

/-- UNCONDITIONAL for reads: in a history whose operations are all reads (`Spec.isRead`), with any
ticks in between, the abstract keyspace from the last event on is that of the history without
ticks (i.e. of the initial tables), and every key-repository read (`Count`, `Exists`, `Get`, `Keys`,
`Random`, `Scan`) returns the identical result. -/
theorem reads_interleaved_with_ticks : ∀ (evs : List Ev) (t : Int) (bg : Bg) (db : DB),
    KeyIdsUnique db → TimesFrom t evs → (∀ o ∈ opsOf evs, Spec.isRead o = true) →
    Forall2 (ObsEq obsRead) (outputs bg db evs) (outputs bg db (dropTicks evs)) ∧
    (∀ now, lastTime t evs ≤ now →
      Spec.abs now (runEvents bg db evs).2 = Spec.abs now (runEvents bg db (dropTicks evs)).2) := by
  intro evs t bg db hu ht hops
  have := simulate (obs := obsRead) bothRel evs t bg db db hu hu
    ⟨fun _ _ => rfl, fun _ _ => rfl⟩ ht (fun o ho => read_congruent (hops o ho))
  exact ⟨this.1, this.2.1.1⟩

/-- a history of key-repository reads returns exactly the same list of results with and without
reclamation -/
theorem keyreads_outputs_equal : ∀ (evs : List Ev) (t : Int) (bg : Bg) (db : DB),
    KeyIdsUnique db → TimesFrom t evs → (∀ o ∈ opsOf evs, isKeyRead o = true) →
    outputs bg db evs = outputs bg db (dropTicks evs) := by
  intro evs t bg db hu ht hops
  have hc : ∀ o ∈ opsOf evs, OpCongruent KeyIdsUnique
      (fun t a b => AbsEqFrom t a b ∧ LiveRowsEqFrom t a b) (fun _ x y => x = y) o := by
    intro o ho
    have hr := read_congruent (isRead_of_isKeyRead (hops o ho))
    exact ⟨hr.pres, fun now a b ga gb h => ⟨(hr.congr now a b ga gb h).1 (hops o ho), (hr.congr now a b ga gb h).2⟩⟩
  have := simulate (obs := fun _ x y => x = y) bothRel evs t bg db db hu hu
    ⟨fun _ _ => rfl, fun _ _ => rfl⟩ ht hc
  exact Forall2.eq_of_eq (fun a b h => Prod.ext h.1 h.2) this.1

/-! #### the hypothesis cannot be dropped -/

/-- an expired, not yet reclaimed list `l` (id 1, one element) -/
def staleList : DB :=
  { keys := [ { id := 1, key := [108], ty := 2, version := 1, etime := some 5, mtime := 0, len := some 1 } ],
    lists := [ { kid := 1, pos := 0, elem := [120] } ] }

/-- D05 in the model: `RPUSH l y` after the tick creates a fresh visible list; without the tick
the push goes to the stale row, keeps its passed expiry and stays invisible.  So reclamation IS
observable through the D05 operations, and `AbsCongruent` fails for them. -/
theorem reclamation_visible_through_stale_write :
    let bg := Bg.start false 0
    let evs := [Ev.tick 60000, Ev.op (.listPushBack [108] [121]) 60001]
    KeyIdsUnique staleList ∧ TimesFrom 0 evs ∧
    Spec.abs 60001 (runEvents bg staleList evs).2 = [([108], ⟨.list [[121]], none⟩)] ∧
    Spec.abs 60001 (runEvents bg staleList (dropTicks evs)).2 = [] := by
  refine ⟨?_, ?_, ?_, ?_⟩
  · rw [keyIdsUnique_iff]; decide
  · unfold TimesFrom; decide
  · decide
  · decide

theorem listPushBack_not_absCongruent : ∀ obs : Op → Out → Out → Prop,
    ¬ AbsCongruent obs (.listPushBack [108] [121]) := by
  intro obs h
  have hw := reclamation_visible_through_stale_write
  have := (ops_interleaved_with_ticks_partial obs
    [Ev.tick 60000, Ev.op (.listPushBack [108] [121]) 60001] 0 (Bg.start false 0) staleList hw.1 hw.2.1
    (by intro o ho; simp [opsOf] at ho; exact ho ▸ h)).2.1 60001 (by decide)
  rw [hw.2.2.1, hw.2.2.2] at this
  exact absurd this (by decide)

/-- D06 in the model: `Key().Len()` counts stored rows, so it sees whether the tick has run -/
theorem keyLen_sees_reclamation :
    let bg := Bg.start false 0
    let evs := [Ev.tick 60000, Ev.op .keyLen 60001]
    outputs bg staleList evs = [(.keyLen, .ok (.int 0))] ∧
    outputs bg staleList (dropTicks evs) = [(.keyLen, .ok (.int 1))] := by
  have hs := start_spec false 0
  simp only [hs]
  exact ⟨rfl, rfl⟩

/-! ### closing -/

/-- `Close` stops the ticker: afterwards tick events change nothing — the state after `close`
followed by any history is that of the same history with its ticks removed; and it stays stopped. -/
theorem close_stops : ∀ (bg : Bg) (db : DB) (evs : List Ev),
    bg.close.running = false ∧
    runEvents bg db (Ev.close :: evs) = runEvents bg db (Ev.close :: dropTicks evs) ∧
    outputs bg db (Ev.close :: evs) = outputs bg db (Ev.close :: dropTicks evs) ∧
    (runEvents bg db (Ev.close :: evs)).1.running = false := by
  intro bg db evs
  refine ⟨close_running bg, runEvents_stopped bg.close db evs (close_running bg),
    outputs_stopped bg.close db evs (close_running bg), ?_⟩
  show (runEvents bg.close db evs).1.running = false
  have : ∀ (evs : List Ev) (b : Bg) (d : DB), b.running = false → (runEvents b d evs).1.running = false := by
    intro evs
    induction evs with
    | nil => intro b d h; exact h
    | cons x xs ih =>
      intro b d h
      cases x with
      | op o now => exact ih b _ h
      | tick now =>
        show (runEvents (step b d (.tick now)).1 (step b d (.tick now)).2 xs).1.running = false
        have : step b d (.tick now) = (b, d) := by simp [step, h]
        rw [this]; exact ih b d h
      | close => exact ih b.close d (close_running b)
  exact this evs bg.close db (close_running bg)

/-- after `Close`, a history of ticks only leaves the tables exactly as they were -/
theorem close_stops_ticks : ∀ (bg : Bg) (db : DB) (evs : List Ev), (∀ ev ∈ evs, ev.isTick = true) →
    runEvents bg db (Ev.close :: evs) = (bg.close, db) :=
  fun bg db evs h => runEvents_stopped_ticks bg.close db evs (close_running bg) h

/-- a database opened read-only never reclaims -/
theorem readonly_never_reclaims : ∀ (t0 : Int) (db : DB) (evs : List Ev),
    (Bg.start true t0).running = false ∧
    runEvents (Bg.start true t0) db evs = runEvents (Bg.start true t0) db (dropTicks evs) := by
  intro t0 db evs
  have h : (Bg.start true t0).running = false := by rw [start_spec]; rfl
  exact ⟨h, runEvents_stopped _ db evs h⟩

/-! ### non-vacuity -/

/-- string `a` (id 1) expired at 5 with its value row; string `b` (id 2) expires at 200 000;
string `c` (id 3) persistent -/
def sample : DB :=
  { keys := [ { id := 1, key := [97], ty := 1, version := 1, etime := some 5, mtime := 0, len := none },
              { id := 2, key := [98], ty := 1, version := 1, etime := some 200000, mtime := 0, len := none },
              { id := 3, key := [99], ty := 1, version := 1, etime := none, mtime := 0, len := none } ],
    strs := [ { kid := 1, value := [120] }, { kid := 2, value := [121] }, { kid := 3, value := [122] } ] }

example : sample.Inv := by show _ = true; decide

/-- the tick removes exactly the expired key and its value row -/
example : tick (Bg.start false 0) 60000 sample =
    { sample with
      keys := [ { id := 2, key := [98], ty := 1, version := 1, etime := some 200000, mtime := 0, len := none },
                { id := 3, key := [99], ty := 1, version := 1, etime := none, mtime := 0, len := none } ],
      strs := [ { kid := 2, value := [121] }, { kid := 3, value := [122] } ] } := by decide

/-- the keyspace is the same before and after -/
example : Spec.abs 60000 (tick (Bg.start false 0) 60000 sample) = Spec.abs 60000 sample := by decide

/-- `b` goes with the fourth tick (240 000 ≥ 200 000), not before -/
example : ((tick (Bg.start false 0) 180000 sample).keys.map (·.id)) = [2, 3] := by decide
example : ((tick (Bg.start false 0) 240000 sample).keys.map (·.id)) = [3] := by decide

/-- a two-minute history: a read, the first tick, a write, the second tick -/
def history : List Ev :=
  [ Ev.op (.strGet [98]) 10, Ev.tick 60000, Ev.op (.strSet [100] [119]) 70000, Ev.tick 120000 ]

/-- it is well-formed for the manager of a writable database opened at 0, horizon two minutes —
so the hypotheses of the delay theorems are satisfiable -/
theorem history_wellFormed : WellFormed (Bg.start false 0) history 120000 := by
  have hs := start_spec false 0
  refine ⟨?_, ?_, ?_⟩
  · rw [hs]; unfold TimesFrom; decide
  · intro t ht
    simp only [history, List.mem_cons, List.mem_nil_iff, or_false, reduceCtorEq, false_or, Ev.tick.injEq] at ht
    rcases ht with rfl | rfl
    · exact ⟨1, Nat.le_refl 1, by rw [hs]; decide⟩
    · exact ⟨2, by decide, by rw [hs]; decide⟩
  · intro k hk hle
    rw [hs] at hle ⊢
    unfold tickAt at hle ⊢
    simp only at hle ⊢
    have : k = 1 ∨ k = 2 := by omega
    rcases this with rfl | rfl
    · exact ⟨[Ev.op (.strGet [98]) 10], [Ev.op (.strSet [100] [119]) 70000, Ev.tick 120000], rfl, by simp⟩
    · exact ⟨[Ev.op (.strGet [98]) 10, Ev.tick 60000, Ev.op (.strSet [100] [119]) 70000], [], rfl, by simp⟩

/-- and the conclusion on it: the key that expired at 5 … well before opening is gone after the first
tick; a key expiring at 1 (after opening at 0) is gone after a tick before 60 001 -/
example : ∃ (t : Int) (pre post : List Ev), history = pre ++ Ev.tick t :: post ∧ 1 ≤ t ∧ t < 1 + 60000 ∧
    (∀ r : KeyRow, r.etime = some 1 → r ∉ (runEvents (Bg.start false 0) sample (pre ++ [Ev.tick t])).2.keys) :=
  reclaimed_within_a_minute_wf 0 sample history 120000 history_wellFormed 1 (by decide) (by decide)

/-- the final state of the history: `a` reclaimed with its value, `b`, `c` and the new `d` stored -/
example : ((runEvents (Bg.start false 0) sample history).2.keys.map (·.key)) = [[98], [99], [100]] ∧
    ((runEvents (Bg.start false 0) sample history).2.strs.map (·.kid)) = [2, 3, 4] := by decide

end Redka.Props.C20
