/-
  C13 — command parsing.

  "…malformed invocations are answered with an error reply and change nothing. Command names and
  option keywords are recognised regardless of letter case, optional arguments are accepted in any
  order Redis accepts, and a value that happens to spell a keyword is still treated as a value."

  The statements are about the Lean model of `internal/parser` (`Model/Wire/Parser.lean`: the
  thirteen combinators as an interpreter over grammar descriptions), about the grammars REGENERATED
  from the Go source (`Generated/Grammar.lean`), about `command.Parse` (`Cmd/Parse.lean`) and about
  the handler chain (`Server.lean`). They hold for EVERY grammar built from the combinators and
  EVERY argument vector unless a statement names a generated table, in which case it is checked
  over that table by kernel evaluation.

  D11 (`parser.StringsN` panicked on a negative count) has been repaired in the Go tree; the model
  has no panic source left: `parser_total_no_panic` (every grammar, every argument vector),
  `parse_never_panics` (every request), `stringsN_refuses_iff`, `negative_numkeys_is_refused`;
  `grammars_with_stringsN` records where `StringsN` occurs.
  Known deviations of the real code, reproduced by the model, and how they show up here:
    D13  (repaired) `parser.Enum` and the CONFIG sub-command fold case → `enum_case_insensitive`,
         `enum_folds_case`, `grammars_with_enum`, `config_subcommand_folds_case`
    D20  `SET k v EX 0` is accepted as "no expiry" → `set_ex_zero_accepted`
  Only property theorems and non-vacuity examples live here; the lemmas are in
  `RedkaModel/Proofs/WireParser.lean`, `WireTable.lean`, `WirePanic.lean`, `WireReply.lean`,
  `WireOrder.lean`.
-/
import RedkaModel.Proofs.WireParser
import RedkaModel.Proofs.WireTable
import RedkaModel.Proofs.WirePanic
import RedkaModel.Proofs.WireReply
import RedkaModel.Proofs.WireOrder

namespace Redka.Props.C13

open Redka Redka.Wire Redka.WireProofs

/-! ### A.1 the pipeline is total: nothing panics -/

/-- **No grammar can panic, whatever the arguments** — any grammar built from the thirteen
combinators, `StringsN` included. -/
theorem parser_total_no_panic :
    ∀ (g : Grammar) (args : List Bytes), runGrammar g args ≠ .panic :=
  runGrammar_ne_panic

/-- `parser.StringsN` answers `ErrInvalidArgNum` exactly when something is left to parse and the
count slot, parsed earlier, is negative or larger than what is left … -/
theorem stringsN_refuses_iff :
    ∀ (slot nSlot : String) (args : List Bytes) (env : Env) (e : PErr),
      runP (.stringsN slot nSlot) args env = .fail e ↔
        e = .invalidArgNum ∧ args ≠ [] ∧
          (getInt env nSlot < 0 ∨ (args.length : Int) < getInt env nSlot) :=
  stringsN_fail_iff

/-- … in particular a negative count is refused (it used to panic in `make([]string, n)`: D11). -/
theorem stringsN_negative_refused :
    ∀ (slot nSlot : String) (args : List Bytes) (env : Env), args ≠ [] → getInt env nSlot < 0 →
      runP (.stringsN slot nSlot) args env = .fail .invalidArgNum :=
  WireProofs.stringsN_negative_refused

/-- Over the generated table: the grammars that contain `StringsN` are exactly the four
`numkeys` parsers. -/
theorem grammars_with_stringsN :
    grammarsWhere (fun g => hasStringsNL g.parsers) =
      ["zset.ParseZInter", "zset.ParseZInterStore", "zset.ParseZUnion", "zset.ParseZUnionStore"] :=
  stringsN_table

/-- The former D11 witness: the arguments `-1 k1` of `ZINTER` end in `ErrInvalidArgNum`. -/
theorem negative_numkeys_is_refused :
    isError .invalidArgNum (runGrammar Generated.grammar_ZInter [asciiBytes "-1", asciiBytes "k1"]) = true :=
  WireProofs.negative_numkeys_is_refused

/-- **`command.Parse` never panics**: every request, any command name, any arguments. -/
theorem parse_never_panics : ∀ req : List Bytes, ¬ poIsPanic (parse req) := by
  intro req h
  rw [parse_noPanic req] at h
  cases h

/-- no generated grammar contains a construct the extractor did not recognise -/
theorem no_unknown_constructs : grammarsWhere (fun g => hasUnknownL g.parsers) = [] :=
  unknown_table

/-! ### A.2 keywords and command names fold ASCII case -/

/-- `strings.EqualFold` as used for keywords is invariant under lower-casing either side … -/
theorem equalFold_ascii_lower :
    ∀ a n : Bytes, equalFold (a.map lowerAscii) n = equalFold a n ∧
      equalFold a (n.map lowerAscii) = equalFold a n :=
  WireProofs.equalFold_ascii_lower

/-- … and under upper-casing either side … -/
theorem equalFold_ascii_upper :
    ∀ a n : Bytes, equalFold (a.map upperAscii) n = equalFold a n ∧
      equalFold a (n.map upperAscii) = equalFold a n :=
  WireProofs.equalFold_ascii_upper

/-- … and, generally, under any change of ASCII case of the argument. -/
theorem equalFold_case_variant :
    ∀ (a a' : Bytes), CaseVariant a a' → ∀ n, equalFold a n = equalFold a' n :=
  fun _ _ h n => equalFold_caseVariant_left h n

/-- `Flag` and `Named` fire on `args[0]` iff it folds onto the name. -/
theorem flags_case_insensitive :
    (∀ (name dest : String) (a : Bytes) (r : List Bytes) (env : Env),
      runP (.flag name dest) (a :: r) env =
        if equalFold a (asciiBytes name) then .ret true r (setSlot env dest (.bool true))
        else .ret false (a :: r) env) ∧
    (∀ (name : String) (ps : List P) (a : Bytes) (r : List Bytes) (env : Env),
      runP (.named name ps) (a :: r) env =
        if equalFold a (asciiBytes name) then runNamed ps r env 0 ps.length
        else .ret false (a :: r) env) :=
  ⟨flag_step, named_step⟩

/-- **Option keywords are recognised regardless of letter case.** Whenever `Pipeline.Run` stands
before an argument `a` with only keyword-guarded parsers left (`Flag`, `Named`, `OneOf` of these,
nested to any depth), replacing `a` by any ASCII case variant does not change the outcome — the
slot environment on success, the error otherwise. -/
theorem keyword_case_insensitive :
    ∀ (fuel : Nat) (ps : List P), kwGuardedL ps = true →
      ∀ (a a' : Bytes), CaseVariant a a' → ∀ (r : List Bytes) (env : Env),
        runLoop fuel ps (a' :: r) env = runLoop fuel ps (a :: r) env :=
  runLoop_caseVariant

/-- The same for a whole grammar `positional values ++ options`: the first option keyword. -/
theorem keyword_case_insensitive_grammar :
    ∀ (g : Grammar), kwGuardedL (optTail g) = true →
      ∀ (vals : List Bytes), vals.length = positionalPrefix g →
        ∀ (a a' : Bytes), CaseVariant a a' → ∀ r : List Bytes,
          runGrammar g (vals ++ a' :: r) = runGrammar g (vals ++ a :: r) :=
  runGrammar_caseVariant

/-- **Command names are recognised regardless of letter case.** -/
theorem command_name_case_insensitive :
    ∀ (a a' : Bytes), CaseVariant a a' → ∀ rest : List Bytes, parse (a' :: rest) = parse (a :: rest) :=
  parse_name_caseVariant

/-- D13 (repaired in the Go tree): `parser.Enum` folds case and keeps the lowered value — `BEFORE`,
`Before` and `before` all select `before`; a value outside the list is a syntax error. -/
theorem enum_folds_case :
    storedBytes "where" (runP (.enum "where" ["before", "after"]) [asciiBytes "BEFORE"] []) = some (asciiBytes "before") ∧
    storedBytes "where" (runP (.enum "where" ["before", "after"]) [asciiBytes "Before"] []) = some (asciiBytes "before") ∧
    storedBytes "where" (runP (.enum "where" ["before", "after"]) [asciiBytes "before"] []) = some (asciiBytes "before") ∧
    isFail .syntaxError (runP (.enum "where" ["before", "after"]) [asciiBytes "BEFOR"] []) = true :=
  WireProofs.enum_folds_case

/-- **`Enum` values are recognised regardless of letter case**, for every list of allowed values and every
ASCII argument: the argument and its upper/lower-case variants run identically. -/
theorem enum_case_insensitive : ∀ (slot : String) (allowed : List String) (a a' : Bytes) (rest : List Bytes) (env : Env),
    a.all (· < 128) = true → a'.all (· < 128) = true → a.map lowerAscii = a'.map lowerAscii →
    runP (.enum slot allowed) (a :: rest) env = runP (.enum slot allowed) (a' :: rest) env := by
  intro slot allowed a a' rest env ha ha' h
  simp only [runP, enumLower, ha, ha', if_true, h]

/-- D13: the generated grammars that contain `Enum` (SCAN TYPE, LINSERT BEFORE|AFTER, AGGREGATE). -/
theorem grammars_with_enum :
    grammarsWhere (fun g => hasEnumL g.parsers) =
      ["key.ParseScan", "list.ParseLInsert", "zset.ParseZInter", "zset.ParseZInterStore",
       "zset.ParseZUnion", "zset.ParseZUnionStore"] :=
  enum_table

/-! ### A.3 positional values are values, whatever they spell -/

/-- **The positional prefix.** With `n = positionalPrefix g` leading `String`/`Bytes`/`Int`/`Float`
parsers and at least `n` arguments, `Pipeline.Run` binds the first `n` arguments to those slots
(`bindPos`: no keyword is consulted) and runs the option loop on the remaining arguments only. -/
theorem positional_prefix :
    ∀ (g : Grammar) (args : List Bytes), positionalPrefix g ≤ args.length → g.required ≤ args.length →
      runGrammar g args =
        match bindPos (posParsers g) (args.take (positionalPrefix g)) [] with
        | .ok env => runLoop (optTail g).length (optTail g) (args.drop (positionalPrefix g)) env
        | .error o => o :=
  runGrammar_positional

/-- **A value that happens to spell a keyword is still treated as a value.** In a successful run
of a grammar with distinct slot names, the `k`-th positional slot holds what its parser made of
the `k`-th argument and nothing else … -/
theorem positional_value_is_value :
    ∀ (g : Grammar) (args : List Bytes) (env : Env), (slotsOfL g.parsers).Nodup →
      positionalPrefix g ≤ args.length → runGrammar g args = .ok env →
      ∀ (k : Nat) (p : P) (a : Bytes), (posParsers g)[k]? = some p → args[k]? = some a →
        ∃ s v, posVal p a = .ok (s, v) ∧ getSlot env s = some v :=
  positional_bound

/-- … for a `String` or `Bytes` parser: the argument itself, byte for byte. -/
theorem positional_string_is_verbatim :
    ∀ (g : Grammar) (args : List Bytes) (env : Env), (slotsOfL g.parsers).Nodup →
      positionalPrefix g ≤ args.length → runGrammar g args = .ok env →
      ∀ (k : Nat) (s : String) (a : Bytes),
        ((posParsers g)[k]? = some (.string s) ∨ (posParsers g)[k]? = some (.bytes s)) →
        args[k]? = some a → getBytes env s = a := by
  intro g args env hnd hn hok k s a hp ha
  rcases hp with hp | hp <;>
  · obtain ⟨s', v, hv, hg⟩ := positional_bound g args env hnd hn hok k _ a hp ha
    simp only [posVal, Except.ok.injEq, Prod.mk.injEq] at hv
    obtain ⟨rfl, rfl⟩ := hv
    simp [getBytes, hg]

/-- Over the generated table: slot names are pairwise distinct in every grammar, and every grammar
with a slot `key` starts with `parser.String(&cmd.key)` — the key is always positional. -/
theorem key_is_positional :
    Generated.grammars.all (fun r => decide (slotsOfL r.2.2.parsers).Nodup) = true ∧
    Generated.grammars.all (fun r =>
      !(slotsOfL r.2.2.parsers).contains "key" || (slotsOfL (posParsers r.2.2)).contains "key") = true ∧
    Generated.grammars.all (fun r => !(slotsOfL r.2.2.parsers).contains "key" || firstIsKey r.2.2) = true :=
  ⟨slots_nodup_table, key_positional_table, key_first_table⟩

/-- The value of a `Named` option is a value too: after `MATCH`, the next argument is the pattern
even when it spells `count`. -/
theorem named_value_is_value :
    ∀ (name slot : String) (kw v : Bytes) (r : List Bytes) (env : Env),
      equalFold kw (asciiBytes name) = true →
      runP (.named name [.string slot]) (kw :: v :: r) env = .ret true r (setSlot env slot (.bytes v)) :=
  named_string_value

/-! ### A.4 optional arguments in any order

No counterexample to order-independence was found in the model: the value of a `Named` option is
consumed inside `Named` and is never looked at as a keyword (`named_value_is_value`). The one
interaction is the look-ahead of `OneOf`, whose later alternatives are tried on what FOLLOWS the
group it consumed; the theorem therefore asks that what follows the two swapped groups does not
start with another keyword of the two parsers involved (`hrest`). When that fails both orders end in
the same syntax error in every instance we evaluated (see the examples); the general proof of that
case is not done. -/

/-- **Options in any order** (state form). The remaining parsers are `A ++ p₁ :: B ++ p₂ :: C`, all
keyword-guarded; `p₁` consumes the group `a₁ :: v₁`, `p₂` the group `a₂ :: v₂` (`Consumes`: from the
front of any argument vector whose next argument is not another of its keywords); no other remaining
parser knows the keywords `a₁`, `a₂` (pairwise distinct keywords); the groups write different slots
(`hcomm`). Then `Pipeline.Run` ends the same way — the same value in every slot on success, the same
error otherwise — whichever of the two groups comes first. -/
theorem options_any_order :
    ∀ (A B C : List P) (p1 p2 : P), kwGuardedL (A ++ p1 :: B ++ p2 :: C) = true →
    ∀ (a1 : Bytes) (v1 : List Bytes) (a2 : Bytes) (v2 : List Bytes) (U1 U2 : Env → Env),
      Consumes p1 (a1 :: v1) U1 → Consumes p2 (a2 :: v2) U2 →
      (∀ q ∈ A ++ B ++ p2 :: C, kwMatch q a1 = false) →
      (∀ q ∈ A ++ p1 :: B ++ C, kwMatch q a2 = false) →
    ∀ rest : List Bytes, (∀ x, rest.head? = some x → kwMatch p1 x = false ∧ kwMatch p2 x = false) →
      (∀ e, EnvEq (U2 (U1 e)) (U1 (U2 e))) →
    ∀ (fuel : Nat) (env : Env),
      OutcomeEq (runLoop (fuel + 2) (A ++ p1 :: B ++ p2 :: C) (a1 :: v1 ++ (a2 :: v2 ++ rest)) env)
        (runLoop (fuel + 2) (A ++ p1 :: B ++ p2 :: C) (a2 :: v2 ++ (a1 :: v1 ++ rest)) env) :=
  swap_adjacent_groups

/-- The same for a whole grammar `positional values ++ options`. -/
theorem options_any_order_grammar :
    ∀ (g : Grammar) (A B C : List P) (p1 p2 : P), optTail g = A ++ p1 :: B ++ p2 :: C →
      kwGuardedL (optTail g) = true →
    ∀ (a1 : Bytes) (v1 : List Bytes) (a2 : Bytes) (v2 : List Bytes) (U1 U2 : Env → Env),
      Consumes p1 (a1 :: v1) U1 → Consumes p2 (a2 :: v2) U2 →
      (∀ q ∈ A ++ B ++ p2 :: C, kwMatch q a1 = false) →
      (∀ q ∈ A ++ p1 :: B ++ C, kwMatch q a2 = false) →
    ∀ rest : List Bytes, (∀ x, rest.head? = some x → kwMatch p1 x = false ∧ kwMatch p2 x = false) →
      (∀ e, EnvEq (U2 (U1 e)) (U1 (U2 e))) →
    ∀ vals : List Bytes, vals.length = positionalPrefix g →
      OutcomeEq (runGrammar g (vals ++ (a1 :: v1 ++ (a2 :: v2 ++ rest))))
        (runGrammar g (vals ++ (a2 :: v2 ++ (a1 :: v1 ++ rest)))) :=
  runGrammar_swap

/-- Which combinators consume which groups: a `Flag` its keyword; a `Named` with positional body its
keyword and one value per body parser (whatever the values spell); a `Named` with an `Enum` body its
keyword and an allowed value in any letter case (the slot receives the lowered value); a `OneOf` what one alternative consumes. These cover every option of
every generated grammar. -/
theorem option_groups :
    (∀ (name slot : String) (kw : Bytes), equalFold kw (asciiBytes name) = true →
      Consumes (.flag name slot) [kw] (fun e => setSlot e slot (.bool true))) ∧
    (∀ (name : String) (body : List P), (∀ q ∈ body, isPositional q = true) →
      ∀ (kw : Bytes), equalFold kw (asciiBytes name) = true →
      ∀ (vals : List Bytes), vals.length = body.length →
      ∀ (U : Env → Env), (∀ env, bindPos body vals env = .ok (U env)) →
        Consumes (.named name body) (kw :: vals) U) ∧
    (∀ (name slot : String) (allowed : List String) (kw v l : Bytes),
      equalFold kw (asciiBytes name) = true → enumLower allowed v = some l →
      allowed.any (fun s => asciiBytes s == l) = true →
        Consumes (.named name [.enum slot allowed]) [kw, v] (fun e => setSlot e slot (.bytes l))) ∧
    (∀ (A : List P) (p : P) (B : List P), kwGuardedL (A ++ B) = true →
      ∀ (a : Bytes) (v : List Bytes) (U : Env → Env), Consumes p (a :: v) U →
        (∀ q ∈ A ++ B, kwMatch q a = false) → Consumes (.oneOf (A ++ p :: B)) (a :: v) U) :=
  ⟨consumes_flag, consumes_named, consumes_named_enum, consumes_oneOf⟩

/-- Equal slot values give the same command object: every accessor used by `Cmd/Parse.lean`
respects `EnvEq`. -/
theorem envEq_same_fields :
    ∀ (e e' : Env), EnvEq e e' → ∀ k, getBytes e k = getBytes e' k ∧ getInt e k = getInt e' k ∧
      getBool e k = getBool e' k ∧ getFloat e k = getFloat e' k ∧ getList e k = getList e' k :=
  fun _ _ h k => ⟨h.getBytes k, h.getInt k, h.getBool k, h.getFloat k, h.getList k⟩

/-! ### A.5 malformed invocations -/

/-- **Malformed invocations are answered with an error reply and change nothing.** -/
theorem parse_error_no_state_change :
    ∀ (st : ConnState) (db : DB) (now : Int) (req : List Bytes) (e : RErr), parse req = .error e →
      handle st db now req = (st, db, [.err (errorText (asciiBytes e.text) [])]) :=
  handle_parse_error

/-! ### non-vacuity -/

section Examples

local notation "b" => bs
local notation "cmdOf" => pCmd
local notation "errOf" => pErr

/-- the no-panic theorem applies to every grammar, with or without `StringsN` -/
example (args : List Bytes) : runGrammar Generated.grammar_Set args ≠ .panic :=
  parser_total_no_panic _ args
example (args : List Bytes) : runGrammar Generated.grammar_ZInter args ≠ .panic :=
  parser_total_no_panic _ args
example : hasStringsNL Generated.grammar_ZInter.parsers = true := by decide

/-- the former D11 request at the level of `command.Parse`: one arity error -/
example : errOf (parse [b "ZINTER", b "-1", b "k1"]) = some .invalidArgNum := by decide +kernel
example : atoi (b "-1") = some (-1) := by decide +kernel
/-- the hypotheses of `stringsN_negative_refused` are satisfiable -/
example : runP (.stringsN "keys" "n") [b "k1"] [("n", .int (-1))] = .fail .invalidArgNum :=
  stringsN_negative_refused _ _ _ _ (by simp) (by decide)

/-- case variants: `NX`, `nX`, `Nx`, `nx` -/
example : CaseVariant (b "NX") (b "nx") := by decide +kernel
example : CaseVariant (b "kEePtTl") (b "KEEPTTL") := by decide +kernel
example : ¬ CaseVariant (b "NX") (b "XX") := by decide +kernel
/-- U+017F folds onto `s` but is not an ASCII case variant of it: `equalFold` is coarser -/
example : equalFold [0xC5, 0xBF] (b "s") = true ∧ ¬ CaseVariant [0xC5, 0xBF] (b "s") := by decide +kernel

/-- `grammar_Set` is `key value` followed by keyword-guarded options only -/
example : positionalPrefix Generated.grammar_Set = 2 ∧ kwGuardedL (optTail Generated.grammar_Set) = true := by
  decide +kernel
example (r : List Bytes) :
    runGrammar Generated.grammar_Set ([b "k", b "v"] ++ b "Nx" :: r)
      = runGrammar Generated.grammar_Set ([b "k", b "v"] ++ b "NX" :: r) :=
  keyword_case_insensitive_grammar _ (by decide +kernel) _ (by decide +kernel) _ _ (by decide +kernel) r
/-- a keyword deeper in the vector, through the loop-state form: after `SET k v GET`, two option
groups are left and the next argument's case does not matter -/
example (r : List Bytes) (env : Env) :
    runLoop 2 [.oneOf [.flag "nx" "ifNX", .flag "xx" "ifXX"], .flag "keepttl" "keepTTL"] (b "KeepTTL" :: r) env
      = runLoop 2 [.oneOf [.flag "nx" "ifNX", .flag "xx" "ifXX"], .flag "keepttl" "keepTTL"] (b "keepttl" :: r) env :=
  keyword_case_insensitive _ _ (by decide) _ _ (by decide +kernel) r env
example : cmdOf (parse [b "sEt", b "k", b "v", b "Nx", b "eX", b "100"])
    = some (.set (b "k") (b "v") true false false 100000 none false) := by decide +kernel
example (rest : List Bytes) : parse (b "sEt" :: rest) = parse (b "SET" :: rest) :=
  command_name_case_insensitive _ _ (by decide +kernel) rest

/-- D13 at the level of `command.Parse` -/
example : cmdOf (parse [b "LINSERT", b "k", b "BEFORE", b "p", b "e"])
    = some (.linsert (b "k") (b "before") (b "p") (b "e")) := by decide +kernel
example : cmdOf (parse [b "LINSERT", b "k", b "before", b "p", b "e"])
    = some (.linsert (b "k") (b "before") (b "p") (b "e")) := by decide +kernel
example : errOf (parse [b "LINSERT", b "k", b "BEFOR", b "p", b "e"]) = some .syntaxError := by decide +kernel
theorem config_subcommand_folds_case :
    cmdOf (parse [b "CONFIG", b "GET", b "x"]) = some (.config (b "get") [b "x"]) ∧
    cmdOf (parse [b "CONFIG", b "get", b "x"]) = some (.config (b "get") [b "x"]) ∧
    errOf (parse [b "CONFIG", b "SET", b "x", b "y"]) = some .unknownSubcmd := by decide +kernel

/-- D20: `SET k v EX 0` and `EX -1` are accepted and mean "no expiry" -/
theorem set_ex_zero_accepted :
    cmdOf (parse [b "SET", b "k", b "v", b "EX", b "0"]) = some (.set (b "k") (b "v") false false false 0 none false) ∧
    cmdOf (parse [b "SET", b "k", b "v", b "EX", b "-1"]) = some (.set (b "k") (b "v") false false false 0 none false) := by
  decide +kernel

/-- positional values that spell keywords: `SET nx xx` stores the value `xx` under the key `nx` -/
example : cmdOf (parse [b "SET", b "nx", b "xx"]) = some (.set (b "nx") (b "xx") false false false 0 none false) := by
  decide +kernel
example : (slotsOfL Generated.grammar_Set.parsers).Nodup := by decide +kernel
example : (posParsers Generated.grammar_Set)[0]? = some (.string "key") := rfl
example (env : Env) (h : runGrammar Generated.grammar_Set [b "get", b "keepttl", b "NX"] = .ok env) :
    getBytes env "key" = b "get" :=
  positional_string_is_verbatim _ _ env (by decide +kernel) (by decide +kernel) h 0 "key" _
    (.inl rfl) rfl
/-- … and that run does succeed -/
example : (envOf (runGrammar Generated.grammar_Set [b "get", b "keepttl", b "NX"])).isSome = true := by
  decide +kernel
/-- not after the positional slots: a third argument `withscore` of ZRANK is the flag -/
example : cmdOf (parse [b "ZRANK", b "k", b "m", b "withscore"]) = some (.zrank (b "k") (b "m") true) := by
  decide +kernel
/-- `HSCAN k 0 MATCH count COUNT 5`: the pattern is `count` -/
example : cmdOf (parse [b "HSCAN", b "k", b "0", b "MATCH", b "count", b "COUNT", b "5"])
    = some (.hscan (b "k") 0 (b "count") 5) := by decide +kernel

/-- options in any order on `grammar_Set`: `SET k v NX GET …` and `SET k v GET NX …` -/
example (rest : List Bytes)
    (hrest : ∀ x, rest.head? = some x →
      kwMatch (.oneOf [.flag "nx" "ifNX", .flag "xx" "ifXX"]) x = false ∧ kwMatch (.flag "get" "get") x = false) :
    OutcomeEq (runGrammar Generated.grammar_Set ([b "k", b "v"] ++ (b "NX" :: [] ++ (b "GET" :: [] ++ rest))))
      (runGrammar Generated.grammar_Set ([b "k", b "v"] ++ (b "GET" :: [] ++ (b "NX" :: [] ++ rest)))) :=
  options_any_order_grammar Generated.grammar_Set [] []
    [.oneOf [.named "ex" [.int "ttlSec"], .named "px" [.int "ttlMs"], .named "exat" [.int "atSec"],
      .named "pxat" [.int "atMs"], .flag "keepttl" "keepTTL"]]
    (.oneOf [.flag "nx" "ifNX", .flag "xx" "ifXX"]) (.flag "get" "get") rfl (by decide +kernel)
    (b "NX") [] (b "GET") [] _ _
    (consumes_oneOf [] (.flag "nx" "ifNX") [.flag "xx" "ifXX"] (by decide) _ _ _
      (consumes_flag "nx" "ifNX" _ (by decide +kernel)) (by decide +kernel))
    (consumes_flag "get" "get" _ (by decide +kernel))
    (by decide +kernel) (by decide +kernel) rest hrest
    (fun e => setSlot_comm e _ _ _ _ (by decide)) [b "k", b "v"] (by decide +kernel)
/-- … checked by evaluation, with an expiry option after them -/
example : cmdOf (parse [b "SET", b "k", b "v", b "NX", b "GET", b "EX", b "5"])
    = cmdOf (parse [b "SET", b "k", b "v", b "GET", b "NX", b "EX", b "5"]) ∧
    cmdOf (parse [b "SET", b "k", b "v", b "NX", b "GET", b "EX", b "5"])
      = some (.set (b "k") (b "v") true false true 5000 none false) := by decide +kernel
/-- a `Named` group with two values against a flag: `ZRANGE k 0 1 LIMIT 1 2 WITHSCORES` -/
example : Consumes (.named "limit" [.int "offset", .int "count"]) [b "LIMIT", b "1", b "2"]
    (fun e => setSlot (setSlot e "offset" (.int 1)) "count" (.int 2)) :=
  consumes_named "limit" _ (by decide) _ (by decide +kernel) [b "1", b "2"] rfl _
    (fun env => by
      have h1 : atoi (b "1") = some 1 := by decide +kernel
      have h2 : atoi (b "2") = some 2 := by decide +kernel
      simp [bindPos, posVal, h1, h2])
example : cmdOf (parse [b "ZRANGE", b "k", b "0", b "1", b "LIMIT", b "1", b "2", b "WITHSCORES"])
    = cmdOf (parse [b "ZRANGE", b "k", b "0", b "1", b "WITHSCORES", b "LIMIT", b "1", b "2"]) := by
  decide +kernel
/-- where `hrest` fails (the next argument is another keyword of the same `OneOf`) both orders are the
same syntax error -/
example : errOf (parse [b "SET", b "k", b "v", b "NX", b "GET", b "XX"]) = some .syntaxError ∧
    errOf (parse [b "SET", b "k", b "v", b "GET", b "NX", b "XX"]) = some .syntaxError := by decide +kernel
/-- a value that spells another option's keyword does not disturb the order: `MATCH count COUNT 5` -/
example : cmdOf (parse [b "HSCAN", b "k", b "0", b "COUNT", b "5", b "MATCH", b "count"])
    = cmdOf (parse [b "HSCAN", b "k", b "0", b "MATCH", b "count", b "COUNT", b "5"]) := by decide +kernel

/-- malformed invocations -/
example : parse [b "GET"] = .error .invalidArgNum := by
  have : errOf (parse [b "GET"]) = some .invalidArgNum := by decide +kernel
  revert this; cases parse [b "GET"] <;> simp [pErr]
example (st : ConnState) (db : DB) :
    handle st db 0 [b "SET", b "k"] = (st, db, [.err (b "ERR wrong number of arguments ()")]) := by
  have h : errOf (parse [b "SET", b "k"]) = some .invalidArgNum := by decide +kernel
  have : parse [b "SET", b "k"] = .error .invalidArgNum := by
    revert h; cases parse [b "SET", b "k"] <;> simp [pErr]
  rw [parse_error_no_state_change st db 0 _ _ this]
  have e : errorText (asciiBytes RErr.invalidArgNum.text) [] = b "ERR wrong number of arguments ()" := by
    decide +kernel
  rw [e]

end Examples

end Redka.Props.C13
