/-
  C14 — "alone, pipelined or inside a transaction block": request SEQUENCES.

  `one_reply` (Props/C14) is about one request in any connection state. Here it is lifted, by induction, to every
  sequence of requests on a connection — any mix of MULTI / EXEC / DISCARD, commands, malformed invocations and
  blocks with failing commands (D12 repaired) — as long as each request stays inside the model's domain
  (`InModelRun`): each request gets exactly one complete value (`pipeline_one_reply_each`), and the concatenated
  bytes decode under the strict RESP decoder of C17 into exactly as many replies as there were requests
  (`pipeline_in_step`): the connection stays in step to the last byte.
-/
import RedkaModel.Props.C14
import RedkaModel.Proofs.Multi
namespace Redka.Props.C14
open Redka Redka.Wire Redka.WireProofs Redka.MultiProofs

/-- every request of a pipelined sequence stays inside the model's domain, each judged on the connection state
and the tables its predecessors leave -/
def InModelRun : ConnState → DB → List (Int × List Bytes) → Prop
  | _, _, [] => True
  | st, db, (now, req) :: rest =>
    InModel (handleX st db now req []) ∧
      InModelRun (handle st db now req).1 (handle st db now req).2.1 rest

/-- **Any pipelined request sequence, any mix of MULTI / EXEC / DISCARD and commands, failing blocks included:**
every request is answered with exactly one complete value … -/
theorem pipeline_one_reply_each : ∀ (reqs : List (Int × List Bytes)) (st : ConnState) (db : DB),
    InModelRun st db reqs →
    (implRun st db reqs).2.2.length = reqs.length ∧ ∀ ts ∈ (implRun st db reqs).2.2, wellFormedOne ts := by
  intro reqs
  induction reqs with
  | nil => intro st db _; simp [implRun]
  | cons hd rest ih =>
    obtain ⟨now, req⟩ := hd
    intro st db h
    obtain ⟨h1, h2⟩ := h
    have ih' := ih _ _ h2
    simp only [implRun, List.length_cons, List.mem_cons]
    refine ⟨by rw [ih'.1], ?_⟩
    intro ts hts
    rcases hts with rfl | hts
    · exact one_reply st db now req h1
    · exact ih'.2 ts hts

/-- … and on the wire the concatenated bytes decode, under the strict RESP decoder, into exactly as many replies
as there were requests: the connection stays in step to the last byte -/
theorem pipeline_in_step : ∀ (reqs : List (Int × List Bytes)) (st : ConnState) (db : DB),
    InModelRun st db reqs →
    ∃ rs : List Resp.Reply, rs.length = reqs.length ∧
      Resp.decodeAll (encodeTokens (implRun st db reqs).2.2.flatten) = some rs := by
  intro reqs st db h
  obtain ⟨hl, hw⟩ := pipeline_one_reply_each reqs st db h
  obtain ⟨rs, hrs, hd⟩ := pipeline_replies _ hw
  exact ⟨rs, by rw [hrs, hl], hd⟩

open Redka.Wire.Witness in
/-- non-vacuity: `MULTI; INCR k2 (a list: fails); INCR k1; EXEC; GET k1` — five requests, five replies -/
example : InModelRun {} db0 [(2000, [b "MULTI"]), (2000, [b "INCR", b "k2"]), (2000, [b "INCR", b "k1"]),
    (2001, [b "EXEC"]), (2002, [b "GET", b "k1"])] := by
  unfold InModelRun InModelRun InModelRun InModelRun InModelRun InModelRun InModel
  decide +kernel

end Redka.Props.C14
