/-
  Property C12: reads, refusals and nothing-to-do outcomes leave no trace.

  "An operation that is a pure read, or that is refused (wrong type, invalid value, syntax error),
  or that reports there was nothing to do (missing key, element or pivot, index out of range, unmet
  condition), changes nothing at all: not the data, not any key's expiry, version or modification
  time, and not any cached length. This holds on the handle and over the wire, and for the
  nothing-to-do outcomes also inside a caller-managed transaction or MULTI block that goes on to
  commit, so a database is observationally identical before and after any such operation."

  Every statement below is about the statement-level model (`Model.tx` = the `Tx` method, no
  rollback, partial effects stay; `Model.dbRun` = the `DB` method with the wrapper the source uses)
  and concludes RAW equality of the whole `DB` value: all six tables, hence every key row's
  `version`, `mtime`, `etime` and `len`, are the very same lists.

  All 85 constructors of `Op` are covered by every theorem; there is no `Covered` side condition
  and no excluded class: the classifier `K` of `nothing_to_do_notrace_tx_partial` is empty. Until
  the repair "list insert looks for the pivot before touching the key" it held defect D04
  (`InsertAfter` / `InsertBefore` with an absent pivot rewrote the key row, then reported "not
  found"); the model of the repaired method has no failing path that has written, so
  `nothing_to_do_notrace_tx` holds at full strength.
-/
import RedkaModel.Proofs.NoTrace

namespace Redka.Props.C12

open Redka Redka.Proofs.NoTrace

/-! ### pure reads -/

/-- A pure read leaves all six tables exactly as they were — at `Tx` level, so also inside a
caller-managed transaction that goes on to commit (`inTx` arbitrary). -/
theorem read_notrace : ∀ (inTx : Bool) (op : Op) (now : Int) (db : DB),
    Spec.isRead op = true → (Model.tx inTx op now db).db = db :=
  Proofs.NoTrace.read_notrace

/-- The same on the handle. -/
theorem read_notrace_db : ∀ (op : Op) (now : Int) (db : DB),
    Spec.isRead op = true → (Model.dbRun op now db).db = db := by
  intro op now db h
  unfold Model.dbRun
  split
  · unfold update; dsimp only; split
    · exact Proofs.NoTrace.read_notrace true op now db h
    · rfl
  · exact Proofs.NoTrace.read_notrace false op now db h

/-! ### refusals -/

/-- Every `DB`-level call that reports an error — any error, for all 85 operations — leaves all
six tables exactly as they were. For `update`-wrapped methods this is the rollback; for the
methods that run straight on a handle it is a fact about each of their error paths. -/
theorem refusal_notrace_db : ∀ (op : Op) (now : Int) (db : DB),
    (∃ e, (Model.dbRun op now db).out = .error e) → (Model.dbRun op now db).db = db :=
  fun _ _ _ ⟨_, he⟩ => Proofs.NoTrace.refusal_notrace_db he

/-! ### nothing to do -/

/-- Inside a caller-managed transaction (no rollback), every nothing-to-do outcome leaves all six
tables exactly as they were — full strength, all operations. No invariant is needed: in particular
`Delete` returning 0 on a set / hash / sorted set needs none, because the model (like the code)
skips the key update when no row was deleted. -/
theorem nothing_to_do_notrace_tx : ∀ (op : Op) (now : Int) (db : DB),
    Spec.nothingToDo op (Model.tx true op now db).out = true → (Model.tx true op now db).db = db :=
  fun _ _ _ h => Proofs.NoTrace.nothing_to_do_notrace h

/-- The same in the shape "outside a classifier `K` of known deviations"; `K` is empty
(`K_is_empty`). -/
theorem nothing_to_do_notrace_tx_partial : ∀ (op : Op) (now : Int) (db : DB),
    Spec.nothingToDo op (Model.tx true op now db).out = true → K op now db = false →
    (Model.tx true op now db).db = db :=
  fun op now db h _ => nothing_to_do_notrace_tx op now db h

theorem K_is_empty : ∀ (op : Op) (now : Int) (db : DB), K op now db = false := fun _ _ _ => rfl

/-- On the handle. -/
theorem nothing_to_do_notrace_db : ∀ (op : Op) (now : Int) (db : DB),
    Spec.nothingToDo op (Model.dbRun op now db).out = true → (Model.dbRun op now db).db = db :=
  fun _ _ _ h => Proofs.NoTrace.nothing_to_do_notrace_db h

/-- The situation of the former defect D04, on the repaired model: the list `k` holds the single
element `a`; `InsertAfter k b x` inside a transaction reports "pivot not found", a nothing-to-do
outcome, and the key row is untouched. -/
def d04db : DB :=
  { keys := [{ id := 1, key := [107], ty := TList, version := 1, etime := none, mtime := 0, len := some 1 }],
    lists := [{ kid := 1, pos := 0, elem := [97] }] }

theorem d04_repaired :
    Spec.nothingToDo (.listInsertAfter [107] [98] [120])
      (Model.tx true (.listInsertAfter [107] [98] [120]) 7 d04db).out = true ∧
    (Model.tx true (.listInsertAfter [107] [98] [120]) 7 d04db).db = d04db ∧
    Spec.nothingToDo (.listInsertBefore [107] [98] [120])
      (Model.tx true (.listInsertBefore [107] [98] [120]) 7 d04db).out = true ∧
    (Model.tx true (.listInsertBefore [107] [98] [120]) 7 d04db).db = d04db := by
  decide

/-! ### the judgement the correspondence driver applies (`Spec.noTrace`) -/

/-- On the handle, the model never fails the C12 judgement. -/
theorem noTrace_db : ∀ (op : Op) (now : Int) (db : DB),
    Spec.noTrace false op db (Model.dbRun op now db).db (Model.dbRun op now db).out ≠ some false := by
  intro op now db
  unfold Spec.noTrace
  split
  · rename_i ht
    have hsame : (Model.dbRun op now db).db = db := by
      simp only [Spec.traceless, Bool.or_eq_true, Bool.and_eq_true, Bool.not_false, true_and] at ht
      rcases ht with (hr | hn) | he
      · exact read_notrace_db op now db hr
      · exact nothing_to_do_notrace_db op now db hn
      · cases hout : (Model.dbRun op now db).out with
        | ok v => rw [hout] at he; cases he
        | error e => exact refusal_notrace_db op now db ⟨e, hout⟩
    rw [hsame]; simp
  · simp

/-- Inside a transaction the model never fails it either. -/
theorem noTrace_tx : ∀ (op : Op) (now : Int) (db : DB),
    Spec.noTrace true op db (Model.tx true op now db).db (Model.tx true op now db).out ≠ some false := by
  intro op now db
  unfold Spec.noTrace
  split
  · rename_i ht
    have hsame : (Model.tx true op now db).db = db := by
      simp only [Spec.traceless, Bool.or_eq_true, Bool.and_eq_true, Bool.not_true, false_and,
        or_false, Bool.false_eq_true] at ht
      rcases ht with hr | hn
      · exact read_notrace true op now db hr
      · exact nothing_to_do_notrace_tx op now db hn
    rw [hsame]; simp
  · simp

/-! ### non-vacuity -/

def db1 : DB :=
  { keys := [{ id := 1, key := [107], ty := TString, version := 3, etime := some 50, mtime := 2, len := none },
             { id := 2, key := [115], ty := TSet, version := 1, etime := none, mtime := 1, len := some 1 }],
    strs := [{ kid := 1, value := [118] }],
    sets := [{ rowid := 1, kid := 2, elem := [97] }] }

/-- a read that succeeds -/
example : Spec.isRead (.strGet [107]) = true ∧
    (Model.tx true (.strGet [107]) 7 db1).out matches .ok (.bytes [118]) := by decide
/-- a refusal: `Incr` on a set key is a type error at `DB` level, after `sqlUpdate1` has failed -/
example : ∃ e, (Model.dbRun (.strIncr [115] 1) 7 db1).out = .error e := ⟨.keyType, rfl⟩
/-- a refusal that needs the rollback: `Set` on a set key -/
example : ∃ e, (Model.dbRun (.strSet [115] [1]) 7 db1).out = .error e := ⟨.keyType, rfl⟩
/-- a refusal that needs the rollback: `Move` of a member to a name held by a string — the `Tx`
method has already removed the member from the source when adding to the destination fails;
`DB.Update` undoes it -/
example : (∃ e, (Model.dbRun (.setMove [115] [107] [97]) 7 db1).out = .error e) ∧
    (Model.tx true (.setMove [115] [107] [97]) 7 db1).db ≠ db1 ∧
    (Model.dbRun (.setMove [115] [107] [97]) 7 db1).db = db1 :=
  ⟨⟨.keyType, rfl⟩, by decide, by decide⟩
/-- nothing to do, `ok` flavour: deleting an absent member -/
example : Spec.nothingToDo (.setDelete [115] [[98]]) (Model.tx true (.setDelete [115] [[98]]) 7 db1).out = true := by decide
/-- nothing to do, error flavour: `Expire` of a missing key -/
example : Spec.nothingToDo (.keyExpire [120] 5) (Model.tx true (.keyExpire [120] 5) 7 db1).out = true := by decide
/-- nothing to do on a list insert: the key is missing -/
example : Spec.nothingToDo (.listInsertAfter [120] [98] [120])
      (Model.tx true (.listInsertAfter [120] [98] [120]) 7 db1).out = true := by decide
/-- the same operations do write when there is something to do -/
example : (Model.tx true (.setDelete [115] [[97]]) 7 db1).db ≠ db1 := by decide

end Redka.Props.C12
