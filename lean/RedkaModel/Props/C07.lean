/-
  Property C07: all-or-nothing under faults.

  "Each single write operation, and each user-defined writable transaction, either applies all of
  its effects and reports success, or reports an error and leaves the database content exactly as
  it was - whether the operation or the transaction callback returns an error, panics, has its
  context cancelled, or the storage layer fails at any internal step including the final commit -
  and in every case the database stays fully usable with unchanged behaviour afterwards. A
  read-only transaction or read-only handle can never change the database."

  What is proved, and about what:

  * `Model/Fault.lean` models the control structure of `sqlx.DB.execTx` (begin / deferred rollback
    / callback / commit) with one fault per run. TRUSTED, not modelled below the statement level:
    a SQLite rollback restores the tables, a single SQL statement is atomic. So the content of
    `usertx_atomic` is that no path through `execTx` commits after a fault or a propagated error,
    and that every failing path ends in the rollback.
  * `dbRun_atomic` is about the statement-level model of every `DB` method (`Model.dbRun`): there,
    `Model.tx` really leaves the tables half-written when a method fails after a write, and the
    theorem holds because the model wraps exactly the methods the source wraps
    (`model_wrap_matches_source`) and every unwrapped method has no failing path that has written.
  * `multi_statement_writers_are_wrapped` is a theorem over the facts the translator extracts from
    the Go source on every run: it fails to compile when somebody un-wraps a multi-statement writer.

  Known deviations, each with a witness below:
  * D14 (`d14_connection_replaced_deviates`): after a cancelled context the RW connection is
    replaced; without a connect hook it has `foreign_keys = off`, so the content is unchanged but the
    behaviour is not. `usertx_atomic` is therefore stated on the tables, `usertx_atomic_db` on the
    whole value under `connKept`.
  * `DeleteAll` (`deleteAll_script_not_atomic`): its one `Exec` is the script
    `delete from rkey; vacuum; pragma integrity_check;` on the bare RW handle. The commands commit
    one by one, so when `vacuum` fails the call reports an error and every key is gone.
  * D19 (`View` can write on `:memory:`) is about the connection string, outside this model.
-/
import RedkaModel.Proofs.Fault

namespace Redka.Props.C07

open Redka Redka.Model Redka.Proofs.Fault

/-! ### 1. user-defined writable transactions -/

/-- Every run of `execTx` — any body, propagating or not, any fault — either reports success,
in which case there was no fault, no operation's error was handed on, and the database is the
result of all operations of the body in sequence; or reports an error, and the content of all six
tables is exactly what it was. -/
theorem usertx_atomic : ∀ (env : Env) (propagate : Bool) (body : List Op) (fault : Fault) (now : Int) (db : DB),
    let r := runTx env propagate body fault now db
    (r.1 = .ok () ∧ r.2 = foldOps now body db ∧
        (propagate = false ∨ bodyErrs now body db = false) ∧ fault = .none) ∨
    ((∃ a, r.1 = .error a) ∧ tables r.2 = tables db) :=
  runTx_atomic_tables

/-- `tables a = tables b`: the same rows in each of the six tables. -/
theorem tables_eq_iff : ∀ a b : DB, tables a = tables b ↔
    a.keys = b.keys ∧ a.strs = b.strs ∧ a.lists = b.lists ∧ a.sets = b.sets ∧ a.hashes = b.hashes ∧
      a.zsets = b.zsets :=
  Proofs.Fault.tables_eq_iff

/-- The same on the whole database value (the connection's `foreign_keys` flag included), whenever
the connection survives the fault: always with a connect hook, and without one for every fault
other than a cancelled context. -/
theorem usertx_atomic_db : ∀ (env : Env) (propagate : Bool) (body : List Op) (fault : Fault) (now : Int) (db : DB),
    connKept env fault = true →
    let r := runTx env propagate body fault now db
    (r.1 = .ok () ∧ r.2 = foldOps now body db ∧
        (propagate = false ∨ bodyErrs now body db = false) ∧ fault = .none) ∨
    ((∃ a, r.1 = .error a) ∧ r.2 = db) :=
  runTx_atomic

/-- No fault is swallowed: with any fault the transaction reports an error. -/
theorem usertx_fault_reports_error : ∀ (env : Env) (propagate : Bool) (body : List Op) (fault : Fault)
    (now : Int) (db : DB), fault ≠ .none → ∃ a, (runTx env propagate body fault now db).1 = .error a :=
  runTx_fault_fails

/-- A body that hands errors on and meets a failing operation is rolled back whole, whatever the
operations before it (and the failing one itself) had written. -/
theorem usertx_error_rolls_back : ∀ (env : Env) (body : List Op) (now : Int) (db : DB),
    bodyErrs now body db = true →
    (∃ a, (runTx env true body .none now db).1 = .error a) ∧ (runTx env true body .none now db).2 = db := by
  intro env body now db hb
  rcases runTx_atomic env true body .none now db (by simp [connKept]) with ⟨_, _, h, _⟩ | h
  · rcases h with h | h
    · cases h
    · rw [hb] at h; cases h
  · exact h

/-- `usertx_atomic_db` without `connKept` is FALSE (D14). Library default (no connect hook), a
transaction that sets `k` and is then cancelled: the tables are untouched, but the connection that
serves the next call has `foreign_keys = off`, and a `Delete` on it leaves the value row of `k`
behind as an orphan. -/
def d14db : DB :=
  { keys := [{ id := 1, key := [107], ty := TString, version := 1, etime := none, mtime := 0, len := none }],
    strs := [{ kid := 1, value := [118] }] }

def d14after : DB := (runTx { pragmaHook := false } true [.strSet [107] [119]] (.ctxCancelled 1) 7 d14db).2

theorem d14_connection_replaced_deviates :
    (runTx { pragmaHook := false } true [.strSet [107] [119]] (.ctxCancelled 1) 7 d14db).1 = .error .cancelled ∧
    tables d14after = tables d14db ∧ d14after ≠ d14db ∧
    (Model.dbRun (.keyDelete [[107]]) 8 d14db).db.strs = [] ∧
    (Model.dbRun (.keyDelete [[107]]) 8 d14after).db.strs = [{ kid := 1, value := [118] }] := by
  decide

/-! ### 2. single write operations -/

/-- Every `DB`-level operation of the model either reports success or leaves all six tables
exactly as they were. (From C12's `refusal_notrace_db`.) -/
theorem dbRun_atomic : ∀ (op : Op) (now : Int) (db : DB),
    (∃ v, (Model.dbRun op now db).out = .ok v) ∨ (Model.dbRun op now db).db = db := by
  intro op now db
  cases hout : (Model.dbRun op now db).out with
  | ok v => exact .inl ⟨v, rfl⟩
  | error e => exact .inr (Proofs.NoTrace.refusal_notrace_db hout)

/-- This needs the wrappers: at `Tx` level (what an un-wrapped method would do) it is false.
`Move` of a member to a name held by a string removes the member from the source, then fails. -/
def moveDb : DB :=
  { keys := [{ id := 1, key := [107], ty := TString, version := 1, etime := none, mtime := 0, len := none },
             { id := 2, key := [115], ty := TSet, version := 1, etime := none, mtime := 0, len := some 1 }],
    strs := [{ kid := 1, value := [118] }],
    sets := [{ rowid := 1, kid := 2, elem := [97] }] }

theorem tx_alone_is_not_atomic :
    (∃ e, (Model.tx true (.setMove [115] [107] [97]) 7 moveDb).out = .error e) ∧
    (Model.tx true (.setMove [115] [107] [97]) 7 moveDb).db ≠ moveDb ∧
    (Model.dbRun (.setMove [115] [107] [97]) 7 moveDb).db = moveDb :=
  ⟨⟨.keyType, rfl⟩, by decide, by decide⟩

/-- An `update`-wrapped method is `execTx` around the propagating one-operation body: the model's
`DB`-level function and the fault-free run agree. -/
theorem update_wrapped_is_execTx : ∀ (env : Env) (op : Op) (now : Int) (db : DB),
    Model.wrapOf op = .update →
    (dbRunFault env op .none now db).2 = (Model.dbRun op now db).db ∧
    ((dbRunFault env op .none now db).1 = .ok () ↔ ∃ v, (Model.dbRun op now db).out = .ok v) :=
  dbRun_is_runTx

/-- One `update`-wrapped write operation under any fault: success with all of its effects (exactly
those of the fault-free `DB` method) and no fault, or an error and untouched tables. -/
theorem single_op_atomic_under_faults : ∀ (env : Env) (op : Op) (fault : Fault) (now : Int) (db : DB),
    Model.wrapOf op = .update →
    let r := dbRunFault env op fault now db
    (r.1 = .ok () ∧ r.2 = (Model.dbRun op now db).db ∧ (∃ v, (Model.dbRun op now db).out = .ok v) ∧
        fault = .none) ∨
    ((∃ a, r.1 = .error a) ∧ tables r.2 = tables db) := by
  intro env op fault now db hw
  rcases runTx_atomic_tables env true [op] fault now db with ⟨h1, _, _, h4⟩ | h
  · subst h4
    have := dbRun_is_runTx env op now db hw
    exact .inl ⟨h1, this.1, this.2.mp h1, rfl⟩
  · exact .inr h

/-! ### 3. the source wraps every multi-statement writer (facts extracted on every run) -/

/-- Every exported `DB` method is judged safe: it is `update`-wrapped; or it runs on the read-only
handle and can only execute `select`s; or it runs outside a transaction and can execute at most one
statement that is not a `select` — the cleaner's two alternative statements being the one listed
exception. -/
theorem all_wrappers_safe : wrapTable.all wrapperSafe = true := by decide

theorem multi_statement_writers_are_wrapped :
    ∀ pm ∈ Generated.wrapNames, ∃ e ∈ wrapTable, (e.1, e.2.1) = pm ∧ wrapperSafe e = true := by
  intro pm hpm
  rw [← wrapTable_complete, List.mem_map] at hpm
  obtain ⟨e, he, rfl⟩ := hpm
  exact ⟨e, he, rfl, List.all_eq_true.mp all_wrappers_safe e he⟩

set_option maxRecDepth 8192 in
/-- Spelled out for the methods that are not `update`-wrapped: the statements they can reach are
known, and at most one of them writes (or they are the cleaner's two alternatives). -/
theorem non_update_wrappers_write_at_most_once :
    ∀ e ∈ wrapTable, e.2.2.1 ≠ "update" →
      ∃ w, reachWrites e.1 e.2.2.2 = some w ∧
        (w.length ≤ 1 ∨ isAlternatives e.1 e.2.1 w = true) ∧ (e.2.2.1 = "ro" → w = []) := by
  decide

/-- The methods that write straight on the RW handle, and everything each can execute. -/
theorem rw_wrappers :
    (wrapTable.filter (fun e => e.2.2.1 == "rw")).map (fun e => (e.2.1, reachStmts e.1 e.2.2.2)) =
      [("Delete", some ["sqlDelete"]), ("DeleteAll", some ["sqlDeleteAll"]),
       ("DeleteExpired", some ["sqlDeleteNExpired", "sqlDeleteAllExpired"]),
       ("Expire", some ["sqlExpire"]), ("ExpireAt", some ["sqlExpire"]), ("Persist", some ["sqlPersist"])] := by
  decide

/-- The builders (`"other"`): they only construct a command or hand over to a `DB` method that is
judged on its own, or run `select`s on the read-only transaction they were built with. -/
theorem other_wrappers :
    (wrapTable.filter (fun e => e.2.2.1 == "other")).map (fun e => (e.1, e.2.1, e.2.2.2)) =
      [("rstring", "SetWith", []), ("rzset", "DeleteWith", []), ("rzset", "Inter", ["InterCmd.Run"]),
       ("rzset", "InterWith", []), ("rzset", "RangeCmd.Run", ["RangeCmd.rangeRank", "RangeCmd.rangeScore"]),
       ("rzset", "Union", ["UnionCmd.Run"]), ("rzset", "UnionWith", [])] := by
  decide

/-- `DeleteAll`'s single statement is not a single SQL command. -/
theorem deleteAll_is_a_script : verbOf "rkey" "sqlDeleteAll" = some "delete+vacuum+pragma" := by decide

/-- … and the model shows what that means when the second command fails after the first has run
(inside a transaction `vacuum` always fails; on the handle a storage failure does the same): an
error is reported and every key is gone. `DeleteAll` is `rw`-direct, so nothing rolls this back. -/
theorem deleteAll_script_not_atomic :
    (∃ e, (Model.tx true .keyDeleteAll 7 d14db).out = .error e) ∧
    (Model.tx true .keyDeleteAll 7 d14db).db.keys = [] ∧ (Model.tx true .keyDeleteAll 7 d14db).db ≠ d14db :=
  ⟨⟨.sqlOther, rfl⟩, by decide, by decide⟩

/-! ### 4. the model wraps what the source wraps -/

/-- For every operation, the wrapper kind the model uses is the one extracted from the source for
its `DB` method. -/
theorem model_wrap_matches_source : ∀ op : Op,
    wrapKind (opMethod op).1 (opMethod op).2 = some (kindName (Model.wrapOf op)) := by
  intro op; cases op <;> simp only [opMethod, Model.wrapOf, kindName] <;> decide

/-- … and the method named is an exported one. -/
theorem opMethod_exported : ∀ op : Op, opMethod op ∈ Generated.wrapNames := by
  intro op; cases op <;> simp only [opMethod] <;> decide

/-! ### 5. read-only handle -/

/-- A method that runs on the read-only handle never changes the database. -/
theorem readonly_never_writes : ∀ (op : Op) (now : Int) (db : DB),
    Model.wrapOf op = .roDirect → (Model.dbRun op now db).db = db := by
  intro op now db hw
  have hrun : Model.dbRun op now db = Model.tx false op now db := by
    unfold Model.dbRun; rw [hw]
  rw [hrun]
  exact Proofs.NoTrace.read_notrace false op now db (Proofs.NoTrace.isRead_of_roDirect hw)

set_option maxRecDepth 8192 in
/-- In the source, every method on the read-only handle can only execute `select`s. -/
theorem ro_wrappers_only_select :
    ∀ e ∈ wrapTable, e.2.2.1 = "ro" → reachWrites e.1 e.2.2.2 = some [] := by
  decide

/-! ### 6. non-vacuity: one body, every fault -/

def db0 : DB :=
  { keys := [{ id := 1, key := [108], ty := TList, version := 1, etime := none, mtime := 0, len := some 1 },
             { id := 2, key := [115], ty := TSet, version := 1, etime := none, mtime := 0, len := some 1 }],
    lists := [{ kid := 1, pos := 0, elem := [97] }],
    sets := [{ rowid := 1, kid := 2, elem := [97] }] }

/-- set `k`, push to the list `l`, add to the set `s` -/
def body3 : List Op := [.strSet [107] [118], .listPushBack [108] [98], .setAdd [115] [[98]]]

/-- the same with a second step that fails after it has written: move `a` from the set `s` to the
name `k`, which the first step has just made a string -/
def body3bad : List Op := [.strSet [107] [118], .setMove [115] [107] [97], .listPushBack [108] [98]]

example : (runTx {} true body3 .none 7 db0).1 = .ok () ∧
    (runTx {} true body3 .none 7 db0).2 = foldOps 7 body3 db0 ∧
    (runTx {} true body3 .none 7 db0).2.keys.length = 3 ∧
    (runTx {} true body3 .none 7 db0).2 ≠ db0 := by decide
example : runTx {} true body3 .beginFails 7 db0 = (.error .beginFailed, db0) := by decide
example : runTx {} true body3 (.callbackError 2) 7 db0 = (.error .callbackError, db0) := by decide
example : runTx {} true body3 (.callbackPanics 1) 7 db0 = (.error .panicked, db0) := by decide
example : runTx {} true body3 (.ctxCancelled 3) 7 db0 = (.error .cancelled, db0) := by decide
example : runTx { pragmaHook := false } true body3 (.ctxCancelled 3) 7 db0 =
    (.error .cancelled, { db0 with fk := false }) := by decide
example : runTx {} true body3 .commitFails 7 db0 = (.error .commitFailed, db0) := by decide
/-- an operation fails after it has written; the body hands the error on: rolled back -/
example : runTx {} true body3bad .none 7 db0 = (.error (.bodyError .keyType), db0) ∧
    bodyErrs 7 body3bad db0 = true := by decide
/-- the body ignores the error: the transaction commits, the half-done `Move` included (the member
has left `s` and is nowhere) -/
example : (runTx {} false body3bad .none 7 db0).1 = .ok () ∧
    (runTx {} false body3bad .none 7 db0).2 = foldOps 7 body3bad db0 ∧
    (runTx {} false body3bad .none 7 db0).2.sets = [] ∧
    (runTx {} false body3bad .none 7 db0).2.lists.length = 2 := by decide

end Redka.Props.C07
