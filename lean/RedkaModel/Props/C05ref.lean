/-
  C05 — sorted sets behave like a member-to-score map ranked by (score, member bytes).

  "For every sequence of sorted-set operations each key holds exactly the member-to-score map an
  in-memory map would hold, and every rank-based or score-based query (rank, reverse rank, range by
  rank or score in either direction with offset and count, count, remove by rank or score) selects
  exactly the elements obtained by sorting that map by score and then by member bytes. Add and
  increment report created-vs-updated and the new score truthfully, an empty or inverted range
  selects nothing, and union and intersection (with or without storing, for sum, min and max)
  produce exactly the members of the mathematical result for any key list and, for lists of
  distinct keys, exactly the aggregated scores."

  What is proved here. `Model.dbRun` is the statement-level model of the `DB`-level methods of
  `internal/rzset` over the six tables; `Spec.step` is the in-memory map; `Spec.abs now db` is the
  map a table state stands for at clock value `now`. `zset_refines_partial` says that one call of
  ANY of the seventeen sorted-set operations (`Covered` = the whole family; `Scan` has no
  specification) on any table state satisfying the structural invariant C11 (`DB.Inv`), with any
  arguments and any clock value, returns what the map returns and leaves tables that stand for the
  map's new state — outside two narrow, decidable classes of inputs on which the real code (and
  therefore the model) is known to deviate, each proved equal to its entry in the driver's
  catalogue `Spec.known` (`classifiers_are_the_catalogue`):

    * `Stale` (D05): the operation writes to a name whose stored key row has expired;
    * `DestIsSource` (D08): a storing union / intersection whose destination is also a source;

  and outside one class that is NOT in the catalogue and was found by this proof:

    * `SumOrder`: a `sum` over three or more keys. The model (like SQLite's `sum()`) adds the
      scores of a member in table order, the specification in key-list order, and float addition
      is not associative (`sum_order_deviates`: 2^53 + 1 + 1). `min`, `max` and sums of at most two
      terms are order-independent and are covered for every key list.

  Two classes of the earlier versions of this file are gone, because the code was repaired and the
  model follows it: D07 (an intersection over a key list that names a key twice compared
  `count(distinct kid)` with `len(keys)` and came back empty; it now compares with the number of
  distinct keys) and D09 (`DeleteWith.ByRank(a, b)` with `b + 1 < a` reached SQLite as
  `limit a, <negative>` and removed the whole tail; it now returns 0 when `a > b`). The theorem
  covers those inputs now; the former witnesses are kept as agreements
  (`repeated_key_now_agrees`, `rank_inverted_now_agrees`, `inverted_rank_delete_removes_nothing`).

  Side conditions that are not deviations: `ArgsOk` and `Decided` (the specification answers
  `skip` when a score sum is NaN: `inf + -inf`). `ArgsOk` says that `AddMany` takes a Go map, so
  no member is repeated, and that a `sum` is taken over a list of DISTINCT keys. The latter is a
  convention of the SPECIFICATION, not a defect of the code (DESIGN §10.5): C05 fixes the members
  of a union / intersection for any key list but its scores only for distinct keys. SQL's
  `where key in (…)` reads a key named twice once, `Spec.zCombine` walks the list as given and adds
  its score twice. For `min` and `max` the repetition is invisible and the theorem covers every key
  list; for a `sum` over a repeated key `combination_members_any_key_list` proves what C05 asks
  for: the model answers as for the distinct keys, with exactly the specification's members. Each
  side condition is shown necessary (`addmany_repeated_member`, `union_repeated_key`,
  `inter_repeated_key_sum`, `nan_is_undecided`).

  Every classifier has a kernel-checked witness (`stale_add_deviates`, `dest_is_source_deviates`,
  `sum_order_deviates`), so the full-strength statement is false (`full_strength_is_false`).

  `zset_seq_refines` lifts the single step to sequences at non-decreasing clock values; it rests
  on `zset_preserves_zwf` (every operation keeps `DB.ZWF`, the consequence of the invariant the
  proofs use, for all states and arguments) and `Spec.abs_mono`. The sentences of the property are
  restated one by one at the end (`missing_key_reads_empty`, `len_is_number_of_members`,
  `add_reports_created`, `score_after_add`, `inverted_score_range_selects_nothing`,
  `inverted_rank_range_selects_nothing`, `inverted_rank_delete_removes_nothing`,
  `combination_members_any_key_list`).

  Results are compared with `=` on `Out` (`Spec.outEq` is built from `partial def`s and is opaque
  to the kernel; sorted-set results never contain key rows, on which alone it differs from `=`).

  Lemmas live in `RedkaModel/Proofs/ZSetRef.lean` (order, canonical sorting, reads),
  `ZSetWrite.lean` (table primitives, writes) and `ZSetComb.lean` (union / intersection).
-/
import RedkaModel.Proofs.ZSetComb

namespace Redka.Props.C05

open Redka Redka.Model Redka.Spec Redka.ZSetRef

/-! ### the family, the classifiers of known deviations, the side conditions -/

/-- the operations of `DB.ZSet()` the theorem speaks about (`Scan` has no specification here:
`Spec.step` answers `skip`) -/
def isZOp : Op → Bool
  | .zAdd .. | .zAddMany .. | .zCount .. | .zDelete .. | .zDeleteRank .. | .zDeleteScore ..
  | .zGetRank .. | .zGetRankRev .. | .zGetScore .. | .zIncr .. | .zInter .. | .zInterStore ..
  | .zLen _ | .zRangeRank .. | .zRangeScore .. | .zUnion .. | .zUnionStore .. => true
  | _ => false

def IsZOp (op : Op) : Prop := isZOp op = true

instance (op : Op) : Decidable (IsZOp op) := inferInstanceAs (Decidable (_ = true))

/-- the constructors the refinement theorem covers: all of them -/
def Covered : Op → Bool := isZOp

/-- D05, exactly as in `Spec.known` -/
def Stale (op : Op) (now : Int) (db : DB) : Bool :=
  (Spec.writeKeys op).any (Spec.staleKey db now)

/-- D08, exactly as in `Spec.known`: the destination of a storing combination is also a source -/
def DestIsSource : Op → Bool
  | .zInterStore d ks _ | .zUnionStore d ks _ => ks.contains d
  | _ => false

/-- The two classifiers are the entries D05, D08 of the catalogue of known findings
(`Spec.known`), and the catalogue has no other entry for a sorted-set operation (D07 and D09 are
repaired). -/
theorem classifiers_are_the_catalogue : ∀ (inTx : Bool) (op : Op) (now : Int) (db : DB), IsZOp op →
    Spec.known inTx op now db
      = (if Stale op now db then ["D05"] else []) ++ (if DestIsSource op then ["D08"] else []) := by
  intro inTx op now db hop
  cases op <;> first | (cases hop; done) | (simp [Spec.known, Stale, DestIsSource])

/-- `AddMany` takes a Go map: no member occurs twice. C05 fixes the SCORES of a union or an
intersection only for a list of distinct keys: a `sum` is taken over distinct keys (`min` and `max`
do not see a repetition, so they are covered for every key list). This is a convention of the
specification, not a deviation of the code: see `combination_members_any_key_list` for what holds
of a `sum` over a repeated key. -/
def ArgsOk : Op → Bool
  | .zAddMany _ items => Spec.distinct (items.map (·.1))
  | .zInter ks agg | .zUnion ks agg | .zInterStore _ ks agg | .zUnionStore _ ks agg =>
    Spec.distinct ks || decide (agg ≠ .sum)
  | _ => true

/-- NOT in the catalogue: a `sum` over three or more keys. The model adds the scores of a member in
table (rowid) order, the specification in key-list order; float addition is not associative, so
the two sums can differ in the last bit (`sum_order_deviates`). `min`, `max` and sums of at most
two terms do not depend on the order. -/
def SumOrder : Op → Bool
  | .zInter ks agg | .zUnion ks agg | .zInterStore _ ks agg | .zUnionStore _ ks agg =>
    decide (agg = .sum) && decide (ks.length ≥ 3)
  | _ => false

/-- the specification decides the case (it does not for a score sum that is not a number) -/
def Decided (op : Op) (now : Int) (db : DB) : Bool :=
  !Spec.isSkip (Spec.step op now (Spec.abs now db)).out

theorem distinct_iff_nodup : ∀ (l : List Bytes), Spec.distinct l = true ↔ l.Nodup
  | [] => by simp [Spec.distinct]
  | x :: xs => by simp [Spec.distinct, distinct_iff_nodup xs]

/-! ### the refinement theorem -/

theorem zset_refines_zwf : ∀ (op : Op) (now : Int) (db : DB),
    IsZOp op → db.ZWF → Covered op = true → ArgsOk op = true → Decided op now db = true →
    Stale op now db = false → DestIsSource op = false → SumOrder op = false →
    let r := Model.dbRun op now db
    r.out = (Spec.step op now (Spec.abs now db)).out ∧
      Spec.abs now r.db = Spec.purge now (Spec.step op now (Spec.abs now db)).st := by
  intro op now db hop hz hcov harg hdec hst hdst hsum
  have hkeys : ∀ (agg : Agg) (ks : List Bytes),
      (Spec.distinct ks || decide (agg ≠ .sum)) = true → ks.Nodup ∨ agg ≠ .sum := by
    intro agg ks h
    simp only [Bool.or_eq_true, decide_eq_true_eq] at h
    rcases h with h | h
    · exact Or.inl ((distinct_iff_nodup ks).1 h)
    · exact Or.inr h
  have hord : ∀ (agg : Agg) (ks : List Bytes),
      (decide (agg = .sum) && decide (ks.length ≥ 3)) = false → agg ≠ .sum ∨ ks.length ≤ 2 := by
    intro agg ks h
    simp only [Bool.and_eq_false_iff, decide_eq_false_iff_not] at h
    rcases h with h | h
    · exact Or.inl h
    · exact Or.inr (by omega)
  cases op <;> first | (cases hop; done) | (cases hcov; done) | skip
  case zAdd k e s =>
    have hns : staleKey db now k = false := by simpa [Stale, writeKeys] using hst
    exact zAdd_refines hz hns e s
  case zAddMany k items =>
    have hns : staleKey db now k = false := by simpa [Stale, writeKeys] using hst
    exact zAddMany_refines hz hns items ((distinct_iff_nodup _).1 harg)
  case zCount k lo hi => exact zCount_refines hz now k lo hi
  case zDelete k es => exact zDelete_refines hz now k es
  case zDeleteRank k a b => exact zDeleteRank_refines hz now k a b
  case zDeleteScore k lo hi => exact zDeleteScore_refines hz now k lo hi
  case zGetRank k e => exact zGetRank_refines hz now k e false
  case zGetRankRev k e => exact zGetRank_refines hz now k e true
  case zGetScore k e => exact zGetScore_refines hz now k e
  case zIncr k e d =>
    have hns : staleKey db now k = false := by simpa [Stale, writeKeys] using hst
    refine zIncr_refines hz hns e d ?_
    intro old hold hadd
    have hd : Spec.isSkip (Spec.zIncr (Spec.abs now db) k e d).out = false := by
      simpa [Decided, Spec.step] using hdec
    unfold Spec.zsetAt at hold
    cases hg : Spec.get (Spec.abs now db) k with
    | none => rw [hg] at hold; simp [aget_nil] at hold
    | some en =>
      obtain ⟨v, et⟩ := en
      rw [hg] at hold
      cases v <;> first | (simp [aget_nil] at hold; done) | skip
      rename_i z
      simp only [] at hold
      simp [Spec.zIncr, hg, hold, hadd, Spec.skip, Spec.isSkip] at hd
  case zLen k => exact zLen_refines hz now k
  case zInter ks agg =>
    have hks := hkeys agg ks harg
    cases hc : Spec.zCombine (Spec.abs now db) ks agg true with
    | none => simp [Decided, Spec.step, hc, Spec.skip, Spec.isSkip] at hdec
    | some r =>
      have := zCombineRun_refines hz now agg hks (hord agg ks hsum) true hc
      show Refines now (zCombineRun db ks agg true now) (Spec.step (.zInter ks agg) now _)
      simp only [Spec.step, hc]
      exact this
  case zUnion ks agg =>
    have hks := hkeys agg ks harg
    cases hc : Spec.zCombine (Spec.abs now db) ks agg false with
    | none => simp [Decided, Spec.step, hc, Spec.skip, Spec.isSkip] at hdec
    | some r =>
      have := zCombineRun_refines hz now agg hks (hord agg ks hsum) false hc
      show Refines now (zCombineRun db ks agg false now) (Spec.step (.zUnion ks agg) now _)
      simp only [Spec.step, hc]
      exact this
  case zInterStore d ks agg =>
    have hks := hkeys agg ks harg
    have hd : d ∉ ks := by simpa [DestIsSource] using hdst
    have hns : staleKey db now d = false := by simpa [Stale, writeKeys] using hst
    cases hc : Spec.zCombine (Spec.abs now db) ks agg true with
    | none => simp [Decided, Spec.step, hc, Spec.skip, Spec.isSkip] at hdec
    | some r =>
      have := zCombineStore_refines hz agg hks hd hns (hord agg ks hsum) true hc
      show Refines now (update (fun x => zCombineStore x d ks agg true now) db)
        (Spec.step (.zInterStore d ks agg) now _)
      simp only [Spec.step, hc]
      exact this
  case zUnionStore d ks agg =>
    have hks := hkeys agg ks harg
    have hd : d ∉ ks := by simpa [DestIsSource] using hdst
    have hns : staleKey db now d = false := by simpa [Stale, writeKeys] using hst
    cases hc : Spec.zCombine (Spec.abs now db) ks agg false with
    | none => simp [Decided, Spec.step, hc, Spec.skip, Spec.isSkip] at hdec
    | some r =>
      have := zCombineStore_refines hz agg hks hd hns (hord agg ks hsum) false hc
      show Refines now (update (fun x => zCombineStore x d ks agg false now) db)
        (Spec.step (.zUnionStore d ks agg) now _)
      simp only [Spec.step, hc]
      exact this
  case zRangeRank k a b desc => exact zRangeRank_refines hz now k a b desc
  case zRangeScore k lo hi desc off cnt => exact zRangeScore_refines hz now k lo hi desc off cnt

/-- **C05, partial refinement.** One call of any sorted-set operation, on any table state
satisfying the structural invariant, for any arguments and any clock value, outside the classes
D05, D08 and `SumOrder`: the model returns exactly what the in-memory map returns, and the tables
afterwards stand for exactly the map's new state. (Key lists that name a key twice and inverted
rank ranges, the former D07 and D09, are covered.) -/
theorem zset_refines_partial : ∀ (op : Op) (now : Int) (db : DB),
    IsZOp op → db.Inv → Covered op = true → ArgsOk op = true → Decided op now db = true →
    Stale op now db = false → DestIsSource op = false → SumOrder op = false →
    let r := Model.dbRun op now db
    r.out = (Spec.step op now (Spec.abs now db)).out ∧
      Spec.abs now r.db = Spec.purge now (Spec.step op now (Spec.abs now db)).st :=
  fun op now db hop hinv => zset_refines_zwf op now db hop (DB.Inv.zwf hinv)

/-- every family member is covered -/
theorem covered_all : ∀ op, IsZOp op → Covered op = true := fun _ h => h

/-! ### sequences of operations -/

/-- Every sorted-set operation keeps `DB.ZWF` (for every state and argument, deviation classes
included). -/
theorem zset_preserves_zwf : ∀ (op : Op) (now : Int) (db : DB), IsZOp op → db.ZWF →
    (Model.dbRun op now db).db.ZWF := by
  intro op now db hop hz
  cases op <;> first | (cases hop; done) | skip
  case zAdd k e s => exact zAdd_wf hz k e s now
  case zAddMany k items => exact zAddMany_wf hz k items now
  case zCount k lo hi => exact hz
  case zDelete k es => exact zDelete_wf hz k es now
  case zDeleteRank k a b => exact zDeleteRank_wf hz k a b now
  case zDeleteScore k lo hi => exact zDeleteScore_wf hz k lo hi now
  case zGetRank k e =>
    show (Model.zGetRank db k e false now).db.ZWF
    unfold Model.zGetRank; simp only []; split <;> exact hz
  case zGetRankRev k e =>
    show (Model.zGetRank db k e true now).db.ZWF
    unfold Model.zGetRank; simp only []; split <;> exact hz
  case zGetScore k e =>
    show (Model.zGetScore db k e now).db.ZWF
    unfold Model.zGetScore; split <;> exact hz
  case zIncr k e d => exact zIncr_wf hz k e d now
  case zInter ks agg =>
    show (zCombineRun db ks agg true now).db.ZWF
    unfold zCombineRun; simp only []; split <;> exact hz
  case zInterStore d ks agg => exact zCombineStore_wf hz d ks agg true now
  case zLen k =>
    show (Model.zLen db k now).db.ZWF
    unfold Model.zLen; split
    · exact hz
    · split <;> exact hz
  case zRangeRank k a b desc =>
    show (Model.zRangeRank db k a b desc now).db.ZWF
    unfold Model.zRangeRank; split <;> exact hz
  case zRangeScore k lo hi desc off cnt => exact hz
  case zUnion ks agg =>
    show (zCombineRun db ks agg false now).db.ZWF
    unfold zCombineRun; simp only []; split <;> exact hz
  case zUnionStore d ks agg => exact zCombineStore_wf hz d ks agg false now

/-- a run of timed calls on the tables: the results, and the tables at the end -/
def runModel : List (Op × Int) → DB → List Out × DB
  | [], db => ([], db)
  | (op, now) :: rest, db =>
    let r := Model.dbRun op now db
    let t := runModel rest r.db
    (r.out :: t.1, t.2)

/-- the same run on the in-memory map; a key disappears when the clock reaches its expiry -/
def runSpec : List (Op × Int) → State → List Out × State
  | [], s => ([], s)
  | (op, now) :: rest, s =>
    let r := Spec.step op now (Spec.purge now s)
    let t := runSpec rest (Spec.purge now r.st)
    (r.out :: t.1, t.2)

/-- no call of the run falls into a deviation class, judged on the tables it meets -/
def CleanRun : List (Op × Int) → DB → Prop
  | [], _ => True
  | (op, now) :: rest, db =>
    IsZOp op ∧ ArgsOk op = true ∧ Decided op now db = true ∧ Stale op now db = false ∧
      DestIsSource op = false ∧ SumOrder op = false ∧ CleanRun rest (Model.dbRun op now db).db

/-- the clock does not run backwards -/
def ClockOk : Int → List (Op × Int) → Prop
  | _, [] => True
  | t, (_, now) :: rest => t ≤ now ∧ ClockOk now rest

def lastClock : Int → List (Op × Int) → Int
  | t, [] => t
  | _, (_, now) :: rest => lastClock now rest

/-- **C05 for sequences.** Any sequence of sorted-set operations at non-decreasing clock values,
started on tables satisfying the invariant and never meeting a deviation class: every call returns
what the in-memory map returns, and at the end the tables stand for exactly the map. -/
theorem zset_seq_refines : ∀ (tr : List (Op × Int)) (t : Int) (db : DB), db.ZWF → ClockOk t tr →
    CleanRun tr db →
    (runModel tr db).1 = (runSpec tr (Spec.abs t db)).1 ∧
      Spec.abs (lastClock t tr) (runModel tr db).2 = (runSpec tr (Spec.abs t db)).2
  | [], _, _, _, _, _ => ⟨rfl, rfl⟩
  | (op, now) :: rest, t, db, hz, hc, hcl => by
    obtain ⟨hop, harg, hdec, hst, hdst, hsum, hrest⟩ := hcl
    obtain ⟨href1, href2⟩ := zset_refines_zwf op now db hop hz hop harg hdec hst hdst hsum
    have ih := zset_seq_refines rest now (Model.dbRun op now db).db
      (zset_preserves_zwf op now db hop hz) hc.2 hrest
    simp only [runModel, runSpec, lastClock]
    rw [← abs_mono hz.names hc.1, ← href1, ← href2]
    exact ⟨by rw [ih.1], ih.2⟩

theorem zset_seq_refines_inv : ∀ (tr : List (Op × Int)) (t : Int) (db : DB), db.Inv → ClockOk t tr →
    CleanRun tr db →
    (runModel tr db).1 = (runSpec tr (Spec.abs t db)).1 ∧
      Spec.abs (lastClock t tr) (runModel tr db).2 = (runSpec tr (Spec.abs t db)).2 :=
  fun tr t db hinv => zset_seq_refines tr t db (DB.Inv.zwf hinv)

/-! ### the property, clause by clause -/

theorem dbRun_zLen (k : Bytes) (now : Int) (db : DB) :
    Model.dbRun (.zLen k) now db = Model.zLen db k now := rfl
theorem dbRun_zCount (k : Bytes) (lo hi : Score) (now : Int) (db : DB) :
    Model.dbRun (.zCount k lo hi) now db = Model.zCount db k lo hi now := rfl
theorem dbRun_zRangeRank (k : Bytes) (a b : Int) (desc : Bool) (now : Int) (db : DB) :
    Model.dbRun (.zRangeRank k a b desc) now db = Model.zRangeRank db k a b desc now := rfl
theorem dbRun_zRangeScore (k : Bytes) (lo hi : Score) (desc : Bool) (o c : Int) (now : Int) (db : DB) :
    Model.dbRun (.zRangeScore k lo hi desc o c) now db = Model.zRangeScore db k lo hi desc o c now := rfl
theorem dbRun_zGetScore (k e : Bytes) (now : Int) (db : DB) :
    Model.dbRun (.zGetScore k e) now db = Model.zGetScore db k e now := rfl
theorem dbRun_zGetRank (k e : Bytes) (now : Int) (db : DB) :
    Model.dbRun (.zGetRank k e) now db = Model.zGetRank db k e false now := rfl
theorem dbRun_zDeleteScore (k : Bytes) (lo hi : Score) (now : Int) (db : DB) :
    Model.dbRun (.zDeleteScore k lo hi) now db
      = update (fun d => Model.zDeleteScore d k lo hi now) db := rfl

theorem rankSlice_nil {α : Type} (a b : Int) : rankSlice ([] : List α) a b = [] := by
  unfold rankSlice; split <;> simp

theorem offsetCount_nil {α : Type} (o c : Int) : offsetCount ([] : List α) o c = [] := by
  unfold offsetCount; split <;> split <;> simp

/-- "a missing key reads as empty": every read of a name the keyspace does not hold answers as on
the empty sorted set. (The same holds, by `zsetAt`, for a name held by another type.) -/
theorem missing_key_reads_empty : ∀ (k : Bytes) (now : Int) (db : DB), db.Inv →
    Spec.get (Spec.abs now db) k = none →
    (Model.dbRun (.zLen k) now db).out = .ok (.int 0) ∧
    (∀ lo hi, (Model.dbRun (.zCount k lo hi) now db).out = .ok (.int 0)) ∧
    (∀ a b desc, (Model.dbRun (.zRangeRank k a b desc) now db).out = .ok (.list [])) ∧
    (∀ lo hi desc o c, (Model.dbRun (.zRangeScore k lo hi desc o c) now db).out = .ok (.list [])) ∧
    (∀ e, (Model.dbRun (.zGetScore k e) now db).out = .error .notFound) ∧
    (∀ e, (Model.dbRun (.zGetRank k e) now db).out = .error .notFound) := by
  intro k now db hinv hg
  have hz := DB.Inv.zwf hinv
  have h0 := zsetAt_of_get_none hg
  refine ⟨?_, ?_, ?_, ?_, ?_, ?_⟩
  · rw [dbRun_zLen, (zLen_refines hz now k).1, h0]; rfl
  · intro lo hi; rw [dbRun_zCount, (zCount_refines hz now k lo hi).1, h0]; rfl
  · intro a b desc
    rw [dbRun_zRangeRank, (zRangeRank_refines hz now k a b desc).1, h0]
    cases desc <;> simp [zsorted_nil, rankSlice_nil, Spec.ok]
  · intro lo hi desc o c
    rw [dbRun_zRangeScore, (zRangeScore_refines hz now k lo hi desc o c).1, h0]
    cases desc <;> simp [zsorted_nil, offsetCount_nil, Spec.ok]
  · intro e; rw [dbRun_zGetScore, (zGetScore_refines hz now k e).1, h0]; rfl
  · intro e
    rw [dbRun_zGetRank, (zGetRank_refines hz now k e false).1]
    simp [Spec.zGetRank, h0, zsorted_nil, Spec.indexOf?, Spec.er]

theorem between_all (x : Score) : Spec.between .negInf .posInf x = true := by
  cases x <;> rfl

/-- "cardinality = number of enumerated elements": `Len` is the length of what the full score
range enumerates, and that is the map in rank order. -/
theorem len_is_number_of_members : ∀ (k : Bytes) (now : Int) (db : DB), db.Inv →
    let z := Spec.zsetAt (Spec.abs now db) k
    (Model.dbRun (.zRangeScore k .negInf .posInf false 0 0) now db).out
        = .ok (.list ((Spec.zsorted z).map Spec.zItem)) ∧
    (Model.dbRun (.zLen k) now db).out = .ok (.int ((Spec.zsorted z).map Spec.zItem).length) := by
  intro k now db hinv
  have hz := DB.Inv.zwf hinv
  refine ⟨?_, ?_⟩
  · rw [dbRun_zRangeScore, (zRangeScore_refines hz now k .negInf .posInf false 0 0).1]
    have : (zsorted (zsetAt (Spec.abs now db) k)).filter (fun p => Spec.between .negInf .posInf p.2)
        = zsorted (zsetAt (Spec.abs now db) k) := by
      rw [List.filter_eq_self]; intro p _; exact between_all p.2
    simp [this, offsetCount, Spec.ok]
  · rw [dbRun_zLen, (zLen_refines hz now k).1, List.length_map, length_zsorted]; rfl

/-- "Add … reports created-vs-updated … truthfully": whenever `Add` succeeds, its answer is
`true` exactly when the member was not in the map. -/
theorem add_reports_created : ∀ (k e : Bytes) (sc : Score) (b : Bool) (now : Int) (db : DB), db.Inv →
    Spec.staleKey db now k = false →
    (Model.dbRun (.zAdd k e sc) now db).out = .ok (.bool b) →
    b = (aget (Spec.zsetAt (Spec.abs now db) k) e).isNone := by
  intro k e sc b now db hinv hns hout
  have hz := DB.Inv.zwf hinv
  have href := (zAdd_refines hz hns e sc).1
  have hout' : (update (fun d => Model.zAdd d k e sc now) db).out = .ok (.bool b) := hout
  rw [href] at hout'
  unfold Spec.zAdd at hout'
  unfold Spec.zsetAt
  cases hg : Spec.get (Spec.abs now db) k with
  | none =>
    rw [hg] at hout'
    simp only [Spec.ok, Except.ok.injEq, Val.bool.injEq] at hout'
    rw [← hout']; rfl
  | some en =>
    obtain ⟨v, et⟩ := en
    rw [hg] at hout'
    cases v <;> first | (simp [Spec.er] at hout'; done) | skip
    simp only [Spec.ok, Except.ok.injEq, Val.bool.injEq] at hout'
    rw [← hout']

/-- "…and the new score truthfully": after a successful `Add` the member has that score. -/
theorem score_after_add : ∀ (k e : Bytes) (sc : Score) (v : Val) (now : Int) (db : DB), db.Inv →
    Spec.staleKey db now k = false →
    (Model.dbRun (.zAdd k e sc) now db).out = .ok v →
    (Model.dbRun (.zGetScore k e) now (Model.dbRun (.zAdd k e sc) now db).db).out = .ok (.score sc) := by
  intro k e sc v now db hinv hns hout
  have hz := DB.Inv.zwf hinv
  have hz' : (Model.dbRun (.zAdd k e sc) now db).db.ZWF := zAdd_wf hz k e sc now
  obtain ⟨href1, href2⟩ := zAdd_refines hz hns e sc
  have hout' : (update (fun d => Model.zAdd d k e sc now) db).out = .ok v := hout
  rw [href1] at hout'
  have hsorted := sorted_abs hz.names now
  have key : ∀ (z : List (Bytes × Score)) (et : Option Int), liveAt now et = true →
      Spec.abs now (Model.dbRun (.zAdd k e sc) now db).db
        = Spec.purge now (Spec.put (Spec.abs now db) k ⟨.zset (aput z e sc), et⟩) →
      (Model.dbRun (.zGetScore k e) now (Model.dbRun (.zAdd k e sc) now db).db).out = .ok (.score sc) := by
    intro z et hl ha
    rw [dbRun_zGetScore, (zGetScore_refines hz' now k e).1]
    have hg : Spec.get (Spec.abs now (Model.dbRun (.zAdd k e sc) now db).db) k
        = some ⟨.zset (aput z e sc), et⟩ := by
      rw [ha, get_purge (hsorted.put k _), get_put_self]; simp [hl]
    rw [zsetAt_of_get hg, aget_aput]
    simp [Spec.ok]
  unfold Spec.zAdd at hout' href2
  cases hg : Spec.get (Spec.abs now db) k with
  | none =>
    rw [hg] at href2
    exact key [] none rfl href2
  | some en =>
    obtain ⟨w, et⟩ := en
    rw [hg] at hout' href2
    have hl := (get_abs_live hz.toWF hg).1
    cases w <;> first | (simp [Spec.er] at hout'; done) | skip
    exact key _ et hl href2

theorem score_lt_le_trans {a b c : Score} (h1 : Score.lt a b = true) (h2 : Score.lt c b = false) :
    Score.lt a c = true := by
  cases hac : Score.lt a c with
  | true => rfl
  | false =>
    exfalso
    cases hca : Score.lt c a with
    | true =>
      have := ZSetRef.Score.lt_trans hca h1
      rw [h2] at this; cases this
    | false =>
      have := ZSetRef.Score.lt_connected hac hca
      rw [this, h2] at h1; cases h1

theorem between_inverted {lo hi : Score} (h : Score.lt hi lo = true) (x : Score) :
    Spec.between lo hi x = false := by
  unfold Spec.between Score.le
  cases h1 : Score.lt x lo with
  | true => rfl
  | false =>
    have := score_lt_le_trans h h1
    simp [this]

/-- "an empty or inverted range selects nothing" (scores): with `hi < lo`, `Count` is 0, the range
is empty, and remove-by-score removes nothing and changes nothing. -/
theorem inverted_score_range_selects_nothing : ∀ (k : Bytes) (lo hi : Score) (now : Int) (db : DB),
    db.Inv → Score.lt hi lo = true →
    (Model.dbRun (.zCount k lo hi) now db).out = .ok (.int 0) ∧
    (∀ desc o c, (Model.dbRun (.zRangeScore k lo hi desc o c) now db).out = .ok (.list [])) ∧
    (Model.dbRun (.zDeleteScore k lo hi) now db).out = .ok (.int 0) ∧
    Spec.abs now (Model.dbRun (.zDeleteScore k lo hi) now db).db = Spec.abs now db := by
  intro k lo hi now db hinv hlt
  have hz := DB.Inv.zwf hinv
  have hnone : ∀ (l : List (Bytes × Score)), l.filter (fun p => Spec.between lo hi p.2) = [] := by
    intro l
    rw [List.filter_eq_nil_iff]
    intro p _
    rw [between_inverted hlt]; simp
  refine ⟨?_, ?_, ?_, ?_⟩
  · rw [dbRun_zCount, (zCount_refines hz now k lo hi).1, hnone]; rfl
  · intro desc o c
    rw [dbRun_zRangeScore, (zRangeScore_refines hz now k lo hi desc o c).1, hnone]
    cases desc <;> simp [offsetCount_nil, Spec.ok]
  · have := (zDeleteScore_refines hz now k lo hi).1
    rw [hnone, List.map_nil, zRemove_nil] at this
    exact this
  · have := (zDeleteScore_refines hz now k lo hi).2
    rw [hnone, List.map_nil, zRemove_nil] at this
    rw [dbRun_zDeleteScore, this]
    exact purge_abs hz.names now

/-- "an empty or inverted range selects nothing" (ranks): a range by rank with `a > b` or a
negative bound is empty. -/
theorem inverted_rank_range_selects_nothing : ∀ (k : Bytes) (a b : Int) (desc : Bool) (now : Int)
    (db : DB), db.Inv → (a > b ∨ a < 0 ∨ b < 0) →
    (Model.dbRun (.zRangeRank k a b desc) now db).out = .ok (.list []) := by
  intro k a b desc now db hinv h
  have hz := DB.Inv.zwf hinv
  rw [dbRun_zRangeRank, (zRangeRank_refines hz now k a b desc).1]
  have : ∀ (l : List (Bytes × Score)), rankSlice l a b = [] := by
    intro l; unfold rankSlice; rw [if_pos (by omega)]
  simp [this, Spec.ok]

theorem dbRun_zDeleteRank (k : Bytes) (a b : Int) (now : Int) (db : DB) :
    Model.dbRun (.zDeleteRank k a b) now db
      = update (fun d => Model.zDeleteRank d k a b now) db := rfl

/-- "an empty or inverted range selects nothing" (remove by rank; this was D09): with `a > b` or a
negative bound `DeleteWith.ByRank(a, b)` answers 0 and changes nothing. -/
theorem inverted_rank_delete_removes_nothing : ∀ (k : Bytes) (a b : Int) (now : Int) (db : DB),
    db.Inv → (a > b ∨ a < 0 ∨ b < 0) →
    (Model.dbRun (.zDeleteRank k a b) now db).out = .ok (.int 0) ∧
    Spec.abs now (Model.dbRun (.zDeleteRank k a b) now db).db = Spec.abs now db := by
  intro k a b now db hinv h
  have hz := DB.Inv.zwf hinv
  have hs : ∀ (l : List (Bytes × Score)), rankSlice l a b = [] := by
    intro l; unfold rankSlice; rw [if_pos (by omega)]
  have href := zDeleteRank_refines hz now k a b
  rw [hs, List.map_nil, zRemove_nil] at href
  rw [dbRun_zDeleteRank]
  exact ⟨href.1, by rw [href.2]; exact purge_abs hz.names now⟩

theorem dbRun_zInter (ks : List Bytes) (agg : Agg) (now : Int) (db : DB) :
    Model.dbRun (.zInter ks agg) now db = zCombineRun db ks agg true now := rfl
theorem dbRun_zUnion (ks : List Bytes) (agg : Agg) (now : Int) (db : DB) :
    Model.dbRun (.zUnion ks agg) now db = zCombineRun db ks agg false now := rfl

/-- "union and intersection … produce exactly the members of the mathematical result for any key
list": `Inter` / `Union` (`inter` = `true` / `false`) over ANY key list, any aggregate. Naming a
key twice changes nothing in the answer of the model (it is the answer for the distinct keys
`dedup ks`, which by `zset_refines_partial` is the specification's answer `r'` for them, in rank
order), and that answer has exactly the members of the specification's answer `r` for the list as
given. Only the scores of a `sum` differ: the specification adds a repeated key's score once per
occurrence (`inter_repeated_key_sum`). The hypotheses say that the specification decides both
cases (no NaN) and that the distinct keys are outside `SumOrder`. -/
theorem combination_members_any_key_list : ∀ (ks : List Bytes) (agg : Agg) (inter : Bool) (now : Int)
    (db : DB) (r r' : List (Bytes × Score)), db.Inv →
    Spec.zCombine (Spec.abs now db) ks agg inter = some r →
    Spec.zCombine (Spec.abs now db) (dedup ks) agg inter = some r' →
    (agg ≠ .sum ∨ (dedup ks).length ≤ 2) →
    (Model.dbRun (if inter then .zInter ks agg else .zUnion ks agg) now db).out
        = .ok (.list ((Spec.zsorted r').map Spec.zItem)) ∧
      (Model.dbRun (if inter then .zInter ks agg else .zUnion ks agg) now db).db = db ∧
      r'.map (·.1) = r.map (·.1) := by
  intro ks agg inter now db r r' hinv hr hr' hord
  obtain ⟨h1, h2⟩ := zCombineRun_members (DB.Inv.zwf hinv) now ks agg hord inter hr hr'
  cases inter
  · show (Model.dbRun (.zUnion ks agg) now db).out = _ ∧
      (Model.dbRun (.zUnion ks agg) now db).db = db ∧ _
    rw [dbRun_zUnion, h1]
    exact ⟨rfl, rfl, h2⟩
  · show (Model.dbRun (.zInter ks agg) now db).out = _ ∧
      (Model.dbRun (.zInter ks agg) now db).db = db ∧ _
    rw [dbRun_zInter, h1]
    exact ⟨rfl, rfl, h2⟩

/-! ### the deviations are real -/

/-! `Val` has no decidable equality; results are inspected through projections. -/

def valItem : Val → Option (Bytes × Score)
  | .list [.bytes m, .score s] => some (m, s)
  | _ => none

/-- the (member, score) items of a list result -/
def outItems : Out → Option (List (Bytes × Score))
  | .ok (.list l) => some (l.filterMap valItem)
  | _ => none

def outInt : Out → Option Int
  | .ok (.int i) => some i
  | _ => none

def outBool : Out → Option Bool
  | .ok (.bool b) => some b
  | _ => none

def outScore : Out → Option Score
  | .ok (.score s) => some s
  | _ => none

def outErr : Out → Option Err
  | .error e => some e
  | _ => none

def bK : Bytes := [107]          -- "k"
def bX : Bytes := [120]          -- "x"
def bY : Bytes := [121]          -- "y"
def bW : Bytes := [119]          -- "w"
def bA : Bytes := [97]           -- "a"
def bB : Bytes := [98]           -- "b"
def bC : Bytes := [99]           -- "c"
def bM : Bytes := [109]          -- "m"
def bN : Bytes := [110]          -- "n", not stored
def bS : Bytes := [115]          -- "s"

/-- a sorted-set key row without expiry -/
def zk (id : Int) (k : Bytes) (n : Int) : KeyRow :=
  { id := id, key := k, ty := 5, version := 1, etime := none, mtime := 0, len := some n }

/-- one sorted set "k" = {a ↦ 1} whose expiry (5) has passed at `now = 10`, not yet cleaned up -/
def dbStaleZ : DB :=
  { keys := [{ id := 1, key := bK, ty := 5, version := 1, etime := some 5, mtime := 0, len := some 1 }],
    zsets := [{ rowid := 1, kid := 1, elem := bA, score := .fin 1 }] }

/-- D05 is real. The sorted set "k" expired at 5; at 10 it does not exist, so `Add(k, b, 2)` must
create "k" = {b ↦ 2} without expiry. The model (like the code) answers "created" but reuses the
expired row with its old expiry and its old member: the key still does not exist afterwards. -/
theorem stale_add_deviates :
    dbStaleZ.Inv ∧ Stale (.zAdd bK bB (.fin 2)) 10 dbStaleZ = true ∧
    outBool (Model.dbRun (.zAdd bK bB (.fin 2)) 10 dbStaleZ).out = some true ∧
    Spec.get (Spec.abs 10 (Model.dbRun (.zAdd bK bB (.fin 2)) 10 dbStaleZ).db) bK = none ∧
    Spec.get (Spec.purge 10 (Spec.step (.zAdd bK bB (.fin 2)) 10 (Spec.abs 10 dbStaleZ)).st) bK
      = some ⟨.zset [(bB, .fin 2)], none⟩ := by
  refine ⟨by unfold DB.Inv; decide, by decide, by decide +kernel, by decide +kernel, by decide +kernel⟩

/-- "x" = {a ↦ 1}, "y" = {b ↦ 2} -/
def dbXY : DB :=
  { keys := [zk 1 bX 1, zk 2 bY 1],
    zsets := [{ rowid := 1, kid := 1, elem := bA, score := .fin 1 },
              { rowid := 2, kid := 2, elem := bB, score := .fin 2 }] }

/-- D07 is repaired. `Inter(x, x)`: the intersection of a set with itself is the set. The code's
`having count(distinct kid) = 2` could never hold and the answer was empty; compared with the
number of DISTINCT keys it holds, and for `min` the model answers exactly what the specification
answers (the case is inside `zset_refines_partial`: `ArgsOk` holds, no classifier fires). -/
theorem repeated_key_now_agrees :
    dbXY.Inv ∧ ArgsOk (.zInter [bX, bX] .min) = true ∧
    Decided (.zInter [bX, bX] .min) 10 dbXY = true ∧
    Spec.known false (.zInter [bX, bX] .min) 10 dbXY = [] ∧
    outItems (Model.dbRun (.zInter [bX, bX] .min) 10 dbXY).out = some [(bA, .fin 1)] ∧
    (Model.dbRun (.zInter [bX, bX] .min) 10 dbXY).out
      = (Spec.step (.zInter [bX, bX] .min) 10 (Spec.abs 10 dbXY)).out := by
  have hinv : dbXY.Inv := by unfold DB.Inv; decide
  have hdec : Decided (.zInter [bX, bX] .min) 10 dbXY = true := by decide +kernel
  exact ⟨hinv, by decide, hdec, by decide +kernel, by decide +kernel,
    (zset_refines_partial (.zInter [bX, bX] .min) 10 dbXY rfl hinv rfl (by decide) hdec
      (by decide) (by decide) (by decide)).1⟩

/-- D08 is real. `UnionStore(x, [x, y])` must leave x = {a ↦ 1, b ↦ 2} and answer 2. The model
(like the code) empties the destination first, so x's own members are lost: it answers 1. -/
theorem dest_is_source_deviates :
    dbXY.Inv ∧ DestIsSource (.zUnionStore bX [bX, bY] .sum) = true ∧
    ArgsOk (.zUnionStore bX [bX, bY] .sum) = true ∧
    outInt (Model.dbRun (.zUnionStore bX [bX, bY] .sum) 10 dbXY).out = some 1 ∧
    outInt (Spec.step (.zUnionStore bX [bX, bY] .sum) 10 (Spec.abs 10 dbXY)).out = some 2 ∧
    Spec.zsetAt (Spec.abs 10 (Model.dbRun (.zUnionStore bX [bX, bY] .sum) 10 dbXY).db) bX
      = [(bB, .fin 2)] := by
  refine ⟨by unfold DB.Inv; decide, by decide, by decide, by decide +kernel, by decide +kernel,
    by decide +kernel⟩

/-- "k" = {"0" ↦ 0, "1" ↦ 1, "2" ↦ 2, "3" ↦ 3, "4" ↦ 4} -/
def db5 : DB :=
  { keys := [zk 1 bK 5],
    zsets := [{ rowid := 1, kid := 1, elem := [48], score := .fin 0 },
              { rowid := 2, kid := 1, elem := [49], score := .fin 1 },
              { rowid := 3, kid := 1, elem := [50], score := .fin 2 },
              { rowid := 4, kid := 1, elem := [51], score := .fin 3 },
              { rowid := 5, kid := 1, elem := [52], score := .fin 4 }] }

/-- D09 is repaired. `DeleteWith(k).ByRank(3, 1)` is an inverted range and must remove nothing.
The code sent `limit 3, -1` and removed the ranks 3 and 4; it now answers 0, as the specification
does, and leaves the five members. -/
theorem rank_inverted_now_agrees :
    db5.Inv ∧ Spec.known false (.zDeleteRank bK 3 1) 10 db5 = [] ∧
    outInt (Model.dbRun (.zDeleteRank bK 3 1) 10 db5).out = some 0 ∧
    outInt (Spec.step (.zDeleteRank bK 3 1) 10 (Spec.abs 10 db5)).out = some 0 ∧
    (Spec.zsetAt (Spec.abs 10 (Model.dbRun (.zDeleteRank bK 3 1) 10 db5).db) bK).length = 5 := by
  refine ⟨by unfold DB.Inv; decide, by decide +kernel, by decide +kernel, by decide +kernel,
    by decide +kernel⟩

/-- 2^53 -/
def big : Dyadic := 9007199254740992

/-- "x" = {m ↦ 2^53}, "y" = {m ↦ 1}, "w" = {m ↦ 1}; the row of "x" was written last -/
def dbSum : DB :=
  { keys := [zk 1 bX 1, zk 2 bY 1, zk 3 bW 1],
    zsets := [{ rowid := 1, kid := 2, elem := bM, score := .fin 1 },
              { rowid := 2, kid := 3, elem := bM, score := .fin 1 },
              { rowid := 3, kid := 1, elem := bM, score := .fin big }] }

/-- `SumOrder` is real (NOT in the catalogue). `Union(x, y, w)` with sum: in key-list order
2^53 + 1 rounds back to 2^53, twice; in table order 1 + 1 = 2 and 2 + 2^53 is exact. No other
classifier fires. -/
theorem sum_order_deviates :
    dbSum.Inv ∧ SumOrder (.zUnion [bX, bY, bW] .sum) = true ∧
    ArgsOk (.zUnion [bX, bY, bW] .sum) = true ∧ Decided (.zUnion [bX, bY, bW] .sum) 10 dbSum = true ∧
    Spec.known false (.zUnion [bX, bY, bW] .sum) 10 dbSum = [] ∧
    outItems (Model.dbRun (.zUnion [bX, bY, bW] .sum) 10 dbSum).out = some [(bM, .fin 9007199254740994)] ∧
    outItems (Spec.step (.zUnion [bX, bY, bW] .sum) 10 (Spec.abs 10 dbSum)).out
      = some [(bM, .fin 9007199254740992)] := by
  refine ⟨by unfold DB.Inv; decide, by decide, by decide, by decide +kernel, by decide +kernel,
    by decide +kernel, by decide +kernel⟩

/-- Hence the refinement statement without the classifiers is false. -/
theorem full_strength_is_false :
    ¬ (∀ (op : Op) (now : Int) (db : DB), IsZOp op → db.Inv → ArgsOk op = true →
        Decided op now db = true →
        (Model.dbRun op now db).out = (Spec.step op now (Spec.abs now db)).out ∧
        Spec.abs now (Model.dbRun op now db).db
          = Spec.purge now (Spec.step op now (Spec.abs now db)).st) := by
  intro h
  have d := dest_is_source_deviates
  have h1 := (h (.zUnionStore bX [bX, bY] .sum) 10 dbXY rfl d.1 d.2.2.1 (by decide +kernel)).1
  have h2 := congrArg outInt h1
  rw [d.2.2.2.1, d.2.2.2.2.1] at h2
  exact absurd h2 (by decide)

/-- … and so is the statement with the catalogue's classifiers only (without `SumOrder`). -/
theorem catalogue_alone_is_not_enough :
    ¬ (∀ (op : Op) (now : Int) (db : DB), IsZOp op → db.Inv → ArgsOk op = true →
        Decided op now db = true → Spec.known false op now db = [] →
        (Model.dbRun op now db).out = (Spec.step op now (Spec.abs now db)).out) := by
  intro h
  have d := sum_order_deviates
  have h1 := h (.zUnion [bX, bY, bW] .sum) 10 dbSum rfl d.1 d.2.2.1 d.2.2.2.1 d.2.2.2.2.1
  have h2 := congrArg outItems h1
  rw [d.2.2.2.2.2.1, d.2.2.2.2.2.2] at h2
  exact absurd h2 (by decide +kernel)

/-! ### the side conditions are needed -/

/-- "k" = {a ↦ 5} -/
def dbOne : DB :=
  { keys := [zk 1 bK 1], zsets := [{ rowid := 1, kid := 1, elem := bA, score := .fin 5 }] }

/-- `ArgsOk` for `AddMany`: `Op.zAddMany` carries a list where Go has a map. With the member `a`
listed twice the model's `len(items) - count` is 1 where no member is new. -/
theorem addmany_repeated_member :
    dbOne.Inv ∧ ArgsOk (.zAddMany bK [(bA, .fin 1), (bA, .fin 2)]) = false ∧
    outInt (Model.dbRun (.zAddMany bK [(bA, .fin 1), (bA, .fin 2)]) 10 dbOne).out = some 1 ∧
    outInt (Spec.step (.zAddMany bK [(bA, .fin 1), (bA, .fin 2)]) 10 (Spec.abs 10 dbOne)).out = some 0 := by
  refine ⟨by unfold DB.Inv; decide, by decide, by decide +kernel, by decide +kernel⟩

/-- `ArgsOk` for `Union`: for a repeated key C05 fixes the members only. `Union(x, x)` with sum: the
model reads x's rows once (a ↦ 1), the specification adds x to itself (a ↦ 2). The members agree
(`combination_members_any_key_list`). -/
theorem union_repeated_key :
    dbXY.Inv ∧ ArgsOk (.zUnion [bX, bX] .sum) = false ∧
    outItems (Model.dbRun (.zUnion [bX, bX] .sum) 10 dbXY).out = some [(bA, .fin 1)] ∧
    outItems (Spec.step (.zUnion [bX, bX] .sum) 10 (Spec.abs 10 dbXY)).out = some [(bA, .fin 2)] := by
  refine ⟨by unfold DB.Inv; decide, by decide, by decide +kernel, by decide +kernel⟩

/-- `ArgsOk` for `Inter` (the former D07 witness): `Inter(x, x)` with sum. The model no longer comes
back empty: it answers with x's member, its score read once (a ↦ 1); the specification adds x to
itself (a ↦ 2). Same members, a convention of the specification on the score. -/
theorem inter_repeated_key_sum :
    dbXY.Inv ∧ ArgsOk (.zInter [bX, bX] .sum) = false ∧
    Spec.known false (.zInter [bX, bX] .sum) 10 dbXY = [] ∧
    outItems (Model.dbRun (.zInter [bX, bX] .sum) 10 dbXY).out = some [(bA, .fin 1)] ∧
    outItems (Spec.step (.zInter [bX, bX] .sum) 10 (Spec.abs 10 dbXY)).out = some [(bA, .fin 2)] := by
  refine ⟨by unfold DB.Inv; decide, by decide, by decide +kernel, by decide +kernel,
    by decide +kernel⟩

/-- "k" = {a ↦ -inf} -/
def dbInf : DB :=
  { keys := [zk 1 bK 1], zsets := [{ rowid := 1, kid := 1, elem := bA, score := .negInf }] }

/-- `Decided`: `Incr(k, a, +inf)` on a ↦ -inf is not a number. The specification does not decide
the case (`skip`); the model (like the code: NaN is stored as NULL, the column is NOT NULL) fails. -/
theorem nan_is_undecided :
    dbInf.Inv ∧ Decided (.zIncr bK bA .posInf) 10 dbInf = false ∧
    outErr (Model.dbRun (.zIncr bK bA .posInf) 10 dbInf).out = some .sqlNotNull ∧
    (Model.dbRun (.zIncr bK bA .posInf) 10 dbInf).db = dbInf := by
  refine ⟨by unfold DB.Inv; decide, by decide +kernel, by decide +kernel, by decide +kernel⟩

/-! ### non-vacuity: the hypotheses are satisfiable for every kind of operation -/

/-- "x" = {a ↦ 1, b ↦ 2}; "y" = {b ↦ 5, c ↦ 1}, expiring at 100; "w" = {b ↦ 2^53};
a string "s" = "v" -/
def demo : DB :=
  { keys := [zk 1 bX 2,
             { id := 2, key := bY, ty := 5, version := 4, etime := some 100, mtime := 0, len := some 2 },
             zk 3 bW 1,
             { id := 4, key := bS, ty := 1, version := 1, etime := none, mtime := 0, len := none }],
    strs := [{ kid := 4, value := [118] }],
    zsets := [{ rowid := 1, kid := 1, elem := bB, score := .fin 2 },
              { rowid := 2, kid := 2, elem := bC, score := .fin 1 },
              { rowid := 3, kid := 1, elem := bA, score := .fin 1 },
              { rowid := 4, kid := 2, elem := bB, score := .fin 5 },
              { rowid := 5, kid := 3, elem := bB, score := .fin big }] }

example : demo.Inv := by unfold DB.Inv; decide

def demoOps : List Op :=
  [.zAdd bX bC (.fin 3), .zAdd bX bA .posInf, .zAdd bN bA (.fin 1), .zAdd bS bA (.fin 1),
   .zAddMany bX [(bA, .fin 7), (bC, .fin 8)], .zAddMany bN [], .zCount bX (.fin 1) .posInf,
   .zDelete bY [bB, bN], .zDeleteRank bX 0 0, .zDeleteRank bX 2 1, .zDeleteRank bX (-1) 5,
   .zDeleteScore bY (.fin 2) .posInf, .zGetRank bX bB, .zGetRankRev bY bC, .zGetScore bN bA,
   .zIncr bX bA (.fin 2), .zIncr bN bA .negInf, .zInter [bX, bY] .sum, .zInter [bX, bY, bW] .max,
   .zInter [] .min, .zInter [bX, bY, bX] .min, .zInterStore bN [bY, bX, bY] .max,
   .zUnion [bX, bX, bY] .max, .zDeleteRank bX 3 1, .zInterStore bN [bX, bY] .min, .zInterStore bW [bX, bY] .sum, .zLen bY,
   .zRangeRank bX 0 (-1) false, .zRangeRank bY 0 5 true, .zRangeScore bX .negInf .posInf true 1 1,
   .zUnion [bX, bY] .sum, .zUnion [bX, bY, bW, bS, bN] .min, .zUnionStore bN [bX, bW] .sum,
   .zUnionStore bS [bX] .max]

/-- every hypothesis of `zset_refines_partial` holds for operations of each kind on `demo` -/
example : ∀ op ∈ demoOps,
    IsZOp op ∧ Covered op = true ∧ ArgsOk op = true ∧ Decided op 10 demo = true ∧
    Stale op 10 demo = false ∧ DestIsSource op = false ∧ SumOrder op = false := by
  decide +kernel

/-- the theorem instantiated: `Union(x, y)` with sum on `demo`, in rank order -/
example :
    outItems (Model.dbRun (.zUnion [bX, bY] .sum) 10 demo).out
      = some [(bA, .fin 1), (bC, .fin 1), (bB, .fin 7)] ∧
    (Model.dbRun (.zUnion [bX, bY] .sum) 10 demo).out
      = (Spec.step (.zUnion [bX, bY] .sum) 10 (Spec.abs 10 demo)).out :=
  ⟨by decide +kernel,
   (zset_refines_partial (.zUnion [bX, bY] .sum) 10 demo rfl (by unfold DB.Inv; decide) rfl
     (by decide) (by decide +kernel) (by decide) (by decide) (by decide)).1⟩

/-- `InterStore(w, [x, y])` with sum replaces w = {b ↦ 2^53} by {b ↦ 7} -/
example :
    Spec.zsetAt (Spec.abs 10 (Model.dbRun (.zInterStore bW [bX, bY] .sum) 10 demo).db) bW
      = [(bB, .fin 7)] := by decide +kernel

/-- a run on `demo` that satisfies the hypotheses of `zset_seq_refines` -/
def demoRun : List (Op × Int) :=
  [(.zAdd bN bA (.fin 1), 10), (.zIncr bN bA (.fin 2), 11), (.zAddMany bX [(bC, .fin 0)], 11),
   (.zUnionStore bW [bX, bY] .sum, 12), (.zDeleteRank bW 0 0, 12), (.zRangeRank bW 0 5 false, 200),
   (.zInter [bX, bY] .sum, 200)]

instance decCleanRun : ∀ tr db, Decidable (CleanRun tr db)
  | [], _ => isTrue trivial
  | (op, now) :: rest, db =>
    have := decCleanRun rest (Model.dbRun op now db).db
    inferInstanceAs (Decidable (_ ∧ _ ∧ _ ∧ _ ∧ _ ∧ _ ∧ _))

instance decClockOk : ∀ t tr, Decidable (ClockOk t tr)
  | _, [] => isTrue trivial
  | t, (_, now) :: rest =>
    have := decClockOk now rest
    inferInstanceAs (Decidable (t ≤ now ∧ ClockOk now rest))

example : ClockOk 10 demoRun ∧ CleanRun demoRun demo := by decide +kernel

/-- at 200 the key "y" (expiry 100) is gone: the last intersection is empty -/
example :
    (runSpec demoRun (Spec.abs 10 demo)).1.map outInt
      = [none, none, some 1, some 3, some 1, none, none] ∧
    (runSpec demoRun (Spec.abs 10 demo)).1.map outItems
      = [none, none, none, none, none, some [(bC, .fin 1), (bB, .fin 7)], some []] ∧
    (runSpec demoRun (Spec.abs 10 demo)).1.map outScore
      = [none, some (.fin 3), none, none, none, none, none] := by
  decide +kernel

end Redka.Props.C05
