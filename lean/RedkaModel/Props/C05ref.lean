/-
  C05 — sorted sets behave like a member-to-score map ranked by (score, member bytes).
-/
import RedkaModel.Proofs.ZSetWrite

namespace Redka.Props.C05

open Redka Redka.Model Redka.Spec

/-! ### the family, the classifiers of known deviations, the side conditions -/

/-- the operations of `DB.ZSet()` the theorem speaks about (`Scan` has no specification here:
`Spec.step` answers `skip`) -/
def isZOp : Op → Bool
  | .zAdd .. | .zAddMany .. | .zCount .. | .zDelete .. | .zDeleteRank .. | .zDeleteScore ..
  | .zGetRank .. | .zGetRankRev .. | .zGetScore .. | .zIncr .. | .zInter .. | .zInterStore ..
  | .zLen _ | .zRangeRank .. | .zRangeScore .. | .zUnion .. | .zUnionStore .. => true
  | _ => false

def IsZOp (op : Op) : Prop := isZOp op = true

instance (op : Op) : Decidable (IsZOp op) := inferInstanceAs (Decidable (_ = true))

/-- the constructors the refinement theorem covers -/
def Covered : Op → Bool
  | .zInter .. | .zInterStore .. | .zUnion .. | .zUnionStore .. => false
  | op => isZOp op

/-- D05, exactly as in `Spec.known` -/
def Stale (op : Op) (now : Int) (db : DB) : Bool :=
  (Spec.writeKeys op).any (Spec.staleKey db now)

/-- D07, exactly as in `Spec.known`: an intersection over a key list with a repeated key -/
def RepeatedKey : Op → Bool
  | .zInter ks _ | .zInterStore _ ks _ => !Spec.distinct ks
  | _ => false

/-- D08, exactly as in `Spec.known`: the destination of a storing combination is also a source -/
def DestIsSource : Op → Bool
  | .zInterStore d ks _ | .zUnionStore d ks _ => ks.contains d
  | _ => false

/-- D09, exactly as in `Spec.known`: `DeleteWith.ByRank(a, b)` with `b + 1 < a` -/
def RankInverted : Op → Bool
  | .zDeleteRank _ a b => decide (a ≥ 0) && decide (b ≥ 0) && decide (b - a + 1 < 0)
  | _ => false

/-- The four classifiers are the entries D05, D07, D08, D09 of the catalogue of known findings
(`Spec.known`), for every sorted-set operation. -/
theorem classifiers_are_the_catalogue : ∀ (inTx : Bool) (op : Op) (now : Int) (db : DB), IsZOp op →
    Spec.known inTx op now db
      = (if Stale op now db then ["D05"] else []) ++ (if RepeatedKey op then ["D07"] else [])
        ++ (if DestIsSource op then ["D08"] else []) ++ (if RankInverted op then ["D09"] else []) := by
  intro inTx op now db hop
  cases op <;> first | (cases hop; done) | (simp [Spec.known, Stale, RepeatedKey, DestIsSource, RankInverted])

/-- `AddMany` takes a Go map: no member occurs twice -/
def ArgsOk : Op → Bool
  | .zAddMany _ items => Spec.distinct (items.map (·.1))
  | _ => true

/-- the specification decides the case (it does not for a score sum that is not a number) -/
def Decided (op : Op) (now : Int) (db : DB) : Bool :=
  !Spec.isSkip (Spec.step op now (Spec.abs now db)).out

theorem distinct_iff_nodup : ∀ (l : List Bytes), Spec.distinct l = true ↔ l.Nodup
  | [] => by simp [Spec.distinct]
  | x :: xs => by simp [Spec.distinct, distinct_iff_nodup xs]

/-! ### the refinement theorem -/

theorem zset_refines_zwf : ∀ (op : Op) (now : Int) (db : DB),
    IsZOp op → db.ZWF → Covered op = true → ArgsOk op = true → Decided op now db = true →
    Stale op now db = false → RepeatedKey op = false → DestIsSource op = false →
    RankInverted op = false →
    let r := Model.dbRun op now db
    r.out = (Spec.step op now (Spec.abs now db)).out ∧
      Spec.abs now r.db = Spec.purge now (Spec.step op now (Spec.abs now db)).st := by
  intro op now db hop hz hcov harg hdec hst hrep hdst hrank
  cases op <;> first | (cases hop; done) | (cases hcov; done) | skip
  case zAdd k e s =>
    have hns : staleKey db now k = false := by simpa [Stale, writeKeys] using hst
    exact zAdd_refines hz hns e s
  case zAddMany k items =>
    have hns : staleKey db now k = false := by simpa [Stale, writeKeys] using hst
    exact zAddMany_refines hz hns items ((distinct_iff_nodup _).1 harg)
  case zCount k lo hi => exact zCount_refines hz now k lo hi
  case zDelete k es => exact zDelete_refines hz now k es
  case zDeleteRank k a b => exact zDeleteRank_refines hz now k a b hrank
  case zDeleteScore k lo hi => exact zDeleteScore_refines hz now k lo hi
  case zGetRank k e => exact zGetRank_refines hz now k e false
  case zGetRankRev k e => exact zGetRank_refines hz now k e true
  case zGetScore k e => exact zGetScore_refines hz now k e
  case zIncr k e d =>
    have hns : staleKey db now k = false := by simpa [Stale, writeKeys] using hst
    refine zIncr_refines hz hns e d ?_
    intro old hold hadd
    have hd : Spec.isSkip (Spec.zIncr (Spec.abs now db) k e d).out = false := by
      simpa [Decided, Spec.step] using hdec
    unfold Spec.zsetAt at hold
    cases hg : Spec.get (Spec.abs now db) k with
    | none => rw [hg] at hold; simp [aget_nil] at hold
    | some en =>
      obtain ⟨v, et⟩ := en
      rw [hg] at hold
      cases v <;> first | (simp [aget_nil] at hold; done) | skip
      rename_i z
      simp only [] at hold
      simp [Spec.zIncr, hg, hold, hadd, Spec.skip, Spec.isSkip] at hd
  case zLen k => exact zLen_refines hz now k
  case zRangeRank k a b desc => exact zRangeRank_refines hz now k a b desc
  case zRangeScore k lo hi desc off cnt => exact zRangeScore_refines hz now k lo hi desc off cnt

end Redka.Props.C05
