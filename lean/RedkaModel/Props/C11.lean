/-
  C11 — structural consistency of the stored representation.

  "After every operation or transaction, successful or not, the stored representation is
  consistent: the length reported for a list, set, hash or sorted set equals the number of elements
  it enumerates, every stored element belongs to exactly one existing key of the matching type,
  elements are unique where the type demands it, list positions are distinct, and the documented
  SQL views show exactly the live keys and elements that the API shows, in the same order.
  Consistency is preserved by any mix of operations, by failed operations, by caller-managed
  transactions that ignore an operation's error, and by connection replacement."

  The invariant is `DB.Inv` (= the Bool audit `DB.invB` that the driver runs on every real dump);
  `InvP.WF` is its Prop-level form (`inv_characterisation`).  What is proved, for EVERY state,
  EVERY argument and EVERY clock value, over ALL constructors of `Op` (`Covered op = true` for all):

    * `inv_step_db_partial` / `inv_step_db`: every `DB`-level method preserves `Inv`
      (`KnownC11 false` is empty — `known_db_empty`);
    * `inv_step_tx_partial`: every `Tx`-level method preserves `Inv`, partial effects of a FAILING
      method included (the "caller-managed transaction that ignores the error" clause), outside
      `KnownC11 true` = a list push whose computed position collides with a stored one: `sqlPush`
      has already added one to `len` when the row insert fails with the UNIQUE error.  The
      classifier is exact (`inv_step_tx_exact`) and inhabited (`push_collision_breaks_inv`);
    * `fk_preserved`, `fk_preserved_tx`: no method changes `pragma foreign_keys`;
    * `reachable_inv_partial` / `reachable_inv`: every history of `DB`-level calls from the empty
      database ends in a consistent state;
    * connection replacement: only the five methods that rely on `ON DELETE CASCADE` look at the
      flag — all others preserve `Inv` whatever its value (`inv_step_tx_any_fk`); with the flag on,
      the deleting methods never orphan a row (`orphans_need_fk_off`), with it off they do
      (`orphan_witness`, the D14 mechanism).
  The SQL-view clause of C11 is not part of `DB.invB` and is not treated here.
  Only property theorems and non-vacuity examples live here; definitions (`Covered`, `KnownC11`,
  `init`, `run`, `NoKnown`, the witness databases `sample`, `collide`, `sampleOff`) are in
  `Proofs/InvStep.lean`, the lemma library in `Proofs/Inv*.lean`.
-/
import RedkaModel.Proofs.InvStep

namespace Redka.Props.C11

open Redka Redka.Model Redka.InvP

/-- the Prop-level invariant (17 clauses) is exactly the Bool audit -/
theorem inv_characterisation : ∀ db : DB, WF db ↔ db.Inv := wf_iff_invB

theorem covered_all : ∀ op : Op, Covered op = true := fun _ => rfl

/-- at the `DB` level nothing is classified -/
theorem known_db_empty : ∀ (op : Op) (now : Int) (db : DB), KnownC11 false op now db = false :=
  fun _ _ _ => rfl

/-! ### one step -/

theorem inv_step_tx_partial : ∀ (op : Op) (now : Int) (db : DB), db.Inv → db.fk = true →
    Covered op = true → KnownC11 true op now db = false → (Model.tx true op now db).db.Inv := by
  intro op now db h hfk _ hk
  exact (tx_wf true op now db (WF.of_inv h) (fun _ => hfk) (by simpa [KnownC11] using hk)).inv

theorem inv_step_db_partial : ∀ (op : Op) (now : Int) (db : DB), db.Inv → db.fk = true →
    Covered op = true → KnownC11 false op now db = false → (Model.dbRun op now db).db.Inv := by
  intro op now db h hfk _ _
  exact (dbRun_wf op now db (WF.of_inv h) hfk).inv

/-- the `DB`-level methods need no exclusion at all -/
theorem inv_step_db : ∀ (op : Op) (now : Int) (db : DB), db.Inv → db.fk = true →
    (Model.dbRun op now db).db.Inv :=
  fun op now db h hfk => inv_step_db_partial op now db h hfk rfl rfl

/-- the classifier is exact: inside a transaction the step preserves the invariant if and only if
it is not a colliding push -/
theorem inv_step_tx_exact : ∀ (op : Op) (now : Int) (db : DB), db.Inv → db.fk = true →
    ((Model.tx true op now db).db.Inv ↔ KnownC11 true op now db = false) := by
  intro op now db h hfk
  constructor
  · intro hpost
    cases hk : KnownC11 true op now db
    · rfl
    · exact absurd (WF.of_inv hpost)
        (tx_not_wf op now db (WF.of_inv h) (by simpa [KnownC11] using hk))
  · exact inv_step_tx_partial op now db h hfk rfl

/-- connection replacement: a method that does not rely on `ON DELETE CASCADE` preserves the
invariant whatever the value of `foreign_keys` -/
theorem inv_step_tx_any_fk : ∀ (b : Bool) (op : Op) (now : Int) (db : DB), db.Inv →
    usesCascade op = false → (isPush op && isSqlUnique (Model.tx b op now db).out) = false →
    (Model.tx b op now db).db.Inv := by
  intro b op now db h hc hk
  exact (tx_wf b op now db (WF.of_inv h) (fun hu => by rw [hc] at hu; cases hu) hk).inv

/-! ### the connection flag -/

theorem fk_preserved : ∀ (op : Op) (now : Int) (db : DB), (Model.dbRun op now db).db.fk = db.fk :=
  dbRun_fk

theorem fk_preserved_tx : ∀ (b : Bool) (op : Op) (now : Int) (db : DB),
    (Model.tx b op now db).db.fk = db.fk := tx_fk

/-! ### all histories -/

theorem inv_init : init.Inv := by decide

theorem reachable_inv_partial : ∀ (ops : List (Op × Int)), (∀ p ∈ ops, Covered p.1 = true) →
    NoKnown ops init → (run ops init).Inv := by
  intro ops _ _
  exact (run_wf ops init (WF.of_inv inv_init) rfl).1.inv

theorem reachable_inv : ∀ (ops : List (Op × Int)), (run ops init).Inv ∧ (run ops init).fk = true :=
  fun ops => ⟨(run_wf ops init (WF.of_inv inv_init) rfl).1.inv, (run_wf ops init (WF.of_inv inv_init) rfl).2⟩

/-- from any consistent state, not only the empty one -/
theorem run_inv : ∀ (ops : List (Op × Int)) (db : DB), db.Inv → db.fk = true → (run ops db).Inv :=
  fun ops db h hfk => (run_wf ops db (WF.of_inv h) hfk).1.inv

/-! ### orphans need `foreign_keys = off` -/

/-- with `foreign_keys = on`, the owner clause alone is preserved by the four deleting methods -/
theorem orphans_need_fk_off : ∀ (db : DB), db.fk = true → db.ownersOk = true →
    (∀ ks now, (keyDelete db ks now).db.ownersOk = true) ∧
    (∀ b, (keyDeleteAll db b).db.ownersOk = true) ∧
    (∀ n now, (keyDeleteExpired db n now).db.ownersOk = true) ∧
    (∀ k nk now, (keyRename db k nk now).db.ownersOk = true) := by
  intro db hfk h
  refine ⟨fun ks now => ownersOk_deleteKeysWhere db hfk _ h, fun b => ?_,
    fun n now => ownersOk_deleteKeysWhere db hfk _ h, fun k nk now => ?_⟩
  · unfold keyDeleteAll
    cases b <;> exact ownersOk_deleteKeysWhere db hfk _ h
  · unfold keyRename
    repeat' split
    all_goals first | exact h | exact ownersOk_renameStmt db hfk k nk now h

/-! ### witnesses and non-vacuity -/

theorem sample_inv : sample.Inv := by decide

/-- the step theorems instantiated on the sample (their hypotheses are satisfiable) -/
example : (Model.dbRun (.listInsertAfter [108] [97] [99]) 7 sample).db.Inv :=
  inv_step_db_partial _ 7 sample sample_inv rfl rfl rfl
example : (Model.tx true (.listPushBack [108] [99]) 7 sample).db.Inv :=
  inv_step_tx_partial _ 7 sample sample_inv rfl rfl (by decide)
example : errOf (Model.tx true (.setMove [116] [108] [120]) 7 sample).out = some .keyType ∧
    (Model.tx true (.setMove [116] [108] [120]) 7 sample).db ≠ sample ∧
    (Model.tx true (.setMove [116] [108] [120]) 7 sample).db.Inv :=
  ⟨by decide, by decide, inv_step_tx_partial _ 7 sample sample_inv rfl rfl (by decide)⟩
/-- and the steps do something -/
example : (Model.dbRun (.listInsertAfter [108] [97] [99]) 7 sample).db.lists.length = 3 := by decide
example : (run [(.setAdd [97] [[1], [2]], 1), (.listPushBack [98] [3], 2), (.keyDelete [[97]], 3)] init).keys.length = 1 := by
  decide

/-- Inside a transaction, a push whose position collides returns the UNIQUE error after `len` has
been bumped: the invariant is broken if the caller commits. At the `DB` level it is rolled back. -/
theorem push_collision_breaks_inv :
    collide.Inv ∧ collide.fk = true ∧
    KnownC11 true (.listPushBack [108] [98]) 0 collide = true ∧
    errOf (Model.tx true (.listPushBack [108] [98]) 0 collide).out = some .sqlUnique ∧
    ¬ (Model.tx true (.listPushBack [108] [98]) 0 collide).db.Inv ∧
    (Model.dbRun (.listPushBack [108] [98]) 0 collide).db = collide := by
  refine ⟨by decide, rfl, by decide, by decide, by decide, by decide⟩

/-- D14 mechanism: with `foreign_keys = off`, `Delete` leaves the child rows of the deleted key
behind, and the invariant (its owner clause) fails -/
theorem orphan_witness :
    sampleOff.Inv ∧
    (keyDelete sampleOff [[108]] 0).db.lists.length = 2 ∧
    (keyDelete sampleOff [[108]] 0).db.ownersOk = false ∧
    ¬ (Model.dbRun (.keyDelete [[108]]) 0 sampleOff).db.Inv ∧
    (Model.dbRun (.keyDelete [[108]]) 0 sample).db.Inv := by
  refine ⟨by decide, by decide, by decide, by decide, by decide⟩

end Redka.Props.C11
