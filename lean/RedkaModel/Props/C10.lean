/-
  C10 — an expired key does not exist, for any operation.

  "From the moment a key's expiration time is reached the key is indistinguishable from one that
  was never created, for every read and every write of every type, whether or not the background
  cleaner has removed it yet: reads see nothing, counters and listings omit it, and a write to
  that name starts a fresh key with no old elements, no old expiry and a working result. Before
  that moment the key is fully present; setting, replacing, keeping and clearing expiry follow the
  documented rules (plain set clears it, keep-ttl and increments preserve it, rename carries it
  over), and the cleaner removes exactly the expired keys together with all their elements and
  nothing else."

  What is proved here (the cleaner clause is `Props/C10clean.lean`). This file is a COMPOSITION: it
  adds no new fact about any single operation; it puts the refinement theorems of the six families
  (C01 … C06) together with the cleaner theorems.

  `cleaned now db` is the table state after the unlimited cleaner ran at `now`: every stored row
  with `etime <= now` is physically gone, with its child rows. "Whether or not the cleaner has
  removed it yet" is then the comparison of ONE operation at clock value `now` on `db` (expired
  rows still stored) and on `cleaned now db` (expired rows removed):

      expired_uncleaned_is_absent_F   (F = str, list, set, hash, zset, key)

  says that the two runs return the same result (for key rows: the same projected result, `C06.obs`)
  and leave tables that stand for the same abstract keyspace. Each is the family's refinement
  theorem applied twice — both runs refine `Spec.step op now (Spec.abs now db)`, because
  `Spec.abs now (cleaned now db) = Spec.abs now db` (`cleaned_abs`) — and therefore carries the
  family's classifier hypotheses. On `cleaned now db` they are discharged, not assumed:

    * `Stale` (D05) and `LenStale` (D06) are empty on `cleaned now db` — it stores no expired row
      (`cleaned_no_stale`, `cleaned_no_expired`);
    * `Overflow` (D17, strings and hashes), `EmptyName`
      (D18), `Judged` (C18 domain), `Decided` read only live rows and their children, which the
      cleaner leaves alone: they have the same value on both (`*_transfers`);
    * `DestIsSource`, `SumOrder`, `BangClass`,
      `ArgsInRange`, `ArgsOk`, `DistinctFields` do not mention the tables;
    * `C02.Spacious` (room for the new list position; the lookup is by name WITHOUT guard, as
      `sqlPush` does) has the same value on both as soon as the written name is not stale — which
      the list theorem assumes anyway — for every list operation, pop-and-push included
      (`spacious_transfers`).

  So NO hypothesis is asked of `cleaned now db` in any of the six theorems.

  On `db` itself the hypotheses `Stale = false` (families str, list, set, hash, zset) and
  `LenStale = false` (`keyLen`) CANNOT be dropped: a write to a name held by an expired row, and
  the key count, do tell the two states apart — `stale_write_distinguishes_cleaning`,
  `stale_write_is_lost`, `len_distinguishes_cleaning` are kernel-checked witnesses
  (known findings D05, D06). So the clause "a write to that name starts a fresh key" is FALSE of
  the code as a universal statement; what holds universally is the read half
  (`expired_invisible_to_reads`: no staleness hypothesis, because no read writes to any name) and
  the write half for every name that is not held by an expired row.  `rename` onto an expired
  name is not a deviation (`C06.rename_onto_stale_refines`), so the key family has no `Stale`.

  The TTL rules are re-exported from C01 / C06 (`plain_set_clears_ttl`, `keepttl_preserves`,
  `incr_preserves_ttl`, `hash_incr_preserves_ttl` / `_in_range` (derived from C04 here),
  `rename_carries_ttl`, `persist_clears_ttl`, `expire_sets_ttl`, `expire_relative_sets_ttl`), and
  the boundary is stated on stored rows: `before_expiry_key_is_present`, `at_expiry_key_is_gone`,
  `visible_iff_before_expiry` (the guard is `etime > now`: gone exactly from `now = etime` on).

  `db.fk = true` is assumed throughout: with `foreign_keys` off the cleaner leaves orphan child
  rows and `cleaned now db` does not satisfy the invariant (`C10.preserves_inv_needs_fk`, D14).

  Scope: scans (`keyScan`, `setScan`, `hashScan`, `zScan`; C16) and the float increments
  (`strIncrFloat`, `hashIncrFloat`; outside the numeric domain of model and specification) are
  in no family theorem and so in none of the theorems here.
-/
import RedkaModel.Proofs.Expiry
import RedkaModel.Props.C10clean
import RedkaModel.Props.C01
import RedkaModel.Props.C02ref
import RedkaModel.Props.C03ref
import RedkaModel.Props.C04ref
import RedkaModel.Props.C05ref
import RedkaModel.Props.C06ref
import RedkaModel.Props.C12

/-! ## helpers -/

namespace Redka.ExpiryProofs

open Redka Redka.Model Redka.Spec Redka.Clean Redka.Props

/-- how results are compared outside the key family: as they are -/
def idObs : Op → Out → Out := fun _ o => o

/-- both runs — on the tables with the expired rows and on the tables without them — answer what
the specification answers on the one abstract keyspace they both stand for -/
def BothRefine (obs : Op → Out → Out) (op : Op) (now : Int) (db : DB) : Prop :=
  (obs op (Model.dbRun op now db).out = (Spec.step op now (Spec.abs now db)).out ∧
    Spec.abs now (Model.dbRun op now db).db
      = Spec.purge now (Spec.step op now (Spec.abs now db)).st) ∧
  (obs op (Model.dbRun op now (cleaned now db)).out = (Spec.step op now (Spec.abs now db)).out ∧
    Spec.abs now (Model.dbRun op now (cleaned now db)).db
      = Spec.purge now (Spec.step op now (Spec.abs now db)).st)

theorem BothRefine.agree {obs : Op → Out → Out} {op : Op} {now : Int} {db : DB}
    (h : BothRefine obs op now db) :
    obs op (Model.dbRun op now db).out = obs op (Model.dbRun op now (cleaned now db)).out ∧
    Spec.abs now (Model.dbRun op now db).db = Spec.abs now (Model.dbRun op now (cleaned now db)).db :=
  ⟨h.1.1.trans h.2.1.symm, h.1.2.trans h.2.2.symm⟩

/-- no read writes to any name -/
theorem writeKeys_read {op : Op} (h : Spec.isRead op = true) : Spec.writeKeys op = [] := by
  cases op <;> first | rfl | (cases h; done)

/-- the catalogue's D05 on `cleaned`, for any operation -/
theorem stale_cleaned (op : Op) (now : Int) (db : DB) :
    (Spec.writeKeys op).any (Spec.staleKey (cleaned now db) now) = false :=
  stale_any_cleaned now db _

/-! ### the table-reading classifiers have the same value on `db` and `cleaned now db` -/

theorem str_overflow_transfers {db : DB} (hu : KeyIdsUnique db) (op : Op) (now : Int) :
    C01.Overflow op now (cleaned now db) = C01.Overflow op now db := by
  cases op <;> first | rfl | skip
  case strIncr k d => simp only [C01.Overflow, strGetRaw_cleaned hu]

theorem hash_overflow_transfers {db : DB} (hu : KeyIdsUnique db) (op : Op) (now : Int) :
    C04.Overflow op now (cleaned now db) = C04.Overflow op now db := by
  cases op <;> first | rfl | skip
  case hashIncr k f d => simp only [C04.Overflow, hashGetRaw_cleaned hu]

theorem decided_transfers {db : DB} (hu : KeyIdsUnique db) (op : Op) (now : Int) :
    C05.Decided op now (cleaned now db) = C05.Decided op now db := by
  unfold C05.Decided
  rw [abs_cleaned hu]

theorem emptyName_transfers {db : DB} (hu : KeyIdsUnique db) (op : Op) (now : Int) :
    C06.EmptyName op now (cleaned now db) = C06.EmptyName op now db := by
  cases op <;> first | rfl | skip
  case keyRename k nk => simp only [C06.EmptyName, liveKey_cleaned hu]
  case keyRenameNX k nk => simp only [C06.EmptyName, liveKey_cleaned hu]

theorem judged_transfers {db : DB} (hu : KeyIdsUnique db) (op : Op) (now : Int) :
    C06.Judged op now (cleaned now db) = C06.Judged op now db := by
  cases op <;> first | rfl | skip
  case keyKeys p => simp only [C06.Judged, abs_cleaned hu]

theorem lenStale_cleaned (op : Op) (now : Int) (db : DB) :
    C06.LenStale op now (cleaned now db) = false := by
  cases op <;> first | rfl | skip
  case keyLen => exact no_expired_cleaned now db

/-! ### one family at a time: both runs refine the same specification step -/

theorem str_both {op : Op} {now : Int} {db : DB} (hop : C01.IsStrOp op) (hinv : db.Inv)
    (hfk : db.fk = true) (harg : C01.ArgsInRange op = true) (hst : C01.Stale op now db = false)
    (hov : C01.Overflow op now db = false) : BothRefine idObs op now db := by
  have hu := keyIdsUnique_of_inv hinv
  have h1 := C01.str_refines_partial op now db hop hinv harg hst hov
  have h2 := C01.str_refines_partial op now (cleaned now db) hop (inv_cleaned hinv hfk now) harg
    (stale_cleaned op now db) (by rw [str_overflow_transfers hu]; exact hov)
  rw [abs_cleaned hu] at h2
  exact ⟨h1, h2⟩

/-- `Spacious` (room for the new list position) has the same value on both table states, for every
list operation whose written name is not held by an expired row -/
theorem spacious_transfers' {db : DB} (hinv : db.Inv) (hfk : db.fk = true) (op : Op) (now : Int)
    (hst : C02.Stale op now db = false) :
    C02.Spacious op now (cleaned now db) = C02.Spacious op now db := by
  have hu := keyIdsUnique_of_inv hinv
  cases op <;> first | rfl | skip
  case listPushBack k e =>
    exact pushSpacious_cleaned hinv hfk (by simpa [C02.Stale, writeKeys] using hst) false
  case listPushFront k e =>
    exact pushSpacious_cleaned hinv hfk (by simpa [C02.Stale, writeKeys] using hst) true
  case listPopBackPushFront s d =>
    exact popPushSpacious_cleaned hinv hfk s (by simpa [C02.Stale, writeKeys] using hst)
  case listInsertAfter k p e => exact insertRoom_cleaned hu now k p true
  case listInsertBefore k p e => exact insertRoom_cleaned hu now k p false

theorem list_both {op : Op} {now : Int} {db : DB} (hop : C02.IsListOp op) (hinv : db.Inv)
    (hfk : db.fk = true) (hst : C02.Stale op now db = false) (hsp : C02.Spacious op now db = true) :
    BothRefine idObs op now db := by
  have hu := keyIdsUnique_of_inv hinv
  have h1 := C02.list_refines_partial op now db hop hinv hst hsp
  have h2 := C02.list_refines_partial op now (cleaned now db) hop (inv_cleaned hinv hfk now)
    (stale_cleaned op now db)
    (by rw [spacious_transfers' hinv hfk op now hst]; exact hsp)
  rw [abs_cleaned hu] at h2
  exact ⟨h1, h2⟩

theorem set_both {op : Op} {now : Int} {db : DB} (hop : C03.IsSetOp op) (hinv : db.Inv)
    (hfk : db.fk = true) (hst : C03.Stale op now db = false)
    (hds : C03.DestIsSource op = false) : BothRefine idObs op now db := by
  have hu := keyIdsUnique_of_inv hinv
  have h1 := C03.set_refines_partial op now db hop hinv hst hds
  have h2 := C03.set_refines_partial op now (cleaned now db) hop (inv_cleaned hinv hfk now)
    (stale_cleaned op now db) hds
  rw [abs_cleaned hu] at h2
  exact ⟨h1, h2⟩

theorem hash_both {op : Op} {now : Int} {db : DB} (hop : C04.IsFamOp op) (hinv : db.Inv)
    (hfk : db.fk = true) (harg : C04.ArgsInRange op = true) (hdist : C04.DistinctFields op = true)
    (hst : C04.Stale op now db = false) (hov : C04.Overflow op now db = false) :
    BothRefine idObs op now db := by
  have hu := keyIdsUnique_of_inv hinv
  have h1 := C04.hash_refines_partial op now db hop hinv harg hdist hst hov
  have h2 := C04.hash_refines_partial op now (cleaned now db) hop (inv_cleaned hinv hfk now) harg
    hdist (stale_cleaned op now db) (by rw [hash_overflow_transfers hu]; exact hov)
  rw [abs_cleaned hu] at h2
  exact ⟨h1, h2⟩

theorem zset_both {op : Op} {now : Int} {db : DB} (hop : C05.IsZOp op) (hinv : db.Inv)
    (hfk : db.fk = true) (harg : C05.ArgsOk op = true) (hdec : C05.Decided op now db = true)
    (hst : C05.Stale op now db = false) (hds : C05.DestIsSource op = false)
    (hso : C05.SumOrder op = false) : BothRefine idObs op now db := by
  have hu := keyIdsUnique_of_inv hinv
  have h1 := C05.zset_refines_partial op now db hop hinv hop harg hdec hst hds hso
  have h2 := C05.zset_refines_partial op now (cleaned now db) hop (inv_cleaned hinv hfk now) hop
    harg (by rw [decided_transfers hu]; exact hdec) (stale_cleaned op now db) hds hso
  rw [abs_cleaned hu] at h2
  exact ⟨h1, h2⟩

theorem key_both {op : Op} {now : Int} {db : DB} (hop : C06.IsFamOp op) (hinv : db.Inv)
    (hfk : db.fk = true) (hlen : C06.LenStale op now db = false)
    (hemp : C06.EmptyName op now db = false) (hbang : C06.BangClass op = false)
    (hj : C06.Judged op now db = true) : BothRefine C06.obs op now db := by
  have hu := keyIdsUnique_of_inv hinv
  have h1 := C06.key_refines_partial op now db hop hinv hlen hemp hbang hj
  have h2 := C06.key_refines_partial op now (cleaned now db) hop (inv_cleaned hinv hfk now)
    (lenStale_cleaned op now db) (by rw [emptyName_transfers hu]; exact hemp) hbang
    (by rw [judged_transfers hu]; exact hj)
  rw [abs_cleaned hu] at h2
  exact ⟨h1, h2⟩


/-! ### reads: the classifiers that are left are not about staleness -/

/-- The reads covered by a family refinement theorem: every pure read (`Spec.isRead`) except
`keyLen` (D06: it counts stored rows — `len_distinguishes_cleaning`) and the four scans (C16). -/
def readCovered : Op → Bool
  | .strGet _ | .strGetMany _ => true
  | .listGet .. | .listLen _ | .listRange .. => true
  | .setDiff _ | .setExists .. | .setInter _ | .setItems _ | .setLen _ | .setRandom ..
  | .setUnion _ => true
  | .hashExists .. | .hashFields _ | .hashGet .. | .hashGetMany .. | .hashItems _ | .hashLen _
  | .hashValues _ => true
  | .zCount .. | .zGetRank .. | .zGetRankRev .. | .zGetScore .. | .zInter .. | .zLen _
  | .zRangeRank .. | .zRangeScore .. | .zUnion .. => true
  | .keyCount _ | .keyExists _ | .keyGet _ | .keyKeys _ | .keyRandom _ => true
  | _ => false

/-- The deviation classes and domain conditions of the family theorems that can apply to a read.
None of them mentions expired rows: `ArgsOk` /
`SumOrder` / `Decided` (sorted-set combinations), D16 and the C18 domain (`keyKeys`). (D07 — a
repeated key of an intersection — is repaired for sets and sorted sets and no longer appears.) True outright for every other covered read. -/
def ReadSide (op : Op) (now : Int) (db : DB) : Bool :=
  C05.ArgsOk op && (!C05.isZOp op || C05.Decided op now db) &&
  !C05.SumOrder op && !C06.BangClass op && C06.Judged op now db

theorem readSide_iff (op : Op) (now : Int) (db : DB) : ReadSide op now db = true ↔
    (C05.ArgsOk op = true ∧ (C05.isZOp op = true → C05.Decided op now db = true) ∧
     C05.SumOrder op = false ∧ C06.BangClass op = false ∧
     C06.Judged op now db = true) := by
  unfold ReadSide
  simp only [Bool.and_eq_true, Bool.not_eq_true', Bool.or_eq_true]
  constructor
  · rintro ⟨⟨⟨⟨h4, h5⟩, h7⟩, h8⟩, h9⟩
    refine ⟨h4, ?_, h7, h8, h9⟩
    intro hz
    rcases h5 with h5 | h5
    · rw [hz] at h5; cases h5
    · exact h5
  · rintro ⟨h4, h5, h7, h8, h9⟩
    refine ⟨⟨⟨⟨h4, ?_⟩, h7⟩, h8⟩, h9⟩
    cases hz : C05.isZOp op with
    | false => exact Or.inl rfl
    | true => exact Or.inr (h5 hz)

theorem reads_str {op : Op} {now : Int} {db : DB} (hop : C01.IsStrOp op)
    (hr : Spec.isRead op = true) (hinv : db.Inv) (hfk : db.fk = true) :
    BothRefine idObs op now db := by
  refine str_both hop hinv hfk ?_ ?_ ?_
  · cases op <;> first | rfl | (cases hr; done)
  · unfold C01.Stale; rw [writeKeys_read hr]; rfl
  · cases op <;> first | rfl | (cases hr; done)

theorem reads_list {op : Op} {now : Int} {db : DB} (hop : C02.IsListOp op)
    (hr : Spec.isRead op = true) (hinv : db.Inv) (hfk : db.fk = true)
    (hside : ReadSide op now db = true) : BothRefine idObs op now db := by
  refine list_both hop hinv hfk ?_ ?_
  · unfold C02.Stale; rw [writeKeys_read hr]; rfl
  · cases op <;> first | rfl | (cases hr; done)

theorem reads_set {op : Op} {now : Int} {db : DB} (hop : C03.IsSetOp op)
    (hr : Spec.isRead op = true) (hinv : db.Inv) (hfk : db.fk = true) :
    BothRefine idObs op now db := by
  refine set_both hop hinv hfk ?_ ?_
  · unfold C03.Stale; rw [writeKeys_read hr]; rfl
  · cases op <;> first | rfl | (cases hr; done)

theorem reads_hash {op : Op} {now : Int} {db : DB} (hop : C04.IsFamOp op)
    (hr : Spec.isRead op = true) (hinv : db.Inv) (hfk : db.fk = true) :
    BothRefine idObs op now db := by
  refine hash_both hop hinv hfk ?_ ?_ ?_ ?_
  · cases op <;> first | rfl | (cases hr; done)
  · cases op <;> first | rfl | (cases hr; done)
  · unfold C04.Stale; rw [writeKeys_read hr]; rfl
  · cases op <;> first | rfl | (cases hr; done)

theorem reads_zset {op : Op} {now : Int} {db : DB} (hop : C05.IsZOp op)
    (hr : Spec.isRead op = true) (hinv : db.Inv) (hfk : db.fk = true)
    (hside : ReadSide op now db = true) : BothRefine idObs op now db := by
  obtain ⟨h4, h5, h7, _⟩ := (readSide_iff op now db).1 hside
  refine zset_both hop hinv hfk h4 (h5 hop) ?_ ?_ h7
  · unfold C05.Stale; rw [writeKeys_read hr]; rfl
  · cases op <;> first | rfl | (cases hr; done)

theorem reads_key {op : Op} {now : Int} {db : DB} (hop : C06.IsFamOp op)
    (hr : Spec.isRead op = true) (hcov : readCovered op = true) (hinv : db.Inv)
    (hfk : db.fk = true) (hside : ReadSide op now db = true) : BothRefine C06.obs op now db := by
  obtain ⟨_, _, _, h8, h9⟩ := (readSide_iff op now db).1 hside
  refine key_both hop hinv hfk ?_ ?_ h8 h9
  · cases op <;> first | rfl | (cases hcov; done)
  · cases op <;> first | rfl | (cases hr; done)

/-- every covered read is in one of the six families -/
theorem reads_both {op : Op} {now : Int} {db : DB} (hr : Spec.isRead op = true)
    (hcov : readCovered op = true) (hinv : db.Inv) (hfk : db.fk = true)
    (hside : ReadSide op now db = true) : BothRefine C06.obs op now db := by
  cases op <;> first
    | (cases hcov; done)
    | exact reads_str (db := db) rfl hr hinv hfk
    | exact reads_hash (db := db) rfl hr hinv hfk
    | exact reads_list (db := db) rfl hr hinv hfk hside
    | exact reads_set (db := db) rfl hr hinv hfk
    | exact reads_zset (db := db) rfl hr hinv hfk hside
    | exact reads_key (db := db) rfl hr hcov hinv hfk hside

end Redka.ExpiryProofs

/-! ## the property -/

namespace Redka.Props.C10x

open Redka Redka.Model Redka.Spec Redka.Clean Redka.ExpiryProofs Redka.Props

/-! ### 1. the database after the cleaner ran -/

/-- the cleaner leaves exactly the rows that are live at `now`, in their order -/
theorem cleaned_keys_exact : ∀ (now : Int) (db : DB), db.Inv →
    (cleaned now db).keys = db.keys.filter (fun r => r.live now) :=
  fun now _ hinv => cleaned_keys (keyIdsUnique_of_inv hinv) now

/-- reclamation is invisible to the abstraction -/
theorem cleaned_abs : ∀ (now : Int) (db : DB), db.Inv →
    Spec.abs now (cleaned now db) = Spec.abs now db :=
  fun now db hinv => C10.cleaner_abs_unchanged db now hinv 0

/-- … now and at every later clock value -/
theorem cleaned_abs_from : ∀ (now now' : Int) (db : DB), db.Inv → now ≤ now' →
    Spec.abs now' (cleaned now db) = Spec.abs now' db :=
  fun now now' db hinv hle =>
    C10.cleaner_abs_unchanged_from db 0 now now' (keyIdsUnique_of_inv hinv) hle

theorem cleaned_inv : ∀ (now : Int) (db : DB), db.Inv → db.fk = true → (cleaned now db).Inv :=
  fun now db hinv hfk => C10.cleaner_preserves_inv db 0 now hinv hfk

theorem cleaned_fk_eq : ∀ (now : Int) (db : DB), (cleaned now db).fk = db.fk := cleaned_fk

/-- after the cleaner no name is held by a stored-but-expired row: class D05 is empty.
No hypothesis. -/
theorem cleaned_no_stale : ∀ (now : Int) (db : DB) (k : Bytes),
    Spec.staleKey (cleaned now db) now k = false := staleKey_cleaned

/-- … and no stored row is expired: class D06 is empty. No hypothesis. -/
theorem cleaned_no_expired : ∀ (now : Int) (db : DB),
    (cleaned now db).keys.any (fun r => !r.live now) = false := no_expired_cleaned

/-- the cleaner is idempotent on the abstraction and the rows: cleaning a cleaned database at the
same instant removes nothing more -/
theorem cleaned_cleaned_keys : ∀ (now : Int) (db : DB), db.Inv →
    (cleaned now (cleaned now db)).keys = (cleaned now db).keys := by
  intro now db hinv
  have hu := keyIdsUnique_of_inv hinv
  rw [cleaned_keys (keyIdsUnique_cleaned hu now), liveRows_cleaned hu, cleaned_keys hu]

/-! ### which classifier hypotheses transfer from `db` to `cleaned now db` -/

/-- Every classifier of every family that reads the tables, other than `Stale`, `LenStale`
(empty on `cleaned`, see above) and `Spacious` (next theorem), has the same value on `db` and on
`cleaned now db`. -/
theorem classifiers_transfer : ∀ (op : Op) (now : Int) (db : DB), db.Inv →
    C01.Overflow op now (cleaned now db) = C01.Overflow op now db ∧
    C04.Overflow op now (cleaned now db) = C04.Overflow op now db ∧
    C05.Decided op now (cleaned now db) = C05.Decided op now db ∧
    C06.EmptyName op now (cleaned now db) = C06.EmptyName op now db ∧
    C06.Judged op now (cleaned now db) = C06.Judged op now db := by
  intro op now db hinv
  have hu := keyIdsUnique_of_inv hinv
  exact ⟨str_overflow_transfers hu op now, hash_overflow_transfers hu op now,
    decided_transfers hu op now,
    emptyName_transfers hu op now, judged_transfers hu op now⟩

/-- `C02.Spacious` (room for the position a push or insert computes) transfers as well, for every
list operation — pop-and-push included, where it is judged on the tables the pop leaves — provided
the written name is not held by an expired row (`Stale = false`, which the list theorem assumes
anyway; `pushSpacious` looks the name up without the expiry guard, as `sqlPush` does). -/
theorem spacious_transfers : ∀ (op : Op) (now : Int) (db : DB), db.Inv → db.fk = true →
    C02.Stale op now db = false →
    C02.Spacious op now (cleaned now db) = C02.Spacious op now db :=
  fun op now _ hinv hfk hst => spacious_transfers' hinv hfk op now hst

/-- the staleness classifiers are false on `cleaned now db`, whatever they are on `db` -/
theorem staleness_classifiers_empty : ∀ (op : Op) (now : Int) (db : DB),
    C01.Stale op now (cleaned now db) = false ∧ C02.Stale op now (cleaned now db) = false ∧
    C03.Stale op now (cleaned now db) = false ∧ C04.Stale op now (cleaned now db) = false ∧
    C05.Stale op now (cleaned now db) = false ∧ C06.LenStale op now (cleaned now db) = false :=
  fun op now db => ⟨stale_cleaned op now db, stale_cleaned op now db, stale_cleaned op now db,
    stale_cleaned op now db, stale_cleaned op now db, lenStale_cleaned op now db⟩

/-! ### 2. THE THEOREM, one family at a time -/

/-- **C10, strings.** Any string operation, outside D05 / D17 judged on `db` alone. -/
theorem expired_uncleaned_is_absent_str : ∀ (op : Op) (now : Int) (db : DB),
    C01.IsStrOp op → db.Inv → db.fk = true → C01.ArgsInRange op = true →
    C01.Stale op now db = false → C01.Overflow op now db = false →
    let r := Model.dbRun op now db
    let r' := Model.dbRun op now (cleaned now db)
    r.out = r'.out ∧ Spec.abs now r.db = Spec.abs now r'.db :=
  fun _ _ _ hop hinv hfk harg hst hov => (str_both hop hinv hfk harg hst hov).agree

/-- **C10, lists.** Any list operation, outside D05 and with `Spacious` position
arithmetic, all judged on `db` alone. -/
theorem expired_uncleaned_is_absent_list : ∀ (op : Op) (now : Int) (db : DB),
    C02.IsListOp op → db.Inv → db.fk = true → C02.Stale op now db = false →
    C02.Spacious op now db = true →
    let r := Model.dbRun op now db
    let r' := Model.dbRun op now (cleaned now db)
    r.out = r'.out ∧ Spec.abs now r.db = Spec.abs now r'.db :=
  fun _ _ _ hop hinv hfk hst hsp => (list_both hop hinv hfk hst hsp).agree

/-- **C10, sets.** Any set operation, outside D05 judged on `db` alone (D08 is about the
arguments; D07 is repaired). -/
theorem expired_uncleaned_is_absent_set : ∀ (op : Op) (now : Int) (db : DB),
    C03.IsSetOp op → db.Inv → db.fk = true → C03.Stale op now db = false →
    C03.DestIsSource op = false →
    let r := Model.dbRun op now db
    let r' := Model.dbRun op now (cleaned now db)
    r.out = r'.out ∧ Spec.abs now r.db = Spec.abs now r'.db :=
  fun _ _ _ hop hinv hfk hst hds => (set_both hop hinv hfk hst hds).agree

/-- **C10, hashes.** Any covered hash operation, outside D05 / D17 judged on `db` alone. -/
theorem expired_uncleaned_is_absent_hash : ∀ (op : Op) (now : Int) (db : DB),
    C04.IsFamOp op → db.Inv → db.fk = true → C04.ArgsInRange op = true →
    C04.DistinctFields op = true → C04.Stale op now db = false → C04.Overflow op now db = false →
    let r := Model.dbRun op now db
    let r' := Model.dbRun op now (cleaned now db)
    r.out = r'.out ∧ Spec.abs now r.db = Spec.abs now r'.db :=
  fun _ _ _ hop hinv hfk harg hdist hst hov => (hash_both hop hinv hfk harg hdist hst hov).agree

/-- **C10, sorted sets.** Any sorted-set operation, outside D05 judged on `db` alone, in the
decided domain (judged on `db` alone); the other classes are about the arguments. -/
theorem expired_uncleaned_is_absent_zset : ∀ (op : Op) (now : Int) (db : DB),
    C05.IsZOp op → db.Inv → db.fk = true → C05.ArgsOk op = true → C05.Decided op now db = true →
    C05.Stale op now db = false → C05.DestIsSource op = false → C05.SumOrder op = false →
    let r := Model.dbRun op now db
    let r' := Model.dbRun op now (cleaned now db)
    r.out = r'.out ∧ Spec.abs now r.db = Spec.abs now r'.db :=
  fun _ _ _ hop hinv hfk harg hdec hst hds hso =>
    (zset_both hop hinv hfk harg hdec hst hds hso).agree

/-- **C10, key operations.** Any of the thirteen key operations, outside D06 / D18 judged on `db`
alone and D16, in the C18 domain judged on `db` alone. No `Stale`: a rename onto an expired name
is not a deviation. Results that carry key rows are compared as `Spec.check` compares them
(`C06.obs`: id, version, mtime projected away, a listing sorted by name). -/
theorem expired_uncleaned_is_absent_key : ∀ (op : Op) (now : Int) (db : DB),
    C06.IsFamOp op → db.Inv → db.fk = true → C06.LenStale op now db = false →
    C06.EmptyName op now db = false → C06.BangClass op = false → C06.Judged op now db = true →
    let r := Model.dbRun op now db
    let r' := Model.dbRun op now (cleaned now db)
    C06.obs op r.out = C06.obs op r'.out ∧ Spec.abs now r.db = Spec.abs now r'.db :=
  fun _ _ _ hop hinv hfk hlen hemp hbang hj => (key_both hop hinv hfk hlen hemp hbang hj).agree

/-! ### 3. reads: no hypothesis about staleness -/

/-- `readCovered` is `Spec.isRead` minus `keyLen` and the four scans -/
theorem readCovered_spec : ∀ op : Op, readCovered op =
    (Spec.isRead op && !(match op with
      | .keyLen | .keyScan .. | .setScan .. | .hashScan .. | .zScan .. => true
      | _ => false)) := by
  intro op; cases op <;> rfl

/-- **C10, reads.** "Reads see nothing, counters and listings omit it": every covered read — 35
constructors, of all six families — answers the same on the tables with the expired rows and on
the tables from which they were removed, namely what the specification answers on the keyspace
of the live keys; and it leaves both table states exactly as they were. No hypothesis mentions
expired rows: `ReadSide` collects the class D16 and the domain conditions of
`listRange`, `zInter`, `zUnion`, `keyKeys`, all judged on `db` alone. -/
theorem expired_invisible_to_reads : ∀ (op : Op) (now : Int) (db : DB),
    Spec.isRead op = true → readCovered op = true → db.Inv → db.fk = true →
    ReadSide op now db = true →
    let r := Model.dbRun op now db
    let r' := Model.dbRun op now (cleaned now db)
    C06.obs op r.out = C06.obs op r'.out ∧
    C06.obs op r.out = (Spec.step op now (Spec.abs now db)).out ∧
    r.db = db ∧ r'.db = cleaned now db := by
  intro op now db hr hcov hinv hfk hside
  have h := reads_both hr hcov hinv hfk hside
  exact ⟨h.agree.1, h.1.1, C12.read_notrace_db op now db hr,
    C12.read_notrace_db op now (cleaned now db) hr⟩

/-- outside the key family the comparison is plain equality -/
theorem obs_is_id_outside_keys : ∀ (op : Op) (o : Out),
    (match op with | .keyGet _ | .keyRandom _ | .keyKeys _ => False | _ => True) →
    C06.obs op o = o := C06.obs_is_id

/-- the covered reads that carry no side condition at all -/
theorem readSide_trivial : ∀ (op : Op) (now : Int) (db : DB),
    (match op with
      | .strGet _ | .strGetMany _ | .listGet .. | .listLen _
      | .setDiff _ | .setExists .. | .setInter _ | .setItems _ | .setLen _ | .setRandom .. | .setUnion _
      | .hashExists .. | .hashFields _ | .hashGet .. | .hashGetMany .. | .hashItems _ | .hashLen _
      | .hashValues _ | .keyCount _ | .keyExists _ | .keyGet _ | .keyRandom _ => True
      | _ => False) → ReadSide op now db = true := by
  intro op now db h
  cases op <;> first | rfl | (cases h; done)

/-- The reads of the key repository whose result is a function of the live key rows (`Count`,
`Exists`, `Get`, `Keys`, `Random`, `Scan`): equal results — raw, key rows with id / version / mtime
included — with NO side condition (D16 and the C18 domain are not needed for this comparison) and
only unique ids. From `Clean.keyRead_out_congr`. -/
theorem expired_invisible_to_key_reads : ∀ (op : Op) (now : Int) (db : DB),
    isKeyRead op = true → db.Inv →
    (Model.dbRun op now db).out = (Model.dbRun op now (cleaned now db)).out :=
  fun _ now _ hop hinv =>
    (keyRead_out_congr hop now (liveRows_cleaned (keyIdsUnique_of_inv hinv) now)).symm

/-! ### 4. the rules for setting, keeping and clearing the expiry -/

/-- "plain set clears it" — `C01.plain_set_clears_ttl` -/
theorem plain_set_clears_ttl : ∀ (k v : Bytes) (now : Int) (db : DB), db.Inv → C01.NoOtherType db k →
    Spec.get (Spec.abs now (Model.dbRun (.strSet k v) now db).db) k = some ⟨.str v, none⟩ :=
  C01.plain_set_clears_ttl

/-- "keep-ttl … preserve[s] it" — `C01.keepttl_preserves` -/
theorem keepttl_preserves : ∀ (k v b : Bytes) (et : Option Int) (o : SetOpts) (now : Int) (db : DB),
    db.Inv → o.keepTTL = true → o.ifNotExists = false →
    Spec.get (Spec.abs now db) k = some ⟨.str b, et⟩ →
    Spec.get (Spec.abs now (Model.dbRun (.strSetWith k v o) now db).db) k = some ⟨.str v, et⟩ :=
  C01.keepttl_preserves

/-- "… and increments preserve it" (strings) — `C01.incr_preserves_ttl` -/
theorem incr_preserves_ttl : ∀ (k b : Bytes) (et : Option Int) (n d : Int) (now : Int) (db : DB),
    db.Inv → Spec.get (Spec.abs now db) k = some ⟨.str b, et⟩ → valueInt b = some n →
    inInt64 d = true → inInt64 (n + d) = true →
    (Model.dbRun (.strIncr k d) now db).out = .ok (.int (n + d)) ∧
    Spec.get (Spec.abs now (Model.dbRun (.strIncr k d) now db).db) k
      = some ⟨.str (itoa (n + d)), et⟩ :=
  C01.incr_preserves_ttl

/-- "… and increments preserve it" (hash fields): an increment of a field of a visible hash,
outside D17, returns the sum, stores its canonical text in that field and leaves the expiry of
the key as it was. From `C04.hash_refines_partial`. -/
theorem hash_incr_preserves_ttl : ∀ (k f : Bytes) (h : List (Bytes × Bytes)) (et : Option Int)
    (n d : Int) (now : Int) (db : DB),
    db.Inv → Spec.get (Spec.abs now db) k = some ⟨.hash h, et⟩ →
    valueInt ((aget h f).getD []) = some n → inInt64 d = true →
    C04.Overflow (.hashIncr k f d) now db = false →
    (Model.dbRun (.hashIncr k f d) now db).out = .ok (.int (n + d)) ∧
    Spec.get (Spec.abs now (Model.dbRun (.hashIncr k f d) now db).db) k
      = some ⟨.hash (aput h f (itoa (n + d))), et⟩ := by
  intro k f h et n d now db hinv hg hn hd hov
  have hw := DB.Inv.wf hinv
  obtain ⟨hlive, hns⟩ := get_abs_live hw hg
  have hlive : liveAt now et = true := hlive
  have href := C04.hash_refines_partial (.hashIncr k f d) now db rfl hinv hd rfl
    (by simpa [C04.Stale, writeKeys] using hns) hov
  simp only [Spec.step, Spec.hashIncr, hg, hn, Spec.ok] at href
  refine ⟨href.1, ?_⟩
  rw [href.2, get_purge ((sorted_abs hw.names now).put k _), get_put]
  simp [hlive]

/-- D17 on a visible hash is exactly "the exact sum does not fit": the classifier in terms of the
field map the abstraction shows -/
theorem hash_overflow_of_get : ∀ (k f : Bytes) (h : List (Bytes × Bytes)) (et : Option Int)
    (n d : Int) (now : Int) (db : DB), db.Inv →
    Spec.get (Spec.abs now db) k = some ⟨.hash h, et⟩ →
    valueInt ((aget h f).getD []) = some n → inInt64 (n + d) = true →
    C04.Overflow (.hashIncr k f d) now db = false := by
  intro k f h et n d now db hinv hg hn hnd
  have hw := DB.Inv.hwf hinv
  rcases HashRef.hholder hw.wf now k with ⟨_, hg', _⟩ | ⟨_, _, _, hg', _⟩ | ⟨r, _, _, _, hg', hk⟩ |
    ⟨r, w, _, _, _, hg', hv, _⟩
  · rw [hg'] at hg; cases hg
  · rw [hg'] at hg; cases hg
  · rw [hg'] at hg
    have hm : HashRef.hview db.hashes r.id = h := by injection hg with hg; injection hg with h1 _; injection h1
    simp only [C04.Overflow, HashRef.hashGetRaw_some hk, ← HashRef.aget_hview hw.pairs, hm]
    cases hf : aget h f with
    | none => rfl
    | some b =>
      rw [hf] at hn
      simp only [Option.getD_some] at hn
      simp [hn, hnd]
  · rw [hg'] at hg
    have : w = .hash h := by injection hg with hg; injection hg
    exact absurd this (hv h)

/-- the same with the range condition on the sum instead of the classifier -/
theorem hash_incr_preserves_ttl_in_range : ∀ (k f : Bytes) (h : List (Bytes × Bytes))
    (et : Option Int) (n d : Int) (now : Int) (db : DB),
    db.Inv → Spec.get (Spec.abs now db) k = some ⟨.hash h, et⟩ →
    valueInt ((aget h f).getD []) = some n → inInt64 d = true → inInt64 (n + d) = true →
    (Model.dbRun (.hashIncr k f d) now db).out = .ok (.int (n + d)) ∧
    Spec.get (Spec.abs now (Model.dbRun (.hashIncr k f d) now db).db) k
      = some ⟨.hash (aput h f (itoa (n + d))), et⟩ :=
  fun k f h et n d now db hinv hg hn hd hnd =>
    hash_incr_preserves_ttl k f h et n d now db hinv hg hn hd
      (hash_overflow_of_get k f h et n d now db hinv hg hn hnd)

/-- "rename carries it over": the value AND the expiry that were visible under `k` are afterwards
visible under `nk`, and nothing is visible under `k`. From `C06.rename_moves`. The destination may
be free, a visible key of the same type, or an expired leftover of any type. -/
theorem rename_carries_ttl : ∀ (k nk : Bytes) (v : SVal) (et : Option Int) (now : Int) (db : DB),
    db.Inv → k ≠ [] → k ≠ nk → Spec.get (Spec.abs now db) k = some ⟨v, et⟩ →
    (∀ e', Spec.get (Spec.abs now db) nk = some e' → e'.val.ty = v.ty) →
    let r := Model.dbRun (.keyRename k nk) now db
    r.out = .ok .nil ∧ Spec.get (Spec.abs now r.db) nk = some ⟨v, et⟩ ∧
    Spec.get (Spec.abs now r.db) k = none := by
  intro k nk v et now db hinv hk hne hg hty
  obtain ⟨ho, hall⟩ := C06.rename_moves k nk ⟨v, et⟩ now db hinv hk hne hg hty
  refine ⟨ho, ?_, ?_⟩
  · rw [hall nk]; simp
  · rw [hall k]
    have : (nk == k) = false := by simpa using fun h : nk = k => hne h.symm
    simp [this]

/-- `Persist` clears the expiry and nothing else — `C06.persist_clears_expiry` -/
theorem persist_clears_ttl : ∀ (k : Bytes) (e : Entry) (now : Int) (db : DB), db.Inv →
    Spec.get (Spec.abs now db) k = some e →
    let r := Model.dbRun (.keyPersist k) now db
    r.out = .ok .nil ∧ Spec.get (Spec.abs now r.db) k = some { e with etime := none } :=
  C06.persist_clears_expiry

/-- `ExpireAt` sets the expiry and nothing else; an instant that is not in the future makes the
key disappear at once — `C06.expireAt_sets_expiry` -/
theorem expire_sets_ttl : ∀ (k : Bytes) (t : Int) (e : Entry) (now : Int) (db : DB), db.Inv →
    Spec.get (Spec.abs now db) k = some e →
    let r := Model.dbRun (.keyExpireAt k t) now db
    r.out = .ok .nil ∧
    Spec.get (Spec.abs now r.db) k = if t > now then some { e with etime := some t } else none :=
  C06.expireAt_sets_expiry

/-- `Expire` with a time to live is `ExpireAt (now + ttl)`: a non-positive `ttl` makes the key
disappear at once -/
theorem expire_relative_sets_ttl : ∀ (k : Bytes) (ttl : Int) (e : Entry) (now : Int) (db : DB),
    db.Inv → Spec.get (Spec.abs now db) k = some e →
    let r := Model.dbRun (.keyExpire k ttl) now db
    r.out = .ok .nil ∧
    Spec.get (Spec.abs now r.db) k
      = if ttl > 0 then some { e with etime := some (now + ttl) } else none := by
  intro k ttl e now db hinv hg
  have h := C06.expireAt_sets_expiry k (now + ttl) e now db hinv hg
  have hc : (now + ttl > now) ↔ (ttl > 0) := by omega
  simp only [hc] at h
  exact h

/-! ### the boundary -/

/-- "Before that moment the key is fully present": a stored row whose expiry lies in the future
is visible, with a value and with that expiry. -/
theorem before_expiry_key_is_present : ∀ (db : DB) (now : Int) (r : KeyRow) (e : Int), db.Inv →
    r ∈ db.keys → r.etime = some e → now < e →
    ∃ v, Spec.get (Spec.abs now db) r.key = some ⟨v, some e⟩ := by
  intro db now r e hinv hr he hlt
  have hw := DB.Inv.wf hinv
  obtain ⟨v, hv⟩ := absVal_isSome hw hr
  refine ⟨v, ?_⟩
  rw [get_abs_of_mem hw now hr]
  have hl : r.live now = true := by
    unfold KeyRow.live liveAt; rw [he]; exact decide_eq_true hlt
  simp only [Spec.rowEntry, hl, if_true, hv, Option.map_some, he]

/-- a stored row without expiry is visible at every clock value -/
theorem persistent_key_is_present : ∀ (db : DB) (now : Int) (r : KeyRow), db.Inv →
    r ∈ db.keys → r.etime = none →
    ∃ v, Spec.get (Spec.abs now db) r.key = some ⟨v, none⟩ := by
  intro db now r hinv hr he
  have hw := DB.Inv.wf hinv
  obtain ⟨v, hv⟩ := absVal_isSome hw hr
  refine ⟨v, ?_⟩
  rw [get_abs_of_mem hw now hr]
  have hl : r.live now = true := by
    unfold KeyRow.live liveAt; rw [he]
  simp only [Spec.rowEntry, hl, if_true, hv, Option.map_some, he]

/-- "From the moment a key's expiration time is reached": the guard is `etime > now`, so the key
is gone exactly from `now = e` on — whether or not the row is still stored. -/
theorem at_expiry_key_is_gone : ∀ (db : DB) (now : Int) (r : KeyRow) (e : Int), db.Inv →
    r ∈ db.keys → r.etime = some e → e ≤ now →
    Spec.get (Spec.abs now db) r.key = none := by
  intro db now r e hinv hr he hle
  have hw := DB.Inv.wf hinv
  rw [get_abs_of_mem hw now hr]
  have hl : r.live now = false := by
    unfold KeyRow.live liveAt; rw [he]; exact decide_eq_false (by omega)
  simp only [Spec.rowEntry, hl, Bool.false_eq_true, if_false]

/-- … and it is gone in the same way once the cleaner has removed the row -/
theorem at_expiry_key_is_gone_cleaned : ∀ (db : DB) (now : Int) (r : KeyRow) (e : Int), db.Inv →
    r ∈ db.keys → r.etime = some e → e ≤ now →
    Spec.get (Spec.abs now (cleaned now db)) r.key = none ∧ r ∉ (cleaned now db).keys := by
  intro db now r e hinv hr he hle
  refine ⟨by rw [cleaned_abs now db hinv]; exact at_expiry_key_is_gone db now r e hinv hr he hle, ?_⟩
  intro hmem
  have hl := cleaned_all_live now db r hmem
  unfold KeyRow.live liveAt at hl
  rw [he] at hl
  exact absurd (of_decide_eq_true hl) (by omega)

/-- the boundary in one statement: a stored row with expiry `e` is visible iff `now < e` -/
theorem visible_iff_before_expiry : ∀ (db : DB) (now : Int) (r : KeyRow) (e : Int), db.Inv →
    r ∈ db.keys → r.etime = some e →
    ((Spec.get (Spec.abs now db) r.key).isSome = true ↔ now < e) := by
  intro db now r e hinv hr he
  constructor
  · intro h
    by_cases hlt : now < e
    · exact hlt
    · rw [at_expiry_key_is_gone db now r e hinv hr he (by omega)] at h
      cases h
  · intro hlt
    obtain ⟨v, hv⟩ := before_expiry_key_is_present db now r e hinv hr he hlt
    rw [hv]; rfl

/-! ### the D05 / D06 witnesses: on `db` itself `Stale` and `LenStale` cannot be dropped -/

def outInt : Out → Option Int
  | .ok (.int n) => some n
  | _ => none

def outErr : Out → Option Err
  | .error e => some e
  | _ => none

def outBytes : Out → Option Bytes
  | .ok (.bytes b) => some b
  | _ => none

def bA : Bytes := [97]           -- "a": string, expired at 5
def bS : Bytes := [115]          -- "s": set {1, 2}, expired at 7
def bL : Bytes := [108]          -- "l": list [y], expires at 100
def bH : Bytes := [104]          -- "h": hash {f: 7}, no expiry
def bN : Bytes := [110]          -- "n": string "41", no expiry
def bM : Bytes := [109]          -- "m": not stored
def bZ : Bytes := [122]          -- "z"

/-- at `now = 10`: two stored-but-expired keys (`a`, `s`), one key with a future expiry (`l`),
two keys without expiry (`h`, `n`) -/
def mixed : DB :=
  { keys := [ { id := 1, key := bA, ty := 1, version := 1, etime := some 5, mtime := 0, len := none },
              { id := 2, key := bS, ty := 3, version := 2, etime := some 7, mtime := 0, len := some 2 },
              { id := 3, key := bL, ty := 2, version := 1, etime := some 100, mtime := 0, len := some 1 },
              { id := 4, key := bH, ty := 4, version := 1, etime := none, mtime := 0, len := some 1 },
              { id := 5, key := bN, ty := 1, version := 1, etime := none, mtime := 0, len := none } ],
    strs := [ { kid := 1, value := [120] }, { kid := 5, value := [52, 49] } ],
    sets := [ { rowid := 1, kid := 2, elem := [49] }, { rowid := 2, kid := 2, elem := [50] } ],
    lists := [ { kid := 3, pos := 0, elem := [121] } ],
    hashes := [ { rowid := 1, kid := 4, field := [102], value := [55] } ] }

theorem mixed_inv : mixed.Inv := by show _ = true; decide

theorem mixed_fk : mixed.fk = true := rfl

/-- the cleaner at 10 removes `a` and `s` with their three child rows and nothing else -/
theorem mixed_cleaned : cleaned 10 mixed =
    { mixed with
      keys := [ { id := 3, key := bL, ty := 2, version := 1, etime := some 100, mtime := 0, len := some 1 },
                { id := 4, key := bH, ty := 4, version := 1, etime := none, mtime := 0, len := some 1 },
                { id := 5, key := bN, ty := 1, version := 1, etime := none, mtime := 0, len := none } ],
      strs := [ { kid := 5, value := [52, 49] } ], sets := [] } := by decide

/-- the keyspace both stand for -/
theorem mixed_abs : Spec.abs 10 mixed =
    [ (bH, ⟨.hash [([102], [55])], none⟩), (bL, ⟨.list [[121]], some 100⟩),
      (bN, ⟨.str [52, 49], none⟩) ] ∧
    Spec.abs 10 (cleaned 10 mixed) = Spec.abs 10 mixed := by decide

/-- **D05, another type.** A push to the name of an expired, not yet cleaned STRING is refused
with a type error; after the cleaner ran the same push creates a fresh list. So a write does tell
"expired" from "never created" until the cleaner has run: `Stale = false` cannot be dropped. -/
theorem stale_write_distinguishes_cleaning :
    C02.Stale (.listPushBack bA bZ) 10 mixed = true ∧
    outErr (Model.dbRun (.listPushBack bA bZ) 10 mixed).out = some .keyType ∧
    outInt (Model.dbRun (.listPushBack bA bZ) 10 (cleaned 10 mixed)).out = some 1 ∧
    Spec.get (Spec.abs 10 (Model.dbRun (.listPushBack bA bZ) 10 (cleaned 10 mixed)).db) bA
      = some ⟨.list [bZ], none⟩ := by decide

/-- **D05, same type.** Adding to the name of an expired, not yet cleaned SET reports one new
member on both table states, but on the uncleaned tables the write goes to the expired row, which
keeps its old expiry: the key is still invisible afterwards (and its old members are still
stored). On the cleaned tables it is a fresh set `{z}` without expiry. -/
theorem stale_write_is_lost :
    C03.Stale (.setAdd bS [bZ]) 10 mixed = true ∧
    outInt (Model.dbRun (.setAdd bS [bZ]) 10 mixed).out = some 1 ∧
    outInt (Model.dbRun (.setAdd bS [bZ]) 10 (cleaned 10 mixed)).out = some 1 ∧
    Spec.get (Spec.abs 10 (Model.dbRun (.setAdd bS [bZ]) 10 mixed).db) bS = none ∧
    Spec.get (Spec.abs 10 (Model.dbRun (.setAdd bS [bZ]) 10 (cleaned 10 mixed)).db) bS
      = some ⟨.set [bZ], none⟩ ∧
    ((Model.dbRun (.setAdd bS [bZ]) 10 mixed).db.sets.map (·.elem)) = [[49], [50], bZ] := by decide

/-- **D06.** `Len` counts stored rows: 5 before the cleaner ran, 3 after. -/
theorem len_distinguishes_cleaning :
    C06.LenStale .keyLen 10 mixed = true ∧
    outInt (Model.dbRun .keyLen 10 mixed).out = some 5 ∧
    outInt (Model.dbRun .keyLen 10 (cleaned 10 mixed)).out = some 3 := by decide

/-- so the statements without the staleness hypotheses are false -/
theorem full_strength_is_false :
    (¬ ∀ (op : Op) (now : Int) (db : DB), C02.IsListOp op → db.Inv → db.fk = true →
        outErr (Model.dbRun op now db).out = outErr (Model.dbRun op now (cleaned now db)).out) ∧
    (¬ ∀ (op : Op) (now : Int) (db : DB), C03.IsSetOp op → db.Inv → db.fk = true →
        Spec.abs now (Model.dbRun op now db).db
          = Spec.abs now (Model.dbRun op now (cleaned now db)).db) ∧
    (¬ ∀ (op : Op) (now : Int) (db : DB), C06.IsFamOp op → db.Inv → db.fk = true →
        outInt (Model.dbRun op now db).out = outInt (Model.dbRun op now (cleaned now db)).out) := by
  refine ⟨fun h => ?_, fun h => ?_, fun h => ?_⟩
  · exact absurd (h (.listPushBack bA bZ) 10 mixed rfl mixed_inv rfl) (by decide)
  · exact absurd (h (.setAdd bS [bZ]) 10 mixed rfl mixed_inv rfl) (by decide)
  · exact absurd (h .keyLen 10 mixed rfl mixed_inv rfl) (by decide)

/-! ### non-vacuity: the hypotheses hold on `mixed`, and the theorems say something there -/

/-- a read of the expired string: not found, on both -/
example : outErr (Model.dbRun (.strGet bA) 10 mixed).out = some .notFound ∧
    outErr (Model.dbRun (.strGet bA) 10 (cleaned 10 mixed)).out = some .notFound := by decide

example :
    let r := Model.dbRun (.strGet bA) 10 mixed
    let r' := Model.dbRun (.strGet bA) 10 (cleaned 10 mixed)
    r.out = r'.out ∧ Spec.abs 10 r.db = Spec.abs 10 r'.db :=
  expired_uncleaned_is_absent_str (.strGet bA) 10 mixed rfl mixed_inv rfl rfl rfl rfl

/-- an increment of the live string `n` = "41": 42 on both, the classifiers hold -/
example : C01.Stale (.strIncr bN 1) 10 mixed = false ∧ C01.Overflow (.strIncr bN 1) 10 mixed = false ∧
    outInt (Model.dbRun (.strIncr bN 1) 10 mixed).out = some 42 := by decide

example :
    let r := Model.dbRun (.strIncr bN 1) 10 mixed
    let r' := Model.dbRun (.strIncr bN 1) 10 (cleaned 10 mixed)
    r.out = r'.out ∧ Spec.abs 10 r.db = Spec.abs 10 r'.db :=
  expired_uncleaned_is_absent_str (.strIncr bN 1) 10 mixed rfl mixed_inv rfl (by decide) (by decide)
    (by decide)

/-- a push to the list with a future expiry, and one to a free name -/
example :
    let r := Model.dbRun (.listPushBack bL bZ) 10 mixed
    let r' := Model.dbRun (.listPushBack bL bZ) 10 (cleaned 10 mixed)
    r.out = r'.out ∧ Spec.abs 10 r.db = Spec.abs 10 r'.db :=
  expired_uncleaned_is_absent_list (.listPushBack bL bZ) 10 mixed rfl mixed_inv rfl (by decide)
    (by decide)

example : outInt (Model.dbRun (.listPushBack bL bZ) 10 mixed).out = some 2 ∧
    Spec.get (Spec.abs 10 (Model.dbRun (.listPushBack bL bZ) 10 mixed).db) bL
      = some ⟨.list [[121], bZ], some 100⟩ := by decide

example :
    let r := Model.dbRun (.listPopBackPushFront bL bM) 10 mixed
    let r' := Model.dbRun (.listPopBackPushFront bL bM) 10 (cleaned 10 mixed)
    r.out = r'.out ∧ Spec.abs 10 r.db = Spec.abs 10 r'.db :=
  expired_uncleaned_is_absent_list (.listPopBackPushFront bL bM) 10 mixed rfl mixed_inv rfl (by decide)
    (by decide)

/-- the ids the two runs allocate differ (6 against 4): equal keyspaces, different tables -/
example : ((Model.dbRun (.listPopBackPushFront bL bM) 10 mixed).db.keys.map (·.id)) = [1, 2, 3, 4, 5, 6] ∧
    ((Model.dbRun (.listPopBackPushFront bL bM) 10 (cleaned 10 mixed)).db.keys.map (·.id))
      = [3, 4, 5, 6] := by decide

/-- a set read over an expired and a missing name: empty on both -/
example :
    let r := Model.dbRun (.setUnion [bS, bM]) 10 mixed
    let r' := Model.dbRun (.setUnion [bS, bM]) 10 (cleaned 10 mixed)
    r.out = r'.out ∧ Spec.abs 10 r.db = Spec.abs 10 r'.db :=
  expired_uncleaned_is_absent_set (.setUnion [bS, bM]) 10 mixed rfl mixed_inv rfl rfl rfl

/-- an intersection that names the expired set twice (D07 is repaired for sets: no side condition) -/
example :
    let r := Model.dbRun (.setInter [bS, bS]) 10 mixed
    let r' := Model.dbRun (.setInter [bS, bS]) 10 (cleaned 10 mixed)
    r.out = r'.out ∧ Spec.abs 10 r.db = Spec.abs 10 r'.db :=
  expired_uncleaned_is_absent_set (.setInter [bS, bS]) 10 mixed rfl mixed_inv rfl rfl rfl

example :
    let r := Model.dbRun (.hashIncr bH [102] 1) 10 mixed
    let r' := Model.dbRun (.hashIncr bH [102] 1) 10 (cleaned 10 mixed)
    r.out = r'.out ∧ Spec.abs 10 r.db = Spec.abs 10 r'.db :=
  expired_uncleaned_is_absent_hash (.hashIncr bH [102] 1) 10 mixed rfl mixed_inv rfl rfl rfl (by decide)
    (by decide)

example : outInt (Model.dbRun (.hashIncr bH [102] 1) 10 mixed).out = some 8 := by decide

example :
    let r := Model.dbRun (.zAdd bM bZ (.fin 1)) 10 mixed
    let r' := Model.dbRun (.zAdd bM bZ (.fin 1)) 10 (cleaned 10 mixed)
    r.out = r'.out ∧ Spec.abs 10 r.db = Spec.abs 10 r'.db :=
  expired_uncleaned_is_absent_zset (.zAdd bM bZ (.fin 1)) 10 mixed rfl mixed_inv rfl rfl (by decide)
    (by decide) rfl rfl

/-- an intersection that names a key twice (D07 is repaired for sorted sets too) -/
example :
    let r := Model.dbRun (.zInter [bS, bS] .min) 10 mixed
    let r' := Model.dbRun (.zInter [bS, bS] .min) 10 (cleaned 10 mixed)
    r.out = r'.out ∧ Spec.abs 10 r.db = Spec.abs 10 r'.db :=
  expired_uncleaned_is_absent_zset (.zInter [bS, bS] .min) 10 mixed rfl mixed_inv rfl (by decide)
    (by decide) rfl rfl rfl

/-- rename onto the expired name `a`: no staleness hypothesis in the key family -/
example :
    let r := Model.dbRun (.keyRename bN bA) 10 mixed
    let r' := Model.dbRun (.keyRename bN bA) 10 (cleaned 10 mixed)
    C06.obs (.keyRename bN bA) r.out = C06.obs (.keyRename bN bA) r'.out ∧
      Spec.abs 10 r.db = Spec.abs 10 r'.db :=
  expired_uncleaned_is_absent_key (.keyRename bN bA) 10 mixed rfl mixed_inv rfl rfl (by decide) rfl rfl

example : Spec.staleKey mixed 10 bA = true ∧
    Spec.get (Spec.abs 10 (Model.dbRun (.keyRename bN bA) 10 mixed).db) bA
      = some ⟨.str [52, 49], none⟩ := by decide

/-- existence count over an expired, a live and a missing name: 1 on both -/
example : outInt (Model.dbRun (.keyCount [bA, bL, bM]) 10 mixed).out = some 1 ∧
    outInt (Model.dbRun (.keyCount [bA, bL, bM]) 10 (cleaned 10 mixed)).out = some 1 := by decide

example :
    let r := Model.dbRun (.keyCount [bA, bL, bM]) 10 mixed
    let r' := Model.dbRun (.keyCount [bA, bL, bM]) 10 (cleaned 10 mixed)
    C06.obs (.keyCount [bA, bL, bM]) r.out = C06.obs (.keyCount [bA, bL, bM]) r'.out ∧
    C06.obs (.keyCount [bA, bL, bM]) r.out
      = (Spec.step (.keyCount [bA, bL, bM]) 10 (Spec.abs 10 mixed)).out ∧
    r.db = mixed ∧ r'.db = cleaned 10 mixed :=
  expired_invisible_to_reads (.keyCount [bA, bL, bM]) 10 mixed rfl rfl mixed_inv rfl rfl

/-- a pattern listing: `ReadSide` holds (D16, C18 domain) -/
example : ReadSide (.keyKeys [42]) 10 mixed = true := by decide

/-- a list range with a negative bound on a live list (D01 is repaired: no side condition) -/
example : ReadSide (.listRange bL 0 (-1)) 10 mixed = true := by decide

/-- the boundary on `mixed`: `l` (expiry 100) is visible at 99 and gone at 100; `a` (expiry 5) is
visible at 4 and gone at 5 -/
example : (Spec.get (Spec.abs 99 mixed) bL).isSome = true ∧ Spec.get (Spec.abs 100 mixed) bL = none ∧
    (Spec.get (Spec.abs 4 mixed) bA).isSome = true ∧ Spec.get (Spec.abs 5 mixed) bA = none := by
  decide

example : ∃ v, Spec.get (Spec.abs 10 mixed) bL = some ⟨v, some 100⟩ :=
  before_expiry_key_is_present mixed 10
    { id := 3, key := bL, ty := 2, version := 1, etime := some 100, mtime := 0, len := some 1 } 100
    mixed_inv (by decide) rfl (by decide)

/-- the TTL rules on `mixed`, on the string `n` after `ExpireAt 50`: an increment keeps the expiry,
a plain set clears it, a rename carries it to the new name, `Persist` clears it -/
example :
    let db1 := (Model.dbRun (.keyExpireAt bN 50) 10 mixed).db
    Spec.get (Spec.abs 10 db1) bN = some ⟨.str [52, 49], some 50⟩ ∧
    (Spec.get (Spec.abs 10 (Model.dbRun (.strIncr bN 1) 10 db1).db) bN).map (·.etime)
      = some (some 50) ∧
    Spec.get (Spec.abs 10 (Model.dbRun (.strSet bN bZ) 10 db1).db) bN = some ⟨.str bZ, none⟩ ∧
    Spec.get (Spec.abs 10 (Model.dbRun (.keyRename bN bM) 10 db1).db) bM
      = some ⟨.str [52, 49], some 50⟩ ∧
    Spec.get (Spec.abs 10 (Model.dbRun (.keyPersist bN) 10 db1).db) bN
      = some ⟨.str [52, 49], none⟩ := by decide


end Redka.Props.C10x
