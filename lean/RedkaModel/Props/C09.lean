/-
  Property C09: durability and recovery.

  "If the process is killed at any instant, re-opening the database file succeeds and shows exactly
  the effects of every write that had been acknowledged to its caller, plus either all or none of
  the effects of each write that was in flight, and nothing else; all structural consistency rules
  hold in the recovered database. Closing and re-opening a database, any number of times and in
  read-write or read-only mode, preserves its content exactly."

  What is proved, and about what (`Model/Durable.lean`):

  * The process model: one client runs a workload of `DB`-level calls sequentially; every call is
    `exec` (statements on the VOLATILE working tables of the transaction — `Model.tx`, half-written
    when a wrapped method fails after a write), `settle` (`Commit`, or the deferred `Rollback` when
    the body returned an error; a bare statement auto-commits), `ack` (the method returns). A crash
    `(i, phase)` keeps only the `Store`. `recovered`, `acked`, `durable` are READ OFF that process,
    they are not defined by the closed forms proved below.
  * `recovered_by_phase`, `acked_by_phase`: the closed forms. `recovered_is_acked_or_inflight` /
    `recovered_which`: the file holds the first `acked` operations, or those plus the one in flight,
    and exactly when. `acked_writes_survive`: the file is reached from the state after ANY `j ≤ acked`
    operations by running whole operations only. `inflight_all_or_nothing`: for the operation in
    flight, nothing of it — or it succeeded, was committed, and all of it (`C07.dbRun_atomic`).
    `recovered_inv`: the invariant of C11 holds in the recovered database (`C11.reachable_inv`).
  * `reopen_preserves` … `close_reopen_any_modes`: `createSchema` on an existing database is the
    identity on the six tables BECAUSE every statement of `schema.sql` carries `if not exists`
    (`schema_all_if_not_exists`, decided over the flags the translator regenerates from the source on
    every run; `schemaTable_complete` ties the table to the generated list of names);
    `OpenRead` does not run the schema at all (`openRead_skips_schema`, decided on the generated
    body of `OpenRead`); `Close` only closes handles (`close_only_closes_handles`).
  * `crash_then_open`: the two halves together — after a crash at any point, `Open` and `OpenRead`
    succeed and show `recovered`.

  TRUSTED, not modelled (below transaction level; see `journal_settings`): SQLite's WAL. A
  transaction whose `Commit` has returned survives the death of the PROCESS; the frames of an
  uncommitted transaction are ignored by WAL recovery; a single statement on a handle is a
  transaction of its own. With `synchronous=normal` a POWER LOSS / OS crash may lose the latest
  commits: out of scope, C09 speaks of a killed process. Also trusted: the translator's
  `if not exists` flags and statement texts reflect `schema.sql` (Tie/Schema.lean pins them).

  Not covered: concurrent clients (one client, sequential calls); `DeleteAll`, whose single `Exec`
  is a three-command script — the model's `keyDeleteAll` at `DB` level is one step, the deviation is
  `C07.deleteAll_script_not_atomic`; user-defined transactions (`Update(func…)` with several
  operations) are one `runTx` of C07, `usertx_atomic`, and would be one `settle` here.

  Only property theorems and non-vacuity examples live here; definitions are in
  `Model/Durable.lean`, lemmas in `Proofs/Durable.lean`.
-/
import RedkaModel.Proofs.Durable

namespace Redka.Props.C09

open Redka Redka.Model Redka.Durable Redka.Proofs.Durable

/-! ### 1. what the file holds after a crash -/

/-- The process model does what the `DB` method does: running the statements and ending the
transaction leaves `(Model.dbRun …).db` in the file. -/
theorem op_is_dbRun : ∀ (p : Proc) (o : Op × Int),
    (settle (exec p o) o).store.committed = (Model.dbRun o.1 o.2 p.store.committed).db ∧
    (complete p o).store.committed = (Model.dbRun o.1 o.2 p.store.committed).db ∧
    (exec p o).store = p.store ∧ (complete p o).working = none :=
  fun p o => ⟨settle_exec_committed p o, complete_committed p o, rfl, rfl⟩

/-- `stateAfter w j` is C11's `run` of the first `j` operations from C11's `init`. -/
theorem stateAfter_is_run : ∀ (w : Workload) (j : Nat),
    stateAfter w j = Props.C11.run (w.take j) Props.C11.init :=
  stateAfter_eq_run

/-- Which state the file holds, per phase of operation `i` (for `i ≥ w.length` the process is idle
and all four are the final state, `stateAfter` clamps). -/
theorem recovered_by_phase : ∀ (w : Workload) (i : Nat),
    recovered w ⟨i, .before⟩ = stateAfter w i ∧
    recovered w ⟨i, .duringBeforeCommit⟩ = stateAfter w i ∧
    recovered w ⟨i, .afterCommitBeforeAck⟩ = stateAfter w (i + 1) ∧
    recovered w ⟨i, .afterAck⟩ = stateAfter w (i + 1) :=
  fun w _ => ⟨recovered_closed w _, recovered_closed w _, recovered_closed w _, recovered_closed w _⟩

/-- How many results the caller had, per phase of operation `i` of the workload. -/
theorem acked_by_phase : ∀ (w : Workload) (i : Nat), i < w.length →
    acked w ⟨i, .before⟩ = i ∧ acked w ⟨i, .duringBeforeCommit⟩ = i ∧
    acked w ⟨i, .afterCommitBeforeAck⟩ = i ∧ acked w ⟨i, .afterAck⟩ = i + 1 := by
  intro w i h
  simp [acked_closed, h, Nat.min_eq_left (Nat.le_of_lt h)]

/-- … and when the process dies idle after the whole workload. -/
theorem acked_idle : ∀ (w : Workload) (i : Nat) (ph : Phase), w.length ≤ i → acked w ⟨i, ph⟩ = w.length := by
  intro w i ph h
  rw [acked_closed, if_neg (by simp only []; omega), Nat.min_eq_right h]

/-- No result is returned before its transaction has ended, and at most one transaction has ended
without its result returned. -/
theorem acked_le_durable : ∀ (w : Workload) (c : Crash),
    acked w c ≤ durable w c ∧ durable w c ≤ acked w c + 1 :=
  Proofs.Durable.acked_le_durable

/-- The file holds exactly the operations whose transaction had ended. -/
theorem recovered_is_durable : ∀ (w : Workload) (c : Crash), recovered w c = stateAfter w (durable w c) :=
  recovered_eq_durable

/-- The recovered database is the state after the acknowledged operations, or after those and the
one in flight. Nothing else. -/
theorem recovered_is_acked_or_inflight : ∀ (w : Workload) (c : Crash),
    recovered w c = stateAfter w (acked w c) ∨ recovered w c = stateAfter w (acked w c + 1) := by
  intro w c
  rw [recovered_eq_durable]
  have h := Proofs.Durable.acked_le_durable w c
  rcases Nat.lt_or_ge (acked w c) (durable w c) with hlt | hge
  · exact .inr (by rw [show durable w c = acked w c + 1 by omega])
  · exact .inl (by rw [show durable w c = acked w c by omega])

/-- Precisely which: the in-flight operation is in the file exactly when the process died between
its commit and its acknowledgement. -/
theorem recovered_which : ∀ (w : Workload) (c : Crash),
    (c.phase = .afterCommitBeforeAck ∧ c.i < w.length → recovered w c = stateAfter w (acked w c + 1)) ∧
    (¬ (c.phase = .afterCommitBeforeAck ∧ c.i < w.length) → recovered w c = stateAfter w (acked w c)) := by
  intro w c
  have hd := durable_closed w c
  have ha := acked_closed w c
  rw [recovered_eq_durable]
  obtain ⟨i, ph⟩ := c
  constructor
  · rintro ⟨hp, hl⟩
    simp only [] at hp hl
    subst hp
    simp only [Phase.settled] at hd ha
    rw [hd, ha]; simp [hl, Nat.min_eq_left (Nat.le_of_lt hl)]
  · intro hn
    congr 1
    rw [hd, ha]
    cases ph <;> simp only [Phase.settled] <;> simp_all <;> omega

/-- Every acknowledged write survives, and nothing is half-applied: from the state after ANY
`j ≤ acked` operations, the recovered database is reached by running whole operations — operations
`j+1 … durable` of the workload, in order, each through `Model.dbRun`. -/
theorem acked_writes_survive : ∀ (w : Workload) (c : Crash) (j : Nat), j ≤ acked w c →
    recovered w c = Props.C11.run ((w.take (durable w c)).drop j) (stateAfter w j) := by
  intro w c j hj
  rw [recovered_eq_durable, ← runFrom_eq_run]
  exact stateAfter_split w j _ (Nat.le_trans hj (Proofs.Durable.acked_le_durable w c).1)

/-- The write in flight: none of its effects are in the file; or it had succeeded, its transaction
had been committed, and all of its effects are. (A write that fails has no effects:
`C07.dbRun_atomic`.) -/
theorem inflight_all_or_nothing : ∀ (w : Workload) (i : Nat) (ph : Phase) (o : Op × Int), w[i]? = some o →
    recovered w ⟨i, ph⟩ = stateAfter w i ∨
    ((∃ v, (Model.dbRun o.1 o.2 (stateAfter w i)).out = .ok v) ∧ ph.settled = true ∧
      recovered w ⟨i, ph⟩ = (Model.dbRun o.1 o.2 (stateAfter w i)).db) := by
  intro w i ph o ho
  rw [recovered_closed]
  cases hs : ph.settled
  · exact .inl rfl
  · simp only [if_true]
    rw [stateAfter_succ_some w i o ho]
    rcases Props.C07.dbRun_atomic o.1 o.2 (stateAfter w i) with hok | hsame
    · exact .inr ⟨hok, trivial, rfl⟩
    · exact .inl hsame

/-- The working tables of a transaction that had not committed never reach the file, whatever the
method had written to them. -/
theorem uncommitted_work_is_lost : ∀ (w : Workload) (i : Nat),
    recovered w ⟨i, .duringBeforeCommit⟩ = recovered w ⟨i, .before⟩ := by
  intro w i
  rw [(recovered_by_phase w i).1, (recovered_by_phase w i).2.1]

/-- All structural consistency rules (C11's invariant) hold in the recovered database, and its
connection flag is the default one. -/
theorem recovered_inv : ∀ (w : Workload) (c : Crash), (recovered w c).Inv ∧ (recovered w c).fk = true := by
  intro w c
  rw [recovered_eq_durable, stateAfter_eq_run]
  exact Props.C11.reachable_inv _

/-! ### 2. re-opening -/

/-- The tie: every statement of `schema.sql` — ranged over by the generated list of names, looked up
in `schemaTable`, judged by the generated flag — is a `create … if not exists` (or the
`user_version` pragma). Dropping one `if not exists` in the source makes this `decide` fail. -/
theorem schema_all_if_not_exists : allIfNotExists = true := by decide +kernel

/-- `schemaTable` is exactly the generated list of schema objects, in order: an object added to or
removed from `schema.sql` breaks the build here. -/
theorem schemaTable_complete : schemaTable.map (·.name) = Generated.schemaNames :=
  Proofs.Durable.schemaTable_complete

/-- the only statement without the flag is the pragma; all 25 `create` statements carry it -/
theorem schema_only_pragma_lacks_flag :
    (schemaTable.filter (fun s => !s.ifNotExists)).map (·.text) = ["pragma user_version = 1"] ∧
    (schemaTable.filter (·.ifNotExists)).length = 25 := by decide

/-- the six tables of the model are the six `create table` statements of the schema -/
theorem six_tables_declared :
    (Generated.schemaNames.filter (fun n => (bytesOf "table_").isPrefixOf (bytesOf n))) =
      ["table_rkey", "table_rstring", "table_rlist", "table_rset", "table_rhash", "table_rzset"] := by
  decide +kernel

/-- `createSchema` on an existing database succeeds. -/
theorem createSchema_succeeds : ∀ db : DB, createSchema db = some db := createSchema_some

theorem reopen_preserves : ∀ db : DB, reopen db = db := reopen_id

theorem reopen_idempotent : ∀ db : DB, reopen (reopen db) = reopen db :=
  fun db => by rw [reopen_id, reopen_id]

theorem close_reopen_cycles : ∀ (n : Nat) (db : DB), iter reopen n db = db := iter_id reopen reopen_id

/-- `reopen` really depends on the flags: with the schema as it is but `rkey` created without
`if not exists`, `createSchema` fails on an existing database and `Open` shows nothing. -/
theorem reopen_needs_if_not_exists :
    let tbl := schemaTable.map fun s => if s.name == "table_rkey" then { s with ifNotExists := false } else s
    ∀ db : DB, createSchemaOf tbl Generated.schemaNames db = none := by
  intro tbl db
  have h : allKeepOf tbl Generated.schemaNames = false := by decide +kernel
  simp [createSchemaOf, h]

/-- … and on the coverage: an object of the schema that the table does not know makes it fail. -/
theorem reopen_needs_complete_table : ∀ db : DB,
    createSchemaOf schemaTable ("table_rnew" :: Generated.schemaNames) db = none := by
  intro db
  have h : allKeepOf schemaTable ("table_rnew" :: Generated.schemaNames) = false := by decide
  simp [createSchemaOf, h]

/-- `OpenRead` builds the repository with `sqlx.New`, which does not call `init` (no pragmas
`Exec`'d, no `createSchema`), not with `sqlx.Open`: decided on the generated body of `OpenRead`.
For contrast, `Open` does go through `sqlx.Open`. -/
theorem openRead_skips_schema :
    hasSub Generated.c_redka_OpenRead "sqlx.Open(" = false ∧
    hasSub Generated.c_redka_OpenRead "sqlx.New(" = true ∧
    hasSub Generated.c_redka_Open "sqlx.Open(" = true ∧
    Generated.c_sqlx_DB_init = "{ d.setNumConns() err := d.applySettings(pragma) if err != nil { return err } return d.createSchema() }" ∧
    Generated.c_sqlx_DB_createSchema = "{ _, err := d.RW.Exec(sqlSchema) return err }" := by
  decide +kernel

/-- a read-only `DB` does not start the background cleaner (the only thing `new` starts) -/
theorem openRead_starts_no_cleaner : Generated.c_new_bgStart = "[!opts.readonly] rdb.startBgManager()" := by
  decide

/-- Opening read-only executes nothing on the database. -/
theorem readonly_reopen_preserves : ∀ db : DB, openRO db = some db := openRO_eq

/-- `Close` = stop the cleaner's ticker, close the RW handle, close the RO handle. -/
theorem close_only_closes_handles :
    Generated.c_close_calls = "db.bg.Stop(); db.RW.Close(); db.RO.Close()" := by decide

theorem close_preserves : ∀ db : DB, close db = some db := close_eq

/-- The whole `Open` (pragmas, then schema) on an existing database: succeeds, same rows in every
table, `foreign_keys` on. -/
theorem open_preserves : ∀ db : DB, openRW db = some { db with fk := true } := openRW_eq

/-- Closing and re-opening, any number of times, in any sequence of read-write and read-only modes:
every step succeeds and the six tables are exactly what they were; a database whose connection had
`foreign_keys = on` (every database reachable from the empty one) comes back identical. -/
theorem close_reopen_any_modes : ∀ (ms : List Mode) (db : DB),
    ∃ d, cycles ms db = some d ∧ tables d = tables db ∧ (db.fk = true → d = db) :=
  cycles_tables

/-- `execTx` returns to its caller only through `return dtx.Commit()` (or an error before it): an
acknowledged write has been committed. This is the source fact behind `ack` coming after `settle`. -/
theorem ack_follows_commit_in_source :
    Generated.c_sqlx_DB_execTx = "{ var dtx *sql.Tx var err error if writable { dtx, err = d.RW.BeginTx(ctx, nil) } else { dtx, err = d.RO.BeginTx(ctx, nil) } if err != nil { return err } defer func() { _ = dtx.Rollback() }() tx := d.newT(dtx) err = f(tx) if err != nil { return err } return dtx.Commit() }" := rfl

/-- The journal settings the model's trust rests on. The default options use `sqlx.DefaultPragma`,
which sets `journal_mode=wal`, `synchronous=normal` and `foreign_keys=on`; the server's connect
hook sets the same three.

TRUSTED about them (SQLite, not modelled): in WAL mode a transaction is committed by appending its
commit frame to the `-wal` file; once `Commit` has returned, that frame has been written (to the OS
at least), so the transaction survives the death of the process, and on the next open WAL recovery
replays exactly the transactions whose commit frame is present — all of a committed transaction,
nothing of an uncommitted one. `synchronous=normal` means the WAL is fsync'ed at checkpoints only,
not at every commit: after a POWER LOSS or OS crash the most recent commits may be missing (the
database is still consistent). That is outside C09, which speaks of a killed process. -/
theorem journal_settings :
    hasPragma Generated.c_sqlx_DefaultPragma "journal_mode=wal" = true ∧
    hasPragma Generated.c_sqlx_DefaultPragma "synchronous=normal" = true ∧
    hasPragma Generated.c_sqlx_DefaultPragma "foreign_keys=on" = true ∧
    Generated.c_defaultOptions_Pragma = "sqlx.DefaultPragma" ∧
    hasSub Generated.c_main_pragma "pragma journal_mode = wal;" = true ∧
    hasSub Generated.c_main_pragma "pragma synchronous = normal;" = true ∧
    hasSub Generated.c_main_pragma "pragma foreign_keys = on;" = true := by
  decide +kernel

/-! ### 3. both halves -/

/-- Kill the process at any instant of any workload, then open the file read-write or read-only:
the open succeeds and shows `recovered` — which is the state after the acknowledged operations, or
after those and the one in flight, and satisfies the invariant. -/
theorem crash_then_open : ∀ (w : Workload) (c : Crash) (m : Mode),
    openAs m (recovered w c) = some (recovered w c) ∧
    (recovered w c = stateAfter w (acked w c) ∨ recovered w c = stateAfter w (acked w c + 1)) ∧
    (recovered w c).Inv := by
  intro w c m
  refine ⟨?_, recovered_is_acked_or_inflight w c, (recovered_inv w c).1⟩
  cases m
  · have hfk := (recovered_inv w c).2
    simp only [openAs, openRW_eq]
    congr 1
    generalize recovered w c = d at hfk
    cases d; simp_all
  · exact openRO_eq _

/-! ### 4. non-vacuity: a 4-operation workload, a crash in each phase -/

/-- set the string `k`; add `a` to the set `s`; move `a` from `s` to `k` (fails with `ErrKeyType`
AFTER it has removed `a` from `s`: rolled back); push to the list `l` -/
def w4 : Workload :=
  [(.strSet [107] [118], 1), (.setAdd [115] [[97]], 2), (.setMove [115] [107] [97], 3),
   (.listPushBack [108] [98], 4)]

/-- operation 1 (`setAdd`) in each phase: results returned, transactions ended, keys in the file -/
example : (acked w4 ⟨1, .before⟩, durable w4 ⟨1, .before⟩, (recovered w4 ⟨1, .before⟩).keys.length) = (1, 1, 1) := by
  decide
example : (acked w4 ⟨1, .duringBeforeCommit⟩, durable w4 ⟨1, .duringBeforeCommit⟩,
    (recovered w4 ⟨1, .duringBeforeCommit⟩).keys.length) = (1, 1, 1) := by decide
example : (acked w4 ⟨1, .afterCommitBeforeAck⟩, durable w4 ⟨1, .afterCommitBeforeAck⟩,
    (recovered w4 ⟨1, .afterCommitBeforeAck⟩).keys.length) = (1, 2, 2) := by decide
example : (acked w4 ⟨1, .afterAck⟩, durable w4 ⟨1, .afterAck⟩, (recovered w4 ⟨1, .afterAck⟩).keys.length) = (2, 2, 2) := by
  decide

/-- the states really differ: the in-flight `setAdd` is in the file after its commit, not before -/
example : recovered w4 ⟨1, .duringBeforeCommit⟩ = stateAfter w4 1 ∧
    recovered w4 ⟨1, .afterCommitBeforeAck⟩ = stateAfter w4 2 ∧ stateAfter w4 1 ≠ stateAfter w4 2 ∧
    (stateAfter w4 2).sets = [{ rowid := 1, kid := 2, elem := [97] }] := by decide

/-- operation 2 (`setMove`) dies mid-transaction: the working tables have lost the member, the file
has not; and when it runs to its end it is rolled back, so the file is the same in all four phases -/
example : ((runUntil w4 ⟨2, .duringBeforeCommit⟩).working.map (·.db.sets)) = some [] ∧
    (recovered w4 ⟨2, .duringBeforeCommit⟩).sets = [{ rowid := 1, kid := 2, elem := [97] }] ∧
    recovered w4 ⟨2, .afterCommitBeforeAck⟩ = recovered w4 ⟨2, .before⟩ ∧
    recovered w4 ⟨2, .afterAck⟩ = recovered w4 ⟨2, .before⟩ ∧
    (acked w4 ⟨2, .afterAck⟩, durable w4 ⟨2, .afterCommitBeforeAck⟩) = (3, 3) := by decide

/-- the process dies idle after the whole workload -/
example : acked w4 ⟨9, .duringBeforeCommit⟩ = 4 ∧ recovered w4 ⟨9, .duringBeforeCommit⟩ = stateAfter w4 4 ∧
    (stateAfter w4 4).keys.length = 3 ∧ (stateAfter w4 4).lists.length = 1 := by decide

/-- the theorems instantiated on it -/
example : recovered w4 ⟨3, .afterCommitBeforeAck⟩ =
    Props.C11.run [(.setMove [115] [107] [97], 3), (.listPushBack [108] [98], 4)] (stateAfter w4 2) :=
  acked_writes_survive w4 ⟨3, .afterCommitBeforeAck⟩ 2 (by decide)
example : (recovered w4 ⟨3, .afterCommitBeforeAck⟩).Inv := (recovered_inv _ _).1
example : reopen (recovered w4 ⟨3, .afterCommitBeforeAck⟩) = recovered w4 ⟨3, .afterCommitBeforeAck⟩ ∧
    (recovered w4 ⟨3, .afterCommitBeforeAck⟩).lists = [{ kid := 3, pos := 0, elem := [98] }] :=
  ⟨reopen_preserves _, by decide⟩
example : cycles [.rw, .ro, .ro, .rw] (stateAfter w4 4) = some (stateAfter w4 4) := by
  obtain ⟨d, h, _, e⟩ := close_reopen_any_modes [.rw, .ro, .ro, .rw] (stateAfter w4 4)
  rw [h, e (by decide)]

end Redka.Props.C09
