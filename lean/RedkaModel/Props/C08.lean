/-
  Property C08: linearizability.

  "When any number of goroutines share one database handle, or any number of clients share one
  server, every single operation and every transaction block takes effect atomically at some instant
  between its call and its return: the observed results are explainable by some sequential order of
  the operations that respects real time. No update is lost, no element is delivered to two poppers,
  no reader observes part of a transaction, and no operation fails merely because another one is
  running."

  WHAT THIS IS. The theorems are about `Model/Sched.lean`: a contract-level model of how the two
  `database/sql` handles and SQLite's locking serialise the SQL events of concurrent callers. It is
  a model of SQLite's CONTRACT, not of SQLite; the rules (1)–(4) written at the top of that file are
  assumptions, parameterised by a configuration `Cfg = ⟨rwConns, txImmediate, journal⟩`. A client
  asks for a `Job`: one `DB`-level method, or a user-defined `Update` block of several operations.
  What a job does to the tables when its event happens is the statement-level model `Model.tx`
  validated against the real code (`Model.runOps` for a block's callback); that a method is one SQL
  statement or one `Update` transaction is C07 (`model_wrap_matches_source`,
  `multi_statement_writers_are_wrapped`). The sequential reference `seqRun` runs each job alone:
  `Model.dbRun` for a method, `execTx` around the callback for a block
  (`transaction_block_is_execTx`).

  The configuration is READ FROM THE SOURCE: `cfgOfSource` is computed from the generated constants
  (`d.RW.SetMaxOpenConns(1)`, `params.Set("_txlock","immediate")` under `writable`,
  `journal_mode=wal`, `cache=shared` for ":memory:", `vfs=memdb` for the server), and
  `cfg_is_expected` ties it to `cfgWal = ⟨1, true, wal⟩`. Change the argument of `SetMaxOpenConns`,
  drop the `_txlock`, or change the journal mode, and `cfg_is_expected` stops compiling.

  PROVED, for one RW connection and committed-snapshot readers (`cfgWal`, `cfgMemdb`; the lemmas in
  `Proofs/Sched.lean` need only `rwConns = 1 ∧ journal ≠ sharedCache` — with a single RW connection
  `_txlock` does not matter inside one process):
    * `wal_linearizable`, `memdb_linearizable`: for every complete schedule the protocol admits,
      the operations, ordered by linearization point (the `commit` of a transaction, the single
      statement of the others), form a permutation of the calls that respects real time and whose
      sequential run on `Model.dbRun` yields exactly the observed results and the final state.
      `linearizable_in_flight` is the same for schedules with operations still in flight.
    * `no_lost_update`, `no_double_pop`, `no_double_pop_set`: corollaries through the sequential
      behaviour of `strIncr`, `listPop`, `setPop` (`Proofs/SchedSeq.lean`).
    * `readers_see_whole_transactions`, `no_spurious_failure`, `no_busy_no_locked`, `no_deadlock`.
  REFUTED, by kernel-checked schedules, for the weaker instances: `deferred_two_conns_*`
  (`rwConns = 2`, deferred `BEGIN`), `immediate_two_conns_busy` (`rwConns = 2`, immediate), and
  `sharedcache_reader_fails` — the last one IS an instance the source selects (":memory:", known
  defect D15: `memory_store_is_shared_cache`).

  NOT EXHIBITED (trusted): the Go scheduler, `database/sql`'s pool beyond its `MaxOpenConns`
  contract, busy-handler timeouts (a wait is a later event; that the wait ends is `no_deadlock` in
  the model and a timeout assumption in reality), other processes on the same file, `View` blocks
  (a WAL read transaction keeps one snapshot: it would be one `stmt` event by assumption), faults
  during a concurrent run (C07 treats them one transaction at a time), and the wire server (one
  goroutine per connection calling these same methods; MULTI/EXEC is an `Update` block).
-/
import RedkaModel.Proofs.SchedSeq

namespace Redka.Props.C08

open Redka Redka.Model Redka.Sched Redka.Proofs.Sched

/-! ### 0. the instance the source selects -/

/-- The default on-disk configuration, computed from the generated constants: one RW connection,
`BEGIN IMMEDIATE`, WAL. -/
theorem cfg_is_expected : cfgOfSource = ⟨1, true, .wal⟩ := cfgOf_tie.1

/-- Every store the source can open, and the regime each gets: the library and the server on a file
are single-writer WAL; the server's in-memory store is single-writer `memdb`; the library's
":memory:" is single-writer SHARED CACHE. -/
theorem source_instance_is_wal_single_writer :
    cfgOfSource = cfgWal ∧ cfgOf .diskLib = cfgWal ∧ cfgOf .diskServer = cfgWal ∧
    cfgOf .memoryServer = cfgMemdb ∧ SingleWriter cfgOfSource :=
  ⟨cfgOf_tie.1, cfgOf_tie.1, cfgOf_tie.2.1, cfgOf_tie.2.2.1,
    (by show SingleWriter (cfgOf .diskLib); rw [cfgOf_tie.1]; exact singleWriter_wal)⟩

/-- ":memory:" gets the shared-cache regime, for which the positive theorems below do NOT hold
(`sharedcache_reader_fails`). -/
theorem memory_store_is_shared_cache : cfgOf .memoryLib = cfgShared := cfgOf_tie.2.2.2

/-! ### 1. linearizability -/

/-- the property, for a configuration -/
def Linearizable (cfg : Cfg) : Prop :=
  ∀ (init : DB) (s : Schedule), Valid cfg init s →
    ∃ order : List Rec,
      order.Perm (history cfg init s) ∧
      (order.map Rec.key).Perm (calls s) ∧
      RespectsRealTime order ∧
      order.map Rec.out = (seqRun (order.map Rec.inv) init).1.map Outcome.done ∧
      finalState cfg init s = (seqRun (order.map Rec.inv) init).2

theorem linearizable_of_singleWriter {cfg : Cfg} (hc : SingleWriter cfg) : Linearizable cfg := by
  intro init s hv
  obtain ⟨h, hr, ha⟩ := valid_iff.mp hv
  obtain ⟨hk, hrt, ho, hst⟩ := linearizable_run hc hr
  obtain ⟨hh, hf⟩ := history_of_run hr
  rw [ha] at hk
  simp only [List.map_nil, List.append_nil] at hk
  exact ⟨h.log, by rw [hh], hk, hrt, ho, by rw [hf]; exact hst⟩

/-- **C08 for the on-disk configuration.** Every complete schedule that one RW connection and WAL
readers admit — any number of clients, any interleaving of their calls, `begin`s, bodies, commits
and statements — has an order of its operations that (a) is a rearrangement of the recorded
history, (b) consists of exactly the calls of the schedule, (c) never places an operation before
one that had returned before it was called, and (d) run SEQUENTIALLY on the `DB`-level methods gives
every operation the result it observed, and the committed state at the end. The order is that of
the linearization points: the `commit` of an `Update`-wrapped operation, the one statement of the
others; each lies between the operation's call and its return. -/
theorem wal_linearizable : Linearizable cfgWal := linearizable_of_singleWriter singleWriter_wal

/-- The same for the server's in-memory store (`vfs=memdb`). -/
theorem memdb_linearizable : Linearizable cfgMemdb := linearizable_of_singleWriter singleWriter_memdb

/-- … and for what the source actually configures. -/
theorem source_linearizable : Linearizable cfgOfSource := cfg_is_expected ▸ wal_linearizable

/-- Schedules that end with operations in flight: the completed operations are linearizable as
above; the ones in flight (whatever their phase — called, transaction begun, body run on the
private copy) have had no effect on the committed state and are simply absent from the order. -/
theorem linearizable_in_flight : ∀ (cfg : Cfg), cfg = cfgWal ∨ cfg = cfgMemdb →
    ∀ (init : DB) (s : Schedule), Admitted cfg init s →
      (((history cfg init s).map Rec.key) ++ (inFlight cfg init s).map Act.key).Perm (calls s) ∧
      RespectsRealTime (history cfg init s) ∧
      (history cfg init s).map Rec.out =
        (seqRun ((history cfg init s).map Rec.inv) init).1.map Outcome.done ∧
      finalState cfg init s = (seqRun ((history cfg init s).map Rec.inv) init).2 := by
  intro cfg hcfg init s ha
  have hc : SingleWriter cfg := by
    rcases hcfg with rfl | rfl
    · exact singleWriter_wal
    · exact singleWriter_memdb
  obtain ⟨h, hr⟩ := admitted_iff.mp ha
  obtain ⟨hk, hrt, ho, hst⟩ := linearizable_run hc hr
  obtain ⟨hh, hf⟩ := history_of_run hr
  have hi : inFlight cfg init s = h.acts := by simp [inFlight, hr]
  rw [hh, hf, hi]
  exact ⟨hk, hrt, ho, hst⟩

/-- The model lets an operation return at its last SQL event. Returning any amount later keeps the
same order admissible (it only removes real-time constraints). -/
theorem later_returns_are_covered : ∀ (order : List Rec) (delay : Rec → Nat), RespectsRealTime order →
    RespectsRealTime (order.map (fun r => { r with ret := r.ret + delay r })) :=
  respects_of_later_returns

/-- In every recorded history the call of an operation precedes its return, and the history is in
the order of return (under every configuration). -/
theorem call_before_return : ∀ (cfg : Cfg) (init : DB) (s : Schedule),
    (∀ r ∈ history cfg init s, r.call < r.ret) ∧
    (history cfg init s).Pairwise (fun a b => a.ret < b.ret) := by
  intro cfg init s
  cases hr : run cfg init s with
  | none => simp [history, hr]
  | some h =>
    obtain ⟨hp, _⟩ := run_facts_any hr
    rw [(history_of_run hr).1]
    exact ⟨fun r hr => (hp.log_lt r hr).1, hp.sorted⟩

/-! ### 2. no lost update, no double pop -/

/-- the property, for a configuration: increments of one counter by any number of clients, in any
schedule, all succeed and add up -/
def NoLostUpdate (cfg : Cfg) : Prop :=
  ∀ (init : DB) (k : Bytes) (n : Int) (s : Schedule), Valid cfg init s → Counter init k n →
    (∀ c ∈ opsOf s, ∃ d, c.1 = .op (.strIncr k d)) →
    (n.natAbs + totalAbs (opsOf s) : Int) ≤ maxInt64 →
    (∀ r ∈ history cfg init s, r.out.isOk = true) ∧
    Counter (finalState cfg init s) k (n + total (opsOf s))

theorem noLostUpdate_of_singleWriter {cfg : Cfg} (hc : SingleWriter cfg) : NoLostUpdate cfg := by
  intro init k n s hv hcnt hops hb
  obtain ⟨tr, hperm, hout, hfin⟩ := seq_view hc hv
  have htot : total tr = total (opsOf s) := sum_perm_int (hperm.map _)
  have habs : totalAbs tr = totalAbs (opsOf s) := sum_perm_nat (hperm.map _)
  obtain ⟨hok, hc'⟩ := seqRun_incr k tr init n hcnt
    (fun c hc => hops c (hperm.mem_iff.mp hc)) (by rw [habs]; exact hb)
  refine ⟨?_, by rw [hfin, ← htot]; exact hc'⟩
  intro r hr
  have : r.out ∈ (history cfg init s).map Rec.out := List.mem_map_of_mem hr
  rw [hout] at this
  obtain ⟨o, ho, heq⟩ := List.mem_map.mp this
  obtain ⟨v, rfl⟩ := hok o ho
  rw [← heq]; rfl

/-- **No update is lost.** `k` is a counter standing at `n` (absent, or a number without expiry);
any number of clients each call `Incr(k, dᵢ)`; in EVERY schedule the on-disk configuration admits
every call succeeds and the counter ends at `n + Σ dᵢ` — as long as no partial sum, in any order,
can leave int64 (beyond that the code wraps around: known finding D17). -/
theorem no_lost_update : NoLostUpdate cfgWal := noLostUpdate_of_singleWriter singleWriter_wal

theorem no_lost_update_memdb : NoLostUpdate cfgMemdb := noLostUpdate_of_singleWriter singleWriter_memdb

/-- what a counter reads as afterwards -/
theorem counter_reads : ∀ (db : DB) (k : Bytes) (n : Int), Counter db k n → ∀ now : Int,
    (db.findKey k = none ∧ n = 0 ∧ (Model.dbRun (.strGet k) now db).out = .error .notFound) ∨
    ∃ b, valueInt b = some n ∧ (Model.dbRun (.strGet k) now db).out = .ok (.bytes b) :=
  fun _ _ _ h now => counter_get h now

/-- **No element is delivered to two poppers (lists).** The name `k` holds at most one list
element; any number of clients pop it, from either end; in every admitted schedule at most one of
them gets an element. -/
theorem no_double_pop : ∀ (cfg : Cfg), cfg = cfgWal ∨ cfg = cfgMemdb →
    ∀ (init : DB) (k : Bytes) (s : Schedule), Valid cfg init s → listCount init k ≤ 1 →
    (∀ c ∈ opsOf s, isListPop k c.1 = true) → succeeded (history cfg init s) ≤ 1 := by
  intro cfg hcfg init k s hv hcount hops
  have hc : SingleWriter cfg := by
    rcases hcfg with rfl | rfl
    · exact singleWriter_wal
    · exact singleWriter_memdb
  obtain ⟨tr, hperm, hout, _⟩ := seq_view hc hv
  rw [succeeded_eq hout]
  exact seqRun_listPop_one k tr init (fun c hc => hops c (hperm.mem_iff.mp hc)) hcount

/-- **… (sets).** -/
theorem no_double_pop_set : ∀ (cfg : Cfg), cfg = cfgWal ∨ cfg = cfgMemdb →
    ∀ (init : DB) (k : Bytes) (s : Schedule), Valid cfg init s → setCount init k ≤ 1 →
    (∀ c ∈ opsOf s, isSetPop k c.1 = true) → succeeded (history cfg init s) ≤ 1 := by
  intro cfg hcfg init k s hv hcount hops
  have hc : SingleWriter cfg := by
    rcases hcfg with rfl | rfl
    · exact singleWriter_wal
    · exact singleWriter_memdb
  obtain ⟨tr, hperm, hout, _⟩ := seq_view hc hv
  rw [succeeded_eq hout]
  exact seqRun_setPop_one k tr init (fun c hc => hops c (hperm.mem_iff.mp hc)) hcount

/-! ### 3. readers, failures, waiting -/

/-- the property, for a configuration: every operation returns what its `DB`-level method returns
on the state left by the operations that returned before it — never "busy", never "locked" -/
def NoSpuriousFailure (cfg : Cfg) : Prop :=
  ∀ (init : DB) (s : Schedule), Admitted cfg init s →
    ∀ (pre post : List Rec) (r : Rec), history cfg init s = pre ++ r :: post →
      r.out = .done (r.job.seq r.now (seqRun (pre.map Rec.inv) init).2).out

theorem noSpuriousFailure_of_singleWriter {cfg : Cfg} (hc : SingleWriter cfg) : NoSpuriousFailure cfg := by
  intro init s ha pre post r hsplit
  obtain ⟨h, hr⟩ := admitted_iff.mp ha
  obtain ⟨hs, _, _⟩ := run_facts hc hr
  rw [(history_of_run hr).1] at hsplit
  exact result_at hs.outs hsplit

/-- **No operation fails merely because another one is running.** In every schedule the on-disk
configuration admits — complete or not — each operation's result is exactly the result of its
`DB`-level method in the sequential order. -/
theorem no_spurious_failure : NoSpuriousFailure cfgWal ∧ NoSpuriousFailure cfgMemdb :=
  ⟨noSpuriousFailure_of_singleWriter singleWriter_wal, noSpuriousFailure_of_singleWriter singleWriter_memdb⟩

/-- … in particular the outcomes "database is locked" and "database table is locked" do not occur. -/
theorem no_busy_no_locked : ∀ (cfg : Cfg), cfg = cfgWal ∨ cfg = cfgMemdb →
    ∀ (init : DB) (s : Schedule), ∀ r ∈ history cfg init s,
      r.out.isBusy = false ∧ r.out.isLocked = false := by
  intro cfg hcfg init s r hr
  have hc : SingleWriter cfg := by
    rcases hcfg with rfl | rfl
    · exact singleWriter_wal
    · exact singleWriter_memdb
  cases hrun : run cfg init s with
  | none => simp [history, hrun] at hr
  | some h =>
    obtain ⟨pre, post, hsplit⟩ := List.append_of_mem hr
    have := noSpuriousFailure_of_singleWriter hc init s (admitted_iff.mpr ⟨h, hrun⟩) pre post r hsplit
    rw [this]; exact ⟨rfl, rfl⟩

/-- **No reader observes part of a transaction.** The result of every operation on the read-only
handle is its result on the state `seqRun prefix`, the state left by WHOLE operations (those that
returned before it) — never a transaction's private copy, although such copies exist in the model
while the reader runs (`reader_during_open_transaction` below). -/
theorem readers_see_whole_transactions : ∀ (cfg : Cfg), cfg = cfgWal ∨ cfg = cfgMemdb →
    ∀ (init : DB) (s : Schedule), Admitted cfg init s →
    ∀ (pre post : List Rec) (r : Rec) (o : Op), history cfg init s = pre ++ r :: post →
      r.job = .op o → Model.wrapOf o = .roDirect →
      r.out = .done (Model.tx false o r.now (seqRun (pre.map Rec.inv) init).2).out := by
  intro cfg hcfg init s ha pre post r o hsplit hj hw
  have hc : SingleWriter cfg := by
    rcases hcfg with rfl | rfl
    · exact singleWriter_wal
    · exact singleWriter_memdb
  rw [← dbRun_roDirect _ _ hw]
  have := noSpuriousFailure_of_singleWriter hc init s ha pre post r hsplit
  rw [hj] at this
  exact this

/-- **Waiting ends.** The model writes "waits for the connection" as "this event cannot happen
yet". That is never for ever: every admitted schedule with an operation in flight can be extended
by one more event (under every configuration). -/
theorem no_deadlock : ∀ (cfg : Cfg) (init : DB) (s : Schedule), Admitted cfg init s →
    inFlight cfg init s ≠ [] → ∃ e, Admitted cfg init (s ++ [e]) := by
  intro cfg init s ha hne
  obtain ⟨h, hr⟩ := admitted_iff.mp ha
  have hi : inFlight cfg init s = h.acts := by simp [inFlight, hr]
  rw [hi] at hne
  obtain ⟨e, h', he⟩ := progress hr hne
  exact ⟨e, admitted_iff.mpr ⟨h', he⟩⟩

/-! ### 4. the weaker configurations: kernel-checked counterexamples -/

def bK : Bytes := [107]          -- "k"
def bL : Bytes := [108]          -- "l"
def bA : Bytes := [97]           -- "a"

/-- two RW connections, deferred `BEGIN` -/
def cfgDeferred2 : Cfg := ⟨2, false, .wal⟩
/-- two RW connections, `BEGIN IMMEDIATE` -/
def cfgImmediate2 : Cfg := ⟨2, true, .wal⟩

/-- the integer an operation returned, if it did -/
def outInt : Outcome → Option Int
  | .done (.ok (.int i)) => some i
  | _ => none

/-- 0 ok, 1 the method's own error, 2 busy, 3 locked -/
def code : Outcome → Nat
  | .done (.ok _) => 0
  | .done (.error _) => 1
  | .busy => 2
  | .locked => 3

/-- who, called at, returned at, outcome, integer result -/
def view (cfg : Cfg) (init : DB) (s : Schedule) : List (Client × Nat × Nat × Nat × Option Int) :=
  (history cfg init s).map (fun r => (r.client, r.call, r.ret, code r.out, outInt r.out))

/-- two clients increment `k`; both transactions are open at the same time -/
def twoIncr : Schedule :=
  [(1, .call (.op (.strIncr bK 1)) 7), (2, .call (.op (.strIncr bK 1)) 7),
   (1, .begin), (2, .begin), (1, .body), (2, .body), (1, .commit)]

/-- With two RW connections and deferred `BEGIN` this IS a schedule of the system; client 2's
upgrade to a write transaction fails with SQLITE_BUSY, and of the two increments one is lost: the
counter stands at 1. (SQLite does not let the stale transaction overwrite — the loss comes with an
error, not silently.) With the source's configuration the same interleaving is not a schedule at
all: the second `begin` waits. -/
theorem deferred_two_conns_lost_update :
    Valid cfgDeferred2 {} twoIncr ∧
    view cfgDeferred2 {} twoIncr = [(2, 1, 5, 2, none), (1, 0, 6, 0, some 1)] ∧
    (finalState cfgDeferred2 {} twoIncr).strs = [{ kid := 1, value := [49] }] ∧
    ¬ Admitted cfgWal {} twoIncr := by decide +kernel

/-- `no_lost_update` is FALSE for that instance. -/
theorem deferred_two_conns_refutes_no_lost_update : ¬ NoLostUpdate cfgDeferred2 := by
  intro h
  have hv : Valid cfgDeferred2 {} twoIncr := by decide
  have := (h {} bK 0 twoIncr hv ⟨emptyWF, .inl ⟨rfl, rfl⟩⟩
    (by intro c hc
        simp only [opsOf, calls, twoIncr, callsFrom, List.map_cons, List.map_nil, List.mem_cons,
          List.not_mem_nil, or_false] at hc
        rcases hc with rfl | rfl <;> exact ⟨1, rfl⟩)
    (by decide)).1
  have hbusy : ∃ r ∈ history cfgDeferred2 {} twoIncr, r.out.isOk = false := by decide
  obtain ⟨r, hr, hf⟩ := hbusy
  rw [this r hr] at hf
  cases hf

/-- … and so is `no_spurious_failure`. -/
theorem deferred_two_conns_refutes_no_spurious_failure : ¬ NoSpuriousFailure cfgDeferred2 := by
  intro h
  have ha : Admitted cfgDeferred2 {} twoIncr := by decide
  have hsplit : ∃ r post, history cfgDeferred2 {} twoIncr = [] ++ r :: post ∧ r.out.isBusy = true := by
    refine ⟨_, _, rfl, ?_⟩
    decide
  obtain ⟨r, post, hs, hb⟩ := hsplit
  rw [h {} twoIncr ha [] post r hs] at hb
  cases hb

/-- two clients increment `k`; the second `begin` comes while the first transaction is open and
its busy handler gives up -/
def twoIncrImmediate : Schedule :=
  [(1, .call (.op (.strIncr bK 1)) 7), (2, .call (.op (.strIncr bK 1)) 7),
   (1, .begin), (2, .begin), (1, .body), (1, .commit)]

/-- Two RW connections with `BEGIN IMMEDIATE`: nothing is overwritten, but the second caller can be
refused with SQLITE_BUSY. (Why `SetMaxOpenConns(1)` matters even with `_txlock=immediate`.) -/
theorem immediate_two_conns_busy :
    Valid cfgImmediate2 {} twoIncrImmediate ∧
    view cfgImmediate2 {} twoIncrImmediate = [(2, 1, 3, 2, none), (1, 0, 5, 0, some 1)] ∧
    ¬ Admitted cfgWal {} twoIncrImmediate := by decide

/-- a writer sets `k` while a reader gets it; the read comes between body and commit -/
def readDuringWrite : Schedule :=
  [(1, .call (.op (.strSet bK bA)) 7), (2, .call (.op (.strGet bK)) 7),
   (1, .begin), (1, .body), (2, .stmt), (1, .commit)]

/-- **D15.** The shared-cache regime that `DataSource` selects for ":memory:"
(`memory_store_is_shared_cache`): the reader fails with "database table is locked". Under WAL the
very same schedule gives the reader the committed state (`k` not found: the method's own answer). -/
theorem sharedcache_reader_fails :
    Valid cfgShared {} readDuringWrite ∧
    view cfgShared {} readDuringWrite = [(2, 1, 4, 3, (none : Option Int)), (1, 0, 5, 0, none)] ∧
    Valid cfgWal {} readDuringWrite ∧
    view cfgWal {} readDuringWrite = [(2, 1, 4, 1, (none : Option Int)), (1, 0, 5, 0, none)] :=
  ⟨by decide, by decide, by decide, by decide⟩

theorem sharedcache_refutes_no_spurious_failure : ¬ NoSpuriousFailure (cfgOf .memoryLib) := by
  rw [memory_store_is_shared_cache]
  intro h
  have ha : Admitted cfgShared {} readDuringWrite := by decide
  have hsplit : ∃ r post, history cfgShared {} readDuringWrite = [] ++ r :: post ∧ r.out.isLocked = true := by
    refine ⟨_, _, rfl, ?_⟩
    decide
  obtain ⟨r, post, hs, hb⟩ := hsplit
  rw [h {} readDuringWrite ha [] post r hs] at hb
  cases hb

/-! ### 5. non-vacuity: three clients -/

/-- clients 1 and 2 increment `k` by 1 and 2, client 3 reads it twice; client 2 calls while client
1's transaction is open and waits; client 3's first read falls between client 1's body and commit -/
def s3 : Schedule :=
  [(1, .call (.op (.strIncr bK 1)) 7), (2, .call (.op (.strIncr bK 2)) 7), (3, .call (.op (.strGet bK)) 8),
   (1, .begin), (1, .body), (3, .stmt), (1, .commit), (2, .begin), (3, .call (.op (.strGet bK)) 9),
   (2, .body), (2, .commit), (3, .stmt)]

/-- what the read returned -/
def outBytes : Outcome → Option Bytes
  | .done (.ok (.bytes b)) => some b
  | _ => none

example : Valid cfgWal {} s3 ∧ Valid cfgMemdb {} s3 := by decide
example : view cfgWal {} s3 =
    [(3, 2, 5, 1, none), (1, 0, 6, 0, some 1), (2, 1, 10, 0, some 3), (3, 8, 11, 0, none)] := by
  decide +kernel
/-- the reads: "not found" while client 1's transaction is open, "3" at the end -/
example : (history cfgWal {} s3).map (fun r => outBytes r.out) = [none, none, none, some [51]] := by
  decide +kernel

/-- `wal_linearizable` applied: the order exists, and it is the recorded one -/
example : ∃ order : List Rec, order.Perm (history cfgWal {} s3) ∧ (order.map Rec.key).Perm (calls s3) ∧
    RespectsRealTime order ∧
    order.map Rec.out = (seqRun (order.map Rec.inv) {}).1.map Outcome.done :=
  let ⟨o, h1, h2, h3, h4, _⟩ := wal_linearizable {} s3 (by decide)
  ⟨o, h1, h2, h3, h4⟩

/-- While the reader runs there IS a private, uncommitted state that differs from the committed
one: after `[call, call, call, begin, body]` client 1's transaction holds `k = 1` privately; the
reader (next event) answers "not found". -/
theorem reader_during_open_transaction :
    ((run cfgWal {} (s3.take 5)).map fun h =>
        (h.committed.strs, h.acts.map fun a => match a.phase with
          | .bodied _ p => p.strs
          | _ => [])) = some ([], [[{ kid := 1, value := [49] }], [], []]) ∧
    ((run cfgWal {} (s3.take 6)).map fun h => h.log.map fun r => (r.client, code r.out)) = some [(3, 1)] := by
  decide +kernel

/-- three clients add 1, 2 and 3 -/
def s3incr : Schedule :=
  [(1, .call (.op (.strIncr bK 1)) 7), (2, .call (.op (.strIncr bK 2)) 7), (3, .call (.op (.strIncr bK 3)) 6),
   (2, .begin), (2, .body), (2, .commit), (3, .begin), (3, .body), (3, .commit),
   (1, .begin), (1, .body), (1, .commit)]

example : Valid cfgWal {} s3incr ∧
    view cfgWal {} s3incr = [(2, 1, 5, 0, some 2), (3, 2, 8, 0, some 5), (1, 0, 11, 0, some 6)] := by
  decide +kernel

/-- `no_lost_update` applied: the hypotheses can be met, and the counter stands at 6 -/
example : Counter (finalState cfgWal {} s3incr) bK 6 := by
  have := (no_lost_update {} bK 0 s3incr (by decide) ⟨emptyWF, .inl ⟨rfl, rfl⟩⟩
    (by intro c hc
        simp only [opsOf, calls, s3incr, callsFrom, List.map_cons, List.map_nil, List.mem_cons,
          List.not_mem_nil, or_false] at hc
        rcases hc with rfl | rfl | rfl <;> exact ⟨_, rfl⟩)
    (by decide)).2
  simpa [opsOf, calls, s3incr, callsFrom, total, delta] using this

/-- a list `l` with the one element `a` -/
def dbOne : DB :=
  { keys := [{ id := 1, key := bL, ty := TList, version := 1, etime := none, mtime := 0, len := some 1 }],
    lists := [{ kid := 1, pos := 0, elem := bA }] }

/-- three clients pop it, from both ends -/
def s3pop : Schedule :=
  [(1, .call (.op (.listPopBack bL)) 7), (2, .call (.op (.listPopFront bL)) 7), (3, .call (.op (.listPopBack bL)) 7),
   (3, .begin), (3, .body), (3, .commit), (1, .begin), (1, .body), (1, .commit),
   (2, .begin), (2, .body), (2, .commit)]

example : Valid cfgWal dbOne s3pop ∧ listCount dbOne bL = 1 ∧
    view cfgWal dbOne s3pop = [(3, 2, 5, 0, none), (1, 0, 8, 1, none), (2, 1, 11, 1, none)] ∧
    succeeded (history cfgWal dbOne s3pop) = 1 := by decide

example : succeeded (history cfgWal dbOne s3pop) ≤ 1 :=
  no_double_pop cfgWal (.inl rfl) dbOne bL s3pop (by decide) (by decide) (by decide)

/-- a set `s` with the one member `a`; three clients pop it -/
def dbOneSet : DB :=
  { keys := [{ id := 1, key := bL, ty := TSet, version := 1, etime := none, mtime := 0, len := some 1 }],
    sets := [{ rowid := 1, kid := 1, elem := bA }] }

def s3spop : Schedule :=
  [(1, .call (.op (.setPop bL (some bA))) 7), (2, .call (.op (.setPop bL (some bA))) 7), (3, .call (.op (.setPop bL (some bA))) 7),
   (2, .begin), (2, .body), (2, .commit), (1, .begin), (1, .body),
   (1, .commit), (3, .begin), (3, .body), (3, .commit)]

example : Valid cfgMemdb dbOneSet s3spop ∧ setCount dbOneSet bL = 1 ∧
    succeeded (history cfgMemdb dbOneSet s3spop) = 1 := by decide

example : succeeded (history cfgMemdb dbOneSet s3spop) ≤ 1 :=
  no_double_pop_set cfgMemdb (.inr rfl) dbOneSet bL s3spop (by decide) (by decide) (by decide)

/-! #### transaction blocks -/

/-- A block job executed alone is C07's `execTx` around its callback (fault-free): the same tables
afterwards, success exactly when `execTx` returns nil. So "`Job.seq` of a block" in the theorems
above is the all-or-nothing transaction of `usertx_atomic`. -/
theorem transaction_block_is_execTx : ∀ (env : Env) (p : Bool) (ops : List Op) (now : Int) (db : DB),
    (runTx env p ops .none now db).2 = (Job.seq (.block p ops) now db).db ∧
    ((runTx env p ops .none now db).1 = .ok () ↔ ∃ v, (Job.seq (.block p ops) now db).out = .ok v) :=
  Proofs.Sched.block_is_execTx

/-- client 1 sets `k` and `l` in one `Update` block; clients 2 and 3 count how many of the two
exist: client 2 between the block's body and its commit, client 3 after the commit -/
def s3block : Schedule :=
  [(1, .call (.block true [.strSet bK bA, .strSet bL bA]) 7), (2, .call (.op (.keyCount [bK, bL])) 7),
   (1, .begin), (1, .body), (2, .stmt), (3, .call (.op (.keyCount [bK, bL])) 8), (1, .commit), (3, .stmt)]

/-- none or both, never one -/
example : Valid cfgWal {} s3block ∧
    view cfgWal {} s3block = [(2, 1, 4, 0, some 0), (1, 0, 6, 0, none), (3, 5, 7, 0, some 2)] := by decide

/-- the same with a block whose second operation fails (a set operation on the string it has just
written): the block reports the error and nothing of it is ever visible -/
def s3blockBad : Schedule :=
  [(1, .call (.block true [.strSet bK bA, .setAdd bK [bA], .strSet bL bA]) 7),
   (2, .call (.op (.keyCount [bK, bL])) 7),
   (1, .begin), (1, .body), (2, .stmt), (3, .call (.op (.keyCount [bK, bL])) 8), (1, .commit), (3, .stmt)]

example : Valid cfgWal {} s3blockBad ∧
    view cfgWal {} s3blockBad = [(2, 1, 4, 0, some 0), (1, 0, 6, 1, none), (3, 5, 7, 0, some 0)] ∧
    finalState cfgWal {} s3blockBad = {} := by decide

/-- a schedule with an operation in flight, and its continuation (`no_deadlock`) -/
example : Admitted cfgWal {} (s3.take 5) ∧ (inFlight cfgWal {} (s3.take 5)).length = 3 ∧
    ∃ e, Admitted cfgWal {} (s3.take 5 ++ [e]) :=
  ⟨by decide, by decide, no_deadlock cfgWal {} (s3.take 5) (by decide) (by decide)⟩

/-- a schedule that breaks the protocol: a second `begin` on the single RW connection -/
example : ¬ Admitted cfgWal {} [(1, .call (.op (.strIncr bK 1)) 7), (2, .call (.op (.strIncr bK 1)) 7),
    (1, .begin), (2, .begin)] := by decide

end Redka.Props.C08
