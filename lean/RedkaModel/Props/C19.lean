/-
  Property C19: key metadata tells the truth.

  "A live key's version number strictly increases with every successful change to its value or
  expiry and is untouched by reads and refused operations, its modification time never runs
  backwards and is refreshed by every successful change to its value, and its type and expiry as
  reported by the key lookup always match what the type-specific operations and the expiry
  commands last established; a key that is deleted (or fully replaced by a storing operation) and
  created again starts a new history."

  Every statement is about the statement-level model (`Model.tx true` = the `Tx` method inside a
  caller-managed transaction, partial effects of a failing method stay; `Model.dbRun` = the `DB`
  method with the wrapper the source uses), for ALL states satisfying the C11 invariant, ALL
  arguments and clock values, and ALL 85 constructors of `Op` (`Covered op = true` for all).

    * `meta_rules_db_partial` / `meta_rules_tx_partial`: the judgement `Spec.metaOK` that the
      driver applies to every real step holds of every model step, under the clock assumption
      `MonoClock now db` (no stored modification time is ahead of the clock of the call —
      `clock_is_needed` shows the statement is false without it) and outside the classifiers
      `KnownMeta` (K1, K2) / `KnownMetaTx` (K1, K2, K3), each with a `decide` witness that
      `metaOK` really is false there (`k1_breaks`, `k2_breaks`, `k3_breaks`). The classifiers
      are EXACT (`meta_rules_db_exact`, `meta_rules_tx_exact`): the judgement holds if and only
      if the step is not classified. All three classes concern the destination row of a storing
      method; for every other row of every step nothing is excluded (`one_step`).
    * the readable corollaries, none of which needs a classifier, and only the two about the
      modification time not running backwards need the clock assumption;
    * `version_monotone_along_history`, `mtime_monotone_along_history`: histories;
    * `type_etime_truthful_*`: "type and expiry as reported by the key lookup" — corollaries of
      the six family refinement theorems.

  Definitions (`MonoClock`, `Covered`, `KnownMeta`, `KnownMetaTx`, `rowAt`, `ContRowM`, `Survives`,
  `ChangedIn`, `Clocked`, `createKey`, `tyEt`, `Truthful`, the witness databases) live in
  `Proofs/Meta*.lean`, namespace `Redka.MetaProofs`.
-/
import RedkaModel.Proofs.MetaHist
import RedkaModel.Proofs.MetaCor
import RedkaModel.Proofs.MetaTruth
import RedkaModel.Proofs.MetaWit
import RedkaModel.Proofs.MetaExact
import RedkaModel.Props.C01
import RedkaModel.Props.C02ref
import RedkaModel.Props.C03ref
import RedkaModel.Props.C04ref
import RedkaModel.Props.C05ref
import RedkaModel.Props.C06ref
import RedkaModel.Props.C11
import RedkaModel.Props.C12

namespace Redka.Props.C19

open Redka Redka.Model Redka.Spec Redka.MetaProofs Redka.InvP

/-! ### 1. the judgement of the driver -/

/-- `Spec.metaOK` (a `Bool` built from `List.all`, `List.find?`, `decide`) says: every key row of
the post-state meets `RowOK` — `FreshRow` (version ≥ 1, mtime = now) for the destination of a
successful store, otherwise `PlainRow`: `ContRow` against the pre-state row with the same id and
name, "version grew, mtime = now, same type" against a pre-state row with the same id only
(rename), `FreshRow` when the id is new. -/
theorem metaOK_characterisation : ∀ (op : Op) (now : Int) (pre post : DB) (res : Out),
    Spec.metaOK op now pre post res = true ↔ ∀ r' ∈ post.keys, RowOK op now pre post res r' :=
  metaOK_iff

theorem covered_all : ∀ op : Op, Covered op = true := fun _ => rfl

/-- **C19 on the handle.** -/
theorem meta_rules_db_partial : ∀ (op : Op) (now : Int) (db : DB), db.Inv → MonoClock now db →
    Covered op = true → KnownMeta op now db = false →
    let r := Model.dbRun op now db
    Spec.metaOK op now db r.db r.out = true :=
  fun op now db h hm _ hk => metaOK_db op now db h hm hk

/-- **C19 inside a caller-managed transaction** (no rollback: the partial effects of a failing
method are judged too). -/
theorem meta_rules_tx_partial : ∀ (op : Op) (now : Int) (db : DB), db.Inv → MonoClock now db →
    Covered op = true → KnownMetaTx op now db = false →
    let r := Model.tx true op now db
    Spec.metaOK op now db r.db r.out = true :=
  fun op now db h hm _ hk => metaOK_tx op now db h hm hk

/-- The classifier is exact: on the handle the judgement holds if and only if the step is not
classified (the "only if" needs no clock assumption: `known_breaks_db`). -/
theorem meta_rules_db_exact : ∀ (op : Op) (now : Int) (db : DB), db.Inv → MonoClock now db →
    (Spec.metaOK op now db (Model.dbRun op now db).db (Model.dbRun op now db).out = true ↔
      KnownMeta op now db = false) := by
  intro op now db h hm
  constructor
  · intro hok
    cases hk : KnownMeta op now db
    · rfl
    · rw [known_db_false h hk] at hok; cases hok
  · exact fun hk => metaOK_db op now db h hm hk

theorem meta_rules_tx_exact : ∀ (op : Op) (now : Int) (db : DB), db.Inv → MonoClock now db →
    (Spec.metaOK op now db (Model.tx true op now db).db (Model.tx true op now db).out = true ↔
      KnownMetaTx op now db = false) := by
  intro op now db h hm
  constructor
  · intro hok
    cases hk : KnownMetaTx op now db
    · rfl
    · rw [known_tx_false h hk] at hok; cases hok
  · exact fun hk => metaOK_tx op now db h hm hk

theorem known_breaks_db : ∀ (op : Op) (now : Int) (db : DB), db.Inv → KnownMeta op now db = true →
    Spec.metaOK op now db (Model.dbRun op now db).db (Model.dbRun op now db).out = false :=
  fun _ _ _ h hk => known_db_false h hk

theorem known_breaks_tx : ∀ (op : Op) (now : Int) (db : DB), db.Inv → KnownMetaTx op now db = true →
    Spec.metaOK op now db (Model.tx true op now db).db (Model.tx true op now db).out = false :=
  fun _ _ _ h hk => known_tx_false h hk

/-- only storing methods are ever classified -/
theorem known_only_stores : ∀ (op : Op) (now : Int) (db : DB), Spec.storeDest op = none →
    KnownMeta op now db = false ∧ KnownMetaTx op now db = false := by
  intro op now db h
  simp [KnownMetaTx, KnownMeta, KnownStoreErr, h]

/-- at the `DB` level the third class is empty: the wrapper rolls a failing store back -/
theorem known_db_is_k1_k2 : ∀ (op : Op) (now : Int) (db : DB),
    KnownMetaTx op now db = (KnownMeta op now db || KnownStoreErr op now db) := fun _ _ _ => rfl

/-! ### 2. readable corollaries -/

/-- Reads, refusals and nothing-to-do outcomes (C12): every key row — version, mtime, etime,
type, len — is the very same. -/
theorem reads_and_refusals_keep_metadata : ∀ (op : Op) (now : Int) (db : DB),
    Spec.traceless false op (Model.dbRun op now db).out = true →
    (Model.dbRun op now db).db = db ∧
    ∀ i k, rowAt (Model.dbRun op now db).db i k = rowAt db i k := by
  intro op now db ht
  have hsame : (Model.dbRun op now db).db = db := by
    simp only [Spec.traceless, Bool.or_eq_true, Bool.and_eq_true, Bool.not_false, true_and] at ht
    rcases ht with (hr | hn) | he
    · exact C12.read_notrace_db op now db hr
    · exact C12.nothing_to_do_notrace_db op now db hn
    · cases hout : (Model.dbRun op now db).out with
      | ok v => rw [hout] at he; cases he
      | error e => exact C12.refusal_notrace_db op now db ⟨e, hout⟩
  exact ⟨hsame, fun i k => by rw [hsame]⟩

/-- the same inside a caller-managed transaction (there a refusal may leave partial effects, so
only reads and nothing-to-do outcomes are traceless) -/
theorem reads_and_refusals_keep_metadata_tx : ∀ (op : Op) (now : Int) (db : DB),
    Spec.traceless true op (Model.tx true op now db).out = true →
    (Model.tx true op now db).db = db := by
  intro op now db ht
  simp only [Spec.traceless, Bool.or_eq_true, Bool.and_eq_true, Bool.not_true, false_and,
    or_false, Bool.false_eq_true] at ht
  rcases ht with hr | hn
  · exact C12.read_notrace true op now db hr
  · exact C12.nothing_to_do_notrace_tx op now db hn

/-- The key row with id `i` and name `k` before and after ONE call that is not a store into `k`:
no classifier and no clock assumption. All the following corollaries are projections of this. -/
theorem one_step : ∀ (op : Op) (now : Int) (db : DB) (i : Int) (k : Bytes) (r r' : KeyRow),
    db.Inv → Spec.storeDest op ≠ some k → rowAt db i k = some r →
    rowAt (Model.dbRun op now db).db i k = some r' →
    ContRowM now db (Model.dbRun op now db).db r r' :=
  fun _ _ _ _ _ _ _ h hs hr hr' => step_cont h hs hr hr'

theorem one_step_tx : ∀ (op : Op) (now : Int) (db : DB) (i : Int) (k : Bytes) (r r' : KeyRow),
    db.Inv → Spec.storeDest op ≠ some k → rowAt db i k = some r →
    rowAt (Model.tx true op now db).db i k = some r' →
    ContRowM now db (Model.tx true op now db).db r r' :=
  fun _ _ _ _ _ _ _ h hs hr hr' => step_cont_tx h hs hr hr'

/-- If the value or the expiry of a surviving key row changed, its version strictly increased. -/
theorem version_strictly_increases_on_change :
    ∀ (op : Op) (now : Int) (db : DB) (i : Int) (k : Bytes) (r r' : KeyRow),
    db.Inv → Spec.storeDest op ≠ some k → rowAt db i k = some r →
    rowAt (Model.dbRun op now db).db i k = some r' →
    (Spec.absVal db r ≠ Spec.absVal (Model.dbRun op now db).db r' ∨ r.etime ≠ r'.etime) →
    r.version < r'.version :=
  fun _ _ _ _ _ _ _ h hs hr hr' hch => (step_cont h hs hr hr').2.2.2.1 hch

/-- … and it never decreases, nor does the type change. -/
theorem version_never_decreases :
    ∀ (op : Op) (now : Int) (db : DB) (i : Int) (k : Bytes) (r r' : KeyRow),
    db.Inv → Spec.storeDest op ≠ some k → rowAt db i k = some r →
    rowAt (Model.dbRun op now db).db i k = some r' → r.version ≤ r'.version ∧ r.ty = r'.ty :=
  fun _ _ _ _ _ _ _ h hs hr hr' => ⟨(step_cont h hs hr hr').1, (step_cont h hs hr hr').2.2.1⟩

/-- A change of the value refreshes the modification time. -/
theorem mtime_refreshed_on_value_change :
    ∀ (op : Op) (now : Int) (db : DB) (i : Int) (k : Bytes) (r r' : KeyRow),
    db.Inv → Spec.storeDest op ≠ some k → rowAt db i k = some r →
    rowAt (Model.dbRun op now db).db i k = some r' →
    Spec.absVal db r ≠ Spec.absVal (Model.dbRun op now db).db r' → r'.mtime = now :=
  fun _ _ _ _ _ _ _ h hs hr hr' hch => (step_cont h hs hr hr').2.2.2.2 hch

/-- The modification time never runs backwards — provided the clock does not. -/
theorem mtime_never_backwards :
    ∀ (op : Op) (now : Int) (db : DB) (i : Int) (k : Bytes) (r r' : KeyRow),
    db.Inv → MonoClock now db → Spec.storeDest op ≠ some k → rowAt db i k = some r →
    rowAt (Model.dbRun op now db).db i k = some r' → r.mtime ≤ r'.mtime :=
  fun _ _ _ _ _ _ _ h hm hs hr hr' => (step_cont h hs hr hr').2.1 hm

/-- … and the clock assumption is inherited by the post-state, for the same clock value (hence
for any later one). -/
theorem clock_assumption_preserved : ∀ (op : Op) (now : Int) (db : DB), db.Inv →
    MonoClock now db → MonoClock now (Model.dbRun op now db).db :=
  fun op now db h hm => db_mono op now db h hm

/-- `Expire` / `ExpireAt` / `Persist` on a live key: its row gets version + 1 and the new expiry
— nothing else: not the modification time, not the type, not the name. (Every other row is
covered by `one_step`: for these three methods the value part of `ContRowM` is vacuous.) -/
theorem expire_bumps_version_not_mtime : ∀ (k : Bytes) (now : Int) (db : DB) (r : KeyRow),
    db.Inv → db.liveKey k now = some r →
    (∀ t, rowAt (Model.dbRun (.keyExpireAt k t) now db).db r.id k =
      some { r with version := r.version + 1, etime := some t }) ∧
    (∀ ttl, rowAt (Model.dbRun (.keyExpire k ttl) now db).db r.id k =
      some { r with version := r.version + 1, etime := some (now + ttl) }) ∧
    rowAt (Model.dbRun (.keyPersist k) now db).db r.id k =
      some { r with version := r.version + 1, etime := none } := by
  intro k now db r h hl
  exact ⟨fun t => keyExpireAt_row (WF.of_inv h) hl t,
    fun ttl => keyExpireAt_row (WF.of_inv h) hl (now + ttl), keyPersist_row (WF.of_inv h) hl⟩

/-- … and no other row's version, mtime, value or type moves (their `etime` is theirs too). -/
theorem expire_touches_one_row : ∀ (op : Op) (now : Int) (db : DB),
    (match op with | .keyExpire .. | .keyExpireAt .. | .keyPersist _ => True | _ => False) →
    ∀ r' ∈ (Model.dbRun op now db).db.keys, ∃ r ∈ db.keys,
      r' = r ∨ (r' = { r with version := r'.version, etime := r'.etime } ∧ r.version < r'.version) := by
  intro op now db hop
  cases op <;> first | (cases hop; done) | skip
  case keyExpire k ttl => exact (keyExpire_step (db := db) k ttl now).keys
  case keyExpireAt k t => exact (keyExpireAt_step (db := db) k t now).keys
  case keyPersist k => exact (keyPersist_step (db := db) k now).keys

/-- A successful store (with a non-empty source list) starts a new history for its destination:
version 1, modification time of the call — whatever the destination was before (absent, or a
live key of the family with any version). The one exception is the D05 situation, a stored row
whose expiry has passed (`staleKey`): see `store_onto_stale_continues`. -/
theorem store_starts_new_history : ∀ (op : Op) (d : Bytes) (now : Int) (db : DB), db.Inv →
    Spec.storeDest op = some d → emptyStore op = false → Spec.staleKey db now d = false →
    Spec.isErr (Model.dbRun op now db).out = false →
    ∀ r' ∈ (Model.dbRun op now db).db.keys, r'.key = d → r'.version = 1 ∧ r'.mtime = now := by
  intro op d now db h hd hne hst hE r' hr' hk
  obtain ⟨hmt, hcase⟩ := store_dest_row (WF.of_inv h) hd hne hE r' hr' hk
  cases hcase with
  | new _ hv => exact ⟨hv, hmt⟩
  | stale r hr hkr _ _ _ hlive =>
    exfalso
    have hf : db.findKey d = some r := hkr ▸ findKey_of_mem (WF.of_inv h) hr
    simp [Spec.staleKey, hf, hlive] at hst
  | live r0 _ hsm _ => exact ⟨hsm.version, hmt⟩

/-- The judgement the driver applies to every observed store (`Spec.storeHistory`, verdict `H`) is
never violated by the model of the code: on the handle, for every operation, state and clock. -/
theorem store_history_judgement : ∀ (op : Op) (now : Int) (db : DB), db.Inv →
    Spec.storeHistory op now db (Model.dbRun op now db).db (Model.dbRun op now db).out ≠ some false := by
  intro op now db h
  unfold Spec.storeHistory
  cases hd : Spec.storeDest op with
  | none => simp
  | some d =>
    dsimp only
    by_cases hE : Spec.isErr (Model.dbRun op now db).out = true
    · simp [hE]
    by_cases hne : Spec.emptySources op = true
    · simp [hne]
    by_cases hst : Spec.staleKey db now d = true
    · simp [hst]
    have hE' : Spec.isErr (Model.dbRun op now db).out = false := by simpa using hE
    have hne' : emptyStore op = false := by
      have : emptyStore op = Spec.emptySources op := by cases op <;> rfl
      rw [this]; simpa using hne
    have hst' : Spec.staleKey db now d = false := by simpa using hst
    have hall := store_starts_new_history op d now db h hd hne' hst' hE'
    simp only [hE', hne, hst', Bool.false_eq_true, Bool.or_self, if_false]
    intro hc
    injection hc with hc
    have : ((Model.dbRun op now db).db.keys.all
        (fun r' => r'.key != d || (r'.version == 1 && r'.mtime == now))) = true := by
      rw [List.all_eq_true]
      intro r' hr'
      by_cases hk : r'.key = d
      · obtain ⟨hv, hm⟩ := hall r' hr' hk
        simp [hv, hm]
      · simp [hk]
    rw [this] at hc
    cases hc

/-- In the D05 situation the destination row continues: version + 1 (and mtime = now). -/
theorem store_onto_stale_continues : ∀ (op : Op) (d : Bytes) (now : Int) (db : DB) (r : KeyRow),
    db.Inv → Spec.storeDest op = some d → emptyStore op = false → db.findKey d = some r →
    r.live now = false → Spec.isErr (Model.dbRun op now db).out = false →
    ∀ r' ∈ (Model.dbRun op now db).db.keys, r'.key = d →
      r'.version = r.version + 1 ∧ r'.mtime = now ∧ r'.id = r.id := by
  intro op d now db r h hd hne hf hlive hE r' hr' hk
  have hw := WF.of_inv h
  obtain ⟨hrm, hrk⟩ := findKey_some hf
  obtain ⟨hmt, hcase⟩ := store_dest_row hw hd hne hE r' hr' hk
  cases hcase with
  | new hfree _ => exact absurd hrk (hfree r hrm).1
  | stale r2 hr2 hkr hid _ hv _ =>
    have : r2 = r := eq_of_key_eq hw.uKey hr2 hrm (hkr.trans hrk.symm)
    subst this
    exact ⟨hv, hmt, hid⟩
  | live r0 hl _ _ =>
    exfalso
    obtain ⟨hr0, hk0, _⟩ := liveKeyT_some hl
    have : r0 = r := eq_of_key_eq hw.uKey hr0 hrm (hk0.trans hrk.symm)
    subst this
    unfold DB.liveKeyT at hl
    have := List.find?_some hl
    simp [hlive] at this

/-- A key that is deleted and created again starts a new history: after `Delete` of `k`, any
method that creates `k` with one key upsert (`createKey`) leaves `k` with version 1 and the
modification time of the call — even when the new row reuses the id of the deleted one
(`recreated_reuses_id`). (`SetMany`-style methods run one upsert per item and may end above 1.) -/
theorem recreated_key_starts_at_version_one :
    ∀ (ks : List Bytes) (k : Bytes) (now now' : Int) (db : DB) (op : Op),
    db.Inv → db.fk = true → k ∈ ks → Spec.staleKey db now k = false → createKey op = some k →
    let db1 := (Model.dbRun (.keyDelete ks) now db).db
    ∀ r' ∈ (Model.dbRun op now' db1).db.keys, r'.key = k → r'.version = 1 ∧ r'.mtime = now' := by
  intro ks k now now' db op h hfk hk hst hc
  have hw := WF.of_inv h
  have hl : (∃ r0, db.liveKey k now = some r0) ∨ db.findKey k = none := by
    cases hf : db.findKey k with
    | none => exact .inr rfl
    | some r =>
      left
      obtain ⟨hrm, hrk⟩ := findKey_some hf
      have hlive : r.live now = true := by simpa [Spec.staleKey, hf] using hst
      cases hlk : db.liveKey k now with
      | some r0 => exact ⟨r0, rfl⟩
      | none =>
        unfold DB.liveKey at hlk
        have := List.find?_eq_none.1 hlk r hrm
        simp [hrk, hlive] at this
  have hw1 : WF (Model.dbRun (.keyDelete ks) now db).db :=
    WF.of_inv (C11.inv_step_db (.keyDelete ks) now db h hfk)
  exact create_fresh_db hw1 now' hc (keyDelete_absent hw hk hl)

/-- A successful rename carries the row over: same id, type, expiry and cached length; the new
name; version + 1; the modification time of the call. -/
theorem rename_carries_version : ∀ (k nk : Bytes) (now : Int) (db : DB) (r : KeyRow),
    db.Inv → db.liveKey k now = some r → k ≠ nk →
    Spec.isErr (Model.dbRun (.keyRename k nk) now db).out = false →
    rowAt (Model.dbRun (.keyRename k nk) now db).db r.id nk =
      some { r with key := nk, version := r.version + 1, mtime := now } :=
  fun _ _ _ _ _ h hl hne hok => keyRename_row (WF.of_inv h) hl hne hok

/-! ### 3. histories -/

/-- Along any history of `DB`-level calls in which the key row `(i, k)` survives every step and
no call is a store into `k`: its version never decreases, its type never changes, and if its
value or expiry changed at some step the version is strictly larger at the end. No classifier,
no clock assumption. -/
theorem version_monotone_along_history : ∀ (ops : List (Op × Int)) (i : Int) (k : Bytes) (db : DB),
    db.Inv → db.fk = true → Survives i k ops db →
    ∀ r r', rowAt db i k = some r → rowAt (C11.run ops db) i k = some r' →
      r.version ≤ r'.version ∧ r.ty = r'.ty ∧ (ChangedIn i k ops db → r.version < r'.version) :=
  fun ops i k db h hfk hs => version_history i k ops db h hfk hs

/-- With clocks that do not run backwards (`Clocked`: every clock of the history is at or after
every stored modification time, and the clocks are non-decreasing) the modification time of a
surviving key row never decreases. -/
theorem mtime_monotone_along_history : ∀ (ops : List (Op × Int)) (i : Int) (k : Bytes) (db : DB),
    db.Inv → db.fk = true → Clocked ops db → Survives i k ops db →
    ∀ r r', rowAt db i k = some r → rowAt (C11.run ops db) i k = some r' → r.mtime ≤ r'.mtime :=
  fun ops i k db h hfk hc hs => mtime_history i k ops db h hfk hc hs

/-! ### 4. type and expiry as reported by the key lookup -/

/-- From a refinement equation to `Truthful op now db`: the driver's judgement
`typeEtimeTruthful` never fails, the (name, type, expiry) projection of the tables after the step
is that of the specification's new state, and `Key().Get` on the post-state reports (up to the
projection `projV` onto name, type and expiry) exactly what the specification's `Get` reports on
its new state. -/
theorem truthful_of_refines {op : Op} {now : Int} {db : DB} (h : db.Inv) (hfk : db.fk = true)
    (href : Spec.abs now (Model.dbRun op now db).db =
      Spec.purge now (Spec.step op now (Spec.abs now db)).st) : Truthful op now db := by
  refine ⟨(truthful_of_abs href).1, (truthful_of_abs (inTx := false) (res := .ok .nil) href).2, fun k => ?_⟩
  have hpost := C11.inv_step_db op now db h hfk
  have := (C06.key_refines_partial (.keyGet k) now (Model.dbRun op now db).db rfl hpost rfl rfl rfl rfl).1
  rw [href] at this
  exact this

theorem type_etime_truthful_str : ∀ (op : Op) (now : Int) (db : DB),
    C01.IsStrOp op → db.Inv → db.fk = true → C01.ArgsInRange op = true →
    C01.Stale op now db = false → C01.Overflow op now db = false → Truthful op now db :=
  fun op now db hop h hfk h1 h2 h3 =>
    truthful_of_refines h hfk (C01.str_refines_partial op now db hop h h1 h2 h3).2

theorem type_etime_truthful_list : ∀ (op : Op) (now : Int) (db : DB),
    C02.IsListOp op → db.Inv → db.fk = true → C02.Stale op now db = false →
    C02.Spacious op now db = true → Truthful op now db :=
  fun op now db hop h hfk h1 h2 =>
    truthful_of_refines h hfk (C02.list_refines_partial op now db hop h h1 h2).2

theorem type_etime_truthful_set : ∀ (op : Op) (now : Int) (db : DB),
    C03.IsSetOp op → db.Inv → db.fk = true → C03.Stale op now db = false →
    C03.DestIsSource op = false → Truthful op now db :=
  fun op now db hop h hfk h1 h2 =>
    truthful_of_refines h hfk (C03.set_refines_partial op now db hop h h1 h2).2

theorem type_etime_truthful_hash : ∀ (op : Op) (now : Int) (db : DB),
    C04.IsFamOp op → db.Inv → db.fk = true → C04.ArgsInRange op = true →
    C04.DistinctFields op = true → C04.Stale op now db = false → C04.Overflow op now db = false →
    Truthful op now db :=
  fun op now db hop h hfk h1 h2 h3 h4 =>
    truthful_of_refines h hfk (C04.hash_refines_partial op now db hop h h1 h2 h3 h4).2

theorem type_etime_truthful_zset : ∀ (op : Op) (now : Int) (db : DB),
    C05.IsZOp op → db.Inv → db.fk = true → C05.Covered op = true → C05.ArgsOk op = true →
    C05.Decided op now db = true → C05.Stale op now db = false →
    C05.DestIsSource op = false → C05.SumOrder op = false → Truthful op now db :=
  fun op now db hop h hfk h1 h2 h3 h4 h5 h6 =>
    truthful_of_refines h hfk (C05.zset_refines_partial op now db hop h h1 h2 h3 h4 h5 h6).2

theorem type_etime_truthful_key : ∀ (op : Op) (now : Int) (db : DB),
    C06.IsFamOp op → db.Inv → db.fk = true → C06.LenStale op now db = false →
    C06.EmptyName op now db = false → C06.BangClass op = false → C06.Judged op now db = true →
    Truthful op now db :=
  fun op now db hop h hfk h1 h2 h3 h4 =>
    truthful_of_refines h hfk (C06.key_refines_partial op now db hop h h1 h2 h3 h4).2

/-! ### 5. the excluded classes are real, the clock assumption is needed -/

/-- Without the clock assumption the statement is false: the row `s` carries the modification time
100, `SET s w` at clock 5 writes `mtime = 5` — "the modification time ran backwards". -/
theorem clock_is_needed : ∃ (op : Op) (now : Int) (db : DB), db.Inv ∧ Covered op = true ∧
    KnownMeta op now db = false ∧ ¬ MonoClock now db ∧
    Spec.metaOK op now db (Model.dbRun op now db).db (Model.dbRun op now db).out = false :=
  ⟨.strSet [115] [119], 5, aheadDb, by decide⟩

/-- K1: `SDIFFSTORE t` with no source succeeds and changes nothing, so the destination row `t`
(mtime 3) does not carry the modification time of the call. -/
theorem k1_breaks : sample.Inv ∧ MonoClock 10 sample ∧
    KnownMeta (.setDiffStore [116] []) 10 sample = true ∧
    Spec.metaOK (.setDiffStore [116] []) 10 sample (Model.dbRun (.setDiffStore [116] []) 10 sample).db
      (Model.dbRun (.setDiffStore [116] []) 10 sample).out = false ∧
    Spec.traceless false (.setDiffStore [116] []) (Model.dbRun (.setDiffStore [116] []) 10 sample).out = true := by
  decide

/-- K2: a store onto an expired-but-stored row with version −1 leaves it with version 0 < 1. -/
theorem k2_breaks : staleNeg.Inv ∧ MonoClock 10 staleNeg ∧
    KnownMeta (.setUnionStore [116] [[117]]) 10 staleNeg = true ∧
    Spec.metaOK (.setUnionStore [116] [[117]]) 10 staleNeg
      (Model.dbRun (.setUnionStore [116] [[117]]) 10 staleNeg).db
      (Model.dbRun (.setUnionStore [116] [[117]]) 10 staleNeg).out = false := by
  decide

/-- K3: `ZUNIONSTORE z a b` where `a` and `b` give `m` the scores `+inf` and `-inf` fails with
`NOT NULL` (the sum is NaN) after the live destination `z` (version 2) has been reset and upserted
to version 1: inside a transaction that goes on to commit the version ran backwards. On the
handle the wrapper rolls back and the judgement holds. -/
theorem k3_breaks : infDb.Inv ∧ MonoClock 10 infDb ∧
    KnownMetaTx (.zUnionStore [122] [[97], [98]] .sum) 10 infDb = true ∧
    KnownMeta (.zUnionStore [122] [[97], [98]] .sum) 10 infDb = false ∧
    Spec.metaOK (.zUnionStore [122] [[97], [98]] .sum) 10 infDb
      (Model.tx true (.zUnionStore [122] [[97], [98]] .sum) 10 infDb).db
      (Model.tx true (.zUnionStore [122] [[97], [98]] .sum) 10 infDb).out = false ∧
    Spec.metaOK (.zUnionStore [122] [[97], [98]] .sum) 10 infDb
      (Model.dbRun (.zUnionStore [122] [[97], [98]] .sum) 10 infDb).db
      (Model.dbRun (.zUnionStore [122] [[97], [98]] .sum) 10 infDb).out = true := by
  decide

/-- a method that runs one upsert per item may leave a created key above version 1 (allowed:
`metaOK` asks for version ≥ 1), which is why `recreated_key_starts_at_version_one` speaks about
`createKey` methods -/
theorem many_may_exceed_one :
    ((Model.dbRun (.hashSetMany [104] [([102], [49]), ([103], [50])]) 10 sample).db.keys.map
      (fun r => (r.key, r.version))).contains ([104], 2) = true := by decide

/-! ### 6. non-vacuity: the hypotheses are satisfiable and the steps really write -/

example : sample.Inv ∧ sample.fk = true ∧ MonoClock 10 sample := by decide

/-- `SET s w` on the string key with a TTL: the theorem applies, the row goes 3 → 4, mtime 5 → 10 -/
example : Spec.metaOK (.strSet [115] [119]) 10 sample (Model.dbRun (.strSet [115] [119]) 10 sample).db
    (Model.dbRun (.strSet [115] [119]) 10 sample).out = true :=
  meta_rules_db_partial (.strSet [115] [119]) 10 sample (by decide) (by decide) rfl (by decide)
example : ((Model.dbRun (.strSet [115] [119]) 10 sample).db.keys.map (fun r => (r.id, r.version, r.mtime, r.etime))).head?
    = some (1, 4, 10, none) := by decide
/-- `RPUSH l c` on the two-element list, `SADD t y` on the set, a store onto the live set -/
example : Spec.metaOK (.listPushBack [108] [99]) 10 sample (Model.dbRun (.listPushBack [108] [99]) 10 sample).db
    (Model.dbRun (.listPushBack [108] [99]) 10 sample).out = true :=
  meta_rules_db_partial _ 10 sample (by decide) (by decide) rfl (by decide)
example : Spec.metaOK (.setAdd [116] [[121]]) 10 sample (Model.dbRun (.setAdd [116] [[121]]) 10 sample).db
    (Model.dbRun (.setAdd [116] [[121]]) 10 sample).out = true :=
  meta_rules_db_partial _ 10 sample (by decide) (by decide) rfl (by decide)
example : Spec.metaOK (.setUnionStore [116] [[116]]) 10 sample (Model.dbRun (.setUnionStore [116] [[116]]) 10 sample).db
    (Model.dbRun (.setUnionStore [116] [[116]]) 10 sample).out = true :=
  meta_rules_db_partial _ 10 sample (by decide) (by decide) rfl (by decide)
/-- inside a transaction: `RPOPLPUSH l s` pops `b`, then fails on the string destination; the
pop stays and is judged -/
example : Spec.metaOK (.listPopBackPushFront [108] [115]) 10 sample
    (Model.tx true (.listPopBackPushFront [108] [115]) 10 sample).db
    (Model.tx true (.listPopBackPushFront [108] [115]) 10 sample).out = true :=
  meta_rules_tx_partial _ 10 sample (by decide) (by decide) rfl (by decide)
example : Spec.isErr (Model.tx true (.listPopBackPushFront [108] [115]) 10 sample).out = true ∧
    (Model.tx true (.listPopBackPushFront [108] [115]) 10 sample).db ≠ sample := by decide

/-- a read and a refusal -/
example : Spec.traceless false (.strGet [115]) (Model.dbRun (.strGet [115]) 10 sample).out = true ∧
    Spec.traceless false (.strIncr [116] 1) (Model.dbRun (.strIncr [116] 1) 10 sample).out = true := by decide
example : (Model.dbRun (.strIncr [116] 1) 10 sample).db = sample :=
  (reads_and_refusals_keep_metadata _ 10 sample (by decide)).1

/-- `one_step` and its projections on the string key: value changed, expiry changed -/
example : ∃ r r', rowAt sample 1 [115] = some r ∧
    rowAt (Model.dbRun (.strSet [115] [119]) 10 sample).db 1 [115] = some r' ∧
    Spec.absVal sample r ≠ Spec.absVal (Model.dbRun (.strSet [115] [119]) 10 sample).db r' ∧
    r.etime ≠ r'.etime ∧ r.version < r'.version ∧ r'.mtime = 10 :=
  ⟨_, _, rfl, rfl, by decide, by decide, by decide, by decide⟩
example : ∀ r r', rowAt sample 1 [115] = some r →
    rowAt (Model.dbRun (.strSet [115] [119]) 10 sample).db 1 [115] = some r' → r.version < r'.version :=
  fun r r' hr hr' => version_strictly_increases_on_change (.strSet [115] [119]) 10 sample 1 [115] r r'
    (by decide) (by decide) hr hr'
    (.inr (by
      have e1 : r = _ := (Option.some.inj hr).symm
      have e2 : r' = _ := (Option.some.inj hr').symm
      subst e1; subst e2; decide))

/-- `EXPIREAT s 200`, `PERSIST s` -/
example : rowAt (Model.dbRun (.keyExpireAt [115] 200) 10 sample).db 1 [115] =
    some { id := 1, key := [115], ty := TString, version := 4, etime := some 200, mtime := 5, len := none } :=
  (expire_bumps_version_not_mtime [115] 10 sample _ (by decide) rfl).1 200
example : rowAt (Model.dbRun (.keyPersist [115]) 10 sample).db 1 [115] =
    some { id := 1, key := [115], ty := TString, version := 4, etime := none, mtime := 5, len := none } :=
  (expire_bumps_version_not_mtime [115] 10 sample _ (by decide) rfl).2.2

/-- a store onto the live set `t` (version 7): version 1; onto the expired `t` (version 4): 5 -/
example : ∀ r' ∈ (Model.dbRun (.setUnionStore [116] [[116]]) 10 sample).db.keys, r'.key = [116] →
    r'.version = 1 ∧ r'.mtime = 10 :=
  store_starts_new_history _ [116] 10 sample (by decide) rfl rfl (by decide) (by decide)
example : ((Model.dbRun (.setUnionStore [116] [[116]]) 10 sample).db.keys.map (fun r => (r.key, r.version))).contains
    ([116], 1) = true := by decide
example : ∀ r' ∈ (Model.dbRun (.setUnionStore [116] [[117]]) 10 staleDest).db.keys, r'.key = [116] →
    r'.version = 4 + 1 ∧ r'.mtime = 10 ∧ r'.id = 1 :=
  store_onto_stale_continues _ [116] 10 staleDest _ (by decide) rfl rfl rfl (by decide) (by decide)

/-- `DEL t` then `SADD t y`: version 1 although the new row reuses the id 3 -/
example : ∀ r' ∈ (Model.dbRun (.setAdd [116] [[121]]) 11 (Model.dbRun (.keyDelete [[116]]) 10 sample).db).db.keys,
    r'.key = [116] → r'.version = 1 ∧ r'.mtime = 11 :=
  recreated_key_starts_at_version_one [[116]] [116] 10 11 sample (.setAdd [116] [[121]]) (by decide) rfl
    (by decide) (by decide) rfl
theorem recreated_reuses_id :
    ((Model.dbRun (.setAdd [116] [[121]]) 11 (Model.dbRun (.keyDelete [[116]]) 10 sample).db).db.keys.map
      (fun r => (r.id, r.key, r.version))).contains (3, [116], 1) = true ∧
    (sample.keys.map (fun r => (r.id, r.key, r.version))).contains (3, [116], 7) = true := by decide

/-- `RENAME s x` -/
example : rowAt (Model.dbRun (.keyRename [115] [120]) 10 sample).db 1 [120] =
    some { id := 1, key := [120], ty := TString, version := 4, etime := some 100, mtime := 10, len := none } :=
  rename_carries_version [115] [120] 10 sample _ (by decide) rfl (by decide) (by decide)

/-- a history: `SET s w` at 10, `EXPIREAT s 200` at 11, `GET s` at 12, `RPUSH l c` at 12 -/
example : Survives 1 [115] history sample ∧ Clocked history sample := by decide
example : ChangedIn 1 [115] history sample := .inl ⟨_, _, rfl, rfl, .inr (by decide)⟩
example : ∀ r r', rowAt sample 1 [115] = some r → rowAt (C11.run history sample) 1 [115] = some r' →
    r.version < r'.version ∧ r.mtime ≤ r'.mtime :=
  fun r r' hr hr' =>
    ⟨(version_monotone_along_history history 1 [115] sample (by decide) rfl (by decide) r r' hr hr').2.2
      (.inl ⟨_, _, rfl, rfl, .inr (by decide)⟩),
     mtime_monotone_along_history history 1 [115] sample (by decide) rfl (by decide) (by decide) r r' hr hr'⟩
example : (rowAt (C11.run history sample) 1 [115]).map (fun r => (r.version, r.mtime, r.etime)) =
    some (5, 10, some 200) := by decide

/-- the key lookup after `SET s w` with a TTL, after `SADD`, after `EXPIRE` -/
example : Truthful (.strSetExpires [115] [119] 50) 10 sample :=
  type_etime_truthful_str _ 10 sample (by decide) (by decide) rfl (by decide) (by decide) (by decide)
example : Truthful (.setAdd [116] [[121]]) 10 sample :=
  type_etime_truthful_set _ 10 sample (by decide) (by decide) rfl (by decide) (by decide)
example : Truthful (.keyExpire [115] 7) 10 sample :=
  type_etime_truthful_key _ 10 sample (by decide) (by decide) rfl (by decide) (by decide) (by decide) (by decide)

end Redka.Props.C19
