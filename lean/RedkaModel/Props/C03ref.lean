/-
  C03 — sets behave like mathematical sets (refinement proof).

  "For every sequence of set operations each key holds exactly the members a mathematical set would
  hold: add and remove report how many members actually changed, membership, cardinality and
  enumeration agree with one another, and union, intersection and difference return exactly the
  mathematical result for any list of keys, including repeated keys and keys that are missing or
  hold another type. The storing variants leave the destination holding exactly that result even
  when the destination is also one of the sources, and move and pop transfer or remove exactly one
  existing member."

  What is proved here. `Model.dbRun` is the statement-level model of the `DB`-level methods of
  `internal/rset` over the six tables; `Spec.step` is the mathematical set semantics on the
  abstract keyspace; `Spec.abs now db` is the keyspace a table state stands for at clock value
  `now`. `set_refines_partial` says that one call of any set operation (all fourteen with a
  specification; `Scan` has none, `Spec.step` answers `skip`) on any table state satisfying the
  structural invariant C11 (`DB.Inv`), with any arguments and any clock value, returns what the
  mathematical semantics returns and leaves tables that stand for exactly the new keyspace —
  outside two narrow, decidable classes of inputs on which the real code (and therefore the
  model) is known to deviate:

    * `Stale` (D05): the operation writes to a name whose stored key row has expired but has not
      been cleaned up yet;
    * `DestIsSource` (D08): a storing variant whose destination is also one of its sources.

  Each class is exactly an entry of the driver's catalogue (`classifiers_are_the_catalogue`) and is
  shown to be real by kernel-checked witnesses (`stale_add_deviates`, `stale_othertype_deviates`,
  `stale_store_unique_deviates`, `dest_is_source_deviates`), so the full-strength statement — in
  particular the property's clause "even when the destination is also one of the sources" — is
  FALSE of the code (`full_strength_is_false`).

  The former third class (D07, an intersection over a key list that names a key twice) is gone:
  the code now compares `count(distinct kid)` with the number of DISTINCT requested keys, and the
  clause "including repeated keys" is proved for intersection as well — `set_refines_partial` has
  no hypothesis on the key list, `inter_is_inter` and `interstore_holds_result` hold for any
  non-empty key list, and the former counterexamples now agree with the specification
  (`repeated_inter_now_agrees`, `repeated_interstore_now_agrees`).

  `set_seq_refines` lifts the single step to any sequence of set operations at non-decreasing clock
  values; it rests on `set_preserves_wf` (every set operation keeps `SetWF`, unconditionally).
  The clauses of the property are restated one by one below (`reads_agree`, `add_reports_new`,
  `remove_reports_removed`, `missing_reads_empty`, `union_is_union`, `inter_is_inter`,
  `diff_is_diff`, `store_holds_result`, `pop_removes_one`, `move_transfers_one`).

  Results are compared with `=` on `Out` (`Spec.outEq` is built from `partial def`s and is opaque to
  the kernel); set results never contain key rows, so `=` is the stronger statement.
  For `Pop` and `Random` the oracle argument is the element the random choice produced; when it is
  absent or not a member the specification does not decide (`skip`), and the model answers the same
  `outOfDomain` marker, so the theorem covers these cases too (vacuously for the real code).

  Only property theorems and non-vacuity examples live here; the lemmas are in
  `RedkaModel/Proofs/SetLib.lean`, `SetRef.lean`, `SetAlg.lean` and `SetCor.lean`.
-/
import RedkaModel.Proofs.SetCor

namespace Redka.Props.C03

open Redka Redka.Model Redka.Spec Redka.Model.SetRef

/-! ### the family and the classifiers of known deviations -/

/-- the operations of `DB.Set()` that have a specification (`Scan` has none) -/
def isSetOp : Op → Bool
  | .setAdd .. | .setDelete .. | .setDiff _ | .setDiffStore .. | .setExists .. | .setInter _
  | .setInterStore .. | .setItems _ | .setLen _ | .setMove .. | .setPop .. | .setRandom ..
  | .setUnion _ | .setUnionStore .. => true
  | _ => false

def IsSetOp (op : Op) : Prop := isSetOp op = true

instance (op : Op) : Decidable (IsSetOp op) := inferInstanceAs (Decidable (_ = true))

/-- The constructors the refinement theorem covers: every set operation with a specification.
Nothing is left out. -/
def Covered : Op → Bool := isSetOp

/-- D05, exactly as in `Spec.known`: some name the operation writes to is held by a stored row
whose expiry has passed -/
def Stale (op : Op) (now : Int) (db : DB) : Bool :=
  (Spec.writeKeys op).any (Spec.staleKey db now)

/-- D08, exactly as in `Spec.known`: a storing variant whose destination is one of the sources -/
def DestIsSource : Op → Bool
  | .setDiffStore d ks | .setInterStore d ks | .setUnionStore d ks => ks.contains d
  | _ => false

/-- The two classifiers are the entries D05 and D08 of the catalogue of known findings that the
driver consults (`Spec.known`), for every set operation: the catalogue lists nothing else for this
family. -/
theorem classifiers_are_the_catalogue : ∀ (inTx : Bool) (op : Op) (now : Int) (db : DB), IsSetOp op →
    Spec.known inTx op now db
      = (if Stale op now db then ["D05"] else []) ++ (if DestIsSource op then ["D08"] else []) := by
  intro inTx op now db hop
  cases op <;> first | rfl | (cases hop; done)

/-! ### the refinement theorem -/

private theorem fin {now : Int} {m : Res} {s : SRes} (hw : SetWF m.db) (h : RefS now m s) :
    m.out = s.out ∧ Spec.abs now m.db = Spec.purge now s.st :=
  h.refines hw.names

/-- Every set operation keeps `SetWF` (for every state and argument, deviation classes included). -/
theorem set_preserves_wf : ∀ (op : Op) (now : Int) (db : DB), IsSetOp op → SetWF db →
    SetWF (Model.dbRun op now db).db := by
  intro op now db hop hw
  cases op <;> first | (cases hop; done) | skip
  case setAdd k es => exact update_pres hw (setAdd_wf hw k es now)
  case setDelete k es => exact update_pres hw (setDelete_wf hw k es now)
  case setDiff ks => exact hw
  case setDiffStore d ks => exact update_pres hw (setStore_wf hw d ks now _)
  case setExists k e => show SetWF (Model.setExists db k e now).db; rw [setExists_eq]; exact hw
  case setInter ks => show SetWF (Model.setInter db ks now).db; unfold Model.setInter; split <;> exact hw
  case setInterStore d ks => exact update_pres hw (setStore_wf hw d ks now _)
  case setItems k => show SetWF (Model.setItems db k now).db; rw [setItems_eq]; exact hw
  case setLen k => show SetWF (Model.setLen db k now).db; rw [setLen_eq hw]; exact hw
  case setMove s d e => exact update_pres hw (setMove_wf hw s d e now)
  case setPop k o => exact update_pres hw (setPop_wf hw k o now)
  case setRandom k o => show SetWF (Model.setRandom db k o now).db; rw [setRandom_db]; exact hw
  case setUnion ks => show SetWF (Model.setUnion db ks now).db; unfold Model.setUnion; split <;> exact hw
  case setUnionStore d ks => exact update_pres hw (setStore_wf hw d ks now _)

/-- … in particular the part `DB.WF` shared with the other families. -/
theorem set_preserves_dbwf : ∀ (op : Op) (now : Int) (db : DB), IsSetOp op → SetWF db →
    (Model.dbRun op now db).db.WF :=
  fun op now db hop hw => (set_preserves_wf op now db hop hw).wf

/-- The refinement under `SetWF`, the consequence of the invariant that the proof uses (`DB.WF`,
uniqueness of `(kid, elem)`, no orphan `rset` rows, cached lengths) and that every set operation
preserves (`set_preserves_wf`). -/
theorem set_refines_wf : ∀ (op : Op) (now : Int) (db : DB),
    IsSetOp op → SetWF db → Stale op now db = false → DestIsSource op = false →
    let r := Model.dbRun op now db
    r.out = (Spec.step op now (Spec.abs now db)).out ∧
      Spec.abs now r.db = Spec.purge now (Spec.step op now (Spec.abs now db)).st := by
  intro op now db hop hw hst hds
  show (Model.dbRun op now db).out = (Spec.step op now (Spec.abs now db)).out ∧
    Spec.abs now (Model.dbRun op now db).db
      = Spec.purge now (Spec.step op now (Spec.abs now db)).st
  have hw' := set_preserves_wf op now db hop hw
  cases op <;> first | (cases hop; done) | skip
  case setAdd k es =>
    exact fin hw' (run_setAdd hw now (by simpa [Stale, writeKeys] using hst) es)
  case setDelete k es => exact fin hw' (run_setDelete hw now k es)
  case setDiff ks => exact fin hw' (run_setDiff hw now ks)
  case setDiffStore d ks =>
    exact fin hw' (run_setDiffStore hw now (by simpa [Stale, writeKeys] using hst) hds)
  case setExists k e => exact fin hw' (run_setExists hw now k e)
  case setInter ks =>
    exact fin hw' (run_setInter hw now ks)
  case setInterStore d ks =>
    exact fin hw' (run_setInterStore hw now (by simpa [Stale, writeKeys] using hst) hds)
  case setItems k => exact fin hw' (run_setItems hw now k)
  case setLen k => exact fin hw' (run_setLen hw now k)
  case setMove s d e =>
    exact fin hw' (run_setMove hw now (by simpa [Stale, writeKeys] using hst) s e)
  case setPop k o => exact fin hw' (run_setPop hw now k o)
  case setRandom k o => exact fin hw' (run_setRandom hw now k o)
  case setUnion ks => exact fin hw' (run_setUnion hw now ks)
  case setUnionStore d ks =>
    exact fin hw' (run_setUnionStore hw now (by simpa [Stale, writeKeys] using hst) hds)

/-- **C03, partial refinement.** One call of any set operation, on any table state satisfying the
structural invariant, for any arguments and any clock value, outside the classes `Stale` (D05)
and `DestIsSource` (D08): the model returns exactly what the mathematical set semantics returns,
and the tables afterwards stand for exactly the new keyspace.

All fourteen operations with a specification are covered (`Covered = isSetOp`): add, delete, the
three set algebra reads for any list of keys — repeated keys, missing keys and keys of another
type included, for intersection too —, the three storing variants, exists, items, len, move, pop
and random (the last two with the chosen element as oracle). No argument-range hypothesis is
needed: no set operation takes a Go `int`.

The full-strength statement (without the two classifiers) is FALSE of the code: see
`full_strength_is_false`. -/
theorem set_refines_partial : ∀ (op : Op) (now : Int) (db : DB),
    IsSetOp op → db.Inv → Stale op now db = false → DestIsSource op = false →
    let r := Model.dbRun op now db
    r.out = (Spec.step op now (Spec.abs now db)).out ∧
      Spec.abs now r.db = Spec.purge now (Spec.step op now (Spec.abs now db)).st :=
  fun op now db hop hinv => set_refines_wf op now db hop (SetWF.of_inv hinv)

/-- `Covered` leaves nothing out: it is the whole family. -/
theorem covered_is_everything : ∀ op, IsSetOp op → Covered op = true := fun _ h => h

/-! ### sequences of operations -/

/-- a run of timed calls on the tables: the results, and the tables at the end -/
def runModel : List (Op × Int) → DB → List Out × DB
  | [], db => ([], db)
  | (op, now) :: rest, db =>
    let r := Model.dbRun op now db
    let t := runModel rest r.db
    (r.out :: t.1, t.2)

/-- the same run on the abstract keyspace; a key disappears when the clock reaches its expiry -/
def runSpec : List (Op × Int) → State → List Out × State
  | [], s => ([], s)
  | (op, now) :: rest, s =>
    let r := Spec.step op now (Spec.purge now s)
    let t := runSpec rest (Spec.purge now r.st)
    (r.out :: t.1, t.2)

/-- no call of the run falls into a known deviation class, judged on the tables it meets -/
def CleanRun : List (Op × Int) → DB → Prop
  | [], _ => True
  | (op, now) :: rest, db =>
    IsSetOp op ∧ Stale op now db = false ∧ DestIsSource op = false ∧
      CleanRun rest (Model.dbRun op now db).db

/-- the clock does not run backwards -/
def ClockOk : Int → List (Op × Int) → Prop
  | _, [] => True
  | t, (_, now) :: rest => t ≤ now ∧ ClockOk now rest

def lastClock : Int → List (Op × Int) → Int
  | t, [] => t
  | _, (_, now) :: rest => lastClock now rest

/-- **C03 for sequences.** Any sequence of set operations at non-decreasing clock values, started
on well-formed tables and never meeting a known deviation class: every call returns what the
mathematical semantics returns, and at the end the tables stand for exactly its keyspace. -/
theorem set_seq_refines : ∀ (tr : List (Op × Int)) (t : Int) (db : DB), SetWF db → ClockOk t tr →
    CleanRun tr db →
    (runModel tr db).1 = (runSpec tr (Spec.abs t db)).1 ∧
      Spec.abs (lastClock t tr) (runModel tr db).2 = (runSpec tr (Spec.abs t db)).2
  | [], _, _, _, _, _ => ⟨rfl, rfl⟩
  | (op, now) :: rest, t, db, hw, hc, hcl => by
    obtain ⟨hop, hst, hds, hrest⟩ := hcl
    obtain ⟨href1, href2⟩ := set_refines_wf op now db hop hw hst hds
    have ih := set_seq_refines rest now (Model.dbRun op now db).db
      (set_preserves_wf op now db hop hw) hc.2 hrest
    simp only [runModel, runSpec, lastClock]
    rw [← abs_mono hw.names hc.1, ← href1, ← href2]
    exact ⟨by rw [ih.1], ih.2⟩

/-- … in particular from any state satisfying the C11 invariant. -/
theorem set_seq_refines_inv : ∀ (tr : List (Op × Int)) (t : Int) (db : DB), db.Inv → ClockOk t tr →
    CleanRun tr db →
    (runModel tr db).1 = (runSpec tr (Spec.abs t db)).1 ∧
      Spec.abs (lastClock t tr) (runModel tr db).2 = (runSpec tr (Spec.abs t db)).2 :=
  fun tr t db hinv => set_seq_refines tr t db (SetWF.of_inv hinv)

/-! ### the property, clause by clause

`Spec.setAt s k` is the set of members the keyspace `s` holds under `k` (empty when the key is
missing or of another type); it is a duplicate-free list, so its length is a cardinality. -/

/-- "membership, cardinality and enumeration agree with one another": for every key, state and
clock value, `Items` enumerates a duplicate-free list, `Len` is its length and `Exists` is
membership in it — and that list is the set the tables stand for. -/
theorem reads_agree : ∀ (k : Bytes) (now : Int) (db : DB), db.Inv →
    let m := Spec.setAt (Spec.abs now db) k
    m.Nodup ∧
    (Model.dbRun (.setItems k) now db).out = .ok (.list (m.map .bytes)) ∧
    (Model.dbRun (.setLen k) now db).out = .ok (.int m.length) ∧
    ∀ e, (Model.dbRun (.setExists k e) now db).out = .ok (.bool (m.contains e)) := by
  intro k now db hinv
  have hw := SetWF.of_inv hinv
  exact ⟨(ssorted_setAt_abs hw now k).nodup, (run_setItems hw now k).1, (run_setLen hw now k).1,
    fun e => (run_setExists hw now k e).1⟩

/-- "keys that are missing or hold another type" read as the empty set. -/
theorem missing_reads_empty : ∀ (k : Bytes) (now : Int) (db : DB), db.Inv →
    (∀ m et, Spec.get (Spec.abs now db) k ≠ some ⟨.set m, et⟩) →
    (Model.dbRun (.setItems k) now db).out = .ok (.list []) ∧
    (Model.dbRun (.setLen k) now db).out = .ok (.int 0) ∧
    ∀ e, (Model.dbRun (.setExists k e) now db).out = .ok (.bool false) := by
  intro k now db hinv hne
  have hm : Spec.setAt (Spec.abs now db) k = [] := by
    unfold Spec.setAt
    split
    · rename_i m et h; exact absurd h (hne m et)
    · rfl
  have h := reads_agree k now db hinv
  simp only [hm] at h
  exact ⟨h.2.1, h.2.2.1, h.2.2.2⟩

/-- "add … report[s] how many members actually changed": on a name that is free or holds a set
(and is not a stale leftover, D05), `Add` reports the growth of the cardinality, and afterwards
the key holds exactly the old members and the given ones. -/
theorem add_reports_new : ∀ (k : Bytes) (es : List Bytes) (now : Int) (db : DB), db.Inv →
    Spec.staleKey db now k = false → FreeOrSet (Spec.abs now db) k →
    let before := Spec.setAt (Spec.abs now db) k
    let r := Model.dbRun (.setAdd k es) now db
    let after := Spec.setAt (Spec.abs now r.db) k
    r.out = .ok (.int ((after.length : Int) - before.length)) ∧ after.Nodup ∧
      ∀ x, x ∈ after ↔ x ∈ before ∨ x ∈ es := by
  intro k es now db hinv hns hno before r after
  have hw := SetWF.of_inv hinv
  have h := run_setAdd hw now hns es
  have hs := spec_setAdd hno es
  have hafter : after = sunion before es := by
    show Spec.setAt (Spec.abs now r.db) k = _
    rw [h.2]; exact hs.2
  refine ⟨?_, ?_, ?_⟩
  · rw [hafter]; exact h.1.trans hs.1
  · rw [hafter]; exact (SSorted.sunion es (ssorted_setAt_abs hw now k)).nodup
  · intro x; rw [hafter, mem_sunion]

/-- "…and remove": `Delete` reports the loss of cardinality, and afterwards the key holds exactly
the old members that were not listed. No side condition: this holds for every state. -/
theorem remove_reports_removed : ∀ (k : Bytes) (es : List Bytes) (now : Int) (db : DB), db.Inv →
    let before := Spec.setAt (Spec.abs now db) k
    let r := Model.dbRun (.setDelete k es) now db
    let after := Spec.setAt (Spec.abs now r.db) k
    r.out = .ok (.int ((before.length : Int) - after.length)) ∧
      ∀ x, x ∈ after ↔ x ∈ before ∧ x ∉ es := by
  intro k es now db hinv before r after
  have hw := SetWF.of_inv hinv
  have h := run_setDelete hw now k es
  have hs := spec_setDelete (Spec.abs now db) k es
  have hafter : after = sdiff before es := by
    show Spec.setAt (Spec.abs now r.db) k = _
    rw [h.2]; exact hs.2
  refine ⟨?_, ?_⟩
  · rw [hafter]; exact h.1.trans hs.1
  · intro x; rw [hafter, mem_sdiff]

/-- "union … return[s] exactly the mathematical result for any list of keys, including repeated
keys and keys that are missing or hold another type": a duplicate-free list of exactly the
elements that are members of some named set. -/
theorem union_is_union : ∀ (ks : List Bytes) (now : Int) (db : DB), db.Inv →
    ∃ l : List Bytes, (Model.dbRun (.setUnion ks) now db).out = .ok (.list (l.map .bytes)) ∧
      l.Nodup ∧ ∀ e, e ∈ l ↔ ∃ k ∈ ks, e ∈ Spec.setAt (Spec.abs now db) k := by
  intro ks now db hinv
  have hw := SetWF.of_inv hinv
  exact ⟨_, (run_setUnion hw now ks).1, (ssorted_setUnionOf _ ks).nodup, mem_setUnionOf _ ks⟩

/-- "…difference": exactly the members of the first set that are in none of the others, for any
list of keys (repeated, missing, of another type). -/
theorem diff_is_diff : ∀ (k : Bytes) (rest : List Bytes) (now : Int) (db : DB), db.Inv →
    ∃ l : List Bytes, (Model.dbRun (.setDiff (k :: rest)) now db).out = .ok (.list (l.map .bytes)) ∧
      l.Nodup ∧ ∀ e, e ∈ l ↔ e ∈ Spec.setAt (Spec.abs now db) k ∧
        ∀ x ∈ rest, e ∉ Spec.setAt (Spec.abs now db) x := by
  intro k rest now db hinv
  have hw := SetWF.of_inv hinv
  refine ⟨_, (run_setDiff hw now (k :: rest)).1, (ssorted_setDiffOf hw now (k :: rest)).nodup, ?_⟩
  intro e
  rw [setDiffOf_cons]
  simp [List.mem_filter]

/-- "…intersection": exactly the common members, for any non-empty list of keys — repeated
keys, missing keys and keys of another type included (a missing key or a key of another type
reads as the empty set, so the intersection is then empty). -/
theorem inter_is_inter : ∀ (ks : List Bytes) (now : Int) (db : DB), db.Inv → ks ≠ [] →
    ∃ l : List Bytes, (Model.dbRun (.setInter ks) now db).out = .ok (.list (l.map .bytes)) ∧
      l.Nodup ∧ ∀ e, e ∈ l ↔ ∀ k ∈ ks, e ∈ Spec.setAt (Spec.abs now db) k := by
  intro ks now db hinv hne
  have hw := SetWF.of_inv hinv
  refine ⟨_, (run_setInter hw now ks).1, (ssorted_setInterOf hw now ks).nodup, ?_⟩
  intro e
  cases ks with
  | nil => exact absurd rfl hne
  | cons k rest => exact mem_setInterOf_cons _ k rest e

private theorem store_dest {now : Int} {db : DB} {op : Op} {d : Bytes} {ks result : List Bytes}
    (h : RefS now (Model.dbRun op now db) (Spec.setStore (Spec.abs now db) d ks result))
    (hne : ks ≠ []) (hno : FreeOrSet (Spec.abs now db) d) :
    (Model.dbRun op now db).out = .ok (.int result.length) ∧
      Spec.setAt (Spec.abs now (Model.dbRun op now db).db) d = result := by
  have hs := spec_setStore (isEmpty_false_of_ne_nil hne) hno result
  exact ⟨h.1.trans hs.1, by rw [h.2]; exact hs.2⟩

/-- "The storing variants leave the destination holding exactly that result": `UnionStore` into a
destination that is free or a set, is not a stale leftover (D05) and is not one of the sources
(D08 — with the destination among the sources the clause is false, `dest_is_source_deviates`). -/
theorem unionstore_holds_result : ∀ (d : Bytes) (ks : List Bytes) (now : Int) (db : DB), db.Inv →
    ks ≠ [] → Spec.staleKey db now d = false → ks.contains d = false →
    FreeOrSet (Spec.abs now db) d →
    let r := Model.dbRun (.setUnionStore d ks) now db
    ∃ l : List Bytes, r.out = .ok (.int l.length) ∧ Spec.setAt (Spec.abs now r.db) d = l ∧ l.Nodup ∧
      ∀ e, e ∈ l ↔ ∃ k ∈ ks, e ∈ Spec.setAt (Spec.abs now db) k := by
  intro d ks now db hinv hne hns hds hno
  have hw := SetWF.of_inv hinv
  obtain ⟨h1, h2⟩ := store_dest (run_setUnionStore hw now hns hds) hne hno
  exact ⟨_, h1, h2, (ssorted_setUnionOf _ ks).nodup, mem_setUnionOf _ ks⟩

/-- the same for `DiffStore` -/
theorem diffstore_holds_result : ∀ (d k : Bytes) (rest : List Bytes) (now : Int) (db : DB), db.Inv →
    Spec.staleKey db now d = false → (k :: rest).contains d = false →
    FreeOrSet (Spec.abs now db) d →
    let r := Model.dbRun (.setDiffStore d (k :: rest)) now db
    ∃ l : List Bytes, r.out = .ok (.int l.length) ∧ Spec.setAt (Spec.abs now r.db) d = l ∧ l.Nodup ∧
      ∀ e, e ∈ l ↔ e ∈ Spec.setAt (Spec.abs now db) k ∧
        ∀ x ∈ rest, e ∉ Spec.setAt (Spec.abs now db) x := by
  intro d k rest now db hinv hns hds hno
  have hw := SetWF.of_inv hinv
  obtain ⟨h1, h2⟩ := store_dest (run_setDiffStore hw now hns hds) (by simp) hno
  refine ⟨_, h1, h2, (ssorted_setDiffOf hw now (k :: rest)).nodup, ?_⟩
  intro e
  rw [setDiffOf_cons]
  simp [List.mem_filter]

/-- the same for `InterStore`, for any non-empty list of sources (repeated ones included) -/
theorem interstore_holds_result : ∀ (d : Bytes) (ks : List Bytes) (now : Int) (db : DB), db.Inv →
    ks ≠ [] → Spec.staleKey db now d = false → ks.contains d = false →
    FreeOrSet (Spec.abs now db) d →
    let r := Model.dbRun (.setInterStore d ks) now db
    ∃ l : List Bytes, r.out = .ok (.int l.length) ∧ Spec.setAt (Spec.abs now r.db) d = l ∧ l.Nodup ∧
      ∀ e, e ∈ l ↔ ∀ k ∈ ks, e ∈ Spec.setAt (Spec.abs now db) k := by
  intro d ks now db hinv hne hns hds hno
  have hw := SetWF.of_inv hinv
  obtain ⟨h1, h2⟩ := store_dest (run_setInterStore hw now hns hds) hne hno
  refine ⟨_, h1, h2, (ssorted_setInterOf hw now ks).nodup, ?_⟩
  intro e
  cases ks with
  | nil => exact absurd rfl hne
  | cons k rest => exact mem_setInterOf_cons _ k rest e

/-- "pop … remove[s] exactly one existing member": when the random choice falls on the member
`e`, `Pop` returns `e`, the set is one smaller and holds exactly the other members. -/
theorem pop_removes_one : ∀ (k e : Bytes) (now : Int) (db : DB), db.Inv →
    e ∈ Spec.setAt (Spec.abs now db) k →
    let before := Spec.setAt (Spec.abs now db) k
    let r := Model.dbRun (.setPop k (some e)) now db
    let after := Spec.setAt (Spec.abs now r.db) k
    r.out = .ok (.bytes e) ∧ after.length + 1 = before.length ∧
      ∀ x, x ∈ after ↔ x ∈ before ∧ x ≠ e := by
  intro k e now db hinv hm before r after
  have hw := SetWF.of_inv hinv
  have h := run_setPop hw now k (some e)
  have hsp : Spec.setPop (Spec.abs now db) k (some e)
      = ⟨.ok (.bytes e), (Spec.setDelete (Spec.abs now db) k [e]).st⟩ := by
    simp [Spec.setPop, smem, hm]
  rw [hsp] at h
  have hafter : after = sdiff before [e] := by
    show Spec.setAt (Spec.abs now r.db) k = _
    rw [h.2]; exact (spec_setDelete _ k [e]).2
  refine ⟨h.1, ?_, ?_⟩
  · rw [hafter]; exact length_filter_ne (ssorted_setAt_abs hw now k).nodup hm
  · intro x; rw [hafter, mem_sdiff]; simp

/-- "move … transfer[s] exactly one existing member": between two different keys, the destination
being free or a set (and not a stale leftover, D05), a member `e` of the source leaves the source
and joins the destination; nothing else changes in either. -/
theorem move_transfers_one : ∀ (src dst e : Bytes) (now : Int) (db : DB), db.Inv → src ≠ dst →
    Spec.staleKey db now dst = false → FreeOrSet (Spec.abs now db) dst →
    e ∈ Spec.setAt (Spec.abs now db) src →
    let s := Spec.abs now db
    let r := Model.dbRun (.setMove src dst e) now db
    let s' := Spec.abs now r.db
    r.out = .ok .nil ∧ (∀ x, x ∈ Spec.setAt s' src ↔ x ∈ Spec.setAt s src ∧ x ≠ e) ∧
      (∀ x, x ∈ Spec.setAt s' dst ↔ x ∈ Spec.setAt s dst ∨ x = e) := by
  intro src dst e now db hinv hne hns hno hm s r s'
  have hw := SetWF.of_inv hinv
  have h := run_setMove hw now hns src e
  have hsp : Spec.setMove s src dst e
      = ⟨.ok .nil, (Spec.setAdd (Spec.setDelete s src [e]).st dst [e]).st⟩ := by
    cases hg : Spec.get s dst with
    | none => simp [Spec.setMove, smem, hm, hg, s]
    | some en =>
      obtain ⟨v, et⟩ := en
      obtain ⟨m, rfl⟩ := hno v et hg
      simp [Spec.setMove, smem, hm, hg, s]
  rw [show Spec.setMove (Spec.abs now db) src dst e = _ from hsp] at h
  have hs' : s' = (Spec.setAdd (Spec.setDelete s src [e]).st dst [e]).st := h.2
  have hd1 : Spec.get (Spec.setDelete s src [e]).st dst = Spec.get s dst :=
    spec_setDelete_other s hne [e]
  have hno1 : FreeOrSet (Spec.setDelete s src [e]).st dst := by
    intro v et hg; rw [hd1] at hg; exact hno v et hg
  refine ⟨h.1, ?_, ?_⟩
  · intro x
    rw [hs', setAt_congr (spec_setAdd_other _ (fun h => hne h.symm) [e]), (spec_setDelete s src [e]).2,
      mem_sdiff]
    simp
  · intro x
    rw [hs', (spec_setAdd hno1 [e]).2, mem_sunion, setAt_congr hd1]
    simp

/-- …and when `e` is not a member of the source, `Move` fails with `ErrNotFound` and no table row
changes. -/
theorem move_missing_member : ∀ (src dst e : Bytes) (now : Int) (db : DB), db.Inv →
    Spec.staleKey db now dst = false → e ∉ Spec.setAt (Spec.abs now db) src →
    (Model.dbRun (.setMove src dst e) now db).out = .error .notFound ∧
      (Model.dbRun (.setMove src dst e) now db).db = db := by
  intro src dst e now db hinv hns hm
  have hw := SetWF.of_inv hinv
  have h := run_setMove hw now hns src e
  have hout : (Model.dbRun (.setMove src dst e) now db).out = .error .notFound := by
    rw [h.1]; simp [Spec.setMove, smem, hm, Spec.er]
  exact ⟨hout, update_error_db hout⟩

/-! ### the deviations are real -/

def kK : Bytes := [107]          -- "k"
def kS : Bytes := [115]          -- "s"
def kT : Bytes := [116]          -- "t"
def kD : Bytes := [100]          -- "d", not stored
def eA : Bytes := [97]           -- "a"
def eB : Bytes := [98]           -- "b"

/-- a set key "k" = {"a"} whose expiry (5) has passed at `now = 10`, not yet cleaned up, and a
live set "s" = {"a"} -/
def dbStaleSet : DB :=
  { keys := [{ id := 1, key := kK, ty := 3, version := 1, etime := some 5, mtime := 0, len := some 1 },
             { id := 2, key := kS, ty := 3, version := 1, etime := none, mtime := 0, len := some 1 }],
    sets := [{ rowid := 1, kid := 1, elem := eA }, { rowid := 2, kid := 2, elem := eA }] }

/-- a list key "k" = ["a"] whose expiry has passed, not yet cleaned up -/
def dbStaleList : DB :=
  { keys := [{ id := 1, key := kK, ty := 2, version := 1, etime := some 5, mtime := 0, len := some 1 }],
    lists := [{ kid := 1, pos := 0, elem := eA }] }

/-- two live sets: "s" = {"a"}, "t" = {"b"} -/
def dbTwo : DB :=
  { keys := [{ id := 1, key := kS, ty := 3, version := 1, etime := none, mtime := 0, len := some 1 },
             { id := 2, key := kT, ty := 3, version := 1, etime := none, mtime := 0, len := some 1 }],
    sets := [{ rowid := 1, kid := 1, elem := eA }, { rowid := 2, kid := 2, elem := eB }] }

/-- D05 is real (add). The set "k" expired at 5; at 10 it does not exist, so adding "b" must
create "k" = {"b"} without expiry. The model (like the code) answers 1 but reuses the expired row
and keeps its old expiry: the key still does not exist afterwards (and when it is looked at with an
earlier clock it holds the old member "a" as well). -/
theorem stale_add_deviates :
    dbStaleSet.Inv ∧ Stale (.setAdd kK [eB]) 10 dbStaleSet = true ∧
    DestIsSource (.setAdd kK [eB]) = false ∧
    (Model.dbRun (.setAdd kK [eB]) 10 dbStaleSet).out = .ok (.int 1) ∧
    Spec.get (Spec.abs 10 (Model.dbRun (.setAdd kK [eB]) 10 dbStaleSet).db) kK = none ∧
    Spec.get (Spec.abs 4 (Model.dbRun (.setAdd kK [eB]) 10 dbStaleSet).db) kK
      = some ⟨.set [eA, eB], some 5⟩ ∧
    Spec.get (Spec.purge 10 (Spec.step (.setAdd kK [eB]) 10 (Spec.abs 10 dbStaleSet)).st) kK
      = some ⟨.set [eB], none⟩ := by
  refine ⟨by unfold DB.Inv; decide, by decide, rfl, by rfl, by decide +kernel, by decide +kernel,
    by decide +kernel⟩

/-- D05 is real (other type). The list "k" expired at 5; at 10 the name is free, so an add must
succeed. The model (like the code) runs into the expired list row and answers `ErrKeyType`. -/
theorem stale_othertype_deviates :
    dbStaleList.Inv ∧ Stale (.setAdd kK [eB]) 10 dbStaleList = true ∧
    (Model.dbRun (.setAdd kK [eB]) 10 dbStaleList).out = .error .keyType ∧
    (Spec.step (.setAdd kK [eB]) 10 (Spec.abs 10 dbStaleList)).out = .ok (.int 1) := by
  refine ⟨by unfold DB.Inv; decide, by decide, by rfl, by rfl⟩

/-- D05 is real (storing variant): storing the union of "s" = {"a"} into the expired "k" = {"a"}.
The destination does not exist, so it must be created holding {"a"}. The model (like the code)
does not wipe the expired destination, reuses its row and then inserts "a" a second time: the
`insert … select` has no conflict clause and fails on the unique index. -/
theorem stale_store_unique_deviates :
    Stale (.setUnionStore kK [kS]) 10 dbStaleSet = true ∧
    DestIsSource (.setUnionStore kK [kS]) = false ∧
    (Model.dbRun (.setUnionStore kK [kS]) 10 dbStaleSet).out = .error .sqlUnique ∧
    (Spec.step (.setUnionStore kK [kS]) 10 (Spec.abs 10 dbStaleSet)).out = .ok (.int 1) := by
  refine ⟨by decide, by decide, by rfl, by rfl⟩

/-- D07 is gone. The intersection of "s" = {"a"} with itself is {"a"}; the code used to answer the
empty set (`having count(distinct kid) = 2`), now it counts the distinct requested keys and the
model (like the code) answers {"a"}, as the specification does. -/
theorem repeated_inter_now_agrees :
    dbTwo.Inv ∧ Stale (.setInter [kS, kS]) 10 dbTwo = false ∧
    DestIsSource (.setInter [kS, kS]) = false ∧
    (Model.dbRun (.setInter [kS, kS]) 10 dbTwo).out = .ok (.list [.bytes eA]) ∧
    (Spec.step (.setInter [kS, kS]) 10 (Spec.abs 10 dbTwo)).out = .ok (.list [.bytes eA]) := by
  refine ⟨by unfold DB.Inv; decide, by decide, rfl, by rfl, by rfl⟩

/-- …and the storing variant: the destination "d" ends up holding {"a"}. -/
theorem repeated_interstore_now_agrees :
    Stale (.setInterStore kD [kS, kS]) 10 dbTwo = false ∧
    DestIsSource (.setInterStore kD [kS, kS]) = false ∧
    (Model.dbRun (.setInterStore kD [kS, kS]) 10 dbTwo).out = .ok (.int 1) ∧
    (Spec.step (.setInterStore kD [kS, kS]) 10 (Spec.abs 10 dbTwo)).out = .ok (.int 1) ∧
    Spec.setAt (Spec.abs 10 (Model.dbRun (.setInterStore kD [kS, kS]) 10 dbTwo).db) kD = [eA] := by
  refine ⟨by decide, by decide, by rfl, by rfl, by decide +kernel⟩

/-- …and a repeated key next to a different one: "s" ∩ "t" ∩ "s" = {"a"} ∩ {"b"} = ∅ is still
empty, because "t" does not hold "a" — not because the count is off. -/
theorem repeated_inter_disjoint_empty :
    (Model.dbRun (.setInter [kS, kT, kS]) 10 dbTwo).out = .ok (.list []) ∧
    (Spec.step (.setInter [kS, kT, kS]) 10 (Spec.abs 10 dbTwo)).out = .ok (.list []) :=
  ⟨by rfl, by rfl⟩

/-- D08 is real. Storing the union of "s" = {"a"} and "t" = {"b"} into "s" must leave "s" = {"a",
"b"} and report 2. The model (like the code) wipes "s" first and computes the union of the wiped
"s" and "t": it reports 1 and leaves "s" = {"b"}. -/
theorem dest_is_source_deviates :
    dbTwo.Inv ∧ Stale (.setUnionStore kS [kS, kT]) 10 dbTwo = false ∧
    DestIsSource (.setUnionStore kS [kS, kT]) = true ∧
    (Model.dbRun (.setUnionStore kS [kS, kT]) 10 dbTwo).out = .ok (.int 1) ∧
    (Spec.step (.setUnionStore kS [kS, kT]) 10 (Spec.abs 10 dbTwo)).out = .ok (.int 2) ∧
    Spec.setAt (Spec.abs 10 (Model.dbRun (.setUnionStore kS [kS, kT]) 10 dbTwo).db) kS = [eB] ∧
    Spec.setAt (Spec.step (.setUnionStore kS [kS, kT]) 10 (Spec.abs 10 dbTwo)).st kS = [eA, eB] := by
  refine ⟨by unfold DB.Inv; decide, by decide, by decide, by rfl, by rfl, by decide +kernel,
    by decide +kernel⟩

/-- D08 is real (difference): "s" \ "t" stored into "s" must leave "s" = {"a"}; the model leaves
it empty. -/
theorem dest_is_source_diff_deviates :
    DestIsSource (.setDiffStore kS [kS, kT]) = true ∧
    (Model.dbRun (.setDiffStore kS [kS, kT]) 10 dbTwo).out = .ok (.int 0) ∧
    (Spec.step (.setDiffStore kS [kS, kT]) 10 (Spec.abs 10 dbTwo)).out = .ok (.int 1) := by
  refine ⟨by decide, by rfl, by rfl⟩

private theorem int_ne {a b : Int} (h : a ≠ b) : (Except.ok (Val.int a) : Out) ≠ .ok (.int b) := by
  intro he; cases he; exact h rfl

/-- Hence the refinement statement without the two classifiers is false: the property's clause
"even when the destination is also one of the sources" does not hold of the code. -/
theorem full_strength_is_false :
    ¬ (∀ (op : Op) (now : Int) (db : DB), IsSetOp op → db.Inv →
        (Model.dbRun op now db).out = (Spec.step op now (Spec.abs now db)).out ∧
        Spec.abs now (Model.dbRun op now db).db
          = Spec.purge now (Spec.step op now (Spec.abs now db)).st) := by
  intro h
  have h1 := (h (.setUnionStore kS [kS, kT]) 10 dbTwo rfl dest_is_source_deviates.1).1
  rw [dest_is_source_deviates.2.2.2.1, dest_is_source_deviates.2.2.2.2.1] at h1
  exact int_ne (by decide) h1

/-- Each classifier is needed on its own: with the other one in place the statement is still
false. -/
theorem stale_is_needed :
    ¬ (∀ (op : Op) (now : Int) (db : DB), IsSetOp op → db.Inv → DestIsSource op = false →
        (Model.dbRun op now db).out = (Spec.step op now (Spec.abs now db)).out) := by
  intro h
  have h1 := h (.setUnionStore kK [kS]) 10 dbStaleSet rfl stale_add_deviates.1
    stale_store_unique_deviates.2.1
  rw [stale_store_unique_deviates.2.2.1, stale_store_unique_deviates.2.2.2] at h1
  cases h1

theorem dest_is_source_is_needed :
    ¬ (∀ (op : Op) (now : Int) (db : DB), IsSetOp op → db.Inv → Stale op now db = false →
        (Model.dbRun op now db).out = (Spec.step op now (Spec.abs now db)).out) := by
  intro h
  have h1 := h (.setUnionStore kS [kS, kT]) 10 dbTwo rfl dest_is_source_deviates.1
    dest_is_source_deviates.2.1
  rw [dest_is_source_deviates.2.2.2.1, dest_is_source_deviates.2.2.2.2.1] at h1
  exact int_ne (by decide) h1

/-! ### non-vacuity: the hypotheses are satisfiable for every kind of operation -/

def kA : Bytes := [97]           -- "a"
def kB : Bytes := [98]           -- "b"
def kL : Bytes := [108]          -- "l"
def kC : Bytes := [99]           -- "c"
def kN : Bytes := [110]          -- "n", not stored
def eW : Bytes := [119]          -- "w"
def eX : Bytes := [120]          -- "x"
def eY : Bytes := [121]          -- "y"
def eZ : Bytes := [122]          -- "z"

/-- a live set "a" = {"x","y"}, a live set "b" = {"y","z"} that expires at 100, a list "l" = ["e"],
a string "c" = "v" -/
def demo : DB :=
  { keys := [
      { id := 1, key := kA, ty := 3, version := 1, etime := none, mtime := 0, len := some 2 },
      { id := 2, key := kB, ty := 3, version := 3, etime := some 100, mtime := 0, len := some 2 },
      { id := 3, key := kL, ty := 2, version := 1, etime := none, mtime := 0, len := some 1 },
      { id := 4, key := kC, ty := 1, version := 1, etime := none, mtime := 0, len := none }],
    strs := [{ kid := 4, value := [118] }],
    lists := [{ kid := 3, pos := 0, elem := [101] }],
    sets := [{ rowid := 1, kid := 1, elem := eY }, { rowid := 2, kid := 1, elem := eX },
             { rowid := 3, kid := 2, elem := eZ }, { rowid := 4, kid := 2, elem := eY }] }

example : demo.Inv := by unfold DB.Inv; decide

/-- every hypothesis of `set_refines_partial` holds for operations of each kind on `demo`:
repeated and missing keys, keys of another type, empty key lists, failing moves, every oracle -/
example : ∀ op ∈ [Op.setAdd kA [eX, eW, eW], .setAdd kN [eX, eY, eX], .setAdd kL [eX], .setAdd kA [],
      .setDelete kA [eX, eW], .setDelete kN [eX], .setDelete kC [eX],
      .setDiff [kA, kB, kN, kL], .setDiff [kA, kA], .setDiff [], .setInter [kA, kB], .setInter [kA, kL],
      .setInter [kA, kA], .setInter [kB, kA, kB, kA], .setInter [kA, kN, kA], .setInter [], .setUnion [kA, kA, kL, kN, kB], .setUnion [],
      .setDiffStore kN [kA, kB], .setDiffStore kB [kA, kA], .setDiffStore kL [kA],
      .setInterStore kN [kA, kB], .setInterStore kL [kA, kB], .setInterStore kA [],
      .setInterStore kN [kA, kB, kA], .setInterStore kC [kB, kB],
      .setUnionStore kN [kA, kB, kL, kA], .setUnionStore kB [kA, kC], .setUnionStore kN [],
      .setExists kA eX, .setExists kL eX, .setItems kA, .setItems kN, .setLen kB, .setLen kC,
      .setMove kA kB eX, .setMove kA kA eX, .setMove kA kN eX, .setMove kA kL eX, .setMove kN kA eX,
      .setMove kA kB eZ, .setPop kA (some eX), .setPop kA (some eZ), .setPop kA none, .setPop kN none,
      .setPop kL (some eX), .setRandom kB (some eZ), .setRandom kB none, .setRandom kN none],
    IsSetOp op ∧ Stale op 10 demo = false ∧ DestIsSource op = false := by
  decide +kernel

/-- the intersection clause instantiated on repeated keys: "b" ∩ "a" ∩ "b" ∩ "a" = {"y"} -/
example : (Model.dbRun (.setInter [kB, kA, kB, kA]) 10 demo).out = .ok (.list [.bytes eY]) := by rfl

example : ∃ l : List Bytes, (Model.dbRun (.setInter [kB, kA, kB, kA]) 10 demo).out
      = .ok (.list (l.map .bytes)) ∧ l.Nodup ∧
      ∀ e, e ∈ l ↔ ∀ k ∈ [kB, kA, kB, kA], e ∈ Spec.setAt (Spec.abs 10 demo) k :=
  inter_is_inter _ 10 demo (by unfold DB.Inv; decide) (by simp)

/-- `InterStore("n", "a", "b", "a")` reports 1 and "n" becomes {"y"} -/
example :
    (Model.dbRun (.setInterStore kN [kA, kB, kA]) 10 demo).out = .ok (.int 1) ∧
    Spec.setAt (Spec.abs 10 (Model.dbRun (.setInterStore kN [kA, kB, kA]) 10 demo).db) kN = [eY] :=
  ⟨by rfl, by decide +kernel⟩

/-- the clauses instantiated on `demo`: "a" ∪ "a" ∪ "l" ∪ "n" ∪ "b" = {"x","y","z"} -/
example : (Model.dbRun (.setUnion [kA, kA, kL, kN, kB]) 10 demo).out
    = .ok (.list [.bytes eX, .bytes eY, .bytes eZ]) := by rfl

example : ∃ l : List Bytes, (Model.dbRun (.setUnion [kA, kA, kL, kN, kB]) 10 demo).out
      = .ok (.list (l.map .bytes)) ∧ l.Nodup ∧
      ∀ e, e ∈ l ↔ ∃ k ∈ [kA, kA, kL, kN, kB], e ∈ Spec.setAt (Spec.abs 10 demo) k :=
  union_is_union _ 10 demo (by unfold DB.Inv; decide)

/-- `Add("a", "x", "w", "w")` reports 1 and "a" becomes {"w","x","y"} -/
example :
    (Model.dbRun (.setAdd kA [eX, eW, eW]) 10 demo).out = .ok (.int 1) ∧
    Spec.setAt (Spec.abs 10 (Model.dbRun (.setAdd kA [eX, eW, eW]) 10 demo).db) kA = [eW, eX, eY] :=
  ⟨by rfl, by decide +kernel⟩

/-- `DiffStore("b", "a", "a")` leaves "b" empty and keeps its expiry 100 -/
example :
    Spec.get (Spec.abs 10 (Model.dbRun (.setDiffStore kB [kA, kA]) 10 demo).db) kB
      = some ⟨.set [], some 100⟩ := by decide +kernel

/-- a run on `demo` that satisfies the hypotheses of `set_seq_refines`: add, move, the clock
advances, store an intersection (over a key list with a repeated key), pop, store a union over a key that has expired meanwhile -/
def demoRun : List (Op × Int) :=
  [(.setAdd kN [eX, eZ], 10), (.setMove kA kN eY, 11), (.setInterStore kC [kA], 11),
   (.setInterStore kD [kB, kN, kB], 12), (.setPop kN (some eZ), 12), (.setUnionStore kA [kB, kN, kD], 200),
   (.setLen kA, 200)]

instance decCleanRun : ∀ tr db, Decidable (CleanRun tr db)
  | [], _ => isTrue trivial
  | (op, now) :: rest, db =>
    have := decCleanRun rest (Model.dbRun op now db).db
    inferInstanceAs (Decidable (_ ∧ _ ∧ _ ∧ _))

instance decClockOk : ∀ t tr, Decidable (ClockOk t tr)
  | _, [] => isTrue trivial
  | t, (_, now) :: rest =>
    have := decClockOk now rest
    inferInstanceAs (Decidable (t ≤ now ∧ ClockOk now rest))

example : ClockOk 10 demoRun ∧ CleanRun demoRun demo := by decide +kernel

/-- at 200 the key "b" (expiry 100) is gone, so "a" = "n" ∪ "d" = {"x","y"} ∪ {"y","z"}; the
store into the string "c" was refused -/
example : (runSpec demoRun (Spec.abs 10 demo)).2
    = [(kA, ⟨.set [eX, eY, eZ], none⟩), (kC, ⟨.str [118], none⟩), (kD, ⟨.set [eY, eZ], none⟩),
       (kL, ⟨.list [[101]], none⟩), (kN, ⟨.set [eX, eY], none⟩)] := by
  decide +kernel

end Redka.Props.C03
