/-
  Line protocol of the `wire` mode of the Go harness (`verifharness wire …`) and of `wiredriver`.
  Not part of the model; trusted as part of the correspondence check, like `Proto.lean`.

  One request per line, seven fields separated by " | ":

    seq now wire | pre-dump | pre-state | R argc xarg… | tokens | post-dump | post-state

  * `seq`        running number; `now` = the millisecond clock after the call (`t1`); every timestamp
                 of the post-dump written during the call is already rewritten to it (see main.go).
  * dumps        exactly as in `Proto.lean` (`K n rows… S … L … E … H … Z … F b`).
  * state        `C<conn> <inMulti 0|1> <n> {argc xname xarg…}ⁿ` — the `connState` of the connection
                 the request arrives on, read from the real `connState` through a shim; each queued
                 command is printed as the request it was parsed from (`cmd.Name()` then `cmd.Args()`).
  * request      `R argc xarg…`, `xarg` = `x` + lower-case hex of the argument bytes.
  * tokens       one per `redcon.Conn` write call, in order; `.` when nothing was written:
                   `+xHEX` WriteString     `-xHEX` WriteError      `:INT` WriteInt/WriteInt64
                   `$xHEX` WriteBulk/WriteBulkString/WriteAny(string)   `_` WriteNull
                   `*INT`  WriteArray (header only)      `=xHEX` WriteRaw / WriteAny(other)
                 followed by `!PANIC` when the handler chain panicked (recovered by the harness).
                 The observed tokens double as the oracle of the random commands.

  The driver answers `seq M=1|0|-` (same meaning as `Driver.lean`); on `0` the model's tokens,
  dump and state follow.
-/
import RedkaModel.Proto
import RedkaModel.Model.Wire.Server

namespace Redka.WireProto

open Redka Redka.Proto Redka.Wire

def showToken : Token → String
  | .str s => "+" ++ showBytes s
  | .err s => "-" ++ showBytes s
  | .int i => ":" ++ toString i
  | .bulk b => "$" ++ showBytes b
  | .null => "_"
  | .arrayHdr n => "*" ++ toString n
  | .raw b => "=" ++ showBytes b

def showTokens (l : List Token) : String :=
  if l.isEmpty then "." else String.intercalate " " (l.map showToken)

def parseToken (t : String) : Except String Token :=
  let rest := (t.drop 1).toString
  match t.toList.head? with
  | some '+' => (parseBytes rest).map .str
  | some '-' => (parseBytes rest).map .err
  | some '$' => (parseBytes rest).map .bulk
  | some '=' => (parseBytes rest).map .raw
  | some ':' => match rest.toInt? with | some i => .ok (.int i) | none => .error s!"bad token {t}"
  | some '*' => match rest.toInt? with | some i => .ok (.arrayHdr i) | none => .error s!"bad token {t}"
  | some '_' => if t == "_" then .ok .null else .error s!"bad token {t}"
  | _ => .error s!"bad token {t}"

/-- the token field: the tokens and whether the request ended in a panic -/
def parseTokens (s : String) : Except String (List Token × Bool) :=
  let ws := (s.splitOn " ").filter (· ≠ "")
  -- `!HANG`: the request did not return (reported by the harness watchdog); parsed like a panic,
  -- the Python-side oracle tells the two apart
  let panicked := ws.getLast? == some "!PANIC" || ws.getLast? == some "!HANG"
  let ws := if panicked then ws.dropLast else ws
  let ws := if ws == ["."] then [] else ws
  (ws.mapM parseToken).map (fun ts => (ts, panicked))

/-- `argc xarg…` -/
def pArgs : P (List Bytes) := pMany pBytes

/-- `R argc xarg…` -/
def pRequest : P (List Bytes) := do expect "R"; pArgs

structure RawState where
  conn : String
  inMulti : Bool
  cmds : List (List Bytes)       -- name :: args

/-- `C<conn> inMulti n {argc xarg…}` -/
def pState : P RawState := do
  let c ← tok
  if !c.startsWith "C" then throw s!"bad state tag {c}"
  let inMulti ← pBool
  let cmds ← pMany pArgs
  pure { conn := c, inMulti := inMulti, cmds := cmds }

def showState (st : ConnState) : String :=
  let q := st.cmds.map (fun c =>
    String.intercalate " " (toString (c.args.length + 1) :: (c.name :: c.args).map showBytes))
  String.intercalate " " (["C", if st.inMulti then "1" else "0", toString st.cmds.length] ++ q)

end Redka.WireProto
