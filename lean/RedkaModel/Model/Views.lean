/-
  The six documented SQL views of `internal/sqlx/schema.sql` (`vkey`, `vstring`, `vlist`, `vset`,
  `vhash`, `vzset`) as functions of the six tables and of the clock the view reads
  (`unixepoch('subsec') * 1000`, i.e. unix milliseconds, after fix a9b746c).

  Every child view is `from r<child> join rkey on r<child>.kid = rkey.id and rkey.type = <t>
  where rkey.etime is null or rkey.etime > <clock>`; as a bag of rows this join is the
  concatenation, over the live key rows of that type, of the child rows carrying that key's id
  (a key id that occurred twice would duplicate the rows in both formulations). The output order of
  a view is the planner's; the order that the documentation gives a meaning to is the explicit
  `idx` column of `vlist` (`row_number() over (partition by kid order by pos)`, 1-based).
  The rendering of `etime`/`mtime` (`datetime(ms/1000, 'unixepoch')`) is not modelled here: the
  harness compares the rendered text with the raw row of the same `kid` (DESIGN §4.2).
-/
import RedkaModel.Model.List
import RedkaModel.Model.Set
import RedkaModel.Model.Hash
import RedkaModel.Model.ZSet

namespace Redka.Model.View

open Redka

structure VKey where
  kid : Int
  key : Bytes
  ty : Int
  len : Option Int
  etime : Option Int
  mtime : Int
deriving DecidableEq

structure VStr where
  kid : Int
  key : Bytes
  value : Bytes
  etime : Option Int
  mtime : Int
deriving DecidableEq

structure VList where
  kid : Int
  key : Bytes
  idx : Nat
  elem : Bytes
  etime : Option Int
  mtime : Int
deriving DecidableEq

structure VSet where
  kid : Int
  key : Bytes
  elem : Bytes
  etime : Option Int
  mtime : Int
deriving DecidableEq

structure VHash where
  kid : Int
  key : Bytes
  field : Bytes
  value : Bytes
  etime : Option Int
  mtime : Int
deriving DecidableEq

structure VZSet where
  kid : Int
  key : Bytes
  elem : Bytes
  score : Score
  etime : Option Int
  mtime : Int
deriving DecidableEq

/-- `… from rkey where etime is null or etime > <clock>` restricted to one type -/
def liveOfType (now : Int) (db : DB) (ty : Int) : List KeyRow :=
  db.keys.filter (fun r => r.live now && r.ty == ty)

def vkey (now : Int) (db : DB) : List VKey :=
  (db.keys.filter (fun r => r.live now)).map
    (fun r => ⟨r.id, r.key, r.ty, r.len, r.etime, r.mtime⟩)

def vstring (now : Int) (db : DB) : List VStr :=
  (liveOfType now db TString).flatMap (fun r =>
    (db.strs.filter (fun s => s.kid == r.id)).map (fun s => ⟨r.id, r.key, s.value, r.etime, r.mtime⟩))

/-- number the rows of one partition from 1 -/
def numbered {α} (l : List α) : List (Nat × α) := (List.range l.length).map (· + 1) |>.zip l

def vlist (now : Int) (db : DB) : List VList :=
  (liveOfType now db TList).flatMap (fun r =>
    (numbered (listRows db r.id)).map (fun p => ⟨r.id, r.key, p.1, p.2.elem, r.etime, r.mtime⟩))

def vset (now : Int) (db : DB) : List VSet :=
  (liveOfType now db TSet).flatMap (fun r =>
    (setRows db r.id).map (fun x => ⟨r.id, r.key, x.elem, r.etime, r.mtime⟩))

def vhash (now : Int) (db : DB) : List VHash :=
  (liveOfType now db THash).flatMap (fun r =>
    (hashRows db r.id).map (fun x => ⟨r.id, r.key, x.field, x.value, r.etime, r.mtime⟩))

def vzset (now : Int) (db : DB) : List VZSet :=
  (liveOfType now db TZSet).flatMap (fun r =>
    (db.zsets.filter (fun z => z.kid == r.id)).map (fun x => ⟨r.id, r.key, x.elem, x.score, r.etime, r.mtime⟩))

structure Views where
  keys : List VKey
  strs : List VStr
  lists : List VList
  sets : List VSet
  hashes : List VHash
  zsets : List VZSet

def views (now : Int) (db : DB) : Views :=
  ⟨vkey now db, vstring now db, vlist now db, vset now db, vhash now db, vzset now db⟩

/-- equality of two row lists as bags -/
def bagEq {α} [DecidableEq α] : List α → List α → Bool
  | [], m => m.isEmpty
  | x :: l, m => m.contains x && bagEq l (m.erase x)

def Views.bagEq (a b : Views) : Bool :=
  View.bagEq a.keys b.keys && View.bagEq a.strs b.strs && View.bagEq a.lists b.lists &&
  View.bagEq a.sets b.sets && View.bagEq a.hashes b.hashes && View.bagEq a.zsets b.zsets

/-! ### `datetime(ms / 1000, 'unixepoch')`: the text of the `etime` / `mtime` columns -/

/-- days since 1970-01-01 ↦ (year, month, day), proleptic Gregorian calendar -/
def civilFromDays (z0 : Int) : Int × Int × Int :=
  let z := z0 + 719468
  let era := z / 146097
  let doe := z % 146097
  let yoe := (doe - doe / 1460 + doe / 36524 - doe / 146096) / 365
  let y := yoe + era * 400
  let doy := doe - (365 * yoe + yoe / 4 - yoe / 100)
  let mp := (5 * doy + 2) / 153
  let d := doy - (153 * mp + 2) / 5 + 1
  let m := if mp < 10 then mp + 3 else mp - 9
  (if m ≤ 2 then y + 1 else y, m, d)

/-- decimal digits of a non-negative number, left-padded with `0` to `w` characters -/
def padNum (w : Nat) (n : Int) : String :=
  let s := toString n.toNat
  String.ofList (List.replicate (w - s.length) '0') ++ s

/-- SQLite's `datetime(ms / 1000, 'unixepoch')` (integer division truncates toward zero):
`YYYY-MM-DD HH:MM:SS` in UTC; `none` outside the years 0000–9999, where SQLite answers NULL -/
def sqliteDatetime (ms : Int) : Option String :=
  let secs := Int.tdiv ms 1000
  if secs < -62167219200 || secs > 253402300799 then none
  else
    let days := secs / 86400
    let sod := secs % 86400
    let c := civilFromDays days
    some (padNum 4 c.1 ++ "-" ++ padNum 2 c.2.1 ++ "-" ++ padNum 2 c.2.2 ++ " " ++
      padNum 2 (sod / 3600) ++ ":" ++ padNum 2 (sod % 3600 / 60) ++ ":" ++ padNum 2 (sod % 60))

end Redka.Model.View
