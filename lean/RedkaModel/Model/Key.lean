/-
  `internal/rkey`: statements of tx.go and the Tx methods composed from them.
-/
import RedkaModel.Model.Op
import RedkaModel.Sql.Glob

namespace Redka.Model

open Redka

/-- SQLite `LIMIT off, cnt`: a negative offset is 0, a negative count means no limit -/
def sqlLimit {α} (off cnt : Int) (l : List α) : List α :=
  let d := l.drop off.toNat
  if cnt < 0 then d else d.take cnt.toNat

/-- a key row as the API returns it (`core.Key` has no `len`) -/
def keyVal (r : KeyRow) : Val := .key { r with len := none }

def keyCountRaw (db : DB) (ks : List Bytes) (now : Int) : Int :=
  (db.keys.filter (fun r => ks.contains r.key && r.live now)).length

def keyCount (db : DB) (ks : List Bytes) (now : Int) : Res :=
  .ok (.int (keyCountRaw db ks now)) db

def keyDelete (db : DB) (ks : List Bytes) (now : Int) : Res :=
  let (db', n) := db.deleteKeysWhere (fun r => ks.contains r.key && r.live now)
  .ok (.int n) db'

/-- `delete from rkey; vacuum; pragma integrity_check;` — `inTx`: VACUUM fails inside a
transaction after the delete has been executed -/
def keyDeleteAll (db : DB) (inTx : Bool) : Res :=
  let (db', _) := db.deleteKeysWhere (fun _ => true)
  if inTx then .err .sqlOther db' else .ok .nil db'

/-- rows with `etime <= now` in the order of `rkey_etime_idx` -/
def expiredRows (db : DB) (now : Int) : List KeyRow :=
  let rows := db.keys.filter (fun r => match r.etime with | none => false | some t => decide (t ≤ now))
  sortBy (fun a b => match a.etime, b.etime with
    | some x, some y => decide (x < y) || (x == y && decide (a.id < b.id))
    | _, _ => false) rows

def keyDeleteExpired (db : DB) (n : Int) (now : Int) : Res :=
  let victims := if n > 0 then sqlLimit 0 n (expiredRows db now) else expiredRows db now
  let ids := victims.map (·.id)
  let (db', c) := db.deleteKeysWhere (fun r => ids.contains r.id)
  .ok (.int c) db'

def keyExists (db : DB) (k : Bytes) (now : Int) : Res :=
  .ok (.bool (keyCountRaw db [k] now > 0)) db

/-- `sqlExpire` -/
def keyExpireAt (db : DB) (k : Bytes) (at_ : Int) (now : Int) : Res :=
  match db.liveKey k now with
  | none => .err .notFound db
  | some r => .ok .nil (db.updKey r.id (fun o => { o with version := o.version + 1, etime := some at_ }))

def keyExpire (db : DB) (k : Bytes) (ttl : Int) (now : Int) : Res :=
  keyExpireAt db k (now + ttl) now

def keyGet (db : DB) (k : Bytes) (now : Int) : Res :=
  match db.liveKey k now with
  | none => .err .notFound db
  | some r => .ok (keyVal r) db

def keyKeys (db : DB) (pat : Bytes) (now : Int) : Res :=
  let rows := db.keys.filter (fun r => Glob.sqliteGlob pat r.key && r.live now)
  .ok (.list (rows.map keyVal)) db

def keyLen (db : DB) : Res := .ok (.int db.keys.length) db

def keyPersist (db : DB) (k : Bytes) (now : Int) : Res :=
  match db.liveKey k now with
  | none => .err .notFound db
  | some r => .ok .nil (db.updKey r.id (fun o => { o with version := o.version + 1, etime := none }))

/-- `order by random() limit 1`: the harness reports which key came back -/
def keyRandom (db : DB) (oracle : Option Bytes) (now : Int) : Res :=
  let liveRows := db.keys.filter (fun r => r.live now)
  match oracle with
  | none => if liveRows.isEmpty then .err .notFound db else .err .outOfDomain db
  | some k =>
    match liveRows.find? (fun r => r.key == k) with
    | none => .err .outOfDomain db
    | some r => .ok (keyVal r) db

/-- `sqlRename`: `update or replace`; the row that holds the new name (live or not, any type) is
replaced, its children cascade -/
def renameStmt (db : DB) (k nk : Bytes) (now : Int) : DB :=
  match db.liveKey k now with
  | none => db
  | some r =>
    let (db1, _) := db.deleteKeysWhere (fun x => x.key == nk && x.id != r.id)
    db1.updKey r.id (fun o => { o with key := nk, version := o.version + 1, mtime := now })

def keyRename (db : DB) (k nk : Bytes) (now : Int) : Res :=
  match db.liveKey k now with
  | none => .err .notFound db
  | some oldK =>
    if oldK.key.isEmpty then .err .notFound db          -- `!oldK.Exists()`
    else if k == nk then .ok .nil db
    else
      match db.liveKey nk now with
      | some newK => if oldK.ty != newK.ty then .err .keyType db else .ok .nil (renameStmt db k nk now)
      | none => .ok .nil (renameStmt db k nk now)

def keyRenameNX (db : DB) (k nk : Bytes) (now : Int) : Res :=
  match db.liveKey k now with
  | none => .err .notFound db
  | some oldK =>
    if oldK.key.isEmpty then .err .notFound db
    else if k == nk then .ok (.bool false) db
    else if keyCountRaw db [nk] now > 0 then .ok (.bool false) db
    else .ok (.bool true) (renameStmt db k nk now)

def scanPageSize : Int := 10

def keyScan (db : DB) (cursor : Int) (pat : Bytes) (ty : Int) (count : Int) (now : Int) : Res :=
  let count := if count == 0 then scanPageSize else count
  let rows := db.keys.filter (fun r =>
    decide (r.id > cursor) && Glob.sqliteGlob pat r.key && (ty == 0 || r.ty == ty) && r.live now)
  let rows := sortBy (fun a b => decide (a.id < b.id)) rows
  let page := sqlLimit 0 count rows
  let cur := match page.getLast? with | none => 0 | some r => r.id
  .ok (.list [.int cur, .list (page.map keyVal)]) db

end Redka.Model
