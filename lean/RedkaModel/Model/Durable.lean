/-
  Durability and recovery, at TRANSACTION granularity (contract level).

  What is modelled

  * the database file as a `Store` holding the last committed tables; the process as a `Proc` with
    the store plus VOLATILE state: the working tables of the open transaction (for an
    `Update`-wrapped method these are the `Tx`-level tables, half-written when the method fails after
    a write) and the number of results already handed back to the caller;
  * one client that executes a workload `List (Op × Int)` sequentially; each operation goes through
    `exec` (the statements run on the working tables), `settle` (`dtx.Commit()`, or the deferred
    `dtx.Rollback()` when the wrapped body returned an error; an unwrapped method is one
    auto-committed statement), `ack` (the `DB` method returns to its caller).  `settle ∘ exec` is
    `Model.dbRun` (`Proofs/Durable.lean: settle_exec_committed`);
  * a crash point `(i, phase)`: the process dies while operation `i` (0-based) is in the given phase;
    everything volatile is gone, `recovered` is the store;
  * `createSchema` on an EXISTING database (what `sqlx.Open → init → createSchema` does on re-open):
    it leaves the six tables alone provided every statement of `schema.sql` is a
    `create … if not exists` (or the one `pragma user_version = 1`, which writes the header field and
    no table).  `reopen` is defined from the flags the translator extracts from `schema.sql` on every
    run, so a statement that loses its `if not exists` makes `reopen_preserves` unprovable;
  * `OpenRead` (does not run the schema at all: it calls `sqlx.New`, not `sqlx.Open`; tied to the
    generated body of `OpenRead`), `Close` (stops the cleaner, closes the two handles; tied to the
    generated call list).

  What is TRUSTED and not modelled (below transaction level): SQLite's WAL journal.  With
  `journal_mode=wal` a transaction is durable against PROCESS death from the moment `Commit` returns
  (the commit record is in the WAL file, i.e. in the OS page cache at least), an uncommitted
  transaction's frames are ignored by WAL recovery, and a single auto-committed statement is a
  transaction of its own.  With `synchronous=normal` the WAL is not fsync'ed on every commit, so a
  POWER LOSS or OS crash may lose the most recent commits (never corrupt the file): that is out of
  scope — C09 speaks of a killed process.

  Core Lean only.
-/
import RedkaModel.Model.Fault
import RedkaModel.Generated.All

namespace Redka.Durable

open Redka Redka.Model

/-! ## 1. predicates on generated text (byte level: cheap for the kernel) -/

def bytesOf (s : String) : List UInt8 := s.toUTF8.data.toList

def containsBytes (pat : List UInt8) : List UInt8 → Bool
  | [] => pat.isEmpty
  | c :: cs => pat.isPrefixOf (c :: cs) || containsBytes pat cs

/-- `pat` occurs in `s` -/
def hasSub (s pat : String) : Bool := containsBytes (bytesOf pat) (bytesOf s)

def splitBytes (sep : UInt8) : List UInt8 → List (List UInt8)
  | [] => [[]]
  | c :: cs =>
    match splitBytes sep cs with
    | [] => [[]]
    | h :: t => if c = sep then [] :: h :: t else (c :: h) :: t

/-- `kv` (`name=value`) is one of the `;`-separated settings of `pragmas` -/
def hasPragma (pragmas kv : String) : Bool := (splitBytes 59 (bytesOf pragmas)).contains (bytesOf kv)

/-! ## 2. `createSchema` on an existing database -/

structure SchemaStmt where
  name : String
  text : String
  ifNotExists : Bool
deriving DecidableEq, Repr

/-- Every statement of `internal/sqlx/schema.sql`, in file order, with the text and the
`if not exists` flag the translator extracted (`Generated/Schema.lean`). -/
def schemaTable : List SchemaStmt := [
  ⟨"pragma_user_version", Generated.schema_pragma_user_version, Generated.schema_pragma_user_version_ifNotExists⟩,
  ⟨"table_rkey", Generated.schema_table_rkey, Generated.schema_table_rkey_ifNotExists⟩,
  ⟨"index_rkey_key_idx", Generated.schema_index_rkey_key_idx, Generated.schema_index_rkey_key_idx_ifNotExists⟩,
  ⟨"index_rkey_etime_idx", Generated.schema_index_rkey_etime_idx, Generated.schema_index_rkey_etime_idx_ifNotExists⟩,
  ⟨"view_vkey", Generated.schema_view_vkey, Generated.schema_view_vkey_ifNotExists⟩,
  ⟨"table_rstring", Generated.schema_table_rstring, Generated.schema_table_rstring_ifNotExists⟩,
  ⟨"index_rstring_pk_idx", Generated.schema_index_rstring_pk_idx, Generated.schema_index_rstring_pk_idx_ifNotExists⟩,
  ⟨"view_vstring", Generated.schema_view_vstring, Generated.schema_view_vstring_ifNotExists⟩,
  ⟨"table_rlist", Generated.schema_table_rlist, Generated.schema_table_rlist_ifNotExists⟩,
  ⟨"index_rlist_pk_idx", Generated.schema_index_rlist_pk_idx, Generated.schema_index_rlist_pk_idx_ifNotExists⟩,
  ⟨"trigger_rlist_on_update", Generated.schema_trigger_rlist_on_update, Generated.schema_trigger_rlist_on_update_ifNotExists⟩,
  ⟨"trigger_rlist_on_delete", Generated.schema_trigger_rlist_on_delete, Generated.schema_trigger_rlist_on_delete_ifNotExists⟩,
  ⟨"view_vlist", Generated.schema_view_vlist, Generated.schema_view_vlist_ifNotExists⟩,
  ⟨"table_rset", Generated.schema_table_rset, Generated.schema_table_rset_ifNotExists⟩,
  ⟨"index_rset_pk_idx", Generated.schema_index_rset_pk_idx, Generated.schema_index_rset_pk_idx_ifNotExists⟩,
  ⟨"trigger_rset_on_insert", Generated.schema_trigger_rset_on_insert, Generated.schema_trigger_rset_on_insert_ifNotExists⟩,
  ⟨"view_vset", Generated.schema_view_vset, Generated.schema_view_vset_ifNotExists⟩,
  ⟨"table_rhash", Generated.schema_table_rhash, Generated.schema_table_rhash_ifNotExists⟩,
  ⟨"index_rhash_pk_idx", Generated.schema_index_rhash_pk_idx, Generated.schema_index_rhash_pk_idx_ifNotExists⟩,
  ⟨"trigger_rhash_on_insert", Generated.schema_trigger_rhash_on_insert, Generated.schema_trigger_rhash_on_insert_ifNotExists⟩,
  ⟨"view_vhash", Generated.schema_view_vhash, Generated.schema_view_vhash_ifNotExists⟩,
  ⟨"table_rzset", Generated.schema_table_rzset, Generated.schema_table_rzset_ifNotExists⟩,
  ⟨"index_rzset_pk_idx", Generated.schema_index_rzset_pk_idx, Generated.schema_index_rzset_pk_idx_ifNotExists⟩,
  ⟨"index_rzset_score_idx", Generated.schema_index_rzset_score_idx, Generated.schema_index_rzset_score_idx_ifNotExists⟩,
  ⟨"trigger_rzset_on_insert", Generated.schema_trigger_rzset_on_insert, Generated.schema_trigger_rzset_on_insert_ifNotExists⟩,
  ⟨"view_vzset", Generated.schema_view_vzset, Generated.schema_view_vzset_ifNotExists⟩]

/-- The statement, executed on a database that already has the object, succeeds and leaves the rows
of the six tables alone: it is a `create … if not exists` (a no-op then), or it is the one statement
of the schema that is not a `create`, `pragma user_version = 1`, which stores a header field.
A `create` WITHOUT `if not exists` fails with "… already exists" on re-open. -/
def SchemaStmt.keepsContent (s : SchemaStmt) : Bool :=
  s.ifNotExists || s.text == "pragma user_version = 1"

def lookupStmt (tbl : List SchemaStmt) (n : String) : Option SchemaStmt := tbl.find? (fun s => s.name == n)

/-- every name in `names` has a statement in `tbl`, and that statement keeps the content -/
def allKeepOf (tbl : List SchemaStmt) (names : List String) : Bool :=
  names.all fun n => match lookupStmt tbl n with
    | some s => s.keepsContent
    | none => false

/-- Every statement of the schema — ranged over by the GENERATED list of names — is a
`create … if not exists` (or the `user_version` pragma). -/
def allIfNotExists : Bool := allKeepOf schemaTable Generated.schemaNames

/-- `sqlx.DB.createSchema` = `d.RW.Exec(sqlSchema)` on an existing database, as a function of the
schema: `none` = `Exec` returns an error and so does `Open`. -/
def createSchemaOf (tbl : List SchemaStmt) (names : List String) (db : DB) : Option DB :=
  if allKeepOf tbl names then some db else none

def createSchema (db : DB) : Option DB := createSchemaOf schemaTable Generated.schemaNames db

/-- Re-opening read-write, as far as the content goes: `createSchema` on the existing database
(an `Open` that fails shows nothing: `{}`). -/
def reopen (db : DB) : DB := (createSchema db).getD {}

def iter (f : DB → DB) : Nat → DB → DB
  | 0, db => db
  | n + 1, db => iter f n (f db)

/-! ### the whole of `Open`, `OpenRead`, `Close` -/

/-- `applySettings`: the pragmas are `Exec`'d on the RW connection; the one the model knows about is
`foreign_keys` (SQLite's default is off). -/
def applySettings (pragmas : String) (db : DB) : DB := { db with fk := hasPragma pragmas "foreign_keys=on" }

/-- `redka.Open` on an existing file with the default options: `sqlx.Open` = `applySettings`, then
`createSchema`. -/
def openRW (db : DB) : Option DB := createSchema (applySettings Generated.c_sqlx_DefaultPragma db)

/-- Does `OpenRead` reach `createSchema`? Only `sqlx.Open` calls `init`; `sqlx.New` does not. Read
off the generated body of `redka.OpenRead`. -/
def openReadRunsSchema : Bool :=
  hasSub Generated.c_redka_OpenRead "sqlx.Open(" || !hasSub Generated.c_redka_OpenRead "sqlx.New("

/-- Does a read-only `DB` start the background cleaner (which deletes)? Read off the generated guard
of `startBgManager` in `redka.new`. -/
def readOnlyStartsCleaner : Bool := Generated.c_new_bgStart != "[!opts.readonly] rdb.startBgManager()"

/-- `redka.OpenRead` on an existing file: nothing is executed on the database at all, unless the
source says otherwise (`none`: the model does not know what a cleaner on a read-only handle does). -/
def openRO (db : DB) : Option DB :=
  if readOnlyStartsCleaner then none
  else if openReadRunsSchema then createSchema db else some db

/-- `DB.Close` stops the cleaner's ticker and closes the two handles, nothing else (`none`: the
model does not know what else it does). TRUSTED: closing the last connection checkpoints the WAL
into the main file, which does not change what the next reader sees. -/
def close (db : DB) : Option DB :=
  if Generated.c_close_calls == "db.bg.Stop(); db.RW.Close(); db.RO.Close()" then some db else none

inductive Mode where | rw | ro
deriving DecidableEq, Repr

def openAs : Mode → DB → Option DB
  | .rw => openRW
  | .ro => openRO

/-- open in some mode, then close -/
def cycle (m : Mode) (db : DB) : Option DB := (openAs m db).bind close

def cycles : List Mode → DB → Option DB
  | [], db => some db
  | m :: ms, db => (cycle m db).bind (cycles ms)

/-! ## 3. the write-ahead log at transaction granularity -/

/-- the database file: what survives the death of the process -/
structure Store where
  committed : DB
deriving DecidableEq

/-- the process -/
structure Proc where
  store : Store
  /-- VOLATILE: result and working tables of the open transaction / running statement -/
  working : Option Res := none
  /-- operations whose transaction has ended (commit or rollback) -/
  settled : Nat := 0
  /-- VOLATILE on this side, but observed by the caller: results returned so far -/
  acks : Nat := 0

abbrev Workload := List (Op × Int)

/-- The statements of the method run. For an `Update`-wrapped method they run inside the
transaction, on its working tables (`Model.tx true`: a method that fails after a write leaves the
working tables half-written); an unwrapped method is a single statement on a handle. Nothing
reaches the store. -/
def exec (p : Proc) (o : Op × Int) : Proc :=
  { p with working := some (Model.tx (decide (wrapOf o.1 = .update)) o.1 o.2 p.store.committed) }

/-- The transaction ends. `execTx`: the body returned an error → deferred `Rollback`, the store is
untouched; otherwise `Commit`, TRUSTED to make the working tables the store atomically. An unwrapped
method's single statement auto-commits (TRUSTED: atomically). -/
def settle (p : Proc) (o : Op × Int) : Proc :=
  match p.working with
  | none => p
  | some r =>
    match wrapOf o.1, r.out with
    | .update, .error _ => { p with working := some { r with db := p.store.committed }, settled := p.settled + 1 }
    | _, _ => { p with store := ⟨r.db⟩, settled := p.settled + 1 }

/-- the `DB` method returns its result to the caller (in `execTx`, `return dtx.Commit()` is the last
statement: no result is returned before the commit has) -/
def ack (p : Proc) : Proc := { p with working := none, acks := p.acks + 1 }

/-- one whole operation -/
def complete (p : Proc) (o : Op × Int) : Proc := ack (settle (exec p o) o)

inductive Phase where
  /-- the operation has not started -/
  | before
  /-- its statements have run (all of them, or some: the working tables are lost either way) -/
  | duringBeforeCommit
  /-- the commit has happened, the caller has not got the result yet -/
  | afterCommitBeforeAck
  /-- the caller has the result, the next operation has not started -/
  | afterAck
deriving DecidableEq, Repr

/-- the process dies while operation `i` (0-based) is in `phase`; with `i ≥` the length of the
workload it dies idle, after the whole workload -/
structure Crash where
  i : Nat
  phase : Phase
deriving DecidableEq, Repr

/-- the transaction of the operation has ended -/
def Phase.settled : Phase → Bool
  | .before | .duringBeforeCommit => false
  | .afterCommitBeforeAck | .afterAck => true

def opUntil (ph : Phase) (p : Proc) (o : Op × Int) : Proc :=
  match ph with
  | .before => p
  | .duringBeforeCommit => exec p o
  | .afterCommitBeforeAck => settle (exec p o) o
  | .afterAck => complete p o

/-- the process started on the empty database -/
def boot : Proc := { store := ⟨{}⟩ }

/-- the process at the instant it dies -/
def runUntil (w : Workload) (c : Crash) : Proc :=
  let p := (w.take c.i).foldl complete boot
  match w[c.i]? with
  | none => p
  | some o => opUntil c.phase p o

/-- killing the process: only the file is left -/
def crash (p : Proc) : Store := p.store

/-- the committed tables in the file when the process died = what the next `Open` finds -/
def recovered (w : Workload) (c : Crash) : DB := (crash (runUntil w c)).committed

/-- how many operations had returned their result to the caller when the process died -/
def acked (w : Workload) (c : Crash) : Nat := (runUntil w c).acks

/-- how many operations' transactions had ended when the process died -/
def durable (w : Workload) (c : Crash) : Nat := (runUntil w c).settled

/-- a history of `DB`-level calls (`Props.C11.run`, restated here to keep the model free of proofs) -/
def runFrom (ops : Workload) (db : DB) : DB := ops.foldl (fun d p => (Model.dbRun p.1 p.2 d).db) db

/-- the database after the first `j` operations of the workload, run whole, from the empty one -/
def stateAfter (w : Workload) (j : Nat) : DB := runFrom (w.take j) {}

end Redka.Durable
