/-
  `internal/rset`: statements of tx.go, the `rset_on_insert` trigger, and the Tx methods.
-/
import RedkaModel.Model.Key

namespace Redka.Model

open Redka

/-- rows of one set in the order of the `(kid, elem)` index -/
def setRows (db : DB) (kid : Int) : List SetRow :=
  sortBy (fun a b => bytesLt a.elem b.elem) (db.sets.filter (fun r => r.kid == kid))

/-- `sqlAdd1` -/
def setAddKey (db : DB) (k : Bytes) (now : Int) : Except Err (DB × KeyRow) :=
  keyUpsert db k TSet
    (fun id => { id := id, key := k, ty := TSet, version := 1, etime := none, mtime := now, len := some 0 })
    (fun o => { o with version := o.version + 1, mtime := now })

/-- `insert into rset (kid, elem) values (?, ?)` + trigger `rset_on_insert` (len + 1);
`none` when `(kid, elem)` is already there -/
def setInsertRow (db : DB) (kid : Int) (e : Bytes) : Option DB :=
  if db.sets.any (fun r => r.kid == kid && r.elem == e) then none
  else
    let db1 : DB := { db with sets := db.sets ++ [({ rowid := db.nextSetRowid, kid := kid, elem := e } : SetRow)] }
    some (db1.updKey kid (fun o => { o with len := o.len.map (· + 1) }))

/-- the loop over `sqlAdd2` (`on conflict do nothing`) -/
def setAddElems (db : DB) (kid : Int) : List Bytes → Int → DB × Int
  | [], n => (db, n)
  | e :: es, n =>
    match setInsertRow db kid e with
    | none => setAddElems db kid es n
    | some db' => setAddElems db' kid es (n + 1)

def setAdd (db : DB) (k : Bytes) (es : List Bytes) (now : Int) : Res :=
  match setAddKey db k now with
  | .error e => .err e db
  | .ok (db1, r) =>
    let (db2, n) := setAddElems db1 r.id es 0
    .ok (.int n) db2

/-- `sqlDelete2` (= `sqlPop2`) -/
def setUpdKeyAfterDelete (db : DB) (k : Bytes) (n : Int) (now : Int) : DB :=
  match db.liveKeyT k TSet now with
  | none => db
  | some r => db.updKey r.id (fun o =>
      { o with version := o.version + 1, mtime := now, len := o.len.map (· - n) })

def setDelete (db : DB) (k : Bytes) (es : List Bytes) (now : Int) : Res :=
  match db.liveKeyT k TSet now with
  | none => .ok (.int 0) db
  | some r =>
    let gone := db.sets.filter (fun x => x.kid == r.id && es.contains x.elem)
    let n : Int := gone.length
    if n == 0 then .ok (.int 0) db
    else
      let db1 := { db with sets := db.sets.filter (fun x => !(x.kid == r.id && es.contains x.elem)) }
      .ok (.int n) (setUpdKeyAfterDelete db1 k n now)

/-- ids of the live set keys named in `ks` -/
def setKids (db : DB) (ks : List Bytes) (now : Int) : List Int :=
  (db.keys.filter (fun r => ks.contains r.key && r.ty == TSet && r.live now)).map (·.id)

/-- `sqlDiff` -/
def setDiffRaw (db : DB) (ks : List Bytes) (now : Int) : List Bytes :=
  match ks with
  | [] => []
  | first :: others =>
    let oids := setKids db others now
    let oelems := (db.sets.filter (fun r => oids.contains r.kid)).map (·.elem)
    match db.liveKeyT first TSet now with
    | none => []
    | some r => ((setRows db r.id).map (·.elem)).filter (fun e => !oelems.contains e)

/-- `sqlInter`: `having count(distinct kid) = countDistinct(keys)` -/
def setInterRaw (db : DB) (ks : List Bytes) (now : Int) : List Bytes :=
  let ids := setKids db ks now
  let rows := db.sets.filter (fun r => ids.contains r.kid)
  let elems := sortBy bytesLt (dedup (rows.map (·.elem)))
  elems.filter (fun e => ((rows.filter (fun r => r.elem == e)).length : Int) == (dedup ks).length)

/-- `sqlUnion` -/
def setUnionRaw (db : DB) (ks : List Bytes) (now : Int) : List Bytes :=
  let ids := setKids db ks now
  let rows := db.sets.filter (fun r => ids.contains r.kid)
  sortBy bytesLt (dedup (rows.map (·.elem)))

def bytesList (l : List Bytes) : Val := .list (l.map .bytes)

def setDiff (db : DB) (ks : List Bytes) (now : Int) : Res := .ok (bytesList (setDiffRaw db ks now)) db
def setInter (db : DB) (ks : List Bytes) (now : Int) : Res :=
  if ks.isEmpty then .ok (bytesList []) db else .ok (bytesList (setInterRaw db ks now)) db
def setUnion (db : DB) (ks : List Bytes) (now : Int) : Res :=
  if ks.isEmpty then .ok (bytesList []) db else .ok (bytesList (setUnionRaw db ks now)) db

/-- `deleteKey`: `sqlDeleteKey1`, `sqlDeleteKey2` -/
def setDeleteKey (db : DB) (k : Bytes) (now : Int) : DB :=
  match db.liveKeyT k TSet now with
  | none => db
  | some r =>
    let db1 := { db with sets := db.sets.filter (fun x => x.kid != r.id) }
    db1.updKey r.id (fun o => { o with version := 0, mtime := 0, len := some 0 })

/-- `insert into rset (kid, elem) select ?, elem …` without conflict clause -/
def setInsertAll (db : DB) (kid : Int) : List Bytes → Int → Except Err (DB × Int)
  | [], n => .ok (db, n)
  | e :: es, n =>
    match setInsertRow db kid e with
    | none => .error .sqlUnique
    | some db' => setInsertAll db' kid es (n + 1)

/-- `DiffStore` / `InterStore` / `UnionStore`: deleteKey, createKey, store -/
def setStore (db : DB) (d : Bytes) (ks : List Bytes) (now : Int)
    (compute : DB → List Bytes) : Res :=
  if ks.isEmpty then .ok (.int 0) db
  else
    let db1 := setDeleteKey db d now
    match setAddKey db1 d now with
    | .error e => .err e db1
    | .ok (db2, r) =>
      match setInsertAll db2 r.id (compute db2) 0 with
      | .error e => .err e db2
      | .ok (db3, n) => .ok (.int n) db3

def setDiffStore (db : DB) (d : Bytes) (ks : List Bytes) (now : Int) : Res :=
  setStore db d ks now (fun x => setDiffRaw x ks now)
def setInterStore (db : DB) (d : Bytes) (ks : List Bytes) (now : Int) : Res :=
  setStore db d ks now (fun x => setInterRaw x ks now)
def setUnionStore (db : DB) (d : Bytes) (ks : List Bytes) (now : Int) : Res :=
  setStore db d ks now (fun x => setUnionRaw x ks now)

def setExists (db : DB) (k e : Bytes) (now : Int) : Res :=
  match db.liveKeyT k TSet now with
  | none => .ok (.bool false) db
  | some r => .ok (.bool (db.sets.any (fun x => x.kid == r.id && x.elem == e))) db

def setItems (db : DB) (k : Bytes) (now : Int) : Res :=
  match db.liveKeyT k TSet now with
  | none => .ok (bytesList []) db
  | some r => .ok (bytesList ((setRows db r.id).map (·.elem))) db

def setLen (db : DB) (k : Bytes) (now : Int) : Res :=
  match db.liveKeyT k TSet now with
  | none => .ok (.int 0) db
  | some r => match r.len with
    | some n => .ok (.int n) db
    | none => .err .sqlOther db

def setMove (db : DB) (s d e : Bytes) (now : Int) : Res :=
  let r := setDelete db s [e] now
  match r.out with
  | .error er => .err er r.db
  | .ok (.int n) =>
    if n == 0 then .err .notFound r.db
    else
      let a := setAdd r.db d [e] now
      (match a.out with
       | .error er => .err er a.db
       | .ok _ => .ok .nil a.db)
  | .ok _ => .err .sqlOther r.db

/-- `Pop`: `order by random() limit 1`; the harness reports the popped element -/
def setPop (db : DB) (k : Bytes) (oracle : Option Bytes) (now : Int) : Res :=
  match db.liveKeyT k TSet now with
  | none => if oracle.isNone then .err .notFound db else .err .outOfDomain db
  | some r =>
    let rows := setRows db r.id
    match oracle with
    | none => if rows.isEmpty then .err .notFound db else .err .outOfDomain db
    | some e =>
      if rows.any (fun x => x.elem == e) then
        let db1 := { db with sets := db.sets.filter (fun x => !(x.kid == r.id && x.elem == e)) }
        .ok (.bytes e) (setUpdKeyAfterDelete db1 k 1 now)
      else .err .outOfDomain db

def setRandom (db : DB) (k : Bytes) (oracle : Option Bytes) (now : Int) : Res :=
  match db.liveKeyT k TSet now with
  | none => if oracle.isNone then .err .notFound db else .err .outOfDomain db
  | some r =>
    let rows := setRows db r.id
    match oracle with
    | none => if rows.isEmpty then .err .notFound db else .err .outOfDomain db
    | some e => if rows.any (fun x => x.elem == e) then .ok (.bytes e) db else .err .outOfDomain db

/-- `sqlScan`: no `order by`; the planner walks the `(kid, elem)` index -/
def setScan (db : DB) (k : Bytes) (cursor : Int) (pat : Bytes) (count : Int) (now : Int) : Res :=
  let count := if count == 0 then scanPageSize else count
  match db.liveKeyT k TSet now with
  | none => .ok (.list [.int 0, .list []]) db
  | some r =>
    let rows := (setRows db r.id).filter (fun x => decide (x.rowid > cursor) && Glob.sqliteGlob pat x.elem)
    let page := sqlLimit 0 count rows
    let cur := maxD 0 (page.map (·.rowid))
    .ok (.list [.int cur, bytesList (page.map (·.elem))]) db

end Redka.Model
