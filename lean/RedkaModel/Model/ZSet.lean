/-
  `internal/rzset`: statements of tx.go / range.go / delete.go / inter.go / union.go,
  the `rzset_on_insert` trigger, and the Tx methods and builder commands.
-/
import RedkaModel.Model.Key

namespace Redka.Model

open Redka

/-- `order by score, elem` -/
def zLt (a b : ZRow) : Bool :=
  Score.lt a.score b.score || (a.score == b.score && bytesLt a.elem b.elem)

/-- rows of one sorted set ordered by (score, elem) -/
def zRows (db : DB) (kid : Int) : List ZRow :=
  sortBy zLt (db.zsets.filter (fun r => r.kid == kid))

def zLiveRows (db : DB) (k : Bytes) (now : Int) : List ZRow :=
  match db.liveKeyT k TZSet now with
  | none => []
  | some r => zRows db r.id

/-- float addition on the modelled domain (finite sums are rounded to 53 bits) -/
def scoreAdd (a b : Score) : Option Score :=
  match Score.add a b with
  | some (.fin d) => some (.fin (round53 d))
  | r => r

def zItem (r : ZRow) : Val := .list [.bytes r.elem, .score r.score]

/-- `sqlCount` -/
def zCountElems (db : DB) (k : Bytes) (es : List Bytes) (now : Int) : Int :=
  ((zLiveRows db k now).filter (fun x => es.contains x.elem)).length

/-- `sqlAdd1` (= `sqlIncr1`, `sqlInterStore3`, `sqlUnionStore3`) -/
def zAddKey (db : DB) (k : Bytes) (now : Int) : Except Err (DB × KeyRow) :=
  keyUpsert db k TZSet
    (fun id => { id := id, key := k, ty := TZSet, version := 1, etime := none, mtime := now, len := some 0 })
    (fun o => { o with version := o.version + 1, mtime := now })

/-- insert of a fresh row with trigger `rzset_on_insert` (len + 1) -/
def zInsertNew (db : DB) (kid : Int) (e : Bytes) (s : Score) : DB :=
  let db1 : DB := { db with zsets := db.zsets ++
    [({ rowid := db.nextZRowid, kid := kid, elem := e, score := s } : ZRow)] }
  db1.updKey kid (fun o => { o with len := o.len.map (· + 1) })

/-- `sqlAdd2`: `on conflict (kid, elem) do update set score = excluded.score` -/
def zSetRow (db : DB) (kid : Int) (e : Bytes) (s : Score) : DB :=
  if db.zsets.any (fun r => r.kid == kid && r.elem == e) then
    { db with zsets := db.zsets.map (fun r =>
        if r.kid == kid && r.elem == e then { r with score := s } else r) }
  else zInsertNew db kid e s

/-- `tx.add` -/
def zAddTx (db : DB) (k e : Bytes) (s : Score) (now : Int) : Except Err DB :=
  match zAddKey db k now with
  | .error er => .error er
  | .ok (db1, r) => .ok (zSetRow db1 r.id e s)

def zAdd (db : DB) (k e : Bytes) (s : Score) (now : Int) : Res :=
  let c := zCountElems db k [e] now
  match zAddTx db k e s now with
  | .error er => .err er db
  | .ok d => .ok (.bool (c == 0)) d

def zAddManyLoop (db : DB) (k : Bytes) (now : Int) : List (Bytes × Score) → Except Err DB × DB
  | [] => (.ok db, db)
  | (e, s) :: rest =>
    match zAddTx db k e s now with
    | .error er => (.error er, db)
    | .ok d => zAddManyLoop d k now rest

def zAddMany (db : DB) (k : Bytes) (items : List (Bytes × Score)) (now : Int) : Res :=
  let c := zCountElems db k (items.map (·.1)) now
  match zAddManyLoop db k now items with
  | (.error er, d) => .err er d
  | (.ok _, d) => .ok (.int ((items.length : Int) - c)) d

def between (lo hi s : Score) : Bool := Score.le lo s && Score.le s hi

def zCount (db : DB) (k : Bytes) (lo hi : Score) (now : Int) : Res :=
  .ok (.int ((zLiveRows db k now).filter (fun x => between lo hi x.score)).length) db

/-- `sqlDelete2` (= `sqlUpdateKey`) -/
def zUpdKeyAfterDelete (db : DB) (k : Bytes) (n : Int) (now : Int) : DB :=
  match db.liveKeyT k TZSet now with
  | none => db
  | some r => db.updKey r.id (fun o =>
      { o with version := o.version + 1, mtime := now, len := o.len.map (· - n) })

/-- delete the rows of `k` selected by `p`, then update the key when anything was deleted -/
def zDeleteWhere (db : DB) (k : Bytes) (victims : List Bytes) (now : Int) : Res :=
  match db.liveKeyT k TZSet now with
  | none => .ok (.int 0) db
  | some r =>
    let n : Int := (db.zsets.filter (fun x => x.kid == r.id && victims.contains x.elem)).length
    if n == 0 then .ok (.int 0) db
    else
      let db1 := { db with zsets := db.zsets.filter (fun x => !(x.kid == r.id && victims.contains x.elem)) }
      .ok (.int n) (zUpdKeyAfterDelete db1 k n now)

def zDelete (db : DB) (k : Bytes) (es : List Bytes) (now : Int) : Res :=
  zDeleteWhere db k es now

/-- `DeleteWith(key).ByRank(a, b).Run()` -/
def zDeleteRank (db : DB) (k : Bytes) (a b : Int) (now : Int) : Res :=
  if a < 0 || b < 0 then .ok (.int 0) db
  else if a > b then .ok (.int 0) db          -- an inverted range selects nothing
  else
    let victims := (sqlLimit a (b - a + 1) (zLiveRows db k now)).map (·.elem)
    zDeleteWhere db k victims now

/-- `DeleteWith(key).ByScore(lo, hi).Run()` -/
def zDeleteScore (db : DB) (k : Bytes) (lo hi : Score) (now : Int) : Res :=
  let victims := ((zLiveRows db k now).filter (fun x => between lo hi x.score)).map (·.elem)
  zDeleteWhere db k victims now

def indexOf? {α} (p : α → Bool) : List α → Option Nat
  | [] => none
  | x :: xs => if p x then some 0 else (indexOf? p xs).map (· + 1)

def zGetRank (db : DB) (k e : Bytes) (rev : Bool) (now : Int) : Res :=
  let rows := zLiveRows db k now
  let rows := if rev then rows.reverse else rows
  match indexOf? (fun x : ZRow => x.elem == e) rows, rows.find? (fun x => x.elem == e) with
  | some i, some r => .ok (.list [.int i, .score r.score]) db
  | _, _ => .err .notFound db

def zGetScore (db : DB) (k e : Bytes) (now : Int) : Res :=
  match (zLiveRows db k now).find? (fun x => x.elem == e) with
  | none => .err .notFound db
  | some r => .ok (.score r.score) db

/-- `Incr`: `sqlIncr1`, `sqlIncr2` -/
def zIncr (db : DB) (k e : Bytes) (d : Score) (now : Int) : Res :=
  match zAddKey db k now with
  | .error er => .err er db
  | .ok (db1, r) =>
    match db1.zsets.find? (fun x => x.kid == r.id && x.elem == e) with
    | none => .ok (.score d) (zInsertNew db1 r.id e d)
    | some row =>
      match scoreAdd row.score d with
      | none => .err .sqlNotNull db1
      | some s => .ok (.score s) (zSetRow db1 r.id e s)

def zLen (db : DB) (k : Bytes) (now : Int) : Res :=
  match db.liveKeyT k TZSet now with
  | none => .ok (.int 0) db
  | some r => match r.len with
    | some n => .ok (.int n) db
    | none => .err .sqlOther db

/-- `rangeRank` -/
def zRangeRank (db : DB) (k : Bytes) (a b : Int) (desc : Bool) (now : Int) : Res :=
  if a < 0 || b < 0 then .ok (.list []) db
  else
    let rows := zLiveRows db k now
    let rows := if desc then rows.reverse else rows
    let sel := if a > b then [] else sqlLimit a (b - a + 1) rows
    .ok (.list (sel.map zItem)) db

/-- `rangeScore` with its three `limit` shapes -/
def zRangeScore (db : DB) (k : Bytes) (lo hi : Score) (desc : Bool) (offset count : Int) (now : Int) : Res :=
  let rows := (zLiveRows db k now).filter (fun x => between lo hi x.score)
  let rows := if desc then rows.reverse else rows
  let rows :=
    if offset > 0 && count > 0 then sqlLimit offset count rows
    else if count > 0 then sqlLimit 0 count rows
    else if offset > 0 then sqlLimit offset (-1) rows
    else rows
  .ok (.list (rows.map zItem)) db

/-- ids of the live sorted-set keys named in `ks` -/
def zKids (db : DB) (ks : List Bytes) (now : Int) : List Int :=
  (db.keys.filter (fun r => ks.contains r.key && r.ty == TZSet && r.live now)).map (·.id)

/-- `sum(score)` / `min(score)` / `max(score)` over a group; `none` = NaN → NULL -/
def aggScores (agg : Agg) : List Score → Option Score
  | [] => none
  | s :: ss =>
    ss.foldl (fun acc x => match acc with
      | none => none
      | some a => match agg with
        | .sum => scoreAdd a x
        | .min => some (Score.min a x)
        | .max => some (Score.max a x)) (some s)

/-! ### `sum()` of SQLite ≥ 3.43: Kahan–Babuška–Neumaier compensated summation

`sumStep` keeps a running sum `rSum` and a running compensation `rErr`; for each value `r`:
`t = rSum + r; rErr += (|rSum| > |r|) ? (rSum - t) + r : (r - t) + rSum; rSum = t`, and `sumFinalize`
answers `rSum + rErr` — every operation an IEEE double operation (`round53`). With an infinity among the
values `rErr` becomes NaN and the plain `rSum` is the answer. For one or two values this is the correctly
rounded sum (what `aggScores` computes); for three or more it is NOT the left-to-right float sum
(`0.1 + 0.7 - 0.3` gives `0.5`, not `0.49999999999999994`). -/

def dyAbs (x : Dyadic) : Dyadic := if x < 0 then -x else x

def kbnStep (st : Dyadic × Dyadic) (r : Dyadic) : Dyadic × Dyadic :=
  let s := st.1
  let t := round53 (s + r)
  let c := if dyAbs s > dyAbs r then round53 (round53 (s - t) + r) else round53 (round53 (r - t) + s)
  (t, round53 (st.2 + c))

def finiteScores : List Score → Option (List Dyadic)
  | [] => some []
  | .fin d :: r => (finiteScores r).map (d :: ·)
  | _ :: _ => none

/-- `sum(score)` over a group as SQLite computes it -/
def kbnScores (l : List Score) : Option Score :=
  match finiteScores l with
  | none => aggScores .sum l                    -- an infinity: the compensation is NaN, `rSum` is returned
  | some [] => none
  | some ds =>
    let st := ds.foldl kbnStep (0, 0)
    some (.fin (round53 (st.1 + st.2)))

/-- the aggregate of one group: the compensated sum where it can differ from the plain one (three or more
keys), otherwise `aggScores` (for which order-independence is proved) -/
def aggGroup (ks : List Bytes) (agg : Agg) (l : List Score) : Option Score :=
  if agg = .sum ∧ (dedup ks).length ≥ 3 then kbnScores l else aggScores agg l

/-- `group by elem [having count(distinct kid) = n] order by agg(score), elem` -/
def zCombine (db : DB) (ks : List Bytes) (agg : Agg) (inter : Bool) (now : Int) :
    List (Bytes × Option Score) :=
  let ids := zKids db ks now
  let rows := db.zsets.filter (fun r => ids.contains r.kid)
  let elems := dedup (rows.map (·.elem))
  let groups := elems.filterMap (fun e =>
    let g := rows.filter (fun r => r.elem == e)
    if inter && !((g.length : Int) == (dedup ks).length) then none      -- `countDistinct(keys)`
    else some (e, aggGroup ks agg (g.map (·.score))))
  sortBy (fun a b => match a.2, b.2 with
    | some x, some y => Score.lt x y || (x == y && bytesLt a.1 b.1)
    | none, some _ => true           -- NULL sorts first
    | some _, none => false
    | none, none => bytesLt a.1 b.1) groups

def zCombineRun (db : DB) (ks : List Bytes) (agg : Agg) (inter : Bool) (now : Int) : Res :=
  let g := zCombine db ks agg inter now
  if g.any (fun p => p.2.isNone) then .err .sqlOther db    -- Scan of NULL into float64
  else .ok (.list (g.filterMap (fun p => p.2.map (fun s => .list [.bytes p.1, .score s])))) db

/-- `sqlDeleteAll1`, `sqlDeleteAll2` -/
def zDeleteAll (db : DB) (k : Bytes) (now : Int) : DB :=
  match db.liveKeyT k TZSet now with
  | none => db
  | some r =>
    let db1 := { db with zsets := db.zsets.filter (fun x => x.kid != r.id) }
    db1.updKey r.id (fun o => { o with version := 0, mtime := 0, len := some 0 })

def zInsertAll (db : DB) (kid : Int) : List (Bytes × Option Score) → Int → Except Err (DB × Int)
  | [], n => .ok (db, n)
  | (e, s) :: rest, n =>
    match s with
    | none => .error .sqlNotNull
    | some s =>
      if db.zsets.any (fun r => r.kid == kid && r.elem == e) then .error .sqlUnique
      else zInsertAll (zInsertNew db kid e s) kid rest (n + 1)

/-- `InterCmd.store` / `UnionCmd.store` -/
def zCombineStore (db : DB) (d : Bytes) (ks : List Bytes) (agg : Agg) (inter : Bool) (now : Int) : Res :=
  let db1 := zDeleteAll db d now
  match zAddKey db1 d now with
  | .error e => .err e db1
  | .ok (db2, r) =>
    match zInsertAll db2 r.id (zCombine db2 ks agg inter now) 0 with
    | .error e => .err e db2
    | .ok (db3, n) => .ok (.int n) db3

/-- the literal prefix of a GLOB pattern: the bytes before the first `*`, `?`, `[` or NUL -/
def globPrefix : Bytes → Bytes
  | [] => []
  | c :: cs => if c == 42 || c == 63 || c == 91 || c == 0 then [] else c :: globPrefix cs

/-- How SQLite orders the rows of `sqlScan` (there is no `order by`): with a pattern that has a
usable literal prefix, `isLikeOrGlob` turns `elem glob ?` into a range on `elem` and the planner
walks `rzset_pk_idx (kid, elem)`; otherwise it answers from the covering index
`rzset_score_idx (kid, score, elem)`. `elem` has BLOB affinity, so a prefix that looks like a
number disables the optimisation; that test (`sqlite3AtoF`) is not modelled: `none`. -/
def zScanByElem (pat : Bytes) : Option Bool :=
  let pre := globPrefix (Glob.cstr pat)
  match pre.head?, pre.getLast? with
  | none, _ => some false
  | some c, some l =>
    if l == 255 then some false
    else if isDigit c || c == 43 || c == 45 || c == 46 || c == 32 || (9 ≤ c && c ≤ 13) then none
    else some true
  | _, _ => some false

/-- `sqlScan` -/
def zScan (db : DB) (k : Bytes) (cursor : Int) (pat : Bytes) (count : Int) (now : Int) : Res :=
  let count := if count == 0 then scanPageSize else count
  match zScanByElem pat with
  | none => .err .outOfDomain db
  | some byElem =>
    let rows := zLiveRows db k now
    let rows := if byElem then sortBy (fun (a b : ZRow) => bytesLt a.elem b.elem) rows else rows
    let rows := rows.filter (fun x => decide (x.rowid > cursor) && Glob.sqliteGlob pat x.elem)
    let page := sqlLimit 0 count rows
    let cur := maxD 0 (page.map (·.rowid))
    .ok (.list [.int cur, .list (page.map zItem)]) db

end Redka.Model
