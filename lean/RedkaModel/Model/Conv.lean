/-
  `core.ToBytes` (internal/core/core.go): how the Go API turns a value argument into the stored bytes.
  Floats are printed with `strconv.FormatFloat(v, 'f', -1, 64)` (`Redka.formatFloatDec`). Core Lean only.
-/
import RedkaModel.Basic

namespace Redka.Conv

open Redka

/-- the accepted dynamic types of a value argument, floats excepted -/
inductive GoVal where
  | bool (b : Bool)
  /-- a Go `int`: statements about it assume `minInt64 ≤ i ≤ maxInt64` where that matters -/
  | int (i : Int)
  | str (s : Bytes)
  | bytes (b : Bytes)

def toBytes : GoVal → Bytes
  | .bool true => [49]
  | .bool false => [48]
  | .int i => itoa i
  | .str s => s
  | .bytes b => b

/-- every accepted dynamic type: the four above and `float64` (a normal float64 as an exact dyadic) -/
inductive GoArg where
  | val (v : GoVal)
  | float (d : Dyadic)

/-- `core.ToBytes`; `none`: a float outside the domain of `formatFloatDec` (not a normal float64) -/
def argBytes : GoArg → Option Bytes
  | .val v => some (toBytes v)
  | .float d => formatFloatDec d

end Redka.Conv
