/-
  `core.ToBytes` (internal/core/core.go): how the Go API turns a value argument into the stored bytes.
  Floats (`strconv.FormatFloat(v, 'f', -1, 64)`) are not modelled here. Core Lean only.
-/
import RedkaModel.Basic

namespace Redka.Conv

open Redka

/-- the accepted dynamic types of a value argument, floats excepted -/
inductive GoVal where
  | bool (b : Bool)
  /-- a Go `int`: statements about it assume `minInt64 ≤ i ≤ maxInt64` where that matters -/
  | int (i : Int)
  | str (s : Bytes)
  | bytes (b : Bytes)

def toBytes : GoVal → Bytes
  | .bool true => [49]
  | .bool false => [48]
  | .int i => itoa i
  | .str s => s
  | .bytes b => b

end Redka.Conv
