/-
  Concurrent execution: a CONTRACT-LEVEL model of how the two `database/sql` handles of
  `internal/sqlx/db.go` and SQLite's locking serialise the statements of concurrent callers.

  THIS IS A MODEL OF SQLITE'S (AND database/sql's) DOCUMENTED CONTRACT, NOT OF SQLITE. Nothing here
  is derived from SQLite's code. What is written down is, per configuration, which events may
  happen when, what a statement sees, and when it fails:

    (1) A `*sql.DB` with `SetMaxOpenConns(n)`, n > 0, never has more than n connections checked out;
        a `BeginTx` or `Exec` that finds none free WAITS (it does not fail). A `*sql.Tx` keeps its
        connection from `BeginTx` to `Commit`/`Rollback`. With n = 1 this alone excludes every other
        use of the RW handle while a transaction is open.  (`rwFree`; a schedule in which such an
        event happens anyway is not a schedule of the system: `step` = `none`.)
    (2) WAL journal, and the server's `vfs=memdb` store: a read statement on another connection
        sees the last committed state, taken at the statement; it neither waits for nor fails
        because of an open write transaction. (For `memdb` the real VFS makes a reader wait in the
        busy handler while a writer holds its lock; every such execution is one of the schedules
        admitted here — the read event simply comes after the commit — so the theorems cover it.
        That the busy timeout is never exhausted is TRUSTED.)
    (3) Shared cache (what `DataSource` selects for ":memory:"): table-level locks; a read of a
        table the open write transaction has written fails with "database table is locked"
        (SQLITE_LOCKED, not retried by the busy handler). Known defect D15. The model makes the
        read fail when the private copy of `rkey` — which every read statement of the code joins —
        differs from the committed one; the real thing fails at least then.
    (4) More than one RW connection: `BEGIN IMMEDIATE` (`_txlock=immediate`) takes the write lock
        at `begin`; when another transaction holds it the call fails with SQLITE_BUSY once the busy
        handler gives up (event `begin` with outcome `busy`; waiting successfully is the same
        schedule with the `begin` later). Deferred `BEGIN` takes nothing; the transaction reads,
        then tries to upgrade at its first write, and fails with SQLITE_BUSY when another
        transaction holds the write lock — so of two overlapping increments one is lost WITH an
        error (SQLite never lets the stale one overwrite: that part of its contract is kept).
        An auto-committed write statement meets the same lock.

  Granularity. A client asks for a JOB: one `DB`-level method, or a user-defined block
  `db.Update(func(tx) error {…})` of several. How a method reaches the database is what
  `Model.wrapOf` says (proved equal to the wrapper kind extracted from the source,
  `Props.C07.model_wrap_matches_source`); a block is `update`-wrapped by definition:
    `.update`   : `call, begin, body, commit`  — `begin` = `d.RW.BeginTx`, `body` = the whole
                  callback `f(tx)` as ONE event (under rule (1) nothing that touches the RW side
                  can come between its statements, and readers see committed state only; for the
                  multi-connection instances of rule (4) this is a coarsening: enough for the
                  counterexamples, not a faithful model of statement-level interleaving there),
                  `commit` = `dtx.Commit()` when the body returned nil, else the deferred
                  `dtx.Rollback()`; the job returns at this event;
    `.rwDirect` : `call, stmt` — one auto-committed statement on `d.RW`;
    `.roDirect` : `call, stmt` — one statement on a connection of `d.RO` (the pool has 2–8
                  connections; a reader that finds none free waits — invisible at this granularity).
  `call` is the instant the client invokes the method (and reads the clock: `now` travels with the
  job, so the sequential order need not be monotone in `now`); between `call` and the first SQL
  event the client may be waiting for the connection. The job RETURNS at its last event
  (`commit`/`stmt`); a later return only removes real-time constraints
  (`Proofs.Sched.respects_of_later_returns`). `View` blocks are not modelled.

  Not exhibited by the model (trusted): the Go scheduler; `database/sql`'s pool implementation
  (only its `MaxOpenConns` contract is used); busy-handler timing; crashes (C07/C09); other
  processes opening the same file; the statement-level atomicity and isolation of SQLite itself.
-/
import RedkaModel.Model.Fault
import RedkaModel.Generated.Consts

namespace Redka.Sched

open Redka

/-! ### configuration -/

inductive Journal where
  | wal          -- on-disk file, `journal_mode = wal`
  | memdb        -- `file:/data.db?vfs=memdb` (the server's in-memory store)
  | sharedCache  -- `file:redka?mode=memory&cache=shared` (what `DataSource` makes of ":memory:")
deriving DecidableEq, Repr

structure Cfg where
  /-- argument of `d.RW.SetMaxOpenConns`; 0 = unlimited (database/sql's meaning of n ≤ 0) -/
  rwConns : Nat
  /-- `_txlock=immediate` on the writable handle -/
  txImmediate : Bool
  journal : Journal
deriving DecidableEq, Repr

def cfgWal : Cfg := ⟨1, true, .wal⟩
def cfgMemdb : Cfg := ⟨1, true, .memdb⟩
def cfgShared : Cfg := ⟨1, true, .sharedCache⟩

/-! #### the instance the source selects (read from the generated constants) -/

/-- the bytes of a string (kernel-evaluable; the constants are ASCII) -/
def codes (s : String) : List Nat := s.toByteArray.data.toList.map UInt8.toNat

def isPrefixL : List Nat → List Nat → Bool
  | [], _ => true
  | _ :: _, [] => false
  | a :: as, b :: bs => a == b && isPrefixL as bs

def isInfixL (p : List Nat) : List Nat → Bool
  | [] => p.isEmpty
  | b :: bs => isPrefixL p (b :: bs) || isInfixL p bs

def has (s p : String) : Bool := isInfixL (codes p) (codes s)

def natOfDigits : List Nat → Nat → Option Nat
  | [], acc => some acc
  | c :: cs, acc => if 48 ≤ c ∧ c ≤ 57 then natOfDigits cs (acc * 10 + (c - 48)) else none

def parseNat (s : String) : Option Nat :=
  if (codes s).isEmpty then none else natOfDigits (codes s) 0

/-- `d.RW.SetMaxOpenConns(<n>)` in `setNumConns`; anything that is not a literal number counts as
"unlimited" -/
def rwConnsOfSource : Nat := (parseNat Generated.c_sqlx_rwMaxOpenConns).getD 0

/-- `DataSource` sets `_txlock=immediate` exactly under `if writable` -/
def txImmediateOfSource : Bool :=
  has Generated.c_sqlx_DataSource_params "[writable] params.Set(\"_txlock\", \"immediate\");"

/-- `DataSource` turns ":memory:" into a shared-cache database -/
def memoryIsSharedCache : Bool :=
  has Generated.c_sqlx_DataSource_params "[source == \":memory:\"] params.Set(\"cache\", \"shared\");"

/-- where the data lives -/
inductive Store where
  | diskLib       -- `redka.Open("some/file.db", nil)`: pragmas from `sqlx.DefaultPragma`
  | diskServer    -- `cmd/redka` with a path: pragmas from the connect hook
  | memoryLib     -- `redka.Open(":memory:", nil)`
  | memoryServer  -- `cmd/redka` without a path: `memoryURI`
deriving DecidableEq, Repr

/-- the journal/locking regime of a store; `none` when the constants are not what this model
understands (e.g. `journal_mode` no longer `wal`) -/
def journalOfSource : Store → Option Journal
  | .diskLib => if has Generated.c_sqlx_DefaultPragma "journal_mode=wal" then some .wal else none
  | .diskServer => if has Generated.c_main_pragma "pragma journal_mode = wal;" then some .wal else none
  | .memoryLib => if memoryIsSharedCache then some .sharedCache else none
  | .memoryServer => if has Generated.c_main_memoryURI "vfs=memdb" then some .memdb else none

/-- the weakest instance: stands in for "not understood"; none of the positive theorems holds of it -/
def cfgUnknown : Cfg := ⟨0, false, .sharedCache⟩

def cfgOf (s : Store) : Cfg :=
  match journalOfSource s with
  | some j => ⟨rwConnsOfSource, txImmediateOfSource, j⟩
  | none => cfgUnknown

/-- the default on-disk configuration of the library -/
def cfgOfSource : Cfg := cfgOf .diskLib

/-! ### what a client asks for -/

/-- One `DB`-level method, or a user-defined transaction block
`db.Update(func(tx) error { op₁; …; opₙ })` (`propagate`: the callback returns the first error it
meets; otherwise it ignores errors and returns nil). -/
inductive Job where
  | op (o : Op)
  | block (propagate : Bool) (ops : List Op)

/-- how the job reaches the database (`Model.wrapOf` for the methods; a block is `Update`) -/
def Job.wrap : Job → Model.Wrap
  | .op o => Model.wrapOf o
  | .block .. => .update

/-- the callback that runs inside the RW transaction, on the transaction's working tables -/
def Job.txBody (j : Job) (now : Int) (db : DB) : Res :=
  match j with
  | .op o => Model.tx true o now db
  | .block propagate ops =>
    let r := Model.runOps propagate now ops db
    ⟨(match r.1 with | some e => .error e | none => .ok .nil), r.2⟩

/-- the single statement of a job that runs outside a transaction -/
def Job.direct (j : Job) (now : Int) (db : DB) : Res :=
  match j with
  | .op o => Model.tx false o now db
  | .block .. => j.txBody now db    -- not reachable: a block is `update`-wrapped

/-- the job executed alone: the sequential reference (`Model.dbRun` for a method, `execTx` around
the callback for a block — `Proofs.Sched.block_is_execTx`) -/
def Job.seq (j : Job) (now : Int) (db : DB) : Res :=
  match j with
  | .op o => Model.dbRun o now db
  | .block .. => update (j.txBody now) db

/-! ### events, schedules, histories -/

abbrev Client := Nat

inductive Ev where
  | call (job : Job) (now : Int)
  | begin
  | body
  | commit
  | stmt

abbrev Schedule := List (Client × Ev)

/-- what the caller gets: the method's own result, or a failure that exists only because another
operation is running -/
inductive Outcome where
  | done (o : Out)
  | busy      -- SQLITE_BUSY "database is locked"
  | locked    -- SQLITE_LOCKED "database table is locked"

def Outcome.isDone : Outcome → Bool
  | .done _ => true
  | _ => false

def Outcome.isBusy : Outcome → Bool
  | .busy => true
  | _ => false

def Outcome.isLocked : Outcome → Bool
  | .locked => true
  | _ => false

/-- succeeded with a value -/
def Outcome.isOk : Outcome → Bool
  | .done (.ok _) => true
  | _ => false

/-- where an operation in flight stands -/
inductive Phase where
  | called                            -- invoked; possibly waiting for a connection
  | begun (snap : DB)                 -- RW transaction open; `snap` = committed state at `begin`
  | bodied (out : Out) (priv : DB)    -- callback has run on the private copy

def Phase.isTx : Phase → Bool
  | .called => false
  | _ => true

/-- does a transaction in this phase hold SQLite's write lock? -/
def Phase.holdsWriteLock (immediate : Bool) : Phase → Bool
  | .called => false
  | .begun _ => immediate
  | .bodied .. => true

/-- an operation in flight -/
structure Act where
  client : Client
  job : Job
  now : Int
  /-- position of the `call` event in the schedule -/
  call : Nat
  phase : Phase

/-- a completed operation -/
structure Rec where
  client : Client
  job : Job
  now : Int
  call : Nat
  /-- position of the event at which it returned (`commit` / `stmt` / a failing `begin`, `body`) -/
  ret : Nat
  out : Outcome

/-- the global state, which is also the history so far -/
structure St where
  /-- number of events so far -/
  pos : Nat
  committed : DB
  /-- operations in flight, at most one per client -/
  acts : List Act
  /-- completed operations in the order in which they returned -/
  log : List Rec

abbrev History := St

def St.init (db : DB) : St := ⟨0, db, [], []⟩

/-- remove the operation of client `c` from the list of operations in flight -/
def take (c : Client) : List Act → Option (Act × List Act)
  | [] => none
  | a :: as =>
    if a.client = c then some (a, as)
    else match take c as with
      | none => none
      | some (x, r) => some (x, a :: r)

/-- connections of the RW pool that are checked out (by open transactions; a single statement
takes and returns its connection within its one event) -/
def rwInUse (l : List Act) : Nat := (l.filter (fun a => a.phase.isTx)).length

/-- rule (1): is a connection of the RW pool free? -/
def rwFree (cfg : Cfg) (others : List Act) : Bool :=
  cfg.rwConns == 0 || decide (rwInUse others < cfg.rwConns)

/-- does another transaction hold the write lock? -/
def lockHeld (cfg : Cfg) (others : List Act) : Bool :=
  others.any (fun a => a.phase.holdsWriteLock cfg.txImmediate)

/-- rule (3): an open transaction that has written `rkey` -/
def writtenKeys (committed : DB) (a : Act) : Bool :=
  match a.phase with
  | .bodied _ priv => decide (priv.keys ≠ committed.keys)
  | _ => false

/-- the operation `a` returns with outcome `o`, leaving committed state `db` -/
def finish (st : St) (a : Act) (rest : List Act) (o : Outcome) (db : DB) : St :=
  { pos := st.pos + 1, committed := db, acts := rest,
    log := st.log ++ [{ client := a.client, job := a.job, now := a.now, call := a.call, ret := st.pos, out := o }] }

/-- the operation `a` moves on to phase `p` -/
def advance (st : St) (a : Act) (rest : List Act) (p : Phase) : St :=
  { st with pos := st.pos + 1, acts := { a with phase := p } :: rest }

def stepBegin (cfg : Cfg) (st : St) (a : Act) (rest : List Act) : Option St :=
  match a.phase, a.job.wrap with
  | .called, .update =>
    if !rwFree cfg rest then none                                  -- waits for the connection
    else if cfg.txImmediate && lockHeld cfg rest then
      some (finish st a rest .busy st.committed)                   -- BEGIN IMMEDIATE: SQLITE_BUSY
    else some (advance st a rest (.begun st.committed))
  | _, _ => none

def stepBody (cfg : Cfg) (st : St) (a : Act) (rest : List Act) : Option St :=
  match a.phase with
  | .begun snap =>
    if cfg.txImmediate then
      let r := a.job.txBody a.now snap
      some (advance st a rest (.bodied r.out r.db))
    else if lockHeld cfg rest then
      some (finish st a rest .busy st.committed)                   -- deferred: upgrade fails, rolled back
    else
      let r := a.job.txBody a.now st.committed                     -- deferred: snapshot at first read
      some (advance st a rest (.bodied r.out r.db))
  | _ => none

def stepCommit (st : St) (a : Act) (rest : List Act) : Option St :=
  match a.phase with
  | .bodied out priv =>
    some (finish st a rest (.done out)
      (match out with
       | .ok _ => priv             -- `dtx.Commit()`: publish
       | .error _ => st.committed)) -- deferred `dtx.Rollback()`
  | _ => none

def stepStmt (cfg : Cfg) (st : St) (a : Act) (rest : List Act) : Option St :=
  match a.phase, a.job.wrap with
  | .called, .rwDirect =>
    if !rwFree cfg rest then none                                  -- waits for the connection
    else if lockHeld cfg rest then some (finish st a rest .busy st.committed)
    else
      let r := a.job.direct a.now st.committed
      some (finish st a rest (.done r.out) r.db)
  | .called, .roDirect =>
    if cfg.journal == .sharedCache && rest.any (writtenKeys st.committed) then
      some (finish st a rest .locked st.committed)                 -- rule (3), D15
    else
      -- rule (2): the committed state; a connection of the read-only handle publishes nothing
      some (finish st a rest (.done (a.job.direct a.now st.committed).out) st.committed)
  | _, _ => none

/-- one event; `none` = this event cannot happen here under the protocol -/
def step (cfg : Cfg) (st : St) (e : Client × Ev) : Option St :=
  match e.2 with
  | .call job now =>
    if st.acts.any (fun a => a.client == e.1) then none            -- a client is sequential
    else some { st with pos := st.pos + 1, acts := st.acts ++ [⟨e.1, job, now, st.pos, .called⟩] }
  | .begin => match take e.1 st.acts with
    | none => none
    | some (a, rest) => stepBegin cfg st a rest
  | .body => match take e.1 st.acts with
    | none => none
    | some (a, rest) => stepBody cfg st a rest
  | .commit => match take e.1 st.acts with
    | none => none
    | some (a, rest) => stepCommit st a rest
  | .stmt => match take e.1 st.acts with
    | none => none
    | some (a, rest) => stepStmt cfg st a rest

def runFrom (cfg : Cfg) : St → Schedule → Option St
  | st, [] => some st
  | st, e :: es =>
    match step cfg st e with
    | none => none
    | some st' => runFrom cfg st' es

/-- the history of a schedule started on `init`; `none` when the schedule breaks the protocol -/
def run (cfg : Cfg) (init : DB) (s : Schedule) : Option History := runFrom cfg (St.init init) s

/-- a schedule of the system in which every operation called has returned -/
def valid (cfg : Cfg) (init : DB) (s : Schedule) : Bool :=
  match run cfg init s with
  | some h => h.acts.isEmpty
  | none => false

def Valid (cfg : Cfg) (init : DB) (s : Schedule) : Prop := valid cfg init s = true

instance (cfg : Cfg) (init : DB) (s : Schedule) : Decidable (Valid cfg init s) :=
  inferInstanceAs (Decidable (_ = true))

/-- a schedule of the system, operations possibly still in flight at its end -/
def Admitted (cfg : Cfg) (init : DB) (s : Schedule) : Prop := (run cfg init s).isSome = true

instance (cfg : Cfg) (init : DB) (s : Schedule) : Decidable (Admitted cfg init s) :=
  inferInstanceAs (Decidable (_ = true))

/-- the operations called in a schedule and not returned by its end -/
def inFlight (cfg : Cfg) (init : DB) (s : Schedule) : List Act :=
  match run cfg init s with
  | some h => h.acts
  | none => []

/-- the completed operations of a schedule, in the order in which they returned -/
def history (cfg : Cfg) (init : DB) (s : Schedule) : List Rec :=
  match run cfg init s with
  | some h => h.log
  | none => []

/-- the committed state at the end of a schedule -/
def finalState (cfg : Cfg) (init : DB) (s : Schedule) : DB :=
  match run cfg init s with
  | some h => h.committed
  | none => init

/-! ### the sequential reference -/

/-- the jobs one after the other, each alone (`Model.dbRun` for the `DB`-level methods) -/
def seqRun : List (Job × Int) → DB → List Out × DB
  | [], db => ([], db)
  | (job, now) :: rest, db =>
    let r := job.seq now db
    let t := seqRun rest r.db
    (r.out :: t.1, t.2)

/-- the `call` events of a schedule with their positions, in schedule order -/
def callsFrom : Nat → Schedule → List (Client × Job × Int × Nat)
  | _, [] => []
  | n, (c, .call job now) :: es => (c, job, now, n) :: callsFrom (n + 1) es
  | n, _ :: es => callsFrom (n + 1) es

/-- the operations of a schedule: who called what, with which clock value, at which position -/
def calls (s : Schedule) : List (Client × Job × Int × Nat) := callsFrom 0 s

/-- … as invocations `(job, clock value)` -/
def opsOf (s : Schedule) : List (Job × Int) := (calls s).map (fun c => (c.2.1, c.2.2.1))

def Rec.key (r : Rec) : Client × Job × Int × Nat := (r.client, r.job, r.now, r.call)
def Act.key (a : Act) : Client × Job × Int × Nat := (a.client, a.job, a.now, a.call)
def Rec.inv (r : Rec) : Job × Int := (r.job, r.now)

/-- `order` respects real time: no operation is placed before one that had returned before it was
called -/
def RespectsRealTime (order : List Rec) : Prop :=
  order.Pairwise (fun a b => ¬ (b.ret < a.call))

end Redka.Sched
