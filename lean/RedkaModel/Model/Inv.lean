/-
  The structural audit of C11 as a Bool (run by the driver on every real dump) and as a Prop.
-/
import RedkaModel.Model.Schema

namespace Redka

def nodupB {α} [DecidableEq α] : List α → Bool
  | [] => true
  | x :: xs => !xs.contains x && nodupB xs

namespace DB

def childCount (db : DB) (r : KeyRow) : Int :=
  if r.ty == TList then (db.lists.filter (fun x => x.kid == r.id)).length
  else if r.ty == TSet then (db.sets.filter (fun x => x.kid == r.id)).length
  else if r.ty == THash then (db.hashes.filter (fun x => x.kid == r.id)).length
  else if r.ty == TZSet then (db.zsets.filter (fun x => x.kid == r.id)).length
  else 0

def ownerOk (db : DB) (kid : Int) (ty : Int) : Bool :=
  db.keys.any (fun r => r.id == kid && r.ty == ty)

/-- every key row is well-formed and its cached length equals the number of child rows -/
def keysOk (db : DB) : Bool :=
  db.keys.all (fun r =>
    decide (1 ≤ r.ty) && decide (r.ty ≤ 5) &&
    (if r.ty == TString then
        r.len.isNone && (db.strs.filter (fun s => s.kid == r.id)).length == 1
     else r.len == some (db.childCount r)))

/-- every child row belongs to an existing key of the matching type -/
def ownersOk (db : DB) : Bool :=
  db.strs.all (fun r => db.ownerOk r.kid TString) &&
  db.lists.all (fun r => db.ownerOk r.kid TList) &&
  db.sets.all (fun r => db.ownerOk r.kid TSet) &&
  db.hashes.all (fun r => db.ownerOk r.kid THash) &&
  db.zsets.all (fun r => db.ownerOk r.kid TZSet)

/-- uniqueness: ids, names, one value per string, (kid,pos), (kid,elem), (kid,field), rowids -/
def uniqueOk (db : DB) : Bool :=
  nodupB (db.keys.map (·.id)) &&
  nodupB (db.keys.map (·.key)) &&
  nodupB (db.strs.map (·.kid)) &&
  nodupB (db.lists.map (fun r => (r.kid, r.pos))) &&
  nodupB (db.sets.map (fun r => (r.kid, r.elem))) &&
  nodupB (db.hashes.map (fun r => (r.kid, r.field))) &&
  nodupB (db.zsets.map (fun r => (r.kid, r.elem))) &&
  nodupB (db.sets.map (·.rowid)) &&
  nodupB (db.hashes.map (·.rowid)) &&
  nodupB (db.zsets.map (·.rowid))

/-- the C11 audit -/
def invB (db : DB) : Bool := db.keysOk && db.ownersOk && db.uniqueOk

def Inv (db : DB) : Prop := db.invB = true

end DB
end Redka
