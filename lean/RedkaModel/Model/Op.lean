/-
  One constructor per public repository method (`DB.Str()/List()/Set()/Hash()/ZSet()/Key()`),
  builder commands included. Values typed `any` in Go arrive here already as bytes
  (`core.ToBytes` is modelled and checked separately, C17).
-/
import RedkaModel.Model.Schema

namespace Redka

inductive Agg where | sum | min | max
deriving DecidableEq, Repr

structure SetOpts where
  ifExists : Bool := false
  ifNotExists : Bool := false
  /-- `TTL(d)`, milliseconds; applied only when `> 0` -/
  ttl : Int := 0
  /-- `At(t)`, unix milliseconds; `none` = zero time -/
  atMs : Option Int := none
  keepTTL : Bool := false
deriving DecidableEq

inductive Op where
  -- strings
  | strGet (k : Bytes)
  | strGetMany (ks : List Bytes)
  | strIncr (k : Bytes) (d : Int)
  | strIncrFloat (k : Bytes) (d : Dyadic)
  | strSet (k v : Bytes)
  | strSetExpires (k v : Bytes) (ttl : Int)
  | strSetMany (items : List (Bytes × Bytes))
  | strSetWith (k v : Bytes) (o : SetOpts)
  -- keys
  | keyCount (ks : List Bytes)
  | keyDelete (ks : List Bytes)
  | keyDeleteAll
  | keyDeleteExpired (n : Int)
  | keyExists (k : Bytes)
  | keyExpire (k : Bytes) (ttl : Int)
  | keyExpireAt (k : Bytes) (atMs : Int)
  | keyGet (k : Bytes)
  | keyKeys (pat : Bytes)
  | keyLen
  | keyPersist (k : Bytes)
  | keyRandom (oracle : Option Bytes)
  | keyRename (k nk : Bytes)
  | keyRenameNX (k nk : Bytes)
  | keyScan (cursor : Int) (pat : Bytes) (ty : Int) (count : Int)
  -- lists
  | listDelete (k e : Bytes)
  | listDeleteBack (k e : Bytes) (n : Int)
  | listDeleteFront (k e : Bytes) (n : Int)
  | listGet (k : Bytes) (i : Int)
  | listInsertAfter (k p e : Bytes)
  | listInsertBefore (k p e : Bytes)
  | listLen (k : Bytes)
  | listPopBack (k : Bytes)
  | listPopBackPushFront (s d : Bytes)
  | listPopFront (k : Bytes)
  | listPushBack (k e : Bytes)
  | listPushFront (k e : Bytes)
  | listRange (k : Bytes) (a b : Int)
  | listSet (k : Bytes) (i : Int) (e : Bytes)
  | listTrim (k : Bytes) (a b : Int)
  -- sets
  | setAdd (k : Bytes) (es : List Bytes)
  | setDelete (k : Bytes) (es : List Bytes)
  | setDiff (ks : List Bytes)
  | setDiffStore (d : Bytes) (ks : List Bytes)
  | setExists (k e : Bytes)
  | setInter (ks : List Bytes)
  | setInterStore (d : Bytes) (ks : List Bytes)
  | setItems (k : Bytes)
  | setLen (k : Bytes)
  | setMove (s d e : Bytes)
  | setPop (k : Bytes) (oracle : Option Bytes)
  | setRandom (k : Bytes) (oracle : Option Bytes)
  | setScan (k : Bytes) (cursor : Int) (pat : Bytes) (count : Int)
  | setUnion (ks : List Bytes)
  | setUnionStore (d : Bytes) (ks : List Bytes)
  -- hashes
  | hashDelete (k : Bytes) (fs : List Bytes)
  | hashExists (k f : Bytes)
  | hashFields (k : Bytes)
  | hashGet (k f : Bytes)
  | hashGetMany (k : Bytes) (fs : List Bytes)
  | hashIncr (k f : Bytes) (d : Int)
  | hashIncrFloat (k f : Bytes) (d : Dyadic)
  | hashItems (k : Bytes)
  | hashLen (k : Bytes)
  | hashScan (k : Bytes) (cursor : Int) (pat : Bytes) (count : Int)
  | hashSet (k f v : Bytes)
  | hashSetMany (k : Bytes) (items : List (Bytes × Bytes))
  | hashSetNotExists (k f v : Bytes)
  | hashValues (k : Bytes)
  -- sorted sets
  | zAdd (k e : Bytes) (s : Score)
  | zAddMany (k : Bytes) (items : List (Bytes × Score))
  | zCount (k : Bytes) (lo hi : Score)
  | zDelete (k : Bytes) (es : List Bytes)
  | zDeleteRank (k : Bytes) (a b : Int)
  | zDeleteScore (k : Bytes) (lo hi : Score)
  | zGetRank (k e : Bytes)
  | zGetRankRev (k e : Bytes)
  | zGetScore (k e : Bytes)
  | zIncr (k e : Bytes) (d : Score)
  | zInter (ks : List Bytes) (agg : Agg)
  | zInterStore (d : Bytes) (ks : List Bytes) (agg : Agg)
  | zLen (k : Bytes)
  | zRangeRank (k : Bytes) (a b : Int) (desc : Bool)
  | zRangeScore (k : Bytes) (lo hi : Score) (desc : Bool) (offset count : Int)
  | zScan (k : Bytes) (cursor : Int) (pat : Bytes) (count : Int)
  | zUnion (ks : List Bytes) (agg : Agg)
  | zUnionStore (d : Bytes) (ks : List Bytes) (agg : Agg)

end Redka
