/-
  scanner.go of `rkey`, `rset`, `rhash`, `rzset`: the iterator objects, run over the Model's `Scan`
  functions, and the views of the tables as the candidate-row lists of `Model/Scan.lean`.
-/
import RedkaModel.Model.Scan
import RedkaModel.Model.Key
import RedkaModel.Model.Set
import RedkaModel.Model.Hash
import RedkaModel.Model.ZSet

namespace Redka.Scan

open Redka Redka.Model

/-- `ScanResult{Cursor, Items}` as the Model's `Scan` functions encode it -/
def scanResult (r : Res) : Option (Int × List Val) :=
  match r.out with
  | .ok (.list [.int c, .list items]) => some (c, items)
  | _ => none

/-- `Scanner.Scan` called until it returns false, collecting `Scanner.Item()`: fetch a page with
the current cursor, stop on an error or an empty page, otherwise hand out the items and continue
with the returned cursor.  `step` is the repository's `Scan` with everything but the cursor fixed. -/
def scannerLoop (step : Int → Res) : Nat → Int → List Val
  | 0, _ => []
  | fuel + 1, c =>
    match scanResult (step c) with
    | none => []
    | some (c', items) => if items.isEmpty then [] else items ++ scannerLoop step fuel c'

/-- `rkey.Tx.Scanner(pattern, ktype, pageSize)` drained -/
def keyScanner (db : DB) (pat : Bytes) (ty : Int) (pageSize : Int) (now : Int) : List Val :=
  scannerLoop (fun c => keyScan db c pat ty pageSize now) (db.keys.length + 1) 0

/-- `rset.Tx.Scanner(key, pattern, pageSize)` drained -/
def setScanner (db : DB) (k : Bytes) (pat : Bytes) (pageSize : Int) (now : Int) : List Val :=
  scannerLoop (fun c => setScan db k c pat pageSize now) (db.sets.length + 1) 0

/-- `rhash.Tx.Scanner(key, pattern, pageSize)` drained -/
def hashScanner (db : DB) (k : Bytes) (pat : Bytes) (pageSize : Int) (now : Int) : List Val :=
  scannerLoop (fun c => hashScan db k c pat pageSize now) (db.hashes.length + 1) 0

/-- `rzset.Tx.Scanner(key, pattern, pageSize)` drained -/
def zScanner (db : DB) (k : Bytes) (pat : Bytes) (pageSize : Int) (now : Int) : List Val :=
  scannerLoop (fun c => zScan db k c pat pageSize now) (db.zsets.length + 1) 0

/-! ### the tables as candidate rows, in the order the statements produce them -/

/-- `rkey` in `order by id asc` -/
def keyRows (db : DB) : List (Row KeyRow) :=
  (sortBy (fun a b => decide (a.id < b.id)) db.keys).map (fun k => ⟨k.id, k⟩)

/-- `key glob ? and (type = ? [or true]) and (etime is null or etime > ?)` -/
def keyPred (pat : Bytes) (ty : Int) (now : Int) (k : KeyRow) : Bool :=
  Glob.sqliteGlob pat k.key && (ty == 0 || k.ty == ty) && k.live now

/-- the rows of one set in `(kid, elem)` index order, cursor column `rowid` -/
def setRowsOf (db : DB) (kid : Int) : List (Row SetRow) :=
  (setRows db kid).map (fun r => ⟨r.rowid, r⟩)

/-- the rows of one hash in `(kid, field)` index order, cursor column `rowid` -/
def hashRowsOf (db : DB) (kid : Int) : List (Row HashRow) :=
  (hashRows db kid).map (fun r => ⟨r.rowid, r⟩)

/-- the rows of one sorted set in the order in which `sqlScan` produces them, cursor column
`rowid`.  `byElem = false`: the covering index `rzset_score_idx (kid, score, elem)` — by score,
then by member bytes; `byElem = true` (pattern with a usable literal prefix, `Model.zScanByElem`):
`rzset_pk_idx (kid, elem)` — by member bytes. -/
def zRowsOfBy (byElem : Bool) (db : DB) (kid : Int) : List (Row ZRow) :=
  (if byElem then sortBy (fun (a b : ZRow) => bytesLt a.elem b.elem) (zRows db kid)
   else zRows db kid).map (fun r => ⟨r.rowid, r⟩)

end Redka.Scan
