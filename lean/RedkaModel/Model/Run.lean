/-
  Dispatch: `Model.tx` is what the `Tx` method does to the tables statement by statement
  (partial effects stay when it returns an error after a write); `Model.dbRun` is the `DB`-level
  method, i.e. the same wrapped in `Update` where the code wraps it.
-/
import RedkaModel.Model.Str
import RedkaModel.Model.Key
import RedkaModel.Model.List
import RedkaModel.Model.Set
import RedkaModel.Model.Hash
import RedkaModel.Model.ZSet

namespace Redka.Model

open Redka

/-- `inTx`: the method runs inside a SQL transaction (matters only for `DeleteAll`'s VACUUM) -/
def tx (inTx : Bool) (op : Op) (now : Int) (db : DB) : Res :=
  match op with
  | .strGet k => strGet db k now
  | .strGetMany ks => strGetMany db ks now
  | .strIncr k d => strIncr db k d now
  | .strIncrFloat k d => strIncrFloat db k d now
  | .strSet k v => strSet db k v none now
  | .strSetExpires k v ttl => strSetExpires db k v ttl now
  | .strSetMany items => strSetMany db items now
  | .strSetWith k v o => strSetWith db k v o now
  | .keyCount ks => keyCount db ks now
  | .keyDelete ks => keyDelete db ks now
  | .keyDeleteAll => keyDeleteAll db inTx
  | .keyDeleteExpired n => keyDeleteExpired db n now
  | .keyExists k => keyExists db k now
  | .keyExpire k ttl => keyExpire db k ttl now
  | .keyExpireAt k t => keyExpireAt db k t now
  | .keyGet k => keyGet db k now
  | .keyKeys p => keyKeys db p now
  | .keyLen => keyLen db
  | .keyPersist k => keyPersist db k now
  | .keyRandom o => keyRandom db o now
  | .keyRename k nk => keyRename db k nk now
  | .keyRenameNX k nk => keyRenameNX db k nk now
  | .keyScan c p t n => keyScan db c p t n now
  | .listDelete k e => listDelete db k e now
  | .listDeleteBack k e n => listDeleteN db k e n true now
  | .listDeleteFront k e n => listDeleteN db k e n false now
  | .listGet k i => listGet db k i now
  | .listInsertAfter k p e => listInsert db k p e true now
  | .listInsertBefore k p e => listInsert db k p e false now
  | .listLen k => listLen db k now
  | .listPopBack k => listPop db k false now
  | .listPopBackPushFront s d => listPopBackPushFront db s d now
  | .listPopFront k => listPop db k true now
  | .listPushBack k e => listPush db k e false now
  | .listPushFront k e => listPush db k e true now
  | .listRange k a b => listRange db k a b now
  | .listSet k i e => listSet db k i e now
  | .listTrim k a b => listTrim db k a b now
  | .setAdd k es => setAdd db k es now
  | .setDelete k es => setDelete db k es now
  | .setDiff ks => setDiff db ks now
  | .setDiffStore d ks => setDiffStore db d ks now
  | .setExists k e => setExists db k e now
  | .setInter ks => setInter db ks now
  | .setInterStore d ks => setInterStore db d ks now
  | .setItems k => setItems db k now
  | .setLen k => setLen db k now
  | .setMove s d e => setMove db s d e now
  | .setPop k o => setPop db k o now
  | .setRandom k o => setRandom db k o now
  | .setScan k c p n => setScan db k c p n now
  | .setUnion ks => setUnion db ks now
  | .setUnionStore d ks => setUnionStore db d ks now
  | .hashDelete k fs => hashDelete db k fs now
  | .hashExists k f => hashExists db k f now
  | .hashFields k => hashFields db k now
  | .hashGet k f => hashGet db k f now
  | .hashGetMany k fs => hashGetMany db k fs now
  | .hashIncr k f d => hashIncr db k f d now
  | .hashIncrFloat k f d => hashIncrFloat db k f d now
  | .hashItems k => hashItems db k now
  | .hashLen k => hashLen db k now
  | .hashScan k c p n => hashScan db k c p n now
  | .hashSet k f v => hashSet db k f v now
  | .hashSetMany k items => hashSetMany db k items now
  | .hashSetNotExists k f v => hashSetNotExists db k f v now
  | .hashValues k => hashValues db k now
  | .zAdd k e s => zAdd db k e s now
  | .zAddMany k items => zAddMany db k items now
  | .zCount k lo hi => zCount db k lo hi now
  | .zDelete k es => zDelete db k es now
  | .zDeleteRank k a b => zDeleteRank db k a b now
  | .zDeleteScore k lo hi => zDeleteScore db k lo hi now
  | .zGetRank k e => zGetRank db k e false now
  | .zGetRankRev k e => zGetRank db k e true now
  | .zGetScore k e => zGetScore db k e now
  | .zIncr k e d => zIncr db k e d now
  | .zInter ks agg => zCombineRun db ks agg true now
  | .zInterStore d ks agg => zCombineStore db d ks agg true now
  | .zLen k => zLen db k now
  | .zRangeRank k a b desc => zRangeRank db k a b desc now
  | .zRangeScore k lo hi desc off cnt => zRangeScore db k lo hi desc off cnt now
  | .zScan k c p n => zScan db k c p n now
  | .zUnion ks agg => zCombineRun db ks agg false now
  | .zUnionStore d ks agg => zCombineStore db d ks agg false now

/-- How the `DB`-level method reaches its `Tx` method (`internal/r*/db.go`):
`update` = inside `d.Update(...)` (rollback on error); `direct` = straight on a handle,
which is only sound for single-statement methods. This table is what `Tie/Facts` checks against
the wrapper kinds extracted from the source. -/
inductive Wrap where | update | roDirect | rwDirect
deriving DecidableEq, Repr

def wrapOf : Op → Wrap
  | .strGet _ | .strGetMany _ => .roDirect
  | .strIncr .. | .strIncrFloat .. | .strSet .. | .strSetExpires .. | .strSetMany _ | .strSetWith .. => .update
  | .keyCount _ | .keyExists _ | .keyGet _ | .keyKeys _ | .keyLen | .keyRandom _ | .keyScan .. => .roDirect
  | .keyDelete _ | .keyDeleteAll | .keyDeleteExpired _ | .keyExpire .. | .keyExpireAt .. | .keyPersist _ => .rwDirect
  | .keyRename .. | .keyRenameNX .. => .update
  | .listGet .. | .listLen _ | .listRange .. => .roDirect
  | .listDelete .. | .listDeleteBack .. | .listDeleteFront .. | .listInsertAfter .. | .listInsertBefore ..
  | .listPopBack _ | .listPopBackPushFront .. | .listPopFront _ | .listPushBack .. | .listPushFront ..
  | .listSet .. | .listTrim .. => .update
  | .setDiff _ | .setExists .. | .setInter _ | .setItems _ | .setLen _ | .setRandom .. | .setScan ..
  | .setUnion _ => .roDirect
  | .setAdd .. | .setDelete .. | .setDiffStore .. | .setInterStore .. | .setMove .. | .setPop ..
  | .setUnionStore .. => .update
  | .hashExists .. | .hashFields _ | .hashGet .. | .hashGetMany .. | .hashItems _ | .hashLen _
  | .hashScan .. | .hashValues _ => .roDirect
  | .hashDelete .. | .hashIncr .. | .hashIncrFloat .. | .hashSet .. | .hashSetMany .. | .hashSetNotExists .. => .update
  | .zCount .. | .zGetRank .. | .zGetRankRev .. | .zGetScore .. | .zInter .. | .zLen _ | .zRangeRank ..
  | .zRangeScore .. | .zScan .. | .zUnion .. => .roDirect
  | .zAdd .. | .zAddMany .. | .zDelete .. | .zDeleteRank .. | .zDeleteScore .. | .zIncr .. | .zInterStore ..
  | .zUnionStore .. => .update

def dbRun (op : Op) (now : Int) (db : DB) : Res :=
  match wrapOf op with
  | .update => update (tx true op now) db
  | _ => tx false op now db

end Redka.Model
