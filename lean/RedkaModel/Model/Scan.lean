/-
  Cursor iteration, abstractly.

  Every `Scan` of redka (`rkey`, `rset`, `rhash`, `rzset`) is one SQL statement of the shape

      select … where <cursor column> > ? and <name> glob ? [and …] [order by …] limit ?

  followed by a Go computation of the cursor that is handed back to the caller, and every
  `Scanner` (scanner.go of the four packages) is the same loop around it: fetch a page with the
  current cursor, stop when the page is empty.  What differs is
    * the ORDER in which SQLite produces the candidate rows (`order by id` for keys; no `order by`
      for the three collections, where the planner walks the `(kid, elem)` / `(kid, field)` index,
      i.e. the rows come sorted by member BYTES), and
    * the cursor rule (id of the LAST row of the page for keys; MAXIMUM rowid of the page for the
      collections).
  This file models exactly that: `rows` is the candidate list IN THE ORDER THE STATEMENT PRODUCES
  IT, `page` is one call, `iterate` is the scanner.  Core Lean only.
-/
import RedkaModel.Basic

namespace Redka.Scan

open Redka

/-- A candidate row: `id` is the cursor column (`rkey.id`, or the `rowid` of a child table),
`val` is everything else. -/
structure Row (α : Type) where
  id : Int
  val : α
deriving DecidableEq, Repr

variable {α : Type}

/-- the `where` clause: `id > cursor and <p>` -/
def sel (p : α → Bool) (cursor : Int) (r : Row α) : Bool :=
  decide (r.id > cursor) && p r.val

/-- SQL `limit ?`: `none` is "no limit" (what SQLite does with a negative count) -/
def limit {β : Type} (count : Option Nat) (l : List β) : List β :=
  match count with
  | none => l
  | some n => l.take n

/-- One `Scan` call: the first `count` rows, IN THE GIVEN ROW ORDER, whose id exceeds the cursor
and whose value matches `p`. -/
def page (rows : List (Row α)) (p : α → Bool) (cursor : Int) (count : Option Nat) : List (Row α) :=
  limit count (rows.filter (sel p cursor))

/-- `rkey.Tx.Scan`: `keys[len(keys)-1].ID`, `0` for an empty page -/
def nextCursorLast (pg : List (Row α)) : Int :=
  match pg.getLast? with
  | none => 0
  | some r => r.id

/-- `rset` / `rhash` / `rzset` `Tx.Scan`: `maxID := 0; for … { if rowID > maxID { maxID = rowID } }` -/
def nextCursorMax (pg : List (Row α)) : Int := maxD 0 (pg.map (·.id))

inductive CursorRule where
  | last
  | max
deriving DecidableEq, Repr

def CursorRule.next : CursorRule → List (Row α) → Int
  | .last, pg => nextCursorLast pg
  | .max, pg => nextCursorMax pg

/-- The scanner loop from a given cursor: fetch a page; an empty page ends the iteration, otherwise
hand out its rows and continue with the cursor the call returned.  `fuel` bounds the number of
calls (`Proofs/Scan.lean`, `iterateFrom_fuel`: more fuel than there are selectable rows never
changes the result, for either cursor rule and any row order). -/
def iterateFrom (rule : CursorRule) (rows : List (Row α)) (p : α → Bool) (count : Option Nat) :
    Nat → Int → List (Row α)
  | 0, _ => []
  | fuel + 1, c =>
    let pg := page rows p c count
    if pg.isEmpty then [] else pg ++ iterateFrom rule rows p count fuel (rule.next pg)

/-- The scanner: starts with cursor 0. -/
def iterate (rule : CursorRule) (rows : List (Row α)) (p : α → Bool) (count : Option Nat) :
    List (Row α) :=
  iterateFrom rule rows p count (rows.length + 1) 0

/-- The same loop, keeping the pages apart and recording the page that ended it. -/
def pagesFrom (rule : CursorRule) (rows : List (Row α)) (p : α → Bool) (count : Option Nat) :
    Nat → Int → List (List (Row α))
  | 0, _ => []
  | fuel + 1, c =>
    let pg := page rows p c count
    if pg.isEmpty then [pg] else pg :: pagesFrom rule rows p count fuel (rule.next pg)

def pages (rule : CursorRule) (rows : List (Row α)) (p : α → Bool) (count : Option Nat) :
    List (List (Row α)) :=
  pagesFrom rule rows p count (rows.length + 1) 0

/-- the default page size of all four packages (`scanPageSize`) -/
def defaultPageSize : Nat := 10

/-- What the Go `count int` argument means once it has gone through `if count == 0 { count =
scanPageSize }` and SQLite's `limit`: negative is unlimited. -/
def goCount (count : Int) : Option Nat :=
  if count == 0 then some defaultPageSize
  else if count < 0 then none
  else some count.toNat

/-- rows in strictly increasing id order, all ids positive (what `order by id` gives on a table
whose ids are distinct and positive) -/
def SortedById (rows : List (Row α)) : Prop :=
  rows.Pairwise (fun a b => a.id < b.id) ∧ ∀ r ∈ rows, 0 < r.id

/-- The iteration hands out every matching row exactly once (in some order). -/
def Complete (rule : CursorRule) (rows : List (Row α)) (p : α → Bool) (count : Option Nat) : Prop :=
  (iterate rule rows p count).Perm (rows.filter (fun r => p r.val))

end Redka.Scan
