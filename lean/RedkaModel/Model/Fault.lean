/-
  `execTx` of `internal/sqlx/db.go` with faults, and user transaction bodies.

      func (d *DB[T]) execTx(ctx, writable, f) error {
          dtx, err := d.RW.BeginTx(ctx, nil)          -- (1) may fail
          if err != nil { return err }
          defer func() { _ = dtx.Rollback() }()       -- (2) runs on every exit, also while a panic unwinds
          tx := d.newT(dtx)
          err = f(tx)                                 -- (3) the callback: may return an error, panic,
          if err != nil { return err }                --     or find its context cancelled
          return dtx.Commit()                         -- (4) may fail
      }

  What is modelled is this control structure. What is TRUSTED and not modelled below the statement
  level: a SQLite rollback restores the tables as they were at `BEGIN` (`rollback`), a commit makes
  the working tables the database, and a single SQL statement is atomic.

  Core Lean only.
-/
import RedkaModel.Model.Run

namespace Redka.Model

open Redka

/-- where the transaction is hit -/
inductive Fault where
  /-- nothing goes wrong -/
  | none
  /-- (1) `BeginTx` returns an error (pool exhausted, `SQLITE_BUSY`, context already done) -/
  | beginFails
  /-- (3) the callback returns an error of its own after `afterPrefix` operations; this is also a
  storage failure inside operation `afterPrefix + 1` that the body hands on: whatever that
  operation had written so far is part of the working tables that are rolled back -/
  | callbackError (afterPrefix : Nat)
  /-- (3) the callback panics after `afterPrefix` operations -/
  | callbackPanics (afterPrefix : Nat)
  /-- (3) the context is cancelled after `afterPrefix` operations: `database/sql` rolls the
  transaction back at once, every later statement and the commit fail with `ErrTxDone` -/
  | ctxCancelled (afterPrefix : Nat)
  /-- (4) `Commit` returns an error (I/O error, disk full, `SQLITE_BUSY` on the WAL) -/
  | commitFails
deriving DecidableEq, Repr

/-- why `execTx` returned an error -/
inductive Abort where
  | beginFailed
  /-- an operation of the body failed and the body handed the error on -/
  | bodyError (e : Err)
  | callbackError
  | panicked
  | cancelled
  | commitFailed
deriving DecidableEq, Repr

deriving instance DecidableEq for Except

/-- how the process was set up -/
structure Env where
  /-- pragmas are applied to every new connection by a connect hook (`cmd/redka`); `false`: they
  were applied once by `Exec` in `sqlx.Open` (the library default), so a connection that
  `database/sql` opens later has SQLite's defaults, `foreign_keys = off` among them -/
  pragmaHook : Bool := true
deriving DecidableEq, Repr

/-- the six tables with the connection's `foreign_keys` flag forgotten: `tables a = tables b` says
that `a` and `b` hold the same rows in every table -/
def tables (d : DB) : DB := { d with fk := true }

/-- TRUSTED: `sql.Tx.Rollback` gives back the tables as they were at `BEGIN`, whatever the
transaction had done -/
def rollback (committed _working : DB) : DB := committed

/-- The callback `f(tx)`: the operations run one after the other on the transaction's working
tables, each as its `Tx` method (`Model.tx true`: partial effects of a failing method stay). A body
that `propagate`s stops at the first failing operation and returns its error; a body that does not
ignores the error and goes on (and returns `nil`). -/
def runOps (propagate : Bool) (now : Int) : List Op → DB → Option Err × DB
  | [], db => (none, db)
  | op :: rest, db =>
    let r := Model.tx true op now db
    match r.out with
    | .error e => if propagate then (some e, r.db) else runOps propagate now rest r.db
    | .ok _ => runOps propagate now rest r.db

/-- all operations applied in sequence, whatever they return -/
def foldOps (now : Int) (body : List Op) (db : DB) : DB :=
  body.foldl (fun d op => (Model.tx true op now d).db) db

/-- some operation of the body, run in sequence, reports an error -/
def bodyErrs (now : Int) : List Op → DB → Bool
  | [], _ => false
  | op :: rest, db =>
    let r := Model.tx true op now db
    (match r.out with | .error _ => true | .ok _ => false) || bodyErrs now rest r.db

/-- the operations the callback gets to run before the fault -/
def Fault.reached (fault : Fault) (body : List Op) : List Op :=
  match fault with
  | .callbackError n | .callbackPanics n | .ctxCancelled n => body.take n
  | _ => body

/-- After a cancelled context `database/sql` discards the connection and opens a new one (defect
D14, worst case: on every cancellation). Without a connect hook the new connection has
`foreign_keys = off`. -/
def connAfterCancel (env : Env) (db : DB) : DB :=
  if env.pragmaHook then db else { db with fk := false }

/-- `execTx(ctx, true, f)` with `f` = `body` and one fault. Second component: the database
afterwards. -/
def runTx (env : Env) (propagate : Bool) (body : List Op) (fault : Fault) (now : Int) (db : DB) :
    Except Abort Unit × DB :=
  -- (1)
  if fault = .beginFails then (.error .beginFailed, db)
  else
    -- (3)
    let r := runOps propagate now (fault.reached body) db
    match r.1 with
    | some e => (.error (.bodyError e), rollback db r.2)              -- `return err`, then (2)
    | none =>
      match fault with
      | .callbackError _ => (.error .callbackError, rollback db r.2)  -- `return err`, then (2)
      | .callbackPanics _ => (.error .panicked, rollback db r.2)      -- (2) while unwinding
      | .ctxCancelled _ => (.error .cancelled, connAfterCancel env (rollback db r.2))
      | .commitFails => (.error .commitFailed, rollback db r.2)       -- (4) fails, then (2)
      | _ => (.ok (), r.2)                                            -- (4); (2) is a no-op

/-- the connection survives the fault -/
def connKept (env : Env) (fault : Fault) : Bool :=
  env.pragmaHook || (match fault with | .ctxCancelled _ => false | _ => true)

/-- One `DB`-level write operation under a fault: the `update`-wrapped methods are
`d.Update(func(tx) error { …; return err })`, a propagating body of one operation. -/
def dbRunFault (env : Env) (op : Op) (fault : Fault) (now : Int) (db : DB) : Except Abort Unit × DB :=
  runTx env true [op] fault now db

end Redka.Model
