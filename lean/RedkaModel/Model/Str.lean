/-
  `internal/rstring`: statements of tx.go / set.go and the Tx methods composed from them.
-/
import RedkaModel.Model.Op

namespace Redka.Model

open Redka

/-- `sqlGet` -/
def strGetRaw (db : DB) (k : Bytes) (now : Int) : Option Bytes :=
  match db.liveKeyT k TString now with
  | none => none
  | some r => (db.strs.find? (fun s => s.kid == r.id)).map (·.value)

/-- `sqlSet1` -/
def strSet1 (db : DB) (k : Bytes) (etime : Option Int) (now : Int) : Except Err (DB × KeyRow) :=
  keyUpsert db k TString
    (fun id => { id := id, key := k, ty := TString, version := 1, etime := etime, mtime := now, len := none })
    (fun o => { o with version := o.version + 1, etime := etime, mtime := now })

/-- `sqlUpdate1` -/
def strUpdate1 (db : DB) (k : Bytes) (now : Int) : Except Err (DB × KeyRow) :=
  keyUpsert db k TString
    (fun id => { id := id, key := k, ty := TString, version := 1, etime := none, mtime := now, len := none })
    (fun o => { o with version := o.version + 1, mtime := now })

/-- `sqlSet2` (= `sqlUpdate2`): upsert of the value row, key id looked up by name without guard -/
def strSet2 (db : DB) (k : Bytes) (v : Bytes) : Except Err DB :=
  match db.findKey k with
  | none => .error .sqlNotNull
  | some r =>
    if db.strs.any (fun s => s.kid == r.id) then
      .ok { db with strs := db.strs.map (fun s => if s.kid == r.id then { s with value := v } else s) }
    else
      .ok { db with strs := db.strs ++ [{ kid := r.id, value := v }] }

/-- `set(tx, key, value, at)` -/
def strSetTx (db : DB) (k v : Bytes) (etime : Option Int) (now : Int) : Except Err DB × DB :=
  match strSet1 db k etime now with
  | .error e => (.error e, db)
  | .ok (db1, _) =>
    match strSet2 db1 k v with
    | .error e => (.error e, db1)
    | .ok db2 => (.ok db2, db2)

/-- `update(tx, key, value)` -/
def strUpdateTx (db : DB) (k v : Bytes) (now : Int) : Except Err DB × DB :=
  match strUpdate1 db k now with
  | .error e => (.error e, db)
  | .ok (db1, _) =>
    match strSet2 db1 k v with
    | .error e => (.error e, db1)
    | .ok db2 => (.ok db2, db2)

def strGet (db : DB) (k : Bytes) (now : Int) : Res :=
  match strGetRaw db k now with
  | none => .err .notFound db
  | some v => .ok (.bytes v) db

/-- `sqlGetMany`: result as a key-sorted association list -/
def strGetMany (db : DB) (ks : List Bytes) (now : Int) : Res :=
  let rows := db.keys.filter (fun r => ks.contains r.key && r.ty == TString && r.live now)
  let items := rows.filterMap (fun r =>
    (db.strs.find? (fun s => s.kid == r.id)).map (fun s => (r.key, s.value)))
  let items := sortBy (fun a b => bytesLt a.1 b.1) items
  .ok (.list (items.map (fun p => .list [.bytes p.1, .bytes p.2]))) db

def strSet (db : DB) (k v : Bytes) (etime : Option Int) (now : Int) : Res :=
  match strSetTx db k v etime now with
  | (.error e, d) => .err e d
  | (.ok _, d) => .ok .nil d

def strSetExpires (db : DB) (k v : Bytes) (ttl : Int) (now : Int) : Res :=
  strSet db k v (if ttl > 0 then some (now + ttl) else none) now

def strIncr (db : DB) (k : Bytes) (d : Int) (now : Int) : Res :=
  let cur := (strGetRaw db k now).getD []
  match valueInt cur with
  | none => .err .valueType db
  | some n =>
    let nv := wrap64 (n + d)
    match strUpdateTx db k (itoa nv) now with
    | (.error e, d) => .err e d
    | (.ok _, d) => .ok (.int nv) d

/-- `Tx.IncrFloat`: `Get`, `Value.Float` (`strconv.ParseFloat`), float64 addition, `update` with
`strconv.FormatFloat(v, 'f', -1, 64)`. Decided on the domain of `parseFloatDec`/`formatFloatDec`
(plain decimal texts denoting dyadic rationals; sums with at most 15 significant digits, which are
exact in float64 and print as their exact expansion); `outOfDomain` elsewhere. -/
def strIncrFloat (db : DB) (k : Bytes) (d : Dyadic) (now : Int) : Res :=
  let cur := (strGetRaw db k now).getD []
  match valueFloat cur with
  | .invalid => .err .valueType db
  | .unknown => .err .outOfDomain db
  | .val x =>
    match formatFloatDec (f64add x d) with
    | none =>
      -- the text of the sum is outside the modelled domain; whether the key upsert fails does not depend on it
      (match strUpdate1 db k now with
       | .error e => .err e db
       | .ok _ => .err .outOfDomain db)
    | some txt =>
      match strUpdateTx db k txt now with
      | (.error e, d') => .err e d'
      | (.ok _, d') => .ok (.score (.fin (f64add x d))) d'

/-- items are applied in the given order (Go iterates the map in an unspecified order; the
driver tries every order) -/
def strSetMany (db : DB) (items : List (Bytes × Bytes)) (now : Int) : Res :=
  match items with
  | [] => .ok .nil db
  | (k, v) :: rest =>
    match strSetTx db k v none now with
    | (.error e, d) => .err e d
    | (.ok _, d) => strSetMany d rest now

/-- `SetCmd.run` -/
def strSetWith (db : DB) (k v : Bytes) (o : SetOpts) (now : Int) : Res :=
  let prev := strGetRaw db k now
  let pv : Val := match prev with | none => .nil | some b => .bytes b
  let exists_ := prev.isSome
  let at_ : Option Int := if o.ttl > 0 then some (now + o.ttl) else o.atMs
  if o.ifExists && !exists_ then .ok (.list [pv, .bool false, .bool false]) db
  else if o.ifNotExists && exists_ then .ok (.list [pv, .bool false, .bool false]) db
  else
    let r := if o.keepTTL then strUpdateTx db k v now else strSetTx db k v at_ now
    match r with
    | (.error e, d) => .err e d
    | (.ok _, d) => .ok (.list [pv, .bool (!exists_), .bool exists_]) d

end Redka.Model
