/-
  The six tables of `internal/sqlx/schema.sql` as row lists, and the statement-level primitives
  shared by all repositories (key lookup under the expiry guard, the type-guarded key upsert,
  cascading delete, rowid allocation).
-/
import RedkaModel.Basic

namespace Redka

structure KeyRow where
  id : Int
  key : Bytes
  ty : Int                 -- 1 string, 2 list, 3 set, 4 hash, 5 zset
  version : Int
  etime : Option Int
  mtime : Int
  len : Option Int         -- NULL for strings
deriving DecidableEq

structure StrRow where
  kid : Int
  value : Bytes
deriving DecidableEq

structure ListRow where
  kid : Int
  pos : Dyadic
  elem : Bytes
deriving DecidableEq

structure SetRow where
  rowid : Int
  kid : Int
  elem : Bytes
deriving DecidableEq

structure HashRow where
  rowid : Int
  kid : Int
  field : Bytes
  value : Bytes
deriving DecidableEq

structure ZRow where
  rowid : Int
  kid : Int
  elem : Bytes
  score : Score
deriving DecidableEq

structure DB where
  keys : List KeyRow := []
  strs : List StrRow := []
  lists : List ListRow := []
  sets : List SetRow := []
  hashes : List HashRow := []
  zsets : List ZRow := []
  /-- `pragma foreign_keys` of the connection that executes the statements -/
  fk : Bool := true
deriving DecidableEq

inductive Err where
  | keyType | notFound | valueType | notAllowed
  | pivotNotFound          -- `(-1, ErrNotFound)` of list insert
  | sqlUnique | sqlMismatch | sqlNotNull | sqlOther
  | outOfDomain            -- the model's numeric domain does not cover this input
deriving DecidableEq, Repr

/-- generic result values (what the harness prints for an API result) -/
inductive Val where
  | nil
  | int (i : Int)
  | bool (b : Bool)
  | bytes (b : Bytes)
  | score (s : Score)
  | key (k : KeyRow)
  | list (l : List Val)
deriving Inhabited

partial def Val.beq : Val → Val → Bool
  | .nil, .nil => true
  | .int a, .int b => a == b
  | .bool a, .bool b => a == b
  | .bytes a, .bytes b => a == b
  | .score a, .score b => decide (a = b)
  | .key a, .key b => decide (a = b)
  | .list a, .list b => a.length == b.length && (a.zip b).all (fun p => Val.beq p.1 p.2)
  | _, _ => false

instance : BEq Val := ⟨Val.beq⟩

abbrev Out := Except Err Val

structure Res where
  out : Out
  db : DB

def TString : Int := 1
def TList : Int := 2
def TSet : Int := 3
def THash : Int := 4
def TZSet : Int := 5

/-- the guard `etime is null or etime > ?` -/
def liveAt (now : Int) (e : Option Int) : Bool :=
  match e with
  | none => true
  | some t => decide (t > now)

def KeyRow.live (now : Int) (k : KeyRow) : Bool := liveAt now k.etime

namespace DB

/-- `select … from rkey where key = ?` (no expiry guard) -/
def findKey (db : DB) (key : Bytes) : Option KeyRow :=
  db.keys.find? (fun r => r.key == key)

/-- `select … from rkey where key = ? and (etime is null or etime > ?)` -/
def liveKey (db : DB) (key : Bytes) (now : Int) : Option KeyRow :=
  db.keys.find? (fun r => r.key == key && r.live now)

/-- `… where key = ? and type = ? and (etime is null or etime > ?)` -/
def liveKeyT (db : DB) (key : Bytes) (ty : Int) (now : Int) : Option KeyRow :=
  db.keys.find? (fun r => r.key == key && r.ty == ty && r.live now)

def findId (db : DB) (id : Int) : Option KeyRow :=
  db.keys.find? (fun r => r.id == id)

/-- `integer primary key` without AUTOINCREMENT: max + 1 -/
def nextKeyId (db : DB) : Int := maxD 0 (db.keys.map (·.id)) + 1

def nextSetRowid (db : DB) : Int := maxD 0 (db.sets.map (·.rowid)) + 1
def nextHashRowid (db : DB) : Int := maxD 0 (db.hashes.map (·.rowid)) + 1
def nextZRowid (db : DB) : Int := maxD 0 (db.zsets.map (·.rowid)) + 1

/-- `update rkey set … where id = ?` -/
def updKey (db : DB) (id : Int) (f : KeyRow → KeyRow) : DB :=
  { db with keys := db.keys.map (fun r => if r.id == id then f r else r) }

/-- remove the child rows of the given key ids from all five child tables (ON DELETE CASCADE);
does nothing when the connection has `foreign_keys` off -/
def cascade (db : DB) (ids : List Int) : DB :=
  if db.fk then
    { db with
      strs := db.strs.filter (fun r => !ids.contains r.kid)
      lists := db.lists.filter (fun r => !ids.contains r.kid)
      sets := db.sets.filter (fun r => !ids.contains r.kid)
      hashes := db.hashes.filter (fun r => !ids.contains r.kid)
      zsets := db.zsets.filter (fun r => !ids.contains r.kid) }
  else db

/-- `delete from rkey where <p>`; returns the number of rows deleted -/
def deleteKeysWhere (db : DB) (p : KeyRow → Bool) : DB × Int :=
  let gone := db.keys.filter p
  let db' := { db with keys := db.keys.filter (fun r => !p r) }
  (db'.cascade (gone.map (·.id)), gone.length)

end DB

/-- What `insert into rkey … on conflict (key) do update set type = case when type = excluded.type
then type else null end, …` does. `onNew` builds the inserted row from the fresh id, `onOld` is the
`do update` assignment list. A conflicting row of another type makes the statement fail with
`NOT NULL constraint failed: rkey.type`, which `sqlx.TypedError` maps to `ErrKeyType`. The conflict
target is the unique index on `key`, so an expired-but-stored row conflicts like any other. -/
def keyUpsert (db : DB) (key : Bytes) (ty : Int)
    (onNew : Int → KeyRow) (onOld : KeyRow → KeyRow) : Except Err (DB × KeyRow) :=
  match db.findKey key with
  | none =>
    let r := onNew db.nextKeyId
    .ok ({ db with keys := db.keys ++ [r] }, r)
  | some old =>
    if old.ty == ty then
      let r := onOld old
      .ok (db.updKey old.id (fun _ => r), r)
    else .error .keyType

def Res.ok (v : Val) (db : DB) : Res := ⟨.ok v, db⟩
def Res.err (e : Err) (db : DB) : Res := ⟨.error e, db⟩

/-- `DB.Update(func(tx) { … })`: roll everything back when the callback returns an error -/
def update (f : DB → Res) (db : DB) : Res :=
  let r := f db
  match r.out with
  | .ok _ => r
  | .error _ => { r with db := db }

end Redka
