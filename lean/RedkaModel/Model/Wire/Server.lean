/-
  `internal/server/state.go` and `internal/server/handlers.go`: the per-connection state and the
  handler chain `parse → multi → handle → handleMulti / handleSingle` (the outer `logging` handler
  only measures time).

  Replies are token LISTS, not reply trees: `EXEC` writes `*len(cmds)` first and then whatever the
  queued commands write. Every queued command runs and writes its reply, also after one of them has
  failed (D12, repaired: the loop used to stop at the first failing command, so fewer elements than
  announced followed); the first error is returned at the end and `db.Update` rolls the tables back.
  Core Lean only.
-/
import RedkaModel.Model.Wire.Cmd.Parse
import RedkaModel.Model.Wire.Cmd.Run

namespace Redka.Wire

open Redka

/-- `connState` -/
structure ConnState where
  inMulti : Bool := false
  cmds : List ParsedCmd := []
deriving DecidableEq

namespace ConnState

/-- `push` -/
def push (s : ConnState) (c : ParsedCmd) : ConnState := { s with cmds := s.cmds ++ [c] }

/-- `pop`: removes and returns the last command, `nil` when there is none -/
def pop (s : ConnState) : ConnState × Option ParsedCmd :=
  match s.cmds.getLast? with
  | none => (s, none)
  | some last => ({ s with cmds := s.cmds.dropLast }, some last)

/-- `clear` -/
def clear (s : ConnState) : ConnState := { s with cmds := [] }

end ConnState

/-- the tokens written by one command's `Run` (or by a middleware), with the comparison hint of
`RunRes.bag` -/
structure Seg where
  toks : List Token
  bag : Nat := 0

/-- what handling one request does -/
structure Out where
  st : ConnState
  db : DB
  segs : List Seg
  /-- the Go code panics while handling the request (nothing recovers it in the server: the
  process dies; the harness recovers and goes on) -/
  panic : Bool := false
  /-- outside the model's numeric domain: no claim -/
  ood : Bool := false
  /-- the generated grammar/dispatch contains something the model does not know -/
  unsupported : Option String := none

def Out.toks (o : Out) : List Token := o.segs.flatMap (·.toks)

/-- the reply observed at token position `pos`, used ONLY as the oracle of the random commands -/
def oracleAt (obs : List Token) (pos : Nat) : Option Bytes :=
  match obs[pos]? with
  | some (.bulk b) => some b
  | some (.str b) => some b      -- only the payload is the random choice; the reply KIND is the model's
  | _ => none

def plainErr (e : RErr) : Token := .err (asciiBytes e.text)

/-- `handleSingle`: `pcmd := state.pop(); pcmd.Run(conn, redis.RedkaDB(db))` -/
def handleSingle (st : ConnState) (db : DB) (now : Int) (obs : List Token) (pos : Nat) : Out :=
  match st.pop with
  | (st1, none) => { st := st1, db := db, segs := [], panic := true }     -- method call on a nil `redis.Cmd`
  | (st1, some c) =>
    let r := run c Model.dbRun now db (oracleAt obs pos)
    { st := st1, db := r.db, segs := [{ toks := r.toks, bag := r.bag }], ood := r.ood }

/-- result of the loop inside `handleMulti` -/
structure QueueRes where
  segs : List Seg
  db : DB
  /-- some `pcmd.Run` returned an error: the callback returns it and `Update` rolls back -/
  failed : Bool
  ood : Bool

/-- `var failed error; for _, pcmd := range state.cmds { _, err := pcmd.Run(conn, redis.RedkaTx(tx)); if err != nil && failed == nil { failed = err } }; return failed` -/
def runQueue : List ParsedCmd → Int → DB → List Token → Nat → QueueRes
  | [], _, db, _, _ => { segs := [], db := db, failed := false, ood := false }
  | c :: cs, now, db, obs, pos =>
    let r := run c (Model.tx true) now db (oracleAt obs pos)
    let seg : Seg := { toks := r.toks, bag := r.bag }
    if r.ood then { segs := [], db := db, failed := false, ood := true }
    else
      -- a failing command does not end the loop: the first error is remembered and returned at the end
      let q := runQueue cs now r.db obs (pos + r.toks.length)
      { q with segs := seg :: q.segs, failed := r.failed || q.failed }

/-- `handleMulti`: the whole queue inside ONE `db.Update`; the error is only logged -/
def handleMulti (st : ConnState) (db : DB) (now : Int) (obs : List Token) (pos : Nat) : Out :=
  let q := runQueue st.cmds now db obs pos
  { st := st, db := if q.failed then db else q.db, segs := q.segs, ood := q.ood }

/-- `handle(db)`: `if state.inMulti { handleMulti } else { handleSingle }; state.clear()` -/
def handleNext (st : ConnState) (db : DB) (now : Int) (obs : List Token) (pos : Nat) : Out :=
  let o := if st.inMulti then handleMulti st db now obs pos else handleSingle st db now obs pos
  { o with st := o.st.clear }

def isName (name : Bytes) (s : String) : Bool := name == asciiBytes s

/-- `multi(next)`; `name = normName(cmd)`, the state already holds the pushed command -/
def multiStage (st : ConnState) (name : Bytes) (db : DB) (now : Int) (obs : List Token) : Out :=
  if st.inMulti then
    if isName name "multi" then
      { st := st.pop.1, db := db, segs := [{ toks := [plainErr .nestedMulti] }] }
    else if isName name "exec" then
      let st1 := st.pop.1
      let hdr : Seg := { toks := [.arrayHdr st1.cmds.length] }           -- `conn.WriteArray(len(state.cmds))`
      let o := handleNext st1 db now obs 1
      { o with st := { o.st with inMulti := false }, segs := hdr :: o.segs }
    else if isName name "discard" then
      { st := { st.clear with inMulti := false }, db := db, segs := [{ toks := [okTok] }] }
    else
      { st := st, db := db, segs := [{ toks := [.str (asciiBytes "QUEUED")] }] }
  else
    if isName name "multi" then
      { st := { st.pop.1 with inMulti := true }, db := db, segs := [{ toks := [okTok] }] }
    else if isName name "exec" then
      { st := st.pop.1, db := db, segs := [{ toks := [plainErr .notInMulti] }] }
    else if isName name "discard" then
      { st := st.pop.1, db := db, segs := [{ toks := [plainErr .notInMulti] }] }
    else handleNext st db now obs 0

/-- everything after a successful `command.Parse`: `state.push(pcmd); next(conn, cmd)`.
`normName(cmd)` and `BaseCmd.name` are the same function of `args[0]`. -/
def afterParse (st : ConnState) (db : DB) (now : Int) (pc : ParsedCmd) (obs : List Token) : Out :=
  multiStage (st.push pc) pc.name db now obs

/-- `parse(next)`: a parse error is answered with `pcmd.Error(err)` — `pcmd` being the zero-valued
command, its name is empty — before the state is touched. `MULTI`, `EXEC` and `DISCARD` are not in
the dispatch table: they parse as `server.Unknown` objects, which the `multi` handler pops again. -/
def handleX (st : ConnState) (db : DB) (now : Int) (req : List Bytes) (obs : List Token) : Out :=
  match parse req with
  | .error e => { st := st, db := db, segs := [{ toks := [.err (errorText (asciiBytes e.text) [])] }] }
  | .panic => { st := st, db := db, segs := [], panic := true }
  | .outOfDomain => { st := st, db := db, segs := [], ood := true }
  | .unsupported t => { st := st, db := db, segs := [], unsupported := some t }
  | .ok pc => afterParse st db now pc obs

/-- the handler chain as a function of connection state, tables, clock and request -/
def handle (st : ConnState) (db : DB) (now : Int) (req : List Bytes) : ConnState × DB × List Token :=
  let o := handleX st db now req []
  (o.st, o.db, o.toks)

end Redka.Wire
