/-
  `internal/parser`: the argument pipeline (`pipeline.go`) and its thirteen combinators
  (`parsers.go`) as an interpreter over a first-order description of a grammar.

  A Go parser writes through a pointer (`&cmd.key`, `&ttlSec`); here every combinator carries the
  NAME of its destination ("key", "ttlSec") and the interpreter produces a slot environment.

  Gaps, all on the safe side (the interpreter answers `outOfDomain`, never a wrong value):
  * `strconv.ParseFloat` accepts exponents, hex floats, `.5`, `5.`, `nan`, and rounds decimals that
    are not exactly representable. The model covers `[+-]digits[.digits]` whose value is a dyadic
    rational with at most 53 significant bits, and the spellings of infinity.
  * `strings.EqualFold` is modelled exactly for ASCII keyword names: besides ASCII case the only
    Unicode code points that fold onto an ASCII letter are U+212A (Kelvin sign, onto `k`) and
    U+017F (long s, onto `s`); both are included.

  Core Lean only.
-/
import RedkaModel.Basic

namespace Redka.Wire

open Redka

/-! ### grammar descriptions -/

/-- One constructor per function of `parsers.go`. `slot` names the destination variable. -/
inductive P where
  /-- `parser.String(&dest)` -/
  | string (slot : String)
  /-- `parser.Bytes(&dest)` -/
  | bytes (slot : String)
  /-- `parser.Int(&dest)` -/
  | int (slot : String)
  /-- `parser.Float(&dest)` -/
  | float (slot : String)
  /-- `parser.Enum(&dest, allowed...)` -/
  | enum (slot : String) (allowed : List String)
  /-- `parser.Strings(&dest)` -/
  | strings (slot : String)
  /-- `parser.Anys(&dest)` -/
  | anys (slot : String)
  /-- `parser.StringsN(&dest, &n)`: `nSlot` is the slot of the `Int` parsed earlier -/
  | stringsN (slot : String) (nSlot : String)
  /-- `parser.AnyMap(&dest)` -/
  | anyMap (slot : String)
  /-- `parser.FloatMap(&dest)` -/
  | floatMap (slot : String)
  /-- `parser.Flag(name, &dest)` -/
  | flag (name : String) (slot : String)
  /-- `parser.Named(name, parsers...)` -/
  | named (name : String) (ps : List P)
  /-- `parser.OneOf(parsers...)` -/
  | oneOf (ps : List P)
  /-- a construct the extractor did not recognise; running it is an `unsupported` outcome -/
  | unknown (text : String)

/-- `parser.New(parsers...).Required(n)` -/
structure Grammar where
  parsers : List P
  required : Nat

/-! ### slot environments -/

/-- what a destination variable can hold -/
inductive SlotVal where
  | bytes (b : Bytes)                       -- `string`, `[]byte`
  | int (i : Int)                           -- `int`
  | float (f : Score)                       -- `float64` (modelled domain)
  | bool (b : Bool)                         -- `bool`
  | list (l : List Bytes)                   -- `[]string`, `[]any`
  | pairs (l : List (Bytes × Bytes))        -- `map[string]any`: (name, value) in arrival order
  | fpairs (l : List (Bytes × Score))       -- `map[any]float64`: (elem, score) in arrival order

abbrev Env := List (String × SlotVal)

/-- assignment through the destination pointer -/
def setSlot : Env → String → SlotVal → Env
  | [], k, v => [(k, v)]
  | (k', v') :: r, k, v => if k' == k then (k, v) :: r else (k', v') :: setSlot r k v

def getSlot : Env → String → Option SlotVal
  | [], _ => none
  | (k', v') :: r, k => if k' == k then some v' else getSlot r k

/-- a `string`/`[]byte` variable; the Go zero value when never assigned -/
def getBytes (env : Env) (k : String) : Bytes :=
  match getSlot env k with | some (.bytes b) => b | _ => []
/-- an `int` variable -/
def getInt (env : Env) (k : String) : Int :=
  match getSlot env k with | some (.int i) => i | _ => 0
/-- a `float64` variable -/
def getFloat (env : Env) (k : String) : Score :=
  match getSlot env k with | some (.float f) => f | _ => .fin 0
/-- a `bool` variable -/
def getBool (env : Env) (k : String) : Bool :=
  match getSlot env k with | some (.bool b) => b | _ => false
/-- a slice variable (`nil` when never assigned) -/
def getList (env : Env) (k : String) : List Bytes :=
  match getSlot env k with | some (.list l) => l | _ => []
def getPairs (env : Env) (k : String) : List (Bytes × Bytes) :=
  match getSlot env k with | some (.pairs l) => l | _ => []
def getFPairs (env : Env) (k : String) : List (Bytes × Score) :=
  match getSlot env k with | some (.fpairs l) => l | _ => []

/-! ### text helpers -/

/-- the bytes of an ASCII literal (keyword names, enum values and error texts are all ASCII) -/
def asciiBytes (s : String) : Bytes := s.toList.map (fun c => c.toNat.toUInt8)

def lowerAscii (c : UInt8) : UInt8 := if 65 ≤ c && c ≤ 90 then c + 32 else c

/-- `strings.EqualFold(arg, name)` for an ASCII `name` (see the header for the two non-ASCII
code points that fold onto ASCII letters). Bytes ≥ 0x80 that are not one of those two encodings
decode to runes that equal no ASCII letter under simple folding. -/
def equalFold : Bytes → Bytes → Bool
  | [], [] => true
  | [], _ :: _ => false
  | _ :: _, [] => false
  | a :: as, n :: ns =>
    if a < 128 then lowerAscii a == lowerAscii n && equalFold as ns
    else if a == 0xE2 then
      -- U+212A KELVIN SIGN = E2 84 AA folds onto k / K
      match as with
      | b :: c :: rest => b == 0x84 && c == 0xAA && lowerAscii n == 107 && equalFold rest ns
      | _ => false
    else if a == 0xC5 then
      -- U+017F LATIN SMALL LETTER LONG S = C5 BF folds onto s / S
      match as with
      | b :: rest => b == 0xBF && lowerAscii n == 115 && equalFold rest ns
      | _ => false
    else false

/-! ### numbers -/

inductive FloatRes where
  | ok (f : Score)
  /-- `strconv.ParseFloat` certainly returns an error -/
  | invalid
  /-- `ParseFloat` may accept the text but the value (or the text form) is outside the model -/
  | outOfDomain

def isAlphaNumFloatChar (c : UInt8) : Bool :=
  isDigit c || (65 ≤ c && c ≤ 90) || (97 ≤ c && c ≤ 122) || c == 43 || c == 45 || c == 46 || c == 95

/-- split `digits[.digits]`; `none` when the text has another shape -/
def splitDecimal (b : Bytes) : Option (Bytes × Bytes) :=
  let ip := b.takeWhile isDigit
  let rest := b.dropWhile isDigit
  if ip.isEmpty then none
  else match rest with
    | [] => some (ip, [])
    | c :: fr => if c == 46 && !fr.isEmpty && fr.all isDigit then some (ip, fr) else none

/-- `strconv.ParseFloat(s, 64)` on the modelled subset.
* Any byte outside `[0-9A-Za-z+-._]` stops Go's scanner before the end of the text: error.
* A text without a decimal digit is accepted only as `[+-]inf`, `[+-]infinity` (any case) or `nan`.
* A decimal with optional exponent is rounded to the nearest float64 (`Redka.parseFloatDec`);
  negative zero, hexadecimal floats, underscores, overflow and subnormals: `outOfDomain`. -/
def parseFloat (b : Bytes) : FloatRes :=
  if b.isEmpty then .invalid
  else if !b.all isAlphaNumFloatChar then .invalid
  else
    let (neg, signed, body) := match b with
      | 45 :: r => (true, true, r)
      | 43 :: r => (false, true, r)
      | r => (false, false, r)
    let lb := body.map lowerAscii
    if !b.any isDigit then
      if lb == asciiBytes "inf" || lb == asciiBytes "infinity" then .ok (if neg then .negInf else .posInf)
      else if lb == asciiBytes "nan" && !signed then .outOfDomain
      else .invalid
    else
      -- a text with a digit: `Redka.parseFloatDec` (decimal with optional exponent, correctly rounded)
      match parseFloatDec b with
      | .val d => .ok (.fin d)
      | .invalid => .invalid
      | .unknown => .outOfDomain

/-- `strings.ToLower` of an `Enum` argument. ASCII bytes are lowered byte by byte. A text with a byte
≥ 0x80 is lowered by rune; the only non-ASCII rune whose lower case is ASCII is the Kelvin sign (→ `k`),
so such a text can equal an allowed value only if one of them contains `k`: then the model makes no
claim (`none`), otherwise the argument matches nothing (it is returned unchanged, which no ASCII value
equals). -/
def enumLower (allowed : List String) (a : Bytes) : Option Bytes :=
  if a.all (· < 128) then some (a.map lowerAscii)
  else if allowed.any (fun s => (asciiBytes s).contains 107) then none
  else some a

/-! ### the combinators -/

inductive PErr where
  | invalidArgNum | invalidInt | invalidFloat | syntaxError
deriving DecidableEq, Repr

/-- what one `ParserFunc` call returns: `(fired, rest, nil)`, an error, or no return at all -/
inductive Step where
  | ret (fired : Bool) (rest : List Bytes) (env : Env)
  | fail (e : PErr)
  /-- run-time panic (`make([]string, n)` with `n < 0`) -/
  | panic
  | outOfDomain
  | unsupported (text : String)

/-- the loop of `FloatMap`: the first bad number is an error. Because every failure has the same
error value, the scan reports `invalid` if ANY number is certainly invalid, else `outOfDomain`
if any is outside the model. Pairs are `score elem`; the map is keyed by `elem`. -/
def floatPairs : List Bytes → Option (Except Bool (List (Bytes × Score)))
  | [] => some (.ok [])
  | [_] => none
  | s :: e :: rest =>
    match floatPairs rest with
    | none => none
    | some tail =>
      match parseFloat s, tail with
      | .invalid, _ => some (.error true)
      | _, .error true => some (.error true)
      | .outOfDomain, _ => some (.error false)
      | _, .error false => some (.error false)
      | .ok f, .ok l => some (.ok ((e, f) :: l))

/-- the loop of `AnyMap` -/
def anyPairs : List Bytes → List (Bytes × Bytes)
  | k :: v :: rest => (k, v) :: anyPairs rest
  | _ => []

mutual
/-- one combinator applied to the remaining arguments (`parsers.go`, function by function) -/
def runP : P → List Bytes → Env → Step
  -- `String`, `Bytes`: nothing left → not fired; else take one
  | .string slot, args, env =>
    match args with
    | [] => .ret false args env
    | a :: r => .ret true r (setSlot env slot (.bytes a))
  | .bytes slot, args, env =>
    match args with
    | [] => .ret false args env
    | a :: r => .ret true r (setSlot env slot (.bytes a))
  -- `Int`: `strconv.Atoi`
  | .int slot, args, env =>
    match args with
    | [] => .ret false args env
    | a :: r => match atoi a with
      | none => .fail .invalidInt
      | some i => .ret true r (setSlot env slot (.int i))
  -- `Float`: `strconv.ParseFloat`
  | .float slot, args, env =>
    match args with
    | [] => .ret false args env
    | a :: r => match parseFloat a with
      | .invalid => .fail .invalidFloat
      | .outOfDomain => .outOfDomain
      | .ok f => .ret true r (setSlot env slot (.float f))
  -- `Enum`: `val := strings.ToLower(arg)`, `slices.Contains(allowed, val)`; the LOWERED value is stored
  | .enum slot allowed, args, env =>
    match args with
    | [] => .ret false args env
    | a :: r =>
      match enumLower allowed a with
      | none => .outOfDomain
      | some l =>
        if allowed.any (fun s => asciiBytes s == l) then .ret true r (setSlot env slot (.bytes l))
        else .fail .syntaxError
  -- `Strings`, `Anys`: everything that is left
  | .strings slot, args, env =>
    match args with
    | [] => .ret false args env
    | _ :: _ => .ret true [] (setSlot env slot (.list args))
  | .anys slot, args, env =>
    match args with
    | [] => .ret false args env
    | _ :: _ => .ret true [] (setSlot env slot (.list args))
  -- `StringsN`: `n := *nVar` is read when the parser runs
  | .stringsN slot nSlot, args, env =>
    let n := getInt env nSlot
    match args with
    | [] => .ret false args env
    | _ :: _ =>
      if n < 0 || (args.length : Int) < n then .fail .invalidArgNum   -- `n < 0 || len(args) < n`
      else .ret true (args.drop n.toNat) (setSlot env slot (.list (args.take n.toNat)))
  -- `AnyMap`: only an even number of remaining arguments (zero included) fires
  | .anyMap slot, args, env =>
    if args.length % 2 != 0 then .ret false args env
    else .ret true [] (setSlot env slot (.pairs (anyPairs args)))
  -- `FloatMap`
  | .floatMap slot, args, env =>
    if args.length % 2 != 0 then .ret false args env
    else match floatPairs args with
      | none => .ret false args env                               -- unreachable (even length)
      | some (.error true) => .fail .invalidFloat
      | some (.error false) => .outOfDomain
      | some (.ok l) => .ret true [] (setSlot env slot (.fpairs l))
  -- `Flag`
  | .flag name slot, args, env =>
    match args with
    | [] => .ret false args env
    | a :: r =>
      if !equalFold a (asciiBytes name) then .ret false args env
      else .ret true r (setSlot env slot (.bool true))
  -- `Named`
  | .named name ps, args, env =>
    match args with
    | [] => .ret false args env
    | a :: r =>
      if !equalFold a (asciiBytes name) then .ret false args env
      else runNamed ps r env 0 ps.length
  -- `OneOf`
  | .oneOf ps, args, env => runOneOf ps args env 0
  | .unknown text, _, _ => .unsupported text

/-- the `for _, parser := range parsers` loop of `Named`; `total = len(parsers)` -/
def runNamed : List P → List Bytes → Env → Nat → Nat → Step
  | [], args, env, nFired, total =>
    if nFired != total then .fail .syntaxError else .ret true args env
  | p :: ps, args, env, nFired, total =>
    match runP p args env with
    | .ret fired rest env' =>
      let nFired := if fired then nFired + 1 else nFired
      if rest.isEmpty then                                        -- `if len(args) == 0 { break }`
        (if nFired != total then .fail .syntaxError else .ret true rest env')
      else runNamed ps rest env' nFired total
    | other => other                                              -- `return fired, args, err`

/-- the loop of `OneOf`: ALL alternatives run, each on what the previous ones left -/
def runOneOf : List P → List Bytes → Env → Nat → Step
  | [], args, env, nFired =>
    if nFired > 1 then .fail .syntaxError else .ret (nFired > 0) args env
  | p :: ps, args, env, nFired =>
    match runP p args env with
    | .ret fired rest env' => runOneOf ps rest env' (if fired then nFired + 1 else nFired)
    | other => other
end

/-! ### `Pipeline.Run` -/

inductive Outcome where
  | ok (env : Env)
  | error (e : PErr)
  | panic
  | outOfDomain
  | unsupported (text : String)

inductive TryRes where
  | fired (idx : Nat) (rest : List Bytes) (env : Env)
  | noneFired
  | stop (o : Outcome)

/-- "Try all parsers until one fires": the inner `for i, parser := range p.parsers` -/
def tryAll : List P → Nat → List Bytes → Env → TryRes
  | [], _, _, _ => .noneFired
  | p :: ps, i, args, env =>
    match runP p args env with
    | .ret true rest env' => .fired i rest env'
    | .ret false _ env' => tryAll ps (i + 1) args env'
    | .fail e => .stop (.error e)
    | .panic => .stop .panic
    | .outOfDomain => .stop .outOfDomain
    | .unsupported t => .stop (.unsupported t)

/-- "Check if all arguments were parsed" -/
def finish (args : List Bytes) (env : Env) : Outcome :=
  if args.isEmpty then .ok env else .error .syntaxError

/-- `for len(args) > 0 && len(p.parsers) > 0`: every round removes the parser that fired, so
`len(parsers)` rounds of fuel are exactly enough. -/
def runLoop : Nat → List P → List Bytes → Env → Outcome
  | 0, _, args, env => finish args env
  | fuel + 1, ps, args, env =>
    if args.isEmpty || ps.isEmpty then finish args env
    else match tryAll ps 0 args env with
      | .fired i rest env' => runLoop fuel (ps.eraseIdx i) rest env'
      | .noneFired => finish args env
      | .stop o => o

/-- `Pipeline.Run(args)` -/
def runGrammar (g : Grammar) (args : List Bytes) : Outcome :=
  if args.length < g.required then .error .invalidArgNum
  else runLoop g.parsers.length g.parsers args []

end Redka.Wire
