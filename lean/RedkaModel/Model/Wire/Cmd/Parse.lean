/-
  `command.Parse` (internal/command/command.go) and every `ParseXxx` of internal/command/*:
  the generated grammar (`RedkaModel/Generated/Grammar.lean`, regenerated from the source) run by
  the interpreter of `Parser.lean`, followed by the hand-written part of the Go function.

  Every `ParseXxx` returns the ZERO-VALUED command next to an error (`return Set{}, err`), so the
  error reply of the `parse` handler is built with an empty command name; `ParseOut.error` therefore
  carries no command.
  Core Lean only.
-/
import RedkaModel.Model.Wire.Cmd.Types
import RedkaModel.Generated.Grammar

namespace Redka.Wire

open Redka

/-- `redis.BaseCmd` as built by `redis.NewBaseCmd(args)` -/
structure Base where
  name : Bytes
  args : List Bytes

inductive ParseOut where
  | ok (c : ParsedCmd)
  /-- `(Xxx{}, err)` -/
  | error (e : RErr)
  /-- the Go code panics (`parser.StringsN`, D11) -/
  | panic
  | outOfDomain
  /-- a grammar or dispatch target the model does not know (after a source change) -/
  | unsupported (text : String)

def mk (b : Base) (c : Cmd) : ParseOut := .ok { name := b.name, args := b.args, cmd := c }

/-- `parser.New(...).Required(n).Run(cmd.Args())`, then the rest of the parse function -/
def withGrammar (g : Grammar) (b : Base) (k : Env → ParseOut) : ParseOut :=
  match runGrammar g b.args with
  | .ok env => k env
  | .error e => .error (RErr.ofPErr e)
  | .panic => .panic
  | .outOfDomain => .outOfDomain
  | .unsupported t => .unsupported t

/-! ### Go values -/

/-- a Go map built by successive assignment: a repeated name keeps its LAST value. The order of
the result is arbitrary (Go iterates maps in an unspecified order; the driver tries all orders). -/
def mapInsert {α β} [BEq α] : List (α × β) → α → β → List (α × β)
  | [], k, v => [(k, v)]
  | (k', v') :: r, k, v => if k' == k then (k, v) :: r else (k', v') :: mapInsert r k v

def goMap {α β} [BEq α] (l : List (α × β)) : List (α × β) :=
  l.foldl (fun m p => mapInsert m p.1 p.2) []

/-- `time.Duration(n) * unit` where `unit` is a whole number of milliseconds in nanoseconds:
`some ms` when the int64 nanosecond count does not overflow -/
def durationMs (n : Int) (unitNs : Int) : Option Int :=
  let ns := n * unitNs
  if wrap64 ns == ns then some (ns / 1000000) else none

def nsPerMs : Int := 1000000
def nsPerSec : Int := 1000000000

/-! ### server -/

/-- `server.ParseOK` -/
def parseOK (b : Base) : ParseOut := mk b .ok

/-- `server.ParseUnknown` -/
def parseUnknown (b : Base) : ParseOut := mk b .unknown

/-- `server.ParseConfig` with `ParseConfigGet`; the sub-command is lowered (`strings.ToLower`) before it
is compared and stored; a sub-command with a byte ≥ 0x80 lowers to something that is not `get` -/
def parseConfig (b : Base) : ParseOut :=
  match b.args with
  | [] => .error .invalidArgNum
  | sub :: args =>
    if sub.all (· < 128) && sub.map lowerAscii == asciiBytes "get" then
      (if args.length < 1 then .error .invalidArgNum else mk b (.config (asciiBytes "get") args))
    else .error .unknownSubcmd

/-- `server.ParseDBSize` -/
def parseDBSize (b : Base) : ParseOut :=
  if b.args.length != 0 then .error .invalidArgNum else mk b .dbSize

/-- `server.ParseLolwut` -/
def parseLolwut (b : Base) : ParseOut :=
  withGrammar Generated.grammar_Lolwut b fun env => mk b (.lolwut (getList env "parts"))

/-! ### connection -/

/-- `conn.ParseEcho` -/
def parseEcho (b : Base) : ParseOut :=
  withGrammar Generated.grammar_Echo b fun env => mk b (.echo (getList env "parts"))

/-- `conn.ParsePing` -/
def parsePing (b : Base) : ParseOut :=
  withGrammar Generated.grammar_Ping b fun env => mk b (.ping (getBytes env "message"))

/-- `conn.ParseSelect` -/
def parseSelect (b : Base) : ParseOut :=
  withGrammar Generated.grammar_Select b fun env => mk b (.select (getInt env "index"))

/-! ### key -/

/-- the shape `if len(cmd.Args()) != 1 { return X{}, ErrInvalidArgNum }; cmd.key = args[0]` -/
def parseOneKey (b : Base) (f : Bytes → Cmd) : ParseOut :=
  match b.args with
  | [k] => mk b (f k)
  | _ => .error .invalidArgNum

/-- the same with exactly two arguments -/
def parseTwo (b : Base) (f : Bytes → Bytes → Cmd) : ParseOut :=
  match b.args with
  | [x, y] => mk b (f x y)
  | _ => .error .invalidArgNum

/-- `key.ParseDel` -/
def parseDel (b : Base) : ParseOut :=
  withGrammar Generated.grammar_Del b fun env => mk b (.del (getList env "keys"))

/-- `key.ParseExists` -/
def parseExists (b : Base) : ParseOut :=
  withGrammar Generated.grammar_Exists b fun env => mk b (.exists (getList env "keys"))

/-- `key.ParseExpire(b, multi)`: `cmd.ttl = time.Duration(multi*ttl) * time.Millisecond`
(the `int` product wraps) -/
def parseExpire (b : Base) (multi : Int) : ParseOut :=
  withGrammar Generated.grammar_Expire b fun env =>
    match durationMs (wrap64 (multi * getInt env "ttl")) nsPerMs with
    | none => .outOfDomain
    | some ttl => mk b (.expire (getBytes env "key") ttl)

/-- `key.ParseExpireAt(b, multi)`: `cmd.at = time.UnixMilli(int64(multi * at))` -/
def parseExpireAt (b : Base) (multi : Int) : ParseOut :=
  withGrammar Generated.grammar_ExpireAt b fun env =>
    mk b (.expireAt (getBytes env "key") (wrap64 (multi * getInt env "at")))

/-- `key.ParseFlushDB` (FLUSHDB and FLUSHALL); note the error is a syntax error, not arity -/
def parseFlushDB (b : Base) : ParseOut :=
  if b.args.length != 0 then .error .syntaxError else mk b .flushDB

/-- `key.ParseKeys` -/
def parseKeys (b : Base) : ParseOut := parseOneKey b .keys
/-- `key.ParsePersist` -/
def parsePersist (b : Base) : ParseOut := parseOneKey b .persist

/-- `key.ParseRandomKey` -/
def parseRandomKey (b : Base) : ParseOut :=
  if b.args.length != 0 then .error .invalidArgNum else mk b .randomKey

/-- `key.ParseRename` -/
def parseRename (b : Base) : ParseOut := parseTwo b .rename
/-- `key.ParseRenameNX` -/
def parseRenameNX (b : Base) : ParseOut := parseTwo b .renameNX

/-- the tail of the four scan parsers: `if cmd.match == "" { cmd.match = "*" }` -/
def defaultMatch (m : Bytes) : Bytes := if m.isEmpty then asciiBytes "*" else m

/-- `key.ParseScan` -/
def parseScan (b : Base) : ParseOut :=
  withGrammar Generated.grammar_Scan b fun env =>
    mk b (.scan (getInt env "cursor") (defaultMatch (getBytes env "match")) (getInt env "count")
      (getBytes env "ktype"))

/-- `key.ParseTTL` -/
def parseTTL (b : Base) : ParseOut := parseOneKey b .ttl
/-- `key.ParseType` -/
def parseType (b : Base) : ParseOut := parseOneKey b .type

/-! ### list -/

/-- `list.ParseLIndex` -/
def parseLIndex (b : Base) : ParseOut :=
  withGrammar Generated.grammar_LIndex b fun env => mk b (.lindex (getBytes env "key") (getInt env "index"))

/-- `list.ParseLInsert`: `where` goes through `parser.Enum`, i.e. is case-sensitive (D13) -/
def parseLInsert (b : Base) : ParseOut :=
  withGrammar Generated.grammar_LInsert b fun env =>
    mk b (.linsert (getBytes env "key") (getBytes env "where") (getBytes env "pivot") (getBytes env "elem"))

/-- `list.ParseLLen` -/
def parseLLen (b : Base) : ParseOut :=
  withGrammar Generated.grammar_LLen b fun env => mk b (.llen (getBytes env "key"))
/-- `list.ParseLPop` -/
def parseLPop (b : Base) : ParseOut :=
  withGrammar Generated.grammar_LPop b fun env => mk b (.lpop (getBytes env "key"))
/-- `list.ParseLPush` -/
def parseLPush (b : Base) : ParseOut :=
  withGrammar Generated.grammar_LPush b fun env => mk b (.lpush (getBytes env "key") (getBytes env "elem"))
/-- `list.ParseLRange` -/
def parseLRange (b : Base) : ParseOut :=
  withGrammar Generated.grammar_LRange b fun env =>
    mk b (.lrange (getBytes env "key") (getInt env "start") (getInt env "stop"))
/-- `list.ParseLRem` -/
def parseLRem (b : Base) : ParseOut :=
  withGrammar Generated.grammar_LRem b fun env =>
    mk b (.lrem (getBytes env "key") (getInt env "count") (getBytes env "elem"))
/-- `list.ParseLSet` -/
def parseLSet (b : Base) : ParseOut :=
  withGrammar Generated.grammar_LSet b fun env =>
    mk b (.lset (getBytes env "key") (getInt env "index") (getBytes env "elem"))
/-- `list.ParseLTrim` -/
def parseLTrim (b : Base) : ParseOut :=
  withGrammar Generated.grammar_LTrim b fun env =>
    mk b (.ltrim (getBytes env "key") (getInt env "start") (getInt env "stop"))
/-- `list.ParseRPop` -/
def parseRPop (b : Base) : ParseOut :=
  withGrammar Generated.grammar_RPop b fun env => mk b (.rpop (getBytes env "key"))
/-- `list.ParseRPopLPush` -/
def parseRPopLPush (b : Base) : ParseOut :=
  withGrammar Generated.grammar_RPopLPush b fun env => mk b (.rpoplpush (getBytes env "src") (getBytes env "dst"))
/-- `list.ParseRPush` -/
def parseRPush (b : Base) : ParseOut :=
  withGrammar Generated.grammar_RPush b fun env => mk b (.rpush (getBytes env "key") (getBytes env "elem"))

/-! ### string -/

/-- `string.ParseGet` -/
def parseGet (b : Base) : ParseOut := parseOneKey b .get
/-- `string.ParseGetSet` -/
def parseGetSet (b : Base) : ParseOut := parseTwo b .getSet

/-- `string.ParseIncr(b, sign)` (INCR, DECR) -/
def parseIncr (b : Base) (sign : Int) : ParseOut := parseOneKey b (fun k => .incr k sign)

/-- `string.ParseIncrBy(b, sign)`: `cmd.delta *= sign` wraps -/
def parseIncrBy (b : Base) (sign : Int) : ParseOut :=
  withGrammar Generated.grammar_IncrBy b fun env =>
    mk b (.incrBy (getBytes env "key") (wrap64 (getInt env "delta" * sign)))

/-- `string.ParseIncrByFloat` -/
def parseIncrByFloat (b : Base) : ParseOut :=
  withGrammar Generated.grammar_IncrByFloat b fun env =>
    mk b (.incrByFloat (getBytes env "key") (getFloat env "delta"))

/-- `string.ParseMGet` -/
def parseMGet (b : Base) : ParseOut :=
  if b.args.length < 1 then .error .invalidArgNum else mk b (.mget b.args)

/-- `string.ParseMSet` -/
def parseMSet (b : Base) : ParseOut :=
  withGrammar Generated.grammar_MSet b fun env => mk b (.mset (goMap (getPairs env "items")))

/-- `string.ParseSet`. The four expiry numbers are combined by an if/else-if chain on `> 0`, so
`EX 0`, `EX -1` … leave everything unset (D20); `cmd.ttl < 0` can only come from overflow. -/
def parseSet (b : Base) : ParseOut :=
  withGrammar Generated.grammar_Set b fun env =>
    let key := getBytes env "key"
    let value := getBytes env "value"
    let ifNX := getBool env "ifNX"
    let ifXX := getBool env "ifXX"
    let get := getBool env "get"
    let keepTTL := getBool env "keepTTL"
    let ttlSec := getInt env "ttlSec"
    let ttlMs := getInt env "ttlMs"
    let atSec := getInt env "atSec"
    let atMs := getInt env "atMs"
    let done (ttl : Int) (at_ : Option Int) : ParseOut :=
      mk b (.set key value ifNX ifXX get ttl at_ keepTTL)
    if ttlSec > 0 then
      -- `time.Duration(ttlSec) * time.Second`
      match durationMs ttlSec nsPerSec with
      | some ms => done ms none
      | none => if wrap64 (ttlSec * nsPerSec) < 0 then .error .invalidExpireTime else .outOfDomain
    else if ttlMs > 0 then
      -- `time.Duration(ttlMs) * time.Millisecond`
      match durationMs ttlMs nsPerMs with
      | some ms => done ms none
      | none => if wrap64 (ttlMs * nsPerMs) < 0 then .error .invalidExpireTime else .outOfDomain
    else if atSec > 0 then
      -- `time.Unix(int64(atSec), 0)`, later read back with `UnixMilli()`
      (if atSec * 1000 ≤ maxInt64 then done 0 (some (atSec * 1000)) else .outOfDomain)
    else if atMs > 0 then
      -- `time.Unix(0, int64(atMs)*int64(time.Millisecond))`
      match durationMs atMs nsPerMs with
      | some ms => done 0 (some ms)
      | none => .outOfDomain
    else done 0 none

/-- `string.ParseSetEX(b, multi)` (SETEX, PSETEX) -/
def parseSetEX (b : Base) (multi : Int) : ParseOut :=
  withGrammar Generated.grammar_SetEX b fun env =>
    match durationMs (wrap64 (multi * getInt env "ttl")) nsPerMs with
    | none => .outOfDomain
    | some ttl => mk b (.setEX (getBytes env "key") (getBytes env "value") ttl)

/-- `string.ParseSetNX` -/
def parseSetNX (b : Base) : ParseOut := parseTwo b .setNX
/-- `string.ParseStrlen` -/
def parseStrlen (b : Base) : ParseOut := parseOneKey b .strlen

/-! ### hash -/

/-- `hash.ParseHDel` -/
def parseHDel (b : Base) : ParseOut :=
  withGrammar Generated.grammar_HDel b fun env => mk b (.hdel (getBytes env "key") (getList env "fields"))
/-- `hash.ParseHExists` -/
def parseHExists (b : Base) : ParseOut := parseTwo b .hexists
/-- `hash.ParseHGet` -/
def parseHGet (b : Base) : ParseOut := parseTwo b .hget
/-- `hash.ParseHGetAll` -/
def parseHGetAll (b : Base) : ParseOut := parseOneKey b .hgetAll
/-- `hash.ParseHIncrBy` -/
def parseHIncrBy (b : Base) : ParseOut :=
  withGrammar Generated.grammar_HIncrBy b fun env =>
    mk b (.hincrBy (getBytes env "key") (getBytes env "field") (getInt env "delta"))
/-- `hash.ParseHIncrByFloat` -/
def parseHIncrByFloat (b : Base) : ParseOut :=
  withGrammar Generated.grammar_HIncrByFloat b fun env =>
    mk b (.hincrByFloat (getBytes env "key") (getBytes env "field") (getFloat env "delta"))
/-- `hash.ParseHKeys` -/
def parseHKeys (b : Base) : ParseOut := parseOneKey b .hkeys
/-- `hash.ParseHLen` -/
def parseHLen (b : Base) : ParseOut := parseOneKey b .hlen
/-- `hash.ParseHMGet` -/
def parseHMGet (b : Base) : ParseOut :=
  withGrammar Generated.grammar_HMGet b fun env => mk b (.hmget (getBytes env "key") (getList env "fields"))
/-- `hash.ParseHMSet` -/
def parseHMSet (b : Base) : ParseOut :=
  withGrammar Generated.grammar_HMSet b fun env =>
    mk b (.hmset (getBytes env "key") (goMap (getPairs env "items")))
/-- `hash.ParseHScan` -/
def parseHScan (b : Base) : ParseOut :=
  withGrammar Generated.grammar_HScan b fun env =>
    mk b (.hscan (getBytes env "key") (getInt env "cursor") (defaultMatch (getBytes env "match"))
      (getInt env "count"))
/-- `hash.ParseHSet` -/
def parseHSet (b : Base) : ParseOut :=
  withGrammar Generated.grammar_HSet b fun env =>
    mk b (.hset (getBytes env "key") (goMap (getPairs env "items")))
/-- `hash.ParseHSetNX` -/
def parseHSetNX (b : Base) : ParseOut :=
  match b.args with
  | [k, f, v] => mk b (.hsetNX k f v)
  | _ => .error .invalidArgNum
/-- `hash.ParseHVals` -/
def parseHVals (b : Base) : ParseOut := parseOneKey b .hvals

/-! ### set -/

/-- `set.ParseSAdd` -/
def parseSAdd (b : Base) : ParseOut :=
  withGrammar Generated.grammar_SAdd b fun env => mk b (.sadd (getBytes env "key") (getList env "members"))
/-- `set.ParseSCard` -/
def parseSCard (b : Base) : ParseOut := parseOneKey b .scard
/-- `set.ParseSDiff` -/
def parseSDiff (b : Base) : ParseOut :=
  withGrammar Generated.grammar_SDiff b fun env => mk b (.sdiff (getList env "keys"))
/-- `set.ParseSDiffStore` -/
def parseSDiffStore (b : Base) : ParseOut :=
  withGrammar Generated.grammar_SDiffStore b fun env => mk b (.sdiffStore (getBytes env "dest") (getList env "keys"))
/-- `set.ParseSInter` -/
def parseSInter (b : Base) : ParseOut :=
  withGrammar Generated.grammar_SInter b fun env => mk b (.sinter (getList env "keys"))
/-- `set.ParseSInterStore` -/
def parseSInterStore (b : Base) : ParseOut :=
  withGrammar Generated.grammar_SInterStore b fun env => mk b (.sinterStore (getBytes env "dest") (getList env "keys"))
/-- `set.ParseSIsMember` -/
def parseSIsMember (b : Base) : ParseOut :=
  withGrammar Generated.grammar_SIsMember b fun env => mk b (.sismember (getBytes env "key") (getBytes env "member"))
/-- `set.ParseSMembers` -/
def parseSMembers (b : Base) : ParseOut := parseOneKey b .smembers
/-- `set.ParseSMove` -/
def parseSMove (b : Base) : ParseOut :=
  withGrammar Generated.grammar_SMove b fun env =>
    mk b (.smove (getBytes env "src") (getBytes env "dest") (getBytes env "member"))
/-- `set.ParseSPop` -/
def parseSPop (b : Base) : ParseOut := parseOneKey b .spop
/-- `set.ParseSRandMember` -/
def parseSRandMember (b : Base) : ParseOut := parseOneKey b .srandMember
/-- `set.ParseSRem` -/
def parseSRem (b : Base) : ParseOut :=
  withGrammar Generated.grammar_SRem b fun env => mk b (.srem (getBytes env "key") (getList env "members"))
/-- `set.ParseSScan` -/
def parseSScan (b : Base) : ParseOut :=
  withGrammar Generated.grammar_SScan b fun env =>
    mk b (.sscan (getBytes env "key") (getInt env "cursor") (defaultMatch (getBytes env "match"))
      (getInt env "count"))
/-- `set.ParseSUnion` -/
def parseSUnion (b : Base) : ParseOut :=
  withGrammar Generated.grammar_SUnion b fun env => mk b (.sunion (getList env "keys"))
/-- `set.ParseSUnionStore` -/
def parseSUnionStore (b : Base) : ParseOut :=
  withGrammar Generated.grammar_SUnionStore b fun env => mk b (.sunionStore (getBytes env "dest") (getList env "keys"))

/-! ### sorted set -/

/-- `zset.ParseZAdd`: `items[elem] = score`, a repeated member keeps its last score -/
def parseZAdd (b : Base) : ParseOut :=
  withGrammar Generated.grammar_ZAdd b fun env =>
    mk b (.zadd (getBytes env "key") (goMap (getFPairs env "items")))
/-- `zset.ParseZCard` -/
def parseZCard (b : Base) : ParseOut := parseOneKey b .zcard
/-- `zset.ParseZCount` -/
def parseZCount (b : Base) : ParseOut :=
  withGrammar Generated.grammar_ZCount b fun env =>
    mk b (.zcount (getBytes env "key") (getFloat env "min") (getFloat env "max"))
/-- `zset.ParseZIncrBy` -/
def parseZIncrBy (b : Base) : ParseOut :=
  withGrammar Generated.grammar_ZIncrBy b fun env =>
    mk b (.zincrBy (getBytes env "key") (getFloat env "delta") (getBytes env "member"))
/-- `zset.ParseZInter` (panics for a negative `numkeys`, D11) -/
def parseZInter (b : Base) : ParseOut :=
  withGrammar Generated.grammar_ZInter b fun env =>
    mk b (.zinter (getList env "keys") (getBytes env "aggregate") (getBool env "withScores"))
/-- `zset.ParseZInterStore` -/
def parseZInterStore (b : Base) : ParseOut :=
  withGrammar Generated.grammar_ZInterStore b fun env =>
    mk b (.zinterStore (getBytes env "dest") (getList env "keys") (getBytes env "aggregate"))
/-- `zset.ParseZRange` -/
def parseZRange (b : Base) : ParseOut :=
  withGrammar Generated.grammar_ZRange b fun env =>
    mk b (.zrange (getBytes env "key") (getFloat env "start") (getFloat env "stop")
      (getBool env "byScore") (getBool env "rev") (getInt env "offset") (getInt env "count")
      (getBool env "withScores"))
/-- `zset.ParseZRangeByScore` -/
def parseZRangeByScore (b : Base) : ParseOut :=
  withGrammar Generated.grammar_ZRangeByScore b fun env =>
    mk b (.zrangeByScore (getBytes env "key") (getFloat env "min") (getFloat env "max")
      (getBool env "withScores") (getInt env "offset") (getInt env "count"))
/-- `zset.ParseZRank` -/
def parseZRank (b : Base) : ParseOut :=
  withGrammar Generated.grammar_ZRank b fun env =>
    mk b (.zrank (getBytes env "key") (getBytes env "member") (getBool env "withScore"))
/-- `zset.ParseZRem` -/
def parseZRem (b : Base) : ParseOut :=
  withGrammar Generated.grammar_ZRem b fun env => mk b (.zrem (getBytes env "key") (getList env "members"))
/-- `zset.ParseZRemRangeByRank` -/
def parseZRemRangeByRank (b : Base) : ParseOut :=
  withGrammar Generated.grammar_ZRemRangeByRank b fun env =>
    mk b (.zremRangeByRank (getBytes env "key") (getInt env "start") (getInt env "stop"))
/-- `zset.ParseZRemRangeByScore` -/
def parseZRemRangeByScore (b : Base) : ParseOut :=
  withGrammar Generated.grammar_ZRemRangeByScore b fun env =>
    mk b (.zremRangeByScore (getBytes env "key") (getFloat env "min") (getFloat env "max"))
/-- `zset.ParseZRevRange` -/
def parseZRevRange (b : Base) : ParseOut :=
  withGrammar Generated.grammar_ZRevRange b fun env =>
    mk b (.zrevRange (getBytes env "key") (getInt env "start") (getInt env "stop") (getBool env "withScores"))
/-- `zset.ParseZRevRangeByScore` -/
def parseZRevRangeByScore (b : Base) : ParseOut :=
  withGrammar Generated.grammar_ZRevRangeByScore b fun env =>
    mk b (.zrevRangeByScore (getBytes env "key") (getFloat env "min") (getFloat env "max")
      (getBool env "withScores") (getInt env "offset") (getInt env "count"))
/-- `zset.ParseZRevRank` -/
def parseZRevRank (b : Base) : ParseOut :=
  withGrammar Generated.grammar_ZRevRank b fun env =>
    mk b (.zrevRank (getBytes env "key") (getBytes env "member") (getBool env "withScore"))
/-- `zset.ParseZScan` -/
def parseZScan (b : Base) : ParseOut :=
  withGrammar Generated.grammar_ZScan b fun env =>
    mk b (.zscan (getBytes env "key") (getInt env "cursor") (defaultMatch (getBytes env "match"))
      (getInt env "count"))
/-- `zset.ParseZScore` -/
def parseZScore (b : Base) : ParseOut :=
  withGrammar Generated.grammar_ZScore b fun env => mk b (.zscore (getBytes env "key") (getBytes env "member"))
/-- `zset.ParseZUnion` -/
def parseZUnion (b : Base) : ParseOut :=
  withGrammar Generated.grammar_ZUnion b fun env =>
    mk b (.zunion (getList env "keys") (getBytes env "aggregate") (getBool env "withScores"))
/-- `zset.ParseZUnionStore` -/
def parseZUnionStore (b : Base) : ParseOut :=
  withGrammar Generated.grammar_ZUnionStore b fun env =>
    mk b (.zunionStore (getBytes env "dest") (getList env "keys") (getBytes env "aggregate"))

/-! ### dispatch -/

/-- the call `pkg.ParseXxx(b, extra...)` named by a row of the generated dispatch table -/
def parseBy (fn : String) (extra : List Int) (b : Base) : ParseOut :=
  match fn, extra with
  | "server.ParseOK", [] => parseOK b
  | "server.ParseConfig", [] => parseConfig b
  | "server.ParseDBSize", [] => parseDBSize b
  | "server.ParseLolwut", [] => parseLolwut b
  | "server.ParseUnknown", [] => parseUnknown b
  | "conn.ParseEcho", [] => parseEcho b
  | "conn.ParsePing", [] => parsePing b
  | "conn.ParseSelect", [] => parseSelect b
  | "key.ParseDel", [] => parseDel b
  | "key.ParseExists", [] => parseExists b
  | "key.ParseExpire", [m] => parseExpire b m
  | "key.ParseExpireAt", [m] => parseExpireAt b m
  | "key.ParseFlushDB", [] => parseFlushDB b
  | "key.ParseKeys", [] => parseKeys b
  | "key.ParsePersist", [] => parsePersist b
  | "key.ParseRandomKey", [] => parseRandomKey b
  | "key.ParseRename", [] => parseRename b
  | "key.ParseRenameNX", [] => parseRenameNX b
  | "key.ParseScan", [] => parseScan b
  | "key.ParseTTL", [] => parseTTL b
  | "key.ParseType", [] => parseType b
  | "list.ParseLIndex", [] => parseLIndex b
  | "list.ParseLInsert", [] => parseLInsert b
  | "list.ParseLLen", [] => parseLLen b
  | "list.ParseLPop", [] => parseLPop b
  | "list.ParseLPush", [] => parseLPush b
  | "list.ParseLRange", [] => parseLRange b
  | "list.ParseLRem", [] => parseLRem b
  | "list.ParseLSet", [] => parseLSet b
  | "list.ParseLTrim", [] => parseLTrim b
  | "list.ParseRPop", [] => parseRPop b
  | "list.ParseRPopLPush", [] => parseRPopLPush b
  | "list.ParseRPush", [] => parseRPush b
  | "string.ParseGet", [] => parseGet b
  | "string.ParseGetSet", [] => parseGetSet b
  | "string.ParseIncr", [s] => parseIncr b s
  | "string.ParseIncrBy", [s] => parseIncrBy b s
  | "string.ParseIncrByFloat", [] => parseIncrByFloat b
  | "string.ParseMGet", [] => parseMGet b
  | "string.ParseMSet", [] => parseMSet b
  | "string.ParseSet", [] => parseSet b
  | "string.ParseSetEX", [m] => parseSetEX b m
  | "string.ParseSetNX", [] => parseSetNX b
  | "string.ParseStrlen", [] => parseStrlen b
  | "hash.ParseHDel", [] => parseHDel b
  | "hash.ParseHExists", [] => parseHExists b
  | "hash.ParseHGet", [] => parseHGet b
  | "hash.ParseHGetAll", [] => parseHGetAll b
  | "hash.ParseHIncrBy", [] => parseHIncrBy b
  | "hash.ParseHIncrByFloat", [] => parseHIncrByFloat b
  | "hash.ParseHKeys", [] => parseHKeys b
  | "hash.ParseHLen", [] => parseHLen b
  | "hash.ParseHMGet", [] => parseHMGet b
  | "hash.ParseHMSet", [] => parseHMSet b
  | "hash.ParseHScan", [] => parseHScan b
  | "hash.ParseHSet", [] => parseHSet b
  | "hash.ParseHSetNX", [] => parseHSetNX b
  | "hash.ParseHVals", [] => parseHVals b
  | "set.ParseSAdd", [] => parseSAdd b
  | "set.ParseSCard", [] => parseSCard b
  | "set.ParseSDiff", [] => parseSDiff b
  | "set.ParseSDiffStore", [] => parseSDiffStore b
  | "set.ParseSInter", [] => parseSInter b
  | "set.ParseSInterStore", [] => parseSInterStore b
  | "set.ParseSIsMember", [] => parseSIsMember b
  | "set.ParseSMembers", [] => parseSMembers b
  | "set.ParseSMove", [] => parseSMove b
  | "set.ParseSPop", [] => parseSPop b
  | "set.ParseSRandMember", [] => parseSRandMember b
  | "set.ParseSRem", [] => parseSRem b
  | "set.ParseSScan", [] => parseSScan b
  | "set.ParseSUnion", [] => parseSUnion b
  | "set.ParseSUnionStore", [] => parseSUnionStore b
  | "zset.ParseZAdd", [] => parseZAdd b
  | "zset.ParseZCard", [] => parseZCard b
  | "zset.ParseZCount", [] => parseZCount b
  | "zset.ParseZIncrBy", [] => parseZIncrBy b
  | "zset.ParseZInter", [] => parseZInter b
  | "zset.ParseZInterStore", [] => parseZInterStore b
  | "zset.ParseZRange", [] => parseZRange b
  | "zset.ParseZRangeByScore", [] => parseZRangeByScore b
  | "zset.ParseZRank", [] => parseZRank b
  | "zset.ParseZRem", [] => parseZRem b
  | "zset.ParseZRemRangeByRank", [] => parseZRemRangeByRank b
  | "zset.ParseZRemRangeByScore", [] => parseZRemRangeByScore b
  | "zset.ParseZRevRange", [] => parseZRevRange b
  | "zset.ParseZRevRangeByScore", [] => parseZRevRangeByScore b
  | "zset.ParseZRevRank", [] => parseZRevRank b
  | "zset.ParseZScan", [] => parseZScan b
  | "zset.ParseZScore", [] => parseZScore b
  | "zset.ParseZUnion", [] => parseZUnion b
  | "zset.ParseZUnionStore", [] => parseZUnionStore b
  | _, _ => .unsupported ("dispatch target " ++ fn)

/-- `strings.ToLower` on an ASCII name; `none` when the name has a byte ≥ 0x80 (Go lower-cases
by Unicode rune and replaces invalid UTF-8 by U+FFFD; not modelled) -/
def lowerName (a : Bytes) : Option Bytes :=
  if a.all (· < 128) then some (a.map lowerAscii) else none

/-- the row of `switch name` in `command.Parse`; `none` is the `default:` branch -/
def lookupDispatch (name : Bytes) : Option (String × List Int) :=
  (Generated.dispatch.find? (fun r => asciiBytes r.1 == name)).map (fun r => (r.2.1, r.2.2))

/-- `command.Parse(args)` -/
def parse (args : List Bytes) : ParseOut :=
  match args with
  | [] => .unsupported "empty request"          -- redcon never delivers one (`args[0]`)
  | a0 :: rest =>
    match lowerName a0 with
    | none => .outOfDomain
    | some name =>
      let b : Base := { name := name, args := rest }
      match lookupDispatch name with
      | some (fn, extra) => parseBy fn extra b
      | none => parseBy Generated.dispatchDefault [] b

end Redka.Wire
