/-
  The `Run(w redis.Writer, red redis.Redka) (any, error)` method of every command object in
  internal/command/*, as a function from the parsed command, the repository runner (`Model.dbRun`
  for a `*redka.DB`, `Model.tx true` for a `*redka.Tx`), the tables and the clock to the tokens
  written, the new tables and whether `Run` returned a non-nil error (which is what aborts EXEC).

  Transcribed path by path: which error values are tested with `==`, what is written on each path,
  and what is returned. Core Lean only.
-/
import RedkaModel.Model.Wire.Cmd.Types

namespace Redka.Wire

open Redka

/-- `red.Str()/Key()/…` of a `redis.Redka`: how a repository call acts on the tables -/
abbrev Runner := Op → Int → DB → Res

structure RunRes where
  toks : List Token
  db : DB
  /-- `Run` returned `err != nil` -/
  failed : Bool := false
  /-- how a checker may compare `toks` with an observation: `0` exactly; `1` (`2`): the tokens after
  the first are an unordered collection of single tokens (of pairs) — SQL without `order by`, or
  Go map iteration -/
  bag : Nat := 0
  /-- the model's numeric domain does not cover this call; no claim is made -/
  ood : Bool := false

def RunRes.outOfDomain (db : DB) : RunRes := { toks := [], db := db, ood := true }

/-! ### error texts -/

/-- `err.Error()` of an error coming out of a repository call. `ErrNotFound` is printed through
`BaseCmd.Error`, which replaces it by `redis.ErrNotFound`. The SQLite messages depend on the
statement that failed, hence on the operation. `none`: text not modelled. -/
def errMsg (e : Err) (op : Op) : Option Bytes :=
  match e with
  | .keyType => some (asciiBytes "key type mismatch")
  | .notFound | .pivotNotFound => some (asciiBytes RErr.notFound.text)
  | .valueType => some (asciiBytes "invalid value type")
  | .notAllowed => some (asciiBytes "operation not allowed")
  | .sqlMismatch => some (asciiBytes "datatype mismatch")
  | .sqlUnique =>
    match op with
    | .listPushBack .. | .listPushFront .. | .listInsertAfter .. | .listInsertBefore ..
    | .listPopBackPushFront .. => some (asciiBytes "UNIQUE constraint failed: rlist.kid, rlist.pos")
    | .setDiffStore .. | .setInterStore .. | .setUnionStore .. =>
      some (asciiBytes "UNIQUE constraint failed: rset.kid, rset.elem")
    | .zInterStore .. | .zUnionStore .. => some (asciiBytes "UNIQUE constraint failed: rzset.kid, rzset.elem")
    | _ => none
  | .sqlNotNull =>
    match op with
    | .zIncr .. | .zInterStore .. | .zUnionStore .. => some (asciiBytes "NOT NULL constraint failed: rzset.score")
    | _ => none
  | .sqlOther =>
    match op with
    | .keyDeleteAll => some (asciiBytes "cannot VACUUM from within a transaction")
    | .zInter .. | .zUnion .. =>
      some (asciiBytes "sql: Scan error on column index 1, name \"score\": converting NULL to float64 is unsupported")
    | _ => none
  | .outOfDomain => none

/-! ### `redis.WriteFloat`: `strconv.FormatFloat(f, 'f', -1, 64)` -/

/-- `strconv.FormatFloat(f, 'f', -1, 64)` of a finite score: `Redka.formatFloatDec` (the shortest
decimal that reads back as the same float64) -/
def formatDyadic (d : Dyadic) : Option Bytes := formatFloatDec d

def formatFloat : Score → Option Bytes
  | .posInf => some (asciiBytes "+Inf")
  | .negInf => some (asciiBytes "-Inf")
  | .fin d => formatDyadic d

/-- `int(f)` for a float64 `f`: truncation toward zero; `none` outside int64 (implementation-
specific in Go) and for the infinities -/
def truncInt : Score → Option Int
  | .fin .zero => some 0
  | .fin (.ofOdd n k _) =>
    let v : Int := if k ≤ 0 then n * 2 ^ (-k).toNat else Int.tdiv n (2 ^ k.toNat)
    if minInt64 ≤ v && v ≤ maxInt64 then some v else none
  | _ => none

/-! ### reading repository results -/

def vBulk : Val → Option Token
  | .bytes b => some (.bulk b)
  | .nil => some (.bulk [])          -- `w.WriteBulk(nil)`
  | _ => none

def vBulks : List Val → Option (List Token)
  | [] => some []
  | v :: vs => match vBulk v, vBulks vs with
    | some t, some ts => some (t :: ts)
    | _, _ => none

/-- `w.WriteArray(len(vals)); for … { w.WriteBulk(v) }` -/
def arrayOfBulks : Val → Option (List Token)
  | .list l => (vBulks l).map (fun ts => .arrayHdr l.length :: ts)
  | _ => none

/-- the bulk of each `core.Key`'s name -/
def keyBulks : List Val → Option (List Token)
  | [] => some []
  | .key r :: vs => (keyBulks vs).map (fun ts => .bulk r.key :: ts)
  | _ :: _ => none

/-- `(field, value)` / `(key, value)` rows as the model returns maps -/
def vPairs : List Val → Option (List (Bytes × Bytes))
  | [] => some []
  | .list [.bytes a, .bytes b] :: vs => (vPairs vs).map (fun ps => (a, b) :: ps)
  | _ :: _ => none

/-- sorted-set items `(elem, score)` -/
def vItems : List Val → Option (List (Bytes × Score))
  | [] => some []
  | .list [.bytes a, .score s] :: vs => (vItems vs).map (fun ps => (a, s) :: ps)
  | _ :: _ => none

def floatTok (s : Score) : Option Token := (formatFloat s).map .bulk

/-- `w.WriteBulk(item.Elem); redis.WriteFloat(w, item.Score)` for every item -/
def itemToksWithScores : List (Bytes × Score) → Option (List Token)
  | [] => some []
  | (e, s) :: r => match floatTok s, itemToksWithScores r with
    | some f, some ts => some (.bulk e :: f :: ts)
    | _, _ => none

/-- the `if cmd.withScores { … } else { … }` tail shared by the range/inter/union commands -/
def writeItems (withScores : Bool) (v : Val) : Option (List Token) :=
  match v with
  | .list l =>
    match vItems l with
    | none => none
    | some items =>
      if withScores then
        (itemToksWithScores items).map (fun ts => .arrayHdr (items.length * 2) :: ts)
      else some (.arrayHdr items.length :: items.map (fun p => .bulk p.1))
  | _ => none

/-- `for i, key := range cmd.keys { v, ok := items[key]; if ok { WriteBulk } else { WriteNull } }` -/
def lookupToks (items : List (Bytes × Bytes)) (names : List Bytes) : List Token :=
  names.map (fun n => match items.find? (fun p => p.1 == n) with
    | some p => .bulk p.2
    | none => .null)

def okTok : Token := .str (asciiBytes "OK")
def boolInt (b : Bool) : Token := .int (if b then 1 else 0)

/-- `strings.Join(parts, " ")` -/
def joinSpace : List Bytes → Bytes
  | [] => []
  | [p] => p
  | p :: ps => p ++ 32 :: joinSpace ps

/-! ### the common shape of `Run` -/

/-- Call one repository method and write the reply.
* `onErr e = some (toks, failed)`: a path `if err == core.ErrNotFound { write …; return … }`;
  `failed` says whether that path returns the error (LSET) or `nil` (everything else).
* any other error: `w.WriteError(cmd.Error(err)); return nil, err`.
* success: `onOk` turns the result into tokens (`none`: a result shape the model does not expect). -/
def call (c : ParsedCmd) (run : Runner) (op : Op) (now : Int) (db : DB)
    (onOk : Val → Option (List Token))
    (onErr : Err → Option (List Token × Bool) := fun _ => none) (bag : Nat := 0) : RunRes :=
  let r := run op now db
  match r.out with
  | .error .outOfDomain => .outOfDomain r.db
  | .error e =>
    match onErr e with
    | some (toks, failed) => { toks := toks, db := r.db, failed := failed }
    | none =>
      match errMsg e op with
      | none => .outOfDomain r.db
      | some m => { toks := [.err (errorText m c.name)], db := r.db, failed := true }
  | .ok v =>
    match onOk v with
    | some toks => { toks := toks, db := r.db, bag := bag }
    | none => .outOfDomain r.db

/-- `if err == core.ErrNotFound { w.Write…; return x, nil }` -/
def onNotFound (toks : List Token) : Err → Option (List Token × Bool)
  | .notFound => some (toks, false)
  | _ => none

def asInt (v : Val) : Option (List Token) := match v with | .int n => some [.int n] | _ => none
def asBool (v : Val) : Option (List Token) := match v with | .bool b => some [boolInt b] | _ => none
def asOK (_ : Val) : Option (List Token) := some [okTok]
def asBulk (v : Val) : Option (List Token) := (vBulk v).map (fun t => [t])
def asFloat (v : Val) : Option (List Token) :=
  match v with | .score s => (floatTok s).map (fun t => [t]) | _ => none

/-! ### server, connection -/

/-- `lolwutAnswers` of server/lolwut.go -/
def lolwutAnswers : List String := [
  "As I see it, yes", "It is certain", "It is decidedly so", "Most likely", "Outlook good",
  "Signs point to yes", "Without a doubt", "Yes definitely", "Yes", "You may rely on it",
  "Ask again later", "Better not tell you now", "Cannot predict now", "Concentrate and ask again",
  "Reply hazy, try again", "Don't count on it", "My reply is no", "My sources say no",
  "Outlook not so good", "Very doubtful" ]

/-- the fixed answer of LOLWUT without arguments, UTF-8 -/
def lolwutDefault : Bytes := "Ask me a question (⊃｡•́‿•̀｡)⊃".toUTF8.toList

/-- `core.TypeID` of `key.toTypeID` -/
def toTypeID (ktype : Bytes) : Int :=
  if ktype == asciiBytes "hash" then THash
  else if ktype == asciiBytes "list" then TList
  else if ktype == asciiBytes "set" then TSet
  else if ktype == asciiBytes "string" then TString
  else if ktype == asciiBytes "zset" then TZSet
  else 0

/-- `core.Key.TypeName` -/
def typeName (ty : Int) : Bytes :=
  if ty == TString then asciiBytes "string"
  else if ty == TList then asciiBytes "list"
  else if ty == TSet then asciiBytes "set"
  else if ty == THash then asciiBytes "hash"
  else if ty == TZSet then asciiBytes "zset"
  else asciiBytes "unknown"

/-- the `switch cmd.aggregate` of ZINTER/ZUNION(/STORE); the builder's default is `sum` -/
def aggOf (a : Bytes) : Agg :=
  if a == asciiBytes "min" then .min else if a == asciiBytes "max" then .max else .sum

/-- `w.WriteArray(2); w.WriteInt(res.Cursor); w.WriteArray(n); …` of the four scan commands -/
def scanReply (v : Val) (items : List Val → Option (Nat × List Token)) : Option (List Token) :=
  match v with
  | .list [.int cur, .list l] =>
    (items l).map (fun p => [.arrayHdr 2, .int cur, .arrayHdr p.1] ++ p.2)
  | _ => none

/-- `sqlRange` / `sqlTrim` compute `stop - start + 1` inside SQLite: on 64-bit overflow the sum
becomes a REAL, which `LIMIT` rejects ("datatype mismatch", e.g. `LRANGE k 0 9223372036854775807`).
The repository model computes in ℤ, so requests near the overflow are left without a claim. -/
def limitArithSafe (a b : Int) : Bool := a.natAbs < 2 ^ 62 && b.natAbs < 2 ^ 62

/-! ### `Run` -/

/-- `cmd.Run(w, red)`. `oracle`: for the commands whose result is drawn at random by SQLite or by
`math/rand` (SPOP, SRANDMEMBER, RANDOMKEY, LOLWUT with arguments) the bulk string that was
actually written, against which the model checks membership. -/
def run (c : ParsedCmd) (r : Runner) (now : Int) (db : DB) (oracle : Option Bytes) : RunRes :=
  match c.cmd with
  -- server.OK.Run
  | .ok => { toks := [okTok], db := db }
  -- server.Config.Run / ConfigGet.Run
  | .config sub _ =>
    if sub == asciiBytes "get" then
      { toks := [.arrayHdr 2, .str (asciiBytes "databases"), .int 1], db := db }
    else { toks := [okTok], db := db }
  -- server.DBSize.Run
  | .dbSize => call c r .keyLen now db asInt
  -- server.Lolwut.Run
  | .lolwut parts =>
    if parts.length != 0 then
      match oracle with
      | some o =>
        if lolwutAnswers.any (fun a => asciiBytes a ++ [10] == o) then { toks := [.bulk o], db := db }
        else .outOfDomain db
      | none => .outOfDomain db
    else { toks := [.bulk (lolwutDefault ++ [10])], db := db }
  -- server.Unknown.Run
  | .unknown => { toks := [.err (c.errorR .unknownCmd)], db := db, failed := true }
  -- conn.Echo.Run: `w.WriteAny(strings.Join(parts, " "))`, a Go string → bulk
  | .echo parts => { toks := [.bulk (joinSpace parts)], db := db }
  -- conn.Ping.Run
  | .ping message =>
    if message.isEmpty then { toks := [.bulk (asciiBytes "PONG")], db := db }
    else { toks := [.bulk message], db := db }
  -- conn.Select.Run
  | .select _ => { toks := [okTok], db := db }

  -- key.Del.Run
  | .del keys => call c r (.keyDelete keys) now db asInt
  -- key.Exists.Run
  | .exists keys => call c r (.keyCount keys) now db asInt
  -- key.Expire.Run
  | .expire key ttl => call c r (.keyExpire key ttl) now db (fun _ => some [.int 1]) (onNotFound [.int 0])
  -- key.ExpireAt.Run
  | .expireAt key at_ => call c r (.keyExpireAt key at_) now db (fun _ => some [.int 1]) (onNotFound [.int 0])
  -- key.FlushDB.Run
  | .flushDB => call c r .keyDeleteAll now db asOK
  -- key.Keys.Run
  | .keys pattern =>
    call c r (.keyKeys pattern) now db
      (fun v => match v with
        | .list l => (keyBulks l).map (fun ts => .arrayHdr l.length :: ts)
        | _ => none) (bag := 1)
  -- key.Persist.Run
  | .persist key => call c r (.keyPersist key) now db (fun _ => some [.int 1]) (onNotFound [.int 0])
  -- key.RandomKey.Run
  | .randomKey =>
    call c r (.keyRandom oracle) now db
      (fun v => match v with | .key k => some [.bulk k.key] | _ => none) (onNotFound [.null])
  -- key.Rename.Run
  | .rename key newKey => call c r (.keyRename key newKey) now db asOK
  -- key.RenameNX.Run
  | .renameNX key newKey => call c r (.keyRenameNX key newKey) now db asBool
  -- key.Scan.Run
  | .scan cursor match_ count ktype =>
    call c r (.keyScan cursor match_ (toTypeID ktype) count) now db
      (fun v => scanReply v (fun l => (keyBulks l).map (fun ts => (l.length, ts))))
  -- key.TTL.Run: `int(*k.ETime/1000 - time.Now().Unix())`
  | .ttl key =>
    call c r (.keyGet key) now db
      (fun v => match v with
        | .key k => match k.etime with
          | none => some [.int (-1)]
          | some e => some [.int (Int.tdiv e 1000 - now / 1000)]
        | _ => none) (onNotFound [.int (-2)])
  -- key.Type.Run
  | .type key =>
    call c r (.keyGet key) now db
      (fun v => match v with | .key k => some [.str (typeName k.ty)] | _ => none)
      (onNotFound [.str (asciiBytes "none")])

  -- list.LIndex.Run
  | .lindex key index => call c r (.listGet key index) now db asBulk (onNotFound [.null])
  -- list.LInsert.Run: both `(0, ErrNotFound)` (no such list) and `(-1, ErrNotFound)` (no pivot)
  -- are answered with `n` and are NOT failures
  | .linsert key where_ pivot elem =>
    let op := if where_ == asciiBytes "before" then Op.listInsertBefore key pivot elem
              else Op.listInsertAfter key pivot elem
    call c r op now db asInt
      (fun e => match e with
        | .notFound => some ([.int 0], false)
        | .pivotNotFound => some ([.int (-1)], false)
        | _ => none)
  -- list.LLen.Run
  | .llen key => call c r (.listLen key) now db asInt
  -- list.LPop.Run
  | .lpop key => call c r (.listPopFront key) now db asBulk (onNotFound [.null])
  -- list.LPush.Run
  | .lpush key elem => call c r (.listPushFront key elem) now db asInt
  -- list.LRange.Run
  | .lrange key start stop =>
    if !limitArithSafe start stop then .outOfDomain db
    else call c r (.listRange key start stop) now db arrayOfBulks
  -- list.LRem.Run: `-cmd.count` wraps for the minimum int
  | .lrem key count elem =>
    let op := if count > 0 then Op.listDeleteFront key elem count
              else if count < 0 then Op.listDeleteBack key elem (wrap64 (-count))
              else Op.listDelete key elem
    call c r op now db asInt
  -- list.LSet.Run: ErrNotFound is reported as "index out of range" AND returned as an error
  | .lset key index elem =>
    call c r (.listSet key index elem) now db asOK
      (fun e => match e with
        | .notFound => some ([.err (c.errorR .outOfRange)], true)
        | _ => none)
  -- list.LTrim.Run
  | .ltrim key start stop =>
    if !limitArithSafe start stop then .outOfDomain db
    else call c r (.listTrim key start stop) now db asOK
  -- list.RPop.Run
  | .rpop key => call c r (.listPopBack key) now db asBulk (onNotFound [.null])
  -- list.RPopLPush.Run
  | .rpoplpush src dst => call c r (.listPopBackPushFront src dst) now db asBulk (onNotFound [.null])
  -- list.RPush.Run
  | .rpush key elem => call c r (.listPushBack key elem) now db asInt

  -- string.Get.Run
  | .get key => call c r (.strGet key) now db asBulk (onNotFound [.null])
  -- string.GetSet.Run: `out.Created` → null, else `WriteBulk(out.Prev)`
  | .getSet key value =>
    call c r (.strSetWith key value {}) now db
      (fun v => match v with
        | .list [prev, .bool created, .bool _] => if created then some [.null] else asBulk prev
        | _ => none)
  -- string.Incr.Run
  | .incr key delta => call c r (.strIncr key delta) now db asInt
  -- string.IncrBy.Run
  | .incrBy key delta => call c r (.strIncr key delta) now db asInt
  -- string.IncrByFloat.Run (the repository model does not cover float increments)
  | .incrByFloat key delta =>
    match delta with
    | .fin d => call c r (.strIncrFloat key d) now db asFloat
    | _ => .outOfDomain db
  -- string.MGet.Run
  | .mget keys =>
    call c r (.strGetMany keys) now db
      (fun v => match v with
        | .list l => (vPairs l).map (fun items => .arrayHdr keys.length :: lookupToks items keys)
        | _ => none)
  -- string.MSet.Run
  | .mset items => call c r (.strSetMany items) now db asOK
  -- string.Set.Run
  | .set key value ifNX ifXX get ttl at_ keepTTL =>
    if !ifNX && !ifXX && !get && !keepTTL && at_.isNone then
      call c r (.strSetExpires key value ttl) now db asOK
    else
      -- `op.IfExists()` / `op.IfNotExists()`, then ONE of `TTL`, `At`, `KeepTTL`
      let o : SetOpts :=
        { ifExists := ifXX
          ifNotExists := !ifXX && ifNX
          ttl := if ttl > 0 then ttl else 0
          atMs := if ttl > 0 then none else at_
          keepTTL := !(ttl > 0) && at_.isNone && keepTTL }
      call c r (.strSetWith key value o) now db
        (fun v => match v with
          | .list [prev, .bool created, .bool updated] =>
            let ok := if ifXX then updated else if ifNX then created else true
            if get then (if created then some [.null] else asBulk prev)
            else if !ok then some [.null]
            else some [okTok]
          | _ => none)
  -- string.SetEX.Run
  | .setEX key value ttl => call c r (.strSetExpires key value ttl) now db asOK
  -- string.SetNX.Run
  | .setNX key value =>
    call c r (.strSetWith key value { ifNotExists := true }) now db
      (fun v => match v with | .list [_, .bool created, _] => some [boolInt created] | _ => none)
  -- string.Strlen.Run
  | .strlen key =>
    call c r (.strGet key) now db
      (fun v => match v with | .bytes b => some [.int b.length] | _ => none) (onNotFound [.int 0])

  -- hash.HDel.Run
  | .hdel key fields => call c r (.hashDelete key fields) now db asInt
  -- hash.HExists.Run
  | .hexists key field => call c r (.hashExists key field) now db asBool
  -- hash.HGet.Run
  | .hget key field => call c r (.hashGet key field) now db asBulk (onNotFound [.null])
  -- hash.HGetAll.Run: `for field, val := range items` (Go map order)
  | .hgetAll key =>
    call c r (.hashItems key) now db
      (fun v => match v with
        | .list l => (vPairs l).map (fun ps =>
            .arrayHdr (ps.length * 2) :: ps.flatMap (fun p => [.bulk p.1, .bulk p.2]))
        | _ => none) (bag := 2)
  -- hash.HIncrBy.Run
  | .hincrBy key field delta => call c r (.hashIncr key field delta) now db asInt
  -- hash.HIncrByFloat.Run
  | .hincrByFloat key field delta =>
    match delta with
    | .fin d => call c r (.hashIncrFloat key field d) now db asFloat
    | _ => .outOfDomain db
  -- hash.HKeys.Run
  | .hkeys key => call c r (.hashFields key) now db arrayOfBulks (bag := 1)
  -- hash.HLen.Run
  | .hlen key => call c r (.hashLen key) now db asInt
  -- hash.HMGet.Run
  | .hmget key fields =>
    call c r (.hashGetMany key fields) now db
      (fun v => match v with
        | .list l => (vPairs l).map (fun items => .arrayHdr fields.length :: lookupToks items fields)
        | _ => none)
  -- hash.HMSet.Run
  | .hmset key items => call c r (.hashSetMany key items) now db asOK
  -- hash.HScan.Run
  | .hscan key cursor match_ count =>
    call c r (.hashScan key cursor match_ count) now db
      (fun v => scanReply v (fun l => (vPairs l).map (fun ps =>
        (ps.length * 2, ps.flatMap (fun p => [.bulk p.1, .bulk p.2])))))
  -- hash.HSet.Run
  | .hset key items => call c r (.hashSetMany key items) now db asInt
  -- hash.HSetNX.Run
  | .hsetNX key field value => call c r (.hashSetNotExists key field value) now db asBool
  -- hash.HVals.Run
  | .hvals key => call c r (.hashValues key) now db arrayOfBulks (bag := 1)

  -- set.SAdd.Run
  | .sadd key members => call c r (.setAdd key members) now db asInt
  -- set.SCard.Run
  | .scard key => call c r (.setLen key) now db asInt
  -- set.SDiff.Run
  | .sdiff keys => call c r (.setDiff keys) now db arrayOfBulks (bag := 1)
  -- set.SDiffStore.Run
  | .sdiffStore dest keys => call c r (.setDiffStore dest keys) now db asInt
  -- set.SInter.Run
  | .sinter keys => call c r (.setInter keys) now db arrayOfBulks (bag := 1)
  -- set.SInterStore.Run
  | .sinterStore dest keys => call c r (.setInterStore dest keys) now db asInt
  -- set.SIsMember.Run
  | .sismember key member => call c r (.setExists key member) now db asBool
  -- set.SMembers.Run
  | .smembers key => call c r (.setItems key) now db arrayOfBulks (bag := 1)
  -- set.SMove.Run
  | .smove src dest member =>
    call c r (.setMove src dest member) now db (fun _ => some [.int 1]) (onNotFound [.int 0])
  -- set.SPop.Run
  | .spop key => call c r (.setPop key oracle) now db asBulk (onNotFound [.null])
  -- set.SRandMember.Run
  | .srandMember key => call c r (.setRandom key oracle) now db asBulk (onNotFound [.null])
  -- set.SRem.Run
  | .srem key members => call c r (.setDelete key members) now db asInt
  -- set.SScan.Run
  | .sscan key cursor match_ count =>
    call c r (.setScan key cursor match_ count) now db
      (fun v => scanReply v (fun l => (vBulks l).map (fun ts => (l.length, ts))))
  -- set.SUnion.Run
  | .sunion keys => call c r (.setUnion keys) now db arrayOfBulks (bag := 1)
  -- set.SUnionStore.Run
  | .sunionStore dest keys => call c r (.setUnionStore dest keys) now db asInt

  -- zset.ZAdd.Run
  | .zadd key items => call c r (.zAddMany key items) now db asInt
  -- zset.ZCard.Run
  | .zcard key => call c r (.zLen key) now db asInt
  -- zset.ZCount.Run
  | .zcount key min max => call c r (.zCount key min max) now db asInt
  -- zset.ZIncrBy.Run
  | .zincrBy key delta member => call c r (.zIncr key member delta) now db asFloat
  -- zset.ZInter.Run
  | .zinter keys aggregate withScores =>
    call c r (.zInter keys (aggOf aggregate)) now db (writeItems withScores)
  -- zset.ZInterStore.Run
  | .zinterStore dest keys aggregate => call c r (.zInterStore dest keys (aggOf aggregate)) now db asInt
  -- zset.ZRange.Run: `ByRank(int(cmd.start), int(cmd.stop))` unless BYSCORE; `Offset`/`Count`
  -- are applied only when positive and are ignored by a rank range
  | .zrange key start stop byScore rev offset count withScores =>
    if byScore then
      call c r (.zRangeScore key start stop rev offset count) now db (writeItems withScores)
    else
      match truncInt start, truncInt stop with
      | some a, some b => call c r (.zRangeRank key a b rev) now db (writeItems withScores)
      | _, _ => .outOfDomain db
  -- zset.ZRangeByScore.Run
  | .zrangeByScore key min max withScores offset count =>
    call c r (.zRangeScore key min max false offset count) now db (writeItems withScores)
  -- zset.ZRank.Run
  | .zrank key member withScore =>
    call c r (.zGetRank key member) now db
      (fun v => match v with
        | .list [.int rank, .score s] =>
          if withScore then (floatTok s).map (fun f => [.arrayHdr 2, .int rank, f]) else some [.int rank]
        | _ => none) (onNotFound [.null])
  -- zset.ZRem.Run
  | .zrem key members => call c r (.zDelete key members) now db asInt
  -- zset.ZRemRangeByRank.Run
  | .zremRangeByRank key start stop => call c r (.zDeleteRank key start stop) now db asInt
  -- zset.ZRemRangeByScore.Run
  | .zremRangeByScore key min max => call c r (.zDeleteScore key min max) now db asInt
  -- zset.ZRevRange.Run
  | .zrevRange key start stop withScores =>
    call c r (.zRangeRank key start stop true) now db (writeItems withScores)
  -- zset.ZRevRangeByScore.Run: `ByScore(cmd.min, cmd.max).Desc()`
  | .zrevRangeByScore key min max withScores offset count =>
    call c r (.zRangeScore key min max true offset count) now db (writeItems withScores)
  -- zset.ZRevRank.Run
  | .zrevRank key member withScore =>
    call c r (.zGetRankRev key member) now db
      (fun v => match v with
        | .list [.int rank, .score s] =>
          if withScore then (floatTok s).map (fun f => [.arrayHdr 2, .int rank, f]) else some [.int rank]
        | _ => none) (onNotFound [.null])
  -- zset.ZScan.Run
  | .zscan key cursor match_ count =>
    call c r (.zScan key cursor match_ count) now db
      (fun v => scanReply v (fun l => match vItems l with
        | none => none
        | some items => (itemToksWithScores items).map (fun ts => (items.length * 2, ts))))
  -- zset.ZScore.Run
  | .zscore key member => call c r (.zGetScore key member) now db asFloat (onNotFound [.null])
  -- zset.ZUnion.Run
  | .zunion keys aggregate withScores =>
    call c r (.zUnion keys (aggOf aggregate)) now db (writeItems withScores)
  -- zset.ZUnionStore.Run
  | .zunionStore dest keys aggregate => call c r (.zUnionStore dest keys (aggOf aggregate)) now db asInt

end Redka.Wire
