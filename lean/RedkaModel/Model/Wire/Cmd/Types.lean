/-
  The command objects of `internal/command/*`: one constructor of `Cmd` per Go struct type, with
  the struct's fields; `ParsedCmd` adds the embedded `redis.BaseCmd` (name and raw arguments).
  Also: the reply tokens (`redis.Writer` calls), the Redis-level errors of `internal/redis/redis.go`
  and the text of `BaseCmd.Error`.

  Time-valued fields are kept in milliseconds (`time.Duration` and `time.Time` values outside the
  range where that is exact are `outOfDomain` at parse time, see `Cmd/Parse.lean`).
  Core Lean only.
-/
import RedkaModel.Model.Run
import RedkaModel.Model.Wire.Parser

namespace Redka.Wire

open Redka

/-! ### reply tokens -/

/-- what ONE call on the `redis.Writer` (a `redcon.Conn`) emits -/
inductive Token where
  | str (s : Bytes)          -- `WriteString`
  | err (s : Bytes)          -- `WriteError`
  | int (i : Int)            -- `WriteInt`, `WriteInt64`
  | bulk (b : Bytes)         -- `WriteBulk`, `WriteBulkString`, `WriteAny(string)`
  | null                     -- `WriteNull`
  | arrayHdr (n : Int)       -- `WriteArray(n)`: only the `*n` header
  | raw (b : Bytes)          -- `WriteRaw`
deriving DecidableEq

/-! ### Redis-level errors (`internal/redis/redis.go`, `internal/parser/pipeline.go`) -/

inductive RErr where
  | invalidArgNum | invalidCursor | invalidExpireTime | invalidFloat | invalidInt
  | nestedMulti | notFound | notInMulti | outOfRange | syntaxError | unknownCmd | unknownSubcmd
deriving DecidableEq, Repr

def RErr.text : RErr → String
  | .invalidArgNum => "ERR wrong number of arguments"
  | .invalidCursor => "ERR invalid cursor"
  | .invalidExpireTime => "ERR invalid expire time"
  | .invalidFloat => "ERR value is not a float"
  | .invalidInt => "ERR value is not an integer"
  | .nestedMulti => "ERR MULTI calls can not be nested"
  | .notFound => "ERR no such key"
  | .notInMulti => "ERR EXEC without MULTI"
  | .outOfRange => "ERR index out of range"
  | .syntaxError => "ERR syntax error"
  | .unknownCmd => "ERR unknown command"
  | .unknownSubcmd => "ERR unknown subcommand"

/-- the parser package declares its own four error values with the same texts -/
def RErr.ofPErr : PErr → RErr
  | .invalidArgNum => .invalidArgNum
  | .invalidInt => .invalidInt
  | .invalidFloat => .invalidFloat
  | .syntaxError => .syntaxError

/-- `fmt.Sprintf("%s (%s)", err, cmd.Name())` of `BaseCmd.Error` -/
def errorText (msg : Bytes) (name : Bytes) : Bytes :=
  msg ++ asciiBytes " (" ++ name ++ asciiBytes ")"

/-! ### command objects -/

inductive Cmd where
  -- server
  | ok                                                                -- `server.OK` (COMMAND, INFO)
  | config (subcmd : Bytes) (params : List Bytes)                     -- `server.Config` + `ConfigGet`
  | dbSize
  | lolwut (parts : List Bytes)
  | unknown
  -- connection
  | echo (parts : List Bytes)
  | ping (message : Bytes)
  | select (index : Int)
  -- key
  | del (keys : List Bytes)
  | exists (keys : List Bytes)
  | expire (key : Bytes) (ttlMs : Int)
  | expireAt (key : Bytes) (atMs : Int)
  | flushDB
  | keys (pattern : Bytes)
  | persist (key : Bytes)
  | randomKey
  | rename (key newKey : Bytes)
  | renameNX (key newKey : Bytes)
  | scan (cursor : Int) (match_ : Bytes) (count : Int) (ktype : Bytes)
  | ttl (key : Bytes)
  | type (key : Bytes)
  -- list
  | lindex (key : Bytes) (index : Int)
  | linsert (key where_ pivot elem : Bytes)
  | llen (key : Bytes)
  | lpop (key : Bytes)
  | lpush (key elem : Bytes)
  | lrange (key : Bytes) (start stop : Int)
  | lrem (key : Bytes) (count : Int) (elem : Bytes)
  | lset (key : Bytes) (index : Int) (elem : Bytes)
  | ltrim (key : Bytes) (start stop : Int)
  | rpop (key : Bytes)
  | rpoplpush (src dst : Bytes)
  | rpush (key elem : Bytes)
  -- string
  | get (key : Bytes)
  | getSet (key value : Bytes)
  | incr (key : Bytes) (delta : Int)
  | incrBy (key : Bytes) (delta : Int)
  | incrByFloat (key : Bytes) (delta : Score)
  | mget (keys : List Bytes)
  | mset (items : List (Bytes × Bytes))
  | set (key value : Bytes) (ifNX ifXX get : Bool) (ttlMs : Int) (atMs : Option Int) (keepTTL : Bool)
  | setEX (key value : Bytes) (ttlMs : Int)
  | setNX (key value : Bytes)
  | strlen (key : Bytes)
  -- hash
  | hdel (key : Bytes) (fields : List Bytes)
  | hexists (key field : Bytes)
  | hget (key field : Bytes)
  | hgetAll (key : Bytes)
  | hincrBy (key field : Bytes) (delta : Int)
  | hincrByFloat (key field : Bytes) (delta : Score)
  | hkeys (key : Bytes)
  | hlen (key : Bytes)
  | hmget (key : Bytes) (fields : List Bytes)
  | hmset (key : Bytes) (items : List (Bytes × Bytes))
  | hscan (key : Bytes) (cursor : Int) (match_ : Bytes) (count : Int)
  | hset (key : Bytes) (items : List (Bytes × Bytes))
  | hsetNX (key field value : Bytes)
  | hvals (key : Bytes)
  -- set
  | sadd (key : Bytes) (members : List Bytes)
  | scard (key : Bytes)
  | sdiff (keys : List Bytes)
  | sdiffStore (dest : Bytes) (keys : List Bytes)
  | sinter (keys : List Bytes)
  | sinterStore (dest : Bytes) (keys : List Bytes)
  | sismember (key member : Bytes)
  | smembers (key : Bytes)
  | smove (src dest member : Bytes)
  | spop (key : Bytes)
  | srandMember (key : Bytes)
  | srem (key : Bytes) (members : List Bytes)
  | sscan (key : Bytes) (cursor : Int) (match_ : Bytes) (count : Int)
  | sunion (keys : List Bytes)
  | sunionStore (dest : Bytes) (keys : List Bytes)
  -- sorted set
  | zadd (key : Bytes) (items : List (Bytes × Score))
  | zcard (key : Bytes)
  | zcount (key : Bytes) (min max : Score)
  | zincrBy (key : Bytes) (delta : Score) (member : Bytes)
  | zinter (keys : List Bytes) (aggregate : Bytes) (withScores : Bool)
  | zinterStore (dest : Bytes) (keys : List Bytes) (aggregate : Bytes)
  | zrange (key : Bytes) (start stop : Score) (byScore rev : Bool) (offset count : Int) (withScores : Bool)
  | zrangeByScore (key : Bytes) (min max : Score) (withScores : Bool) (offset count : Int)
  | zrank (key member : Bytes) (withScore : Bool)
  | zrem (key : Bytes) (members : List Bytes)
  | zremRangeByRank (key : Bytes) (start stop : Int)
  | zremRangeByScore (key : Bytes) (min max : Score)
  | zrevRange (key : Bytes) (start stop : Int) (withScores : Bool)
  | zrevRangeByScore (key : Bytes) (min max : Score) (withScores : Bool) (offset count : Int)
  | zrevRank (key member : Bytes) (withScore : Bool)
  | zscan (key : Bytes) (cursor : Int) (match_ : Bytes) (count : Int)
  | zscore (key member : Bytes)
  | zunion (keys : List Bytes) (aggregate : Bytes) (withScores : Bool)
  | zunionStore (dest : Bytes) (keys : List Bytes) (aggregate : Bytes)
deriving DecidableEq

/-- a `redis.Cmd` value: the embedded `BaseCmd{name, args}` and the parsed fields -/
structure ParsedCmd where
  /-- `strings.ToLower(string(args[0]))` -/
  name : Bytes
  /-- `args[1:]` -/
  args : List Bytes
  cmd : Cmd
deriving DecidableEq

/-- `cmd.Error(err)` for a Redis-level error -/
def ParsedCmd.errorR (c : ParsedCmd) (e : RErr) : Bytes := errorText (asciiBytes e.text) c.name

end Redka.Wire
