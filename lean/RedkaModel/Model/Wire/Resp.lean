/-
  RESP reply encoding as written by `github.com/tidwall/redcon` v1.6.2 (`resp.go`), and a strict
  decoder for it. Core Lean only.

  Encoder side (what the server sends):
    AppendString  `+s\r\n`   (CR and LF inside `s` replaced by spaces: `stripNewlines`)
    AppendError   `-s\r\n`   (likewise)
    AppendInt     `:n\r\n`
    AppendBulk    `$len\r\n<bytes>\r\n`
    AppendNull    `$-1\r\n`
    AppendArray   `*n\r\n` followed by the `n` elements
-/
import RedkaModel.Basic

namespace Redka.Resp

open Redka

inductive Reply where
  | simple (s : Bytes)
  | err (s : Bytes)
  | int (i : Int)
  | bulk (b : Bytes)
  | null
  | array (l : List Reply)

/-! ### encoder -/

/-- redcon `stripNewlines`: if the string has a CR or LF, every CR and every LF becomes a space;
otherwise the string is unchanged. Both cases are this map. -/
def stripNewlines (s : Bytes) : Bytes :=
  s.map fun c => if c = 13 ∨ c = 10 then 32 else c

def crlf : Bytes := [13, 10]

/-- redcon `appendPrefix`: the type byte, the number as `strconv.AppendInt` prints it (the
single-digit fast path prints the same text), CRLF. -/
def appendPrefix (c : UInt8) (n : Int) : Bytes := c :: (itoa n ++ crlf)

mutual
/-- the bytes redcon appends for one reply -/
def encode : Reply → Bytes
  | .simple s => 43 :: (stripNewlines s ++ crlf)
  | .err s => 45 :: (stripNewlines s ++ crlf)
  | .int i => appendPrefix 58 i
  | .bulk b => appendPrefix 36 (b.length : Int) ++ (b ++ crlf)
  | .null => [36, 45, 49, 13, 10]
  | .array l => appendPrefix 42 (l.length : Int) ++ encodeList l
/-- the elements of an array, one after another -/
def encodeList : List Reply → Bytes
  | [] => []
  | r :: rs => encode r ++ encodeList rs
end

/-! ### the replies whose text form is faithful

Simple strings and errors are line-delimited, so a CR or LF in them is rewritten by the encoder.
`Clean` excludes exactly that; bulk strings and integers are unrestricted. -/

mutual
def isClean : Reply → Bool
  | .simple s => !s.contains 13 && !s.contains 10
  | .err s => !s.contains 13 && !s.contains 10
  | .array l => isCleanList l
  | _ => true
def isCleanList : List Reply → Bool
  | [] => true
  | r :: rs => isClean r && isCleanList rs
end

/-- no simple string or error, at any depth, contains CR or LF -/
abbrev Clean (r : Reply) : Prop := isClean r = true

/-! ### strict decoder -/

/-- Read up to the first CR or LF; that must be a CR immediately followed by LF.
Returns the line (without CRLF) and what follows the CRLF. -/
def readLine : Bytes → Option (Bytes × Bytes)
  | [] => none
  | c :: cs =>
    if c = 13 then
      match cs with
      | d :: rest => if d = 10 then some ([], rest) else none
      | [] => none
    else if c = 10 then none
    else
      match readLine cs with
      | some (l, r) => some (c :: l, r)
      | none => none

/-- one or more decimal digits, nothing else -/
def parseNat (ds : Bytes) : Option Nat :=
  if ds.isEmpty || !ds.all isDigit then none else some (digitsVal ds 0)

/-- optional `-`, then one or more decimal digits; no `+`, no range limit -/
def parseInt : Bytes → Option Int
  | [] => none
  | c :: ds =>
    if c = 45 then
      match parseNat ds with
      | some n => some (-(n : Int))
      | none => none
    else
      match parseNat (c :: ds) with
      | some n => some (n : Int)
      | none => none

/-- exactly `n` payload bytes followed by CRLF -/
def readBulk (n : Nat) (input : Bytes) : Option (Bytes × Bytes) :=
  match input.drop n with
  | c :: d :: rest => if c = 13 ∧ d = 10 then some (input.take n, rest) else none
  | _ => none

/-- `k` replies one after another, each read by `dec` -/
def decodeMany (dec : Bytes → Option (Reply × Bytes)) : Nat → Bytes → Option (List Reply × Bytes)
  | 0, input => some ([], input)
  | k + 1, input =>
    match dec input with
    | none => none
    | some (r, rest) =>
      match decodeMany dec k rest with
      | none => none
      | some (rs, rest') => some (r :: rs, rest')

/-- One reply from the front of the input; the fuel bounds the array nesting depth. -/
def decodeF : Nat → Bytes → Option (Reply × Bytes)
  | 0, _ => none
  | _, [] => none
  | f + 1, t :: input =>
    match readLine input with
    | none => none
    | some (line, rest) =>
      if t = 43 then some (.simple line, rest)
      else if t = 45 then some (.err line, rest)
      else if t = 58 then
        match parseInt line with
        | none => none
        | some i => some (.int i, rest)
      else if t = 36 then
        if line = [45, 49] then some (.null, rest)
        else
          match parseNat line with
          | none => none
          | some n =>
            match readBulk n rest with
            | none => none
            | some (b, rest') => some (.bulk b, rest')
      else if t = 42 then
        match parseNat line with
        | none => none
        | some n =>
          match decodeMany (decodeF f) n rest with
          | none => none
          | some (l, rest') => some (.array l, rest')
      else none

/-- Parse exactly one reply from the front; returns it and the remaining bytes.
Nesting depth cannot exceed the input length, so that much fuel is always enough. -/
def decode (input : Bytes) : Option (Reply × Bytes) := decodeF input.length input

def decodeAllF : Nat → Bytes → Option (List Reply)
  | _, [] => some []
  | 0, _ :: _ => none
  | f + 1, input =>
    match decode input with
    | none => none
    | some (r, rest) =>
      match decodeAllF f rest with
      | none => none
      | some rs => some (r :: rs)

/-- a concatenated stream of replies, consumed to the end -/
def decodeAll (input : Bytes) : Option (List Reply) := decodeAllF input.length input

/-! ### structural equality (the nested inductive has no derived instance) -/

mutual
def Reply.beq : Reply → Reply → Bool
  | .simple a, .simple b => a == b
  | .err a, .err b => a == b
  | .int a, .int b => a == b
  | .bulk a, .bulk b => a == b
  | .null, .null => true
  | .array a, .array b => Reply.beqList a b
  | _, _ => false
def Reply.beqList : List Reply → List Reply → Bool
  | [], [] => true
  | a :: as, b :: bs => Reply.beq a b && Reply.beqList as bs
  | _, _ => false
end

instance : BEq Reply := ⟨Reply.beq⟩

end Redka.Resp
