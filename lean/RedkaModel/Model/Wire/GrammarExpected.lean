/-
  Committed expectation, produced by tools/extract_wire from the redka source tree: the `parser.New(...)` argument tree of
  every `ParseXxx` in internal/command/*, the hand-written parse functions, and the dispatch
  table of internal/command/command.go. Reviewed by hand against the Go source; the model's
  theorems are stated about these values, `RedkaModel/Tie/Grammar.lean` ties the generated file to them.
-/
import RedkaModel.Model.Wire.Parser

namespace Redka.Wire.Expected

open Redka.Wire

/-- `conn.ParseEcho` -/
def grammar_Echo : Grammar :=
  { parsers := [
      .strings "parts"
    ],
    required := 1 }

/-- `conn.ParsePing` -/
def grammar_Ping : Grammar :=
  { parsers := [
      .string "message"
    ],
    required := 0 }

/-- `conn.ParseSelect` -/
def grammar_Select : Grammar :=
  { parsers := [
      .int "index"
    ],
    required := 1 }

/-- `hash.ParseHDel` -/
def grammar_HDel : Grammar :=
  { parsers := [
      .string "key",
      .strings "fields"
    ],
    required := 2 }

/-- `hash.ParseHIncrBy` -/
def grammar_HIncrBy : Grammar :=
  { parsers := [
      .string "key",
      .string "field",
      .int "delta"
    ],
    required := 3 }

/-- `hash.ParseHIncrByFloat` -/
def grammar_HIncrByFloat : Grammar :=
  { parsers := [
      .string "key",
      .string "field",
      .float "delta"
    ],
    required := 3 }

/-- `hash.ParseHMGet` -/
def grammar_HMGet : Grammar :=
  { parsers := [
      .string "key",
      .strings "fields"
    ],
    required := 2 }

/-- `hash.ParseHMSet` -/
def grammar_HMSet : Grammar :=
  { parsers := [
      .string "key",
      .anyMap "items"
    ],
    required := 3 }

/-- `hash.ParseHScan` -/
def grammar_HScan : Grammar :=
  { parsers := [
      .string "key",
      .int "cursor",
      .named "match" [.string "match"],
      .named "count" [.int "count"]
    ],
    required := 2 }

/-- `hash.ParseHSet` -/
def grammar_HSet : Grammar :=
  { parsers := [
      .string "key",
      .anyMap "items"
    ],
    required := 3 }

/-- `key.ParseDel` -/
def grammar_Del : Grammar :=
  { parsers := [
      .strings "keys"
    ],
    required := 1 }

/-- `key.ParseExists` -/
def grammar_Exists : Grammar :=
  { parsers := [
      .strings "keys"
    ],
    required := 1 }

/-- `key.ParseExpire` -/
def grammar_Expire : Grammar :=
  { parsers := [
      .string "key",
      .int "ttl"
    ],
    required := 2 }

/-- `key.ParseExpireAt` -/
def grammar_ExpireAt : Grammar :=
  { parsers := [
      .string "key",
      .int "at"
    ],
    required := 2 }

/-- `key.ParseScan` -/
def grammar_Scan : Grammar :=
  { parsers := [
      .int "cursor",
      .named "match" [.string "match"],
      .named "count" [.int "count"],
      .named "type" [.enum "ktype" ["hash", "list", "set", "string", "zset"]]
    ],
    required := 1 }

/-- `list.ParseLIndex` -/
def grammar_LIndex : Grammar :=
  { parsers := [
      .string "key",
      .int "index"
    ],
    required := 2 }

/-- `list.ParseLInsert` -/
def grammar_LInsert : Grammar :=
  { parsers := [
      .string "key",
      .enum "where" ["before", "after"],
      .bytes "pivot",
      .bytes "elem"
    ],
    required := 4 }

/-- `list.ParseLLen` -/
def grammar_LLen : Grammar :=
  { parsers := [
      .string "key"
    ],
    required := 1 }

/-- `list.ParseLPop` -/
def grammar_LPop : Grammar :=
  { parsers := [
      .string "key"
    ],
    required := 1 }

/-- `list.ParseLPush` -/
def grammar_LPush : Grammar :=
  { parsers := [
      .string "key",
      .bytes "elem"
    ],
    required := 2 }

/-- `list.ParseLRange` -/
def grammar_LRange : Grammar :=
  { parsers := [
      .string "key",
      .int "start",
      .int "stop"
    ],
    required := 3 }

/-- `list.ParseLRem` -/
def grammar_LRem : Grammar :=
  { parsers := [
      .string "key",
      .int "count",
      .bytes "elem"
    ],
    required := 3 }

/-- `list.ParseLSet` -/
def grammar_LSet : Grammar :=
  { parsers := [
      .string "key",
      .int "index",
      .bytes "elem"
    ],
    required := 3 }

/-- `list.ParseLTrim` -/
def grammar_LTrim : Grammar :=
  { parsers := [
      .string "key",
      .int "start",
      .int "stop"
    ],
    required := 3 }

/-- `list.ParseRPop` -/
def grammar_RPop : Grammar :=
  { parsers := [
      .string "key"
    ],
    required := 1 }

/-- `list.ParseRPopLPush` -/
def grammar_RPopLPush : Grammar :=
  { parsers := [
      .string "src",
      .string "dst"
    ],
    required := 2 }

/-- `list.ParseRPush` -/
def grammar_RPush : Grammar :=
  { parsers := [
      .string "key",
      .bytes "elem"
    ],
    required := 2 }

/-- `server.ParseLolwut` -/
def grammar_Lolwut : Grammar :=
  { parsers := [
      .strings "parts"
    ],
    required := 0 }

/-- `set.ParseSAdd` -/
def grammar_SAdd : Grammar :=
  { parsers := [
      .string "key",
      .anys "members"
    ],
    required := 2 }

/-- `set.ParseSDiff` -/
def grammar_SDiff : Grammar :=
  { parsers := [
      .strings "keys"
    ],
    required := 1 }

/-- `set.ParseSDiffStore` -/
def grammar_SDiffStore : Grammar :=
  { parsers := [
      .string "dest",
      .strings "keys"
    ],
    required := 2 }

/-- `set.ParseSInter` -/
def grammar_SInter : Grammar :=
  { parsers := [
      .strings "keys"
    ],
    required := 1 }

/-- `set.ParseSInterStore` -/
def grammar_SInterStore : Grammar :=
  { parsers := [
      .string "dest",
      .strings "keys"
    ],
    required := 2 }

/-- `set.ParseSIsMember` -/
def grammar_SIsMember : Grammar :=
  { parsers := [
      .string "key",
      .bytes "member"
    ],
    required := 2 }

/-- `set.ParseSMove` -/
def grammar_SMove : Grammar :=
  { parsers := [
      .string "src",
      .string "dest",
      .bytes "member"
    ],
    required := 3 }

/-- `set.ParseSRem` -/
def grammar_SRem : Grammar :=
  { parsers := [
      .string "key",
      .anys "members"
    ],
    required := 2 }

/-- `set.ParseSScan` -/
def grammar_SScan : Grammar :=
  { parsers := [
      .string "key",
      .int "cursor",
      .named "match" [.string "match"],
      .named "count" [.int "count"]
    ],
    required := 2 }

/-- `set.ParseSUnion` -/
def grammar_SUnion : Grammar :=
  { parsers := [
      .strings "keys"
    ],
    required := 1 }

/-- `set.ParseSUnionStore` -/
def grammar_SUnionStore : Grammar :=
  { parsers := [
      .string "dest",
      .strings "keys"
    ],
    required := 2 }

/-- `string.ParseIncrBy` -/
def grammar_IncrBy : Grammar :=
  { parsers := [
      .string "key",
      .int "delta"
    ],
    required := 2 }

/-- `string.ParseIncrByFloat` -/
def grammar_IncrByFloat : Grammar :=
  { parsers := [
      .string "key",
      .float "delta"
    ],
    required := 2 }

/-- `string.ParseMSet` -/
def grammar_MSet : Grammar :=
  { parsers := [
      .anyMap "items"
    ],
    required := 2 }

/-- `string.ParseSet` -/
def grammar_Set : Grammar :=
  { parsers := [
      .string "key",
      .bytes "value",
      .oneOf [.flag "nx" "ifNX", .flag "xx" "ifXX"],
      .flag "get" "get",
      .oneOf [.named "ex" [.int "ttlSec"], .named "px" [.int "ttlMs"], .named "exat" [.int "atSec"], .named "pxat" [.int "atMs"], .flag "keepttl" "keepTTL"]
    ],
    required := 2 }

/-- `string.ParseSetEX` -/
def grammar_SetEX : Grammar :=
  { parsers := [
      .string "key",
      .int "ttl",
      .bytes "value"
    ],
    required := 3 }

/-- `zset.ParseZAdd` -/
def grammar_ZAdd : Grammar :=
  { parsers := [
      .string "key",
      .floatMap "items"
    ],
    required := 3 }

/-- `zset.ParseZCount` -/
def grammar_ZCount : Grammar :=
  { parsers := [
      .string "key",
      .float "min",
      .float "max"
    ],
    required := 3 }

/-- `zset.ParseZIncrBy` -/
def grammar_ZIncrBy : Grammar :=
  { parsers := [
      .string "key",
      .float "delta",
      .string "member"
    ],
    required := 3 }

/-- `zset.ParseZInter` -/
def grammar_ZInter : Grammar :=
  { parsers := [
      .int "nKeys",
      .stringsN "keys" "nKeys",
      .named "aggregate" [.enum "aggregate" ["sum", "min", "max"]],
      .flag "withscores" "withScores"
    ],
    required := 2 }

/-- `zset.ParseZInterStore` -/
def grammar_ZInterStore : Grammar :=
  { parsers := [
      .string "dest",
      .int "nKeys",
      .stringsN "keys" "nKeys",
      .named "aggregate" [.enum "aggregate" ["sum", "min", "max"]]
    ],
    required := 3 }

/-- `zset.ParseZRange` -/
def grammar_ZRange : Grammar :=
  { parsers := [
      .string "key",
      .float "start",
      .float "stop",
      .flag "byscore" "byScore",
      .flag "rev" "rev",
      .named "limit" [.int "offset", .int "count"],
      .flag "withscores" "withScores"
    ],
    required := 3 }

/-- `zset.ParseZRangeByScore` -/
def grammar_ZRangeByScore : Grammar :=
  { parsers := [
      .string "key",
      .float "min",
      .float "max",
      .flag "withscores" "withScores",
      .named "limit" [.int "offset", .int "count"]
    ],
    required := 3 }

/-- `zset.ParseZRank` -/
def grammar_ZRank : Grammar :=
  { parsers := [
      .string "key",
      .string "member",
      .flag "withscore" "withScore"
    ],
    required := 2 }

/-- `zset.ParseZRem` -/
def grammar_ZRem : Grammar :=
  { parsers := [
      .string "key",
      .anys "members"
    ],
    required := 2 }

/-- `zset.ParseZRemRangeByRank` -/
def grammar_ZRemRangeByRank : Grammar :=
  { parsers := [
      .string "key",
      .int "start",
      .int "stop"
    ],
    required := 3 }

/-- `zset.ParseZRemRangeByScore` -/
def grammar_ZRemRangeByScore : Grammar :=
  { parsers := [
      .string "key",
      .float "min",
      .float "max"
    ],
    required := 3 }

/-- `zset.ParseZRevRange` -/
def grammar_ZRevRange : Grammar :=
  { parsers := [
      .string "key",
      .int "start",
      .int "stop",
      .flag "withscores" "withScores"
    ],
    required := 3 }

/-- `zset.ParseZRevRangeByScore` -/
def grammar_ZRevRangeByScore : Grammar :=
  { parsers := [
      .string "key",
      .float "min",
      .float "max",
      .flag "withscores" "withScores",
      .named "limit" [.int "offset", .int "count"]
    ],
    required := 3 }

/-- `zset.ParseZRevRank` -/
def grammar_ZRevRank : Grammar :=
  { parsers := [
      .string "key",
      .string "member",
      .flag "withscore" "withScore"
    ],
    required := 2 }

/-- `zset.ParseZScan` -/
def grammar_ZScan : Grammar :=
  { parsers := [
      .string "key",
      .int "cursor",
      .named "match" [.string "match"],
      .named "count" [.int "count"]
    ],
    required := 2 }

/-- `zset.ParseZScore` -/
def grammar_ZScore : Grammar :=
  { parsers := [
      .string "key",
      .string "member"
    ],
    required := 2 }

/-- `zset.ParseZUnion` -/
def grammar_ZUnion : Grammar :=
  { parsers := [
      .int "nKeys",
      .stringsN "keys" "nKeys",
      .named "aggregate" [.enum "aggregate" ["sum", "min", "max"]],
      .flag "withscores" "withScores"
    ],
    required := 2 }

/-- `zset.ParseZUnionStore` -/
def grammar_ZUnionStore : Grammar :=
  { parsers := [
      .string "dest",
      .int "nKeys",
      .stringsN "keys" "nKeys",
      .named "aggregate" [.enum "aggregate" ["sum", "min", "max"]]
    ],
    required := 3 }

/-- every pipeline-based parse function: name, extra parameters, grammar -/
def grammars : List (String × List String × Grammar) := [
  ("conn.ParseEcho", [], grammar_Echo),
  ("conn.ParsePing", [], grammar_Ping),
  ("conn.ParseSelect", [], grammar_Select),
  ("hash.ParseHDel", [], grammar_HDel),
  ("hash.ParseHIncrBy", [], grammar_HIncrBy),
  ("hash.ParseHIncrByFloat", [], grammar_HIncrByFloat),
  ("hash.ParseHMGet", [], grammar_HMGet),
  ("hash.ParseHMSet", [], grammar_HMSet),
  ("hash.ParseHScan", [], grammar_HScan),
  ("hash.ParseHSet", [], grammar_HSet),
  ("key.ParseDel", [], grammar_Del),
  ("key.ParseExists", [], grammar_Exists),
  ("key.ParseExpire", ["multi"], grammar_Expire),
  ("key.ParseExpireAt", ["multi"], grammar_ExpireAt),
  ("key.ParseScan", [], grammar_Scan),
  ("list.ParseLIndex", [], grammar_LIndex),
  ("list.ParseLInsert", [], grammar_LInsert),
  ("list.ParseLLen", [], grammar_LLen),
  ("list.ParseLPop", [], grammar_LPop),
  ("list.ParseLPush", [], grammar_LPush),
  ("list.ParseLRange", [], grammar_LRange),
  ("list.ParseLRem", [], grammar_LRem),
  ("list.ParseLSet", [], grammar_LSet),
  ("list.ParseLTrim", [], grammar_LTrim),
  ("list.ParseRPop", [], grammar_RPop),
  ("list.ParseRPopLPush", [], grammar_RPopLPush),
  ("list.ParseRPush", [], grammar_RPush),
  ("server.ParseLolwut", [], grammar_Lolwut),
  ("set.ParseSAdd", [], grammar_SAdd),
  ("set.ParseSDiff", [], grammar_SDiff),
  ("set.ParseSDiffStore", [], grammar_SDiffStore),
  ("set.ParseSInter", [], grammar_SInter),
  ("set.ParseSInterStore", [], grammar_SInterStore),
  ("set.ParseSIsMember", [], grammar_SIsMember),
  ("set.ParseSMove", [], grammar_SMove),
  ("set.ParseSRem", [], grammar_SRem),
  ("set.ParseSScan", [], grammar_SScan),
  ("set.ParseSUnion", [], grammar_SUnion),
  ("set.ParseSUnionStore", [], grammar_SUnionStore),
  ("string.ParseIncrBy", ["sign"], grammar_IncrBy),
  ("string.ParseIncrByFloat", [], grammar_IncrByFloat),
  ("string.ParseMSet", [], grammar_MSet),
  ("string.ParseSet", [], grammar_Set),
  ("string.ParseSetEX", ["multi"], grammar_SetEX),
  ("zset.ParseZAdd", [], grammar_ZAdd),
  ("zset.ParseZCount", [], grammar_ZCount),
  ("zset.ParseZIncrBy", [], grammar_ZIncrBy),
  ("zset.ParseZInter", [], grammar_ZInter),
  ("zset.ParseZInterStore", [], grammar_ZInterStore),
  ("zset.ParseZRange", [], grammar_ZRange),
  ("zset.ParseZRangeByScore", [], grammar_ZRangeByScore),
  ("zset.ParseZRank", [], grammar_ZRank),
  ("zset.ParseZRem", [], grammar_ZRem),
  ("zset.ParseZRemRangeByRank", [], grammar_ZRemRangeByRank),
  ("zset.ParseZRemRangeByScore", [], grammar_ZRemRangeByScore),
  ("zset.ParseZRevRange", [], grammar_ZRevRange),
  ("zset.ParseZRevRangeByScore", [], grammar_ZRevRangeByScore),
  ("zset.ParseZRevRank", [], grammar_ZRevRank),
  ("zset.ParseZScan", [], grammar_ZScan),
  ("zset.ParseZScore", [], grammar_ZScore),
  ("zset.ParseZUnion", [], grammar_ZUnion),
  ("zset.ParseZUnionStore", [], grammar_ZUnionStore)
]

/-- parse functions that inspect `cmd.Args()` by hand (no pipeline): name, extra parameters -/
def manualParsers : List (String × List String) := [
  ("hash.ParseHExists", []),
  ("hash.ParseHGet", []),
  ("hash.ParseHGetAll", []),
  ("hash.ParseHKeys", []),
  ("hash.ParseHLen", []),
  ("hash.ParseHSetNX", []),
  ("hash.ParseHVals", []),
  ("key.ParseFlushDB", []),
  ("key.ParseKeys", []),
  ("key.ParsePersist", []),
  ("key.ParseRandomKey", []),
  ("key.ParseRename", []),
  ("key.ParseRenameNX", []),
  ("key.ParseTTL", []),
  ("key.ParseType", []),
  ("server.ParseConfig", []),
  ("server.ParseDBSize", []),
  ("server.ParseOK", []),
  ("server.ParseUnknown", []),
  ("set.ParseSCard", []),
  ("set.ParseSMembers", []),
  ("set.ParseSPop", []),
  ("set.ParseSRandMember", []),
  ("string.ParseGet", []),
  ("string.ParseGetSet", []),
  ("string.ParseIncr", ["sign"]),
  ("string.ParseMGet", []),
  ("string.ParseSetNX", []),
  ("string.ParseStrlen", []),
  ("zset.ParseZCard", [])
]

/-- `command.Parse`: lower-cased command name ↦ parse function and its extra arguments -/
def dispatch : List (String × String × List Int) := [
  ("command", "server.ParseOK", []),
  ("config", "server.ParseConfig", []),
  ("dbsize", "server.ParseDBSize", []),
  ("flushdb", "key.ParseFlushDB", []),
  ("flushall", "key.ParseFlushDB", []),
  ("info", "server.ParseOK", []),
  ("lolwut", "server.ParseLolwut", []),
  ("echo", "conn.ParseEcho", []),
  ("ping", "conn.ParsePing", []),
  ("select", "conn.ParseSelect", []),
  ("del", "key.ParseDel", []),
  ("exists", "key.ParseExists", []),
  ("expire", "key.ParseExpire", [1000]),
  ("expireat", "key.ParseExpireAt", [1000]),
  ("keys", "key.ParseKeys", []),
  ("persist", "key.ParsePersist", []),
  ("pexpire", "key.ParseExpire", [1]),
  ("pexpireat", "key.ParseExpireAt", [1]),
  ("randomkey", "key.ParseRandomKey", []),
  ("rename", "key.ParseRename", []),
  ("renamenx", "key.ParseRenameNX", []),
  ("scan", "key.ParseScan", []),
  ("ttl", "key.ParseTTL", []),
  ("type", "key.ParseType", []),
  ("lindex", "list.ParseLIndex", []),
  ("linsert", "list.ParseLInsert", []),
  ("llen", "list.ParseLLen", []),
  ("lpop", "list.ParseLPop", []),
  ("lpush", "list.ParseLPush", []),
  ("lrange", "list.ParseLRange", []),
  ("lrem", "list.ParseLRem", []),
  ("lset", "list.ParseLSet", []),
  ("ltrim", "list.ParseLTrim", []),
  ("rpop", "list.ParseRPop", []),
  ("rpoplpush", "list.ParseRPopLPush", []),
  ("rpush", "list.ParseRPush", []),
  ("decr", "string.ParseIncr", [(-1)]),
  ("decrby", "string.ParseIncrBy", [(-1)]),
  ("get", "string.ParseGet", []),
  ("getset", "string.ParseGetSet", []),
  ("incr", "string.ParseIncr", [1]),
  ("incrby", "string.ParseIncrBy", [1]),
  ("incrbyfloat", "string.ParseIncrByFloat", []),
  ("mget", "string.ParseMGet", []),
  ("mset", "string.ParseMSet", []),
  ("psetex", "string.ParseSetEX", [1]),
  ("set", "string.ParseSet", []),
  ("setex", "string.ParseSetEX", [1000]),
  ("setnx", "string.ParseSetNX", []),
  ("strlen", "string.ParseStrlen", []),
  ("hdel", "hash.ParseHDel", []),
  ("hexists", "hash.ParseHExists", []),
  ("hget", "hash.ParseHGet", []),
  ("hgetall", "hash.ParseHGetAll", []),
  ("hincrby", "hash.ParseHIncrBy", []),
  ("hincrbyfloat", "hash.ParseHIncrByFloat", []),
  ("hkeys", "hash.ParseHKeys", []),
  ("hlen", "hash.ParseHLen", []),
  ("hmget", "hash.ParseHMGet", []),
  ("hmset", "hash.ParseHMSet", []),
  ("hscan", "hash.ParseHScan", []),
  ("hset", "hash.ParseHSet", []),
  ("hsetnx", "hash.ParseHSetNX", []),
  ("hvals", "hash.ParseHVals", []),
  ("sadd", "set.ParseSAdd", []),
  ("scard", "set.ParseSCard", []),
  ("sdiff", "set.ParseSDiff", []),
  ("sdiffstore", "set.ParseSDiffStore", []),
  ("sinter", "set.ParseSInter", []),
  ("sinterstore", "set.ParseSInterStore", []),
  ("sismember", "set.ParseSIsMember", []),
  ("smembers", "set.ParseSMembers", []),
  ("smove", "set.ParseSMove", []),
  ("spop", "set.ParseSPop", []),
  ("srandmember", "set.ParseSRandMember", []),
  ("srem", "set.ParseSRem", []),
  ("sscan", "set.ParseSScan", []),
  ("sunion", "set.ParseSUnion", []),
  ("sunionstore", "set.ParseSUnionStore", []),
  ("zadd", "zset.ParseZAdd", []),
  ("zcard", "zset.ParseZCard", []),
  ("zcount", "zset.ParseZCount", []),
  ("zincrby", "zset.ParseZIncrBy", []),
  ("zinter", "zset.ParseZInter", []),
  ("zinterstore", "zset.ParseZInterStore", []),
  ("zrange", "zset.ParseZRange", []),
  ("zrangebyscore", "zset.ParseZRangeByScore", []),
  ("zrank", "zset.ParseZRank", []),
  ("zrem", "zset.ParseZRem", []),
  ("zremrangebyrank", "zset.ParseZRemRangeByRank", []),
  ("zremrangebyscore", "zset.ParseZRemRangeByScore", []),
  ("zrevrange", "zset.ParseZRevRange", []),
  ("zrevrangebyscore", "zset.ParseZRevRangeByScore", []),
  ("zrevrank", "zset.ParseZRevRank", []),
  ("zscan", "zset.ParseZScan", []),
  ("zscore", "zset.ParseZScore", []),
  ("zunion", "zset.ParseZUnion", []),
  ("zunionstore", "zset.ParseZUnionStore", [])
]

/-- the `default:` branch of `command.Parse` -/
def dispatchDefault : String := "server.ParseUnknown"

end Redka.Wire.Expected
