/-
  Committed expectation, produced by tools/extract_wire (cmds.go) from the tree the wire model was
  transcribed from and reviewed against it. `RedkaModel/Tie/Cmds.lean` ties the regenerated file to it.
-/
import RedkaModel.Model.Wire.CmdSrc

namespace Redka.Wire.Expected

open Redka.Wire

def parseText_conn_ParseEcho : String := "func ParseEcho(v0 redis.BaseCmd) (Echo, error) { v1 := Echo{BaseCmd: v0} v2 := parser.New( parser.Strings(&v1.parts), ).Required(1).Run(v1.Args()) if v2 != nil { return Echo{}, v2 } return v1, nil }"
def runText_conn_ParseEcho : String := "func (v0 Echo) Run(v1 redis.Writer, _ redis.Redka) (any, error) { v2 := strings.Join(v0.parts, \" \") v1.WriteAny(v2) return v2, nil }"
/-- `conn.ParseEcho` -/
def src_conn_ParseEcho : CmdSrc :=
  { fn := "conn.ParseEcho", ty := "conn.Echo",
    parse := parseText_conn_ParseEcho,
    run := runText_conn_ParseEcho,
    calls := [],
    methods := ["Join", "WriteAny"],
    writes := ["WriteAny"] }

def parseText_conn_ParsePing : String := "func ParsePing(v0 redis.BaseCmd) (Ping, error) { v1 := Ping{BaseCmd: v0} v2 := parser.New( parser.String(&v1.message), ).Required(0).Run(v1.Args()) if v2 != nil { return Ping{}, v2 } return v1, nil }"
def runText_conn_ParsePing : String := "func (v0 Ping) Run(v1 redis.Writer, _ redis.Redka) (any, error) { if v0.message == \"\" { v1.WriteAny(PONG) return PONG, nil } v1.WriteBulkString(v0.message) return v0.message, nil }"
/-- `conn.ParsePing` -/
def src_conn_ParsePing : CmdSrc :=
  { fn := "conn.ParsePing", ty := "conn.Ping",
    parse := parseText_conn_ParsePing,
    run := runText_conn_ParsePing,
    calls := [],
    methods := ["WriteAny", "WriteBulkString"],
    writes := ["WriteAny", "WriteBulkString"] }

def parseText_conn_ParseSelect : String := "func ParseSelect(v0 redis.BaseCmd) (Select, error) { v1 := Select{BaseCmd: v0} v2 := parser.New( parser.Int(&v1.index), ).Required(1).Run(v1.Args()) if v2 != nil { return Select{}, v2 } return v1, nil }"
def runText_conn_ParseSelect : String := "func (v0 Select) Run(v1 redis.Writer, _ redis.Redka) (any, error) { v1.WriteString(\"OK\") return true, nil }"
/-- `conn.ParseSelect` -/
def src_conn_ParseSelect : CmdSrc :=
  { fn := "conn.ParseSelect", ty := "conn.Select",
    parse := parseText_conn_ParseSelect,
    run := runText_conn_ParseSelect,
    calls := [],
    methods := ["WriteString"],
    writes := ["WriteString"] }

def parseText_hash_ParseHDel : String := "func ParseHDel(v0 redis.BaseCmd) (HDel, error) { v1 := HDel{BaseCmd: v0} v2 := parser.New( parser.String(&v1.key), parser.Strings(&v1.fields), ).Required(2).Run(v1.Args()) if v2 != nil { return HDel{}, v2 } return v1, nil }"
def runText_hash_ParseHDel : String := "func (v0 HDel) Run(v1 redis.Writer, v2 redis.Redka) (any, error) { v3, v4 := v2.Hash().Delete(v0.key, v0.fields...) if v4 != nil { v1.WriteError(v0.Error(v4)) return nil, v4 } v1.WriteInt(v3) return v3, nil }"
/-- `hash.ParseHDel` -/
def src_hash_ParseHDel : CmdSrc :=
  { fn := "hash.ParseHDel", ty := "hash.HDel",
    parse := parseText_hash_ParseHDel,
    run := runText_hash_ParseHDel,
    calls := ["Hash.Delete"],
    methods := ["Delete", "Error", "Hash", "WriteError", "WriteInt"],
    writes := ["WriteError", "WriteInt"] }

def parseText_hash_ParseHExists : String := "func ParseHExists(v0 redis.BaseCmd) (HExists, error) { v1 := HExists{BaseCmd: v0} if len(v1.Args()) != 2 { return HExists{}, redis.ErrInvalidArgNum } v1.key = string(v1.Args()[0]) v1.field = string(v1.Args()[1]) return v1, nil }"
def runText_hash_ParseHExists : String := "func (v0 HExists) Run(v1 redis.Writer, v2 redis.Redka) (any, error) { v3, v4 := v2.Hash().Exists(v0.key, v0.field) if v4 != nil { v1.WriteError(v0.Error(v4)) return nil, v4 } if v3 { v1.WriteInt(1) } else { v1.WriteInt(0) } return v3, nil }"
/-- `hash.ParseHExists` -/
def src_hash_ParseHExists : CmdSrc :=
  { fn := "hash.ParseHExists", ty := "hash.HExists",
    parse := parseText_hash_ParseHExists,
    run := runText_hash_ParseHExists,
    calls := ["Hash.Exists"],
    methods := ["Error", "Exists", "Hash", "WriteError", "WriteInt"],
    writes := ["WriteError", "WriteInt"] }

def parseText_hash_ParseHGet : String := "func ParseHGet(v0 redis.BaseCmd) (HGet, error) { v1 := HGet{BaseCmd: v0} if len(v1.Args()) != 2 { return HGet{}, redis.ErrInvalidArgNum } v1.key = string(v1.Args()[0]) v1.field = string(v1.Args()[1]) return v1, nil }"
def runText_hash_ParseHGet : String := "func (v0 HGet) Run(v1 redis.Writer, v2 redis.Redka) (any, error) { v3, v4 := v2.Hash().Get(v0.key, v0.field) if v4 == core.ErrNotFound { v1.WriteNull() return v3, nil } if v4 != nil { v1.WriteError(v0.Error(v4)) return nil, v4 } v1.WriteBulk(v3) return v3, nil }"
/-- `hash.ParseHGet` -/
def src_hash_ParseHGet : CmdSrc :=
  { fn := "hash.ParseHGet", ty := "hash.HGet",
    parse := parseText_hash_ParseHGet,
    run := runText_hash_ParseHGet,
    calls := ["Hash.Get"],
    methods := ["Error", "Get", "Hash", "WriteBulk", "WriteError", "WriteNull"],
    writes := ["WriteBulk", "WriteError", "WriteNull"] }

def parseText_hash_ParseHGetAll : String := "func ParseHGetAll(v0 redis.BaseCmd) (HGetAll, error) { v1 := HGetAll{BaseCmd: v0} if len(v1.Args()) != 1 { return HGetAll{}, redis.ErrInvalidArgNum } v1.key = string(v1.Args()[0]) return v1, nil }"
def runText_hash_ParseHGetAll : String := "func (v0 HGetAll) Run(v1 redis.Writer, v2 redis.Redka) (any, error) { v3, v4 := v2.Hash().Items(v0.key) if v4 != nil { v1.WriteError(v0.Error(v4)) return nil, v4 } v1.WriteArray(len(v3) * 2) for v5, v6 := range v3 { v1.WriteBulkString(v5) v1.WriteBulk(v6) } return v3, nil }"
/-- `hash.ParseHGetAll` -/
def src_hash_ParseHGetAll : CmdSrc :=
  { fn := "hash.ParseHGetAll", ty := "hash.HGetAll",
    parse := parseText_hash_ParseHGetAll,
    run := runText_hash_ParseHGetAll,
    calls := ["Hash.Items"],
    methods := ["Error", "Hash", "Items", "WriteArray", "WriteBulk", "WriteBulkString", "WriteError"],
    writes := ["WriteArray", "WriteBulk", "WriteBulkString", "WriteError"] }

def parseText_hash_ParseHIncrBy : String := "func ParseHIncrBy(v0 redis.BaseCmd) (HIncrBy, error) { v1 := HIncrBy{BaseCmd: v0} v2 := parser.New( parser.String(&v1.key), parser.String(&v1.field), parser.Int(&v1.delta), ).Required(3).Run(v1.Args()) if v2 != nil { return HIncrBy{}, v2 } return v1, nil }"
def runText_hash_ParseHIncrBy : String := "func (v0 HIncrBy) Run(v1 redis.Writer, v2 redis.Redka) (any, error) { v3, v4 := v2.Hash().Incr(v0.key, v0.field, v0.delta) if v4 != nil { v1.WriteError(v0.Error(v4)) return nil, v4 } v1.WriteInt(v3) return v3, nil }"
/-- `hash.ParseHIncrBy` -/
def src_hash_ParseHIncrBy : CmdSrc :=
  { fn := "hash.ParseHIncrBy", ty := "hash.HIncrBy",
    parse := parseText_hash_ParseHIncrBy,
    run := runText_hash_ParseHIncrBy,
    calls := ["Hash.Incr"],
    methods := ["Error", "Hash", "Incr", "WriteError", "WriteInt"],
    writes := ["WriteError", "WriteInt"] }

def parseText_hash_ParseHIncrByFloat : String := "func ParseHIncrByFloat(v0 redis.BaseCmd) (HIncrByFloat, error) { v1 := HIncrByFloat{BaseCmd: v0} v2 := parser.New( parser.String(&v1.key), parser.String(&v1.field), parser.Float(&v1.delta), ).Required(3).Run(v1.Args()) if v2 != nil { return HIncrByFloat{}, v2 } return v1, nil }"
def runText_hash_ParseHIncrByFloat : String := "func (v0 HIncrByFloat) Run(v1 redis.Writer, v2 redis.Redka) (any, error) { v3, v4 := v2.Hash().IncrFloat(v0.key, v0.field, v0.delta) if v4 != nil { v1.WriteError(v0.Error(v4)) return nil, v4 } redis.WriteFloat(v1, v3) return v3, nil }"
/-- `hash.ParseHIncrByFloat` -/
def src_hash_ParseHIncrByFloat : CmdSrc :=
  { fn := "hash.ParseHIncrByFloat", ty := "hash.HIncrByFloat",
    parse := parseText_hash_ParseHIncrByFloat,
    run := runText_hash_ParseHIncrByFloat,
    calls := ["Hash.IncrFloat"],
    methods := ["Error", "Hash", "IncrFloat", "WriteError", "WriteFloat"],
    writes := ["WriteError", "WriteFloat"] }

def parseText_hash_ParseHKeys : String := "func ParseHKeys(v0 redis.BaseCmd) (HKeys, error) { v1 := HKeys{BaseCmd: v0} if len(v1.Args()) != 1 { return HKeys{}, redis.ErrInvalidArgNum } v1.key = string(v1.Args()[0]) return v1, nil }"
def runText_hash_ParseHKeys : String := "func (v0 HKeys) Run(v1 redis.Writer, v2 redis.Redka) (any, error) { v3, v4 := v2.Hash().Fields(v0.key) if v4 != nil { v1.WriteError(v0.Error(v4)) return nil, v4 } v1.WriteArray(len(v3)) for _, v5 := range v3 { v1.WriteBulkString(v5) } return v3, nil }"
/-- `hash.ParseHKeys` -/
def src_hash_ParseHKeys : CmdSrc :=
  { fn := "hash.ParseHKeys", ty := "hash.HKeys",
    parse := parseText_hash_ParseHKeys,
    run := runText_hash_ParseHKeys,
    calls := ["Hash.Fields"],
    methods := ["Error", "Fields", "Hash", "WriteArray", "WriteBulkString", "WriteError"],
    writes := ["WriteArray", "WriteBulkString", "WriteError"] }

def parseText_hash_ParseHLen : String := "func ParseHLen(v0 redis.BaseCmd) (HLen, error) { v1 := HLen{BaseCmd: v0} if len(v1.Args()) != 1 { return HLen{}, redis.ErrInvalidArgNum } v1.key = string(v1.Args()[0]) return v1, nil }"
def runText_hash_ParseHLen : String := "func (v0 HLen) Run(v1 redis.Writer, v2 redis.Redka) (any, error) { v3, v4 := v2.Hash().Len(v0.key) if v4 != nil { v1.WriteError(v0.Error(v4)) return nil, v4 } v1.WriteInt(v3) return v3, nil }"
/-- `hash.ParseHLen` -/
def src_hash_ParseHLen : CmdSrc :=
  { fn := "hash.ParseHLen", ty := "hash.HLen",
    parse := parseText_hash_ParseHLen,
    run := runText_hash_ParseHLen,
    calls := ["Hash.Len"],
    methods := ["Error", "Hash", "Len", "WriteError", "WriteInt"],
    writes := ["WriteError", "WriteInt"] }

def parseText_hash_ParseHMGet : String := "func ParseHMGet(v0 redis.BaseCmd) (HMGet, error) { v1 := HMGet{BaseCmd: v0} v2 := parser.New( parser.String(&v1.key), parser.Strings(&v1.fields), ).Required(2).Run(v1.Args()) if v2 != nil { return HMGet{}, v2 } return v1, nil }"
def runText_hash_ParseHMGet : String := "func (v0 HMGet) Run(v1 redis.Writer, v2 redis.Redka) (any, error) { v3, v4 := v2.Hash().GetMany(v0.key, v0.fields...) if v4 != nil { v1.WriteError(v0.Error(v4)) return nil, v4 } v1.WriteArray(len(v0.fields)) v5 := make([]core.Value, len(v0.fields)) for v6, v7 := range v0.fields { v8, v9 := v3[v7] v5[v6] = v8 if v9 { v1.WriteBulk(v8.Bytes()) } else { v1.WriteNull() } } return v5, nil }"
/-- `hash.ParseHMGet` -/
def src_hash_ParseHMGet : CmdSrc :=
  { fn := "hash.ParseHMGet", ty := "hash.HMGet",
    parse := parseText_hash_ParseHMGet,
    run := runText_hash_ParseHMGet,
    calls := ["Hash.GetMany"],
    methods := ["Bytes", "Error", "GetMany", "Hash", "WriteArray", "WriteBulk", "WriteError", "WriteNull"],
    writes := ["WriteArray", "WriteBulk", "WriteError", "WriteNull"] }

def parseText_hash_ParseHMSet : String := "func ParseHMSet(v0 redis.BaseCmd) (HMSet, error) { v1 := HMSet{BaseCmd: v0} v2 := parser.New( parser.String(&v1.key), parser.AnyMap(&v1.items), ).Required(3).Run(v1.Args()) if v2 != nil { return HMSet{}, v2 } return v1, nil }"
def runText_hash_ParseHMSet : String := "func (v0 HMSet) Run(v1 redis.Writer, v2 redis.Redka) (any, error) { v3, v4 := v2.Hash().SetMany(v0.key, v0.items) if v4 != nil { v1.WriteError(v0.Error(v4)) return nil, v4 } v1.WriteString(\"OK\") return v3, nil }"
/-- `hash.ParseHMSet` -/
def src_hash_ParseHMSet : CmdSrc :=
  { fn := "hash.ParseHMSet", ty := "hash.HMSet",
    parse := parseText_hash_ParseHMSet,
    run := runText_hash_ParseHMSet,
    calls := ["Hash.SetMany"],
    methods := ["Error", "Hash", "SetMany", "WriteError", "WriteString"],
    writes := ["WriteError", "WriteString"] }

def parseText_hash_ParseHScan : String := "func ParseHScan(v0 redis.BaseCmd) (HScan, error) { v1 := HScan{BaseCmd: v0} v2 := parser.New( parser.String(&v1.key), parser.Int(&v1.cursor), parser.Named(\"match\", parser.String(&v1.match)), parser.Named(\"count\", parser.Int(&v1.count)), ).Required(2).Run(v1.Args()) if v2 != nil { return HScan{}, v2 } if v1.match == \"\" { v1.match = \"*\" } return v1, nil }"
def runText_hash_ParseHScan : String := "func (v0 HScan) Run(v1 redis.Writer, v2 redis.Redka) (any, error) { v3, v4 := v2.Hash().Scan(v0.key, v0.cursor, v0.match, v0.count) if v4 != nil { v1.WriteError(v0.Error(v4)) return nil, v4 } v1.WriteArray(2) v1.WriteInt(v3.Cursor) v1.WriteArray(len(v3.Items) * 2) for _, v5 := range v3.Items { v1.WriteBulkString(v5.Field) v1.WriteBulk(v5.Value) } return v3, nil }"
/-- `hash.ParseHScan` -/
def src_hash_ParseHScan : CmdSrc :=
  { fn := "hash.ParseHScan", ty := "hash.HScan",
    parse := parseText_hash_ParseHScan,
    run := runText_hash_ParseHScan,
    calls := ["Hash.Scan"],
    methods := ["Error", "Hash", "Scan", "WriteArray", "WriteBulk", "WriteBulkString", "WriteError", "WriteInt"],
    writes := ["WriteArray", "WriteBulk", "WriteBulkString", "WriteError", "WriteInt"] }

def parseText_hash_ParseHSet : String := "func ParseHSet(v0 redis.BaseCmd) (HSet, error) { v1 := HSet{BaseCmd: v0} v2 := parser.New( parser.String(&v1.key), parser.AnyMap(&v1.items), ).Required(3).Run(v1.Args()) if v2 != nil { return HSet{}, v2 } return v1, nil }"
def runText_hash_ParseHSet : String := "func (v0 HSet) Run(v1 redis.Writer, v2 redis.Redka) (any, error) { v3, v4 := v2.Hash().SetMany(v0.key, v0.items) if v4 != nil { v1.WriteError(v0.Error(v4)) return nil, v4 } v1.WriteInt(v3) return v3, nil }"
/-- `hash.ParseHSet` -/
def src_hash_ParseHSet : CmdSrc :=
  { fn := "hash.ParseHSet", ty := "hash.HSet",
    parse := parseText_hash_ParseHSet,
    run := runText_hash_ParseHSet,
    calls := ["Hash.SetMany"],
    methods := ["Error", "Hash", "SetMany", "WriteError", "WriteInt"],
    writes := ["WriteError", "WriteInt"] }

def parseText_hash_ParseHSetNX : String := "func ParseHSetNX(v0 redis.BaseCmd) (HSetNX, error) { v1 := HSetNX{BaseCmd: v0} if len(v1.Args()) != 3 { return HSetNX{}, redis.ErrInvalidArgNum } v1.key = string(v1.Args()[0]) v1.field = string(v1.Args()[1]) v1.value = v1.Args()[2] return v1, nil }"
def runText_hash_ParseHSetNX : String := "func (v0 HSetNX) Run(v1 redis.Writer, v2 redis.Redka) (any, error) { v3, v4 := v2.Hash().SetNotExists(v0.key, v0.field, v0.value) if v4 != nil { v1.WriteError(v0.Error(v4)) return nil, v4 } if v3 { v1.WriteInt(1) } else { v1.WriteInt(0) } return v3, nil }"
/-- `hash.ParseHSetNX` -/
def src_hash_ParseHSetNX : CmdSrc :=
  { fn := "hash.ParseHSetNX", ty := "hash.HSetNX",
    parse := parseText_hash_ParseHSetNX,
    run := runText_hash_ParseHSetNX,
    calls := ["Hash.SetNotExists"],
    methods := ["Error", "Hash", "SetNotExists", "WriteError", "WriteInt"],
    writes := ["WriteError", "WriteInt"] }

def parseText_hash_ParseHVals : String := "func ParseHVals(v0 redis.BaseCmd) (HVals, error) { v1 := HVals{BaseCmd: v0} if len(v1.Args()) != 1 { return HVals{}, redis.ErrInvalidArgNum } v1.key = string(v1.Args()[0]) return v1, nil }"
def runText_hash_ParseHVals : String := "func (v0 HVals) Run(v1 redis.Writer, v2 redis.Redka) (any, error) { v3, v4 := v2.Hash().Values(v0.key) if v4 != nil { v1.WriteError(v0.Error(v4)) return nil, v4 } v1.WriteArray(len(v3)) for _, v5 := range v3 { v1.WriteBulk(v5) } return v3, nil }"
/-- `hash.ParseHVals` -/
def src_hash_ParseHVals : CmdSrc :=
  { fn := "hash.ParseHVals", ty := "hash.HVals",
    parse := parseText_hash_ParseHVals,
    run := runText_hash_ParseHVals,
    calls := ["Hash.Values"],
    methods := ["Error", "Hash", "Values", "WriteArray", "WriteBulk", "WriteError"],
    writes := ["WriteArray", "WriteBulk", "WriteError"] }

def parseText_key_ParseDel : String := "func ParseDel(v0 redis.BaseCmd) (Del, error) { v1 := Del{BaseCmd: v0} v2 := parser.New( parser.Strings(&v1.keys), ).Required(1).Run(v1.Args()) if v2 != nil { return Del{}, v2 } return v1, nil }"
def runText_key_ParseDel : String := "func (v0 Del) Run(v1 redis.Writer, v2 redis.Redka) (any, error) { v3, v4 := v2.Key().Delete(v0.keys...) if v4 != nil { v1.WriteError(v0.Error(v4)) return nil, v4 } v1.WriteInt(v3) return v3, nil }"
/-- `key.ParseDel` -/
def src_key_ParseDel : CmdSrc :=
  { fn := "key.ParseDel", ty := "key.Del",
    parse := parseText_key_ParseDel,
    run := runText_key_ParseDel,
    calls := ["Key.Delete"],
    methods := ["Delete", "Error", "Key", "WriteError", "WriteInt"],
    writes := ["WriteError", "WriteInt"] }

def parseText_key_ParseExists : String := "func ParseExists(v0 redis.BaseCmd) (Exists, error) { v1 := Exists{BaseCmd: v0} v2 := parser.New( parser.Strings(&v1.keys), ).Required(1).Run(v1.Args()) if v2 != nil { return Exists{}, v2 } return v1, nil }"
def runText_key_ParseExists : String := "func (v0 Exists) Run(v1 redis.Writer, v2 redis.Redka) (any, error) { v3, v4 := v2.Key().Count(v0.keys...) if v4 != nil { v1.WriteError(v0.Error(v4)) return nil, v4 } v1.WriteInt(v3) return v3, nil }"
/-- `key.ParseExists` -/
def src_key_ParseExists : CmdSrc :=
  { fn := "key.ParseExists", ty := "key.Exists",
    parse := parseText_key_ParseExists,
    run := runText_key_ParseExists,
    calls := ["Key.Count"],
    methods := ["Count", "Error", "Key", "WriteError", "WriteInt"],
    writes := ["WriteError", "WriteInt"] }

def parseText_key_ParseExpire : String := "func ParseExpire(v0 redis.BaseCmd, v1 int) (Expire, error) { v2 := Expire{BaseCmd: v0} var v3 int v4 := parser.New( parser.String(&v2.key), parser.Int(&v3), ).Required(2).Run(v2.Args()) if v4 != nil { return Expire{}, v4 } v2.ttl = time.Duration(v1*v3) * time.Millisecond return v2, nil }"
def runText_key_ParseExpire : String := "func (v0 Expire) Run(v1 redis.Writer, v2 redis.Redka) (any, error) { v3 := v2.Key().Expire(v0.key, v0.ttl) if v3 != nil && v3 != core.ErrNotFound { v1.WriteError(v0.Error(v3)) return nil, v3 } if v3 == core.ErrNotFound { v1.WriteInt(0) return false, nil } v1.WriteInt(1) return true, nil }"
/-- `key.ParseExpire` -/
def src_key_ParseExpire : CmdSrc :=
  { fn := "key.ParseExpire", ty := "key.Expire",
    parse := parseText_key_ParseExpire,
    run := runText_key_ParseExpire,
    calls := ["Key.Expire"],
    methods := ["Error", "Expire", "Key", "WriteError", "WriteInt"],
    writes := ["WriteError", "WriteInt"] }

def parseText_key_ParseExpireAt : String := "func ParseExpireAt(v0 redis.BaseCmd, v1 int) (ExpireAt, error) { v2 := ExpireAt{BaseCmd: v0} var v3 int v4 := parser.New( parser.String(&v2.key), parser.Int(&v3), ).Required(2).Run(v2.Args()) if v4 != nil { return ExpireAt{}, v4 } v2.at = time.UnixMilli(int64(v1 * v3)) return v2, nil }"
def runText_key_ParseExpireAt : String := "func (v0 ExpireAt) Run(v1 redis.Writer, v2 redis.Redka) (any, error) { v3 := v2.Key().ExpireAt(v0.key, v0.at) if v3 != nil && v3 != core.ErrNotFound { v1.WriteError(v0.Error(v3)) return nil, v3 } if v3 == core.ErrNotFound { v1.WriteInt(0) return false, nil } v1.WriteInt(1) return true, nil }"
/-- `key.ParseExpireAt` -/
def src_key_ParseExpireAt : CmdSrc :=
  { fn := "key.ParseExpireAt", ty := "key.ExpireAt",
    parse := parseText_key_ParseExpireAt,
    run := runText_key_ParseExpireAt,
    calls := ["Key.ExpireAt"],
    methods := ["Error", "ExpireAt", "Key", "WriteError", "WriteInt"],
    writes := ["WriteError", "WriteInt"] }

def parseText_key_ParseFlushDB : String := "func ParseFlushDB(v0 redis.BaseCmd) (FlushDB, error) { v1 := FlushDB{BaseCmd: v0} if len(v1.Args()) != 0 { return FlushDB{}, redis.ErrSyntaxError } return v1, nil }"
def runText_key_ParseFlushDB : String := "func (v0 FlushDB) Run(v1 redis.Writer, v2 redis.Redka) (any, error) { v3 := v2.Key().DeleteAll() if v3 != nil { v1.WriteError(v0.Error(v3)) return nil, v3 } v1.WriteString(\"OK\") return true, nil }"
/-- `key.ParseFlushDB` -/
def src_key_ParseFlushDB : CmdSrc :=
  { fn := "key.ParseFlushDB", ty := "key.FlushDB",
    parse := parseText_key_ParseFlushDB,
    run := runText_key_ParseFlushDB,
    calls := ["Key.DeleteAll"],
    methods := ["DeleteAll", "Error", "Key", "WriteError", "WriteString"],
    writes := ["WriteError", "WriteString"] }

def parseText_key_ParseKeys : String := "func ParseKeys(v0 redis.BaseCmd) (Keys, error) { v1 := Keys{BaseCmd: v0} if len(v1.Args()) != 1 { return Keys{}, redis.ErrInvalidArgNum } v1.pattern = string(v1.Args()[0]) return v1, nil }"
def runText_key_ParseKeys : String := "func (v0 Keys) Run(v1 redis.Writer, v2 redis.Redka) (any, error) { v3, v4 := v2.Key().Keys(v0.pattern) if v4 != nil { v1.WriteError(v0.Error(v4)) return nil, v4 } v1.WriteArray(len(v3)) for _, v5 := range v3 { v1.WriteBulkString(v5.Key) } return v3, nil }"
/-- `key.ParseKeys` -/
def src_key_ParseKeys : CmdSrc :=
  { fn := "key.ParseKeys", ty := "key.Keys",
    parse := parseText_key_ParseKeys,
    run := runText_key_ParseKeys,
    calls := ["Key.Keys"],
    methods := ["Error", "Key", "Keys", "WriteArray", "WriteBulkString", "WriteError"],
    writes := ["WriteArray", "WriteBulkString", "WriteError"] }

def parseText_key_ParsePersist : String := "func ParsePersist(v0 redis.BaseCmd) (Persist, error) { v1 := Persist{BaseCmd: v0} if len(v1.Args()) != 1 { return Persist{}, redis.ErrInvalidArgNum } v1.key = string(v1.Args()[0]) return v1, nil }"
def runText_key_ParsePersist : String := "func (v0 Persist) Run(v1 redis.Writer, v2 redis.Redka) (any, error) { v3 := v2.Key().Persist(v0.key) if v3 != nil && v3 != core.ErrNotFound { v1.WriteError(v0.Error(v3)) return nil, v3 } if v3 == core.ErrNotFound { v1.WriteInt(0) return false, nil } v1.WriteInt(1) return true, nil }"
/-- `key.ParsePersist` -/
def src_key_ParsePersist : CmdSrc :=
  { fn := "key.ParsePersist", ty := "key.Persist",
    parse := parseText_key_ParsePersist,
    run := runText_key_ParsePersist,
    calls := ["Key.Persist"],
    methods := ["Error", "Key", "Persist", "WriteError", "WriteInt"],
    writes := ["WriteError", "WriteInt"] }

def parseText_key_ParseRandomKey : String := "func ParseRandomKey(v0 redis.BaseCmd) (RandomKey, error) { v1 := RandomKey{BaseCmd: v0} if len(v1.Args()) != 0 { return RandomKey{}, redis.ErrInvalidArgNum } return v1, nil }"
def runText_key_ParseRandomKey : String := "func (v0 RandomKey) Run(v1 redis.Writer, v2 redis.Redka) (any, error) { v3, v4 := v2.Key().Random() if v4 == core.ErrNotFound { v1.WriteNull() return nil, nil } if v4 != nil { v1.WriteError(v0.Error(v4)) return nil, v4 } v1.WriteBulkString(v3.Key) return v3, nil }"
/-- `key.ParseRandomKey` -/
def src_key_ParseRandomKey : CmdSrc :=
  { fn := "key.ParseRandomKey", ty := "key.RandomKey",
    parse := parseText_key_ParseRandomKey,
    run := runText_key_ParseRandomKey,
    calls := ["Key.Random"],
    methods := ["Error", "Key", "Random", "WriteBulkString", "WriteError", "WriteNull"],
    writes := ["WriteBulkString", "WriteError", "WriteNull"] }

def parseText_key_ParseRename : String := "func ParseRename(v0 redis.BaseCmd) (Rename, error) { v1 := Rename{BaseCmd: v0} if len(v1.Args()) != 2 { return Rename{}, redis.ErrInvalidArgNum } v1.key = string(v1.Args()[0]) v1.newKey = string(v1.Args()[1]) return v1, nil }"
def runText_key_ParseRename : String := "func (v0 Rename) Run(v1 redis.Writer, v2 redis.Redka) (any, error) { v3 := v2.Key().Rename(v0.key, v0.newKey) if v3 != nil { v1.WriteError(v0.Error(v3)) return nil, v3 } v1.WriteString(\"OK\") return true, nil }"
/-- `key.ParseRename` -/
def src_key_ParseRename : CmdSrc :=
  { fn := "key.ParseRename", ty := "key.Rename",
    parse := parseText_key_ParseRename,
    run := runText_key_ParseRename,
    calls := ["Key.Rename"],
    methods := ["Error", "Key", "Rename", "WriteError", "WriteString"],
    writes := ["WriteError", "WriteString"] }

def parseText_key_ParseRenameNX : String := "func ParseRenameNX(v0 redis.BaseCmd) (RenameNX, error) { v1 := RenameNX{BaseCmd: v0} if len(v1.Args()) != 2 { return RenameNX{}, redis.ErrInvalidArgNum } v1.key = string(v1.Args()[0]) v1.newKey = string(v1.Args()[1]) return v1, nil }"
def runText_key_ParseRenameNX : String := "func (v0 RenameNX) Run(v1 redis.Writer, v2 redis.Redka) (any, error) { v3, v4 := v2.Key().RenameNotExists(v0.key, v0.newKey) if v4 != nil { v1.WriteError(v0.Error(v4)) return nil, v4 } if v3 { v1.WriteInt(1) } else { v1.WriteInt(0) } return v3, nil }"
/-- `key.ParseRenameNX` -/
def src_key_ParseRenameNX : CmdSrc :=
  { fn := "key.ParseRenameNX", ty := "key.RenameNX",
    parse := parseText_key_ParseRenameNX,
    run := runText_key_ParseRenameNX,
    calls := ["Key.RenameNotExists"],
    methods := ["Error", "Key", "RenameNotExists", "WriteError", "WriteInt"],
    writes := ["WriteError", "WriteInt"] }

def parseText_key_ParseScan : String := "func ParseScan(v0 redis.BaseCmd) (Scan, error) { v1 := Scan{BaseCmd: v0} v2 := parser.New( parser.Int(&v1.cursor), parser.Named(\"match\", parser.String(&v1.match)), parser.Named(\"count\", parser.Int(&v1.count)), parser.Named(\"type\", parser.Enum(&v1.ktype, TypeHash, TypeList, TypeSet, TypeString, TypeZSet)), ).Required(1).Run(v1.Args()) if v2 != nil { return Scan{}, v2 } if v1.match == \"\" { v1.match = \"*\" } return v1, nil }"
def runText_key_ParseScan : String := "func (v0 Scan) Run(v1 redis.Writer, v2 redis.Redka) (any, error) { v3, v4 := v2.Key().Scan(v0.cursor, v0.match, toTypeID(v0.ktype), v0.count) if v4 != nil { v1.WriteError(v0.Error(v4)) return nil, v4 } v1.WriteArray(2) v1.WriteInt(v3.Cursor) v1.WriteArray(len(v3.Keys)) for _, v5 := range v3.Keys { v1.WriteBulkString(v5.Key) } return v3, nil }"
/-- `key.ParseScan` -/
def src_key_ParseScan : CmdSrc :=
  { fn := "key.ParseScan", ty := "key.Scan",
    parse := parseText_key_ParseScan,
    run := runText_key_ParseScan,
    calls := ["Key.Scan"],
    methods := ["Error", "Key", "Scan", "WriteArray", "WriteBulkString", "WriteError", "WriteInt"],
    writes := ["WriteArray", "WriteBulkString", "WriteError", "WriteInt"] }

def parseText_key_ParseTTL : String := "func ParseTTL(v0 redis.BaseCmd) (TTL, error) { v1 := TTL{BaseCmd: v0} if len(v1.Args()) != 1 { return TTL{}, redis.ErrInvalidArgNum } v1.key = string(v1.Args()[0]) return v1, nil }"
def runText_key_ParseTTL : String := "func (v0 TTL) Run(v1 redis.Writer, v2 redis.Redka) (any, error) { v3, v4 := v2.Key().Get(v0.key) if v4 == core.ErrNotFound { v1.WriteInt(-2) return -2, nil } if v4 != nil { v1.WriteError(v0.Error(v4)) return nil, v4 } if v3.ETime == nil { v1.WriteInt(-1) return -1, nil } v5 := int(*v3.ETime/1000 - time.Now().Unix()) v1.WriteInt(v5) return v5, nil }"
/-- `key.ParseTTL` -/
def src_key_ParseTTL : CmdSrc :=
  { fn := "key.ParseTTL", ty := "key.TTL",
    parse := parseText_key_ParseTTL,
    run := runText_key_ParseTTL,
    calls := ["Key.Get"],
    methods := ["Error", "Get", "Key", "Now", "Unix", "WriteError", "WriteInt"],
    writes := ["WriteError", "WriteInt"] }

def parseText_key_ParseType : String := "func ParseType(v0 redis.BaseCmd) (Type, error) { v1 := Type{BaseCmd: v0} if len(v1.Args()) != 1 { return Type{}, redis.ErrInvalidArgNum } v1.key = string(v1.Args()[0]) return v1, nil }"
def runText_key_ParseType : String := "func (v0 Type) Run(v1 redis.Writer, v2 redis.Redka) (any, error) { v3, v4 := v2.Key().Get(v0.key) if v4 == core.ErrNotFound { v1.WriteString(\"none\") return \"none\", nil } if v4 != nil { v1.WriteError(v0.Error(v4)) return nil, v4 } v1.WriteString(v3.TypeName()) return v3.TypeName(), nil }"
/-- `key.ParseType` -/
def src_key_ParseType : CmdSrc :=
  { fn := "key.ParseType", ty := "key.Type",
    parse := parseText_key_ParseType,
    run := runText_key_ParseType,
    calls := ["Key.Get"],
    methods := ["Error", "Get", "Key", "TypeName", "WriteError", "WriteString"],
    writes := ["WriteError", "WriteString"] }

def parseText_list_ParseLIndex : String := "func ParseLIndex(v0 redis.BaseCmd) (LIndex, error) { v1 := LIndex{BaseCmd: v0} v2 := parser.New( parser.String(&v1.key), parser.Int(&v1.index), ).Required(2).Run(v1.Args()) if v2 != nil { return LIndex{}, v2 } return v1, nil }"
def runText_list_ParseLIndex : String := "func (v0 LIndex) Run(v1 redis.Writer, v2 redis.Redka) (any, error) { v3, v4 := v2.List().Get(v0.key, v0.index) if v4 == core.ErrNotFound { v1.WriteNull() return v3, nil } if v4 != nil { v1.WriteError(v0.Error(v4)) return nil, v4 } v1.WriteBulk(v3) return v3, nil }"
/-- `list.ParseLIndex` -/
def src_list_ParseLIndex : CmdSrc :=
  { fn := "list.ParseLIndex", ty := "list.LIndex",
    parse := parseText_list_ParseLIndex,
    run := runText_list_ParseLIndex,
    calls := ["List.Get"],
    methods := ["Error", "Get", "List", "WriteBulk", "WriteError", "WriteNull"],
    writes := ["WriteBulk", "WriteError", "WriteNull"] }

def parseText_list_ParseLInsert : String := "func ParseLInsert(v0 redis.BaseCmd) (LInsert, error) { v1 := LInsert{BaseCmd: v0} v2 := parser.New( parser.String(&v1.key), parser.Enum(&v1.where, Before, After), parser.Bytes(&v1.pivot), parser.Bytes(&v1.elem), ).Required(4).Run(v1.Args()) if v2 != nil { return LInsert{}, v2 } return v1, nil }"
def runText_list_ParseLInsert : String := "func (v0 LInsert) Run(v1 redis.Writer, v2 redis.Redka) (any, error) { var v3 int var v4 error if v0.where == Before { v3, v4 = v2.List().InsertBefore(v0.key, v0.pivot, v0.elem) } else { v3, v4 = v2.List().InsertAfter(v0.key, v0.pivot, v0.elem) } if v4 == core.ErrNotFound { v1.WriteInt(v3) return v3, nil } if v4 != nil { v1.WriteError(v0.Error(v4)) return nil, v4 } v1.WriteInt(v3) return v3, nil }"
/-- `list.ParseLInsert` -/
def src_list_ParseLInsert : CmdSrc :=
  { fn := "list.ParseLInsert", ty := "list.LInsert",
    parse := parseText_list_ParseLInsert,
    run := runText_list_ParseLInsert,
    calls := ["List.InsertBefore", "List.InsertAfter"],
    methods := ["Error", "InsertAfter", "InsertBefore", "List", "WriteError", "WriteInt"],
    writes := ["WriteError", "WriteInt"] }

def parseText_list_ParseLLen : String := "func ParseLLen(v0 redis.BaseCmd) (LLen, error) { v1 := LLen{BaseCmd: v0} v2 := parser.New( parser.String(&v1.key), ).Required(1).Run(v1.Args()) if v2 != nil { return LLen{}, v2 } return v1, nil }"
def runText_list_ParseLLen : String := "func (v0 LLen) Run(v1 redis.Writer, v2 redis.Redka) (any, error) { v3, v4 := v2.List().Len(v0.key) if v4 != nil { v1.WriteError(v0.Error(v4)) return nil, v4 } v1.WriteInt(v3) return v3, nil }"
/-- `list.ParseLLen` -/
def src_list_ParseLLen : CmdSrc :=
  { fn := "list.ParseLLen", ty := "list.LLen",
    parse := parseText_list_ParseLLen,
    run := runText_list_ParseLLen,
    calls := ["List.Len"],
    methods := ["Error", "Len", "List", "WriteError", "WriteInt"],
    writes := ["WriteError", "WriteInt"] }

def parseText_list_ParseLPop : String := "func ParseLPop(v0 redis.BaseCmd) (LPop, error) { v1 := LPop{BaseCmd: v0} v2 := parser.New( parser.String(&v1.key), ).Required(1).Run(v1.Args()) if v2 != nil { return LPop{}, v2 } return v1, nil }"
def runText_list_ParseLPop : String := "func (v0 LPop) Run(v1 redis.Writer, v2 redis.Redka) (any, error) { v3, v4 := v2.List().PopFront(v0.key) if v4 == core.ErrNotFound { v1.WriteNull() return v3, nil } if v4 != nil { v1.WriteError(v0.Error(v4)) return nil, v4 } v1.WriteBulk(v3) return v3, nil }"
/-- `list.ParseLPop` -/
def src_list_ParseLPop : CmdSrc :=
  { fn := "list.ParseLPop", ty := "list.LPop",
    parse := parseText_list_ParseLPop,
    run := runText_list_ParseLPop,
    calls := ["List.PopFront"],
    methods := ["Error", "List", "PopFront", "WriteBulk", "WriteError", "WriteNull"],
    writes := ["WriteBulk", "WriteError", "WriteNull"] }

def parseText_list_ParseLPush : String := "func ParseLPush(v0 redis.BaseCmd) (LPush, error) { v1 := LPush{BaseCmd: v0} v2 := parser.New( parser.String(&v1.key), parser.Bytes(&v1.elem), ).Required(2).Run(v1.Args()) if v2 != nil { return LPush{}, v2 } return v1, nil }"
def runText_list_ParseLPush : String := "func (v0 LPush) Run(v1 redis.Writer, v2 redis.Redka) (any, error) { v3, v4 := v2.List().PushFront(v0.key, v0.elem) if v4 != nil { v1.WriteError(v0.Error(v4)) return nil, v4 } v1.WriteInt(v3) return v3, nil }"
/-- `list.ParseLPush` -/
def src_list_ParseLPush : CmdSrc :=
  { fn := "list.ParseLPush", ty := "list.LPush",
    parse := parseText_list_ParseLPush,
    run := runText_list_ParseLPush,
    calls := ["List.PushFront"],
    methods := ["Error", "List", "PushFront", "WriteError", "WriteInt"],
    writes := ["WriteError", "WriteInt"] }

def parseText_list_ParseLRange : String := "func ParseLRange(v0 redis.BaseCmd) (LRange, error) { v1 := LRange{BaseCmd: v0} v2 := parser.New( parser.String(&v1.key), parser.Int(&v1.start), parser.Int(&v1.stop), ).Required(3).Run(v1.Args()) if v2 != nil { return LRange{}, v2 } return v1, nil }"
def runText_list_ParseLRange : String := "func (v0 LRange) Run(v1 redis.Writer, v2 redis.Redka) (any, error) { v3, v4 := v2.List().Range(v0.key, v0.start, v0.stop) if v4 != nil { v1.WriteError(v0.Error(v4)) return nil, v4 } v1.WriteArray(len(v3)) for _, v5 := range v3 { v1.WriteBulk(v5) } return v3, nil }"
/-- `list.ParseLRange` -/
def src_list_ParseLRange : CmdSrc :=
  { fn := "list.ParseLRange", ty := "list.LRange",
    parse := parseText_list_ParseLRange,
    run := runText_list_ParseLRange,
    calls := ["List.Range"],
    methods := ["Error", "List", "Range", "WriteArray", "WriteBulk", "WriteError"],
    writes := ["WriteArray", "WriteBulk", "WriteError"] }

def parseText_list_ParseLRem : String := "func ParseLRem(v0 redis.BaseCmd) (LRem, error) { v1 := LRem{BaseCmd: v0} v2 := parser.New( parser.String(&v1.key), parser.Int(&v1.count), parser.Bytes(&v1.elem), ).Required(3).Run(v1.Args()) if v2 != nil { return LRem{}, v2 } return v1, nil }"
def runText_list_ParseLRem : String := "func (v0 LRem) Run(v1 redis.Writer, v2 redis.Redka) (any, error) { var v3 int var v4 error switch { case v0.count > 0: v3, v4 = v2.List().DeleteFront(v0.key, v0.elem, v0.count) case v0.count < 0: v3, v4 = v2.List().DeleteBack(v0.key, v0.elem, -v0.count) case v0.count == 0: v3, v4 = v2.List().Delete(v0.key, v0.elem) } if v4 != nil { v1.WriteError(v0.Error(v4)) return nil, v4 } v1.WriteInt(v3) return v3, nil }"
/-- `list.ParseLRem` -/
def src_list_ParseLRem : CmdSrc :=
  { fn := "list.ParseLRem", ty := "list.LRem",
    parse := parseText_list_ParseLRem,
    run := runText_list_ParseLRem,
    calls := ["List.DeleteFront", "List.DeleteBack", "List.Delete"],
    methods := ["Delete", "DeleteBack", "DeleteFront", "Error", "List", "WriteError", "WriteInt"],
    writes := ["WriteError", "WriteInt"] }

def parseText_list_ParseLSet : String := "func ParseLSet(v0 redis.BaseCmd) (LSet, error) { v1 := LSet{BaseCmd: v0} v2 := parser.New( parser.String(&v1.key), parser.Int(&v1.index), parser.Bytes(&v1.elem), ).Required(3).Run(v1.Args()) if v2 != nil { return LSet{}, v2 } return v1, nil }"
def runText_list_ParseLSet : String := "func (v0 LSet) Run(v1 redis.Writer, v2 redis.Redka) (any, error) { v3 := v2.List().Set(v0.key, v0.index, v0.elem) if v3 == core.ErrNotFound { v1.WriteError(v0.Error(redis.ErrOutOfRange)) return nil, v3 } if v3 != nil { v1.WriteError(v0.Error(v3)) return nil, v3 } v1.WriteString(\"OK\") return nil, nil }"
/-- `list.ParseLSet` -/
def src_list_ParseLSet : CmdSrc :=
  { fn := "list.ParseLSet", ty := "list.LSet",
    parse := parseText_list_ParseLSet,
    run := runText_list_ParseLSet,
    calls := ["List.Set"],
    methods := ["Error", "List", "Set", "WriteError", "WriteString"],
    writes := ["WriteError", "WriteString"] }

def parseText_list_ParseLTrim : String := "func ParseLTrim(v0 redis.BaseCmd) (LTrim, error) { v1 := LTrim{BaseCmd: v0} v2 := parser.New( parser.String(&v1.key), parser.Int(&v1.start), parser.Int(&v1.stop), ).Required(3).Run(v1.Args()) if v2 != nil { return LTrim{}, v2 } return v1, nil }"
def runText_list_ParseLTrim : String := "func (v0 LTrim) Run(v1 redis.Writer, v2 redis.Redka) (any, error) { v3, v4 := v2.List().Trim(v0.key, v0.start, v0.stop) if v4 != nil { v1.WriteError(v0.Error(v4)) return nil, v4 } v1.WriteString(\"OK\") return v3, nil }"
/-- `list.ParseLTrim` -/
def src_list_ParseLTrim : CmdSrc :=
  { fn := "list.ParseLTrim", ty := "list.LTrim",
    parse := parseText_list_ParseLTrim,
    run := runText_list_ParseLTrim,
    calls := ["List.Trim"],
    methods := ["Error", "List", "Trim", "WriteError", "WriteString"],
    writes := ["WriteError", "WriteString"] }

def parseText_list_ParseRPop : String := "func ParseRPop(v0 redis.BaseCmd) (RPop, error) { v1 := RPop{BaseCmd: v0} v2 := parser.New( parser.String(&v1.key), ).Required(1).Run(v1.Args()) if v2 != nil { return RPop{}, v2 } return v1, nil }"
def runText_list_ParseRPop : String := "func (v0 RPop) Run(v1 redis.Writer, v2 redis.Redka) (any, error) { v3, v4 := v2.List().PopBack(v0.key) if v4 == core.ErrNotFound { v1.WriteNull() return v3, nil } if v4 != nil { v1.WriteError(v0.Error(v4)) return nil, v4 } v1.WriteBulk(v3) return v3, nil }"
/-- `list.ParseRPop` -/
def src_list_ParseRPop : CmdSrc :=
  { fn := "list.ParseRPop", ty := "list.RPop",
    parse := parseText_list_ParseRPop,
    run := runText_list_ParseRPop,
    calls := ["List.PopBack"],
    methods := ["Error", "List", "PopBack", "WriteBulk", "WriteError", "WriteNull"],
    writes := ["WriteBulk", "WriteError", "WriteNull"] }

def parseText_list_ParseRPopLPush : String := "func ParseRPopLPush(v0 redis.BaseCmd) (RPopLPush, error) { v1 := RPopLPush{BaseCmd: v0} v2 := parser.New( parser.String(&v1.src), parser.String(&v1.dst), ).Required(2).Run(v1.Args()) if v2 != nil { return RPopLPush{}, v2 } return v1, nil }"
def runText_list_ParseRPopLPush : String := "func (v0 RPopLPush) Run(v1 redis.Writer, v2 redis.Redka) (any, error) { v3, v4 := v2.List().PopBackPushFront(v0.src, v0.dst) if v4 == core.ErrNotFound { v1.WriteNull() return v3, nil } if v4 != nil { v1.WriteError(v0.Error(v4)) return nil, v4 } v1.WriteBulk(v3) return v3, nil }"
/-- `list.ParseRPopLPush` -/
def src_list_ParseRPopLPush : CmdSrc :=
  { fn := "list.ParseRPopLPush", ty := "list.RPopLPush",
    parse := parseText_list_ParseRPopLPush,
    run := runText_list_ParseRPopLPush,
    calls := ["List.PopBackPushFront"],
    methods := ["Error", "List", "PopBackPushFront", "WriteBulk", "WriteError", "WriteNull"],
    writes := ["WriteBulk", "WriteError", "WriteNull"] }

def parseText_list_ParseRPush : String := "func ParseRPush(v0 redis.BaseCmd) (RPush, error) { v1 := RPush{BaseCmd: v0} v2 := parser.New( parser.String(&v1.key), parser.Bytes(&v1.elem), ).Required(2).Run(v1.Args()) if v2 != nil { return RPush{}, v2 } return v1, nil }"
def runText_list_ParseRPush : String := "func (v0 RPush) Run(v1 redis.Writer, v2 redis.Redka) (any, error) { v3, v4 := v2.List().PushBack(v0.key, v0.elem) if v4 != nil { v1.WriteError(v0.Error(v4)) return nil, v4 } v1.WriteInt(v3) return v3, nil }"
/-- `list.ParseRPush` -/
def src_list_ParseRPush : CmdSrc :=
  { fn := "list.ParseRPush", ty := "list.RPush",
    parse := parseText_list_ParseRPush,
    run := runText_list_ParseRPush,
    calls := ["List.PushBack"],
    methods := ["Error", "List", "PushBack", "WriteError", "WriteInt"],
    writes := ["WriteError", "WriteInt"] }

def parseText_server_ParseConfig : String := "func ParseConfig(v0 redis.BaseCmd) (Config, error) { v1 := Config{BaseCmd: v0} if len(v1.Args()) == 0 { return Config{}, redis.ErrInvalidArgNum } v1.subcmd = strings.ToLower(string(v1.Args()[0])) var v2 error v3 := v1.Args()[1:] switch v1.subcmd { case \"get\": v1.get, v2 = ParseConfigGet(v3) default: v2 = redis.ErrUnknownSubcmd } if v2 != nil { return Config{}, v2 } return v1, nil }"
def runText_server_ParseConfig : String := "func (v0 Config) Run(v1 redis.Writer, v2 redis.Redka) (any, error) { switch v0.subcmd { case \"get\": return v0.get.Run(v1, v2) default: v1.WriteString(\"OK\") return true, nil } }"
/-- `server.ParseConfig` -/
def src_server_ParseConfig : CmdSrc :=
  { fn := "server.ParseConfig", ty := "server.Config",
    parse := parseText_server_ParseConfig,
    run := runText_server_ParseConfig,
    calls := [],
    methods := ["Run", "WriteString"],
    writes := ["WriteString"] }

def parseText_server_ParseDBSize : String := "func ParseDBSize(v0 redis.BaseCmd) (DBSize, error) { v1 := DBSize{BaseCmd: v0} if len(v1.Args()) != 0 { return DBSize{}, redis.ErrInvalidArgNum } return v1, nil }"
def runText_server_ParseDBSize : String := "func (v0 DBSize) Run(v1 redis.Writer, v2 redis.Redka) (any, error) { v3, v4 := v2.Key().Len() if v4 != nil { v1.WriteError(v0.Error(v4)) return nil, v4 } v1.WriteInt(v3) return v3, nil }"
/-- `server.ParseDBSize` -/
def src_server_ParseDBSize : CmdSrc :=
  { fn := "server.ParseDBSize", ty := "server.DBSize",
    parse := parseText_server_ParseDBSize,
    run := runText_server_ParseDBSize,
    calls := ["Key.Len"],
    methods := ["Error", "Key", "Len", "WriteError", "WriteInt"],
    writes := ["WriteError", "WriteInt"] }

def parseText_server_ParseLolwut : String := "func ParseLolwut(v0 redis.BaseCmd) (Lolwut, error) { v1 := Lolwut{BaseCmd: v0} v2 := parser.New( parser.Strings(&v1.parts), ).Required(0).Run(v1.Args()) if v2 != nil { return Lolwut{}, v2 } return v1, nil }"
def runText_server_ParseLolwut : String := "func (v0 Lolwut) Run(v1 redis.Writer, _ redis.Redka) (any, error) { var v2 string if len(v0.parts) != 0 { v2 = lolwutAnswers[rand.Intn(len(lolwutAnswers))] } else { v2 = \"Ask me a question (⊃｡•́‿•̀｡)⊃\" } v1.WriteBulkString(v2 + \"\\n\") return v2, nil }"
/-- `server.ParseLolwut` -/
def src_server_ParseLolwut : CmdSrc :=
  { fn := "server.ParseLolwut", ty := "server.Lolwut",
    parse := parseText_server_ParseLolwut,
    run := runText_server_ParseLolwut,
    calls := [],
    methods := ["Intn", "WriteBulkString"],
    writes := ["WriteBulkString"] }

def parseText_server_ParseOK : String := "func ParseOK(v0 redis.BaseCmd) (OK, error) { return OK{BaseCmd: v0}, nil }"
def runText_server_ParseOK : String := "func (v0 OK) Run(v1 redis.Writer, _ redis.Redka) (any, error) { v1.WriteString(\"OK\") return true, nil }"
/-- `server.ParseOK` -/
def src_server_ParseOK : CmdSrc :=
  { fn := "server.ParseOK", ty := "server.OK",
    parse := parseText_server_ParseOK,
    run := runText_server_ParseOK,
    calls := [],
    methods := ["WriteString"],
    writes := ["WriteString"] }

def parseText_server_ParseUnknown : String := "func ParseUnknown(v0 redis.BaseCmd) (Unknown, error) { return Unknown{BaseCmd: v0}, nil }"
def runText_server_ParseUnknown : String := "func (v0 Unknown) Run(v1 redis.Writer, _ redis.Redka) (any, error) { v2 := redis.ErrUnknownCmd v1.WriteError(v0.Error(v2)) return nil, v2 }"
/-- `server.ParseUnknown` -/
def src_server_ParseUnknown : CmdSrc :=
  { fn := "server.ParseUnknown", ty := "server.Unknown",
    parse := parseText_server_ParseUnknown,
    run := runText_server_ParseUnknown,
    calls := [],
    methods := ["Error", "WriteError"],
    writes := ["WriteError"] }

def parseText_set_ParseSAdd : String := "func ParseSAdd(v0 redis.BaseCmd) (SAdd, error) { v1 := SAdd{BaseCmd: v0} v2 := parser.New( parser.String(&v1.key), parser.Anys(&v1.members), ).Required(2).Run(v1.Args()) if v2 != nil { return SAdd{}, v2 } return v1, nil }"
def runText_set_ParseSAdd : String := "func (v0 SAdd) Run(v1 redis.Writer, v2 redis.Redka) (any, error) { v3, v4 := v2.Set().Add(v0.key, v0.members...) if v4 != nil { v1.WriteError(v0.Error(v4)) return nil, v4 } v1.WriteInt(v3) return v3, nil }"
/-- `set.ParseSAdd` -/
def src_set_ParseSAdd : CmdSrc :=
  { fn := "set.ParseSAdd", ty := "set.SAdd",
    parse := parseText_set_ParseSAdd,
    run := runText_set_ParseSAdd,
    calls := ["Set.Add"],
    methods := ["Add", "Error", "Set", "WriteError", "WriteInt"],
    writes := ["WriteError", "WriteInt"] }

def parseText_set_ParseSCard : String := "func ParseSCard(v0 redis.BaseCmd) (SCard, error) { v1 := SCard{BaseCmd: v0} if len(v1.Args()) != 1 { return SCard{}, redis.ErrInvalidArgNum } v1.key = string(v1.Args()[0]) return v1, nil }"
def runText_set_ParseSCard : String := "func (v0 SCard) Run(v1 redis.Writer, v2 redis.Redka) (any, error) { v3, v4 := v2.Set().Len(v0.key) if v4 != nil { v1.WriteError(v0.Error(v4)) return nil, v4 } v1.WriteInt(v3) return v3, nil }"
/-- `set.ParseSCard` -/
def src_set_ParseSCard : CmdSrc :=
  { fn := "set.ParseSCard", ty := "set.SCard",
    parse := parseText_set_ParseSCard,
    run := runText_set_ParseSCard,
    calls := ["Set.Len"],
    methods := ["Error", "Len", "Set", "WriteError", "WriteInt"],
    writes := ["WriteError", "WriteInt"] }

def parseText_set_ParseSDiff : String := "func ParseSDiff(v0 redis.BaseCmd) (SDiff, error) { v1 := SDiff{BaseCmd: v0} v2 := parser.New( parser.Strings(&v1.keys), ).Required(1).Run(v1.Args()) if v2 != nil { return SDiff{}, v2 } return v1, nil }"
def runText_set_ParseSDiff : String := "func (v0 SDiff) Run(v1 redis.Writer, v2 redis.Redka) (any, error) { v3, v4 := v2.Set().Diff(v0.keys...) if v4 != nil { v1.WriteError(v0.Error(v4)) return nil, v4 } v1.WriteArray(len(v3)) for _, v5 := range v3 { v1.WriteBulk(v5) } return v3, nil }"
/-- `set.ParseSDiff` -/
def src_set_ParseSDiff : CmdSrc :=
  { fn := "set.ParseSDiff", ty := "set.SDiff",
    parse := parseText_set_ParseSDiff,
    run := runText_set_ParseSDiff,
    calls := ["Set.Diff"],
    methods := ["Diff", "Error", "Set", "WriteArray", "WriteBulk", "WriteError"],
    writes := ["WriteArray", "WriteBulk", "WriteError"] }

def parseText_set_ParseSDiffStore : String := "func ParseSDiffStore(v0 redis.BaseCmd) (SDiffStore, error) { v1 := SDiffStore{BaseCmd: v0} v2 := parser.New( parser.String(&v1.dest), parser.Strings(&v1.keys), ).Required(2).Run(v1.Args()) if v2 != nil { return SDiffStore{}, v2 } return v1, nil }"
def runText_set_ParseSDiffStore : String := "func (v0 SDiffStore) Run(v1 redis.Writer, v2 redis.Redka) (any, error) { v3, v4 := v2.Set().DiffStore(v0.dest, v0.keys...) if v4 != nil { v1.WriteError(v0.Error(v4)) return nil, v4 } v1.WriteInt(v3) return v3, nil }"
/-- `set.ParseSDiffStore` -/
def src_set_ParseSDiffStore : CmdSrc :=
  { fn := "set.ParseSDiffStore", ty := "set.SDiffStore",
    parse := parseText_set_ParseSDiffStore,
    run := runText_set_ParseSDiffStore,
    calls := ["Set.DiffStore"],
    methods := ["DiffStore", "Error", "Set", "WriteError", "WriteInt"],
    writes := ["WriteError", "WriteInt"] }

def parseText_set_ParseSInter : String := "func ParseSInter(v0 redis.BaseCmd) (SInter, error) { v1 := SInter{BaseCmd: v0} v2 := parser.New( parser.Strings(&v1.keys), ).Required(1).Run(v1.Args()) if v2 != nil { return SInter{}, v2 } return v1, nil }"
def runText_set_ParseSInter : String := "func (v0 SInter) Run(v1 redis.Writer, v2 redis.Redka) (any, error) { v3, v4 := v2.Set().Inter(v0.keys...) if v4 != nil { v1.WriteError(v0.Error(v4)) return nil, v4 } v1.WriteArray(len(v3)) for _, v5 := range v3 { v1.WriteBulk(v5) } return v3, nil }"
/-- `set.ParseSInter` -/
def src_set_ParseSInter : CmdSrc :=
  { fn := "set.ParseSInter", ty := "set.SInter",
    parse := parseText_set_ParseSInter,
    run := runText_set_ParseSInter,
    calls := ["Set.Inter"],
    methods := ["Error", "Inter", "Set", "WriteArray", "WriteBulk", "WriteError"],
    writes := ["WriteArray", "WriteBulk", "WriteError"] }

def parseText_set_ParseSInterStore : String := "func ParseSInterStore(v0 redis.BaseCmd) (SInterStore, error) { v1 := SInterStore{BaseCmd: v0} v2 := parser.New( parser.String(&v1.dest), parser.Strings(&v1.keys), ).Required(2).Run(v1.Args()) if v2 != nil { return SInterStore{}, v2 } return v1, nil }"
def runText_set_ParseSInterStore : String := "func (v0 SInterStore) Run(v1 redis.Writer, v2 redis.Redka) (any, error) { v3, v4 := v2.Set().InterStore(v0.dest, v0.keys...) if v4 != nil { v1.WriteError(v0.Error(v4)) return nil, v4 } v1.WriteInt(v3) return v3, nil }"
/-- `set.ParseSInterStore` -/
def src_set_ParseSInterStore : CmdSrc :=
  { fn := "set.ParseSInterStore", ty := "set.SInterStore",
    parse := parseText_set_ParseSInterStore,
    run := runText_set_ParseSInterStore,
    calls := ["Set.InterStore"],
    methods := ["Error", "InterStore", "Set", "WriteError", "WriteInt"],
    writes := ["WriteError", "WriteInt"] }

def parseText_set_ParseSIsMember : String := "func ParseSIsMember(v0 redis.BaseCmd) (SIsMember, error) { v1 := SIsMember{BaseCmd: v0} v2 := parser.New( parser.String(&v1.key), parser.Bytes(&v1.member), ).Required(2).Run(v1.Args()) if v2 != nil { return SIsMember{}, v2 } return v1, nil }"
def runText_set_ParseSIsMember : String := "func (v0 SIsMember) Run(v1 redis.Writer, v2 redis.Redka) (any, error) { v3, v4 := v2.Set().Exists(v0.key, v0.member) if v4 != nil { v1.WriteError(v0.Error(v4)) return nil, v4 } if v3 { v1.WriteInt(1) } else { v1.WriteInt(0) } return v3, nil }"
/-- `set.ParseSIsMember` -/
def src_set_ParseSIsMember : CmdSrc :=
  { fn := "set.ParseSIsMember", ty := "set.SIsMember",
    parse := parseText_set_ParseSIsMember,
    run := runText_set_ParseSIsMember,
    calls := ["Set.Exists"],
    methods := ["Error", "Exists", "Set", "WriteError", "WriteInt"],
    writes := ["WriteError", "WriteInt"] }

def parseText_set_ParseSMembers : String := "func ParseSMembers(v0 redis.BaseCmd) (SMembers, error) { v1 := SMembers{BaseCmd: v0} if len(v1.Args()) != 1 { return SMembers{}, redis.ErrInvalidArgNum } v1.key = string(v1.Args()[0]) return v1, nil }"
def runText_set_ParseSMembers : String := "func (v0 SMembers) Run(v1 redis.Writer, v2 redis.Redka) (any, error) { v3, v4 := v2.Set().Items(v0.key) if v4 != nil { v1.WriteError(v0.Error(v4)) return nil, v4 } v1.WriteArray(len(v3)) for _, v5 := range v3 { v1.WriteBulk(v5) } return v3, nil }"
/-- `set.ParseSMembers` -/
def src_set_ParseSMembers : CmdSrc :=
  { fn := "set.ParseSMembers", ty := "set.SMembers",
    parse := parseText_set_ParseSMembers,
    run := runText_set_ParseSMembers,
    calls := ["Set.Items"],
    methods := ["Error", "Items", "Set", "WriteArray", "WriteBulk", "WriteError"],
    writes := ["WriteArray", "WriteBulk", "WriteError"] }

def parseText_set_ParseSMove : String := "func ParseSMove(v0 redis.BaseCmd) (SMove, error) { v1 := SMove{BaseCmd: v0} v2 := parser.New( parser.String(&v1.src), parser.String(&v1.dest), parser.Bytes(&v1.member), ).Required(3).Run(v1.Args()) if v2 != nil { return SMove{}, v2 } return v1, nil }"
def runText_set_ParseSMove : String := "func (v0 SMove) Run(v1 redis.Writer, v2 redis.Redka) (any, error) { v3 := v2.Set().Move(v0.src, v0.dest, v0.member) if v3 == core.ErrNotFound { v1.WriteInt(0) return 0, nil } if v3 != nil { v1.WriteError(v0.Error(v3)) return nil, v3 } v1.WriteInt(1) return 1, nil }"
/-- `set.ParseSMove` -/
def src_set_ParseSMove : CmdSrc :=
  { fn := "set.ParseSMove", ty := "set.SMove",
    parse := parseText_set_ParseSMove,
    run := runText_set_ParseSMove,
    calls := ["Set.Move"],
    methods := ["Error", "Move", "Set", "WriteError", "WriteInt"],
    writes := ["WriteError", "WriteInt"] }

def parseText_set_ParseSPop : String := "func ParseSPop(v0 redis.BaseCmd) (SPop, error) { v1 := SPop{BaseCmd: v0} if len(v1.Args()) != 1 { return SPop{}, redis.ErrInvalidArgNum } v1.key = string(v1.Args()[0]) return v1, nil }"
def runText_set_ParseSPop : String := "func (v0 SPop) Run(v1 redis.Writer, v2 redis.Redka) (any, error) { v3, v4 := v2.Set().Pop(v0.key) if v4 == core.ErrNotFound { v1.WriteNull() return v3, nil } if v4 != nil { v1.WriteError(v0.Error(v4)) return nil, v4 } v1.WriteBulk(v3) return v3, nil }"
/-- `set.ParseSPop` -/
def src_set_ParseSPop : CmdSrc :=
  { fn := "set.ParseSPop", ty := "set.SPop",
    parse := parseText_set_ParseSPop,
    run := runText_set_ParseSPop,
    calls := ["Set.Pop"],
    methods := ["Error", "Pop", "Set", "WriteBulk", "WriteError", "WriteNull"],
    writes := ["WriteBulk", "WriteError", "WriteNull"] }

def parseText_set_ParseSRandMember : String := "func ParseSRandMember(v0 redis.BaseCmd) (SRandMember, error) { v1 := SRandMember{BaseCmd: v0} if len(v1.Args()) != 1 { return SRandMember{}, redis.ErrInvalidArgNum } v1.key = string(v1.Args()[0]) return v1, nil }"
def runText_set_ParseSRandMember : String := "func (v0 SRandMember) Run(v1 redis.Writer, v2 redis.Redka) (any, error) { v3, v4 := v2.Set().Random(v0.key) if v4 == core.ErrNotFound { v1.WriteNull() return v3, nil } if v4 != nil { v1.WriteError(v0.Error(v4)) return nil, v4 } v1.WriteBulk(v3) return v3, nil }"
/-- `set.ParseSRandMember` -/
def src_set_ParseSRandMember : CmdSrc :=
  { fn := "set.ParseSRandMember", ty := "set.SRandMember",
    parse := parseText_set_ParseSRandMember,
    run := runText_set_ParseSRandMember,
    calls := ["Set.Random"],
    methods := ["Error", "Random", "Set", "WriteBulk", "WriteError", "WriteNull"],
    writes := ["WriteBulk", "WriteError", "WriteNull"] }

def parseText_set_ParseSRem : String := "func ParseSRem(v0 redis.BaseCmd) (SRem, error) { v1 := SRem{BaseCmd: v0} v2 := parser.New( parser.String(&v1.key), parser.Anys(&v1.members), ).Required(2).Run(v1.Args()) if v2 != nil { return SRem{}, v2 } return v1, nil }"
def runText_set_ParseSRem : String := "func (v0 SRem) Run(v1 redis.Writer, v2 redis.Redka) (any, error) { v3, v4 := v2.Set().Delete(v0.key, v0.members...) if v4 != nil { v1.WriteError(v0.Error(v4)) return nil, v4 } v1.WriteInt(v3) return v3, nil }"
/-- `set.ParseSRem` -/
def src_set_ParseSRem : CmdSrc :=
  { fn := "set.ParseSRem", ty := "set.SRem",
    parse := parseText_set_ParseSRem,
    run := runText_set_ParseSRem,
    calls := ["Set.Delete"],
    methods := ["Delete", "Error", "Set", "WriteError", "WriteInt"],
    writes := ["WriteError", "WriteInt"] }

def parseText_set_ParseSScan : String := "func ParseSScan(v0 redis.BaseCmd) (SScan, error) { v1 := SScan{BaseCmd: v0} v2 := parser.New( parser.String(&v1.key), parser.Int(&v1.cursor), parser.Named(\"match\", parser.String(&v1.match)), parser.Named(\"count\", parser.Int(&v1.count)), ).Required(2).Run(v1.Args()) if v2 != nil { return SScan{}, v2 } if v1.match == \"\" { v1.match = \"*\" } return v1, nil }"
def runText_set_ParseSScan : String := "func (v0 SScan) Run(v1 redis.Writer, v2 redis.Redka) (any, error) { v3, v4 := v2.Set().Scan(v0.key, v0.cursor, v0.match, v0.count) if v4 != nil { v1.WriteError(v0.Error(v4)) return nil, v4 } v1.WriteArray(2) v1.WriteInt(v3.Cursor) v1.WriteArray(len(v3.Items)) for _, v5 := range v3.Items { v1.WriteBulk(v5) } return v3, nil }"
/-- `set.ParseSScan` -/
def src_set_ParseSScan : CmdSrc :=
  { fn := "set.ParseSScan", ty := "set.SScan",
    parse := parseText_set_ParseSScan,
    run := runText_set_ParseSScan,
    calls := ["Set.Scan"],
    methods := ["Error", "Scan", "Set", "WriteArray", "WriteBulk", "WriteError", "WriteInt"],
    writes := ["WriteArray", "WriteBulk", "WriteError", "WriteInt"] }

def parseText_set_ParseSUnion : String := "func ParseSUnion(v0 redis.BaseCmd) (SUnion, error) { v1 := SUnion{BaseCmd: v0} v2 := parser.New( parser.Strings(&v1.keys), ).Required(1).Run(v1.Args()) if v2 != nil { return SUnion{}, v2 } return v1, nil }"
def runText_set_ParseSUnion : String := "func (v0 SUnion) Run(v1 redis.Writer, v2 redis.Redka) (any, error) { v3, v4 := v2.Set().Union(v0.keys...) if v4 != nil { v1.WriteError(v0.Error(v4)) return nil, v4 } v1.WriteArray(len(v3)) for _, v5 := range v3 { v1.WriteBulk(v5) } return v3, nil }"
/-- `set.ParseSUnion` -/
def src_set_ParseSUnion : CmdSrc :=
  { fn := "set.ParseSUnion", ty := "set.SUnion",
    parse := parseText_set_ParseSUnion,
    run := runText_set_ParseSUnion,
    calls := ["Set.Union"],
    methods := ["Error", "Set", "Union", "WriteArray", "WriteBulk", "WriteError"],
    writes := ["WriteArray", "WriteBulk", "WriteError"] }

def parseText_set_ParseSUnionStore : String := "func ParseSUnionStore(v0 redis.BaseCmd) (SUnionStore, error) { v1 := SUnionStore{BaseCmd: v0} v2 := parser.New( parser.String(&v1.dest), parser.Strings(&v1.keys), ).Required(2).Run(v1.Args()) if v2 != nil { return SUnionStore{}, v2 } return v1, nil }"
def runText_set_ParseSUnionStore : String := "func (v0 SUnionStore) Run(v1 redis.Writer, v2 redis.Redka) (any, error) { v3, v4 := v2.Set().UnionStore(v0.dest, v0.keys...) if v4 != nil { v1.WriteError(v0.Error(v4)) return nil, v4 } v1.WriteInt(v3) return v3, nil }"
/-- `set.ParseSUnionStore` -/
def src_set_ParseSUnionStore : CmdSrc :=
  { fn := "set.ParseSUnionStore", ty := "set.SUnionStore",
    parse := parseText_set_ParseSUnionStore,
    run := runText_set_ParseSUnionStore,
    calls := ["Set.UnionStore"],
    methods := ["Error", "Set", "UnionStore", "WriteError", "WriteInt"],
    writes := ["WriteError", "WriteInt"] }

def parseText_string_ParseGet : String := "func ParseGet(v0 redis.BaseCmd) (Get, error) { v1 := Get{BaseCmd: v0} if len(v1.Args()) != 1 { return Get{}, redis.ErrInvalidArgNum } v1.key = string(v1.Args()[0]) return v1, nil }"
def runText_string_ParseGet : String := "func (v0 Get) Run(v1 redis.Writer, v2 redis.Redka) (any, error) { v3, v4 := v2.Str().Get(v0.key) if v4 == core.ErrNotFound { v1.WriteNull() return v3, nil } if v4 != nil { v1.WriteError(v0.Error(v4)) return nil, v4 } v1.WriteBulk(v3) return v3, nil }"
/-- `string.ParseGet` -/
def src_string_ParseGet : CmdSrc :=
  { fn := "string.ParseGet", ty := "string.Get",
    parse := parseText_string_ParseGet,
    run := runText_string_ParseGet,
    calls := ["Str.Get"],
    methods := ["Error", "Get", "Str", "WriteBulk", "WriteError", "WriteNull"],
    writes := ["WriteBulk", "WriteError", "WriteNull"] }

def parseText_string_ParseGetSet : String := "func ParseGetSet(v0 redis.BaseCmd) (GetSet, error) { v1 := GetSet{BaseCmd: v0} if len(v1.Args()) != 2 { return GetSet{}, redis.ErrInvalidArgNum } v1.key = string(v1.Args()[0]) v1.value = v1.Args()[1] return v1, nil }"
def runText_string_ParseGetSet : String := "func (v0 GetSet) Run(v1 redis.Writer, v2 redis.Redka) (any, error) { v3, v4 := v2.Str().SetWith(v0.key, v0.value).Run() if v4 != nil { v1.WriteError(v0.Error(v4)) return nil, v4 } if v3.Created { v1.WriteNull() return core.Value(nil), nil } v1.WriteBulk(v3.Prev) return v3.Prev, nil }"
/-- `string.ParseGetSet` -/
def src_string_ParseGetSet : CmdSrc :=
  { fn := "string.ParseGetSet", ty := "string.GetSet",
    parse := parseText_string_ParseGetSet,
    run := runText_string_ParseGetSet,
    calls := ["Str.SetWith"],
    methods := ["Error", "Run", "SetWith", "Str", "Value", "WriteBulk", "WriteError", "WriteNull"],
    writes := ["WriteBulk", "WriteError", "WriteNull"] }

def parseText_string_ParseIncr : String := "func ParseIncr(v0 redis.BaseCmd, v1 int) (Incr, error) { v2 := Incr{BaseCmd: v0} if len(v2.Args()) != 1 { return Incr{}, redis.ErrInvalidArgNum } v2.key = string(v2.Args()[0]) v2.delta = v1 return v2, nil }"
def runText_string_ParseIncr : String := "func (v0 Incr) Run(v1 redis.Writer, v2 redis.Redka) (any, error) { v3, v4 := v2.Str().Incr(v0.key, v0.delta) if v4 != nil { v1.WriteError(v0.Error(v4)) return nil, v4 } v1.WriteInt(v3) return v3, nil }"
/-- `string.ParseIncr` -/
def src_string_ParseIncr : CmdSrc :=
  { fn := "string.ParseIncr", ty := "string.Incr",
    parse := parseText_string_ParseIncr,
    run := runText_string_ParseIncr,
    calls := ["Str.Incr"],
    methods := ["Error", "Incr", "Str", "WriteError", "WriteInt"],
    writes := ["WriteError", "WriteInt"] }

def parseText_string_ParseIncrBy : String := "func ParseIncrBy(v0 redis.BaseCmd, v1 int) (IncrBy, error) { v2 := IncrBy{BaseCmd: v0} v3 := parser.New( parser.String(&v2.key), parser.Int(&v2.delta), ).Required(2).Run(v2.Args()) if v3 != nil { return IncrBy{}, v3 } v2.delta *= v1 return v2, nil }"
def runText_string_ParseIncrBy : String := "func (v0 IncrBy) Run(v1 redis.Writer, v2 redis.Redka) (any, error) { v3, v4 := v2.Str().Incr(v0.key, v0.delta) if v4 != nil { v1.WriteError(v0.Error(v4)) return nil, v4 } v1.WriteInt(v3) return v3, nil }"
/-- `string.ParseIncrBy` -/
def src_string_ParseIncrBy : CmdSrc :=
  { fn := "string.ParseIncrBy", ty := "string.IncrBy",
    parse := parseText_string_ParseIncrBy,
    run := runText_string_ParseIncrBy,
    calls := ["Str.Incr"],
    methods := ["Error", "Incr", "Str", "WriteError", "WriteInt"],
    writes := ["WriteError", "WriteInt"] }

def parseText_string_ParseIncrByFloat : String := "func ParseIncrByFloat(v0 redis.BaseCmd) (IncrByFloat, error) { v1 := IncrByFloat{BaseCmd: v0} v2 := parser.New( parser.String(&v1.key), parser.Float(&v1.delta), ).Required(2).Run(v1.Args()) if v2 != nil { return IncrByFloat{}, v2 } return v1, nil }"
def runText_string_ParseIncrByFloat : String := "func (v0 IncrByFloat) Run(v1 redis.Writer, v2 redis.Redka) (any, error) { v3, v4 := v2.Str().IncrFloat(v0.key, v0.delta) if v4 != nil { v1.WriteError(v0.Error(v4)) return nil, v4 } redis.WriteFloat(v1, v3) return v3, nil }"
/-- `string.ParseIncrByFloat` -/
def src_string_ParseIncrByFloat : CmdSrc :=
  { fn := "string.ParseIncrByFloat", ty := "string.IncrByFloat",
    parse := parseText_string_ParseIncrByFloat,
    run := runText_string_ParseIncrByFloat,
    calls := ["Str.IncrFloat"],
    methods := ["Error", "IncrFloat", "Str", "WriteError", "WriteFloat"],
    writes := ["WriteError", "WriteFloat"] }

def parseText_string_ParseMGet : String := "func ParseMGet(v0 redis.BaseCmd) (MGet, error) { v1 := MGet{BaseCmd: v0} if len(v1.Args()) < 1 { return MGet{}, redis.ErrInvalidArgNum } v1.keys = make([]string, len(v1.Args())) for v2, v3 := range v1.Args() { v1.keys[v2] = string(v3) } return v1, nil }"
def runText_string_ParseMGet : String := "func (v0 MGet) Run(v1 redis.Writer, v2 redis.Redka) (any, error) { v3, v4 := v2.Str().GetMany(v0.keys...) if v4 != nil { v1.WriteError(v0.Error(v4)) return nil, v4 } v1.WriteArray(len(v0.keys)) v5 := make([]core.Value, len(v0.keys)) for v6, v7 := range v0.keys { v8, v9 := v3[v7] v5[v6] = v8 if v9 { v1.WriteBulk(v8.Bytes()) } else { v1.WriteNull() } } return v5, nil }"
/-- `string.ParseMGet` -/
def src_string_ParseMGet : CmdSrc :=
  { fn := "string.ParseMGet", ty := "string.MGet",
    parse := parseText_string_ParseMGet,
    run := runText_string_ParseMGet,
    calls := ["Str.GetMany"],
    methods := ["Bytes", "Error", "GetMany", "Str", "WriteArray", "WriteBulk", "WriteError", "WriteNull"],
    writes := ["WriteArray", "WriteBulk", "WriteError", "WriteNull"] }

def parseText_string_ParseMSet : String := "func ParseMSet(v0 redis.BaseCmd) (MSet, error) { v1 := MSet{BaseCmd: v0} v2 := parser.New( parser.AnyMap(&v1.items), ).Required(2).Run(v1.Args()) if v2 != nil { return MSet{}, v2 } return v1, nil }"
def runText_string_ParseMSet : String := "func (v0 MSet) Run(v1 redis.Writer, v2 redis.Redka) (any, error) { v3 := v2.Str().SetMany(v0.items) if v3 != nil { v1.WriteError(v0.Error(v3)) return nil, v3 } v1.WriteString(\"OK\") return true, nil }"
/-- `string.ParseMSet` -/
def src_string_ParseMSet : CmdSrc :=
  { fn := "string.ParseMSet", ty := "string.MSet",
    parse := parseText_string_ParseMSet,
    run := runText_string_ParseMSet,
    calls := ["Str.SetMany"],
    methods := ["Error", "SetMany", "Str", "WriteError", "WriteString"],
    writes := ["WriteError", "WriteString"] }

def parseText_string_ParseSet : String := "func ParseSet(v0 redis.BaseCmd) (Set, error) { v1 := Set{BaseCmd: v0} var v2, v3, v4, v5 int v6 := parser.New( parser.String(&v1.key), parser.Bytes(&v1.value), parser.OneOf( parser.Flag(\"nx\", &v1.ifNX), parser.Flag(\"xx\", &v1.ifXX), ), parser.Flag(\"get\", &v1.get), parser.OneOf( parser.Named(\"ex\", parser.Int(&v2)), parser.Named(\"px\", parser.Int(&v3)), parser.Named(\"exat\", parser.Int(&v4)), parser.Named(\"pxat\", parser.Int(&v5)), parser.Flag(\"keepttl\", &v1.keepTTL), ), ).Required(2).Run(v1.Args()) if v6 != nil { return Set{}, v6 } if v2 > 0 { v1.ttl = time.Duration(v2) * time.Second } else if v3 > 0 { v1.ttl = time.Duration(v3) * time.Millisecond } else if v4 > 0 { v1.at = time.Unix(int64(v4), 0) } else if v5 > 0 { v1.at = time.Unix(0, int64(v5)*int64(time.Millisecond)) } if v1.ttl < 0 { return Set{}, redis.ErrInvalidExpireTime } return v1, nil }"
def runText_string_ParseSet : String := "func (v0 Set) Run(v1 redis.Writer, v2 redis.Redka) (any, error) { if !v0.ifNX && !v0.ifXX && !v0.get && !v0.keepTTL && v0.at.IsZero() { v3 := v2.Str().SetExpires(v0.key, v0.value, v0.ttl) if v3 != nil { v1.WriteError(v0.Error(v3)) return nil, v3 } v1.WriteString(\"OK\") return true, nil } v4 := v2.Str().SetWith(v0.key, v0.value) if v0.ifXX { v4 = v4.IfExists() } else if v0.ifNX { v4 = v4.IfNotExists() } if v0.ttl > 0 { v4 = v4.TTL(v0.ttl) } else if !v0.at.IsZero() { v4 = v4.At(v0.at) } else if v0.keepTTL { v4 = v4.KeepTTL() } v5, v6 := v4.Run() var v7 bool if v0.ifXX { v7 = v5.Updated } else if v0.ifNX { v7 = v5.Created } else { v7 = v6 == nil } if v6 != nil { v1.WriteError(v0.Error(v6)) return nil, v6 } if v0.get { if v5.Created { v1.WriteNull() return core.Value(nil), nil } v1.WriteBulk(v5.Prev) return v5.Prev, nil } else { if !v7 { v1.WriteNull() return false, nil } v1.WriteString(\"OK\") return true, nil } }"
/-- `string.ParseSet` -/
def src_string_ParseSet : CmdSrc :=
  { fn := "string.ParseSet", ty := "string.Set",
    parse := parseText_string_ParseSet,
    run := runText_string_ParseSet,
    calls := ["Str.SetExpires", "Str.SetWith"],
    methods := ["At", "Error", "IfExists", "IfNotExists", "IsZero", "KeepTTL", "Run", "SetExpires", "SetWith", "Str", "TTL", "Value", "WriteBulk", "WriteError", "WriteNull", "WriteString"],
    writes := ["WriteBulk", "WriteError", "WriteNull", "WriteString"] }

def parseText_string_ParseSetEX : String := "func ParseSetEX(v0 redis.BaseCmd, v1 int) (SetEX, error) { v2 := SetEX{BaseCmd: v0} var v3 int v4 := parser.New( parser.String(&v2.key), parser.Int(&v3), parser.Bytes(&v2.value), ).Required(3).Run(v2.Args()) if v4 != nil { return SetEX{}, v4 } v2.ttl = time.Duration(v1*v3) * time.Millisecond return v2, nil }"
def runText_string_ParseSetEX : String := "func (v0 SetEX) Run(v1 redis.Writer, v2 redis.Redka) (any, error) { v3 := v2.Str().SetExpires(v0.key, v0.value, v0.ttl) if v3 != nil { v1.WriteError(v0.Error(v3)) return nil, v3 } v1.WriteString(\"OK\") return true, nil }"
/-- `string.ParseSetEX` -/
def src_string_ParseSetEX : CmdSrc :=
  { fn := "string.ParseSetEX", ty := "string.SetEX",
    parse := parseText_string_ParseSetEX,
    run := runText_string_ParseSetEX,
    calls := ["Str.SetExpires"],
    methods := ["Error", "SetExpires", "Str", "WriteError", "WriteString"],
    writes := ["WriteError", "WriteString"] }

def parseText_string_ParseSetNX : String := "func ParseSetNX(v0 redis.BaseCmd) (SetNX, error) { v1 := SetNX{BaseCmd: v0} if len(v1.Args()) != 2 { return SetNX{}, redis.ErrInvalidArgNum } v1.key = string(v1.Args()[0]) v1.value = v1.Args()[1] return v1, nil }"
def runText_string_ParseSetNX : String := "func (v0 SetNX) Run(v1 redis.Writer, v2 redis.Redka) (any, error) { v3, v4 := v2.Str().SetWith(v0.key, v0.value).IfNotExists().Run() if v4 != nil { v1.WriteError(v0.Error(v4)) return nil, v4 } if v3.Created { v1.WriteInt(1) } else { v1.WriteInt(0) } return v3.Created, nil }"
/-- `string.ParseSetNX` -/
def src_string_ParseSetNX : CmdSrc :=
  { fn := "string.ParseSetNX", ty := "string.SetNX",
    parse := parseText_string_ParseSetNX,
    run := runText_string_ParseSetNX,
    calls := ["Str.SetWith"],
    methods := ["Error", "IfNotExists", "Run", "SetWith", "Str", "WriteError", "WriteInt"],
    writes := ["WriteError", "WriteInt"] }

def parseText_string_ParseStrlen : String := "func ParseStrlen(v0 redis.BaseCmd) (Strlen, error) { v1 := Strlen{BaseCmd: v0} if len(v1.Args()) != 1 { return Strlen{}, redis.ErrInvalidArgNum } v1.key = string(v1.Args()[0]) return v1, nil }"
def runText_string_ParseStrlen : String := "func (v0 Strlen) Run(v1 redis.Writer, v2 redis.Redka) (any, error) { v3, v4 := v2.Str().Get(v0.key) if v4 == core.ErrNotFound { v1.WriteInt(0) return 0, nil } if v4 != nil { v1.WriteError(v0.Error(v4)) return nil, v4 } v1.WriteInt(len(v3)) return len(v3), nil }"
/-- `string.ParseStrlen` -/
def src_string_ParseStrlen : CmdSrc :=
  { fn := "string.ParseStrlen", ty := "string.Strlen",
    parse := parseText_string_ParseStrlen,
    run := runText_string_ParseStrlen,
    calls := ["Str.Get"],
    methods := ["Error", "Get", "Str", "WriteError", "WriteInt"],
    writes := ["WriteError", "WriteInt"] }

def parseText_zset_ParseZAdd : String := "func ParseZAdd(v0 redis.BaseCmd) (ZAdd, error) { v1 := ZAdd{BaseCmd: v0} v2 := parser.New( parser.String(&v1.key), parser.FloatMap(&v1.items), ).Required(3).Run(v1.Args()) if v2 != nil { return ZAdd{}, v2 } return v1, nil }"
def runText_zset_ParseZAdd : String := "func (v0 ZAdd) Run(v1 redis.Writer, v2 redis.Redka) (any, error) { v3, v4 := v2.ZSet().AddMany(v0.key, v0.items) if v4 != nil { v1.WriteError(v0.Error(v4)) return nil, v4 } v1.WriteInt(v3) return v3, nil }"
/-- `zset.ParseZAdd` -/
def src_zset_ParseZAdd : CmdSrc :=
  { fn := "zset.ParseZAdd", ty := "zset.ZAdd",
    parse := parseText_zset_ParseZAdd,
    run := runText_zset_ParseZAdd,
    calls := ["ZSet.AddMany"],
    methods := ["AddMany", "Error", "WriteError", "WriteInt", "ZSet"],
    writes := ["WriteError", "WriteInt"] }

def parseText_zset_ParseZCard : String := "func ParseZCard(v0 redis.BaseCmd) (ZCard, error) { v1 := ZCard{BaseCmd: v0} if len(v1.Args()) != 1 { return ZCard{}, redis.ErrInvalidArgNum } v1.key = string(v1.Args()[0]) return v1, nil }"
def runText_zset_ParseZCard : String := "func (v0 ZCard) Run(v1 redis.Writer, v2 redis.Redka) (any, error) { v3, v4 := v2.ZSet().Len(v0.key) if v4 != nil { v1.WriteError(v0.Error(v4)) return nil, v4 } v1.WriteInt(v3) return v3, nil }"
/-- `zset.ParseZCard` -/
def src_zset_ParseZCard : CmdSrc :=
  { fn := "zset.ParseZCard", ty := "zset.ZCard",
    parse := parseText_zset_ParseZCard,
    run := runText_zset_ParseZCard,
    calls := ["ZSet.Len"],
    methods := ["Error", "Len", "WriteError", "WriteInt", "ZSet"],
    writes := ["WriteError", "WriteInt"] }

def parseText_zset_ParseZCount : String := "func ParseZCount(v0 redis.BaseCmd) (ZCount, error) { v1 := ZCount{BaseCmd: v0} v2 := parser.New( parser.String(&v1.key), parser.Float(&v1.min), parser.Float(&v1.max), ).Required(3).Run(v1.Args()) if v2 != nil { return ZCount{}, v2 } return v1, nil }"
def runText_zset_ParseZCount : String := "func (v0 ZCount) Run(v1 redis.Writer, v2 redis.Redka) (any, error) { v3, v4 := v2.ZSet().Count(v0.key, v0.min, v0.max) if v4 != nil { v1.WriteError(v0.Error(v4)) return nil, v4 } v1.WriteInt(v3) return v3, nil }"
/-- `zset.ParseZCount` -/
def src_zset_ParseZCount : CmdSrc :=
  { fn := "zset.ParseZCount", ty := "zset.ZCount",
    parse := parseText_zset_ParseZCount,
    run := runText_zset_ParseZCount,
    calls := ["ZSet.Count"],
    methods := ["Count", "Error", "WriteError", "WriteInt", "ZSet"],
    writes := ["WriteError", "WriteInt"] }

def parseText_zset_ParseZIncrBy : String := "func ParseZIncrBy(v0 redis.BaseCmd) (ZIncrBy, error) { v1 := ZIncrBy{BaseCmd: v0} v2 := parser.New( parser.String(&v1.key), parser.Float(&v1.delta), parser.String(&v1.member), ).Required(3).Run(v1.Args()) if v2 != nil { return ZIncrBy{}, v2 } return v1, nil }"
def runText_zset_ParseZIncrBy : String := "func (v0 ZIncrBy) Run(v1 redis.Writer, v2 redis.Redka) (any, error) { v3, v4 := v2.ZSet().Incr(v0.key, v0.member, v0.delta) if v4 != nil { v1.WriteError(v0.Error(v4)) return nil, v4 } redis.WriteFloat(v1, v3) return v3, nil }"
/-- `zset.ParseZIncrBy` -/
def src_zset_ParseZIncrBy : CmdSrc :=
  { fn := "zset.ParseZIncrBy", ty := "zset.ZIncrBy",
    parse := parseText_zset_ParseZIncrBy,
    run := runText_zset_ParseZIncrBy,
    calls := ["ZSet.Incr"],
    methods := ["Error", "Incr", "WriteError", "WriteFloat", "ZSet"],
    writes := ["WriteError", "WriteFloat"] }

def parseText_zset_ParseZInter : String := "func ParseZInter(v0 redis.BaseCmd) (ZInter, error) { v1 := ZInter{BaseCmd: v0} var v2 int v3 := parser.New( parser.Int(&v2), parser.StringsN(&v1.keys, &v2), parser.Named(\"aggregate\", parser.Enum(&v1.aggregate, sqlx.Sum, sqlx.Min, sqlx.Max)), parser.Flag(\"withscores\", &v1.withScores), ).Required(2).Run(v1.Args()) if v3 != nil { return ZInter{}, v3 } return v1, nil }"
def runText_zset_ParseZInter : String := "func (v0 ZInter) Run(v1 redis.Writer, v2 redis.Redka) (any, error) { v3 := v2.ZSet().InterWith(v0.keys...) switch v0.aggregate { case sqlx.Min: v3 = v3.Min() case sqlx.Max: v3 = v3.Max() case sqlx.Sum: v3 = v3.Sum() } v4, v5 := v3.Run() if v5 != nil { v1.WriteError(v0.Error(v5)) return nil, v5 } if v0.withScores { v1.WriteArray(len(v4) * 2) for _, v6 := range v4 { v1.WriteBulk(v6.Elem) redis.WriteFloat(v1, v6.Score) } } else { v1.WriteArray(len(v4)) for _, v7 := range v4 { v1.WriteBulk(v7.Elem) } } return v4, nil }"
/-- `zset.ParseZInter` -/
def src_zset_ParseZInter : CmdSrc :=
  { fn := "zset.ParseZInter", ty := "zset.ZInter",
    parse := parseText_zset_ParseZInter,
    run := runText_zset_ParseZInter,
    calls := ["ZSet.InterWith"],
    methods := ["Error", "InterWith", "Max", "Min", "Run", "Sum", "WriteArray", "WriteBulk", "WriteError", "WriteFloat", "ZSet"],
    writes := ["WriteArray", "WriteBulk", "WriteError", "WriteFloat"] }

def parseText_zset_ParseZInterStore : String := "func ParseZInterStore(v0 redis.BaseCmd) (ZInterStore, error) { v1 := ZInterStore{BaseCmd: v0} var v2 int v3 := parser.New( parser.String(&v1.dest), parser.Int(&v2), parser.StringsN(&v1.keys, &v2), parser.Named(\"aggregate\", parser.Enum(&v1.aggregate, sqlx.Sum, sqlx.Min, sqlx.Max)), ).Required(3).Run(v1.Args()) if v3 != nil { return ZInterStore{}, v3 } return v1, nil }"
def runText_zset_ParseZInterStore : String := "func (v0 ZInterStore) Run(v1 redis.Writer, v2 redis.Redka) (any, error) { v3 := v2.ZSet().InterWith(v0.keys...).Dest(v0.dest) switch v0.aggregate { case sqlx.Min: v3 = v3.Min() case sqlx.Max: v3 = v3.Max() case sqlx.Sum: v3 = v3.Sum() } v4, v5 := v3.Store() if v5 != nil { v1.WriteError(v0.Error(v5)) return nil, v5 } v1.WriteInt(v4) return v4, nil }"
/-- `zset.ParseZInterStore` -/
def src_zset_ParseZInterStore : CmdSrc :=
  { fn := "zset.ParseZInterStore", ty := "zset.ZInterStore",
    parse := parseText_zset_ParseZInterStore,
    run := runText_zset_ParseZInterStore,
    calls := ["ZSet.InterWith"],
    methods := ["Dest", "Error", "InterWith", "Max", "Min", "Store", "Sum", "WriteError", "WriteInt", "ZSet"],
    writes := ["WriteError", "WriteInt"] }

def parseText_zset_ParseZRange : String := "func ParseZRange(v0 redis.BaseCmd) (ZRange, error) { v1 := ZRange{BaseCmd: v0} v2 := parser.New( parser.String(&v1.key), parser.Float(&v1.start), parser.Float(&v1.stop), parser.Flag(\"byscore\", &v1.byScore), parser.Flag(\"rev\", &v1.rev), parser.Named(\"limit\", parser.Int(&v1.offset), parser.Int(&v1.count)), parser.Flag(\"withscores\", &v1.withScores), ).Required(3).Run(v1.Args()) if v2 != nil { return ZRange{}, v2 } return v1, nil }"
def runText_zset_ParseZRange : String := "func (v0 ZRange) Run(v1 redis.Writer, v2 redis.Redka) (any, error) { v3 := v2.ZSet().RangeWith(v0.key) if v0.byScore { v3 = v3.ByScore(v0.start, v0.stop) } else { v3 = v3.ByRank(int(v0.start), int(v0.stop)) } if v0.rev { v3 = v3.Desc() } if v0.offset > 0 { v3 = v3.Offset(v0.offset) } if v0.count > 0 { v3 = v3.Count(v0.count) } v4, v5 := v3.Run() if v5 != nil { v1.WriteError(v0.Error(v5)) return nil, v5 } if v0.withScores { v1.WriteArray(len(v4) * 2) for _, v6 := range v4 { v1.WriteBulk(v6.Elem) redis.WriteFloat(v1, v6.Score) } } else { v1.WriteArray(len(v4)) for _, v7 := range v4 { v1.WriteBulk(v7.Elem) } } return v4, nil }"
/-- `zset.ParseZRange` -/
def src_zset_ParseZRange : CmdSrc :=
  { fn := "zset.ParseZRange", ty := "zset.ZRange",
    parse := parseText_zset_ParseZRange,
    run := runText_zset_ParseZRange,
    calls := ["ZSet.RangeWith"],
    methods := ["ByRank", "ByScore", "Count", "Desc", "Error", "Offset", "RangeWith", "Run", "WriteArray", "WriteBulk", "WriteError", "WriteFloat", "ZSet"],
    writes := ["WriteArray", "WriteBulk", "WriteError", "WriteFloat"] }

def parseText_zset_ParseZRangeByScore : String := "func ParseZRangeByScore(v0 redis.BaseCmd) (ZRangeByScore, error) { v1 := ZRangeByScore{BaseCmd: v0} v2 := parser.New( parser.String(&v1.key), parser.Float(&v1.min), parser.Float(&v1.max), parser.Flag(\"withscores\", &v1.withScores), parser.Named(\"limit\", parser.Int(&v1.offset), parser.Int(&v1.count)), ).Required(3).Run(v1.Args()) if v2 != nil { return ZRangeByScore{}, v2 } return v1, nil }"
def runText_zset_ParseZRangeByScore : String := "func (v0 ZRangeByScore) Run(v1 redis.Writer, v2 redis.Redka) (any, error) { v3 := v2.ZSet().RangeWith(v0.key).ByScore(v0.min, v0.max) if v0.offset > 0 { v3 = v3.Offset(v0.offset) } if v0.count > 0 { v3 = v3.Count(v0.count) } v4, v5 := v3.Run() if v5 != nil { v1.WriteError(v0.Error(v5)) return nil, v5 } if v0.withScores { v1.WriteArray(len(v4) * 2) for _, v6 := range v4 { v1.WriteBulk(v6.Elem) redis.WriteFloat(v1, v6.Score) } } else { v1.WriteArray(len(v4)) for _, v7 := range v4 { v1.WriteBulk(v7.Elem) } } return v4, nil }"
/-- `zset.ParseZRangeByScore` -/
def src_zset_ParseZRangeByScore : CmdSrc :=
  { fn := "zset.ParseZRangeByScore", ty := "zset.ZRangeByScore",
    parse := parseText_zset_ParseZRangeByScore,
    run := runText_zset_ParseZRangeByScore,
    calls := ["ZSet.RangeWith"],
    methods := ["ByScore", "Count", "Error", "Offset", "RangeWith", "Run", "WriteArray", "WriteBulk", "WriteError", "WriteFloat", "ZSet"],
    writes := ["WriteArray", "WriteBulk", "WriteError", "WriteFloat"] }

def parseText_zset_ParseZRank : String := "func ParseZRank(v0 redis.BaseCmd) (ZRank, error) { v1 := ZRank{BaseCmd: v0} v2 := parser.New( parser.String(&v1.key), parser.String(&v1.member), parser.Flag(\"withscore\", &v1.withScore), ).Required(2).Run(v1.Args()) if v2 != nil { return ZRank{}, v2 } return v1, nil }"
def runText_zset_ParseZRank : String := "func (v0 ZRank) Run(v1 redis.Writer, v2 redis.Redka) (any, error) { v3, v4, v5 := v2.ZSet().GetRank(v0.key, v0.member) if v5 == core.ErrNotFound { v1.WriteNull() return nil, nil } if v5 != nil { v1.WriteError(v0.Error(v5)) return nil, v5 } if v0.withScore { v1.WriteArray(2) v1.WriteInt(v3) redis.WriteFloat(v1, v4) return v3, nil } v1.WriteInt(v3) return v3, nil }"
/-- `zset.ParseZRank` -/
def src_zset_ParseZRank : CmdSrc :=
  { fn := "zset.ParseZRank", ty := "zset.ZRank",
    parse := parseText_zset_ParseZRank,
    run := runText_zset_ParseZRank,
    calls := ["ZSet.GetRank"],
    methods := ["Error", "GetRank", "WriteArray", "WriteError", "WriteFloat", "WriteInt", "WriteNull", "ZSet"],
    writes := ["WriteArray", "WriteError", "WriteFloat", "WriteInt", "WriteNull"] }

def parseText_zset_ParseZRem : String := "func ParseZRem(v0 redis.BaseCmd) (ZRem, error) { v1 := ZRem{BaseCmd: v0} v2 := parser.New( parser.String(&v1.key), parser.Anys(&v1.members), ).Required(2).Run(v1.Args()) if v2 != nil { return ZRem{}, v2 } return v1, nil }"
def runText_zset_ParseZRem : String := "func (v0 ZRem) Run(v1 redis.Writer, v2 redis.Redka) (any, error) { v3, v4 := v2.ZSet().Delete(v0.key, v0.members...) if v4 != nil { v1.WriteError(v0.Error(v4)) return nil, v4 } v1.WriteInt(v3) return v3, nil }"
/-- `zset.ParseZRem` -/
def src_zset_ParseZRem : CmdSrc :=
  { fn := "zset.ParseZRem", ty := "zset.ZRem",
    parse := parseText_zset_ParseZRem,
    run := runText_zset_ParseZRem,
    calls := ["ZSet.Delete"],
    methods := ["Delete", "Error", "WriteError", "WriteInt", "ZSet"],
    writes := ["WriteError", "WriteInt"] }

def parseText_zset_ParseZRemRangeByRank : String := "func ParseZRemRangeByRank(v0 redis.BaseCmd) (ZRemRangeByRank, error) { v1 := ZRemRangeByRank{BaseCmd: v0} v2 := parser.New( parser.String(&v1.key), parser.Int(&v1.start), parser.Int(&v1.stop), ).Required(3).Run(v1.Args()) if v2 != nil { return ZRemRangeByRank{}, v2 } return v1, nil }"
def runText_zset_ParseZRemRangeByRank : String := "func (v0 ZRemRangeByRank) Run(v1 redis.Writer, v2 redis.Redka) (any, error) { v3, v4 := v2.ZSet().DeleteWith(v0.key).ByRank(v0.start, v0.stop).Run() if v4 != nil { v1.WriteError(v0.Error(v4)) return nil, v4 } v1.WriteInt(v3) return v3, nil }"
/-- `zset.ParseZRemRangeByRank` -/
def src_zset_ParseZRemRangeByRank : CmdSrc :=
  { fn := "zset.ParseZRemRangeByRank", ty := "zset.ZRemRangeByRank",
    parse := parseText_zset_ParseZRemRangeByRank,
    run := runText_zset_ParseZRemRangeByRank,
    calls := ["ZSet.DeleteWith"],
    methods := ["ByRank", "DeleteWith", "Error", "Run", "WriteError", "WriteInt", "ZSet"],
    writes := ["WriteError", "WriteInt"] }

def parseText_zset_ParseZRemRangeByScore : String := "func ParseZRemRangeByScore(v0 redis.BaseCmd) (ZRemRangeByScore, error) { v1 := ZRemRangeByScore{BaseCmd: v0} v2 := parser.New( parser.String(&v1.key), parser.Float(&v1.min), parser.Float(&v1.max), ).Required(3).Run(v1.Args()) if v2 != nil { return ZRemRangeByScore{}, v2 } return v1, nil }"
def runText_zset_ParseZRemRangeByScore : String := "func (v0 ZRemRangeByScore) Run(v1 redis.Writer, v2 redis.Redka) (any, error) { v3, v4 := v2.ZSet().DeleteWith(v0.key).ByScore(v0.min, v0.max).Run() if v4 != nil { v1.WriteError(v0.Error(v4)) return nil, v4 } v1.WriteInt(v3) return v3, nil }"
/-- `zset.ParseZRemRangeByScore` -/
def src_zset_ParseZRemRangeByScore : CmdSrc :=
  { fn := "zset.ParseZRemRangeByScore", ty := "zset.ZRemRangeByScore",
    parse := parseText_zset_ParseZRemRangeByScore,
    run := runText_zset_ParseZRemRangeByScore,
    calls := ["ZSet.DeleteWith"],
    methods := ["ByScore", "DeleteWith", "Error", "Run", "WriteError", "WriteInt", "ZSet"],
    writes := ["WriteError", "WriteInt"] }

def parseText_zset_ParseZRevRange : String := "func ParseZRevRange(v0 redis.BaseCmd) (ZRevRange, error) { v1 := ZRevRange{BaseCmd: v0} v2 := parser.New( parser.String(&v1.key), parser.Int(&v1.start), parser.Int(&v1.stop), parser.Flag(\"withscores\", &v1.withScores), ).Required(3).Run(v1.Args()) if v2 != nil { return ZRevRange{}, v2 } return v1, nil }"
def runText_zset_ParseZRevRange : String := "func (v0 ZRevRange) Run(v1 redis.Writer, v2 redis.Redka) (any, error) { v3, v4 := v2.ZSet().RangeWith(v0.key).ByRank(v0.start, v0.stop).Desc().Run() if v4 != nil { v1.WriteError(v0.Error(v4)) return nil, v4 } if v0.withScores { v1.WriteArray(len(v3) * 2) for _, v5 := range v3 { v1.WriteBulk(v5.Elem) redis.WriteFloat(v1, v5.Score) } } else { v1.WriteArray(len(v3)) for _, v6 := range v3 { v1.WriteBulk(v6.Elem) } } return v3, nil }"
/-- `zset.ParseZRevRange` -/
def src_zset_ParseZRevRange : CmdSrc :=
  { fn := "zset.ParseZRevRange", ty := "zset.ZRevRange",
    parse := parseText_zset_ParseZRevRange,
    run := runText_zset_ParseZRevRange,
    calls := ["ZSet.RangeWith"],
    methods := ["ByRank", "Desc", "Error", "RangeWith", "Run", "WriteArray", "WriteBulk", "WriteError", "WriteFloat", "ZSet"],
    writes := ["WriteArray", "WriteBulk", "WriteError", "WriteFloat"] }

def parseText_zset_ParseZRevRangeByScore : String := "func ParseZRevRangeByScore(v0 redis.BaseCmd) (ZRevRangeByScore, error) { v1 := ZRevRangeByScore{BaseCmd: v0} v2 := parser.New( parser.String(&v1.key), parser.Float(&v1.min), parser.Float(&v1.max), parser.Flag(\"withscores\", &v1.withScores), parser.Named(\"limit\", parser.Int(&v1.offset), parser.Int(&v1.count)), ).Required(3).Run(v1.Args()) if v2 != nil { return ZRevRangeByScore{}, v2 } return v1, nil }"
def runText_zset_ParseZRevRangeByScore : String := "func (v0 ZRevRangeByScore) Run(v1 redis.Writer, v2 redis.Redka) (any, error) { v3 := v2.ZSet().RangeWith(v0.key).ByScore(v0.min, v0.max).Desc() if v0.offset > 0 { v3 = v3.Offset(v0.offset) } if v0.count > 0 { v3 = v3.Count(v0.count) } v4, v5 := v3.Run() if v5 != nil { v1.WriteError(v0.Error(v5)) return nil, v5 } if v0.withScores { v1.WriteArray(len(v4) * 2) for _, v6 := range v4 { v1.WriteBulk(v6.Elem) redis.WriteFloat(v1, v6.Score) } } else { v1.WriteArray(len(v4)) for _, v7 := range v4 { v1.WriteBulk(v7.Elem) } } return v4, nil }"
/-- `zset.ParseZRevRangeByScore` -/
def src_zset_ParseZRevRangeByScore : CmdSrc :=
  { fn := "zset.ParseZRevRangeByScore", ty := "zset.ZRevRangeByScore",
    parse := parseText_zset_ParseZRevRangeByScore,
    run := runText_zset_ParseZRevRangeByScore,
    calls := ["ZSet.RangeWith"],
    methods := ["ByScore", "Count", "Desc", "Error", "Offset", "RangeWith", "Run", "WriteArray", "WriteBulk", "WriteError", "WriteFloat", "ZSet"],
    writes := ["WriteArray", "WriteBulk", "WriteError", "WriteFloat"] }

def parseText_zset_ParseZRevRank : String := "func ParseZRevRank(v0 redis.BaseCmd) (ZRevRank, error) { v1 := ZRevRank{BaseCmd: v0} v2 := parser.New( parser.String(&v1.key), parser.String(&v1.member), parser.Flag(\"withscore\", &v1.withScore), ).Required(2).Run(v1.Args()) if v2 != nil { return ZRevRank{}, v2 } return v1, nil }"
def runText_zset_ParseZRevRank : String := "func (v0 ZRevRank) Run(v1 redis.Writer, v2 redis.Redka) (any, error) { v3, v4, v5 := v2.ZSet().GetRankRev(v0.key, v0.member) if v5 == core.ErrNotFound { v1.WriteNull() return nil, nil } if v5 != nil { v1.WriteError(v0.Error(v5)) return nil, v5 } if v0.withScore { v1.WriteArray(2) v1.WriteInt(v3) redis.WriteFloat(v1, v4) return v3, nil } v1.WriteInt(v3) return v3, nil }"
/-- `zset.ParseZRevRank` -/
def src_zset_ParseZRevRank : CmdSrc :=
  { fn := "zset.ParseZRevRank", ty := "zset.ZRevRank",
    parse := parseText_zset_ParseZRevRank,
    run := runText_zset_ParseZRevRank,
    calls := ["ZSet.GetRankRev"],
    methods := ["Error", "GetRankRev", "WriteArray", "WriteError", "WriteFloat", "WriteInt", "WriteNull", "ZSet"],
    writes := ["WriteArray", "WriteError", "WriteFloat", "WriteInt", "WriteNull"] }

def parseText_zset_ParseZScan : String := "func ParseZScan(v0 redis.BaseCmd) (ZScan, error) { v1 := ZScan{BaseCmd: v0} v2 := parser.New( parser.String(&v1.key), parser.Int(&v1.cursor), parser.Named(\"match\", parser.String(&v1.match)), parser.Named(\"count\", parser.Int(&v1.count)), ).Required(2).Run(v1.Args()) if v2 != nil { return ZScan{}, v2 } if v1.match == \"\" { v1.match = \"*\" } return v1, nil }"
def runText_zset_ParseZScan : String := "func (v0 ZScan) Run(v1 redis.Writer, v2 redis.Redka) (any, error) { v3, v4 := v2.ZSet().Scan(v0.key, v0.cursor, v0.match, v0.count) if v4 != nil { v1.WriteError(v0.Error(v4)) return nil, v4 } v1.WriteArray(2) v1.WriteInt(v3.Cursor) v1.WriteArray(len(v3.Items) * 2) for _, v5 := range v3.Items { v1.WriteBulk(v5.Elem) redis.WriteFloat(v1, v5.Score) } return v3, nil }"
/-- `zset.ParseZScan` -/
def src_zset_ParseZScan : CmdSrc :=
  { fn := "zset.ParseZScan", ty := "zset.ZScan",
    parse := parseText_zset_ParseZScan,
    run := runText_zset_ParseZScan,
    calls := ["ZSet.Scan"],
    methods := ["Error", "Scan", "WriteArray", "WriteBulk", "WriteError", "WriteFloat", "WriteInt", "ZSet"],
    writes := ["WriteArray", "WriteBulk", "WriteError", "WriteFloat", "WriteInt"] }

def parseText_zset_ParseZScore : String := "func ParseZScore(v0 redis.BaseCmd) (ZScore, error) { v1 := ZScore{BaseCmd: v0} v2 := parser.New( parser.String(&v1.key), parser.String(&v1.member), ).Required(2).Run(v1.Args()) if v2 != nil { return ZScore{}, v2 } return v1, nil }"
def runText_zset_ParseZScore : String := "func (v0 ZScore) Run(v1 redis.Writer, v2 redis.Redka) (any, error) { v3, v4 := v2.ZSet().GetScore(v0.key, v0.member) if v4 == core.ErrNotFound { v1.WriteNull() return nil, nil } if v4 != nil { v1.WriteError(v0.Error(v4)) return nil, v4 } redis.WriteFloat(v1, v3) return v3, nil }"
/-- `zset.ParseZScore` -/
def src_zset_ParseZScore : CmdSrc :=
  { fn := "zset.ParseZScore", ty := "zset.ZScore",
    parse := parseText_zset_ParseZScore,
    run := runText_zset_ParseZScore,
    calls := ["ZSet.GetScore"],
    methods := ["Error", "GetScore", "WriteError", "WriteFloat", "WriteNull", "ZSet"],
    writes := ["WriteError", "WriteFloat", "WriteNull"] }

def parseText_zset_ParseZUnion : String := "func ParseZUnion(v0 redis.BaseCmd) (ZUnion, error) { v1 := ZUnion{BaseCmd: v0} var v2 int v3 := parser.New( parser.Int(&v2), parser.StringsN(&v1.keys, &v2), parser.Named(\"aggregate\", parser.Enum(&v1.aggregate, sqlx.Sum, sqlx.Min, sqlx.Max)), parser.Flag(\"withscores\", &v1.withScores), ).Required(2).Run(v1.Args()) if v3 != nil { return ZUnion{}, v3 } return v1, nil }"
def runText_zset_ParseZUnion : String := "func (v0 ZUnion) Run(v1 redis.Writer, v2 redis.Redka) (any, error) { v3 := v2.ZSet().UnionWith(v0.keys...) switch v0.aggregate { case sqlx.Min: v3 = v3.Min() case sqlx.Max: v3 = v3.Max() case sqlx.Sum: v3 = v3.Sum() } v4, v5 := v3.Run() if v5 != nil { v1.WriteError(v0.Error(v5)) return nil, v5 } if v0.withScores { v1.WriteArray(len(v4) * 2) for _, v6 := range v4 { v1.WriteBulk(v6.Elem) redis.WriteFloat(v1, v6.Score) } } else { v1.WriteArray(len(v4)) for _, v7 := range v4 { v1.WriteBulk(v7.Elem) } } return v4, nil }"
/-- `zset.ParseZUnion` -/
def src_zset_ParseZUnion : CmdSrc :=
  { fn := "zset.ParseZUnion", ty := "zset.ZUnion",
    parse := parseText_zset_ParseZUnion,
    run := runText_zset_ParseZUnion,
    calls := ["ZSet.UnionWith"],
    methods := ["Error", "Max", "Min", "Run", "Sum", "UnionWith", "WriteArray", "WriteBulk", "WriteError", "WriteFloat", "ZSet"],
    writes := ["WriteArray", "WriteBulk", "WriteError", "WriteFloat"] }

def parseText_zset_ParseZUnionStore : String := "func ParseZUnionStore(v0 redis.BaseCmd) (ZUnionStore, error) { v1 := ZUnionStore{BaseCmd: v0} var v2 int v3 := parser.New( parser.String(&v1.dest), parser.Int(&v2), parser.StringsN(&v1.keys, &v2), parser.Named(\"aggregate\", parser.Enum(&v1.aggregate, sqlx.Sum, sqlx.Min, sqlx.Max)), ).Required(3).Run(v1.Args()) if v3 != nil { return ZUnionStore{}, v3 } return v1, nil }"
def runText_zset_ParseZUnionStore : String := "func (v0 ZUnionStore) Run(v1 redis.Writer, v2 redis.Redka) (any, error) { v3 := v2.ZSet().UnionWith(v0.keys...).Dest(v0.dest) switch v0.aggregate { case sqlx.Min: v3 = v3.Min() case sqlx.Max: v3 = v3.Max() case sqlx.Sum: v3 = v3.Sum() } v4, v5 := v3.Store() if v5 != nil { v1.WriteError(v0.Error(v5)) return nil, v5 } v1.WriteInt(v4) return v4, nil }"
/-- `zset.ParseZUnionStore` -/
def src_zset_ParseZUnionStore : CmdSrc :=
  { fn := "zset.ParseZUnionStore", ty := "zset.ZUnionStore",
    parse := parseText_zset_ParseZUnionStore,
    run := runText_zset_ParseZUnionStore,
    calls := ["ZSet.UnionWith"],
    methods := ["Dest", "Error", "Max", "Min", "Store", "Sum", "UnionWith", "WriteError", "WriteInt", "ZSet"],
    writes := ["WriteError", "WriteInt"] }

def cmdSrcs : List CmdSrc := [
  src_conn_ParseEcho,
  src_conn_ParsePing,
  src_conn_ParseSelect,
  src_hash_ParseHDel,
  src_hash_ParseHExists,
  src_hash_ParseHGet,
  src_hash_ParseHGetAll,
  src_hash_ParseHIncrBy,
  src_hash_ParseHIncrByFloat,
  src_hash_ParseHKeys,
  src_hash_ParseHLen,
  src_hash_ParseHMGet,
  src_hash_ParseHMSet,
  src_hash_ParseHScan,
  src_hash_ParseHSet,
  src_hash_ParseHSetNX,
  src_hash_ParseHVals,
  src_key_ParseDel,
  src_key_ParseExists,
  src_key_ParseExpire,
  src_key_ParseExpireAt,
  src_key_ParseFlushDB,
  src_key_ParseKeys,
  src_key_ParsePersist,
  src_key_ParseRandomKey,
  src_key_ParseRename,
  src_key_ParseRenameNX,
  src_key_ParseScan,
  src_key_ParseTTL,
  src_key_ParseType,
  src_list_ParseLIndex,
  src_list_ParseLInsert,
  src_list_ParseLLen,
  src_list_ParseLPop,
  src_list_ParseLPush,
  src_list_ParseLRange,
  src_list_ParseLRem,
  src_list_ParseLSet,
  src_list_ParseLTrim,
  src_list_ParseRPop,
  src_list_ParseRPopLPush,
  src_list_ParseRPush,
  src_server_ParseConfig,
  src_server_ParseDBSize,
  src_server_ParseLolwut,
  src_server_ParseOK,
  src_server_ParseUnknown,
  src_set_ParseSAdd,
  src_set_ParseSCard,
  src_set_ParseSDiff,
  src_set_ParseSDiffStore,
  src_set_ParseSInter,
  src_set_ParseSInterStore,
  src_set_ParseSIsMember,
  src_set_ParseSMembers,
  src_set_ParseSMove,
  src_set_ParseSPop,
  src_set_ParseSRandMember,
  src_set_ParseSRem,
  src_set_ParseSScan,
  src_set_ParseSUnion,
  src_set_ParseSUnionStore,
  src_string_ParseGet,
  src_string_ParseGetSet,
  src_string_ParseIncr,
  src_string_ParseIncrBy,
  src_string_ParseIncrByFloat,
  src_string_ParseMGet,
  src_string_ParseMSet,
  src_string_ParseSet,
  src_string_ParseSetEX,
  src_string_ParseSetNX,
  src_string_ParseStrlen,
  src_zset_ParseZAdd,
  src_zset_ParseZCard,
  src_zset_ParseZCount,
  src_zset_ParseZIncrBy,
  src_zset_ParseZInter,
  src_zset_ParseZInterStore,
  src_zset_ParseZRange,
  src_zset_ParseZRangeByScore,
  src_zset_ParseZRank,
  src_zset_ParseZRem,
  src_zset_ParseZRemRangeByRank,
  src_zset_ParseZRemRangeByScore,
  src_zset_ParseZRevRange,
  src_zset_ParseZRevRangeByScore,
  src_zset_ParseZRevRank,
  src_zset_ParseZScan,
  src_zset_ParseZScore,
  src_zset_ParseZUnion,
  src_zset_ParseZUnionStore
]

/-- struct type ↦ repository methods its `Run` calls (the `calls` facet alone) -/
def runCalls : List (String × List String) := [
  ("conn.Echo", []),
  ("conn.Ping", []),
  ("conn.Select", []),
  ("hash.HDel", ["Hash.Delete"]),
  ("hash.HExists", ["Hash.Exists"]),
  ("hash.HGet", ["Hash.Get"]),
  ("hash.HGetAll", ["Hash.Items"]),
  ("hash.HIncrBy", ["Hash.Incr"]),
  ("hash.HIncrByFloat", ["Hash.IncrFloat"]),
  ("hash.HKeys", ["Hash.Fields"]),
  ("hash.HLen", ["Hash.Len"]),
  ("hash.HMGet", ["Hash.GetMany"]),
  ("hash.HMSet", ["Hash.SetMany"]),
  ("hash.HScan", ["Hash.Scan"]),
  ("hash.HSet", ["Hash.SetMany"]),
  ("hash.HSetNX", ["Hash.SetNotExists"]),
  ("hash.HVals", ["Hash.Values"]),
  ("key.Del", ["Key.Delete"]),
  ("key.Exists", ["Key.Count"]),
  ("key.Expire", ["Key.Expire"]),
  ("key.ExpireAt", ["Key.ExpireAt"]),
  ("key.FlushDB", ["Key.DeleteAll"]),
  ("key.Keys", ["Key.Keys"]),
  ("key.Persist", ["Key.Persist"]),
  ("key.RandomKey", ["Key.Random"]),
  ("key.Rename", ["Key.Rename"]),
  ("key.RenameNX", ["Key.RenameNotExists"]),
  ("key.Scan", ["Key.Scan"]),
  ("key.TTL", ["Key.Get"]),
  ("key.Type", ["Key.Get"]),
  ("list.LIndex", ["List.Get"]),
  ("list.LInsert", ["List.InsertBefore", "List.InsertAfter"]),
  ("list.LLen", ["List.Len"]),
  ("list.LPop", ["List.PopFront"]),
  ("list.LPush", ["List.PushFront"]),
  ("list.LRange", ["List.Range"]),
  ("list.LRem", ["List.DeleteFront", "List.DeleteBack", "List.Delete"]),
  ("list.LSet", ["List.Set"]),
  ("list.LTrim", ["List.Trim"]),
  ("list.RPop", ["List.PopBack"]),
  ("list.RPopLPush", ["List.PopBackPushFront"]),
  ("list.RPush", ["List.PushBack"]),
  ("server.Config", []),
  ("server.DBSize", ["Key.Len"]),
  ("server.Lolwut", []),
  ("server.OK", []),
  ("server.Unknown", []),
  ("set.SAdd", ["Set.Add"]),
  ("set.SCard", ["Set.Len"]),
  ("set.SDiff", ["Set.Diff"]),
  ("set.SDiffStore", ["Set.DiffStore"]),
  ("set.SInter", ["Set.Inter"]),
  ("set.SInterStore", ["Set.InterStore"]),
  ("set.SIsMember", ["Set.Exists"]),
  ("set.SMembers", ["Set.Items"]),
  ("set.SMove", ["Set.Move"]),
  ("set.SPop", ["Set.Pop"]),
  ("set.SRandMember", ["Set.Random"]),
  ("set.SRem", ["Set.Delete"]),
  ("set.SScan", ["Set.Scan"]),
  ("set.SUnion", ["Set.Union"]),
  ("set.SUnionStore", ["Set.UnionStore"]),
  ("string.Get", ["Str.Get"]),
  ("string.GetSet", ["Str.SetWith"]),
  ("string.Incr", ["Str.Incr"]),
  ("string.IncrBy", ["Str.Incr"]),
  ("string.IncrByFloat", ["Str.IncrFloat"]),
  ("string.MGet", ["Str.GetMany"]),
  ("string.MSet", ["Str.SetMany"]),
  ("string.Set", ["Str.SetExpires", "Str.SetWith"]),
  ("string.SetEX", ["Str.SetExpires"]),
  ("string.SetNX", ["Str.SetWith"]),
  ("string.Strlen", ["Str.Get"]),
  ("zset.ZAdd", ["ZSet.AddMany"]),
  ("zset.ZCard", ["ZSet.Len"]),
  ("zset.ZCount", ["ZSet.Count"]),
  ("zset.ZIncrBy", ["ZSet.Incr"]),
  ("zset.ZInter", ["ZSet.InterWith"]),
  ("zset.ZInterStore", ["ZSet.InterWith"]),
  ("zset.ZRange", ["ZSet.RangeWith"]),
  ("zset.ZRangeByScore", ["ZSet.RangeWith"]),
  ("zset.ZRank", ["ZSet.GetRank"]),
  ("zset.ZRem", ["ZSet.Delete"]),
  ("zset.ZRemRangeByRank", ["ZSet.DeleteWith"]),
  ("zset.ZRemRangeByScore", ["ZSet.DeleteWith"]),
  ("zset.ZRevRange", ["ZSet.RangeWith"]),
  ("zset.ZRevRangeByScore", ["ZSet.RangeWith"]),
  ("zset.ZRevRank", ["ZSet.GetRankRev"]),
  ("zset.ZScan", ["ZSet.Scan"]),
  ("zset.ZScore", ["ZSet.GetScore"]),
  ("zset.ZUnion", ["ZSet.UnionWith"]),
  ("zset.ZUnionStore", ["ZSet.UnionWith"])
]

def helperText_key_toTypeID : String := "func toTypeID(v0 string) core.TypeID { switch v0 { case TypeHash: return core.TypeHash case TypeList: return core.TypeList case TypeSet: return core.TypeSet case TypeString: return core.TypeString case TypeZSet: return core.TypeZSet default: return core.TypeAny } }"
def helperText_server_ConfigGet_Run : String := "func (v0 ConfigGet) Run(v1 redis.Writer, _ redis.Redka) (any, error) { v1.WriteArray(2) v1.WriteString(\"databases\") v1.WriteInt(1) return true, nil }"
def helperText_server_ParseConfigGet : String := "func ParseConfigGet(v0 [][]byte) (ConfigGet, error) { if len(v0) < 1 { return ConfigGet{}, redis.ErrInvalidArgNum } v1 := ConfigGet{params: make([]string, len(v0))} for v2, v3 := range v0 { v1.params[v2] = string(v3) } return v1, nil }"

/-- every other function or method of internal/command/*: name, source -/
def helpers : List (String × String) := [
  ("key.toTypeID", helperText_key_toTypeID),
  ("server.ConfigGet.Run", helperText_server_ConfigGet_Run),
  ("server.ParseConfigGet", helperText_server_ParseConfigGet)
]

/-- the rows of the `Command / Go API` tables of docs/commands/*.md -/
def docs : List (String × String) := [
  ("HDEL", "Hash.Delete"),
  ("HEXISTS", "Hash.Exists"),
  ("HGET", "Hash.Get"),
  ("HGETALL", "Hash.Items"),
  ("HINCRBY", "Hash.Incr"),
  ("HINCRBYFLOAT", "Hash.IncrFloat"),
  ("HKEYS", "Hash.Keys"),
  ("HLEN", "Hash.Len"),
  ("HMGET", "Hash.GetMany"),
  ("HMSET", "Hash.SetMany"),
  ("HSCAN", "Hash.Scanner"),
  ("HSET", "Hash.SetMany"),
  ("HSETNX", "Hash.SetNotExists"),
  ("HVALS", "Hash.Exists"),
  ("DBSIZE", "Key.Len"),
  ("DEL", "Key.Delete"),
  ("EXISTS", "Key.Count"),
  ("EXPIRE", "Key.Expire"),
  ("EXPIREAT", "Key.ExpireAt"),
  ("FLUSHALL", "Key.DeleteAll"),
  ("FLUSHDB", "Key.DeleteAll"),
  ("KEYS", "Key.Keys"),
  ("PERSIST", "Key.Persist"),
  ("PEXPIRE", "Key.Expire"),
  ("PEXPIREAT", "Key.ExpireAt"),
  ("RANDOMKEY", "Key.Random"),
  ("RENAME", "Key.Rename"),
  ("RENAMENX", "Key.RenameNotExists"),
  ("SCAN", "Key.Scanner"),
  ("TTL", "Key.Get"),
  ("TYPE", "Key.Get"),
  ("LINDEX", "List.Get"),
  ("LINSERT", "List.Insert*"),
  ("LLEN", "List.Len"),
  ("LPOP", "List.PopFront"),
  ("LPUSH", "List.PushFront"),
  ("LRANGE", "List.Range"),
  ("LREM", "List.Delete*"),
  ("LSET", "List.Set"),
  ("LTRIM", "List.Trim"),
  ("RPOP", "List.PopBack"),
  ("RPOPLPUSH", "List.PopBackPushFront"),
  ("RPUSH", "List.PushBack"),
  ("ECHO", "-"),
  ("LOLWUT", "-"),
  ("PING", "-"),
  ("SELECT", "-"),
  ("SADD", "Set.Add"),
  ("SCARD", "Set.Len"),
  ("SDIFF", "Set.Diff"),
  ("SDIFFSTORE", "Set.DiffStore"),
  ("SINTER", "Set.Inter"),
  ("SINTERSTORE", "Set.InterStore"),
  ("SISMEMBER", "Set.Exists"),
  ("SMEMBERS", "Set.Items"),
  ("SMOVE", "Set.Move"),
  ("SPOP", "Set.Pop"),
  ("SRANDMEMBER", "Set.Random"),
  ("SREM", "Set.Delete"),
  ("SSCAN", "Set.Scanner"),
  ("SUNION", "Set.Union"),
  ("SUNIONSTORE", "Set.UnionStore"),
  ("ZADD", "ZSet.AddMany"),
  ("ZCARD", "ZSet.Len"),
  ("ZCOUNT", "ZSet.Count"),
  ("ZINCRBY", "ZSet.Incr"),
  ("ZINTER", "ZSet.InterWith"),
  ("ZINTERSTORE", "ZSet.InterWith"),
  ("ZRANGE", "ZSet.RangeWith"),
  ("ZRANGEBYSCORE", "ZSet.RangeWith"),
  ("ZRANK", "ZSet.GetRank"),
  ("ZREM", "ZSet.Delete"),
  ("ZREMRANGEBYRANK", "ZSet.DeleteWith"),
  ("ZREMRANGEBYSCORE", "ZSet.DeleteWith"),
  ("ZREVRANGE", "ZSet.RangeWith"),
  ("ZREVRANGEBYSCORE", "ZSet.RangeWith"),
  ("ZREVRANK", "ZSet.GetRankRev"),
  ("ZSCAN", "ZSet.Scan"),
  ("ZSCORE", "ZSet.GetScore"),
  ("ZUNION", "ZSet.UnionWith"),
  ("ZUNIONSTORE", "ZSet.UnionWith"),
  ("DECR", "Str.Incr"),
  ("DECRBY", "Str.Incr"),
  ("GET", "Str.Get"),
  ("GETSET", "Str.SetWith"),
  ("INCR", "Str.Incr"),
  ("INCRBY", "Str.Incr"),
  ("INCRBYFLOAT", "Str.IncrFloat"),
  ("MGET", "Str.GetMany"),
  ("MSET", "Str.SetMany"),
  ("PSETEX", "Str.SetExpires"),
  ("SET", "Str.Set"),
  ("SETEX", "Str.SetExpires"),
  ("SETNX", "Str.SetWith"),
  ("STRLEN", "Str.Get"),
  ("DISCARD", "View"),
  ("EXEC", "View"),
  ("MULTI", "View")
]

end Redka.Wire.Expected
