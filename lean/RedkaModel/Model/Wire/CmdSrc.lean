/-
  The shape of what `tools/extract_wire` (cmds.go) regenerates from the source of every command
  object of `internal/command/*` on every run: the `ParseXxx` function and the `Run` method of the
  type it returns as printed source (locals alpha-renamed), and structured facets of `Run`.
  Core Lean only.
-/
namespace Redka.Wire

structure CmdSrc where
  /-- `pkg.ParseXxx` -/
  fn : String
  /-- `pkg.Type` returned by the parse function -/
  ty : String
  /-- printed source of the parse function -/
  parse : String
  /-- printed source of `func (cmd Type) Run(w redis.Writer, red redis.Redka) (any, error)` -/
  run : String
  /-- repository methods called on `red`, in source order: `red.Str().SetWith(…)` ↦ `"Str.SetWith"` -/
  calls : List String
  /-- every method name called in the body of `Run` -/
  methods : List String
  /-- the `redis.Writer` methods (and `redis.WriteFloat`) called -/
  writes : List String
deriving DecidableEq, Repr

end Redka.Wire
