/-
  Closed witnesses about the wire model, checked by kernel evaluation (`decide +kernel`; no
  `native_decide`). They pin the listed deviations of the real code (each was also observed on the
  implementation by `verifharness wire`, see the request in the comment) and the repaired D11 and show that the model
  definitions reduce in the kernel, i.e. that theorems about them can be proved by computation.
-/
import RedkaModel.Model.Wire.Server

namespace Redka.Wire.Witness

open Redka Redka.Wire

def b (s : String) : Bytes := asciiBytes s

def isPanic : ParseOut → Bool | .panic => true | _ => false
def isErr (e : RErr) : ParseOut → Bool | .error e' => e == e' | _ => false
def cmdOf : ParseOut → Option Cmd | .ok c => some c.cmd | _ => none

/-! ### D11 (repaired): a negative `numkeys` is refused by `parser.StringsN` with the
wrong-number-of-arguments error (four commands); it used to panic in `make([]string, n)` -/

example : isErr .invalidArgNum (parse [b "ZINTER", b "-1", b "k1"]) = true := by decide +kernel
example : isErr .invalidArgNum (parse [b "zunion", b "-2", b "k1", b "k2", b "WITHSCORES"]) = true := by
  decide +kernel
example : isErr .invalidArgNum (parse [b "ZINTERSTORE", b "d", b "-1", b "k1"]) = true := by decide +kernel
example : isErr .invalidArgNum (parse [b "ZUNIONSTORE", b "d", b "-9223372036854775808", b "k1"]) = true := by
  decide +kernel
example : isPanic (parse [b "ZINTER", b "-1", b "k1"]) = false := by decide +kernel
-- with nothing after the count the arity check comes first
example : isErr .invalidArgNum (parse [b "ZINTER", b "-1"]) = true := by decide +kernel
-- a count larger than what follows is an arity error, zero keys is accepted
example : isErr .invalidArgNum (parse [b "ZINTER", b "2", b "k1"]) = true := by decide +kernel
example : cmdOf (parse [b "ZINTER", b "0", b "withscores"]) = some (.zinter [] [] true) := by decide +kernel

/-! ### D13 (repaired, `fix:` 3rd session): `parser.Enum` and the CONFIG sub-command fold case; the LOWERED value is kept -/

example : cmdOf (parse [b "LINSERT", b "k", b "BEFORE", b "p", b "e"])
    = some (.linsert (b "k") (b "before") (b "p") (b "e")) := by decide +kernel
example : cmdOf (parse [b "LINSERT", b "k", b "before", b "p", b "e"])
    = some (.linsert (b "k") (b "before") (b "p") (b "e")) := by decide +kernel
example : isErr .syntaxError (parse [b "LINSERT", b "k", b "BEFOR", b "p", b "e"]) = true := by decide +kernel
example : isErr .syntaxError (parse [b "SCAN", b "0", b "TYPE", b "STRING"]) = false := by decide +kernel
example : isErr .syntaxError (parse [b "ZUNION", b "1", b "k", b "AGGREGATE", b "SUM"]) = false := by decide +kernel
example : cmdOf (parse [b "CONFIG", b "GET", b "x"]) = some (.config (b "get") [b "x"]) := by decide +kernel
example : isErr .unknownSubcmd (parse [b "CONFIG", b "SET", b "x", b "y"]) = true := by decide +kernel
-- … while `Flag` and `Named` keywords and the command name fold case
example : cmdOf (parse [b "sEt", b "k", b "v", b "Nx", b "eX", b "100"])
    = some (.set (b "k") (b "v") true false false 100000 none false) := by decide +kernel
-- U+017F (long s) folds onto `s`: `withſcoreſ` is WITHSCORES
example : cmdOf (parse [b "ZRANGE", b "k", b "0", b "1",
      [0x77, 0x69, 0x74, 0x68, 0xC5, 0xBF, 0x63, 0x6F, 0x72, 0x65, 0xC5, 0xBF]])
    = some (.zrange (b "k") (.fin 0) (.fin 1) false false 0 0 true) := by decide +kernel

/-! ### D20: `SET k v EX 0` / `EX -1` are accepted and mean "no expiry" -/

example : cmdOf (parse [b "SET", b "k", b "v", b "EX", b "-1"])
    = some (.set (b "k") (b "v") false false false 0 none false) := by decide +kernel
example : cmdOf (parse [b "SET", b "k", b "v", b "PX", b "0"])
    = some (.set (b "k") (b "v") false false false 0 none false) := by decide +kernel
-- the only way to reach ErrInvalidExpireTime: int64 overflow of the duration
example : isErr .invalidExpireTime (parse [b "SET", b "k", b "v", b "EX", b "9223372036854775807"]) = true := by
  decide +kernel

/-! ### values that spell keywords stay values in positional slots -/

example : cmdOf (parse [b "SET", b "nx", b "xx"])
    = some (.set (b "nx") (b "xx") false false false 0 none false) := by decide +kernel
example : cmdOf (parse [b "SADD", b "k", b "limit", b "withscores"])
    = some (.sadd (b "k") [b "limit", b "withscores"]) := by decide +kernel
-- … but not after the positional slots: a member named `withscores` is taken as the flag
example : cmdOf (parse [b "ZRANK", b "k", b "m", b "withscore"]) = some (.zrank (b "k") (b "m") true) := by
  decide +kernel
-- options in any order, each at most once; mutually exclusive groups
example : cmdOf (parse [b "SET", b "k", b "v", b "GET", b "PXAT", b "5000", b "XX"])
    = some (.set (b "k") (b "v") false true true 0 (some 5000) false) := by decide +kernel
example : isErr .syntaxError (parse [b "SET", b "k", b "v", b "NX", b "XX"]) = true := by decide +kernel
example : isErr .syntaxError (parse [b "SET", b "k", b "v", b "NX", b "NX"]) = true := by decide +kernel
example : isErr .syntaxError (parse [b "SET", b "k", b "v", b "EX", b "100", b "PX", b "100000"]) = true := by
  decide +kernel
example : isErr .syntaxError (parse [b "ZRANGE", b "k", b "0", b "1", b "LIMIT", b "1"]) = true := by decide +kernel

/-! ### the handler chain -/

/-- a string `k1 = "7"` and a one-element list `k2 = [a]` -/
def db0 : DB :=
  { keys := [ { id := 1, key := b "k1", ty := TString, version := 1, etime := none, mtime := 1000, len := none },
              { id := 2, key := b "k2", ty := TList, version := 1, etime := none, mtime := 1000, len := some 1 } ]
    strs := [ { kid := 1, value := b "7" } ]
    lists := [ { kid := 2, pos := 0, elem := b "a" } ] }

def queued (reqs : List (List Bytes)) : List ParsedCmd :=
  reqs.filterMap (fun r => match parse r with | .ok c => some c | _ => none)

/-- parse errors are answered with the zero-valued command's (empty) name and leave the state alone -/
example : handle {} db0 2000 [b "GET"]
    = ({}, db0, [.err (b "ERR wrong number of arguments ()")]) := by decide +kernel

/-- MULTI / EXEC / DISCARD are parsed as unknown commands and popped again -/
example : handle {} db0 2000 [b "MULTI"] = ({ inMulti := true }, db0, [.str (b "OK")]) := by decide +kernel
example : handle {} db0 2000 [b "EXEC"] = ({}, db0, [.err (b "ERR EXEC without MULTI")]) := by decide +kernel
example : handle { inMulti := true } db0 2000 [b "multi"]
    = ({ inMulti := true }, db0, [.err (b "ERR MULTI calls can not be nested")]) := by decide +kernel

/-- queuing has no effect on the tables -/
example : (handle { inMulti := true } db0 2000 [b "INCR", b "k1"]).2
    = (db0, [.str (b "QUEUED")]) := by decide +kernel

/-- D12 (repaired): EXEC announces two replies, the first queued command fails, the second still runs and
writes its reply, the tables are rolled back and the queue is dropped (`MULTI; INCR k2; INCR k1; EXEC`) -/
example : handle { inMulti := true, cmds := queued [[b "INCR", b "k2"], [b "INCR", b "k1"]] } db0 2000 [b "EXEC"]
    = ({}, db0, [.arrayHdr 2, .err (b "key type mismatch (incr)"), .int 8]) := by decide +kernel

/-- atomicity side: an effect made before the failing command is rolled back too -/
example : (handle { inMulti := true, cmds := queued [[b "INCR", b "k1"], [b "INCR", b "k2"]] } db0 2000 [b "EXEC"])
    = ({}, db0, [.arrayHdr 2, .int 8, .err (b "key type mismatch (incr)")]) := by decide +kernel

/-- an unknown command inside the block: its error, then the reply of the next command; rolled back -/
example : (handle { inMulti := true, cmds := queued [[b "FOO"], [b "INCR", b "k1"]] } db0 2000 [b "EXEC"])
    = ({}, db0, [.arrayHdr 2, .err (b "ERR unknown command (foo)"), .int 8]) := by decide +kernel

/-- a block without failure: both replies, effects kept -/
example : (handle { inMulti := true, cmds := queued [[b "INCR", b "k1"], [b "LLEN", b "k2"]] } db0 2000 [b "EXEC"]).2.2
    = [.arrayHdr 2, .int 8, .int 1] := by decide +kernel

end Redka.Wire.Witness
