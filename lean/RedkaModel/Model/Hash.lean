/-
  `internal/rhash`: statements of tx.go, the `rhash_on_insert` trigger, and the Tx methods.
-/
import RedkaModel.Model.Key

namespace Redka.Model

open Redka

/-- rows of one hash in the order of the `(kid, field)` index -/
def hashRows (db : DB) (kid : Int) : List HashRow :=
  sortBy (fun a b => bytesLt a.field b.field) (db.hashes.filter (fun r => r.kid == kid))

/-- `sqlCount` -/
def hashCountRaw (db : DB) (k : Bytes) (fs : List Bytes) (now : Int) : Int :=
  match db.liveKeyT k THash now with
  | none => 0
  | some r => (db.hashes.filter (fun x => x.kid == r.id && fs.contains x.field)).length

/-- `sqlSet1` -/
def hashSetKey (db : DB) (k : Bytes) (now : Int) : Except Err (DB × KeyRow) :=
  keyUpsert db k THash
    (fun id => { id := id, key := k, ty := THash, version := 1, etime := none, mtime := now, len := some 0 })
    (fun o => { o with version := o.version + 1, mtime := now })

/-- `sqlSet2` with trigger `rhash_on_insert` (len + 1 only when the field is new) -/
def hashSetRow (db : DB) (kid : Int) (f v : Bytes) : DB :=
  if db.hashes.any (fun r => r.kid == kid && r.field == f) then
    { db with hashes := db.hashes.map (fun r =>
        if r.kid == kid && r.field == f then { r with value := v } else r) }
  else
    let db1 : DB := { db with hashes := db.hashes ++
      [({ rowid := db.nextHashRowid, kid := kid, field := f, value := v } : HashRow)] }
    db1.updKey kid (fun o => { o with len := o.len.map (· + 1) })

/-- `tx.set` -/
def hashSetTx (db : DB) (k f v : Bytes) (now : Int) : Except Err DB :=
  match hashSetKey db k now with
  | .error e => .error e
  | .ok (db1, r) => .ok (hashSetRow db1 r.id f v)

def hashSet (db : DB) (k f v : Bytes) (now : Int) : Res :=
  let c := hashCountRaw db k [f] now
  match hashSetTx db k f v now with
  | .error e => .err e db
  | .ok d => .ok (.bool (c == 0)) d

def hashSetManyLoop (db : DB) (k : Bytes) (now : Int) : List (Bytes × Bytes) → Except Err DB × DB
  | [] => (.ok db, db)
  | (f, v) :: rest =>
    match hashSetTx db k f v now with
    | .error e => (.error e, db)
    | .ok d => hashSetManyLoop d k now rest

def hashSetMany (db : DB) (k : Bytes) (items : List (Bytes × Bytes)) (now : Int) : Res :=
  let c := hashCountRaw db k (items.map (·.1)) now
  match hashSetManyLoop db k now items with
  | (.error e, d) => .err e d
  | (.ok _, d) => .ok (.int ((items.length : Int) - c)) d

def hashSetNotExists (db : DB) (k f v : Bytes) (now : Int) : Res :=
  if hashCountRaw db k [f] now > 0 then .ok (.bool false) db
  else
    match hashSetTx db k f v now with
    | .error e => .err e db
    | .ok d => .ok (.bool true) d

def hashDelete (db : DB) (k : Bytes) (fs : List Bytes) (now : Int) : Res :=
  match db.liveKeyT k THash now with
  | none => .ok (.int 0) db
  | some r =>
    let n : Int := (db.hashes.filter (fun x => x.kid == r.id && fs.contains x.field)).length
    if n == 0 then .ok (.int 0) db
    else
      let db1 := { db with hashes := db.hashes.filter (fun x => !(x.kid == r.id && fs.contains x.field)) }
      .ok (.int n) (db1.updKey r.id (fun o =>
        { o with version := o.version + 1, mtime := now, len := o.len.map (· - n) }))

def hashExists (db : DB) (k f : Bytes) (now : Int) : Res :=
  .ok (.bool (hashCountRaw db k [f] now > 0)) db

def hashGetRaw (db : DB) (k f : Bytes) (now : Int) : Option Bytes :=
  match db.liveKeyT k THash now with
  | none => none
  | some r => (db.hashes.find? (fun x => x.kid == r.id && x.field == f)).map (·.value)

def hashGet (db : DB) (k f : Bytes) (now : Int) : Res :=
  match hashGetRaw db k f now with
  | none => .err .notFound db
  | some v => .ok (.bytes v) db

def pairVal (p : Bytes × Bytes) : Val := .list [.bytes p.1, .bytes p.2]

def hashLiveRows (db : DB) (k : Bytes) (now : Int) : List HashRow :=
  match db.liveKeyT k THash now with
  | none => []
  | some r => hashRows db r.id

def hashGetMany (db : DB) (k : Bytes) (fs : List Bytes) (now : Int) : Res :=
  let rows := (hashLiveRows db k now).filter (fun x => fs.contains x.field)
  .ok (.list (rows.map (fun x => pairVal (x.field, x.value)))) db

def hashItems (db : DB) (k : Bytes) (now : Int) : Res :=
  .ok (.list ((hashLiveRows db k now).map (fun x => pairVal (x.field, x.value)))) db

def hashFields (db : DB) (k : Bytes) (now : Int) : Res :=
  .ok (.list ((hashLiveRows db k now).map (fun x => .bytes x.field))) db

/-- values, sorted by bytes (the API gives no order) -/
def hashValues (db : DB) (k : Bytes) (now : Int) : Res :=
  .ok (.list ((sortBy bytesLt ((hashLiveRows db k now).map (·.value))).map .bytes)) db

def hashLen (db : DB) (k : Bytes) (now : Int) : Res :=
  match db.liveKeyT k THash now with
  | none => .ok (.int 0) db
  | some r => match r.len with
    | some n => .ok (.int n) db
    | none => .err .sqlOther db

def hashIncr (db : DB) (k f : Bytes) (d : Int) (now : Int) : Res :=
  let cur := (hashGetRaw db k f now).getD []
  match valueInt cur with
  | none => .err .valueType db
  | some n =>
    let nv := wrap64 (n + d)
    match hashSetTx db k f (itoa nv) now with
    | .error e => .err e db
    | .ok dd => .ok (.int nv) dd

/-- `Tx.IncrFloat` (see `Model.strIncrFloat` for the numeric domain) -/
def hashIncrFloat (db : DB) (k f : Bytes) (d : Dyadic) (now : Int) : Res :=
  let cur := (hashGetRaw db k f now).getD []
  match valueFloat cur with
  | .invalid => .err .valueType db
  | .unknown => .err .outOfDomain db
  | .val x =>
    match formatFloatDec (f64add x d) with
    | none =>
      (match hashSetKey db k now with
       | .error e => .err e db
       | .ok _ => .err .outOfDomain db)
    | some txt =>
      match hashSetTx db k f txt now with
      | .error e => .err e db
      | .ok dd => .ok (.score (.fin (f64add x d))) dd

/-- `sqlScan`: no `order by`; the planner walks the `(kid, field)` index -/
def hashScan (db : DB) (k : Bytes) (cursor : Int) (pat : Bytes) (count : Int) (now : Int) : Res :=
  let count := if count == 0 then scanPageSize else count
  let rows := (hashLiveRows db k now).filter (fun x =>
    decide (x.rowid > cursor) && Glob.sqliteGlob pat x.field)
  let page := sqlLimit 0 count rows
  let cur := maxD 0 (page.map (·.rowid))
  .ok (.list [.int cur, .list (page.map (fun x => pairVal (x.field, x.value)))]) db

end Redka.Model
