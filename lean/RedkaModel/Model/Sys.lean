/-
  The background manager of `redka.go` (`startBgManager`, `new`, `Close`) as a small transition
  system over the table model.

  Source (pinned):
      const interval = 60 * time.Second
      const nKeys = 0
      ticker := time.NewTicker(interval)
      go func() { for range ticker.C { db.keyDB.DeleteExpired(nKeys) … } }()
  started in `new(...)` iff `!opts.readonly`; `Close` calls `db.bg.Stop()` first and then closes
  the two handles.

  The numbers and the wiring are NOT written down here: `periodMs`, `nKeysVal`, `bgWired`,
  `startsBg`, `closeStopsBg` are computed from the strings the translator extracts from the Go
  source on every run (`Generated/Consts.lean`), so a changed constant changes this model and breaks
  `Props.C20.period_is_one_minute` / `reclaimed_within_a_minute`.

  What the model cannot know about a real timer — that the runtime does deliver a tick at every
  multiple of the period — is the explicit hypothesis `TicksDelivered`.

  One tick is one `DeleteExpired` call, i.e. ONE SQL `delete` statement, which SQLite executes
  atomically: that is why a tick is a single atomic event between operations.  (Operations are
  `DB`-level methods, each one transaction.)  What happens to operations after `Close` (the handles
  are closed, every call fails) is not modelled: `close` only stops the reclamation.

  Core Lean only.
-/
import RedkaModel.Model.Run
import RedkaModel.Generated.Consts

namespace Redka.Sys

open Redka

/-! ### a tiny parser for the two extracted constants -/

/-- leading decimal digits; `none` when there is none -/
def digitsOf : List Char → Nat → Bool → Option (Nat × List Char)
  | c :: cs, acc, seen =>
    if c.isDigit then digitsOf cs (acc * 10 + (c.toNat - 48)) true
    else if seen then some (acc, c :: cs) else none
  | [], acc, seen => if seen then some (acc, []) else none

/-- milliseconds of a `time` unit as it appears after the number in `N * time.Unit` -/
def unitMs (u : List Char) : Option Int :=
  if u = " * time.Millisecond".toList then some 1
  else if u = " * time.Second".toList then some 1000
  else if u = " * time.Minute".toList then some 60000
  else if u = " * time.Hour".toList then some 3600000
  else none

/-- `"60 * time.Second"` ↦ `some 60000` -/
def parseDurationMs (s : String) : Option Int :=
  match digitsOf s.toList 0 false with
  | some (n, rest) => (unitMs rest).map (fun u => (n : Int) * u)
  | none => none

/-- a Go integer literal in decimal, optional minus sign -/
def parseIntLit (s : String) : Option Int :=
  match s.toList with
  | '-' :: r => (match digitsOf r 0 false with | some (n, []) => some (-(n : Int)) | _ => none)
  | r => (match digitsOf r 0 false with | some (n, []) => some (n : Int) | _ => none)

example : parseDurationMs "5 * time.Minute" = some 300000 := by decide
example : parseDurationMs "30 * time.Second" = some 30000 := by decide
example : parseDurationMs "time.Minute" = none := by decide
example : parseDurationMs "60 * time.Fortnight" = none := by decide
example : parseIntLit "-12" = some (-12) := by decide
example : parseIntLit "100" = some 100 := by decide
example : parseIntLit "1x" = none := by decide

/-! ### the constants of `startBgManager`, read from the extracted source -/

/-- `const interval`, in milliseconds (the unit of `etime` and of every `now` in the model);
`0` when the source expression is not of the form `N * time.Unit` -/
def periodMs : Int := (parseDurationMs Generated.c_bg_interval).getD 0

/-- `const nKeys`; when unparsable, `1` (the weakest cleaner: one key per tick) -/
def nKeysVal : Int := (parseIntLit Generated.c_bg_nKeys).getD 1

/-- the goroutine is `for range ticker.C { db.keyDB.DeleteExpired(nKeys) }` over
`time.NewTicker(interval)` -/
def bgWired : Bool :=
  decide (Generated.c_bg_ticker = "time.NewTicker(interval)") &&
  decide (Generated.c_bg_loop = "range ticker.C") &&
  decide (Generated.c_bg_deleteExpired = "db.keyDB.DeleteExpired(nKeys)")

/-- `new`: `if !opts.readonly { rdb.bg = rdb.startBgManager() }` -/
def startsBg (readonly : Bool) : Bool :=
  bgWired && decide (Generated.c_new_bgStart = "[!opts.readonly] rdb.startBgManager()") && !readonly

/-- `Close` stops the ticker (before it closes the handles) -/
def closeStopsBg : Bool :=
  decide (Generated.c_close_calls = "db.bg.Stop(); db.RW.Close(); db.RO.Close()")

/-! ### the manager -/

structure Bg where
  /-- ticker period, ms -/
  period : Int
  /-- argument of `DeleteExpired` -/
  nKeys : Int
  /-- the ticker exists and has not been stopped -/
  running : Bool
  /-- the time `time.NewTicker` was called (the database was opened), ms -/
  t0 : Int
deriving DecidableEq, Repr

/-- the manager of a database opened at `t0` -/
def Bg.start (readonly : Bool) (t0 : Int) : Bg :=
  { period := periodMs, nKeys := nKeysVal, running := startsBg readonly, t0 := t0 }

/-- `Close` -/
def Bg.close (bg : Bg) : Bg := { bg with running := bg.running && !closeStopsBg }

/-- the `k`-th tick (`k ≥ 1`) of `time.NewTicker(period)` created at `t0` -/
def tickAt (bg : Bg) (k : Nat) : Int := bg.t0 + (k : Int) * bg.period

/-- `t` is one of the instants at which the ticker fires -/
def IsTickTime (bg : Bg) (t : Int) : Prop := ∃ k : Nat, 1 ≤ k ∧ t = tickAt bg k

/-- the tick instants up to `horizon` (inclusive), while running -/
def tickTimes (bg : Bg) (horizon : Int) : List Int :=
  if bg.running && decide (0 < bg.period) then
    (List.range ((horizon - bg.t0) / bg.period).toNat).map (fun i => tickAt bg (i + 1))
  else []

/-- what one tick does to the tables: `db.keyDB.DeleteExpired(nKeys)` at time `now` -/
def tick (bg : Bg) (now : Int) (db : DB) : DB := (Model.keyDeleteExpired db bg.nKeys now).db

/-! ### event-list semantics -/

inductive Ev where
  /-- a client calls a `DB`-level method at time `now` -/
  | op (o : Op) (now : Int)
  /-- the ticker fires at time `now` -/
  | tick (now : Int)
  /-- `DB.Close` -/
  | close

def Ev.isTick : Ev → Bool
  | .tick _ => true
  | _ => false

def Ev.isClose : Ev → Bool
  | .close => true
  | _ => false

def Ev.time? : Ev → Option Int
  | .op _ now => some now
  | .tick now => some now
  | .close => none

/-- one event; a tick of a stopped (or never started) ticker does nothing -/
def step (bg : Bg) (db : DB) : Ev → Bg × DB
  | .op o now => (bg, (Model.dbRun o now db).db)
  | .tick now => if bg.running then (bg, tick bg now db) else (bg, db)
  | .close => (bg.close, db)

def runEvents (bg : Bg) (db : DB) : List Ev → Bg × DB
  | [] => (bg, db)
  | ev :: rest => runEvents (step bg db ev).1 (step bg db ev).2 rest

/-- what the clients see: each operation with its result, in order -/
def outputs (bg : Bg) (db : DB) : List Ev → List (Op × Out)
  | [] => []
  | .op o now :: rest => (o, (Model.dbRun o now db).out) :: outputs bg (Model.dbRun o now db).db rest
  | ev :: rest => outputs (step bg db ev).1 (step bg db ev).2 rest

/-- the same history without the reclamation -/
def dropTicks (evs : List Ev) : List Ev := evs.filter (fun ev => !ev.isTick)

/-- the operations of a history -/
def opsOf : List Ev → List Op
  | [] => []
  | .op o _ :: rest => o :: opsOf rest
  | _ :: rest => opsOf rest

/-! ### well-formed histories -/

def evTimes (evs : List Ev) : List Int := evs.filterMap Ev.time?

/-- the clock never runs backwards: event times are non-decreasing and not before `t` -/
def TimesFrom (t : Int) (evs : List Ev) : Prop := (t :: evTimes evs).Pairwise (· ≤ ·)

/-- tick events only occur at the ticker's instants -/
def TicksOnSchedule (bg : Bg) (evs : List Ev) : Prop := ∀ t, Ev.tick t ∈ evs → IsTickTime bg t

/-- THE SCHEDULER HYPOTHESIS.  Up to the horizon the runtime delivers every tick, and it does so
before the database is closed: for every `k ≥ 1` with `t0 + k·period ≤ horizon` the history contains
the event `tick (t0 + k·period)` with no `close` before it.  Nothing in the model can prove this
about a real `time.Ticker` (a ticker drops ticks for slow receivers; the goroutine may be starved);
the reclamation-delay theorems take it as an explicit premise. -/
def TicksDelivered (bg : Bg) (evs : List Ev) (horizon : Int) : Prop :=
  ∀ k : Nat, 1 ≤ k → tickAt bg k ≤ horizon →
    ∃ pre post, evs = pre ++ Ev.tick (tickAt bg k) :: post ∧ Ev.close ∉ pre

structure WellFormed (bg : Bg) (evs : List Ev) (horizon : Int) : Prop where
  mono : TimesFrom bg.t0 evs
  onSchedule : TicksOnSchedule bg evs
  delivered : TicksDelivered bg evs horizon

end Redka.Sys
